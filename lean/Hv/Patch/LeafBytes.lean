/-
  Leaf bytes are source slices: every leaf of a parsed document is a contiguous slice of the
  body it was parsed from (`parse_leaf_infix`), and every leaf of a tree is written verbatim
  into the serialised body (`leaf_infix_serialize`).  Together with `walk_off` (an untouched
  sub-tree is the identical `Node`) this is "untouched values keep their exact bytes".
-/
import Hv.Patch.Untouched
import Hv.Patch.SkeletonLemmas

namespace Hv.Patch

theorem infix_mid {α : Type} (a x b : List α) {raw : List α} (h : raw <:+: x) : raw <:+: a ++ x ++ b :=
  h.trans ⟨a, b, rfl⟩

theorem countOf_ok {c : UInt8} {r r' : Bytes} {n : Nat} (h : countOf c r = .ok (n, r')) :
    ∃ hd, r = hd ++ r' := by
  unfold countOf at h
  split at h
  · simp only [Except.ok.injEq, Prod.mk.injEq] at h; exact ⟨[], by simp [h.2]⟩
  · simp only [Except.ok.injEq, Prod.mk.injEq] at h; exact ⟨[], by simp [h.2]⟩
  · obtain ⟨hd, hb, _, _⟩ := readBE_ok h; exact ⟨hd, hb⟩
  · obtain ⟨hd, hb, _, _⟩ := readBE_ok h; exact ⟨hd, hb⟩
  · cases h

theorem strPayload_ok {c : UInt8} {r k r1 : Bytes} (h : strPayload c r = .ok (k, r1)) :
    ∃ hd, r = hd ++ r1 := by
  unfold strPayload at h
  split at h
  · obtain ⟨hb, _⟩ := splitN_ok h; exact ⟨k, hb⟩
  · split at h
    · cases h
    · rename_i m r' hr
      obtain ⟨hd, hb, _, _⟩ := readBE_ok hr
      obtain ⟨hb2, _⟩ := splitN_ok h
      exact ⟨hd ++ k, by rw [hb, hb2, List.append_assoc]⟩
  · cases h

theorem getAt_leaf {raw raw' : Bytes} {q : List Nat} (h : getAt (.leaf raw) q = some (.leaf raw')) :
    q = [] ∧ raw' = raw := by
  cases q with
  | nil => rw [getAt] at h; injection h with h; injection h with h; exact ⟨rfl, h.symm⟩
  | cons j q => rw [getAt] at h; simp [getChild] at h

/-- every leaf of a parsed (sub-)document is a slice of the bytes that (sub-)parse consumed -/
theorem leaves_infix : ∀ f : Nat,
    (∀ b t rest, parseNodeG false f b = .ok (t, rest) →
      ∃ pre, b = pre ++ rest ∧ ∀ q raw, getAt t q = some (.leaf raw) → raw <:+: pre) ∧
    (∀ n b fs rest, parseFieldsG false f n b = .ok (fs, rest) →
      ∃ pre, b = pre ++ rest ∧ ∀ (j : Nat) (k : Bytes) (c : Node), fs[j]? = some (k, c) →
        ∀ q raw, getAt c q = some (.leaf raw) → raw <:+: pre) ∧
    (∀ n b xs rest, parseItemsG false f n b = .ok (xs, rest) →
      ∃ pre, b = pre ++ rest ∧ ∀ (j : Nat) (c : Node), xs[j]? = some c →
        ∀ q raw, getAt c q = some (.leaf raw) → raw <:+: pre) := by
  intro f
  induction f with
  | zero =>
    refine ⟨?_, ?_, ?_⟩
    · intro b t rest h; rw [parseNodeG] at h; cases h
    · intro n b fs rest h
      cases n with
      | zero =>
        rw [parseFieldsG_zero] at h
        injection h with h; injection h with h1 h2; subst h1 h2
        exact ⟨[], rfl, fun j k c hj => by simp at hj⟩
      | succ n => rw [parseFieldsG] at h; cases h
    · intro n b xs rest h
      cases n with
      | zero =>
        rw [parseItemsG_zero] at h
        injection h with h; injection h with h1 h2; subst h1 h2
        exact ⟨[], rfl, fun j c hj => by simp at hj⟩
      | succ n => rw [parseItemsG] at h; cases h
  | succ f ih =>
    obtain ⟨ihN, ihF, ihI⟩ := ih
    refine ⟨?_, ?_, ?_⟩
    · intro b t rest h
      obtain ⟨f', c, r, hf, hb, hcases⟩ := parseNodeG_inv h
      have hf' : f' = f := by omega
      subst hf' hb
      rcases hcases with ⟨_, n, r', fs, hc, _, hp, rfl⟩ | ⟨_, _, n, r', xs, hc, _, hp, rfl⟩ |
        ⟨_, _, n, p, _, hsp, rfl⟩
      · obtain ⟨hd, hr⟩ := countOf_ok hc
        obtain ⟨pre, hpre, hl⟩ := ihF n r' fs rest hp
        refine ⟨c :: hd ++ pre, by rw [hr, hpre]; simp, ?_⟩
        intro q raw hq
        cases q with
        | nil => rw [getAt] at hq; cases hq
        | cons j q =>
          rw [getAt] at hq
          cases hg : getChild (.map fs) j with
          | none => rw [hg] at hq; cases hq
          | some ch =>
            rw [hg] at hq; simp only at hq
            simp only [getChild, Option.map_eq_some_iff] at hg
            obtain ⟨⟨k, c'⟩, hj, hc'⟩ := hg
            simp at hc'; subst hc'
            have := hl j k c' hj q raw hq
            exact this.trans ⟨c :: hd, [], by simp⟩
      · obtain ⟨hd, hr⟩ := countOf_ok hc
        obtain ⟨pre, hpre, hl⟩ := ihI n r' xs rest hp
        refine ⟨c :: hd ++ pre, by rw [hr, hpre]; simp, ?_⟩
        intro q raw hq
        cases q with
        | nil => rw [getAt] at hq; cases hq
        | cons j q =>
          rw [getAt] at hq
          cases hg : getChild (.arr xs) j with
          | none => rw [hg] at hq; cases hq
          | some ch =>
            rw [hg] at hq; simp only at hq
            simp only [getChild] at hg
            have := hl j ch hg q raw hq
            exact this.trans ⟨c :: hd, [], by simp⟩
      · obtain ⟨hr, _⟩ := splitN_ok hsp
        refine ⟨c :: p, by rw [hr]; simp, ?_⟩
        intro q raw hq
        obtain ⟨_, hraw⟩ := getAt_leaf hq
        rw [hraw]; exact List.infix_refl _
    · intro n b fs rest h
      cases n with
      | zero =>
        rw [parseFieldsG_zero] at h
        injection h with h; injection h with h1 h2; subst h1 h2
        exact ⟨[], rfl, fun j k c hj => by simp at hj⟩
      | succ n =>
        obtain ⟨f', c, r, k, r1, v, r2, tl, hf, hb, _, hk, _, hv, ht, rfl⟩ := parseFieldsG_inv h
        have hf' : f' = f := by omega
        subst hf' hb
        obtain ⟨hd, hr⟩ := strPayload_ok hk
        obtain ⟨pv, hpv, hlv⟩ := ihN r1 v r2 hv
        obtain ⟨pt, hpt, hlt⟩ := ihF n r2 tl rest ht
        refine ⟨c :: hd ++ pv ++ pt, by rw [hr, hpv, hpt]; simp, ?_⟩
        intro j k' c' hj q raw hq
        cases j with
        | zero =>
          simp at hj; obtain ⟨_, h2⟩ := hj; subst h2
          exact (hlv q raw hq).trans ⟨c :: hd, pt, by simp⟩
        | succ j =>
          simp at hj
          exact (hlt j k' c' hj q raw hq).trans ⟨c :: hd ++ pv, [], by simp⟩
    · intro n b xs rest h
      cases n with
      | zero =>
        rw [parseItemsG_zero] at h
        injection h with h; injection h with h1 h2; subst h1 h2
        exact ⟨[], rfl, fun j c hj => by simp at hj⟩
      | succ n =>
        obtain ⟨f', v, r1, tl, hf, hv, ht, rfl⟩ := parseItemsG_inv h
        have hf' : f' = f := by omega
        subst hf'
        obtain ⟨pv, hpv, hlv⟩ := ihN b v r1 hv
        obtain ⟨pt, hpt, hlt⟩ := ihI n r1 tl rest ht
        refine ⟨pv ++ pt, by rw [hpv, hpt]; simp, ?_⟩
        intro j c' hj q raw hq
        cases j with
        | zero =>
          simp at hj; subst hj
          exact (hlv q raw hq).trans ⟨[], pt, by simp⟩
        | succ j =>
          simp at hj
          exact (hlt j c' hj q raw hq).trans ⟨pv, [], by simp⟩

/-- every leaf of a parsed document is a contiguous slice of the body -/
theorem parse_leaf_infix {b : Bytes} {t : Node} (h : parse b = .ok t) {q : List Nat} {raw : Bytes}
    (hq : getAt t q = some (.leaf raw)) : raw <:+: b := by
  have h' : parseNodeG false (2 * b.length - 1) b = .ok (t, []) := by
    unfold parse parseG at h
    split at h
    · cases h
    · rename_i t' heq; injection h with h; subst h; exact heq
    · cases h
  obtain ⟨pre, hb, hl⟩ := (leaves_infix _).1 b t [] h'
  rw [hb, List.append_nil]; exact hl q raw hq

mutual
/-- every leaf of a tree is written out verbatim by `Serialize` -/
theorem leaf_infix_serialize : ∀ (t : Node) (q : List Nat) (raw : Bytes),
    getAt t q = some (.leaf raw) → raw <:+: serialize t
  | .leaf r, q, raw, h => by
    obtain ⟨_, hraw⟩ := getAt_leaf h
    rw [serialize, hraw]; exact List.infix_refl _
  | .map fs, [], raw, h => by rw [getAt] at h; cases h
  | .map fs, j :: q, raw, h => by
    rw [getAt] at h
    cases hg : getChild (.map fs) j with
    | none => rw [hg] at h; cases h
    | some ch =>
      rw [hg] at h; simp only at h
      simp only [getChild, Option.map_eq_some_iff] at hg
      obtain ⟨⟨k, c'⟩, hj, hc'⟩ := hg
      simp at hc'; subst hc'
      rw [serialize]
      exact (leaf_infix_fields fs j k c' q raw hj h).trans ⟨encMapLen fs.length, [], by simp⟩
  | .arr xs, [], raw, h => by rw [getAt] at h; cases h
  | .arr xs, j :: q, raw, h => by
    rw [getAt] at h
    cases hg : getChild (.arr xs) j with
    | none => rw [hg] at h; cases h
    | some ch =>
      rw [hg] at h; simp only at h
      simp only [getChild] at hg
      rw [serialize]
      exact (leaf_infix_items xs j ch q raw hg h).trans ⟨encArrLen xs.length, [], by simp⟩
theorem leaf_infix_fields : ∀ (fs : Fields) (j : Nat) (k : Bytes) (c : Node) (q : List Nat) (raw : Bytes),
    fs[j]? = some (k, c) → getAt c q = some (.leaf raw) → raw <:+: serFields fs
  | [], j, k, c, q, raw, hj, _ => by simp at hj
  | (k0, v) :: rest, 0, k, c, q, raw, hj, h => by
    simp at hj; obtain ⟨_, h2⟩ := hj; subst h2
    rw [serFields]
    exact (leaf_infix_serialize v q raw h).trans ⟨encStr k0, serFields rest, by simp⟩
  | (k0, v) :: rest, j + 1, k, c, q, raw, hj, h => by
    simp at hj
    rw [serFields]
    exact (leaf_infix_fields rest j k c q raw hj h).trans ⟨encStr k0 ++ serialize v, [], by simp⟩
theorem leaf_infix_items : ∀ (xs : List Node) (j : Nat) (c : Node) (q : List Nat) (raw : Bytes),
    xs[j]? = some c → getAt c q = some (.leaf raw) → raw <:+: serItems xs
  | [], j, c, q, raw, hj, _ => by simp at hj
  | v :: rest, 0, c, q, raw, hj, h => by
    simp at hj; subst hj
    rw [serItems]
    exact (leaf_infix_serialize v q raw h).trans ⟨[], serItems rest, by simp⟩
  | v :: rest, j + 1, c, q, raw, hj, h => by
    simp at hj
    rw [serItems]
    exact (leaf_infix_items rest j c q raw hj h).trans ⟨serialize v, [], by simp⟩
end

end Hv.Patch
