/-
  C13 model, part 4 — `numeric.go` / `inc.go`: `classifyNumericCode`, `readNumericLeaf`,
  `computeIncBytes`, `encode{Int,Uint,Float}WithCode`.

  Integers are 64-bit patterns (`Nat < 2^64`, two's complement): Go's `ti+di` wraps, and the
  `intK(n)` / `uintK(n)` conversions before `EncodeIntK` truncate — both are `% 2^…` here.

  Floats are IEEE-754 bit patterns.  Their exact value is an integer number of units of
  2^-1074 (`FVal`), so addition is exact integer addition followed by one round-to-nearest-even
  — the definition of IEEE addition — and comparison is integer comparison.  NaN payload
  propagation (`x + NaN`, `float32(NaN)`) follows the amd64 SSE2 rules (first NaN operand,
  quieted; `∞ + -∞` = the default NaN 0xFFF8…); the Go spec leaves payloads unspecified.
-/
import Hv.Patch.Msgpack

namespace Hv.Patch

inductive NumClass where
  | none | int | uint | float
  deriving DecidableEq, Repr

/-- `classifyNumericCode` -/
def classOf (c : UInt8) : NumClass :=
  let n := c.toNat
  if n = 0xca ∨ n = 0xcb then .float
  else if 0xd0 ≤ n ∧ n ≤ 0xd3 then .int
  else if 0xcc ≤ n ∧ n ≤ 0xcf then .uint
  else if n ≤ 0x7f then .uint
  else if n ≥ 0xe0 then .int
  else .none

def two64 : Nat := 2 ^ 64

/-- sign extension of a `k`-byte two's-complement value to 64 bits -/
def signExt (k n : Nat) : Nat :=
  if n ≥ 2 ^ (8 * k - 1) then n + two64 - 2 ^ (8 * k) else n

/-- signed reading of a 64-bit pattern -/
def toInt64 (n : Nat) : Int := if n ≥ 2 ^ 63 then (n : Int) - (two64 : Int) else (n : Int)

/-! ### IEEE-754 on bit patterns -/

/-- exact value: `fin neg mag` is `±mag · 2^-1074` (the sign of zero is kept) -/
inductive FVal where
  | nan
  | inf (neg : Bool)
  | fin (neg : Bool) (mag : Nat)
  deriving DecidableEq, Repr

def f64Val (bits : Nat) : FVal :=
  let neg := decide (bits / 2 ^ 63 % 2 = 1)
  let e := bits / 2 ^ 52 % 2048
  let m := bits % 2 ^ 52
  if e = 2047 then (if m = 0 then .inf neg else .nan)
  else if e = 0 then .fin neg m
  else .fin neg ((2 ^ 52 + m) * 2 ^ (e - 1))

def f64IsNaN (bits : Nat) : Bool := bits / 2 ^ 52 % 2048 = 2047 && bits % 2 ^ 52 ≠ 0

/-- key for ordering: `none` for NaN; ±∞ beyond every finite magnitude (< 2^2098) -/
def FVal.key : FVal → Option Int
  | .nan => none
  | .inf false => some (2 ^ 2200)
  | .inf true => some (-(2 ^ 2200))
  | .fin false m => some m
  | .fin true m => some (-(m : Int))

/-- round `mag` (units of 2^-1074) to `p` significant bits with the smallest unit `2^u`,
    nearest-even; the result is again in units of 2^-1074 -/
def roundMag (p u mag : Nat) : Nat :=
  let L := if mag = 0 then 0 else Nat.log2 mag + 1
  let s := max u (L - p)
  if s = 0 then mag else
  let q := mag / 2 ^ s
  let rem := mag % 2 ^ s
  let half := 2 ^ (s - 1)
  let q' := if rem > half ∨ (rem = half ∧ q % 2 = 1) then q + 1 else q
  q' * 2 ^ s

/-- bit pattern of a magnitude that is exactly representable as a double -/
def encF64Mag (mag : Nat) : Nat :=
  if mag ≥ 2 ^ 2098 then 2047 * 2 ^ 52            -- overflow → ∞
  else if mag < 2 ^ 52 then mag
  else
    let e := Nat.log2 mag + 1 - 52
    e * 2 ^ 52 + (mag / 2 ^ (e - 1) - 2 ^ 52)

def signBit64 (neg : Bool) : Nat := if neg then 2 ^ 63 else 0

/-- `a + b` on doubles -/
def addF64 (a b : Nat) : Nat :=
  if f64IsNaN a then a ||| 2 ^ 51
  else if f64IsNaN b then b ||| 2 ^ 51
  else match f64Val a, f64Val b with
    | .inf na, .inf nb => if na = nb then a else 0xFFF8000000000000
    | .inf _, _ => a
    | _, .inf _ => b
    | .fin na ma, .fin nb mb =>
      let sa : Int := if na then -(ma : Int) else ma
      let sb : Int := if nb then -(mb : Int) else mb
      let s := sa + sb
      if s = 0 then signBit64 (na && nb)
      else signBit64 (decide (s < 0)) + encF64Mag (roundMag 53 0 s.natAbs)
    | _, _ => 0x7FF8000000000000   -- unreachable (NaN handled above)

/-- `float64(float32)` on bit patterns (exact; NaN: payload shifted, quieted) -/
def f32to64 (bits : Nat) : Nat :=
  let neg := decide (bits / 2 ^ 31 % 2 = 1)
  let e := bits / 2 ^ 23 % 256
  let m := bits % 2 ^ 23
  if e = 255 then
    (if m = 0 then signBit64 neg + 2047 * 2 ^ 52
     else signBit64 neg + 2047 * 2 ^ 52 + ((m * 2 ^ 29) ||| 2 ^ 51))
  else if e = 0 then signBit64 neg + encF64Mag (m * 2 ^ 925)
  else signBit64 neg + encF64Mag ((2 ^ 23 + m) * 2 ^ (e - 1) * 2 ^ 925)

/-- `float32(float64)` on bit patterns (round to nearest even; overflow → ∞) -/
def f64to32 (bits : Nat) : Nat :=
  let sign := if bits / 2 ^ 63 % 2 = 1 then 2 ^ 31 else 0
  match f64Val bits with
  | .nan => sign + 255 * 2 ^ 23 + ((bits % 2 ^ 52 / 2 ^ 29) ||| 2 ^ 22)
  | .inf _ => sign + 255 * 2 ^ 23
  | .fin _ mag =>
    let r := roundMag 24 925 mag
    if r ≥ 2 ^ 1202 then sign + 255 * 2 ^ 23
    else
      let m' := r / 2 ^ 925
      if m' < 2 ^ 23 then sign + m'
      else
        let e := Nat.log2 m' + 1 - 23
        sign + e * 2 ^ 23 + (m' / 2 ^ (e - 1) - 2 ^ 23)

/-! ### `readNumericLeaf` -/

/-- `(class, 64-bit pattern)`; `class = none` ⇒ not numeric.  Trailing bytes are ignored by
    the Go decoder, a truncated value is `ErrInvalidMsgpack`. -/
def readNumeric (raw : Bytes) : Except Err (NumClass × Nat) :=
  match raw with
  | [] => .error .msgpack
  | c :: r =>
    match classOf c with
    | .none => .ok (.none, 0)
    | .int =>
      if c.toNat ≥ 0xe0 then .ok (.int, signExt 1 c.toNat)
      else
        let k := 2 ^ (c.toNat - 0xd0)
        match readBE k r with
        | .error e => .error e
        | .ok (n, _) => .ok (.int, signExt k n)
    | .uint =>
      if c.toNat ≤ 0x7f then .ok (.uint, c.toNat)
      else
        let k := 2 ^ (c.toNat - 0xcc)
        match readBE k r with
        | .error e => .error e
        | .ok (n, _) => .ok (.uint, n)
    | .float =>
      if c.toNat = 0xca then
        match readBE 4 r with
        | .error e => .error e
        | .ok (n, _) => .ok (.float, f32to64 n)
      else
        match readBE 8 r with
        | .error e => .error e
        | .ok (n, _) => .ok (.float, n)

/-! ### `computeIncBytes` -/

/-- What INC does with a target whose code is a fixint (no width of its own). -/
inductive FixintRule where
  | widen64      -- positive fixint → uint64 (0xcf), negative fixint → int64 (0xd3)   [the code]
  | unknown
  deriving DecidableEq, Repr

/-- `encodeIntWithCode` / `encodeUintWithCode` / `encodeFloatWithCode` applied to `t + d` -/
def computeInc (code : UInt8) (cls : NumClass) (t d : Nat) : Except Err Bytes :=
  match cls with
  | .int =>
    let s := (t + d) % two64
    let n := code.toNat
    if 0xd0 ≤ n ∧ n ≤ 0xd2 then .ok (code :: beBytes (2 ^ (n - 0xd0)) s)
    else .ok (0xd3 :: beBytes 8 s)
  | .uint =>
    let s := (t + d) % two64
    let n := code.toNat
    if 0xcc ≤ n ∧ n ≤ 0xce then .ok (code :: beBytes (2 ^ (n - 0xcc)) s)
    else .ok (0xcf :: beBytes 8 s)
  | .float =>
    let s := addF64 t d
    if code.toNat = 0xca then .ok (0xca :: beBytes 4 (f64to32 s))
    else .ok (0xcb :: beBytes 8 s)
  | .none => .error .type

end Hv.Patch
