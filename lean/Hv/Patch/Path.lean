/-
  C13 model, part 3 — `path.go`: `ParsePath`, `parseSegmentInto`, `findField`, `resolveIndex`
  and the read-only half of `Resolve` (`lookup`, used by conditions).

  A Go string is a byte string; paths and keys are `Bytes` here.  Every `ParsePath` failure is
  `ErrPathInvalid` and happens before anything else is looked at, so only success/failure and
  the segment list matter.
-/
import Hv.Patch.Skeleton

namespace Hv.Patch

inductive Seg where
  | field (k : Bytes)
  | index (i : Int)      -- may be negative: resolved against the array length at navigation
  | append               -- `[]`
  deriving DecidableEq, Repr

def chDot : UInt8 := 0x2e
def chHash : UInt8 := 0x23
def chLB : UInt8 := 0x5b
def chRB : UInt8 := 0x5d
def chStar : UInt8 := 0x2a
def chPlus : UInt8 := 0x2b
def chMinus : UInt8 := 0x2d

/-- `strings.Split(s, ".")` -/
def splitDot : Bytes → List Bytes
  | [] => [[]]
  | c :: r =>
    if c = chDot then [] :: splitDot r
    else match splitDot r with
      | [] => [[c]]                 -- unreachable: `splitDot` is never empty
      | p :: ps => (c :: p) :: ps

def digitsVal : Bytes → Option Nat
  | [] => some 0
  | l => l.foldl (fun acc c =>
      match acc with
      | none => none
      | some n => if 0x30 ≤ c.toNat ∧ c.toNat ≤ 0x39 then some (n * 10 + (c.toNat - 0x30)) else none) (some 0)

/-- `strconv.Atoi` (64-bit `int`): `[+-]?[0-9]+` within the `int64` range -/
def atoi (s : Bytes) : Option Int :=
  let (neg, ds) := match s with
    | c :: r => if c = chMinus then (true, r) else if c = chPlus then (false, r) else (false, s)
    | [] => (false, [])
  if ds.isEmpty then none else
  match digitsVal ds with
  | none => none
  | some n =>
    if neg then (if n ≤ 2 ^ 63 then some (-(n : Int)) else none)
    else (if n < 2 ^ 63 then some (n : Int) else none)

/-- position of the first `ch`, `strings.IndexByte` -/
def indexOf (ch : UInt8) : Bytes → Option Nat
  | [] => none
  | c :: r => if c = ch then some 0 else (indexOf ch r).map (· + 1)

/-- the bracket-suffix loop of `parseSegmentInto` (fuel: length of `rest`) -/
def parseBrackets : Nat → Bytes → Except Err (List Seg)
  | _, [] => .ok []
  | 0, _ :: _ => .error .path
  | fuel + 1, c :: r =>
    if c ≠ chLB then .error .path else               -- trailing text after brackets
    match indexOf chRB r with
    | none => .error .path                           -- unclosed bracket
    | some e =>
      let inner := r.take e
      let rest := r.drop (e + 1)
      if inner.isEmpty then
        match parseBrackets fuel rest with
        | .error er => .error er
        | .ok ss => .ok (.append :: ss)
      else if inner = [chStar] then .error .path
      else match atoi inner with
        | none => .error .path
        | some n =>
          match parseBrackets fuel rest with
          | .error er => .error er
          | .ok ss => .ok (.index n :: ss)

def parseSegment (part : Bytes) : Except Err (List Seg) :=
  match indexOf chLB part with
  | none => if part.contains chRB then .error .path else .ok [.field part]
  | some br =>
    let name := part.take br
    if name.isEmpty then .error .path
    else if name.contains chRB then .error .path
    else match parseBrackets part.length (part.drop br) with
      | .error e => .error e
      | .ok ss => .ok (.field name :: ss)

def parseParts : List Bytes → Except Err (List Seg)
  | [] => .ok []
  | p :: ps =>
    if p.isEmpty then .error .path
    else if p.head? = some chHash then .error .path
    else match parseSegment p with
      | .error e => .error e
      | .ok ss =>
        match parseParts ps with
        | .error e => .error e
        | .ok rest => .ok (ss ++ rest)

/-- `ParsePath` -/
def parsePath (s : Bytes) : Except Err (List Seg) :=
  if s.isEmpty then .error .path else parseParts (splitDot s)

/-! ### navigation -/

/-- `findField`: index of the FIRST field named `k` (duplicate keys: first match wins) -/
def findField : Fields → Bytes → Option Nat
  | [], _ => none
  | (k', _) :: rest, k => if k' = k then some 0 else (findField rest k).map (· + 1)

/-- `resolveIndex` -/
def resolveIndex (want : Int) (len : Nat) : Except Err Nat :=
  let w := if want < 0 then (len : Int) + want else want
  if w < 0 ∨ w ≥ (len : Int) then .error .path else .ok w.toNat

/-- `Resolve`, read-only: `some target` / `none` (missing field or the `[]` slot) -/
def lookup : List Seg → Node → Except Err (Option Node)
  | [], _ => .error .path
  | seg :: rest, t =>
    match seg with
    | .field k =>
      match t with
      | .map fs =>
        match findField fs k with
        | none => .ok none
        | some i =>
          match fs[i]? with
          | none => .ok none           -- unreachable
          | some (_, c) => if rest.isEmpty then .ok (some c) else lookup rest c
      | _ => .error .type
    | .index n =>
      match t with
      | .arr xs =>
        match resolveIndex n xs.length with
        | .error e => .error e
        | .ok i =>
          match xs[i]? with
          | none => .error .path       -- unreachable
          | some c => if rest.isEmpty then .ok (some c) else lookup rest c
      | _ => .error .type
    | .append =>
      if !rest.isEmpty then .error .path else
      match t with
      | .arr _ => .ok none
      | _ => .error .type

end Hv.Patch
