/-
  What an op leaves alone, stated relative to the place the path RESOLVES to
  (`Spec.resolve segs t = (p, hit)`: `p` is the container that holds the final segment).

  * every position that parts ways with `p` holds the identical sub-tree afterwards;
  * inside that container every child other than the target keeps its sub-tree, at the index
    `movedTo` says (same index, one down after a removal, one up after PREPEND);
  * a successful INC leaves, at the target position, a leaf obeying the format-code rule.

  One-segment paths have `p = []` (the root map): their siblings are covered by the second item.
-/
import Hv.Patch.SpecLemmas
import Hv.Patch.Untouched
import Hv.Patch.NumLemmas

namespace Hv.Patch
open Spec

theorem getChild_setChild_self {u c c' : Node} {i : Nat} (h : getChild u i = some c) :
    getChild (setChild u i c') i = some c' := by
  cases u with
  | leaf raw => simp [getChild] at h
  | map fs =>
    simp only [getChild, Option.map_eq_some_iff] at h
    obtain ⟨⟨k, v⟩, hg, _⟩ := h
    have hi : i < fs.length := by
      rcases Nat.lt_or_ge i fs.length with hlt | hge
      · exact hlt
      · rw [List.getElem?_eq_none hge] at hg; cases hg
    simp [setChild, hg, getChild, hi]
  | arr xs =>
    simp only [getChild] at h
    have hi : i < xs.length := by
      rcases Nat.lt_or_ge i xs.length with hlt | hge
      · exact hlt
      · rw [List.getElem?_eq_none hge] at h; cases h
    simp [setChild, getChild, hi]

theorem getAt_append : ∀ (p r : List Nat) (t u : Node), getAt t p = some u → getAt t (p ++ r) = getAt u r
  | [], r, t, u, h => by rw [getAt] at h; injection h with h; subst h; rfl
  | i :: p, r, t, u, h => by
    rw [getAt] at h
    rw [List.cons_append, getAt]
    cases hg : getChild t i with
    | none => rw [hg] at h; cases h
    | some c => rw [hg] at h; simp only at h ⊢; exact getAt_append p r c u h

/-- what `editAt` does, position by position -/
theorem editAt_spec : ∀ (p : List Nat) (f : Node → Except Err Node) (t t' : Node),
    editAt p f t = .ok t' →
    ∃ u u', getAt t p = some u ∧ f u = .ok u' ∧ getAt t' p = some u' ∧
      ∀ q, Diverge p q → getAt t' q = getAt t q
  | [], f, t, t', h => by
    rw [editAt] at h
    exact ⟨t, t', rfl, h, rfl, fun q hq => absurd hq (not_diverge_nil q)⟩
  | i :: p, f, t, t', h => by
    rw [editAt] at h
    cases hg : getChild t i with
    | none => rw [hg] at h; cases h
    | some c =>
      rw [hg] at h; simp only at h
      cases he : editAt p f c with
      | error e => rw [he] at h; cases h
      | ok c' =>
        rw [he] at h; simp only at h
        injection h with h; subst h
        obtain ⟨u, u', h1, h2, h3, h4⟩ := editAt_spec p f c c' he
        refine ⟨u, u', ?_, h2, ?_, ?_⟩
        · rw [getAt, hg]; exact h1
        · rw [getAt, getChild_setChild_self hg]; exact h3
        · intro q hq
          cases hq with
          | here p' q' hne => rw [getAt, getAt, getChild_setChild_ne t c' hne]
          | there _ hd =>
            rename_i q'
            rw [getAt, getAt, getChild_setChild_self hg, hg]; exact h4 q' hd

/-- the code's walk is: resolve the path, edit the container found -/
theorem walk_resolve (h : Node → Hit → Except Err Node) :
    ∀ (segs : List Seg) (t t' : Node), walk h segs t = .ok t' →
      ∃ p hit, resolve segs t = .ok (p, hit) ∧ editAt p (fun u => h u hit) t = .ok t' ∧
        ∀ u, getAt t p = some u → IsCont u ∧ Fits u hit
  | [], t, t', hw => by rw [walk] at hw; cases hw
  | seg :: rest, t, t', hw => by
    cases seg with
    | field k =>
      cases t with
      | leaf raw => simp [walk] at hw
      | arr xs => simp [walk] at hw
      | map fs =>
        rw [walk] at hw
        rw [resolve, keyIndex_eq]
        cases hf : findField fs k with
        | none =>
          rw [hf] at hw; simp only at hw ⊢
          refine ⟨[], _, rfl, by rw [editAt]; exact hw, ?_⟩
          intro u hu; rw [getAt] at hu; injection hu with hu; subst hu; simp [IsCont, Fits]
        | some i =>
          rw [hf] at hw; simp only at hw ⊢
          by_cases hr : rest.isEmpty = true
          · rw [if_pos hr] at hw ⊢
            refine ⟨[], _, rfl, by rw [editAt]; exact hw, ?_⟩
            intro u hu; rw [getAt] at hu; injection hu with hu; subst hu; simp [IsCont, Fits]
          · rw [if_neg hr] at hw ⊢
            cases hg : fs[i]? with
            | none => rw [hg] at hw; cases hw
            | some kc =>
              obtain ⟨k', c⟩ := kc
              rw [hg] at hw; simp only at hw ⊢
              cases hwc : walk h rest c with
              | error e => rw [hwc] at hw; cases hw
              | ok c' =>
                rw [hwc] at hw; simp only at hw
                injection hw with hw; subst hw
                obtain ⟨p, hit, hres, hed, hfit⟩ := walk_resolve h rest c c' hwc
                rw [hres]; simp only
                have hgc : getChild (Node.map fs) i = some c := by simp [getChild, hg]
                refine ⟨i :: p, hit, rfl, ?_, ?_⟩
                · rw [editAt, hgc]; simp only; rw [hed]; simp [setChild, hg]
                · intro u hu; rw [getAt, hgc] at hu; exact hfit u hu
    | index n =>
      cases t with
      | leaf raw => simp [walk] at hw
      | map fs => simp [walk] at hw
      | arr xs =>
        rw [walk] at hw
        rw [resolve, index_eq]
        cases hri : resolveIndex n xs.length with
        | error e => rw [hri] at hw; cases hw
        | ok i =>
          rw [hri] at hw; simp only at hw ⊢
          by_cases hr : rest.isEmpty = true
          · rw [if_pos hr] at hw ⊢
            refine ⟨[], _, rfl, by rw [editAt]; exact hw, ?_⟩
            intro u hu; rw [getAt] at hu; injection hu with hu; subst hu; simp [IsCont, Fits]
          · rw [if_neg hr] at hw ⊢
            cases hg : xs[i]? with
            | none => rw [hg] at hw; cases hw
            | some c =>
              rw [hg] at hw; simp only at hw ⊢
              cases hwc : walk h rest c with
              | error e => rw [hwc] at hw; cases hw
              | ok c' =>
                rw [hwc] at hw; simp only at hw
                injection hw with hw; subst hw
                obtain ⟨p, hit, hres, hed, hfit⟩ := walk_resolve h rest c c' hwc
                rw [hres]; simp only
                have hgc : getChild (Node.arr xs) i = some c := by simp [getChild, hg]
                refine ⟨i :: p, hit, rfl, ?_, ?_⟩
                · rw [editAt, hgc]; simp only; rw [hed]; simp [setChild]
                · intro u hu; rw [getAt, hgc] at hu; exact hfit u hu
    | append =>
      cases t with
      | leaf raw => simp [walk] at hw; split at hw <;> cases hw
      | map fs => simp [walk] at hw; split at hw <;> cases hw
      | arr xs =>
        rw [walk] at hw
        rw [resolve]
        by_cases hr : (!rest.isEmpty) = true
        · rw [if_pos hr] at hw; cases hw
        · rw [if_neg hr] at hw ⊢
          refine ⟨[], _, rfl, by rw [editAt]; exact hw, ?_⟩
          intro u hu; rw [getAt] at hu; injection hu with hu; subst hu; simp [IsCont, Fits]

/-! ### where the other children of the edited container end up -/

/-- new index of child `j` of the container holding the final segment (`none`: `j` is the target) -/
def movedTo (kind : OpKind) (hit : Hit) (j : Nat) : Option Nat :=
  match hit with
  | .target i =>
    match kind with
    | .delete | .removeAt => if j < i then some j else if j = i then none else some (j - 1)
    | _ => if j = i then none else some j
  | .appendSlot =>
    match kind with
    | .prepend => some (j + 1)
    | _ => some j
  | .missing _ => some j

/-- handler-level statement: children other than the target are carried over -/
def Carries (kind : OpKind) (h : Node → Hit → Except Err Node) : Prop :=
  ∀ u hit u', Fits u hit → h u hit = .ok u' →
    ∀ j j' c, movedTo kind hit j = some j' → getChild u j = some c → getChild u' j' = some c

theorem carries_of_target_set {kind : OpKind} (hk : kind ≠ .delete ∧ kind ≠ .removeAt)
    {u u' c : Node} {i j j' : Nat}
    (hs : ∀ j, i ≠ j → getChild u' j = getChild u j)
    (hm : movedTo kind (.target i) j = some j') (hc : getChild u j = some c) : getChild u' j' = some c := by
  unfold movedTo at hm
  have : (if j = i then none else some j) = some j' := by
    cases kind
    case delete => exact absurd rfl hk.1
    case removeAt => exact absurd rfl hk.2
    all_goals exact hm
  split at this
  · cases this
  · rename_i hne
    injection this with this; subst this
    rw [hs j (fun h => hne h.symm)]; exact hc

theorem carries_of_target_erase {kind : OpKind} (hk : kind = .delete ∨ kind = .removeAt)
    {u c : Node} {i j j' : Nat}
    (hm : movedTo kind (.target i) j = some j') (hc : getChild u j = some c) :
    getChild (eraseChild u i) j' = some c := by
  unfold movedTo at hm
  have : (if j < i then some j else if j = i then none else some (j - 1)) = some j' := by
    rcases hk with rfl | rfl <;> simpa using hm
  split at this
  · rename_i hlt
    injection this with this; subst this
    rw [getChild_eraseChild_lt u hlt]; exact hc
  · split at this
    · cases this
    · rename_i h1 h2
      injection this with this; subst this
      rw [getChild_eraseChild_ge u (by omega)]
      have : j - 1 + 1 = j := by omega
      rw [this]; exact hc

theorem carries_missing {kind : OpKind} {rem : List Seg} {j j' : Nat}
    (hm : movedTo kind (.missing rem) j = some j') : j' = j := by
  unfold movedTo at hm; simp at hm; exact hm.symm

theorem carries_set (v : Bytes) : Carries .set (hSet v) := by
  intro u hit u' _ h j j' c hm hc
  cases hit with
  | target i => exact carries_of_target_set (by decide) (hSet_siblings h) hm hc
  | appendSlot => rw [hSet] at h; cases h
  | missing rem => rw [hSet] at h; rw [carries_missing hm]; exact autoCreate_keeps h hc

theorem carries_inc (v : Bytes) (dcls : NumClass) (d : Nat) : Carries .inc (hInc v dcls d) := by
  intro u hit u' _ h j j' c hm hc
  cases hit with
  | target i => exact carries_of_target_set (by decide) (hInc_siblings h) hm hc
  | appendSlot => rw [hInc] at h; cases h
  | missing rem => rw [hInc] at h; rw [carries_missing hm]; exact autoCreate_keeps h hc

theorem carries_merge (pf : List (Bytes × Bytes)) : Carries .merge (hMerge pf) := by
  intro u hit u' _ h j j' c hm hc
  cases hit with
  | target i => exact carries_of_target_set (by decide) (hMerge_siblings h) hm hc
  | appendSlot => rw [hMerge] at h; cases h
  | missing rem => rw [hMerge] at h; rw [carries_missing hm]; exact autoCreate_keeps h hc

theorem carries_removeVal (rm : List Node → List Node) : Carries .removeVal (hRemoveVal rm) := by
  intro u hit u' _ h j j' c hm hc
  cases hit with
  | target i => exact carries_of_target_set (by decide) (hRemoveVal_siblings h).1 hm hc
  | appendSlot =>
    simp [hRemoveVal] at h; subst h
    unfold movedTo at hm; simp at hm; subst hm; exact hc
  | missing rem => simp [hRemoveVal] at h; subst h; rw [carries_missing hm]; exact hc

theorem carries_delete : Carries .delete hDelete := by
  intro u hit u' _ h j j' c hm hc
  cases hit with
  | target i =>
    rw [hDelete] at h; injection h with h; subst h
    exact carries_of_target_erase (Or.inl rfl) hm hc
  | appendSlot =>
    simp [hDelete] at h; subst h
    unfold movedTo at hm; simp at hm; subst hm; exact hc
  | missing rem => simp [hDelete] at h; subst h; rw [carries_missing hm]; exact hc

theorem carries_removeAt : Carries .removeAt hRemoveAt := by
  intro u hit u' _ h j j' c hm hc
  cases hit with
  | target i =>
    rw [hRemoveAt] at h; injection h with h; subst h
    exact carries_of_target_erase (Or.inr rfl) hm hc
  | appendSlot => simp [hRemoveAt] at h
  | missing rem => simp [hRemoveAt] at h

theorem carries_append (v : Bytes) (pre : Bool) :
    Carries (if pre then .prepend else .append) (hAppend v pre) := by
  intro u hit u' hfit h j j' c hm hc
  cases hit with
  | target i => rw [hAppend] at h; cases h
  | appendSlot =>
    cases u with
    | leaf raw => simp [Fits] at hfit
    | map fs => simp [Fits] at hfit
    | arr xs =>
      simp only [getChild] at hc
      have := hAppend_keeps h hc
      unfold movedTo at hm
      cases pre <;> simp at hm this <;> subst hm <;> exact this
  | missing rem =>
    rw [hAppend] at h
    split at h
    · rw [carries_missing hm]; exact autoCreate_keeps h hc
    · cases h

/-- children of the container the path resolves into, other than the target, are carried over -/
theorem walk_carries {kind : OpKind} {h : Node → Hit → Except Err Node} (hc : Carries kind h)
    {segs : List Seg} {t t' : Node} {p : List Nat} {hit : Hit}
    (hw : walk h segs t = .ok t') (hres : resolve segs t = .ok (p, hit)) :
    (∀ q, Diverge p q → getAt t' q = getAt t q) ∧
    (∀ j j' r x, movedTo kind hit j = some j' → getAt t (p ++ j :: r) = some x →
      getAt t' (p ++ j' :: r) = some x) := by
  obtain ⟨p0, hit0, hres0, hed, hfit⟩ := walk_resolve h segs t t' hw
  rw [hres] at hres0
  injection hres0 with hres0
  injection hres0 with hp hh
  subst hp hh
  obtain ⟨u, u', h1, h2, h3, h4⟩ := editAt_spec p _ t t' hed
  refine ⟨h4, ?_⟩
  intro j j' r x hm hx
  rw [getAt_append p (j :: r) t u h1, getAt] at hx
  rw [getAt_append p (j' :: r) t' u' h3, getAt]
  cases hg : getChild u j with
  | none => rw [hg] at hx; cases hx
  | some c =>
    rw [hg] at hx; simp only at hx
    rw [hc u hit u' (hfit u h1).2 h2 j j' c hm hg]
    exact hx

/-- the op-level statement -/
theorem applyOp_carries {cfg : Cfg} {t t' : Node} {op : Op} {segs : List Seg} {p : List Nat} {hit : Hit}
    (h : applyOp cfg t op segs = .ok t') (hres : resolve segs t = .ok (p, hit)) :
    (∀ q, Diverge p q → getAt t' q = getAt t q) ∧
    (∀ j j' r x, movedTo op.kind hit j = some j' → getAt t (p ++ j :: r) = some x →
      getAt t' (p ++ j' :: r) = some x) := by
  unfold applyOp at h
  cases hk : op.kind <;> rw [hk] at h <;> simp only at h
  case set =>
    split at h
    · cases h
    · split at h
      · cases h
      · exact walk_carries (carries_set _) h hres
  case delete => exact walk_carries carries_delete h hres
  case inc =>
    split at h
    · cases h
    · split at h
      · cases h
      · split at h
        · cases h
        · split at h
          · cases h
          · exact walk_carries (carries_inc _ _ _) h hres
  case append =>
    split at h
    · cases h
    · split at h
      · cases h
      · exact walk_carries (carries_append _ false) h hres
  case prepend =>
    split at h
    · cases h
    · split at h
      · cases h
      · exact walk_carries (carries_append _ true) h hres
  case removeAt =>
    split at h
    · exact walk_carries carries_removeAt h hres
    · cases h
  case removeVal =>
    split at h
    · cases h
    · exact walk_carries (carries_removeVal _) h hres
  case merge =>
    split at h
    · cases h
    · split at h
      · cases h
      · exact walk_carries (carries_merge _) h hres
  case unknown => cases h

/-! ### INC at the op level -/

/-- A successful INC whose path resolves to an existing leaf leaves, at that very position, a leaf
    that keeps the format code and width of a typed target (fixint: the 64-bit code of its
    class) and the numeric class. -/
theorem applyOp_inc_code {cfg : Cfg} {t t' : Node} {op : Op} {segs : List Seg} {p : List Nat} {i : Nat}
    {raw : Bytes} (hk : op.kind = .inc) (h : applyOp cfg t op segs = .ok t')
    (hres : resolve segs t = .ok (p, .target i)) (hleaf : getAt t (p ++ [i]) = some (.leaf raw)) :
    ∃ nr, getAt t' (p ++ [i]) = some (.leaf nr) ∧
      (∀ k, typedWidth (raw.headD 0) = some k → nr.head? = some (raw.headD 0) ∧ nr.length = k + 1) ∧
      (typedWidth (raw.headD 0) = none → nr.length = 9 ∧ (nr.head? = some 0xd3 ∨ nr.head? = some 0xcf)) ∧
      classOf (nr.headD 0) = classOf (raw.headD 0) := by
  unfold applyOp at h
  rw [hk] at h; simp only at h
  split at h
  · cases h
  · split at h
    · cases h
    · split at h
      · cases h
      · rename_i dcls d _
        split at h
        · cases h
        · obtain ⟨p0, hit0, hres0, hed, _⟩ := walk_resolve _ segs t t' h
          rw [hres] at hres0
          injection hres0 with hres0
          injection hres0 with hp hh
          subst hp hh
          obtain ⟨u, u', h1, h2, h3, _⟩ := editAt_spec p _ t t' hed
          rw [getAt_append p [i] t u h1, getAt] at hleaf
          cases hg : getChild u i with
          | none => rw [hg] at hleaf; cases hleaf
          | some c =>
            rw [hg] at hleaf; simp only at hleaf
            rw [getAt] at hleaf; injection hleaf with hleaf; subst hleaf
            rw [hInc, hg] at h2; simp only at h2
            split at h2
            · cases h2
            · rename_i tcls tv hrn
              split at h2
              · cases h2
              · split at h2
                · cases h2
                · rename_i nr hci
                  injection h2 with h2; subst h2
                  obtain ⟨c0, r0, hraw, hcls⟩ := readNumeric_class hrn
                  have hhead : classOf (raw.headD 0) = tcls := by rw [hraw]; exact hcls
                  have hrule := inc_preserves_code hhead hci
                  refine ⟨nr, ?_, hrule.1, ?_, ?_⟩
                  · rw [getAt_append p [i] _ _ h3, getAt, getChild_setChild_self hg]; rfl
                  · intro hn
                    obtain ⟨hl, hc⟩ := hrule.2.1 hn
                    exact ⟨hl, hc.elim (fun x => Or.inl x.2) (fun x => Or.inr x.2)⟩
                  · rw [hrule.2.2, hhead]

end Hv.Patch
