/-
  C13 model, part 6 — `apply.go`, `inc.go`, `append.go`, `remove.go`, `merge.go` and the
  `PatchFields` wrapper of `swamp_patch.go`.

  The Go code resolves a path to a `Cursor` (pointers into a mutable tree) and then mutates
  through it.  Functionally that is one walk down the segments (`walk`) which reports what it
  found at the end (`Hit`) to an op-specific handler that rebuilds the parent; the walk
  re-assembles the spine.  Error order is the Go order: op-specific pre-checks, then every
  `Resolve` error in path order, then the op's own checks.
-/
import Hv.Patch.Cond

namespace Hv.Patch

inductive OpKind where
  | set | delete | inc | append | prepend | removeAt | removeVal | merge | unknown
  deriving DecidableEq, Repr

structure Op where
  kind : OpKind
  path : Bytes
  value : Bytes
  deriving DecidableEq, Repr

/-- what `Resolve` found for the final segment -/
inductive Hit where
  | target (i : Nat)             -- existing field / element `i` of the parent
  | appendSlot                   -- `[]` on an existing array
  | missing (rem : List Seg)     -- a field is missing: `rem` = that segment and all after it
  deriving Repr

/-- `Resolve` + rebuild.  `h parent hit` returns the new parent. -/
def walk (h : Node → Hit → Except Err Node) : List Seg → Node → Except Err Node
  | [], _ => .error .path
  | seg :: rest, t =>
    match seg with
    | .field k =>
      match t with
      | .map fs =>
        match findField fs k with
        | none => h t (.missing (seg :: rest))
        | some i =>
          if rest.isEmpty then h t (.target i) else
          match fs[i]? with
          | none => .error .path        -- unreachable
          | some (k', c) =>
            match walk h rest c with
            | .error e => .error e
            | .ok c' => .ok (.map (fs.set i (k', c')))
      | _ => .error .type
    | .index n =>
      match t with
      | .arr xs =>
        match resolveIndex n xs.length with
        | .error e => .error e
        | .ok i =>
          if rest.isEmpty then h t (.target i) else
          match xs[i]? with
          | none => .error .path        -- unreachable
          | some c =>
            match walk h rest c with
            | .error e => .error e
            | .ok c' => .ok (.arr (xs.set i c'))
      | _ => .error .type
    | .append =>
      if !rest.isEmpty then .error .path else
      match t with
      | .arr _ => h t .appendSlot
      | _ => .error .type

/-! ### helpers on a parent node -/

def setChild (p : Node) (i : Nat) (c : Node) : Node :=
  match p with
  | .map fs => (match fs[i]? with | some (k, _) => .map (fs.set i (k, c)) | none => p)
  | .arr xs => .arr (xs.set i c)
  | .leaf _ => p

def getChild (p : Node) (i : Nat) : Option Node :=
  match p with
  | .map fs => (fs[i]?).map (·.2)
  | .arr xs => xs[i]?
  | .leaf _ => none

def eraseChild (p : Node) (i : Nat) : Node :=
  match p with
  | .map fs => .map (fs.eraseIdx i)
  | .arr xs => .arr (xs.eraseIdx i)
  | .leaf _ => p

def addField (p : Node) (kv : Bytes × Node) : Node :=
  match p with
  | .map fs => .map (fs ++ [kv])
  | _ => p

def segKey : Seg → Option Bytes
  | .field k => some k
  | _ => none

/-- keys of a run of field segments; `none` if one of them is not a field
    ("cannot auto-create non-field segment") -/
def allKeys : List Seg → Option (List Bytes)
  | [] => some []
  | s :: ss =>
    match segKey s, allKeys ss with
    | some k, some ks => some (k :: ks)
    | _, _ => none

/-- the auto-created chain `k₀: {k₁: {… kₙ: inner}}` as one new field -/
def chain : Bytes → List Bytes → Node → Bytes × Node
  | k, [], inner => (k, inner)
  | k, k' :: ks, inner => (k, .map [chain k' ks inner])

/-- append the auto-created chain for `rem` (all field segments) to the parent map -/
def autoCreate (parent : Node) (rem : List Seg) (inner : Node) : Except Err Node :=
  match allKeys rem with
  | some (k :: ks) => .ok (addField parent (chain k ks inner))
  | _ => .error .path

/-! ### the eight ops -/

/-- `applySet` after the empty-value check -/
def hSet (v : Bytes) (parent : Node) : Hit → Except Err Node
  | .target i => .ok (setChild parent i (.leaf v))
  | .appendSlot => .error .path
  | .missing rem => autoCreate parent rem (.leaf v)

/-- `applyDelete` -/
def hDelete (parent : Node) : Hit → Except Err Node
  | .target i => .ok (eraseChild parent i)
  | _ => .ok parent

/-- `applyInc` after the delta has been read -/
def hInc (v : Bytes) (dcls : NumClass) (d : Nat) (parent : Node) : Hit → Except Err Node
  | .target i =>
    match getChild parent i with
    | some (.leaf raw) =>
      match readNumeric raw with
      | .error e => .error e
      | .ok (tcls, t) =>
        if tcls ≠ dcls then .error .type else
        match computeInc (raw.headD 0) tcls t d with
        | .error e => .error e
        | .ok nr => .ok (setChild parent i (.leaf nr))
    | _ => .error .type
  | .appendSlot => .error .path
  | .missing rem => autoCreate parent rem (.leaf v)

def insertItem (p : Node) (v : Bytes) (prepend : Bool) : Node :=
  match p with
  | .arr xs => if prepend then .arr (.leaf v :: xs) else .arr (xs ++ [.leaf v])
  | _ => p

/-- `applyAppend` -/
def hAppend (v : Bytes) (prepend : Bool) (parent : Node) : Hit → Except Err Node
  | .appendSlot => .ok (insertItem parent v prepend)
  | .target _ => .error .path                 -- "APPEND path must end with [] marker"
  | .missing rem =>
    match rem.getLast? with
    | some .append => autoCreate parent rem.dropLast (.arr [.leaf v])
    | _ => .error .path

/-- `applyRemoveAt` after the final-segment check -/
def hRemoveAt (parent : Node) : Hit → Except Err Node
  | .target i => .ok (eraseChild parent i)
  | _ => .error .path

/-- first leaf element whose bytes equal `v` -/
def removeFirst (v : Bytes) : List Node → List Node
  | [] => []
  | x :: rest =>
    match x with
    | .leaf raw => if raw = v then rest else x :: removeFirst v rest
    | _ => x :: removeFirst v rest

/-- `canonicalValue`: a map / array encoding brought to the headers `Serialize` emits; scalars and
    anything `Parse` rejects keep their bytes -/
def canon (raw : Bytes) : Bytes :=
  match raw with
  | [] => []
  | c :: _ =>
    if isMapCode c || isArrayCode c then
      (match parse raw with | .ok t => serialize t | .error _ => raw)
    else raw

/-- the repaired `applyRemoveVal`: first element — scalar or container — whose canonical encoding
    is `want` (`elementBytes`) -/
def removeFirstC (want : Bytes) : List Node → List Node
  | [] => []
  | x :: rest => if canon (serialize x) = want then rest else x :: removeFirstC want rest

/-- which elements REMOVE_VAL looks at (fact `removeValCompare`) -/
def rmVal (canonical : Bool) (v : Bytes) : List Node → List Node :=
  if canonical then removeFirstC (canon v) else removeFirst v

/-- `applyRemoveVal` -/
def hRemoveVal (rm : List Node → List Node) (parent : Node) : Hit → Except Err Node
  | .target i =>
    match getChild parent i with
    | some (.arr xs) => .ok (setChild parent i (.arr (rm xs)))
    | _ => .error .type
  | _ => .ok parent

/-- `extractTopLevelFields`: `(key, raw value bytes)` of a map blob.  `validate` is the repaired
    code: every value must be accepted by `Parse` and nothing may follow the map. -/
def extractFields (validate : Bool) : Nat → Nat → Bytes → Except Err (List (Bytes × Bytes))
  | _, 0, b => if validate && !b.isEmpty then .error .msgpack else .ok []
  | 0, _ + 1, _ => .error .msgpack
  | fuel + 1, n + 1, b =>
    match b with
    | [] => .error .msgpack
    | c :: r =>
      if !isStringCode c then .error .nonstr else
      match strPayload c r with
      | .error e => .error e
      | .ok (k, r1) =>
        match skipOne r1 with
        | .error e => .error e
        | .ok r2 =>
          let raw := r1.take (r1.length - r2.length)
          match (if validate then (match parse raw with | .error e => some e | .ok _ => none) else none) with
          | some e => .error e
          | none =>
            match extractFields validate fuel n r2 with
            | .error e => .error e
            | .ok rest => .ok ((k, raw) :: rest)

def extractTop (validate : Bool) (v : Bytes) : Except Err (List (Bytes × Bytes)) :=
  match v with
  | [] => .error .msgpack
  | c :: r =>
    if !isMapCode c then .error .type else
    match countOf c r with
    | .error e => .error e
    | .ok (n, r') => extractFields validate v.length n r'

/-- `mergeFieldsInto` -/
def mergeInto (fs : Fields) : List (Bytes × Bytes) → Fields
  | [] => fs
  | (k, raw) :: rest =>
    match findField fs k with
    | some i => mergeInto (fs.set i (k, .leaf raw)) rest
    | none => mergeInto (fs ++ [(k, .leaf raw)]) rest

/-- `applyMerge` after the value has been split into fields -/
def hMerge (pf : List (Bytes × Bytes)) (parent : Node) : Hit → Except Err Node
  | .target i =>
    match getChild parent i with
    | some (.map fs) => .ok (setChild parent i (.map (mergeInto fs pf)))
    | _ => .error .type
  | .appendSlot => .error .path
  | .missing rem => autoCreate parent rem (.map (mergeInto [] pf))

/-- the repaired code's check of a spliced value -/
def validateValue (cfg : Cfg) (v : Bytes) : Except Err Unit :=
  if cfg.validatesValues then (match parse v with | .error e => .error e | .ok _ => .ok ()) else .ok ()

/-- `applyOp` (the path is already parsed) -/
def applyOp (cfg : Cfg) (t : Node) (op : Op) (segs : List Seg) : Except Err Node :=
  match op.kind with
  | .set =>
    if op.value.isEmpty then .error .op else
    match validateValue cfg op.value with
    | .error e => .error e
    | .ok () => walk (hSet op.value) segs t
  | .delete => walk hDelete segs t
  | .inc =>
    if op.value.isEmpty then .error .op else
    match validateValue cfg op.value with
    | .error e => .error e
    | .ok () =>
      match readNumeric op.value with
      | .error e => .error e
      | .ok (dcls, d) =>
        if dcls = .none then .error .type else
        walk (hInc op.value dcls d) segs t
  | .append =>
    if op.value.isEmpty then .error .op else
    match validateValue cfg op.value with
    | .error e => .error e
    | .ok () => walk (hAppend op.value false) segs t
  | .prepend =>
    if op.value.isEmpty then .error .op else
    match validateValue cfg op.value with
    | .error e => .error e
    | .ok () => walk (hAppend op.value true) segs t
  | .removeAt =>
    match segs.getLast? with
    | some (.index _) => walk hRemoveAt segs t
    | _ => .error .path
  | .removeVal =>
    if op.value.isEmpty then .error .op else walk (hRemoveVal (rmVal cfg.rmvalCanon op.value)) segs t
  | .merge =>
    if op.value.isEmpty then .error .op else
    match extractTop cfg.validatesValues op.value with
    | .error e => .error e
    | .ok pf => walk (hMerge pf) segs t
  | .unknown => .error .op

/-- one op of the loop in `Apply`: parse the path, then apply -/
def stepOp (cfg : Cfg) (t : Node) (op : Op) : Except Err Node :=
  match parsePath op.path with
  | .error e => .error e
  | .ok segs => applyOp cfg t op segs

/-- the op loop -/
def applyOps (cfg : Cfg) : Node → List Op → Except Err Node
  | t, [] => .ok t
  | t, op :: rest =>
    match stepOp cfg t op with
    | .error e => .error e
    | .ok t' => applyOps cfg t' rest

/-- `ApplyWithCondition` -/
def applyWithCondition (cfg : Cfg) (body : Bytes) (ops : List Op) (cond : Option Condition) :
    Except Err Bytes :=
  match parse body with
  | .error e => .error e
  | .ok t =>
    match (match cond with | none => Except.ok () | some c => evalCond cfg t c) with
    | .error e => .error e
    | .ok () =>
      match applyOps cfg t ops with
      | .error e => .error e
      | .ok t' => .ok (serialize t')

/-- what the caller of `Apply` holds afterwards: the new body on success, the old one otherwise
    ("if any op fails, the original blob is returned untouched") -/
def bodyAfter (cfg : Cfg) (body : Bytes) (ops : List Op) (cond : Option Condition) : Bytes :=
  match applyWithCondition cfg body ops cond with
  | .ok out => out
  | .error _ => body

/-! ### `PatchFields` (swamp_patch.go): status mapping and the magic prefix -/

/-- content of the treasure under the key -/
inductive Stored where
  | absent                 -- no treasure / `ContentTypeVoid`
  | bytes (raw : Bytes)    -- `ContentTypeByteArray`
  | other                  -- any other content type
  deriving DecidableEq, Repr

inductive Status where
  | patched | created | keyNotFound | conditionNotMet | fieldNotFound | typeMismatch
  | pathInvalid | encodingNotSupported | internalError | capExceeded
  deriving DecidableEq, Repr

def Status.code : Status → Nat
  | .patched => 0 | .created => 1 | .keyNotFound => 2 | .conditionNotMet => 3
  | .fieldNotFound => 4 | .typeMismatch => 5 | .pathInvalid => 6
  | .encodingNotSupported => 7 | .internalError => 8 | .capExceeded => 9

/-- `classifyPatchError` -/
def Err.status : Err → Status
  | .cond => .conditionNotMet | .type => .typeMismatch | .path => .pathInvalid
  | .op => .pathInvalid | .msgpack => .encodingNotSupported | .nonstr => .encodingNotSupported

/-- the two bytes the SDK puts in front of a msgpack body (`patchMsgpackMagic0/1`) -/
structure Magic where
  b0 : UInt8
  b1 : UInt8
  deriving DecidableEq, Repr

/-- `PatchFields` without cap / meta: `(status, stored content afterwards)` -/
def patchFields (cfg : Cfg) (mg : Magic) (st : Stored) (ops : List Op) (cond : Option Condition)
    (create : Bool) (seed : Bytes) : Status × Stored :=
  let seed' := if seed.isEmpty then [0x80] else seed
  if !create && st = .absent then (.keyNotFound, st) else
  if create && (match parse seed' with | .error _ => true | .ok _ => false) then (.typeMismatch, st) else
  let input : Except Status (Bytes × Bool) :=
    match st with
    | .absent => .ok (seed', true)
    | .bytes raw =>
      match raw with
      | x :: y :: body => if x = mg.b0 ∧ y = mg.b1 then .ok (body, false) else .error .encodingNotSupported
      | _ => .error .encodingNotSupported
    | .other => .error .typeMismatch
  match input with
  | .error s => (s, st)
  | .ok (body, isCreate) =>
    match applyWithCondition cfg body ops cond with
    | .error e => (e.status, st)
    | .ok out => (if isCreate then .created else .patched, .bytes (mg.b0 :: mg.b1 :: out))

end Hv.Patch
