/-
  Error classes, part 2: one op, the op list and the whole patch — model and Spec agree completely
  (same decoded result, same error class) on documents no earlier op of the same patch has spliced
  a container into.  What stays open is stated, with closed witnesses, at the end.
-/
import Hv.Patch.ErrorClass

namespace Hv.Patch
open Spec

/-! ### one op, one op list, one patch -/

/-- a MERGE value the code accepts (a well-formed map with string keys); what happens to the
    error class when it does not is stated at `merge_rejected_class` -/
def MergeAccepted (op : Op) : Prop :=
  op.kind = .merge → op.value.isEmpty = false → ∃ pf, extractTop true op.value = .ok pf

/-- ONE OP ON A DECODED DOCUMENT: model and Spec agree completely — same result up to decoding,
    same error class. -/
theorem applyOp_agrees {cfg : Cfg} (hv : cfg.validatesValues = true) {N : Nat} (hN : N < 2 ^ 32)
    {t : Node} {op : Op} (segs : List Seg) (hd : Decoded t) (hw : WfB N t)
    (hrv : RemoveValScalar cfg op) (hm : MergeAccepted op) :
    Except.map norm (applyOp cfg t op segs) = refOpSegs t op segs := by
  unfold applyOp refOpSegs decode validateValue
  rw [if_pos hv]
  cases hk : op.kind <;> simp only
  case set =>
    by_cases he : op.value.isEmpty = true
    · rw [if_pos he, if_pos he]; rfl
    · rw [if_neg he, if_neg he]
      cases hp : parse op.value with
      | error e => rfl
      | ok d => exact walk_agrees (agree_set hp) segs t hd hw
  case delete => exact walk_agrees agree_delete segs t hd hw
  case inc =>
    by_cases he : op.value.isEmpty = true
    · rw [if_pos he, if_pos he]; rfl
    · rw [if_neg he, if_neg he]
      cases hp : parse op.value with
      | error e => rfl
      | ok d =>
        simp only
        cases hr : readNumeric op.value with
        | error e => rfl
        | ok cv =>
          obtain ⟨dcls, dv⟩ := cv
          simp only
          by_cases hc : dcls = .none
          · rw [if_pos hc, if_pos hc]; rfl
          · rw [if_neg hc, if_neg hc]
            exact walk_agrees (agree_inc hp dcls dv) segs t hd hw
  case append =>
    by_cases he : op.value.isEmpty = true
    · rw [if_pos he, if_pos he]; rfl
    · rw [if_neg he, if_neg he]
      cases hp : parse op.value with
      | error e => rfl
      | ok d => exact walk_agrees (agree_append hp false) segs t hd hw
  case prepend =>
    by_cases he : op.value.isEmpty = true
    · rw [if_pos he, if_pos he]; rfl
    · rw [if_neg he, if_neg he]
      cases hp : parse op.value with
      | error e => rfl
      | ok d => exact walk_agrees (agree_append hp true) segs t hd hw
  case removeAt =>
    cases hl : segs.getLast? with
    | none => rfl
    | some sg =>
      cases sg with
      | index n => exact walk_agrees agree_removeAt segs t hd hw
      | field k => rfl
      | append => rfl
  case removeVal =>
    by_cases he : op.value.isEmpty = true
    · rw [if_pos he, if_pos he]; rfl
    · rw [if_neg he, if_neg he]
      exact walk_agrees (agree_removeVal hN _ _ (fun hc => hrv hk hc)) segs t hd hw
  case merge =>
    by_cases he : op.value.isEmpty = true
    · rw [if_pos he, if_pos he]; rfl
    · rw [if_neg he, if_neg he]
      obtain ⟨pf, hpf⟩ := hm hk (by simpa using he)
      rw [hv, hpf, extractTop_parse hpf]
      exact walk_agrees (agree_merge pf) segs t hd hw
  case unknown => rfl

theorem stepOp_agrees {cfg : Cfg} (hv : cfg.validatesValues = true) {N : Nat} (hN : N < 2 ^ 32)
    {t : Node} {op : Op} (hd : Decoded t) (hw : WfB N t)
    (hrv : RemoveValScalar cfg op) (hm : MergeAccepted op) :
    Except.map norm (stepOp cfg t op) = refOp t op := by
  unfold stepOp refOp
  cases hp : parsePath op.path with
  | error e => rfl
  | ok segs => exact applyOp_agrees hv hN segs hd hw hrv hm

/-- no op of the patch runs on a document into which an earlier op of the SAME patch has spliced
    a still-encoded container (the recorded finding C13-spliced-value-opaque is exactly the
    failure of this) -/
def NoSplice (cfg : Cfg) (t : Node) (ops : List Op) : Prop :=
  ∀ pre suf t', ops = pre ++ suf → suf ≠ [] → applyOps cfg t pre = .ok t' → Decoded t'

/-- THE OP LIST: model and Spec agree completely, errors included, as long as no op runs on a
    spliced document. -/
theorem applyOps_agrees {cfg : Cfg} (hv : cfg.validatesValues = true) :
    ∀ (ops : List Op) (N : Nat) (t : Node), (∀ op ∈ ops, op.path.length < 2 ^ 32) →
      (∀ op ∈ ops, RemoveValScalar cfg op) → (∀ op ∈ ops, MergeAccepted op) →
      N + totalGrowth cfg ops < 2 ^ 32 → WfB N t → Decoded t → NoSplice cfg t ops →
      Except.map norm (applyOps cfg t ops) = refOps t ops
  | [], N, t, _, _, _, _, _, hd, _ => by
    rw [applyOps, refOps]; simp only [Except.map]; rw [hd]
  | op :: rest, N, t, hp, hr, hm, hsz, ht, hd, hns => by
    rw [totalGrowth] at hsz
    rw [applyOps, refOps]
    have hstep := stepOp_agrees hv (N := N) (by omega) hd ht (hr op (by simp)) (hm op (by simp))
    cases hs : stepOp cfg t op with
    | error e => rw [hs] at hstep; rw [← hstep]; rfl
    | ok t1 =>
      rw [hs] at hstep
      rw [← hstep]
      simp only [Except.map]
      have h1 := stepOp_WfB hv (hp op (by simp)) ht hs
      cases rest with
      | nil => rw [applyOps, refOps]
      | cons op2 rest2 =>
        have hd1 : Decoded t1 := hns [op] (op2 :: rest2) t1 rfl (by simp) (by rw [applyOps, hs]; rfl)
        rw [hd1]
        have hns1 : NoSplice cfg t1 (op2 :: rest2) := by
          intro pre suf t' hsplit hne hpre
          exact hns (op :: pre) suf t' (by rw [hsplit]; rfl) hne (by rw [applyOps, hs]; exact hpre)
        exact applyOps_agrees hv (op2 :: rest2) _ t1 (fun o ho => hp o (List.mem_cons_of_mem _ ho))
          (fun o ho => hr o (List.mem_cons_of_mem _ ho)) (fun o ho => hm o (List.mem_cons_of_mem _ ho))
          (by omega) h1 hd1 hns1

/-- a one-op patch never runs an op on a spliced document -/
theorem noSplice_single (cfg : Cfg) {t : Node} (hd : Decoded t) (op : Op) : NoSplice cfg t [op] := by
  intro pre suf t' hsplit hne hpre
  cases pre with
  | nil => rw [applyOps] at hpre; injection hpre with hpre; subst hpre; exact hd
  | cons o pre' =>
    cases pre' with
    | nil =>
      simp at hsplit
      exact absurd hsplit.2 hne
    | cons o2 pre2 => simp at hsplit

/-- ERROR-CLASS AGREEMENT for the op list: when the documented semantics fail with class `c`, the
    code's patch fails with the same class `c`. -/
theorem applyOps_error_class {cfg : Cfg} (hv : cfg.validatesValues = true)
    {ops : List Op} {N : Nat} {t : Node} (hp : ∀ op ∈ ops, op.path.length < 2 ^ 32)
    (hr : ∀ op ∈ ops, RemoveValScalar cfg op) (hm : ∀ op ∈ ops, MergeAccepted op)
    (hsz : N + totalGrowth cfg ops < 2 ^ 32) (ht : WfB N t) (hd : Decoded t) (hns : NoSplice cfg t ops)
    {c : Err} (h : refOps t ops = .error c) : applyOps cfg t ops = .error c := by
  have := applyOps_agrees hv ops N t hp hr hm hsz ht hd hns
  rw [h] at this
  cases ha : applyOps cfg t ops with
  | ok t' => rw [ha] at this; cases this
  | error e => rw [ha] at this; simp only [Except.map] at this; injection this with this; rw [this]

/-- … and conversely (the model never invents a failure, nor another class) -/
theorem applyOps_error_class_conv {cfg : Cfg} (hv : cfg.validatesValues = true)
    {ops : List Op} {N : Nat} {t : Node} (hp : ∀ op ∈ ops, op.path.length < 2 ^ 32)
    (hr : ∀ op ∈ ops, RemoveValScalar cfg op) (hm : ∀ op ∈ ops, MergeAccepted op)
    (hsz : N + totalGrowth cfg ops < 2 ^ 32) (ht : WfB N t) (hd : Decoded t) (hns : NoSplice cfg t ops)
    {c : Err} (h : applyOps cfg t ops = .error c) : refOps t ops = .error c := by
  have := applyOps_agrees hv ops N t hp hr hm hsz ht hd hns
  rw [h] at this
  rw [← this]; rfl

/-- THE PATCH (`ApplyWithCondition`, condition absent or met): documented failure class `c` ⇒ the
    code fails with `c` and the caller keeps the old body. -/
theorem applyWithCondition_error_class {cfg : Cfg} (hv : cfg.validatesValues = true)
    {body : Bytes} {ops : List Op} {cond : Option Condition} {t : Node}
    (hparse : parse body = .ok t)
    (hcond : (match cond with | none => Except.ok () | some cd => evalCond cfg t cd) = .ok ())
    (hp : ∀ op ∈ ops, op.path.length < 2 ^ 32)
    (hr : ∀ op ∈ ops, RemoveValScalar cfg op) (hm : ∀ op ∈ ops, MergeAccepted op)
    (hsz : maxCh t + totalGrowth cfg ops < 2 ^ 32) (hns : NoSplice cfg t ops)
    {c : Err} (h : refOps t ops = .error c) :
    applyWithCondition cfg body ops cond = .error c := by
  have hw := parse_wf hparse
  have h0 := wf_WfB t hw.1
  have := applyOps_error_class hv hp hr hm hsz h0 hw.2 hns h
  unfold applyWithCondition
  rw [hparse]; simp only
  cases cond with
  | none => simp only; rw [this]
  | some cd => simp only at hcond ⊢; rw [hcond]; simp only; rw [this]

/-! ### what is NOT an agreement, precisely

  1. MERGE with a value the code rejects.  The code looks at the first byte ("not a map" →
     `type`) BEFORE it validates; the documented reading decodes first.  For a value that is both
     malformed and not a map the classes differ (`merge_rejected_class`: `type` vs `msgpack`,
     TYPE_MISMATCH vs ENCODING_NOT_SUPPORTED); the docs do not order the two checks.  For a
     malformed MAP value both sides fail with `msgpack` or `nonstr` — both are
     ENCODING_NOT_SUPPORTED in PatchFields; which of the two is tested (oracle), not proved.
  2. An op that runs after a container was spliced in by the same patch (`NoSplice` fails): the
     recorded finding C13-spliced-value-opaque, witness `witness_spliced_opaque` in Props/C13.
  3. Unrepaired REMOVE_VAL with a container value (`RemoveValScalar` fails): no error at all on
     either side — a silent no-op against a documented removal (C13-removeval-skips-containers).
-/

/-- 1., closed: MERGE of the single byte 0xc1 (never valid msgpack, not a map) into `{}` -/
theorem merge_rejected_class (cfg : Cfg) :
    let op : Op := ⟨.merge, [], [0xc1]⟩
    applyOp cfg (.map []) op [] = .error .type ∧ refOpSegs (.map []) op [] = .error .msgpack := by
  refine ⟨?_, ?_⟩
  · simp [applyOp, extractTop, isMapCode]
  · rfl

end Hv.Patch
