/-
  C13 model, part 2 — `skeleton.go` (`Parse`, `parseNode/parseMap/parseArray`) and
  `serialize.go` (`Serialize`, `writeNode`).

  A `Node` is the Go `Skeleton` with byte ranges resolved: a leaf carries its bytes (the slice
  `orig[LeafStart:LeafEnd]`, or `RawBytes` after a mutation — the Go code never distinguishes
  the two again).  Map keys are Go strings, i.e. arbitrary byte strings.  Header widths are
  forgotten by the skeleton, exactly as in Go: `Serialize` re-emits the smallest header.

  `parseNodeG strict`: with `strict = false` this is the Go parser; `strict = true` additionally
  rejects any map/array/key header that is wider than the encoder would emit.  The strict
  variant only exists to *state* the exact-bytes round trip (`Hv.Props.C13`).
-/
import Hv.Patch.Msgpack

namespace Hv.Patch

inductive Node where
  | leaf (raw : Bytes)
  | map (fs : List (Bytes × Node))
  | arr (xs : List Node)
  deriving Repr

abbrev Fields := List (Bytes × Node)

mutual
/-- `parseNode`: one value → `(skeleton, rest)` -/
def parseNodeG (strict : Bool) : Nat → Bytes → Except Err (Node × Bytes)
  | 0, _ => .error .msgpack
  | fuel + 1, b =>
    match b with
    | [] => .error .msgpack                       -- PeekCode: EOF
    | c :: r =>
      if isMapCode c then
        match countOf c r with
        | .error e => .error e
        | .ok (n, r') =>
          if strict && !minimalCount c n then .error .msgpack else
          match parseFieldsG strict fuel n r' with
          | .error e => .error e
          | .ok (fs, r'') => .ok (.map fs, r'')
      else if isArrayCode c then
        match countOf c r with
        | .error e => .error e
        | .ok (n, r') =>
          if strict && !minimalCount c n then .error .msgpack else
          match parseItemsG strict fuel n r' with
          | .error e => .error e
          | .ok (xs, r'') => .ok (.arr xs, r'')
      else
        match leafExtent c r with
        | .error e => .error e
        | .ok n =>
          match splitN n r with
          | .error e => .error e
          | .ok (p, r') => .ok (.leaf (c :: p), r')
/-- the `for i < n` loop of `parseMap` -/
def parseFieldsG (strict : Bool) : Nat → Nat → Bytes → Except Err (Fields × Bytes)
  | _, 0, b => .ok ([], b)
  | 0, _ + 1, _ => .error .msgpack
  | fuel + 1, n + 1, b =>
    match b with
    | [] => .error .msgpack                       -- PeekCode: EOF
    | c :: r =>
      if !isStringCode c then .error .nonstr else
      match strPayload c r with
      | .error e => .error e
      | .ok (k, r1) =>
        if strict && !minimalStr c k.length then .error .msgpack else
        match parseNodeG strict fuel r1 with
        | .error e => .error e
        | .ok (v, r2) =>
          match parseFieldsG strict fuel n r2 with
          | .error e => .error e
          | .ok (rest, r3) => .ok ((k, v) :: rest, r3)
/-- the `for i < n` loop of `parseArray` -/
def parseItemsG (strict : Bool) : Nat → Nat → Bytes → Except Err (List Node × Bytes)
  | _, 0, b => .ok ([], b)
  | 0, _ + 1, _ => .error .msgpack
  | fuel + 1, n + 1, b =>
    match parseNodeG strict fuel b with
    | .error e => .error e
    | .ok (v, r1) =>
      match parseItemsG strict fuel n r1 with
      | .error e => .error e
      | .ok (rest, r2) => .ok (v :: rest, r2)
end

/-- `Parse(blob)`: empty input and trailing bytes are `ErrInvalidMsgpack`.
    Fuel: a value costs one unit and at least one byte; a loop step costs one more unit (and,
    for a map, at least the key's code byte), so `2 * length - 1` is exhausted only when the
    input is: `parseNodeG` is entered with `fuel ≥ 2·|b| - 1`, the loops with `fuel ≥ 2·|b|`. -/
def parseG (strict : Bool) (b : Bytes) : Except Err Node :=
  match parseNodeG strict (2 * b.length - 1) b with
  | .error e => .error e
  | .ok (t, []) => .ok t
  | .ok (_, _ :: _) => .error .msgpack

/-- the Go parser -/
def parse (b : Bytes) : Except Err Node := parseG false b
/-- the Go parser restricted to documents whose headers are the encoder's own -/
def parseStrict (b : Bytes) : Except Err Node := parseG true b

mutual
/-- `writeNode` -/
def serialize : Node → Bytes
  | .leaf raw => raw
  | .map fs => encMapLen fs.length ++ serFields fs
  | .arr xs => encArrLen xs.length ++ serItems xs
def serFields : Fields → Bytes
  | [] => []
  | (k, v) :: rest => encStr k ++ serialize v ++ serFields rest
def serItems : List Node → Bytes
  | [] => []
  | v :: rest => serialize v ++ serItems rest
end

/-- `wf`: the body is accepted by `Parse` (an explicit, decidable predicate) -/
def wf (b : Bytes) : Bool := match parse b with | .ok _ => true | .error _ => false
/-- `wf` with encoder-chosen headers only -/
def wfMinimal (b : Bytes) : Bool := match parseStrict b with | .ok _ => true | .error _ => false

end Hv.Patch
