/-
  Error classes: on a DECODED well-formed document (what `Parse` returns — before any container
  value has been spliced in by the same patch) one op of the model and the same op of the SPEC
  agree completely: same success (up to decoding the result), same error class.

  * `walk_eq`          — the code's walk IS "resolve, then edit", errors included;
  * `walk_agrees`      — model walk with handler `h` = Spec "resolve and edit" with handler `s`
                         whenever the handlers agree on decoded containers (`agree_*`).
  `applyOp_agrees` / `applyOps_agrees` / the error-class theorems and what is left open (and why)
  are in `ErrorClassOps.lean`.
-/
import Hv.Patch.SpecRefine
import Hv.Patch.Target

namespace Hv.Patch
open Spec

/-- a document as the Spec sees it: no spliced, still-encoded container inside a leaf -/
def Decoded (t : Node) : Prop := norm t = t

theorem decoded_child {u c : Node} {i : Nat} (hd : Decoded u) (h : getChild u i = some c) : Decoded c := by
  unfold Decoded at hd ⊢
  cases u with
  | leaf raw => simp [getChild] at h
  | map fs =>
    rw [norm] at hd
    injection hd with hd
    simp only [getChild, Option.map_eq_some_iff] at h
    obtain ⟨⟨k, c'⟩, hg, hc⟩ := h
    simp at hc; subst hc
    have := normFields_get fs i k c' hg
    rw [hd, hg] at this
    injection this with this; injection this with _ h2; exact h2.symm
  | arr xs =>
    rw [norm] at hd
    injection hd with hd
    simp only [getChild] at h
    have := normItems_get xs i c h
    rw [hd, h] at this
    injection this with this; exact this.symm

theorem isCont_of_getChild {u c : Node} {i : Nat} (h : getChild u i = some c) : IsCont u := by
  cases u with
  | leaf raw => simp [getChild] at h
  | map fs => simp [IsCont]
  | arr xs => simp [IsCont]

/-- `editAt` with a model-side and a Spec-side editor that agree (errors included) on the node the
    position leads to -/
theorem editAt_agrees {N : Nat} {P : Node → Prop} {f g : Node → Except Err Node}
    (hfg : ∀ u, P u → Decoded u → WfB N u → Except.map norm (f u) = g u) :
    ∀ (p : List Nat) (t : Node), (∀ u, getAt t p = some u → P u) → Decoded t → WfB N t →
      Except.map norm (editAt p f t) = editAt p g t
  | [], t, hs, hd, hw => by rw [editAt, editAt]; exact hfg t (hs t rfl) hd hw
  | i :: p, t, hs, hd, hw => by
    rw [editAt, editAt]
    cases hg : getChild t i with
    | none => rfl
    | some c =>
      simp only
      have hs' : ∀ u, getAt c p = some u → P u := fun u hu => hs u (by rw [getAt, hg]; exact hu)
      have ih := editAt_agrees hfg p c hs' (decoded_child hd hg) (WfB_getChild hw hg)
      cases he : editAt p f c with
      | error e => rw [he] at ih; rw [← ih]; rfl
      | ok c' =>
        rw [he] at ih
        rw [← ih]
        simp only [Except.map]
        rw [norm_setChild (isCont_of_getChild hg), hd]

/-- what `resolve` leads to is a container, and `[]` is only reported on an array -/
theorem resolve_site : ∀ (segs : List Seg) (t : Node) (p : List Nat) (hit : Hit),
    resolve segs t = .ok (p, hit) → ∀ u, getAt t p = some u → IsCont u ∧ Fits u hit
  | [], t, p, hit, h => by rw [resolve] at h; cases h
  | seg :: rest, t, p, hit, h => by
    cases seg with
    | field k =>
      cases t with
      | leaf raw => simp [resolve] at h
      | arr xs => simp [resolve] at h
      | map fs =>
        rw [resolve] at h
        cases hf : keyIndex fs k with
        | none =>
          rw [hf] at h; simp only at h
          injection h with h; injection h with hp hh; subst hp hh
          intro u hu; rw [getAt] at hu; injection hu with hu; subst hu; simp [IsCont, Fits]
        | some i =>
          rw [hf] at h; simp only at h
          by_cases hr : rest.isEmpty = true
          · rw [if_pos hr] at h
            injection h with h; injection h with hp hh; subst hp hh
            intro u hu; rw [getAt] at hu; injection hu with hu; subst hu; simp [IsCont, Fits]
          · rw [if_neg hr] at h
            cases hg : fs[i]? with
            | none => rw [hg] at h; cases h
            | some kc =>
              obtain ⟨k', c⟩ := kc
              rw [hg] at h; simp only at h
              cases hres : resolve rest c with
              | error e => rw [hres] at h; cases h
              | ok ph =>
                obtain ⟨p', hit'⟩ := ph
                rw [hres] at h; simp only at h
                injection h with h; injection h with hp hh; subst hp hh
                intro u hu
                have hgc : getChild (Node.map fs) i = some c := by simp [getChild, hg]
                rw [getAt, hgc] at hu
                exact resolve_site rest c p' hit' hres u hu
    | index n =>
      cases t with
      | leaf raw => simp [resolve] at h
      | map fs => simp [resolve] at h
      | arr xs =>
        rw [resolve] at h
        cases hri : index n xs.length with
        | error e => rw [hri] at h; cases h
        | ok i =>
          rw [hri] at h; simp only at h
          by_cases hr : rest.isEmpty = true
          · rw [if_pos hr] at h
            injection h with h; injection h with hp hh; subst hp hh
            intro u hu; rw [getAt] at hu; injection hu with hu; subst hu; simp [IsCont, Fits]
          · rw [if_neg hr] at h
            cases hg : xs[i]? with
            | none => rw [hg] at h; cases h
            | some c =>
              rw [hg] at h; simp only at h
              cases hres : resolve rest c with
              | error e => rw [hres] at h; cases h
              | ok ph =>
                obtain ⟨p', hit'⟩ := ph
                rw [hres] at h; simp only at h
                injection h with h; injection h with hp hh; subst hp hh
                intro u hu
                have hgc : getChild (Node.arr xs) i = some c := by simp [getChild, hg]
                rw [getAt, hgc] at hu
                exact resolve_site rest c p' hit' hres u hu
    | append =>
      cases t with
      | leaf raw => simp [resolve] at h; split at h <;> cases h
      | map fs => simp [resolve] at h; split at h <;> cases h
      | arr xs =>
        rw [resolve] at h
        by_cases hr : (!rest.isEmpty) = true
        · rw [if_pos hr] at h; cases h
        · rw [if_neg hr] at h
          injection h with h; injection h with hp hh; subst hp hh
          intro u hu; rw [getAt] at hu; injection hu with hu; subst hu; simp [IsCont, Fits]

/-- the code's walk is "resolve the path, then edit the container found" — errors included -/
theorem walk_eq (h : Node → Hit → Except Err Node) :
    ∀ (segs : List Seg) (t : Node),
      walk h segs t = (match resolve segs t with
        | .error e => .error e
        | .ok (p, hit) => editAt p (fun u => h u hit) t)
  | [], t => by rw [walk, resolve]
  | seg :: rest, t => by
    cases seg with
    | field k =>
      cases t with
      | leaf raw => simp [walk, resolve]
      | arr xs => simp [walk, resolve]
      | map fs =>
        rw [walk, resolve, keyIndex_eq]
        cases hf : findField fs k with
        | none => simp only; rw [editAt]
        | some i =>
          simp only
          by_cases hr : rest.isEmpty = true
          · rw [if_pos hr, if_pos hr]; simp only; rw [editAt]
          · rw [if_neg hr, if_neg hr]
            cases hg : fs[i]? with
            | none => rfl
            | some kc =>
              obtain ⟨k', c⟩ := kc
              simp only
              rw [walk_eq h rest c]
              cases hres : resolve rest c with
              | error e => rfl
              | ok ph =>
                obtain ⟨p, hit⟩ := ph
                simp only
                rw [editAt]
                have hgc : getChild (Node.map fs) i = some c := by simp [getChild, hg]
                rw [hgc]; simp only
                cases editAt p (fun u => h u hit) c with
                | error e => rfl
                | ok c' => simp [setChild, hg]
    | index n =>
      cases t with
      | leaf raw => simp [walk, resolve]
      | map fs => simp [walk, resolve]
      | arr xs =>
        rw [walk, resolve, index_eq]
        cases hri : resolveIndex n xs.length with
        | error e => rfl
        | ok i =>
          simp only
          by_cases hr : rest.isEmpty = true
          · rw [if_pos hr, if_pos hr]; simp only; rw [editAt]
          · rw [if_neg hr, if_neg hr]
            cases hg : xs[i]? with
            | none => rfl
            | some c =>
              simp only
              rw [walk_eq h rest c]
              cases hres : resolve rest c with
              | error e => rfl
              | ok ph =>
                obtain ⟨p, hit⟩ := ph
                simp only
                rw [editAt]
                have hgc : getChild (Node.arr xs) i = some c := by simp [getChild, hg]
                rw [hgc]; simp only
                cases editAt p (fun u => h u hit) c with
                | error e => rfl
                | ok c' => simp [setChild]
    | append =>
      cases t with
      | leaf raw => simp [walk, resolve]; split <;> rfl
      | map fs => simp [walk, resolve]; split <;> rfl
      | arr xs =>
        rw [walk, resolve]
        by_cases hr : (!rest.isEmpty) = true
        · rw [if_pos hr, if_pos hr]
        · rw [if_neg hr, if_neg hr]; simp only; rw [editAt]

/-! ### handlers agree, errors included, on a decoded container -/

theorem create_agrees {u inner : Node} {rem : List Seg} (hu : IsCont u) (hd : Decoded u) :
    Except.map norm (autoCreate u rem inner) = create u rem (norm inner) := by
  cases h : autoCreate u rem inner with
  | ok u' =>
    have := norm_create hu h
    rw [hd] at this
    rw [this]; rfl
  | error e =>
    unfold autoCreate at h
    unfold create
    split at h
    · cases h
    · rename_i hno
      injection h with h; subst h
      split
      · rename_i k ks hk; exact absurd hk (hno k ks)
      · rfl

/-- model handler `h` and Spec handler `s` agree on decoded containers, errors included -/
def Agree (N : Nat) (h s : Node → Hit → Except Err Node) : Prop :=
  ∀ u hit, IsCont u → Fits u hit → Decoded u → WfB N u → Except.map norm (h u hit) = s u hit

theorem agree_set {N : Nat} {v : Bytes} {d : Node} (hd : parse v = .ok d) : Agree N (hSet v) (sSet d) := by
  intro u hit hu _ hdec _
  cases hit with
  | target i => rw [hSet, sSet]; simp only [Except.map]; rw [norm_setChild hu, normLeaf_of_parse hd, hdec]
  | appendSlot => rw [hSet, sSet]; rfl
  | missing rem => rw [hSet, sSet, create_agrees hu hdec, normLeaf_of_parse hd]

theorem agree_delete {N : Nat} : Agree N hDelete sDelete := by
  intro u hit hu _ hdec _
  cases hit with
  | target i => rw [hDelete, sDelete]; simp only [Except.map]; rw [norm_eraseChild hu, hdec]
  | appendSlot => simp [hDelete, sDelete, Except.map]; exact hdec
  | missing rem => simp [hDelete, sDelete, Except.map]; exact hdec

theorem agree_removeAt {N : Nat} : Agree N hRemoveAt sRemoveAt := by
  intro u hit hu _ hdec _
  cases hit with
  | target i => rw [hRemoveAt, sRemoveAt]; simp only [Except.map]; rw [norm_eraseChild hu, hdec]
  | appendSlot => simp [hRemoveAt, sRemoveAt, Except.map]
  | missing rem => simp [hRemoveAt, sRemoveAt, Except.map]

theorem agree_inc {N : Nat} {v : Bytes} {d : Node} (hd : parse v = .ok d) (dcls : NumClass) (dv : Nat) :
    Agree N (hInc v dcls dv) (sInc d dcls dv) := by
  intro u hit hu _ hdec _
  cases hit with
  | target i =>
    rw [hInc, sInc]
    cases hg : getChild u i with
    | none => rfl
    | some c =>
      cases c with
      | map fs => rfl
      | arr xs => rfl
      | leaf raw =>
        simp only
        cases hrn : readNumeric raw with
        | error e => rfl
        | ok cv =>
          obtain ⟨tcls, tv⟩ := cv
          simp only
          by_cases hcls : tcls ≠ dcls
          · rw [if_pos hcls, if_pos hcls]; rfl
          · rw [if_neg hcls, if_neg hcls]
            cases hci : computeInc (raw.headD 0) tcls tv dv with
            | error e => rfl
            | ok nr =>
              simp only [Except.map]
              rw [norm_setChild hu, normLeaf_of_parse (computeInc_wf hci), hdec]
  | appendSlot => rw [hInc, sInc]; rfl
  | missing rem => rw [hInc, sInc, create_agrees hu hdec, normLeaf_of_parse hd]

theorem agree_append {N : Nat} {v : Bytes} {d : Node} (hd : parse v = .ok d) (pre : Bool) :
    Agree N (hAppend v pre) (sAppend d pre) := by
  intro u hit hu hfit hdec _
  cases hit with
  | target i => rw [hAppend, sAppend]; rfl
  | appendSlot =>
    cases u with
    | leaf raw => exact absurd hu (by simp [IsCont])
    | map fs => exact absurd hfit (by simp [Fits])
    | arr xs =>
      have hx : normItems xs = xs := by
        unfold Decoded at hdec; rw [norm] at hdec; injection hdec
      rw [hAppend, sAppend]
      simp only [insertItem, Except.map]
      cases pre with
      | true => simp only [if_true]; rw [norm, normItems, normLeaf_of_parse hd, hx]
      | false =>
        simp only [Bool.false_eq_true, if_false]
        rw [norm, normItems_append, normItems, normItems, normLeaf_of_parse hd, hx]
  | missing rem =>
    rw [hAppend, sAppend]
    cases hl : rem.getLast? with
    | none => rfl
    | some sg =>
      cases sg with
      | append =>
        simp only
        rw [create_agrees hu hdec, norm, normItems, normItems, normLeaf_of_parse hd]
      | field k => rfl
      | index n => rfl

theorem agree_removeVal {N : Nat} (hN : N < 2 ^ 32) (c : Bool) (v : Bytes) (hv : c = false → ScalarVal v) :
    Agree N (hRemoveVal (rmVal c v)) (sRemoveVal v) := by
  intro u hit hu _ hdec hw
  cases hit with
  | target i =>
    rw [hRemoveVal, sRemoveVal]
    cases hg : getChild u i with
    | none => rfl
    | some ch =>
      cases ch with
      | leaf raw => rfl
      | map fs => rfl
      | arr xs =>
        simp only [Except.map]
        have hc := WfB_getChild hw hg
        rw [WfB] at hc
        have hdx := decoded_child hdec hg
        have hx : normItems xs = xs := by
          unfold Decoded at hdx; rw [norm] at hdx; injection hdx
        rw [norm_setChild hu, norm, rmVal_norm hN c v hv xs hc.2, hx, hdec]
  | appendSlot => simp [hRemoveVal, sRemoveVal, Except.map]; exact hdec
  | missing rem => simp [hRemoveVal, sRemoveVal, Except.map]; exact hdec

theorem agree_merge {N : Nat} (pf : List (Bytes × Bytes)) : Agree N (hMerge pf) (sMerge (pfNorm pf)) := by
  intro u hit hu _ hdec _
  cases hit with
  | target i =>
    rw [hMerge, sMerge]
    cases hg : getChild u i with
    | none => rfl
    | some ch =>
      cases ch with
      | leaf raw => rfl
      | arr xs => rfl
      | map fs =>
        simp only [Except.map]
        have hdx := decoded_child hdec hg
        have hx : normFields fs = fs := by
          unfold Decoded at hdx; rw [norm] at hdx; injection hdx
        rw [norm_setChild hu, norm, mergeInto_norm, hx, hdec]
  | appendSlot => rw [hMerge, sMerge]; rfl
  | missing rem => rw [hMerge, sMerge, create_agrees hu hdec, norm, mergeInto_norm, normFields]

/-- model walk with handler `h` = Spec "resolve and edit" with handler `s`, errors included -/
theorem walk_agrees {N : Nat} {h s : Node → Hit → Except Err Node} (ha : Agree N h s)
    (segs : List Seg) (t : Node) (hd : Decoded t) (hw : WfB N t) :
    Except.map norm (walk h segs t) = at_ segs t s := by
  rw [walk_eq]
  unfold at_
  cases hres : resolve segs t with
  | error e => rfl
  | ok ph =>
    obtain ⟨p, hit⟩ := ph
    simp only
    exact editAt_agrees (P := fun u => IsCont u ∧ Fits u hit)
      (fun u hp hdu hwu => ha u hit hp.1 hp.2 hdu hwu) p t (resolve_site segs t p hit hres) hd hw

end Hv.Patch
