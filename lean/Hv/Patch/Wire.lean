/-
  C13 model, part 8 — the wire: `gateway_patch.go` turns the proto enums `PatchOp.Kind` and
  `PatchCondition.Op` into `msgpackpatch.OpKind` / `CondOp` by a type conversion of the NUMBER, so
  what a wire number means is decided by the order of two Go const blocks.  Both RPCs that carry
  patches (`PatchTreasures`, `PatchExpiredTreasures` — the latter through `applyPatchExpiredOne`, a
  second copy of the per-key flow) are modelled on top of `patchFieldsT`.
-/
import Hv.Patch.PatchFields

namespace Hv.Patch

/-- how `protoOpsToMsgpackpatchOps` / `protoCondToMsgpackpatchCond` get from the int32 wire number to
    the uint8 engine enum -/
inductive WireConv where
  | cast          -- `OpKind(op.GetOp())`: the low 8 bits of the number
  | castChecked   -- numbers outside 0‥255 become a value no const has (the engine rejects it)
  | unknown
  deriving DecidableEq, Repr

structure WireCfg where
  /-- the Go const block of `OpKind`, in iota order -/
  opOrder : List OpKind
  /-- the Go const block of `CondOp`, in iota order -/
  condOrder : List CondOp
  /-- `PatchOp.Kind` by number (hydraide.proto as compiled into hydraide.pb.go): the wire contract -/
  protoOps : List OpKind
  /-- `PatchCondition.Op` by number -/
  protoConds : List CondOp
  conv : WireConv
  deriving Repr

/-- index the engine's const block is entered with -/
def WireConv.index (c : WireConv) (n : Int) : Option Nat :=
  match c with
  | .cast => some (n % 256).toNat
  | _ => if 0 ≤ n ∧ n < 256 then some n.toNat else none

/-- what the CODE does with wire number `n` -/
def WireCfg.codeOp (w : WireCfg) (n : Int) : OpKind :=
  match w.conv.index n with
  | some i => (w.opOrder[i]?).getD .unknown
  | none => .unknown

def WireCfg.codeCond (w : WireCfg) (n : Int) : CondOp :=
  match w.conv.index n with
  | some i => (w.condOrder[i]?).getD .unknown
  | none => .unknown

/-- what wire number `n` MEANS (the proto enum; any other number is no operator) -/
def WireCfg.docOp (w : WireCfg) (n : Int) : OpKind :=
  if n < 0 then .unknown else (w.protoOps[n.toNat]?).getD .unknown

def WireCfg.docCond (w : WireCfg) (n : Int) : CondOp :=
  if n < 0 then .unknown else (w.protoConds[n.toNat]?).getD .unknown

structure WireOp where
  kind : Int
  path : Bytes
  value : Bytes
  deriving DecidableEq, Repr

structure WireCond where
  path : Bytes
  op : Int
  threshold : Bytes
  deriving DecidableEq, Repr

def WireCfg.convOp (w : WireCfg) (o : WireOp) : Op := ⟨w.codeOp o.kind, o.path, o.value⟩
def WireCfg.convCond (w : WireCfg) (c : WireCond) : Condition := ⟨c.path, w.codeCond c.op, c.threshold⟩
def WireCfg.meantOp (w : WireCfg) (o : WireOp) : Op := ⟨w.docOp o.kind, o.path, o.value⟩
def WireCfg.meantCond (w : WireCfg) (c : WireCond) : Condition := ⟨c.path, w.docCond c.op, c.threshold⟩

/-- `Gateway.PatchTreasures`, one patch of the batch (status numbers go back by the same kind of cast,
    which is the identity on 0‥9; `NewMsgpack` is not sent) -/
def gwPatchT (pc : PfCfg) (w : WireCfg) (tr : Treasure) (ops : List WireOp) (cond : Option WireCond)
    (create : Bool) (seed : Bytes) (m : Option PatchMeta) : PfResult :=
  patchFieldsT pc tr (ops.map w.convOp) (cond.map w.convCond) create seed m

/-- `Gateway.PatchExpiredTreasures` → `swamp.PatchExpired` → `applyPatchExpiredOne` on one selected
    (hence existing) treasure: the per-key flow of `PatchFields` without the create branch.
    `none`: a treasure that is gone is reported KEY_NOT_FOUND. -/
def gwExpiredT (pc : PfCfg) (w : WireCfg) (tr : Treasure) (ops : List WireOp) (cond : Option WireCond)
    (m : Option PatchMeta) : PfResult :=
  match tr.content with
  | .absent => ⟨2, tr, none⟩
  | _ => patchFieldsT pc tr (ops.map w.convOp) (cond.map w.convCond) false [] m

/-- THE WIRE ENUMS MEAN THE DOCUMENTED OPERATORS: every number, on both enums -/
def WireHolds (w : WireCfg) : Prop :=
  ∀ n : Int, w.codeOp n = w.docOp n ∧ w.codeCond n = w.docCond n

/-- decidable form: the numbers -256 ‥ 511 (everything else repeats them) -/
def WireCfg.agrees (w : WireCfg) : Bool :=
  (List.range 768).all (fun i =>
    let n : Int := (i : Int) - 256
    w.codeOp n == w.docOp n && w.codeCond n == w.docCond n)

def WireCfg.sized (w : WireCfg) : Bool :=
  w.protoOps.length ≤ 256 && w.protoConds.length ≤ 256

theorem WireCfg.not_holds_of_disagree {w : WireCfg} (h : w.agrees = false) : ¬ WireHolds w := by
  intro hh
  have : w.agrees = true := by
    unfold WireCfg.agrees
    rw [List.all_eq_true]
    intro i _
    have := hh ((i : Int) - 256)
    simp [this.1, this.2]
  rw [this] at h; cases h

theorem index_fold (c : WireConv) (hc : c ≠ .unknown) (n : Int) (hn : n < -256 ∨ 512 ≤ n) :
    ∃ k : Int, 256 ≤ k ∧ k < 512 ∧ c.index n = c.index k := by
  cases c with
  | unknown => exact absurd rfl hc
  | cast =>
    refine ⟨n % 256 + 256, by omega, by omega, ?_⟩
    simp only [WireConv.index]
    congr 2
    omega
  | castChecked =>
    refine ⟨256, by omega, by omega, ?_⟩
    simp only [WireConv.index]
    rw [if_neg (by omega), if_neg (by omega)]

theorem WireCfg.holds_of_agrees {w : WireCfg} (hc : w.conv ≠ .unknown) (hs : w.sized = true)
    (h : w.agrees = true) : WireHolds w := by
  unfold WireCfg.agrees at h
  rw [List.all_eq_true] at h
  simp only [WireCfg.sized, Bool.and_eq_true, decide_eq_true_eq] at hs
  have inRange : ∀ n : Int, -256 ≤ n → n < 512 → w.codeOp n = w.docOp n ∧ w.codeCond n = w.docCond n := by
    intro n h1 h2
    have := h (n + 256).toNat (by simp [List.mem_range]; omega)
    have e : (((n + 256).toNat : Nat) : Int) - 256 = n := by omega
    simp only [e, Bool.and_eq_true, beq_iff_eq] at this
    exact this
  intro n
  by_cases hr : -256 ≤ n ∧ n < 512
  · exact inRange n hr.1 hr.2
  · obtain ⟨k, hk1, hk2, hk⟩ := index_fold w.conv hc n (by omega)
    have hkk := inRange k (by omega) hk2
    have dk : w.docOp k = .unknown ∧ w.docCond k = .unknown := by
      unfold WireCfg.docOp WireCfg.docCond
      rw [if_neg (by omega), if_neg (by omega)]
      constructor
      · rw [List.getElem?_eq_none (by omega)]; rfl
      · rw [List.getElem?_eq_none (by omega)]; rfl
    have dn : w.docOp n = .unknown ∧ w.docCond n = .unknown := by
      unfold WireCfg.docOp WireCfg.docCond
      by_cases hneg : n < 0
      · rw [if_pos hneg, if_pos hneg]; exact ⟨rfl, rfl⟩
      · rw [if_neg hneg, if_neg hneg]
        constructor
        · rw [List.getElem?_eq_none (by omega)]; rfl
        · rw [List.getElem?_eq_none (by omega)]; rfl
    constructor
    · rw [dn.1, ← dk.1, ← hkk.1]; unfold WireCfg.codeOp; rw [hk]
    · rw [dn.2, ← dk.2, ← hkk.2]; unfold WireCfg.codeCond; rw [hk]

/-- `wire_cond_agrees`: when the Go const block of `CondOp` is the proto enum's table and the
    conversion keeps numbers outside 0‥255 out, every wire number reaches the engine as the operator
    the proto names for it (and every other number as no operator). -/
theorem wire_cond_agrees {w : WireCfg} (htab : w.condOrder = w.protoConds) (hconv : w.conv = .castChecked)
    (hlen : w.protoConds.length ≤ 256) (n : Int) : w.codeCond n = w.docCond n := by
  unfold WireCfg.codeCond WireCfg.docCond WireConv.index
  rw [hconv, htab]
  simp only
  by_cases h : 0 ≤ n ∧ n < 256
  · rw [if_pos h, if_neg (by omega)]
  · rw [if_neg h]
    by_cases hneg : n < 0
    · rw [if_pos hneg]
    · rw [if_neg hneg, List.getElem?_eq_none (by omega)]; rfl

theorem wire_op_agrees {w : WireCfg} (htab : w.opOrder = w.protoOps) (hconv : w.conv = .castChecked)
    (hlen : w.protoOps.length ≤ 256) (n : Int) : w.codeOp n = w.docOp n := by
  unfold WireCfg.codeOp WireCfg.docOp WireConv.index
  rw [hconv, htab]
  simp only
  by_cases h : 0 ≤ n ∧ n < 256
  · rw [if_pos h, if_neg (by omega)]
  · rw [if_neg h]
    by_cases hneg : n < 0
    · rw [if_pos hneg]
    · rw [if_neg hneg, List.getElem?_eq_none (by omega)]; rfl

/-- the two RPCs do to the treasure what `PatchFields` does with the operators the request MEANS -/
theorem gw_refines {w : WireCfg} (h : WireHolds w) (pc : PfCfg) (tr : Treasure) (ops : List WireOp)
    (cond : Option WireCond) (create : Bool) (seed : Bytes) (m : Option PatchMeta) :
    gwPatchT pc w tr ops cond create seed m =
      patchFieldsT pc tr (ops.map w.meantOp) (cond.map w.meantCond) create seed m ∧
    (tr.content ≠ .absent →
      gwExpiredT pc w tr ops cond m = patchFieldsT pc tr (ops.map w.meantOp) (cond.map w.meantCond) false [] m) := by
  have e1 : w.convOp = w.meantOp := by
    funext o; unfold WireCfg.convOp WireCfg.meantOp; rw [(h o.kind).1]
  have e2 : w.convCond = w.meantCond := by
    funext c; unfold WireCfg.convCond WireCfg.meantCond; rw [(h c.op).2]
  constructor
  · unfold gwPatchT; rw [e1, e2]
  · intro hne
    unfold gwExpiredT
    rw [e1, e2]
    cases hc : tr.content with
    | absent => exact absurd hc hne
    | bytes raw => rfl
    | other => rfl

/-- the proto enums of hydraide.proto -/
def protoOpsDoc : List OpKind := [.set, .delete, .inc, .append, .prepend, .removeAt, .removeVal, .merge]
def protoCondsDoc : List CondOp := [.eq, .ne, .gt, .ge, .lt, .le, .exists_, .notExists]

/-- the unchecked cast: wire number 257 (no operator) is taken for NOT_EQUAL, 256 for SET -/
theorem witness_wire_truncated :
    let w : WireCfg := ⟨protoOpsDoc, protoCondsDoc, protoOpsDoc, protoCondsDoc, .cast⟩
    w.codeCond 257 = .ne ∧ w.docCond 257 = .unknown ∧ w.codeOp 256 = .set ∧ w.docOp 256 = .unknown := by
  decide

/-- audit mutant: NOT_EQUAL and LESS_THAN_OR_EQUAL swapped in the Go const block — wire 1 means `≤` -/
theorem witness_wire_swapped :
    let w : WireCfg := ⟨protoOpsDoc, [.eq, .le, .gt, .ge, .lt, .ne, .exists_, .notExists], protoOpsDoc, protoCondsDoc, .castChecked⟩
    w.codeCond 1 = .le ∧ w.docCond 1 = .ne ∧ ¬ WireHolds w := by
  refine ⟨by decide, by decide, fun h => ?_⟩
  have := (h 1).2
  revert this
  decide

end Hv.Patch
