/-
  C13 model, part 8 — the wire: `gateway_patch.go` turns the proto enums `PatchOp.Kind` and
  `PatchCondition.Op` into `msgpackpatch.OpKind` / `CondOp` by a type conversion of the NUMBER, so
  what a wire number means is decided by the order of two Go const blocks.  Both RPCs that carry
  patches (`PatchTreasures`, `PatchExpiredTreasures` — the latter through `applyPatchExpiredOne`, a
  second copy of the per-key flow) are modelled on top of `patchFieldsT`.
-/
import Hv.Patch.PatchFields

namespace Hv.Patch

/-- how `protoOpsToMsgpackpatchOps` / `protoCondToMsgpackpatchCond` get from the int32 wire number to
    the uint8 engine enum -/
inductive WireConv where
  | cast          -- `OpKind(op.GetOp())`: the low 8 bits of the number
  | castChecked   -- numbers outside 0‥255 become a value no const has (the engine rejects it)
  | unknown
  deriving DecidableEq, Repr

structure WireCfg where
  /-- the Go const block of `OpKind`, in iota order -/
  opOrder : List OpKind
  /-- the Go const block of `CondOp`, in iota order -/
  condOrder : List CondOp
  /-- `PatchOp.Kind` by number (hydraide.proto as compiled into hydraide.pb.go): the wire contract -/
  protoOps : List OpKind
  /-- `PatchCondition.Op` by number -/
  protoConds : List CondOp
  conv : WireConv
  deriving Repr

/-- index the engine's const block is entered with -/
def WireConv.index (c : WireConv) (n : Int) : Option Nat :=
  match c with
  | .cast => some (n % 256).toNat
  | _ => if 0 ≤ n ∧ n < 256 then some n.toNat else none

/-- what the CODE does with wire number `n` -/
def WireCfg.codeOp (w : WireCfg) (n : Int) : OpKind :=
  match w.conv.index n with
  | some i => (w.opOrder[i]?).getD .unknown
  | none => .unknown

def WireCfg.codeCond (w : WireCfg) (n : Int) : CondOp :=
  match w.conv.index n with
  | some i => (w.condOrder[i]?).getD .unknown
  | none => .unknown

/-- what wire number `n` MEANS (the proto enum; any other number is no operator) -/
def WireCfg.docOp (w : WireCfg) (n : Int) : OpKind :=
  if n < 0 then .unknown else (w.protoOps[n.toNat]?).getD .unknown

def WireCfg.docCond (w : WireCfg) (n : Int) : CondOp :=
  if n < 0 then .unknown else (w.protoConds[n.toNat]?).getD .unknown

structure WireOp where
  kind : Int
  path : Bytes
  value : Bytes
  deriving DecidableEq, Repr

structure WireCond where
  path : Bytes
  op : Int
  threshold : Bytes
  deriving DecidableEq, Repr

def WireCfg.convOp (w : WireCfg) (o : WireOp) : Op := ⟨w.codeOp o.kind, o.path, o.value⟩
def WireCfg.convCond (w : WireCfg) (c : WireCond) : Condition := ⟨c.path, w.codeCond c.op, c.threshold⟩
def WireCfg.meantOp (w : WireCfg) (o : WireOp) : Op := ⟨w.docOp o.kind, o.path, o.value⟩
def WireCfg.meantCond (w : WireCfg) (c : WireCond) : Condition := ⟨c.path, w.docCond c.op, c.threshold⟩

/-- `Gateway.PatchTreasures`, one patch of the batch (status numbers go back by the same kind of cast,
    which is the identity on 0‥9; `NewMsgpack` is not sent) -/
def gwPatchT (pc : PfCfg) (w : WireCfg) (tr : Treasure) (ops : List WireOp) (cond : Option WireCond)
    (create : Bool) (seed : Bytes) (m : Option PatchMeta) : PfResult :=
  patchFieldsT pc tr (ops.map w.convOp) (cond.map w.convCond) create seed m

/-- `Gateway.PatchExpiredTreasures` → `swamp.PatchExpired` → `applyPatchExpiredOne` on one selected
    (hence existing) treasure: the per-key flow of `PatchFields` without the create branch.
    `none`: a treasure that is gone is reported KEY_NOT_FOUND. -/
def gwExpiredT (pc : PfCfg) (w : WireCfg) (tr : Treasure) (ops : List WireOp) (cond : Option WireCond)
    (m : Option PatchMeta) : PfResult :=
  match tr.content with
  | .absent => ⟨2, tr, none⟩
  | _ => patchFieldsT pc tr (ops.map w.convOp) (cond.map w.convCond) false [] m

/-- THE WIRE ENUMS MEAN THE DOCUMENTED OPERATORS: every number, on both enums -/
def WireHolds (w : WireCfg) : Prop :=
  ∀ n : Int, w.codeOp n = w.docOp n ∧ w.codeCond n = w.docCond n

/-- the extracted tables are usable: every const / enum name was recognised (the extractor writes
    `.unknown` for a name it does not know), nothing is empty or longer than a uint8 can index -/
def WireCfg.clean (w : WireCfg) : Bool :=
  !decide (OpKind.unknown ∈ w.opOrder) && !decide (OpKind.unknown ∈ w.protoOps) &&
  !decide (CondOp.unknown ∈ w.condOrder) && !decide (CondOp.unknown ∈ w.protoConds) &&
  decide (w.opOrder.length ≤ 256) && decide (w.protoOps.length ≤ 256) &&
  decide (w.condOrder.length ≤ 256) && decide (w.protoConds.length ≤ 256) &&
  !w.opOrder.isEmpty && !w.condOrder.isEmpty

/-- decidable form of `WireHolds` on clean tables: TABLE EQUALITY and a range-checked conversion -/
def WireCfg.agrees (w : WireCfg) : Bool :=
  w.opOrder == w.protoOps && w.condOrder == w.protoConds && w.conv == .castChecked

/-- `wire_cond_agrees`: when the Go const block of `CondOp` is the proto enum's table and the
    conversion keeps numbers outside 0‥255 out, every wire number reaches the engine as the operator
    the proto names for it (and every other number as no operator). -/
theorem wire_cond_agrees {w : WireCfg} (htab : w.condOrder = w.protoConds) (hconv : w.conv = .castChecked)
    (hlen : w.protoConds.length ≤ 256) (n : Int) : w.codeCond n = w.docCond n := by
  unfold WireCfg.codeCond WireCfg.docCond WireConv.index
  rw [hconv, htab]
  simp only
  by_cases h : 0 ≤ n ∧ n < 256
  · rw [if_pos h, if_neg (by omega)]
  · rw [if_neg h]
    by_cases hneg : n < 0
    · rw [if_pos hneg]
    · rw [if_neg hneg, List.getElem?_eq_none (by omega)]; rfl

theorem wire_op_agrees {w : WireCfg} (htab : w.opOrder = w.protoOps) (hconv : w.conv = .castChecked)
    (hlen : w.protoOps.length ≤ 256) (n : Int) : w.codeOp n = w.docOp n := by
  unfold WireCfg.codeOp WireCfg.docOp WireConv.index
  rw [hconv, htab]
  simp only
  by_cases h : 0 ≤ n ∧ n < 256
  · rw [if_pos h, if_neg (by omega)]
  · rw [if_neg h]
    by_cases hneg : n < 0
    · rw [if_pos hneg]
    · rw [if_neg hneg, List.getElem?_eq_none (by omega)]; rfl

theorem WireCfg.holds_of_agrees {w : WireCfg} (hcl : w.clean = true) (h : w.agrees = true) : WireHolds w := by
  simp only [WireCfg.agrees, Bool.and_eq_true, beq_iff_eq] at h
  simp only [WireCfg.clean, Bool.and_eq_true, decide_eq_true_eq] at hcl
  intro n
  exact ⟨wire_op_agrees h.1.1 h.2 (by omega) n, wire_cond_agrees h.1.2 h.2 (by omega) n⟩

/-- two lists without the default element that differ, differ at an index (read with the default) -/
theorem lists_differ {α : Type} (u : α) : ∀ (l1 l2 : List α), l1 ≠ l2 → u ∉ l1 → u ∉ l2 →
    ∃ i, i < max l1.length l2.length ∧ (l1[i]?).getD u ≠ (l2[i]?).getD u
  | [], [], h, _, _ => absurd rfl h
  | [], b :: l2, _, _, h2 => ⟨0, by simp, by
      simp only [List.getElem?_nil, Option.getD_none, List.getElem?_cons_zero, Option.getD_some]
      intro e; exact h2 (by rw [e]; exact List.mem_cons_self)⟩
  | a :: l1, [], _, h1, _ => ⟨0, by simp, by
      simp only [List.getElem?_nil, Option.getD_none, List.getElem?_cons_zero, Option.getD_some]
      intro e; exact h1 (by rw [← e]; exact List.mem_cons_self)⟩
  | a :: l1, b :: l2, h, h1, h2 => by
    by_cases hab : a = b
    · subst hab
      have hne : l1 ≠ l2 := fun e => h (by rw [e])
      obtain ⟨i, hi, hd⟩ := lists_differ u l1 l2 hne (fun m => h1 (List.mem_cons_of_mem _ m))
        (fun m => h2 (List.mem_cons_of_mem _ m))
      refine ⟨i + 1, by simp only [List.length_cons]; omega, ?_⟩
      simpa using hd
    · exact ⟨0, by simp, by simpa using hab⟩

theorem WireCfg.not_holds_of_disagree {w : WireCfg} (hc : w.conv ≠ .unknown) (hcl : w.clean = true)
    (h : w.agrees = false) : ¬ WireHolds w := by
  intro hh
  simp only [WireCfg.clean, Bool.and_eq_true, decide_eq_true_eq, Bool.not_eq_true', decide_eq_false_iff_not] at hcl
  obtain ⟨⟨⟨⟨⟨⟨⟨⟨⟨u1, u2⟩, u3⟩, u4⟩, l1⟩, l2⟩, l3⟩, l4⟩, e1⟩, _⟩ := hcl
  cases hcv : w.conv with
  | unknown => exact hc hcv
  | cast =>
    -- number 256 is no operator, the cast reads the first const
    have hcode : w.codeOp 256 = (w.opOrder[0]?).getD .unknown := by
      unfold WireCfg.codeOp; rw [hcv]; rfl
    have hdoc : w.docOp 256 = .unknown := by
      unfold WireCfg.docOp
      rw [if_neg (by omega)]
      have : (256 : Int).toNat = 256 := by decide
      rw [this, List.getElem?_eq_none (by omega)]; rfl
    have h256 := (hh 256).1
    rw [hcode, hdoc] at h256
    cases hl : w.opOrder with
    | nil => rw [hl] at e1; simp at e1
    | cons a r =>
      rw [hl] at h256
      simp only [List.getElem?_cons_zero, Option.getD_some] at h256
      exact u1 (by rw [hl, h256]; exact List.mem_cons_self)
  | castChecked =>
    have hne : w.opOrder ≠ w.protoOps ∨ w.condOrder ≠ w.protoConds := by
      by_cases ho : w.opOrder = w.protoOps
      · by_cases hcd : w.condOrder = w.protoConds
        · simp [WireCfg.agrees, ho, hcd, hcv] at h
        · exact Or.inr hcd
      · exact Or.inl ho
    rcases hne with ho | hcd
    · obtain ⟨i, hi, hd⟩ := lists_differ OpKind.unknown _ _ ho u1 u2
      have := (hh (i : Int)).1
      unfold WireCfg.codeOp WireCfg.docOp WireConv.index at this
      rw [hcv] at this
      simp only at this
      rw [if_pos (by omega), if_neg (by omega)] at this
      simp only [Int.toNat_natCast] at this
      exact hd this
    · obtain ⟨i, hi, hd⟩ := lists_differ CondOp.unknown _ _ hcd u3 u4
      have := (hh (i : Int)).2
      unfold WireCfg.codeCond WireCfg.docCond WireConv.index at this
      rw [hcv] at this
      simp only at this
      rw [if_pos (by omega), if_neg (by omega)] at this
      simp only [Int.toNat_natCast] at this
      exact hd this

/-- the two RPCs do to the treasure what `PatchFields` does with the operators the request MEANS -/
theorem gw_refines {w : WireCfg} (h : WireHolds w) (pc : PfCfg) (tr : Treasure) (ops : List WireOp)
    (cond : Option WireCond) (create : Bool) (seed : Bytes) (m : Option PatchMeta) :
    gwPatchT pc w tr ops cond create seed m =
      patchFieldsT pc tr (ops.map w.meantOp) (cond.map w.meantCond) create seed m ∧
    (tr.content ≠ .absent →
      gwExpiredT pc w tr ops cond m = patchFieldsT pc tr (ops.map w.meantOp) (cond.map w.meantCond) false [] m) := by
  have e1 : w.convOp = w.meantOp := by
    funext o; unfold WireCfg.convOp WireCfg.meantOp; rw [(h o.kind).1]
  have e2 : w.convCond = w.meantCond := by
    funext c; unfold WireCfg.convCond WireCfg.meantCond; rw [(h c.op).2]
  constructor
  · unfold gwPatchT; rw [e1, e2]
  · intro hne
    unfold gwExpiredT
    rw [e1, e2]
    cases hc : tr.content with
    | absent => exact absurd hc hne
    | bytes raw => rfl
    | other => rfl

/-- the proto enums of hydraide.proto -/
def protoOpsDoc : List OpKind := [.set, .delete, .inc, .append, .prepend, .removeAt, .removeVal, .merge]
def protoCondsDoc : List CondOp := [.eq, .ne, .gt, .ge, .lt, .le, .exists_, .notExists]

/-- the unchecked cast: wire number 257 (no operator) is taken for NOT_EQUAL, 256 for SET -/
theorem witness_wire_truncated :
    let w : WireCfg := ⟨protoOpsDoc, protoCondsDoc, protoOpsDoc, protoCondsDoc, .cast⟩
    w.codeCond 257 = .ne ∧ w.docCond 257 = .unknown ∧ w.codeOp 256 = .set ∧ w.docOp 256 = .unknown := by
  decide

/-- audit mutant: NOT_EQUAL and LESS_THAN_OR_EQUAL swapped in the Go const block — wire 1 means `≤` -/
theorem witness_wire_swapped :
    let w : WireCfg := ⟨protoOpsDoc, [.eq, .le, .gt, .ge, .lt, .ne, .exists_, .notExists], protoOpsDoc, protoCondsDoc, .castChecked⟩
    w.codeCond 1 = .le ∧ w.docCond 1 = .ne ∧ ¬ WireHolds w := by
  refine ⟨by decide, by decide, fun h => ?_⟩
  have := (h 1).2
  revert this
  decide

end Hv.Patch
