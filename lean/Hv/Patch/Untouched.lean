/-
  Lemmas about the op layer, part C: what an op does NOT touch.

  Positions are lists of child indices.  `sitePos segs t` is where the path leads: the
  container whose child list the op's handler rewrites (the parent of the final segment, or
  the deepest existing map when a field is missing).  Everything off that position is the
  identical sub-tree afterwards (`walk_off`); inside the site the handler lemmas say which
  children stay (`*_siblings`, `*_keeps`).
-/
import Hv.Patch.Ops

namespace Hv.Patch

/-- sub-tree at a position -/
def getAt : Node → List Nat → Option Node
  | t, [] => some t
  | t, i :: q =>
    match getChild t i with
    | some c => getAt c q
    | none => none

/-- two positions that part ways: neither is an ancestor of the other -/
inductive Diverge : List Nat → List Nat → Prop
  | here {i j : Nat} (p q : List Nat) : i ≠ j → Diverge (i :: p) (j :: q)
  | there (i : Nat) {p q : List Nat} : Diverge p q → Diverge (i :: p) (i :: q)

/-- position of the container the op's handler runs on -/
def sitePos : List Seg → Node → List Nat
  | [], _ => []
  | seg :: rest, t =>
    match seg with
    | .field k =>
      match t with
      | .map fs =>
        match findField fs k with
        | none => []
        | some i =>
          if rest.isEmpty then [] else
          match fs[i]? with
          | none => []
          | some (_, c) => i :: sitePos rest c
      | _ => []
    | .index n =>
      match t with
      | .arr xs =>
        match resolveIndex n xs.length with
        | .error _ => []
        | .ok i =>
          if rest.isEmpty then [] else
          match xs[i]? with
          | none => []
          | some c => i :: sitePos rest c
      | _ => []
    | .append => []

theorem not_diverge_nil (q : List Nat) : ¬ Diverge [] q := by
  intro h; cases h

theorem getChild_map_set (fs : Fields) (i j : Nat) (k : Bytes) (c : Node) (hij : i ≠ j) :
    getChild (.map (fs.set i (k, c))) j = getChild (.map fs) j := by
  simp only [getChild]
  rw [List.getElem?_set_ne hij]

theorem getChild_arr_set (xs : List Node) (i j : Nat) (c : Node) (hij : i ≠ j) :
    getChild (.arr (xs.set i c)) j = getChild (.arr xs) j := by
  simp only [getChild]
  rw [List.getElem?_set_ne hij]

/-- Everything off the site position is untouched by the walk, whatever the handler does. -/
theorem walk_off (h : Node → Hit → Except Err Node) :
    ∀ (segs : List Seg) (t t' : Node), walk h segs t = .ok t' →
      ∀ q, Diverge (sitePos segs t) q → getAt t' q = getAt t q
  | [], t, t', hw, q, hd => by rw [sitePos] at hd; exact absurd hd (not_diverge_nil q)
  | seg :: rest, t, t', hw, q, hd => by
    cases seg with
    | field k =>
      cases t with
      | leaf raw => simp [walk] at hw
      | arr xs => simp [walk] at hw
      | map fs =>
        rw [walk] at hw
        rw [sitePos] at hd
        cases hf : findField fs k with
        | none => rw [hf] at hd; exact absurd hd (not_diverge_nil q)
        | some i =>
          rw [hf] at hw hd; simp only at hw hd
          by_cases hr : rest.isEmpty = true
          · rw [if_pos hr] at hd; exact absurd hd (not_diverge_nil q)
          · rw [if_neg hr] at hw hd
            cases hg : fs[i]? with
            | none => rw [hg] at hw; cases hw
            | some kc =>
              obtain ⟨k', c⟩ := kc
              rw [hg] at hw hd; simp only at hw hd
              cases hwc : walk h rest c with
              | error e => rw [hwc] at hw; cases hw
              | ok c' =>
                rw [hwc] at hw; simp only at hw
                injection hw with hw; subst hw
                cases hd with
                | here p q' hne =>
                  rw [getAt, getAt, getChild_map_set fs i _ k' c' hne]
                | there _ hd' =>
                  rename_i q'
                  have ih := walk_off h rest c c' hwc q' hd'
                  have hi : i < fs.length := by
                    rcases Nat.lt_or_ge i fs.length with hlt | hge
                    · exact hlt
                    · rw [List.getElem?_eq_none hge] at hg; cases hg
                  have h1 : getChild (.map (fs.set i (k', c'))) i = some c' := by
                    simp [getChild, hi]
                  have h2 : getChild (.map fs) i = some c := by
                    simp [getChild, hg]
                  rw [getAt, getAt, h1, h2]; exact ih
    | index n =>
      cases t with
      | leaf raw => simp [walk] at hw
      | map fs => simp [walk] at hw
      | arr xs =>
        rw [walk] at hw
        rw [sitePos] at hd
        cases hri : resolveIndex n xs.length with
        | error e => rw [hri] at hw; cases hw
        | ok i =>
          rw [hri] at hw hd; simp only at hw hd
          by_cases hr : rest.isEmpty = true
          · rw [if_pos hr] at hd; exact absurd hd (not_diverge_nil q)
          · rw [if_neg hr] at hw hd
            cases hg : xs[i]? with
            | none => rw [hg] at hw; cases hw
            | some c =>
              rw [hg] at hw hd; simp only at hw hd
              cases hwc : walk h rest c with
              | error e => rw [hwc] at hw; cases hw
              | ok c' =>
                rw [hwc] at hw; simp only at hw
                injection hw with hw; subst hw
                cases hd with
                | here p q' hne =>
                  rw [getAt, getAt, getChild_arr_set xs i _ c' hne]
                | there _ hd' =>
                  rename_i q'
                  have ih := walk_off h rest c c' hwc q' hd'
                  have hi : i < xs.length := by
                    rcases Nat.lt_or_ge i xs.length with hlt | hge
                    · exact hlt
                    · rw [List.getElem?_eq_none hge] at hg; cases hg
                  have h1 : getChild (.arr (xs.set i c')) i = some c' := by
                    simp [getChild, hi]
                  have h2 : getChild (.arr xs) i = some c := by
                    simp [getChild, hg]
                  rw [getAt, getAt, h1, h2]; exact ih
    | append => rw [sitePos] at hd; exact absurd hd (not_diverge_nil q)

/-- The walk hands exactly the sub-tree at the site position to the handler and puts the
    handler's result back there. -/
theorem walk_site (h : Node → Hit → Except Err Node) :
    ∀ (segs : List Seg) (t t' : Node), walk h segs t = .ok t' →
      ∃ u hit u', getAt t (sitePos segs t) = some u ∧ h u hit = .ok u' ∧
        getAt t' (sitePos segs t) = some u'
  | [], t, t', hw => by rw [walk] at hw; cases hw
  | seg :: rest, t, t', hw => by
    cases seg with
    | field k =>
      cases t with
      | leaf raw => simp [walk] at hw
      | arr xs => simp [walk] at hw
      | map fs =>
        rw [walk] at hw
        rw [sitePos]
        cases hf : findField fs k with
        | none =>
          rw [hf] at hw; simp only at hw ⊢
          exact ⟨_, _, t', rfl, hw, rfl⟩
        | some i =>
          rw [hf] at hw; simp only at hw ⊢
          by_cases hr : rest.isEmpty = true
          · rw [if_pos hr] at hw ⊢
            exact ⟨_, _, t', rfl, hw, rfl⟩
          · rw [if_neg hr] at hw ⊢
            cases hg : fs[i]? with
            | none => rw [hg] at hw; cases hw
            | some kc =>
              obtain ⟨k', c⟩ := kc
              rw [hg] at hw; simp only at hw ⊢
              cases hwc : walk h rest c with
              | error e => rw [hwc] at hw; cases hw
              | ok c' =>
                rw [hwc] at hw; simp only at hw
                injection hw with hw; subst hw
                obtain ⟨u, hit, u', h1, h2, h3⟩ := walk_site h rest c c' hwc
                have hi : i < fs.length := by
                  rcases Nat.lt_or_ge i fs.length with hlt | hge
                  · exact hlt
                  · rw [List.getElem?_eq_none hge] at hg; cases hg
                refine ⟨u, hit, u', ?_, h2, ?_⟩
                · rw [getAt]; simp [getChild, hg]; exact h1
                · rw [getAt]; simp [getChild, hi]; exact h3
    | index n =>
      cases t with
      | leaf raw => simp [walk] at hw
      | map fs => simp [walk] at hw
      | arr xs =>
        rw [walk] at hw
        rw [sitePos]
        cases hri : resolveIndex n xs.length with
        | error e => rw [hri] at hw; cases hw
        | ok i =>
          rw [hri] at hw; simp only at hw ⊢
          by_cases hr : rest.isEmpty = true
          · rw [if_pos hr] at hw ⊢
            exact ⟨_, _, t', rfl, hw, rfl⟩
          · rw [if_neg hr] at hw ⊢
            cases hg : xs[i]? with
            | none => rw [hg] at hw; cases hw
            | some c =>
              rw [hg] at hw; simp only at hw ⊢
              cases hwc : walk h rest c with
              | error e => rw [hwc] at hw; cases hw
              | ok c' =>
                rw [hwc] at hw; simp only at hw
                injection hw with hw; subst hw
                obtain ⟨u, hit, u', h1, h2, h3⟩ := walk_site h rest c c' hwc
                have hi : i < xs.length := by
                  rcases Nat.lt_or_ge i xs.length with hlt | hge
                  · exact hlt
                  · rw [List.getElem?_eq_none hge] at hg; cases hg
                refine ⟨u, hit, u', ?_, h2, ?_⟩
                · rw [getAt]; simp [getChild, hg]; exact h1
                · rw [getAt]; simp [getChild, hi]; exact h3
    | append =>
      cases t with
      | leaf raw => simp [walk] at hw; split at hw <;> cases hw
      | map fs => simp [walk] at hw; split at hw <;> cases hw
      | arr xs =>
        rw [walk] at hw
        rw [sitePos]
        by_cases hr : (!rest.isEmpty) = true
        · rw [if_pos hr] at hw; cases hw
        · rw [if_neg hr] at hw
          exact ⟨_, _, t', rfl, hw, rfl⟩

/-! ### inside the site: which children stay -/

theorem getChild_setChild_ne (p c : Node) {i j : Nat} (hij : i ≠ j) :
    getChild (setChild p i c) j = getChild p j := by
  cases p with
  | leaf raw => rfl
  | map fs =>
    simp only [setChild]
    split
    · rename_i k v _; exact getChild_map_set fs i j k c hij
    · rfl
  | arr xs => simp only [setChild]; exact getChild_arr_set xs i j c hij

theorem getChild_eraseChild_lt (p : Node) {i j : Nat} (hji : j < i) :
    getChild (eraseChild p i) j = getChild p j := by
  cases p with
  | leaf raw => rfl
  | map fs => simp only [eraseChild, getChild]; rw [List.getElem?_eraseIdx_of_lt hji]
  | arr xs => simp only [eraseChild, getChild]; rw [List.getElem?_eraseIdx_of_lt hji]

theorem getChild_eraseChild_ge (p : Node) {i j : Nat} (hij : i ≤ j) :
    getChild (eraseChild p i) j = getChild p (j + 1) := by
  cases p with
  | leaf raw => rfl
  | map fs => simp only [eraseChild, getChild]; rw [List.getElem?_eraseIdx_of_ge hij]
  | arr xs => simp only [eraseChild, getChild]; rw [List.getElem?_eraseIdx_of_ge hij]

/-- SET / INC on an existing target: every sibling keeps its sub-tree and position -/
theorem hSet_siblings {v : Bytes} {u u' : Node} {i : Nat} (h : hSet v u (.target i) = .ok u') :
    ∀ j, i ≠ j → getChild u' j = getChild u j := by
  rw [hSet] at h; injection h with h; subst h
  intro j hij; exact getChild_setChild_ne u _ hij

theorem hInc_siblings {v : Bytes} {dcls : NumClass} {d : Nat} {u u' : Node} {i : Nat}
    (h : hInc v dcls d u (.target i) = .ok u') : ∀ j, i ≠ j → getChild u' j = getChild u j := by
  rw [hInc] at h
  split at h
  · split at h
    · cases h
    · split at h
      · cases h
      · split at h
        · cases h
        · injection h with h; subst h
          intro j hij; exact getChild_setChild_ne u _ hij
  · cases h

/-- a field appended to a map: every existing child keeps its sub-tree and position -/
theorem addField_keeps (u : Node) (kv : Bytes × Node) {j : Nat} {c : Node}
    (h : getChild u j = some c) : getChild (addField u kv) j = some c := by
  cases u with
  | leaf raw => simpa [addField] using h
  | arr xs => simpa [addField] using h
  | map fs =>
    simp only [addField, getChild, Option.map_eq_some_iff] at h ⊢
    obtain ⟨a, ha, hc⟩ := h
    have hj : j < fs.length := by
      rcases Nat.lt_or_ge j fs.length with hlt | hge
      · exact hlt
      · rw [List.getElem?_eq_none hge] at ha; cases ha
    exact ⟨a, by rw [List.getElem?_append_left hj]; exact ha, hc⟩

/-- auto-create (SET / INC / APPEND / MERGE on a missing path): existing children stay -/
theorem autoCreate_keeps {u u' inner : Node} {rem : List Seg} (h : autoCreate u rem inner = .ok u')
    {j : Nat} {c : Node} (hc : getChild u j = some c) : getChild u' j = some c := by
  unfold autoCreate at h
  split at h
  · injection h with h; subst h; exact addField_keeps u _ hc
  · cases h

/-- DELETE / REMOVE_AT: children before the target keep their position, children after it move
    up by one; all keep their sub-tree -/
theorem hDelete_siblings {u u' : Node} {i : Nat} (h : hDelete u (.target i) = .ok u') :
    (∀ j, j < i → getChild u' j = getChild u j) ∧ (∀ j, i ≤ j → getChild u' j = getChild u (j + 1)) := by
  rw [hDelete] at h; injection h with h; subst h
  exact ⟨fun j hj => getChild_eraseChild_lt u hj, fun j hj => getChild_eraseChild_ge u hj⟩

theorem hRemoveAt_siblings {u u' : Node} {i : Nat} (h : hRemoveAt u (.target i) = .ok u') :
    (∀ j, j < i → getChild u' j = getChild u j) ∧ (∀ j, i ≤ j → getChild u' j = getChild u (j + 1)) := by
  rw [hRemoveAt] at h; injection h with h; subst h
  exact ⟨fun j hj => getChild_eraseChild_lt u hj, fun j hj => getChild_eraseChild_ge u hj⟩

/-- APPEND keeps every element in place; PREPEND shifts every element by one -/
theorem hAppend_keeps {v : Bytes} {pre : Bool} {xs : List Node} {u' : Node}
    (h : hAppend v pre (.arr xs) .appendSlot = .ok u')
    {j : Nat} {c : Node} (hc : xs[j]? = some c) :
    getChild u' (if pre then j + 1 else j) = some c := by
  rw [hAppend] at h; injection h with h; subst h
  simp only [insertItem]
  cases pre with
  | true => simpa [getChild] using hc
  | false =>
    simp only [getChild]
    have hj : j < xs.length := by
      rcases Nat.lt_or_ge j xs.length with hlt | hge
      · exact hlt
      · rw [List.getElem?_eq_none hge] at hc; cases hc
    simp [List.getElem?_append_left hj, hc]

/-- REMOVE_VAL: the array loses at most one element, the others keep their order -/
theorem removeFirst_sublist (v : Bytes) : ∀ (xs : List Node), (removeFirst v xs).Sublist xs
  | [] => by simp [removeFirst]
  | x :: rest => by
    have ih := removeFirst_sublist v rest
    cases x with
    | leaf raw =>
      simp only [removeFirst]
      split
      · exact List.sublist_cons_self _ _
      · exact ih.cons_cons _
    | map fs => simp only [removeFirst]; exact ih.cons_cons _
    | arr ys => simp only [removeFirst]; exact ih.cons_cons _

theorem removeFirstC_sublist (w : Bytes) : ∀ (xs : List Node), (removeFirstC w xs).Sublist xs
  | [] => by simp [removeFirstC]
  | x :: rest => by
    rw [removeFirstC]; split
    · exact List.sublist_cons_self _ _
    · exact (removeFirstC_sublist w rest).cons_cons _

theorem rmVal_sublist (c : Bool) (v : Bytes) (xs : List Node) : (rmVal c v xs).Sublist xs := by
  unfold rmVal; split
  · exact removeFirstC_sublist _ xs
  · exact removeFirst_sublist v xs

theorem hRemoveVal_siblings {rm : List Node → List Node} {u u' : Node} {i : Nat}
    (h : hRemoveVal rm u (.target i) = .ok u') :
    (∀ j, i ≠ j → getChild u' j = getChild u j) ∧
    ∃ xs, getChild u i = some (.arr xs) ∧ (getChild u' i = some (.arr (rm xs)) ∨ getChild u' i = none) := by
  rw [hRemoveVal] at h
  split at h
  · rename_i xs hg
    injection h with h; subst h
    refine ⟨fun j hij => getChild_setChild_ne u _ hij, xs, hg, ?_⟩
    cases u with
    | leaf raw => simp [getChild] at hg
    | map fs =>
      simp only [getChild, Option.map_eq_some_iff] at hg
      obtain ⟨⟨k, c⟩, ha, hc⟩ := hg
      have hi : i < fs.length := by
        rcases Nat.lt_or_ge i fs.length with hlt | hge
        · exact hlt
        · rw [List.getElem?_eq_none hge] at ha; cases ha
      left
      simp [setChild, ha, getChild, hi]
    | arr ys =>
      simp only [getChild] at hg
      have hi : i < ys.length := by
        rcases Nat.lt_or_ge i ys.length with hlt | hge
        · exact hlt
        · rw [List.getElem?_eq_none hge] at hg; cases hg
      left
      simp [setChild, getChild, hi]
  · cases h

/-- MERGE: a field whose key the patch does not mention keeps value and position -/
theorem mergeInto_keeps : ∀ (pf : List (Bytes × Bytes)) (fs : Fields) (j : Nat) (k : Bytes) (c : Node),
    fs[j]? = some (k, c) → (∀ kv ∈ pf, kv.1 ≠ k) → (mergeInto fs pf)[j]? = some (k, c)
  | [], fs, j, k, c, h, _ => by rw [mergeInto]; exact h
  | (k0, raw) :: rest, fs, j, k, c, h, hne => by
    rw [mergeInto]
    have hk0 : k0 ≠ k := hne (k0, raw) (by simp)
    have hrest : ∀ kv ∈ rest, kv.1 ≠ k := fun kv hkv => hne kv (List.mem_cons_of_mem _ hkv)
    split
    · rename_i i hfind
      apply mergeInto_keeps rest _ j k c _ hrest
      by_cases hij : i = j
      · -- the first match of k0 cannot be the field named k
        subst hij
        exfalso
        have : ∀ (gs : Fields) (i : Nat), findField gs k0 = some i → ∀ kk cc, gs[i]? = some (kk, cc) → kk = k0 := by
          intro gs
          induction gs with
          | nil => intro i hf; simp [findField] at hf
          | cons g gs ih =>
            intro i hf kk cc hg
            obtain ⟨gk, gv⟩ := g
            rw [findField] at hf
            split at hf
            · rename_i heq
              injection hf with hf; subst hf
              simp at hg; rw [← hg.1]; exact heq
            · cases hfi : findField gs k0 with
              | none => rw [hfi] at hf; simp at hf
              | some i' =>
                rw [hfi] at hf; simp at hf; subst hf
                simp at hg
                exact ih i' hfi kk cc hg
        exact hk0 (this fs i hfind k c h).symm
      · rw [List.getElem?_set_ne hij]; exact h
    · apply mergeInto_keeps rest _ j k c _ hrest
      have hj : j < fs.length := by
        rcases Nat.lt_or_ge j fs.length with hlt | hge
        · exact hlt
        · rw [List.getElem?_eq_none hge] at h; cases h
      rw [List.getElem?_append_left hj]; exact h

theorem hMerge_siblings {pf : List (Bytes × Bytes)} {u u' : Node} {i : Nat}
    (h : hMerge pf u (.target i) = .ok u') : ∀ j, i ≠ j → getChild u' j = getChild u j := by
  rw [hMerge] at h
  split at h
  · injection h with h; subst h
    intro j hij; exact getChild_setChild_ne u _ hij
  · cases h

end Hv.Patch
