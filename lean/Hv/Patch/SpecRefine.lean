/-
  `apply_refines_spec`: the op loop of the byte-splicing model computes what the SPEC computes
  on the decoded document.
-/
import Hv.Patch.SpecLemmas
import Hv.Patch.LeafBytes

namespace Hv.Patch
open Spec

/-! ### MERGE: the fields `extractTopLevelFields` cuts out are the fields of the decoded value -/

theorem skipMany_suffix : ∀ (f n : Nat) (b r : Bytes), skipMany f n b = .ok r → ∃ pre, b = pre ++ r
  | f, 0, b, r, h => by
    cases f <;> (rw [skipMany] at h; injection h with h; subst h; exact ⟨[], rfl⟩)
  | 0, n + 1, b, r, h => by rw [skipMany] at h; cases h
  | f + 1, n + 1, [], r, h => by rw [skipMany] at h; cases h
  | f + 1, n + 1, c :: r0, r, h => by
    rw [skipMany] at h
    cases hs : shape c <;> rw [hs] at h <;> simp only at h
    case fixed k =>
      split at h
      · cases h
      · rename_i p r' hsp
        obtain ⟨hb, _⟩ := splitN_ok hsp
        obtain ⟨pre, hp⟩ := skipMany_suffix f n r' r h
        exact ⟨c :: p ++ pre, by rw [hb, hp]; simp⟩
    case lenp k e =>
      split at h
      · cases h
      · rename_i m r' hr
        split at h
        · cases h
        · rename_i p r'' hsp
          obtain ⟨hd, hb, _, _⟩ := readBE_ok hr
          obtain ⟨hb2, _⟩ := splitN_ok hsp
          obtain ⟨pre, hp⟩ := skipMany_suffix f n r'' r h
          exact ⟨c :: hd ++ p ++ pre, by rw [hb, hb2, hp]; simp⟩
    case mapFix k =>
      obtain ⟨pre, hp⟩ := skipMany_suffix f _ r0 r h
      exact ⟨c :: pre, by rw [hp]; simp⟩
    case arrFix k =>
      obtain ⟨pre, hp⟩ := skipMany_suffix f _ r0 r h
      exact ⟨c :: pre, by rw [hp]; simp⟩
    case mapLen k =>
      split at h
      · cases h
      · rename_i m r' hr
        obtain ⟨hd, hb, _, _⟩ := readBE_ok hr
        obtain ⟨pre, hp⟩ := skipMany_suffix f _ r' r h
        exact ⟨c :: hd ++ pre, by rw [hb, hp]; simp⟩
    case arrLen k =>
      split at h
      · cases h
      · rename_i m r' hr
        obtain ⟨hd, hb, _, _⟩ := readBE_ok hr
        obtain ⟨pre, hp⟩ := skipMany_suffix f _ r' r h
        exact ⟨c :: hd ++ pre, by rw [hb, hp]; simp⟩
    case invalid => cases h

theorem extract_parse : ∀ (f n : Nat) (b : Bytes) (pf : List (Bytes × Bytes)),
    extractFields true f n b = .ok pf → ∀ g, 2 * b.length ≤ g →
    parseFieldsG false g n b = .ok (pfNorm pf, [])
  | f, 0, b, pf, h, g, _ => by
    have hb : b = [] ∧ pf = [] := by
      cases f <;>
      · rw [extractFields] at h
        split at h
        · cases h
        · rename_i hne
          injection h with h
          cases b with
          | nil => exact ⟨rfl, h.symm⟩
          | cons x xs => simp at hne
    rw [hb.1, hb.2, pfNorm]; exact parseFieldsG_zero _ _ _
  | 0, n + 1, b, pf, h, g, _ => by rw [extractFields] at h; cases h
  | f + 1, n + 1, [], pf, h, g, _ => by rw [extractFields] at h; cases h
  | f + 1, n + 1, c :: r, pf, h, g, hg => by
    rw [extractFields] at h
    by_cases hsc : isStringCode c = true
    · rw [if_neg (by simp [hsc])] at h
      cases hk : strPayload c r with
      | error e => rw [hk] at h; cases h
      | ok kr =>
        obtain ⟨k, r1⟩ := kr
        rw [hk] at h; simp only at h
        cases hsk : skipOne r1 with
        | error e => rw [hsk] at h; cases h
        | ok r2 =>
          rw [hsk] at h; simp only [if_true] at h
          cases hp : parse (List.take (r1.length - r2.length) r1) with
          | error e => rw [hp] at h; cases h
          | ok d =>
            rw [hp] at h; simp only at h
            cases hrest : extractFields true f n r2 with
            | error e => rw [hrest] at h; cases h
            | ok rest =>
              rw [hrest] at h; simp only at h
              injection h with h; subst h
              -- r1 = raw ++ r2
              obtain ⟨pre, hpre⟩ := skipMany_suffix _ _ _ _ hsk
              have hraw : List.take (r1.length - r2.length) r1 = pre := by
                rw [hpre]; simp
              rw [hraw] at hp
              obtain ⟨hd, hr⟩ := strPayload_ok hk
              have hpos := parse_nonempty hp
              have hlen : r.length = hd.length + (pre.length + r2.length) := by rw [hr, hpre]; simp
              simp only [List.length_cons] at hg
              obtain ⟨g', rfl⟩ : ∃ g', g = g' + 1 := ⟨g - 1, by omega⟩
              have hv : parseNodeG false g' r1 = .ok (d, r2) := by
                have := parseNodeG_frame (parse_eq hp) (g := g') (by omega) r2
                rw [hpre]; simpa using this
              have ht := extract_parse f n r2 rest hrest g' (by omega)
              rw [pfNorm, hraw, normLeaf_of_parse hp]
              exact parseFieldsG_cons hsc hk (by simp) hv ht
    · rw [if_pos (by simp [hsc])] at h; cases h

theorem extractTop_parse {v : Bytes} {pf : List (Bytes × Bytes)} (h : extractTop true v = .ok pf) :
    parse v = .ok (.map (pfNorm pf)) := by
  unfold extractTop at h
  cases v with
  | nil => cases h
  | cons c r =>
    simp only at h
    by_cases hm : isMapCode c = true
    · rw [if_neg (by simp [hm])] at h
      cases hc : countOf c r with
      | error e => rw [hc] at h; cases h
      | ok nr =>
        obtain ⟨n, r'⟩ := nr
        rw [hc] at h; simp only at h
        obtain ⟨hd, hr⟩ := countOf_ok hc
        apply parse_of
        have hlen : r.length = hd.length + r'.length := by rw [hr]; simp
        have : 2 * (c :: r).length - 1 = (2 * r.length) + 1 := by simp; omega
        rw [this]
        exact parseNodeG_map hm hc (by simp) (extract_parse _ n r' pf h _ (by omega))
    · rw [if_pos (by simp [hm])] at h; cases h

/-! ### one op -/

/-- for the unrepaired REMOVE_VAL (scalar elements only): REMOVE_VAL ops carry a scalar value — the
    fragment the refinement covers there; vacuous for the repaired rule -/
def RemoveValScalar (cfg : Cfg) (op : Op) : Prop :=
  op.kind = .removeVal → cfg.rmvalCanon = false → ScalarVal op.value

theorem applyOp_refines {cfg : Cfg} (hv : cfg.validatesValues = true) {N : Nat} {t t' : Node} {op : Op}
    {segs : List Seg} (hN : N < 2 ^ 32) (ht : WfB N t) (hrv : RemoveValScalar cfg op)
    (h : applyOp cfg t op segs = .ok t') :
    refOpSegs (norm t) op segs = .ok (norm t') := by
  unfold applyOp at h
  unfold refOpSegs decode
  cases hk : op.kind <;> rw [hk] at h <;> simp only at h ⊢
  case set =>
    split at h
    · cases h
    · rename_i hne
      rw [if_neg hne]
      split at h
      · cases h
      · rename_i hval
        obtain ⟨d, hd⟩ := validateValue_ok hv hval
        rw [hd]; simp only
        exact walk_refines (sim_set hd) segs t t' ht h
  case delete => exact walk_refines sim_delete segs t t' ht h
  case inc =>
    split at h
    · cases h
    · rename_i hne
      rw [if_neg hne]
      split at h
      · cases h
      · rename_i hval
        obtain ⟨d, hd⟩ := validateValue_ok hv hval
        rw [hd]; simp only
        split at h
        · cases h
        · rename_i dcls dv hrn
          rw [hrn]; simp only
          split at h
          · cases h
          · rename_i hdc
            rw [if_neg hdc]
            exact walk_refines (sim_inc hd dcls dv hdc) segs t t' ht h
  case append =>
    split at h
    · cases h
    · rename_i hne
      rw [if_neg hne]
      split at h
      · cases h
      · rename_i hval
        obtain ⟨d, hd⟩ := validateValue_ok hv hval
        rw [hd]; simp only
        exact walk_refines (sim_append hd false) segs t t' ht h
  case prepend =>
    split at h
    · cases h
    · rename_i hne
      rw [if_neg hne]
      split at h
      · cases h
      · rename_i hval
        obtain ⟨d, hd⟩ := validateValue_ok hv hval
        rw [hd]; simp only
        exact walk_refines (sim_append hd true) segs t t' ht h
  case removeAt =>
    split at h
    · rename_i hlast
      rw [hlast]; simp only
      exact walk_refines sim_removeAt segs t t' ht h
    · cases h
  case removeVal =>
    split at h
    · cases h
    · rename_i hne
      rw [if_neg hne]
      exact walk_refines (sim_removeVal (rmVal_norm hN _ _ (fun hc => hrv hk hc))) segs t t' ht h
  case merge =>
    split at h
    · cases h
    · rename_i hne
      rw [if_neg hne]
      split at h
      · cases h
      · rename_i pf hpf
        rw [hv] at hpf
        rw [extractTop_parse hpf]; simp only
        exact walk_refines (sim_merge pf) segs t t' ht h
  case unknown => cases h

theorem stepOp_refines {cfg : Cfg} (hv : cfg.validatesValues = true) {N : Nat} {t t' : Node} {op : Op}
    (hN : N < 2 ^ 32) (ht : WfB N t) (hrv : RemoveValScalar cfg op) (h : stepOp cfg t op = .ok t') :
    refOp (norm t) op = .ok (norm t') := by
  unfold stepOp at h
  unfold refOp
  split at h
  · cases h
  · rename_i segs hsegs
    rw [hsegs]; simp only
    exact applyOp_refines hv hN ht hrv h

theorem applyOps_refines {cfg : Cfg} (hv : cfg.validatesValues = true) :
    ∀ (ops : List Op) (N : Nat) (t t' : Node), (∀ op ∈ ops, op.path.length < 2 ^ 32) →
      (∀ op ∈ ops, RemoveValScalar cfg op) → N + totalGrowth cfg ops < 2 ^ 32 → WfB N t →
      applyOps cfg t ops = .ok t' → refOps (norm t) ops = .ok (norm t')
  | [], N, t, t', _, _, _, _, h => by
    rw [applyOps] at h; injection h with h; subst h; rw [refOps]
  | op :: rest, N, t, t', hp, hr, hsz, ht, h => by
    rw [totalGrowth] at hsz
    rw [applyOps] at h
    rw [refOps]
    split at h
    · cases h
    · rename_i t1 hstep
      rw [stepOp_refines hv (by omega) ht (hr op (by simp)) hstep]; simp only
      have h1 := stepOp_WfB hv (hp op (by simp)) ht hstep
      exact applyOps_refines hv rest _ t1 t' (fun o ho => hp o (List.mem_cons_of_mem _ ho))
        (fun o ho => hr o (List.mem_cons_of_mem _ ho)) (by omega) h1 h

/-- A successful patch stores exactly the document the documented semantics give: parsing the
    returned body yields `refOps` of the parsed input body. -/
theorem applyWithCondition_refines {cfg : Cfg} (hv : cfg.validatesValues = true)
    {body : Bytes} {ops : List Op} {cond : Option Condition} {out : Bytes} {t : Node}
    (hparse : parse body = .ok t)
    (hpaths : ∀ op ∈ ops, op.path.length < 2 ^ 32)
    (hrv : ∀ op ∈ ops, RemoveValScalar cfg op)
    (hsize : maxCh t + totalGrowth cfg ops < 2 ^ 32)
    (h : applyWithCondition cfg body ops cond = .ok out) :
    ∃ d, refOps t ops = .ok d ∧ parse out = .ok d := by
  unfold applyWithCondition at h
  rw [hparse] at h; simp only at h
  split at h
  · cases h
  · split at h
    · cases h
    · rename_i t' hops
      injection h with h; subst h
      have hw := parse_wf hparse
      have h0 := wf_WfB t hw.1
      have h1 := applyOps_WfB hv ops _ t t' hpaths h0 hops
      have h2 := applyOps_refines hv ops _ t t' hpaths hrv hsize h0 hops
      rw [hw.2] at h2
      exact ⟨norm t', h2, serialize_parse (WfB_wf hsize t' h1)⟩

end Hv.Patch
