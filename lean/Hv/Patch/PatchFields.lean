/-
  C13 model, part 7 — `swamp_patch.go`: `PatchFields` on one treasure, on top of
  `applyWithCondition`: existence / CreateIfNotExist / seed, content type and magic prefix, the
  status mapping of `classifyPatchError`, what is stored and echoed, and `applyPatchMeta`.
  (Cap checks are C12's; timestamps "now" are modelled as "has been stamped".)
-/
import Hv.Patch.Ops
import Hv.Patch.Spec

namespace Hv.Patch

/-- status code per error sentinel (`classifyPatchError`), as extracted from the code -/
structure StatusMap where
  cond : Nat
  type : Nat
  path : Nat
  op : Nat
  msgpack : Nat
  nonstr : Nat
  deriving DecidableEq, Repr

/-- hydraide.proto `PatchResult.StatusCode` + the code's choice for the two undocumented
    sentinels (ErrInvalidOp → PATH_INVALID, ErrNonStringKey → ENCODING_NOT_SUPPORTED) -/
def documentedMap : StatusMap := ⟨3, 5, 6, 6, 7, 7⟩

def StatusMap.of (m : StatusMap) : Err → Nat
  | .cond => m.cond | .type => m.type | .path => m.path | .op => m.op
  | .msgpack => m.msgpack | .nonstr => m.nonstr

structure PfCfg where
  cfg : Cfg
  magic : Magic
  smap : StatusMap
  /-- `emptyMapMsgpack`: body of a created treasure when no seed is given -/
  defaultSeed : Bytes
  /-- does `PatchFields` reject a seed that is not a msgpack map ("Non-map seeds yield
      PatchStatusTypeMismatch") — or only one that does not parse -/
  seedMustBeMap : Bool
  deriving Repr

/-- `PatchFieldsMeta` (times as UnixNano; `setExp = none`: zero `time.Time`) -/
structure PatchMeta where
  updAt : Bool
  updBy : Bytes
  crAt : Bool
  crBy : Bytes
  setExp : Option Int
  clearExp : Bool
  deriving DecidableEq, Repr

/-- the treasure under the key -/
structure Treasure where
  content : Stored
  exp : Int          -- ExpirationTime (UnixNano), 0 = never
  modAt : Bool       -- ModifiedAt stamped
  modBy : Bytes
  crAt : Bool
  crBy : Bytes
  deriving DecidableEq, Repr

def Treasure.empty : Treasure := ⟨.absent, 0, false, [], false, []⟩

/-- `applyPatchMeta` -/
def applyMeta (m : Option PatchMeta) (onCreate : Bool) (t : Treasure) : Treasure :=
  match m with
  | none => t
  | some m =>
    let t := if m.updAt then { t with modAt := true } else t
    let t := if m.updBy.isEmpty then t else { t with modBy := m.updBy }
    let t := if onCreate && m.crAt then { t with crAt := true } else t
    let t := if onCreate && !m.crBy.isEmpty then { t with crBy := m.crBy } else t
    if m.clearExp then { t with exp := 0 }
    else match m.setExp with
      | some e => { t with exp := e }
      | none => t

/-- result of one `PatchFields` call: status code, treasure afterwards, `NewMsgpack` -/
structure PfResult where
  status : Nat
  treasure : Treasure
  newBody : Option Bytes
  deriving DecidableEq, Repr

/-- the seed of a created treasure -/
def seedOf (pc : PfCfg) (seed : Bytes) : Bytes := if seed.isEmpty then pc.defaultSeed else seed

/-- content type and prefix check: the body to patch and whether the treasure is being created -/
def pfBody (pc : PfCfg) (tr : Treasure) (seed' : Bytes) : Except Nat (Bytes × Bool) :=
  match tr.content with
  | .absent => .ok (seed', true)
  | .other => .error 5                                                   -- TYPE_MISMATCH
  | .bytes raw =>
    match raw with
    | [] => .error 7
    | [_] => .error 7                                                    -- ENCODING_NOT_SUPPORTED
    | x :: y :: body => if x = pc.magic.b0 ∧ y = pc.magic.b1 then .ok (body, false) else .error 7

/-- everything `PatchFields` checks before it patches: the body to patch and whether the call
    creates the treasure, or the status it gives up with -/
def isMapBody : Bytes → Bool
  | c :: _ => isMapCode c
  | [] => false

/-- the seed check of `PatchFields` (made whenever CreateIfNotExist is set) -/
def seedOk (pc : PfCfg) (s : Bytes) : Bool := wf s && (!pc.seedMustBeMap || isMapBody s)

def pfGate (pc : PfCfg) (tr : Treasure) (create : Bool) (seed : Bytes) : Except Nat (Bytes × Bool) :=
  if (!create && decide (tr.content = .absent)) = true then .error 2 else    -- KEY_NOT_FOUND
  if (create && !seedOk pc (seedOf pc seed)) = true then .error 5 else       -- seed rejected: TYPE_MISMATCH
  pfBody pc tr (seedOf pc seed)

/-- `PatchFields` (no cap predicate) -/
def patchFieldsT (pc : PfCfg) (tr : Treasure) (ops : List Op) (cond : Option Condition)
    (create : Bool) (seed : Bytes) (m : Option PatchMeta) : PfResult :=
  match pfGate pc tr create seed with
  | .error s => ⟨s, tr, none⟩
  | .ok (body, isCreate) =>
    match applyWithCondition pc.cfg body ops cond with
    | .error e => ⟨pc.smap.of e, tr, none⟩
    | .ok out =>
      let tr' := applyMeta m isCreate { tr with content := .bytes (pc.magic.b0 :: pc.magic.b1 :: out) }
      ⟨if isCreate then 1 else 0, tr', some out⟩

end Hv.Patch
