/-
  Lemmas about the skeleton parser and serializer (`Skeleton.lean`):
  inversion/introduction forms of the three mutually recursive parser functions, the frame
  lemma (more fuel and a longer input do not change a successful parse), and the header
  lemmas behind the round-trip theorems.
-/
import Hv.Patch.Skeleton
import Hv.Patch.WireLemmas

namespace Hv.Patch

/-! ### inversion -/

theorem parseNodeG_inv {strict : Bool} {f : Nat} {b : Bytes} {t : Node} {rest : Bytes}
    (h : parseNodeG strict f b = .ok (t, rest)) :
    ∃ f' c r, f = f' + 1 ∧ b = c :: r ∧
    ((isMapCode c = true ∧ ∃ n r' fs, countOf c r = .ok (n, r') ∧ (strict && !minimalCount c n) = false ∧
        parseFieldsG strict f' n r' = .ok (fs, rest) ∧ t = .map fs) ∨
     (isMapCode c = false ∧ isArrayCode c = true ∧ ∃ n r' xs, countOf c r = .ok (n, r') ∧
        (strict && !minimalCount c n) = false ∧ parseItemsG strict f' n r' = .ok (xs, rest) ∧ t = .arr xs) ∨
     (isMapCode c = false ∧ isArrayCode c = false ∧ ∃ n p, leafExtent c r = .ok n ∧
        splitN n r = .ok (p, rest) ∧ t = .leaf (c :: p))) := by
  cases f with
  | zero => rw [parseNodeG] at h; cases h
  | succ f' =>
    cases b with
    | nil => rw [parseNodeG] at h; cases h
    | cons c r =>
      refine ⟨f', c, r, rfl, rfl, ?_⟩
      rw [parseNodeG] at h
      by_cases hm : isMapCode c = true
      · rw [if_pos hm] at h
        left
        refine ⟨hm, ?_⟩
        cases hc : countOf c r with
        | error e => rw [hc] at h; cases h
        | ok nr =>
          obtain ⟨n, r'⟩ := nr
          rw [hc] at h
          simp only at h
          by_cases hs : (strict && !minimalCount c n) = true
          · rw [if_pos hs] at h; cases h
          · rw [if_neg hs] at h
            cases hp : parseFieldsG strict f' n r' with
            | error e => rw [hp] at h; cases h
            | ok fr =>
              obtain ⟨fs, r''⟩ := fr
              rw [hp] at h
              simp only at h
              injection h with h; injection h with h1 h2
              subst h1 h2
              exact ⟨n, r', fs, rfl, by simpa using hs, hp, rfl⟩
      · rw [if_neg hm] at h
        have hm' : isMapCode c = false := by simpa using hm
        right
        by_cases ha : isArrayCode c = true
        · rw [if_pos ha] at h
          left
          refine ⟨hm', ha, ?_⟩
          cases hc : countOf c r with
          | error e => rw [hc] at h; cases h
          | ok nr =>
            obtain ⟨n, r'⟩ := nr
            rw [hc] at h
            simp only at h
            by_cases hs : (strict && !minimalCount c n) = true
            · rw [if_pos hs] at h; cases h
            · rw [if_neg hs] at h
              cases hp : parseItemsG strict f' n r' with
              | error e => rw [hp] at h; cases h
              | ok fr =>
                obtain ⟨xs, r''⟩ := fr
                rw [hp] at h
                simp only at h
                injection h with h; injection h with h1 h2
                subst h1 h2
                exact ⟨n, r', xs, rfl, by simpa using hs, hp, rfl⟩
        · rw [if_neg ha] at h
          have ha' : isArrayCode c = false := by simpa using ha
          right
          refine ⟨hm', ha', ?_⟩
          cases hl : leafExtent c r with
          | error e => rw [hl] at h; cases h
          | ok n =>
            rw [hl] at h
            simp only at h
            cases hsp : splitN n r with
            | error e => rw [hsp] at h; cases h
            | ok pr =>
              obtain ⟨p, r'⟩ := pr
              rw [hsp] at h
              simp only at h
              injection h with h; injection h with h1 h2
              subst h1 h2
              exact ⟨n, p, rfl, hsp, rfl⟩

theorem parseNodeG_map {strict : Bool} {f : Nat} {c : UInt8} {r r' rest : Bytes} {n : Nat} {fs : Fields}
    (hm : isMapCode c = true) (hc : countOf c r = .ok (n, r'))
    (hs : (strict && !minimalCount c n) = false)
    (hp : parseFieldsG strict f n r' = .ok (fs, rest)) :
    parseNodeG strict (f + 1) (c :: r) = .ok (.map fs, rest) := by
  rw [parseNodeG, if_pos hm, hc]
  simp only
  rw [if_neg (by simp [hs]), hp]

theorem parseNodeG_arr {strict : Bool} {f : Nat} {c : UInt8} {r r' rest : Bytes} {n : Nat} {xs : List Node}
    (hm : isMapCode c = false) (ha : isArrayCode c = true) (hc : countOf c r = .ok (n, r'))
    (hs : (strict && !minimalCount c n) = false)
    (hp : parseItemsG strict f n r' = .ok (xs, rest)) :
    parseNodeG strict (f + 1) (c :: r) = .ok (.arr xs, rest) := by
  rw [parseNodeG, if_neg (by simp [hm]), if_pos ha, hc]
  simp only
  rw [if_neg (by simp [hs]), hp]

theorem parseNodeG_leaf {strict : Bool} {f : Nat} {c : UInt8} {r p rest : Bytes} {n : Nat}
    (hm : isMapCode c = false) (ha : isArrayCode c = false) (hl : leafExtent c r = .ok n)
    (hsp : splitN n r = .ok (p, rest)) :
    parseNodeG strict (f + 1) (c :: r) = .ok (.leaf (c :: p), rest) := by
  rw [parseNodeG, if_neg (by simp [hm]), if_neg (by simp [ha]), hl]
  simp only
  rw [hsp]

theorem parseFieldsG_zero (strict : Bool) (f : Nat) (b : Bytes) :
    parseFieldsG strict f 0 b = .ok ([], b) := by
  cases f <;> rw [parseFieldsG]

theorem parseItemsG_zero (strict : Bool) (f : Nat) (b : Bytes) :
    parseItemsG strict f 0 b = .ok ([], b) := by
  cases f <;> rw [parseItemsG]

theorem parseFieldsG_inv {strict : Bool} {f n : Nat} {b : Bytes} {fs : Fields} {rest : Bytes}
    (h : parseFieldsG strict f (n + 1) b = .ok (fs, rest)) :
    ∃ f' c r k r1 v r2 tl, f = f' + 1 ∧ b = c :: r ∧ isStringCode c = true ∧
      strPayload c r = .ok (k, r1) ∧ (strict && !minimalStr c k.length) = false ∧
      parseNodeG strict f' r1 = .ok (v, r2) ∧ parseFieldsG strict f' n r2 = .ok (tl, rest) ∧
      fs = (k, v) :: tl := by
  cases f with
  | zero => rw [parseFieldsG] at h; cases h
  | succ f' =>
    cases b with
    | nil => rw [parseFieldsG] at h; cases h
    | cons c r =>
      rw [parseFieldsG] at h
      by_cases hsc : isStringCode c = true
      · rw [if_neg (by simp [hsc])] at h
        cases hk : strPayload c r with
        | error e => rw [hk] at h; cases h
        | ok kr =>
          obtain ⟨k, r1⟩ := kr
          rw [hk] at h
          simp only at h
          by_cases hs : (strict && !minimalStr c k.length) = true
          · rw [if_pos hs] at h; cases h
          · rw [if_neg hs] at h
            cases hv : parseNodeG strict f' r1 with
            | error e => rw [hv] at h; cases h
            | ok vr =>
              obtain ⟨v, r2⟩ := vr
              rw [hv] at h
              simp only at h
              cases ht : parseFieldsG strict f' n r2 with
              | error e => rw [ht] at h; cases h
              | ok tr =>
                obtain ⟨tl, r3⟩ := tr
                rw [ht] at h
                simp only at h
                injection h with h; injection h with h1 h2
                subst h1 h2
                exact ⟨f', c, r, k, r1, v, r2, tl, rfl, rfl, hsc, hk, by simpa using hs, hv, ht, rfl⟩
      · rw [if_pos (by simp [hsc])] at h; cases h

theorem parseFieldsG_cons {strict : Bool} {f n : Nat} {c : UInt8} {r k r1 r2 rest : Bytes} {v : Node} {tl : Fields}
    (hsc : isStringCode c = true) (hk : strPayload c r = .ok (k, r1))
    (hs : (strict && !minimalStr c k.length) = false)
    (hv : parseNodeG strict f r1 = .ok (v, r2)) (ht : parseFieldsG strict f n r2 = .ok (tl, rest)) :
    parseFieldsG strict (f + 1) (n + 1) (c :: r) = .ok ((k, v) :: tl, rest) := by
  rw [parseFieldsG, if_neg (by simp [hsc]), hk]
  simp only
  rw [if_neg (by simp [hs]), hv]
  simp only
  rw [ht]

theorem parseItemsG_inv {strict : Bool} {f n : Nat} {b : Bytes} {xs : List Node} {rest : Bytes}
    (h : parseItemsG strict f (n + 1) b = .ok (xs, rest)) :
    ∃ f' v r1 tl, f = f' + 1 ∧ parseNodeG strict f' b = .ok (v, r1) ∧
      parseItemsG strict f' n r1 = .ok (tl, rest) ∧ xs = v :: tl := by
  cases f with
  | zero => rw [parseItemsG] at h; cases h
  | succ f' =>
    rw [parseItemsG] at h
    cases hv : parseNodeG strict f' b with
    | error e => rw [hv] at h; cases h
    | ok vr =>
      obtain ⟨v, r1⟩ := vr
      rw [hv] at h
      simp only at h
      cases ht : parseItemsG strict f' n r1 with
      | error e => rw [ht] at h; cases h
      | ok tr =>
        obtain ⟨tl, r2⟩ := tr
        rw [ht] at h
        simp only at h
        injection h with h; injection h with h1 h2
        subst h1 h2
        exact ⟨f', v, r1, tl, rfl, hv, ht, rfl⟩

theorem parseItemsG_cons {strict : Bool} {f n : Nat} {b r1 rest : Bytes} {v : Node} {tl : List Node}
    (hv : parseNodeG strict f b = .ok (v, r1)) (ht : parseItemsG strict f n r1 = .ok (tl, rest)) :
    parseItemsG strict (f + 1) (n + 1) b = .ok (v :: tl, rest) := by
  rw [parseItemsG, hv]
  simp only
  rw [ht]

/-! ### frame: more fuel, longer input -/

theorem frame (strict : Bool) : ∀ f : Nat,
    (∀ b t rest, parseNodeG strict f b = .ok (t, rest) →
      ∀ g, f ≤ g → ∀ s, parseNodeG strict g (b ++ s) = .ok (t, rest ++ s)) ∧
    (∀ n b fs rest, parseFieldsG strict f n b = .ok (fs, rest) →
      ∀ g, f ≤ g → ∀ s, parseFieldsG strict g n (b ++ s) = .ok (fs, rest ++ s)) ∧
    (∀ n b xs rest, parseItemsG strict f n b = .ok (xs, rest) →
      ∀ g, f ≤ g → ∀ s, parseItemsG strict g n (b ++ s) = .ok (xs, rest ++ s)) := by
  intro f
  induction f with
  | zero =>
    refine ⟨?_, ?_, ?_⟩
    · intro b t rest h; rw [parseNodeG] at h; cases h
    · intro n b fs rest h g _ s
      cases n with
      | zero =>
        rw [parseFieldsG_zero] at h
        injection h with h; injection h with h1 h2; subst h1 h2
        exact parseFieldsG_zero _ _ _
      | succ n => rw [parseFieldsG] at h; cases h
    · intro n b xs rest h g _ s
      cases n with
      | zero =>
        rw [parseItemsG_zero] at h
        injection h with h; injection h with h1 h2; subst h1 h2
        exact parseItemsG_zero _ _ _
      | succ n => rw [parseItemsG] at h; cases h
  | succ f ih =>
    obtain ⟨ihN, ihF, ihI⟩ := ih
    refine ⟨?_, ?_, ?_⟩
    · intro b t rest h g hg s
      obtain ⟨f', c, r, hf, hb, hcases⟩ := parseNodeG_inv h
      have hf' : f' = f := by omega
      subst hf' hb
      obtain ⟨g', rfl⟩ : ∃ g', g = g' + 1 := ⟨g - 1, by omega⟩
      have hg' : f' ≤ g' := by omega
      rw [List.cons_append]
      rcases hcases with ⟨hm, n, r', fs, hc, hs, hp, rfl⟩ | ⟨hm, ha, n, r', xs, hc, hs, hp, rfl⟩ |
        ⟨hm, ha, n, p, hl, hsp, rfl⟩
      · exact parseNodeG_map hm (countOf_append hc s) hs (ihF n r' fs rest hp g' hg' s)
      · exact parseNodeG_arr hm ha (countOf_append hc s) hs (ihI n r' xs rest hp g' hg' s)
      · exact parseNodeG_leaf hm ha (leafExtent_append hl s) (splitN_append hsp s)
    · intro n b fs rest h g hg s
      cases n with
      | zero =>
        rw [parseFieldsG_zero] at h
        injection h with h; injection h with h1 h2; subst h1 h2
        exact parseFieldsG_zero _ _ _
      | succ n =>
        obtain ⟨f', c, r, k, r1, v, r2, tl, hf, hb, hsc, hk, hs, hv, ht, rfl⟩ := parseFieldsG_inv h
        have hf' : f' = f := by omega
        subst hf' hb
        obtain ⟨g', rfl⟩ : ∃ g', g = g' + 1 := ⟨g - 1, by omega⟩
        have hg' : f' ≤ g' := by omega
        rw [List.cons_append]
        exact parseFieldsG_cons hsc (strPayload_append hk s) hs (ihN r1 v r2 hv g' hg' s)
          (ihF n r2 tl rest ht g' hg' s)
    · intro n b xs rest h g hg s
      cases n with
      | zero =>
        rw [parseItemsG_zero] at h
        injection h with h; injection h with h1 h2; subst h1 h2
        exact parseItemsG_zero _ _ _
      | succ n =>
        obtain ⟨f', v, r1, tl, hf, hv, ht, rfl⟩ := parseItemsG_inv h
        have hf' : f' = f := by omega
        subst hf'
        obtain ⟨g', rfl⟩ : ∃ g', g = g' + 1 := ⟨g - 1, by omega⟩
        have hg' : f' ≤ g' := by omega
        exact parseItemsG_cons (ihN b v r1 hv g' hg' s) (ihI n r1 tl rest ht g' hg' s)

theorem parseNodeG_frame {strict : Bool} {f : Nat} {b : Bytes} {t : Node} {rest : Bytes}
    (h : parseNodeG strict f b = .ok (t, rest)) {g : Nat} (hg : f ≤ g) (s : Bytes) :
    parseNodeG strict g (b ++ s) = .ok (t, rest ++ s) :=
  (frame strict f).1 b t rest h g hg s

end Hv.Patch
