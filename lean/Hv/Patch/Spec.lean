/-
  C13 SPEC — the documented semantics of the eight patch ops, over the DECODED document.

  A document is a tree whose leaves are scalar msgpack values, maps are ordered lists of
  `(key, value)` and arrays ordered lists of values (`Node`, with no spliced, still-encoded
  container inside a leaf).  Op values are decoded first (`decode`), so this level knows nothing
  about splicing bytes: SET puts a *value* at a path, MERGE merges a *map value*, …

  An op is: resolve the path to a place (`resolve`: the position of the container that holds the
  final segment, plus what the final segment found there), then edit that container (`editAt`).

    path rules      field on a map, `[i]` on an array (`i < 0` counts from the end, out of range is
                    an error), `[]` = the slot after the last element, only as the final segment;
                    the first field with a given name is the field (duplicate keys).
    SET             existing target: replaced.  Missing field(s): created, intermediate ones as maps
                    holding one field.  `[]` / a missing `[i]`: error.
    DELETE          existing target removed; anything missing: nothing happens.
    INC             numeric target of the delta's class: target + delta in the target's own format
                    (`computeInc`); missing field(s): created holding the delta.
    APPEND/PREPEND  `path[]` on an existing array; missing field(s): created, the last one as a
                    one-element array.
    REMOVE_AT       final segment must be `[i]`; element removed.
    REMOVE_VAL      first element (scalar or container) whose encoding equals the value's, both with
                    the smallest headers, removed; missing target: nothing.
    MERGE           target map: every field of the value replaces the field of that name or is
                    appended (shallow); missing field(s): created, the last one holding the merge
                    of the value into the empty map.
-/
import Hv.Patch.Ops

namespace Hv.Patch.Spec
open Hv.Patch

/-- an op value as a document -/
def decode (v : Bytes) : Except Err Node := parse v

/-- the first field named `k` -/
def keyIndex (fs : Fields) (k : Bytes) : Option Nat := fs.findIdx? (fun f => f.1 == k)

/-- `[n]` on an array of `len` elements -/
def index (n : Int) (len : Nat) : Except Err Nat :=
  if 0 ≤ n then (if n < (len : Int) then .ok n.toNat else .error .path)
  else (if -(len : Int) ≤ n then .ok ((len : Int) + n).toNat else .error .path)

/-- where a path leads: position of the container holding the final segment, and what the
    final segment finds there -/
def resolve : List Seg → Node → Except Err (List Nat × Hit)
  | [], _ => .error .path
  | seg :: rest, t =>
    match seg with
    | .field k =>
      match t with
      | .map fs =>
        match keyIndex fs k with
        | none => .ok ([], .missing (seg :: rest))
        | some i =>
          if rest.isEmpty then .ok ([], .target i) else
          match fs[i]? with
          | none => .error .path
          | some (_, c) =>
            match resolve rest c with
            | .error e => .error e
            | .ok (p, h) => .ok (i :: p, h)
      | _ => .error .type
    | .index n =>
      match t with
      | .arr xs =>
        match index n xs.length with
        | .error e => .error e
        | .ok i =>
          if rest.isEmpty then .ok ([], .target i) else
          match xs[i]? with
          | none => .error .path
          | some c =>
            match resolve rest c with
            | .error e => .error e
            | .ok (p, h) => .ok (i :: p, h)
      | _ => .error .type
    | .append =>
      if !rest.isEmpty then .error .path else
      match t with
      | .arr _ => .ok ([], .appendSlot)
      | _ => .error .type

/-- rewrite the sub-tree at a position -/
def editAt : List Nat → (Node → Except Err Node) → Node → Except Err Node
  | [], f, t => f t
  | i :: p, f, t =>
    match getChild t i with
    | none => .error .path
    | some c =>
      match editAt p f c with
      | .error e => .error e
      | .ok c' => .ok (setChild t i c')

/-- the new field `k₀: {k₁: {… kₙ: inner}}` for a run of missing field segments -/
def create (parent : Node) (rem : List Seg) (inner : Node) : Except Err Node :=
  match allKeys rem with
  | some (k :: ks) => .ok (addField parent (chain k ks inner))
  | _ => .error .path

def sSet (d : Node) (parent : Node) : Hit → Except Err Node
  | .target i => .ok (setChild parent i d)
  | .appendSlot => .error .path
  | .missing rem => create parent rem d

def sDelete (parent : Node) : Hit → Except Err Node
  | .target i => .ok (eraseChild parent i)
  | _ => .ok parent

def sInc (d : Node) (dcls : NumClass) (dv : Nat) (parent : Node) : Hit → Except Err Node
  | .target i =>
    match getChild parent i with
    | some (.leaf raw) =>
      match readNumeric raw with
      | .error e => .error e
      | .ok (tcls, tv) =>
        if tcls ≠ dcls then .error .type else
        match computeInc (raw.headD 0) tcls tv dv with
        | .error e => .error e
        | .ok nr => .ok (setChild parent i (.leaf nr))
    | _ => .error .type
  | .appendSlot => .error .path
  | .missing rem => create parent rem d

def sAppend (d : Node) (prepend : Bool) (parent : Node) : Hit → Except Err Node
  | .appendSlot =>
    match parent with
    | .arr xs => .ok (if prepend then .arr (d :: xs) else .arr (xs ++ [d]))
    | _ => .error .type
  | .target _ => .error .path
  | .missing rem =>
    match rem.getLast? with
    | some .append => create parent rem.dropLast (.arr [d])
    | _ => .error .path

def sRemoveAt (parent : Node) : Hit → Except Err Node
  | .target i => .ok (eraseChild parent i)
  | _ => .error .path

/-- the value's encoding with the smallest headers (a value that does not decode is itself) -/
def canonVal (v : Bytes) : Bytes :=
  match decode v with
  | .ok d => serialize d
  | .error _ => v

/-- first element — scalar or container — whose encoding is `want` -/
def dropFirst (want : Bytes) : List Node → List Node
  | [] => []
  | x :: rest => if serialize x = want then rest else x :: dropFirst want rest

def sRemoveVal (v : Bytes) (parent : Node) : Hit → Except Err Node
  | .target i =>
    match getChild parent i with
    | some (.arr xs) => .ok (setChild parent i (.arr (dropFirst (canonVal v) xs)))
    | _ => .error .type
  | _ => .ok parent

/-- shallow merge of the fields `pf` into `fs` -/
def mergeFields (fs : Fields) : Fields → Fields
  | [] => fs
  | (k, d) :: rest =>
    match keyIndex fs k with
    | some i => mergeFields (fs.set i (k, d)) rest
    | none => mergeFields (fs ++ [(k, d)]) rest

def sMerge (pf : Fields) (parent : Node) : Hit → Except Err Node
  | .target i =>
    match getChild parent i with
    | some (.map fs) => .ok (setChild parent i (.map (mergeFields fs pf)))
    | _ => .error .type
  | .appendSlot => .error .path
  | .missing rem => create parent rem (.map (mergeFields [] pf))

/-- resolve, then edit the container found -/
def at_ (segs : List Seg) (t : Node) (edit : Node → Hit → Except Err Node) : Except Err Node :=
  match resolve segs t with
  | .error e => .error e
  | .ok (p, hit) => editAt p (fun u => edit u hit) t

/-- one op on a document (path already parsed) -/
def refOpSegs (t : Node) (op : Op) (segs : List Seg) : Except Err Node :=
  match op.kind with
  | .set =>
    if op.value.isEmpty then .error .op else
    match decode op.value with
    | .error e => .error e
    | .ok d => at_ segs t (sSet d)
  | .delete => at_ segs t sDelete
  | .inc =>
    if op.value.isEmpty then .error .op else
    match decode op.value with
    | .error e => .error e
    | .ok d =>
      match readNumeric op.value with
      | .error e => .error e
      | .ok (dcls, dv) => if dcls = .none then .error .type else at_ segs t (sInc d dcls dv)
  | .append =>
    if op.value.isEmpty then .error .op else
    match decode op.value with
    | .error e => .error e
    | .ok d => at_ segs t (sAppend d false)
  | .prepend =>
    if op.value.isEmpty then .error .op else
    match decode op.value with
    | .error e => .error e
    | .ok d => at_ segs t (sAppend d true)
  | .removeAt =>
    match segs.getLast? with
    | some (.index _) => at_ segs t sRemoveAt
    | _ => .error .path
  | .removeVal => if op.value.isEmpty then .error .op else at_ segs t (sRemoveVal op.value)
  | .merge =>
    if op.value.isEmpty then .error .op else
    match decode op.value with
    | .error e => .error e
    | .ok (.map pf) => at_ segs t (sMerge pf)
    | .ok _ => .error .type
  | .unknown => .error .op

def refOp (t : Node) (op : Op) : Except Err Node :=
  match parsePath op.path with
  | .error e => .error e
  | .ok segs => refOpSegs t op segs

/-- the documented result of an op list: every op in order, all or nothing -/
def refOps : Node → List Op → Except Err Node
  | t, [] => .ok t
  | t, op :: rest =>
    match refOp t op with
    | .error e => .error e
    | .ok t' => refOps t' rest

end Hv.Patch.Spec
