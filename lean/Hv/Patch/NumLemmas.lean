/-
  Lemmas about numbers: INC keeps the target's format code and width (the code's actual rule:
  fixints have no width of their own and are widened to 64 bits), and comparisons follow the
  numeric order of each class; NaN is equal to nothing once `cfg.nan = .neverEqual`.
-/
import Hv.Patch.Ops
import Hv.Patch.WireLemmas

namespace Hv.Patch

/-- payload width of the numeric codes that carry one (everything but the fixints) -/
def typedWidth (c : UInt8) : Option Nat :=
  let n := c.toNat
  if 0xcc ≤ n ∧ n ≤ 0xcf then some (2 ^ (n - 0xcc))
  else if 0xd0 ≤ n ∧ n ≤ 0xd3 then some (2 ^ (n - 0xd0))
  else if n = 0xca then some 4
  else if n = 0xcb then some 8
  else none

/-- INC keeps the format code and the width of a typed numeric target, and the class always;
    a fixint target becomes the 64-bit code of its class. -/
theorem inc_preserves_code {code : UInt8} {cls : NumClass} {t d : Nat} {nr : Bytes}
    (hc : classOf code = cls) (h : computeInc code cls t d = .ok nr) :
    (∀ k, typedWidth code = some k → nr.head? = some code ∧ nr.length = k + 1) ∧
    (typedWidth code = none → nr.length = 9 ∧
      ((cls = .int ∧ nr.head? = some 0xd3) ∨ (cls = .uint ∧ nr.head? = some 0xcf))) ∧
    classOf (nr.headD 0) = cls := by
  have hlt : code.toNat < 256 := UInt8.toNat_lt code
  cases cls with
  | none => simp [computeInc] at h
  | int =>
    rw [computeInc] at h
    unfold classOf at hc
    simp only at hc
    split at h
    · rename_i hr
      injection h with h; subst h
      have h3 : code.toNat = 0xd0 ∨ code.toNat = 0xd1 ∨ code.toNat = 0xd2 := by omega
      refine ⟨?_, ?_, ?_⟩
      · intro k hk
        unfold typedWidth at hk; simp only at hk
        rw [if_neg (by omega), if_pos (by omega)] at hk
        injection hk with hk; subst hk
        simp [beBytes_length]
      · intro hn
        unfold typedWidth at hn; simp only at hn
        rw [if_neg (by omega), if_pos (by omega)] at hn; cases hn
      · simp only [List.headD_cons]
        unfold classOf; simp only
        rw [if_neg (by omega), if_pos (by omega)]
    · rename_i hr
      injection h with h; subst h
      -- class int, not 0xd0..0xd2: int64 (0xd3) or a negative fixint (≥ 0xe0)
      have hcase : code.toNat = 0xd3 ∨ code.toNat ≥ 0xe0 := by
        split at hc
        · cases hc
        · split at hc
          · omega
          · split at hc
            · cases hc
            · split at hc
              · cases hc
              · split at hc
                · omega
                · cases hc
      refine ⟨?_, ?_, ?_⟩
      · intro k hk
        unfold typedWidth at hk; simp only at hk
        rcases hcase with h0 | h0
        · rw [if_neg (by omega), if_pos (by omega)] at hk
          injection hk with hk; subst hk
          have : code = 0xd3 := by rw [u8_eq_of_toNat (by omega) h0]; rfl
          subst this
          simp [beBytes_length]
        · rw [if_neg (by omega), if_neg (by omega), if_neg (by omega), if_neg (by omega)] at hk
          cases hk
      · intro _
        exact ⟨by simp [beBytes_length], Or.inl ⟨rfl, rfl⟩⟩
      · simp only [List.headD_cons]; decide
  | uint =>
    rw [computeInc] at h
    unfold classOf at hc
    simp only at hc
    split at h
    · rename_i hr
      injection h with h; subst h
      refine ⟨?_, ?_, ?_⟩
      · intro k hk
        unfold typedWidth at hk; simp only at hk
        rw [if_pos (by omega)] at hk
        injection hk with hk; subst hk
        simp [beBytes_length]
      · intro hn
        unfold typedWidth at hn; simp only at hn
        rw [if_pos (by omega)] at hn; cases hn
      · simp only [List.headD_cons]
        unfold classOf; simp only
        rw [if_neg (by omega), if_neg (by omega), if_pos (by omega)]
    · rename_i hr
      injection h with h; subst h
      have hcase : code.toNat = 0xcf ∨ code.toNat ≤ 0x7f := by
        split at hc
        · cases hc
        · split at hc
          · cases hc
          · split at hc
            · omega
            · split at hc
              · omega
              · split at hc
                · cases hc
                · cases hc
      refine ⟨?_, ?_, ?_⟩
      · intro k hk
        unfold typedWidth at hk; simp only at hk
        rcases hcase with h0 | h0
        · rw [if_pos (by omega)] at hk
          injection hk with hk; subst hk
          have : code = 0xcf := by rw [u8_eq_of_toNat (by omega) h0]; rfl
          subst this
          simp [beBytes_length]
        · rw [if_neg (by omega), if_neg (by omega), if_neg (by omega), if_neg (by omega)] at hk
          cases hk
      · intro _
        exact ⟨by simp [beBytes_length], Or.inr ⟨rfl, rfl⟩⟩
      · simp only [List.headD_cons]; decide
  | float =>
    rw [computeInc] at h
    unfold classOf at hc
    simp only at hc
    have hcase : code.toNat = 0xca ∨ code.toNat = 0xcb := by
      split at hc
      · assumption
      · split at hc
        · cases hc
        · split at hc
          · cases hc
          · split at hc
            · cases hc
            · split at hc
              · cases hc
              · cases hc
    split at h
    · rename_i h0
      injection h with h; subst h
      have : code = 0xca := by rw [u8_eq_of_toNat (by omega) h0]; rfl
      subst this
      refine ⟨?_, ?_, by simp only [List.headD_cons]; decide⟩
      · intro k hk
        have : typedWidth 0xca = some 4 := by decide
        rw [this] at hk; injection hk with hk; subst hk
        simp [beBytes_length]
      · intro hn
        have : typedWidth 0xca = some 4 := by decide
        rw [this] at hn; cases hn
    · rename_i h0
      injection h with h; subst h
      have h1 : code.toNat = 0xcb := by omega
      have : code = 0xcb := by rw [u8_eq_of_toNat (by omega) h1]; rfl
      subst this
      refine ⟨?_, ?_, by simp only [List.headD_cons]; decide⟩
      · intro k hk
        have : typedWidth 0xcb = some 8 := by decide
        rw [this] at hk; injection hk with hk; subst hk
        simp [beBytes_length]
      · intro hn
        have : typedWidth 0xcb = some 8 := by decide
        rw [this] at hn; cases hn

/-! ### comparisons -/

theorem cmpInt_lt (a b : Int) : cmpInt a b = -1 ↔ a < b := by
  unfold cmpInt; split
  · simp [*]
  · split <;> simp [*] <;> omega

theorem cmpInt_eq (a b : Int) : cmpInt a b = 0 ↔ a = b := by
  unfold cmpInt; split
  · simp; omega
  · split
    · simp; omega
    · simp; omega

theorem cmpInt_gt (a b : Int) : cmpInt a b = 1 ↔ b < a := by
  unfold cmpInt; split
  · simp; omega
  · split <;> simp [*] <;> omega

/-- two's-complement reading of a sign-extended `k`-byte field (`k` = 1, 2, 4, 8) -/
theorem toInt64_signExt {k n : Nat} (hk : k = 1 ∨ k = 2 ∨ k = 4 ∨ k = 8) (hn : n < 2 ^ (8 * k)) :
    toInt64 (signExt k n) = if n ≥ 2 ^ (8 * k - 1) then (n : Int) - (2 : Int) ^ (8 * k) else (n : Int) := by
  unfold toInt64 signExt two64
  rcases hk with rfl | rfl | rfl | rfl
  all_goals
    simp only [Nat.reducePow, Nat.reduceMul, Nat.reduceSub, Int.reducePow] at hn ⊢
    split <;> (try split) <;> (try split) <;> omega

theorem readNumeric_nonempty {a : Bytes} {c : NumClass} {v : Nat} (h : readNumeric a = .ok (c, v)) :
    a.isEmpty = false := by
  cases a with
  | nil => simp [readNumeric] at h
  | cons x xs => rfl

/-- within the signed class the result is the order of the decoded integers -/
theorem compareLeaf_int {cfg : Cfg} {a b : Bytes} {av bv : Nat}
    (ha : readNumeric a = .ok (.int, av)) (hb : readNumeric b = .ok (.int, bv)) :
    compareLeaf cfg a b = .ok (cmpInt (toInt64 av) (toInt64 bv)) := by
  unfold compareLeaf
  rw [readNumeric_nonempty ha, readNumeric_nonempty hb, ha, hb]
  simp

/-- within the unsigned class the result is the order of the decoded naturals -/
theorem compareLeaf_uint {cfg : Cfg} {a b : Bytes} {av bv : Nat}
    (ha : readNumeric a = .ok (.uint, av)) (hb : readNumeric b = .ok (.uint, bv)) :
    compareLeaf cfg a b = .ok (cmpInt av bv) := by
  unfold compareLeaf
  rw [readNumeric_nonempty ha, readNumeric_nonempty hb, ha, hb]
  simp

/-- floats that are not NaN: the order of their exact values (±∞ at the ends, -0 = +0) -/
theorem compareLeaf_float {cfg : Cfg} {a b : Bytes} {av bv : Nat} {x y : Int}
    (ha : readNumeric a = .ok (.float, av)) (hb : readNumeric b = .ok (.float, bv))
    (hx : (f64Val av).key = some x) (hy : (f64Val bv).key = some y)
    (hna : f64IsNaN av = false) (hnb : f64IsNaN bv = false) :
    compareLeaf cfg a b = .ok (cmpInt x y) := by
  unfold compareLeaf
  rw [readNumeric_nonempty ha, readNumeric_nonempty hb, ha, hb]
  simp [hna, hnb, cmpF64, hx, hy]

/-- mixed numeric classes never compare -/
theorem compareLeaf_mixed {cfg : Cfg} {a b : Bytes} {ac bc : NumClass} {av bv : Nat}
    (ha : readNumeric a = .ok (ac, av)) (hb : readNumeric b = .ok (bc, bv))
    (hne : ac ≠ bc) (hnum : ac ≠ .none ∨ bc ≠ .none) : compareLeaf cfg a b = .error .type := by
  unfold compareLeaf
  rw [readNumeric_nonempty ha, readNumeric_nonempty hb, ha, hb]
  simp [hne, hnum]

/-- With `nan = neverEqual`, a NaN operand never yields a comparison result at all. -/
theorem nan_not_comparable {cfg : Cfg} (hn : cfg.nan = .neverEqual) {a b : Bytes} {ac bc : NumClass}
    {av bv : Nat} (ha : readNumeric a = .ok (ac, av)) (hb : readNumeric b = .ok (bc, bv))
    (hnan : (ac = .float ∧ f64IsNaN av = true) ∨ (bc = .float ∧ f64IsNaN bv = true)) :
    ∀ v, compareLeaf cfg a b ≠ .ok v := by
  intro v
  unfold compareLeaf
  rw [readNumeric_nonempty ha, readNumeric_nonempty hb, ha, hb]
  simp only [Bool.or_self, Bool.false_eq_true, ↓reduceIte]
  have hnum : ac ≠ .none ∨ bc ≠ .none := by
    rcases hnan with ⟨h, _⟩ | ⟨h, _⟩
    · left; rw [h]; decide
    · right; rw [h]; decide
  rw [if_pos hnum]
  by_cases hne : ac = bc
  · rw [if_neg (by simp [hne])]
    have hf : ac = .float := by
      rcases hnan with ⟨h, _⟩ | ⟨h, _⟩
      · exact h
      · rw [hne]; exact h
    subst hne; subst hf
    simp only
    have : cfg.nan = NanRule.neverEqual ∧ (f64IsNaN av = true ∨ f64IsNaN bv = true) := by
      refine ⟨hn, ?_⟩
      rcases hnan with ⟨_, h⟩ | ⟨_, h⟩
      · exact Or.inl h
      · exact Or.inr h
    rw [if_pos this]
    intro h; cases h
  · rw [if_pos hne]
    intro h; cases h

end Hv.Patch
