/-
  The byte-splicing model refines the SPEC (`Spec.lean`): whenever the model applies an op (list)
  successfully to a well-formed tree `t`, the documented semantics applied to the DECODED tree
  `norm t` succeed too and give the decoded result, `norm t'`.
-/
import Hv.Patch.Spec
import Hv.Patch.OpsWf

namespace Hv.Patch
open Spec

/-! ### the Spec's path rules are the code's -/

theorem keyIndex_eq : ∀ (fs : Fields) (k : Bytes), keyIndex fs k = findField fs k
  | [], k => by simp [keyIndex, findField]
  | (k', v) :: rest, k => by
    have ih := keyIndex_eq rest k
    unfold keyIndex at ih ⊢
    rw [List.findIdx?_cons, findField]
    by_cases h : k' = k
    · simp [h]
    · simp [h, ih]

theorem index_eq (n : Int) (len : Nat) : index n len = resolveIndex n len := by
  unfold index resolveIndex
  simp only
  split <;> split <;> (try split) <;> (try split) <;> first | rfl | omega | (congr 1; omega) | skip

/-! ### `norm` and lists -/

theorem normFields_length : ∀ (fs : Fields), (normFields fs).length = fs.length
  | [] => by rw [normFields]
  | (k, v) :: rest => by rw [normFields]; simp [normFields_length rest]

theorem normFields_get : ∀ (fs : Fields) (i : Nat) (k : Bytes) (c : Node),
    fs[i]? = some (k, c) → (normFields fs)[i]? = some (k, norm c)
  | [], i, k, c, h => by simp at h
  | (k', v) :: rest, 0, k, c, h => by
    simp at h; obtain ⟨h1, h2⟩ := h; subst h1 h2; rw [normFields]; simp
  | (k', v) :: rest, i + 1, k, c, h => by
    simp at h; rw [normFields]; simp; exact normFields_get rest i k c h

theorem normFields_set : ∀ (fs : Fields) (i : Nat) (k : Bytes) (c : Node),
    normFields (fs.set i (k, c)) = (normFields fs).set i (k, norm c)
  | [], i, k, c => by simp [normFields]
  | (k', v) :: rest, 0, k, c => by simp [normFields]
  | (k', v) :: rest, i + 1, k, c => by simp [normFields, normFields_set rest i k c]

theorem normFields_append : ∀ (fs gs : Fields), normFields (fs ++ gs) = normFields fs ++ normFields gs
  | [], gs => by simp [normFields]
  | (k, v) :: rest, gs => by simp [normFields, normFields_append rest gs]

theorem normFields_erase : ∀ (fs : Fields) (i : Nat), normFields (fs.eraseIdx i) = (normFields fs).eraseIdx i
  | [], i => by simp [normFields]
  | (k, v) :: rest, 0 => by simp [normFields]
  | (k, v) :: rest, i + 1 => by simp [normFields, normFields_erase rest i]

theorem findField_norm : ∀ (fs : Fields) (k : Bytes), findField (normFields fs) k = findField fs k
  | [], k => by simp [normFields, findField]
  | (k', v) :: rest, k => by rw [normFields, findField, findField, findField_norm rest k]

theorem normItems_length : ∀ (xs : List Node), (normItems xs).length = xs.length
  | [] => by rw [normItems]
  | v :: rest => by rw [normItems]; simp [normItems_length rest]

theorem normItems_get : ∀ (xs : List Node) (i : Nat) (c : Node),
    xs[i]? = some c → (normItems xs)[i]? = some (norm c)
  | [], i, c, h => by simp at h
  | v :: rest, 0, c, h => by simp at h; subst h; rw [normItems]; simp
  | v :: rest, i + 1, c, h => by simp at h; rw [normItems]; simp; exact normItems_get rest i c h

theorem normItems_set : ∀ (xs : List Node) (i : Nat) (c : Node),
    normItems (xs.set i c) = (normItems xs).set i (norm c)
  | [], i, c => by simp [normItems]
  | v :: rest, 0, c => by simp [normItems]
  | v :: rest, i + 1, c => by simp [normItems, normItems_set rest i c]

theorem normItems_append : ∀ (xs ys : List Node), normItems (xs ++ ys) = normItems xs ++ normItems ys
  | [], ys => by simp [normItems]
  | v :: rest, ys => by simp [normItems, normItems_append rest ys]

theorem normItems_erase : ∀ (xs : List Node) (i : Nat), normItems (xs.eraseIdx i) = (normItems xs).eraseIdx i
  | [], i => by simp [normItems]
  | v :: rest, 0 => by simp [normItems]
  | v :: rest, i + 1 => by simp [normItems, normItems_erase rest i]

/-! ### `norm` and the parent-level helpers (on containers) -/

def IsCont : Node → Prop
  | .leaf _ => False
  | _ => True

theorem norm_setChild {u : Node} (hu : IsCont u) (i : Nat) (c : Node) :
    norm (setChild u i c) = setChild (norm u) i (norm c) := by
  cases u with
  | leaf raw => exact absurd hu (by simp [IsCont])
  | map fs =>
    rw [norm]
    simp only [setChild]
    cases hg : fs[i]? with
    | none =>
      have : (normFields fs)[i]? = none := by
        rw [List.getElem?_eq_none_iff] at hg ⊢; rw [normFields_length]; exact hg
      rw [this]; simp only; rw [norm]
    | some kc =>
      obtain ⟨k, v⟩ := kc
      rw [normFields_get fs i k v hg]; simp only
      rw [norm, normFields_set]
  | arr xs => rw [norm]; simp only [setChild]; rw [norm, normItems_set]

theorem norm_eraseChild {u : Node} (hu : IsCont u) (i : Nat) :
    norm (eraseChild u i) = eraseChild (norm u) i := by
  cases u with
  | leaf raw => exact absurd hu (by simp [IsCont])
  | map fs => rw [norm]; simp only [eraseChild]; rw [norm, normFields_erase]
  | arr xs => rw [norm]; simp only [eraseChild]; rw [norm, normItems_erase]

theorem norm_getChild {u c : Node} (hu : IsCont u) {i : Nat} (h : getChild u i = some c) :
    getChild (norm u) i = some (norm c) := by
  cases u with
  | leaf raw => exact absurd hu (by simp [IsCont])
  | map fs =>
    rw [norm]
    simp only [getChild, Option.map_eq_some_iff] at h ⊢
    obtain ⟨⟨k, c'⟩, hg, hc⟩ := h
    simp at hc; subst hc
    exact ⟨(k, norm c'), normFields_get fs i k c' hg, rfl⟩
  | arr xs => rw [norm]; simp only [getChild] at h ⊢; exact normItems_get xs i c h

theorem norm_chain : ∀ (ks : List Bytes) (k : Bytes) (inner : Node),
    (chain k ks (norm inner)) = ((chain k ks inner).1, norm (chain k ks inner).2)
  | [], k, inner => by rw [chain, chain]
  | k' :: ks, k, inner => by
    rw [chain, chain]
    simp only
    rw [norm, normFields, normFields, norm_chain ks k' inner]

theorem norm_create {u u' inner : Node} {rem : List Seg} (hu : IsCont u)
    (h : autoCreate u rem inner = .ok u') : create (norm u) rem (norm inner) = .ok (norm u') := by
  unfold autoCreate at h
  unfold create
  split at h
  · rename_i k ks hak
    rw [hak]; simp only
    injection h with h; subst h
    cases u with
    | leaf raw => exact absurd hu (by simp [IsCont])
    | arr xs => simp only [addField]; rw [norm]
    | map fs =>
      simp only [addField]
      rw [norm, norm, normFields_append, normFields, normFields, norm_chain ks k inner]
  · cases h

/-- a parseable leaf whose code is not a container code is a scalar: it decodes to itself -/
theorem parse_leaf_self {c : UInt8} {r : Bytes} {t : Node} (h : parse (c :: r) = .ok t)
    (hm : isMapCode c = false) (ha : isArrayCode c = false) : t = .leaf (c :: r) := by
  have h1 := parse_eq h
  obtain ⟨f', c', r', _, hb, hcases⟩ := parseNodeG_inv h1
  injection hb with hc hr; subst hc hr
  rcases hcases with ⟨hm', _⟩ | ⟨_, ha', _⟩ | ⟨_, _, n, p, _, hsp, ht⟩
  · rw [hm] at hm'; cases hm'
  · rw [ha] at ha'; cases ha'
  · obtain ⟨hb, _⟩ := splitN_ok hsp
    rw [ht, hb]; simp

theorem normLeaf_of_parse {v : Bytes} {d : Node} (h : parse v = .ok d) : norm (.leaf v) = d := by
  rw [norm, normLeaf, h]

theorem numeric_not_container {c : UInt8} (h : classOf c ≠ .none) : isMapCode c = false ∧ isArrayCode c = false := by
  have hlt : c.toNat < 256 := UInt8.toNat_lt c
  constructor
  · cases hm : isMapCode c with
    | false => rfl
    | true =>
      exfalso; apply h
      rcases isMapCode_cases hm with ⟨h1, h2, _⟩ | ⟨h1, _⟩ | ⟨h1, _⟩ <;>
      · unfold classOf; simp only
        rw [if_neg (by omega), if_neg (by omega), if_neg (by omega), if_neg (by omega), if_neg (by omega)]
  · cases ha : isArrayCode c with
    | false => rfl
    | true =>
      exfalso; apply h
      rcases isArrayCode_cases ha with ⟨h1, h2, _⟩ | ⟨h1, _⟩ | ⟨h1, _⟩ <;>
      · unfold classOf; simp only
        rw [if_neg (by omega), if_neg (by omega), if_neg (by omega), if_neg (by omega), if_neg (by omega)]

theorem readNumeric_class {raw : Bytes} {cls : NumClass} {v : Nat} (h : readNumeric raw = .ok (cls, v)) :
    ∃ c r, raw = c :: r ∧ classOf c = cls := by
  cases raw with
  | nil => simp [readNumeric] at h
  | cons c r =>
    refine ⟨c, r, rfl, ?_⟩
    rw [readNumeric] at h
    cases hc : classOf c <;> rw [hc] at h <;> simp only at h
    · simp only [Except.ok.injEq, Prod.mk.injEq] at h; exact h.1
    · split at h
      · simp only [Except.ok.injEq, Prod.mk.injEq] at h; exact h.1
      · split at h
        · cases h
        · simp only [Except.ok.injEq, Prod.mk.injEq] at h; exact h.1
    · split at h
      · simp only [Except.ok.injEq, Prod.mk.injEq] at h; exact h.1
      · split at h
        · cases h
        · simp only [Except.ok.injEq, Prod.mk.injEq] at h; exact h.1
    · split at h
      · split at h
        · cases h
        · simp only [Except.ok.injEq, Prod.mk.injEq] at h; exact h.1
      · split at h
        · cases h
        · simp only [Except.ok.injEq, Prod.mk.injEq] at h; exact h.1

/-- a well-formed numeric leaf decodes to itself -/
theorem norm_numeric_leaf {raw : Bytes} {cls : NumClass} {v : Nat} (hr : readNumeric raw = .ok (cls, v))
    (hc : cls ≠ .none) (hw : ∃ t, parse raw = .ok t) : norm (.leaf raw) = .leaf raw := by
  obtain ⟨c, r, rfl, hcls⟩ := readNumeric_class hr
  obtain ⟨t, ht⟩ := hw
  have := numeric_not_container (c := c) (by rw [hcls]; exact hc)
  rw [normLeaf_of_parse ht, parse_leaf_self ht this.1 this.2]

/-! ### handlers: model on `u` = Spec on `norm u` -/

/-- `[]` is only ever reported on an array -/
def Fits : Node → Hit → Prop
  | .arr _, .appendSlot => True
  | _, .appendSlot => False
  | _, _ => True

def Sim (N : Nat) (h s : Node → Hit → Except Err Node) : Prop :=
  ∀ u hit u', IsCont u → Fits u hit → WfB N u → h u hit = .ok u' → s (norm u) hit = .ok (norm u')

theorem sim_set {N : Nat} {v : Bytes} {d : Node} (hd : parse v = .ok d) : Sim N (hSet v) (sSet d) := by
  intro u hit u' hu hfit _ h
  cases hit with
  | target i =>
    rw [hSet] at h; injection h with h; subst h
    rw [sSet, norm_setChild hu, normLeaf_of_parse hd]
  | appendSlot => rw [hSet] at h; cases h
  | missing rem =>
    rw [hSet] at h; rw [sSet]
    have := norm_create hu h
    rwa [normLeaf_of_parse hd] at this

theorem sim_delete {N : Nat} : Sim N hDelete sDelete := by
  intro u hit u' hu hfit _ h
  cases hit with
  | target i => rw [hDelete] at h; injection h with h; subst h; rw [sDelete, norm_eraseChild hu]
  | appendSlot => simp [hDelete] at h; subst h; simp [sDelete]
  | missing rem => simp [hDelete] at h; subst h; simp [sDelete]

theorem sim_removeAt {N : Nat} : Sim N hRemoveAt sRemoveAt := by
  intro u hit u' hu hfit _ h
  cases hit with
  | target i => rw [hRemoveAt] at h; injection h with h; subst h; rw [sRemoveAt, norm_eraseChild hu]
  | appendSlot => simp [hRemoveAt] at h
  | missing rem => simp [hRemoveAt] at h

theorem sim_inc {N : Nat} {v : Bytes} {d : Node} (hd : parse v = .ok d) (dcls : NumClass) (dv : Nat)
    (hdc : dcls ≠ .none) : Sim N (hInc v dcls dv) (sInc d dcls dv) := by
  intro u hit u' hu _ hw h
  cases hit with
  | target i =>
    rw [hInc] at h
    rw [sInc]
    split at h
    · rename_i raw hg
      have hleaf := WfB_getChild hw hg
      rw [WfB] at hleaf
      split at h
      · cases h
      · rename_i tcls tv hrn
        split at h
        · cases h
        · rename_i hcls
          have hcls' : tcls = dcls := by
            by_cases hh : tcls = dcls
            · exact hh
            · exact absurd hh (by simpa using hcls)
          split at h
          · cases h
          · rename_i nr hci
            injection h with h; subst h
            have hn : norm (.leaf raw) = .leaf raw := norm_numeric_leaf hrn (by rw [hcls']; exact hdc) hleaf
            have hg' := norm_getChild hu hg
            rw [hn] at hg'
            rw [hg']; simp only
            rw [hrn]; simp only
            rw [if_neg (by simpa using hcls), hci]; simp only
            rw [norm_setChild hu, normLeaf_of_parse (computeInc_wf hci)]
    · cases h
  | appendSlot => rw [hInc] at h; cases h
  | missing rem =>
    rw [hInc] at h; rw [sInc]
    have := norm_create hu h
    rwa [normLeaf_of_parse hd] at this

theorem sim_append {N : Nat} {v : Bytes} {d : Node} (hd : parse v = .ok d) (pre : Bool) :
    Sim N (hAppend v pre) (sAppend d pre) := by
  intro u hit u' hu hfit _ h
  cases hit with
  | target i => rw [hAppend] at h; cases h
  | appendSlot =>
    rw [hAppend] at h; injection h with h; subst h
    cases u with
    | leaf raw => exact absurd hu (by simp [IsCont])
    | map fs => exact absurd hfit (by simp [Fits])
    | arr xs =>
      rw [norm]; simp only [insertItem, sAppend]
      cases pre with
      | true =>
        simp only [if_true]
        rw [norm, normItems, normLeaf_of_parse hd]
      | false =>
        simp only [Bool.false_eq_true, if_false]
        rw [norm, normItems_append, normItems, normItems, normLeaf_of_parse hd]
  | missing rem =>
    rw [hAppend] at h; rw [sAppend]
    split at h
    · rename_i hlast
      rw [hlast]; simp only
      have := norm_create hu h
      rwa [norm, normItems, normItems, normLeaf_of_parse hd] at this
    · cases h

/-! ### REMOVE_VAL (scalar values) -/

/-- the value is not a map / array encoding -/
def ScalarVal (v : Bytes) : Prop := ∀ c r, v = c :: r → isMapCode c = false ∧ isArrayCode c = false

theorem parse_ok_leaf_eq {b raw' : Bytes} (h : parse b = .ok (.leaf raw')) : raw' = b := by
  have h1 := parse_eq h
  obtain ⟨f', c, r, _, hb, hcases⟩ := parseNodeG_inv h1
  subst hb
  rcases hcases with ⟨_, _, _, _, _, _, _, ht⟩ | ⟨_, _, _, _, _, _, _, _, ht⟩ | ⟨_, _, n, p, _, hsp, ht⟩
  · cases ht
  · cases ht
  · obtain ⟨hb, _⟩ := splitN_ok hsp
    injection ht with ht
    rw [ht, hb]; simp

theorem encMapLen_head (n : Nat) : ∃ c r, encMapLen n = c :: r ∧ isMapCode c = true := by
  unfold encMapLen
  split
  · rename_i h
    refine ⟨_, [], rfl, ?_⟩
    unfold isMapCode; rw [u8_ofNat_toNat (by omega)]; simp; omega
  · split
    · exact ⟨0xde, _, rfl, by decide⟩
    · exact ⟨0xdf, _, rfl, by decide⟩

theorem encArrLen_head (n : Nat) : ∃ c r, encArrLen n = c :: r ∧ isArrayCode c = true := by
  unfold encArrLen
  split
  · rename_i h
    refine ⟨_, [], rfl, ?_⟩
    unfold isArrayCode; rw [u8_ofNat_toNat (by omega)]; simp; omega
  · split
    · exact ⟨0xdc, _, rfl, by decide⟩
    · exact ⟨0xdd, _, rfl, by decide⟩

/-- a container never serialises to a scalar value's bytes -/
theorem scalar_ne_container {v : Bytes} (hv : ScalarVal v) :
    (∀ fs, serialize (.map fs) ≠ v) ∧ (∀ xs, serialize (.arr xs) ≠ v) := by
  constructor
  · intro fs h
    rw [serialize] at h
    obtain ⟨c, r, hc, hm⟩ := encMapLen_head fs.length
    rw [hc] at h
    have := (hv c (r ++ serFields fs) (by rw [← h]; rfl)).1
    rw [hm] at this; cases this
  · intro xs h
    rw [serialize] at h
    obtain ⟨c, r, hc, hm⟩ := encArrLen_head xs.length
    rw [hc] at h
    have := (hv c (r ++ serItems xs) (by rw [← h]; rfl)).2
    rw [hm] at this; cases this

theorem canonVal_scalar {v : Bytes} (hv : ScalarVal v) : canonVal v = v := by
  unfold canonVal decode
  cases hp : parse v with
  | error e => rfl
  | ok d =>
    simp only
    cases v with
    | nil => exact absurd (parse_nonempty hp) (by simp)
    | cons c r =>
      have hs := hv c r rfl
      rw [parse_leaf_self hp hs.1 hs.2, serialize]

/-- the unrepaired rule on scalar values is the Spec's rule -/
theorem removeFirst_norm {N : Nat} {v : Bytes} (hv : ScalarVal v) : ∀ (xs : List Node), WfBI N xs →
    normItems (removeFirst v xs) = dropFirst v (normItems xs)
  | [], _ => by simp [removeFirst, normItems, dropFirst]
  | x :: rest, hw => by
    rw [WfBI] at hw
    have ih := removeFirst_norm hv rest hw.2
    have hne := scalar_ne_container hv
    cases x with
    | leaf raw =>
      have hx := hw.1
      rw [WfB] at hx
      obtain ⟨d, hd⟩ := hx
      simp only [removeFirst]
      rw [normItems, normLeaf_of_parse hd, dropFirst]
      by_cases heq : raw = v
      · rw [if_pos heq]
        subst heq
        cases raw with
        | nil => exact absurd (parse_nonempty hd) (by simp)
        | cons c r =>
          have hs := hv c r rfl
          rw [parse_leaf_self hd hs.1 hs.2, serialize, if_pos rfl]
      · rw [if_neg heq, normItems, normLeaf_of_parse hd, ih]
        cases d with
        | leaf raw' =>
          have := parse_ok_leaf_eq hd
          subst this
          rw [serialize, if_neg heq]
        | map fs => rw [if_neg (hne.1 fs)]
        | arr ys => rw [if_neg (hne.2 ys)]
    | map fs =>
      simp only [removeFirst]
      rw [normItems, normItems, norm, ih, dropFirst, if_neg (hne.1 _)]
    | arr ys =>
      simp only [removeFirst]
      rw [normItems, normItems, norm, ih, dropFirst, if_neg (hne.2 _)]

/-- the canonical encoding of an element is the encoding of the decoded element -/
theorem canon_serialize {x : Node} (hw : WfTree x) : canon (serialize x) = serialize (norm x) := by
  have hp := serialize_parse hw
  have hpos := serialize_pos x hw
  cases hb : serialize x with
  | nil => rw [hb] at hpos; simp at hpos
  | cons c r =>
    rw [hb] at hp
    unfold canon
    simp only
    by_cases hc : (isMapCode c || isArrayCode c) = true
    · rw [if_pos hc, hp]
    · rw [if_neg hc]
      have hc' : isMapCode c = false ∧ isArrayCode c = false := by
        cases h1 : isMapCode c <;> cases h2 : isArrayCode c <;> simp_all
      rw [parse_leaf_self hp hc'.1 hc'.2, serialize]

theorem canon_eq_canonVal (v : Bytes) : canon v = canonVal v := by
  unfold canon canonVal decode
  cases v with
  | nil => rfl
  | cons c r =>
    simp only
    by_cases hc : (isMapCode c || isArrayCode c) = true
    · rw [if_pos hc]
      cases parse (c :: r) <;> rfl
    · rw [if_neg hc]
      have hc' : isMapCode c = false ∧ isArrayCode c = false := by
        cases h1 : isMapCode c <;> cases h2 : isArrayCode c <;> simp_all
      cases hp : parse (c :: r) with
      | error e => rfl
      | ok d => simp only; rw [parse_leaf_self hp hc'.1 hc'.2, serialize]

/-- the repaired rule is the Spec's rule, for every value -/
theorem removeFirstC_norm {N : Nat} (hN : N < 2 ^ 32) (w : Bytes) : ∀ (xs : List Node), WfBI N xs →
    normItems (removeFirstC w xs) = dropFirst w (normItems xs)
  | [], _ => by simp [removeFirstC, normItems, dropFirst]
  | x :: rest, hw => by
    rw [WfBI] at hw
    have ih := removeFirstC_norm hN w rest hw.2
    rw [removeFirstC, normItems, dropFirst, canon_serialize (WfB_wf hN x hw.1)]
    split
    · rfl
    · rw [normItems, ih]

theorem sim_removeVal {N : Nat} {v : Bytes} {rm : List Node → List Node}
    (hrm : ∀ xs, WfBI N xs → normItems (rm xs) = dropFirst (canonVal v) (normItems xs)) :
    Sim N (hRemoveVal rm) (sRemoveVal v) := by
  intro u hit u' hu _ hw h
  cases hit with
  | target i =>
    rw [hRemoveVal] at h
    rw [sRemoveVal]
    split at h
    · rename_i xs hg
      injection h with h; subst h
      have hc := WfB_getChild hw hg
      rw [WfB] at hc
      have hg' := norm_getChild hu hg
      rw [norm] at hg'
      rw [hg']; simp only
      rw [norm_setChild hu, norm, hrm xs hc.2]
    · cases h
  | appendSlot => simp [hRemoveVal] at h; subst h; simp [sRemoveVal]
  | missing rem => simp [hRemoveVal] at h; subst h; simp [sRemoveVal]

/-- `rmVal` against the Spec: always for the repaired rule, on scalar values for the old one -/
theorem rmVal_norm {N : Nat} (hN : N < 2 ^ 32) (c : Bool) (v : Bytes) (hv : c = false → ScalarVal v) :
    ∀ xs, WfBI N xs → normItems (rmVal c v xs) = dropFirst (canonVal v) (normItems xs) := by
  intro xs hw
  unfold rmVal
  cases c with
  | true => simp only [if_true]; rw [canon_eq_canonVal]; exact removeFirstC_norm hN _ xs hw
  | false =>
    simp only [Bool.false_eq_true, if_false]
    rw [canonVal_scalar (hv rfl)]; exact removeFirst_norm (hv rfl) xs hw

/-! ### MERGE -/

/-- the decoded fields of a MERGE value -/
def pfNorm : List (Bytes × Bytes) → Fields
  | [] => []
  | (k, raw) :: rest => (k, norm (.leaf raw)) :: pfNorm rest

theorem mergeInto_norm : ∀ (pf : List (Bytes × Bytes)) (fs : Fields),
    normFields (mergeInto fs pf) = mergeFields (normFields fs) (pfNorm pf)
  | [], fs => by rw [mergeInto, pfNorm, mergeFields]
  | (k, raw) :: rest, fs => by
    rw [mergeInto, pfNorm, mergeFields, keyIndex_eq, findField_norm]
    cases findField fs k with
    | none =>
      simp only
      rw [mergeInto_norm rest, normFields_append, normFields, normFields]
    | some i =>
      simp only
      rw [mergeInto_norm rest, normFields_set]

theorem sim_merge {N : Nat} (pf : List (Bytes × Bytes)) : Sim N (hMerge pf) (sMerge (pfNorm pf)) := by
  intro u hit u' hu _ _ h
  cases hit with
  | target i =>
    rw [hMerge] at h
    rw [sMerge]
    split at h
    · rename_i fs hg
      injection h with h; subst h
      have hg' := norm_getChild hu hg
      rw [norm] at hg'
      rw [hg']; simp only
      rw [norm_setChild hu, norm, mergeInto_norm]
    · cases h
  | appendSlot => rw [hMerge] at h; cases h
  | missing rem =>
    rw [hMerge] at h; rw [sMerge]
    have := norm_create hu h
    rwa [norm, mergeInto_norm, normFields] at this

/-! ### navigation: `walk` on `t` = resolve-and-edit on `norm t` -/

theorem walk_refines {N : Nat} {h s : Node → Hit → Except Err Node} (hs : Sim N h s) :
    ∀ (segs : List Seg) (t t' : Node), WfB N t → walk h segs t = .ok t' →
      at_ segs (norm t) s = .ok (norm t')
  | [], t, t', _, hw => by rw [walk] at hw; cases hw
  | seg :: rest, t, t', ht, hw => by
    cases seg with
    | field k =>
      cases t with
      | leaf raw => simp [walk] at hw
      | arr xs => simp [walk] at hw
      | map fs =>
        rw [walk] at hw
        rw [norm]; unfold at_; rw [resolve, keyIndex_eq, findField_norm]
        cases hf : findField fs k with
        | none =>
          rw [hf] at hw; simp only at hw ⊢
          rw [editAt]
          have := hs _ _ _ (by simp [IsCont]) (by simp [Fits]) ht hw
          rwa [norm] at this
        | some i =>
          rw [hf] at hw; simp only at hw ⊢
          by_cases hr : rest.isEmpty = true
          · rw [if_pos hr] at hw ⊢
            simp only; rw [editAt]
            have := hs _ _ _ (by simp [IsCont]) (by simp [Fits]) ht hw
            rwa [norm] at this
          · rw [if_neg hr] at hw ⊢
            cases hg : fs[i]? with
            | none => rw [hg] at hw; cases hw
            | some kc =>
              obtain ⟨k', c⟩ := kc
              rw [hg] at hw; simp only at hw
              cases hwc : walk h rest c with
              | error e => rw [hwc] at hw; cases hw
              | ok c' =>
                rw [hwc] at hw; simp only at hw
                injection hw with hw; subst hw
                rw [WfB] at ht
                have hc := (WfBF_get fs i k' c ht.2 hg).2
                have ih := walk_refines hs rest c c' hc hwc
                unfold at_ at ih
                rw [normFields_get fs i k' c hg]; simp only
                cases hres : resolve rest (norm c) with
                | error e => rw [hres] at ih; cases ih
                | ok ph =>
                  obtain ⟨p, hit⟩ := ph
                  rw [hres] at ih; simp only at ih ⊢
                  rw [editAt]
                  have hgc : getChild (Node.map (normFields fs)) i = some (norm c) := by
                    simp [getChild, normFields_get fs i k' c hg]
                  rw [hgc]; simp only
                  rw [ih]; simp only
                  rw [norm, normFields_set]
                  simp [setChild, normFields_get fs i k' c hg]
    | index n =>
      cases t with
      | leaf raw => simp [walk] at hw
      | map fs => simp [walk] at hw
      | arr xs =>
        rw [walk] at hw
        rw [norm]; unfold at_; rw [resolve, index_eq, normItems_length]
        cases hri : resolveIndex n xs.length with
        | error e => rw [hri] at hw; cases hw
        | ok i =>
          rw [hri] at hw; simp only at hw ⊢
          by_cases hr : rest.isEmpty = true
          · rw [if_pos hr] at hw ⊢
            simp only; rw [editAt]
            have := hs _ _ _ (by simp [IsCont]) (by simp [Fits]) ht hw
            rwa [norm] at this
          · rw [if_neg hr] at hw ⊢
            cases hg : xs[i]? with
            | none => rw [hg] at hw; cases hw
            | some c =>
              rw [hg] at hw; simp only at hw
              cases hwc : walk h rest c with
              | error e => rw [hwc] at hw; cases hw
              | ok c' =>
                rw [hwc] at hw; simp only at hw
                injection hw with hw; subst hw
                rw [WfB] at ht
                have hc := WfBI_get xs i c ht.2 hg
                have ih := walk_refines hs rest c c' hc hwc
                unfold at_ at ih
                rw [normItems_get xs i c hg]; simp only
                cases hres : resolve rest (norm c) with
                | error e => rw [hres] at ih; cases ih
                | ok ph =>
                  obtain ⟨p, hit⟩ := ph
                  rw [hres] at ih; simp only at ih ⊢
                  rw [editAt]
                  have hgc : getChild (Node.arr (normItems xs)) i = some (norm c) := by
                    simp [getChild, normItems_get xs i c hg]
                  rw [hgc]; simp only
                  rw [ih]; simp only
                  rw [norm, normItems_set]
                  simp [setChild]
    | append =>
      cases t with
      | leaf raw => simp [walk] at hw; split at hw <;> cases hw
      | map fs => simp [walk] at hw; split at hw <;> cases hw
      | arr xs =>
        rw [walk] at hw
        rw [norm]; unfold at_; rw [resolve]
        by_cases hr : (!rest.isEmpty) = true
        · rw [if_pos hr] at hw; cases hw
        · rw [if_neg hr] at hw ⊢
          simp only; rw [editAt]
          have := hs _ _ _ (by simp [IsCont]) (by simp [Fits]) ht hw
          rwa [norm] at this

end Hv.Patch
