/-
  C13 model, part 1 — MessagePack wire level, as `msgpackpatch` sees it through
  vmihailenco/msgpack v5.4.1 (`Decoder.Skip`, `DecodeMapLen`, `DecodeArrayLen`,
  `DecodeString`, `Encoder.EncodeMapLen/ArrayLen/String`).

  Everything is executable, core-only and over `List UInt8`.  Recursion is structural on a fuel
  argument (callers pass the input length): every step consumes at least the code byte, so the
  fuel never runs out before the input does — termination of the real decoder on every byte
  string is therefore part of what the model states.

  Error classes are the sentinels of the Go package (`errors.Is` order of `classifyPatchError`).
-/
import Hv.Basic.Verdict

namespace Hv.Patch

abbrev Bytes := List UInt8

/-- `ErrConditionNotMet | ErrTypeMismatch | ErrPathInvalid | ErrInvalidOp | ErrInvalidMsgpack |
    ErrNonStringKey` -/
inductive Err where
  | cond | type | path | op | msgpack | nonstr
  deriving DecidableEq, Repr

instance : ToString Err := ⟨fun
  | .cond => "cond" | .type => "type" | .path => "path" | .op => "op"
  | .msgpack => "msgpack" | .nonstr => "nonstr"⟩

/-- core has no `DecidableEq (Except ε α)`; closed witnesses are compared with `decide` -/
instance instDecEqExcept {ε α : Type} [DecidableEq ε] [DecidableEq α] : DecidableEq (Except ε α) :=
  fun x y =>
    match x, y with
    | .ok a, .ok b =>
      if h : a = b then isTrue (by rw [h]) else isFalse (fun h' => h (Except.ok.inj h'))
    | .error a, .error b =>
      if h : a = b then isTrue (by rw [h]) else isFalse (fun h' => h (Except.error.inj h'))
    | .ok _, .error _ => isFalse (fun h => by cases h)
    | .error _, .ok _ => isFalse (fun h => by cases h)

/-! ### big-endian fields -/

def beNat : Bytes → Nat
  | [] => 0
  | x :: xs => x.toNat * 256 ^ xs.length + beNat xs

/-- the `k` low-order bytes of `n`, most significant first (Go: `write1/2/4/8` after the
    `uintK(n)` conversion — i.e. truncation modulo `256^k`) -/
def beBytes : Nat → Nat → Bytes
  | 0, _ => []
  | k + 1, n => UInt8.ofNat (n / 256 ^ k % 256) :: beBytes k n

/-- `readN(n)`: the next `n` bytes, or unexpected EOF -/
def splitN (n : Nat) (b : Bytes) : Except Err (Bytes × Bytes) :=
  if n ≤ b.length then .ok (b.take n, b.drop n) else .error .msgpack

/-- `d.uint8/16/32()` -/
def readBE (k : Nat) (b : Bytes) : Except Err (Nat × Bytes) :=
  match splitN k b with
  | .error e => .error e
  | .ok (h, r) => .ok (beNat h, r)

/-! ### format codes -/

/-- What follows a code byte.
    `fixed n`: exactly `n` payload bytes.  `lenp k e`: a `k`-byte big-endian length `m`, then
    `m + e` bytes (`e = 1` for ext: the type byte).  Containers carry their element count
    either in the code (`mapFix/arrFix`) or in a `k`-byte field.  `invalid` is 0xc1. -/
inductive Shape where
  | fixed (n : Nat)
  | lenp (k e : Nat)
  | mapFix (n : Nat) | mapLen (k : Nat)
  | arrFix (n : Nat) | arrLen (k : Nat)
  | invalid
  deriving DecidableEq, Repr

def shapeN (n : Nat) : Shape :=
  if n ≤ 0x7f then .fixed 0                 -- positive fixint
  else if n ≤ 0x8f then .mapFix (n - 0x80)  -- fixmap
  else if n ≤ 0x9f then .arrFix (n - 0x90)  -- fixarray
  else if n ≤ 0xbf then .fixed (n - 0xa0)   -- fixstr
  else if n = 0xc0 then .fixed 0            -- nil
  else if n = 0xc1 then .invalid            -- never used
  else if n ≤ 0xc3 then .fixed 0            -- false, true
  else if n = 0xc4 then .lenp 1 0           -- bin8
  else if n = 0xc5 then .lenp 2 0           -- bin16
  else if n = 0xc6 then .lenp 4 0           -- bin32
  else if n = 0xc7 then .lenp 1 1           -- ext8
  else if n = 0xc8 then .lenp 2 1           -- ext16
  else if n = 0xc9 then .lenp 4 1           -- ext32
  else if n = 0xca then .fixed 4            -- float32
  else if n = 0xcb then .fixed 8            -- float64
  else if n = 0xcc then .fixed 1            -- uint8
  else if n = 0xcd then .fixed 2
  else if n = 0xce then .fixed 4
  else if n = 0xcf then .fixed 8
  else if n = 0xd0 then .fixed 1            -- int8
  else if n = 0xd1 then .fixed 2
  else if n = 0xd2 then .fixed 4
  else if n = 0xd3 then .fixed 8
  else if n = 0xd4 then .fixed 2            -- fixext1: type byte + 1
  else if n = 0xd5 then .fixed 3
  else if n = 0xd6 then .fixed 5
  else if n = 0xd7 then .fixed 9
  else if n = 0xd8 then .fixed 17
  else if n = 0xd9 then .lenp 1 0           -- str8
  else if n = 0xda then .lenp 2 0
  else if n = 0xdb then .lenp 4 0
  else if n = 0xdc then .arrLen 2           -- array16
  else if n = 0xdd then .arrLen 4
  else if n = 0xde then .mapLen 2           -- map16
  else if n = 0xdf then .mapLen 4
  else .fixed 0                             -- negative fixint

def shape (c : UInt8) : Shape := shapeN c.toNat

def isFixStr (c : UInt8) : Bool := decide (0xa0 ≤ c.toNat) && decide (c.toNat ≤ 0xbf)
def isStringCode (c : UInt8) : Bool :=
  isFixStr c || c.toNat == 0xd9 || c.toNat == 0xda || c.toNat == 0xdb
def isMapCode (c : UInt8) : Bool :=
  (decide (0x80 ≤ c.toNat) && decide (c.toNat ≤ 0x8f)) || c.toNat == 0xde || c.toNat == 0xdf
def isArrayCode (c : UInt8) : Bool :=
  (decide (0x90 ≤ c.toNat) && decide (c.toNat ≤ 0x9f)) || c.toNat == 0xdc || c.toNat == 0xdd

/-- number of bytes a *non-container* value occupies after its code byte (`Decoder.Skip` on a
    leaf); containers and 0xc1 are errors here -/
def leafExtent (c : UInt8) (r : Bytes) : Except Err Nat :=
  match shape c with
  | .fixed n => .ok n
  | .lenp k e =>
    match readBE k r with
    | .error er => .error er
    | .ok (m, _) => .ok (k + m + e)
  | _ => .error .msgpack

/-- element count of a container header: `(count, rest)` -/
def countOf (c : UInt8) (r : Bytes) : Except Err (Nat × Bytes) :=
  match shape c with
  | .mapFix n => .ok (n, r)
  | .arrFix n => .ok (n, r)
  | .mapLen k => readBE k r
  | .arrLen k => readBE k r
  | _ => .error .msgpack

/-- `DecodeString` on a string code: `(content, rest)` -/
def strPayload (c : UInt8) (r : Bytes) : Except Err (Bytes × Bytes) :=
  match shape c with
  | .fixed n => splitN n r
  | .lenp k _ =>
    match readBE k r with
    | .error er => .error er
    | .ok (m, r') => splitN m r'
  | _ => .error .msgpack

/-! ### headers as the encoder writes them -/

def encMapLen (n : Nat) : Bytes :=
  if n < 16 then [UInt8.ofNat (0x80 + n)]
  else if n ≤ 65535 then 0xde :: beBytes 2 n
  else 0xdf :: beBytes 4 n

def encArrLen (n : Nat) : Bytes :=
  if n < 16 then [UInt8.ofNat (0x90 + n)]
  else if n ≤ 65535 then 0xdc :: beBytes 2 n
  else 0xdd :: beBytes 4 n

def encStrLen (n : Nat) : Bytes :=
  if n < 32 then [UInt8.ofNat (0xa0 + n)]
  else if n < 256 then 0xd9 :: beBytes 1 n
  else if n ≤ 65535 then 0xda :: beBytes 2 n
  else 0xdb :: beBytes 4 n

def encStr (s : Bytes) : Bytes := encStrLen s.length ++ s

/-- is this header the one the encoder would have chosen? (`strict` parsing) -/
def minimalCount (c : UInt8) (n : Nat) : Bool :=
  match shape c with
  | .mapLen 2 | .arrLen 2 => decide (16 ≤ n)
  | .mapLen _ | .arrLen _ => decide (65536 ≤ n)
  | _ => true

def minimalStr (c : UInt8) (n : Nat) : Bool :=
  match shape c with
  | .lenp 1 _ => decide (32 ≤ n)
  | .lenp 2 _ => decide (256 ≤ n)
  | .lenp _ _ => decide (65536 ≤ n)
  | _ => true

/-! ### `Decoder.Skip` on an arbitrary value (used by MERGE's `extractTopLevelFields`)

    One loop with a counter of values still to skip: a leaf decrements it, an array of `k` adds
    `k`, a map adds `2k` (keys are skipped like values: any type).  Reads happen in the same
    left-to-right order as the recursive Go code, so success/failure coincide. -/
def skipMany : Nat → Nat → Bytes → Except Err Bytes
  | _, 0, b => .ok b
  | 0, _ + 1, _ => .error .msgpack
  | fuel + 1, n + 1, b =>
    match b with
    | [] => .error .msgpack
    | c :: r =>
      match shape c with
      | .invalid => .error .msgpack
      | .fixed k =>
        match splitN k r with
        | .error e => .error e
        | .ok (_, r') => skipMany fuel n r'
      | .lenp k e =>
        match readBE k r with
        | .error er => .error er
        | .ok (m, r') =>
          match splitN (m + e) r' with
          | .error er => .error er
          | .ok (_, r'') => skipMany fuel n r''
      | .mapFix k => skipMany fuel (n + 2 * k) r
      | .arrFix k => skipMany fuel (n + k) r
      | .mapLen k =>
        match readBE k r with
        | .error er => .error er
        | .ok (m, r') => skipMany fuel (n + 2 * m) r'
      | .arrLen k =>
        match readBE k r with
        | .error er => .error er
        | .ok (m, r') => skipMany fuel (n + m) r'

/-- `dec.Skip()` once: the rest after one complete value -/
def skipOne (b : Bytes) : Except Err Bytes := skipMany b.length 1 b

end Hv.Patch
