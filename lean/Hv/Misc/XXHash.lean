/-
  xxhash64 (seed 0) over `UInt64`, as github.com/cespare/xxhash/v2 `Sum64` computes it.
  Executable side only: the driver uses it to predict islands and hashed paths, and every
  correspondence run of C20 differential-tests it against the Go library.  No theorem of C20
  depends on it — they are stated for an arbitrary hash function.  Core-only.
-/
namespace Hv.XXHash

abbrev Bytes := List UInt8

def P1 : UInt64 := 11400714785074694791
def P2 : UInt64 := 14029467366897019727
def P3 : UInt64 := 1609587929392839161
def P4 : UInt64 := 9650029242287828579
def P5 : UInt64 := 2870177450012600261

def rotl (x : UInt64) (r : UInt64) : UInt64 := (x <<< r) ||| (x >>> (64 - r))

def round (acc input : UInt64) : UInt64 := rotl (acc + input * P2) 31 * P1
def mergeRound (acc val : UInt64) : UInt64 := (acc ^^^ round 0 val) * P1 + P4

/-- little-endian value of the first `k` bytes -/
def le : Nat → Bytes → UInt64
  | 0, _ => 0
  | _, [] => 0
  | k + 1, b :: bs => b.toUInt64 ||| (le k bs <<< 8)

structure Acc where
  v1 : UInt64
  v2 : UInt64
  v3 : UInt64
  v4 : UInt64

/-- the 32-byte stripe loop; returns the accumulators and the unconsumed tail -/
def stripes : Nat → Acc → Bytes → Acc × Bytes
  | 0, a, bs => (a, bs)
  | f + 1, a, bs =>
    if bs.length < 32 then (a, bs)
    else
      stripes f ⟨round a.v1 (le 8 bs), round a.v2 (le 8 (bs.drop 8)),
                 round a.v3 (le 8 (bs.drop 16)), round a.v4 (le 8 (bs.drop 24))⟩ (bs.drop 32)

/-- the tail: 8-byte words, one 4-byte word, single bytes -/
def tail : Nat → UInt64 → Bytes → UInt64
  | 0, h, _ => h
  | f + 1, h, bs =>
    if bs.length ≥ 8 then
      tail f (rotl (h ^^^ round 0 (le 8 bs)) 27 * P1 + P4) (bs.drop 8)
    else if bs.length ≥ 4 then
      tail f (rotl (h ^^^ (le 4 bs * P1)) 23 * P2 + P3) (bs.drop 4)
    else match bs with
      | [] => h
      | b :: rest => tail f (rotl (h ^^^ (b.toUInt64 * P5)) 11 * P1) rest

def avalanche (h : UInt64) : UInt64 :=
  let h := (h ^^^ (h >>> 33)) * P2
  let h := (h ^^^ (h >>> 29)) * P3
  h ^^^ (h >>> 32)

def sum64 (bs : Bytes) : UInt64 :=
  let n := bs.length
  let (h, rest) :=
    if n ≥ 32 then
      let (a, rest) := stripes (n / 32 + 1) ⟨P1 + P2, P2, 0, 0 - P1⟩ bs
      let h := rotl a.v1 1 + rotl a.v2 7 + rotl a.v3 12 + rotl a.v4 18
      (mergeRound (mergeRound (mergeRound (mergeRound h a.v1) a.v2) a.v3) a.v4, rest)
    else (P5, bs)
  avalanche (tail (rest.length + 1) (h + n.toUInt64) rest)

end Hv.XXHash
