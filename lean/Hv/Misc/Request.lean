/-
  Model of the request-validation prefix of every gRPC handler of
  app/server/gateway (gateway.go, gateway_patch*.go, gateway_shift_matching.go),
  of `checkSwampName`, of `name.Load` (app/name/name.go) and of the handler-level
  `defer` discipline (`LockSystem`/`UnlockSystem` of app/core/safeops, `handlePanic`).

  A handler is a small *guard program* (`Handler`): the statements that precede the
  first engine call (`SummonSwamp`, the locker, the settings registry …), written in an
  IR whose only panicking constructs are the ones Go really has there:

    * `keys[0]` on a slice of length 0            (`Atom.key0Empty`)
    * `strings.Split(name, "/")[1]`, `[2]` in `name.Load` for a name with < 3 parts
                                                   (`Step.load`, `Step.loadGo`)
    * a panic raised by the engine below the prefix (`Eng.panics`, a parameter)

  Go's panic rules are explicit: a panic unwinds to the handler's deferred calls, which
  run in reverse registration order; `handlePanic` recovers but cannot assign the handler's
  unnamed results, so the caller sees `(nil, nil)` (`Outcome.nilNil`); without a recover the
  panic leaves the handler (`Outcome.panicEscapes`); a panic in a goroutine started by the
  handler cannot be recovered by the handler at all (`R.crash`).

  A request is abstracted to the features the prefixes inspect (`Entry`, `Shape`).  The
  programs themselves are *code facts*: `/verif/extract/c26.go` produces them from the
  AST of every method of `Gateway` and passes them as strings (`parseHandler`), so the
  model is parametrised by whatever the code currently does.

  Executable and core-only: the compiled driver links this file.
-/
import Hv.Basic.Verdict

namespace Hv.Request

/-! ### Requests -/

inductive Code where
  | invalidArgument | failedPrecondition | notFound | internal | unavailable | deadlineExceeded | other
  deriving DecidableEq, Repr, Inhabited

/-- the key list of an entry -/
inductive Keys where
  | nil          -- field absent (what an empty repeated field decodes to)
  | empty        -- non-nil slice of length 0 (in-process callers only)
  | firstEmpty   -- `keys[0] == ""`
  | ok
  deriving DecidableEq, Repr, Inhabited

inductive CapC where
  | absent | badMax | noFilter | badBody | ok
  deriving DecidableEq, Repr, Inhabited

/-- what the engine does once the prefix lets an entry through (a parameter, like the
    libraries of C24): it answers, answers with an error, or panics -/
inductive Eng where
  | ok | err (c : Code) | panics
  deriving DecidableEq, Repr, Inhabited

/-- Features of one swamp entry / sub-request (for single-swamp RPCs: of the request). -/
structure Entry where
  nameEmpty    : Bool := false
  nameParts    : Nat  := 3       -- `len(strings.Split(name, "/"))`
  emptyPart    : Bool := false   -- some part is ""
  nameLong     : Bool := false   -- the name is longer than 65535 bytes (the V2 file header cannot carry it)
  exist        : Bool := true    -- `IsExistSwamp`
  keys         : Keys := .ok
  kvNil        : Bool := false
  keyBad       : Bool := false   -- some treasure key of the entry is empty or longer than 65535 bytes
  fromNeg      : Bool := false   -- the paging offset `From` is negative
  incZero      : Bool := false
  opsEmpty     : Bool := false
  metaNil      : Bool := false
  patchesEmpty : Bool := false
  cap          : CapC := .absent
  lockKeyEmpty : Bool := false
  lockIdEmpty  : Bool := false
  lockHeld     : Bool := false   -- the business-lock key of a `Lock` request is held by another caller (the request has to wait)
  telemetryOff : Bool := true
  engine       : Eng  := .ok
  deriving DecidableEq, Repr, Inhabited

/-- `top` carries the features of a single-swamp request; `entries` the per-swamp entries
    of a multi-swamp request (`Swamps`, `Requests`, `Queries`, `Targets`). -/
structure Shape where
  top     : Entry := {}
  entries : List Entry := []
  deriving Repr, Inhabited

/-! ### Guard programs -/

inductive Atom where
  | nameEmpty | nameInvalid | nameLong | notExist | notExistChk
  | keysNil | keysLen0 | keysEmptyNN | key0Empty
  | kvNil | keyInvalid | fromNeg | incZero | opsEmpty | metaNil | patchesEmpty | capErr | bodyCapErr
  | lockKeyEmpty | lockIdEmpty | lockHeld | telemetryOff
  deriving DecidableEq, Repr, Inhabited

inductive Cond where
  | atom (a : Atom)
  | not (c : Cond)
  | or (l r : Cond)      -- Go `||`: `r` is evaluated only when `l` is false
  | and (l r : Cond)     -- Go `&&`: `r` is evaluated only when `l` is true
  deriving Repr, Inhabited

inductive Act where
  | reject (c : Code) (msg : String)   -- `return nil, status.Error(codes.c, msg)`
  | early                              -- a well-formed response / per-entry result without the engine
  deriving Repr, Inhabited

/-- the `checkExist` argument of `checkSwampName` -/
inductive ExistP where | yes | no | ifSingle
  deriving DecidableEq, Repr, Inhabited

/-- what the caller does with an error of `checkSwampName` -/
inductive FailMode where
  | propagate                 -- `return nil, err`
  | fpEarly                   -- FailedPrecondition ↦ empty response, else propagate
  | nfEarly                   -- NotFound ↦ per-entry result, else propagate (Count)
  | allEarly                  -- any error ↦ per-entry result (Delete, the …Many handlers)
  | wrap (c : Code)           -- `status.Error(codes.c, err.Error())`
  deriving Repr, Inhabited

inductive Step where
  | guard (c : Cond) (a : Act)
  | load                       -- `name.Load(name)` in the handler's goroutine
  | loadGo                     -- `name.Load(name)` in a goroutine the handler started (no recover there)
  | checkName (ex : ExistP) (m : FailMode)
  | need (a : Atom) (tag : String)   -- the engine below misbehaves when `a` is true here (an *engine fact*, see extract/c26.go):
                                     -- it panics on a negative offset, creates the swamp a reader names, loses a key it cannot store
  | body                       -- first engine call for this entry
  | unknown                    -- a statement the extractor did not recognise
  deriving Repr, Inhabited

/-- handler-level statements that precede the prefix, in source order -/
inductive Dfr where
  | lock          -- `LockSystem()`
  | deferUnlock   -- `defer UnlockSystem()`
  | deferRecover  -- `defer handlePanic()`
  | unlockAtEnd   -- `UnlockSystem()` as a plain statement before the final return
  deriving DecidableEq, Repr, Inhabited

structure Handler where
  name          : String
  stream        : Bool := false
  multi         : Bool := false      -- iterates over `Shape.entries`
  writes        : Bool := false      -- the engine part mutates the store
  vigilDeferred : Bool := true       -- every `BeginVigil()` is paired with `defer CeaseVigil()`
  okNil         : Bool := false      -- a success path returns a nil response of a message type that has fields
  recognised    : Bool := true
  mayStop       : Bool := false      -- (streams) the entry loop may end with success before the last entry (MaxResults)
  defers        : List Dfr := []
  val           : List Step := []    -- first loop (validation of every entry before any engine call)
  main          : List Step := []    -- second loop over the entries that passed `val`
  deriving Repr, Inhabited

structure Cfg where
  loadChecksLen : Bool               -- `name.Load` checks the part count before indexing
  checkName     : List Step          -- body of `checkSwampName`
  handlers      : List Handler
  deriving Repr, Inhabited

/-! ### Semantics -/

structure Ctx where
  single     : Bool    -- `len(entries) == 1`
  checkExist : Bool    -- the `checkExist` parameter while inside `checkSwampName`
  deriving Repr

def Entry.nameInvalid (e : Entry) : Bool := e.nameParts != 3 || e.emptyPart

/-- value of an atomic test; `none` = the evaluation panics -/
def atomEval (cx : Ctx) (e : Entry) : Atom → Option Bool
  | .nameEmpty    => some e.nameEmpty
  | .nameInvalid  => some e.nameInvalid
  | .nameLong     => some e.nameLong
  | .notExist     => some (!e.exist)
  | .notExistChk  => some (cx.checkExist && !e.exist)
  | .keysNil      => some (e.keys == .nil)
  | .keysLen0     => some (e.keys == .nil || e.keys == .empty)
  | .keysEmptyNN  => some (e.keys == .empty)
  | .key0Empty    => match e.keys with
                     | .nil | .empty => none       -- index out of range [0] with length 0
                     | .firstEmpty => some true
                     | .ok => some false
  | .kvNil        => some e.kvNil
  | .keyInvalid   => some e.keyBad
  | .fromNeg      => some e.fromNeg
  | .incZero      => some e.incZero
  | .opsEmpty     => some e.opsEmpty
  | .metaNil      => some e.metaNil
  | .patchesEmpty => some e.patchesEmpty
  | .capErr       => some (e.cap == .badMax || e.cap == .noFilter)
  | .bodyCapErr   => some (e.cap == .badMax || e.cap == .noFilter || e.cap == .badBody)
  | .lockKeyEmpty => some e.lockKeyEmpty
  | .lockIdEmpty  => some e.lockIdEmpty
  | .lockHeld     => some e.lockHeld
  | .telemetryOff => some e.telemetryOff

def condEval (cx : Ctx) (e : Entry) : Cond → Option Bool
  | .atom a => atomEval cx e a
  | .not c => (condEval cx e c).map (!·)
  | .or l r => match condEval cx e l with
    | none => none
    | some true => some true
    | some false => condEval cx e r
  | .and l r => match condEval cx e l with
    | none => none
    | some false => some false
    | some true => condEval cx e r

/-- result of running steps on one entry -/
inductive R where
  | next                   -- fell through
  | early                  -- finished this entry with a well-formed result
  | reject (c : Code) (msg : String)
  | panic                  -- panic in the handler's goroutine
  | crash                  -- panic in a goroutine without recover: the process dies
  | hazard (tag : String)  -- the engine is entered with an input it is known to mishandle
  deriving DecidableEq, Repr, Inhabited

/-- `name.Load`: `splitPath[1]`, `splitPath[2]` without a length check -/
def loadPanics (cfg : Cfg) (e : Entry) : Bool := !cfg.loadChecksLen && e.nameParts < 3

def resolveExist (cx : Ctx) : ExistP → Bool
  | .yes => true | .no => false | .ifSingle => cx.single

def applyFail (m : FailMode) (c : Code) (msg : String) : R :=
  match m with
  | .propagate => .reject c msg
  | .fpEarly => if c = .failedPrecondition then .early else .reject c msg
  | .nfEarly => if c = .notFound then .early else .reject c msg
  | .allEarly => .early
  | .wrap c' => .reject c' "~"   -- the message is the inner error's text (`err.Error()`), not a literal

/-- one step outside `checkSwampName`; the Bool says "the engine was entered" -/
def stepBasic (cfg : Cfg) (cx : Ctx) (e : Entry) : Step → R × Bool
  | .guard c a => match condEval cx e c with
    | none => (.panic, false)
    | some false => (.next, false)
    | some true => match a with
      | .reject code msg => (.reject code msg, false)
      | .early => (.early, false)
  | .load => (if loadPanics cfg e then .panic else .next, false)
  | .loadGo => (if loadPanics cfg e then .crash else .next, false)
  | .checkName _ _ => (.next, false)     -- not nested (the extractor never emits it there)
  | .need a tag => match atomEval cx e a with
    | none => (.panic, false)
    | some false => (.next, false)
    | some true => (.hazard tag, false)
  | .body => match e.engine with
    | .ok => (.next, true)
    | .err c => (.reject c "engine", true)
    | .panics => (.panic, true)
  | .unknown => (.next, false)

def runBasic (cfg : Cfg) (cx : Ctx) (e : Entry) : List Step → R × Bool
  | [] => (.next, false)
  | s :: ss => match stepBasic cfg cx e s with
    | (.next, b) => let (r, b') := runBasic cfg cx e ss; (r, b || b')
    | other => other

def stepE (cfg : Cfg) (cx : Ctx) (e : Entry) : Step → R × Bool
  | .checkName ex m =>
    match runBasic cfg { cx with checkExist := resolveExist cx ex } e cfg.checkName with
    | (.reject c msg, b) => (applyFail m c msg, b)
    | other => other
  | s => stepBasic cfg cx e s

def runE (cfg : Cfg) (cx : Ctx) (e : Entry) : List Step → R × Bool
  | [] => (.next, false)
  | s :: ss => match stepE cfg cx e s with
    | (.next, b) => let (r, b') := runE cfg cx e ss; (r, b || b')
    | other => other

structure LoopRes where
  r      : R            -- `.next` = every entry done; otherwise the result that ended the loop
  bodies : Nat          -- number of entries whose engine part was entered
  passed : List Entry   -- entries that fell through (`.next`), in order
  leak   : Nat          -- vigils begun and not ceased
  deriving Repr

def loopE (cfg : Cfg) (cx : Ctx) (vigilDeferred : Bool) (steps : List Step) : List Entry → LoopRes
  | [] => ⟨.next, 0, [], 0⟩
  | e :: es =>
    match runE cfg cx e steps with
    | (.next, b) => let t := loopE cfg cx vigilDeferred steps es
                    ⟨t.r, t.bodies + b.toNat, e :: t.passed, t.leak⟩
    | (.early, b) => let t := loopE cfg cx vigilDeferred steps es
                     ⟨t.r, t.bodies + b.toNat, t.passed, t.leak⟩
    | (.reject c m, b) => ⟨.reject c m, b.toNat, [], 0⟩
    | (.panic, b) => ⟨.panic, b.toNat, [], if b && !vigilDeferred then 1 else 0⟩
    | (.crash, b) => ⟨.crash, b.toNat, [], 0⟩
    | (.hazard t, b) => ⟨.hazard t, b.toNat, [], 0⟩

inductive Outcome where
  | grpcError (c : Code) (msg : String)
  | response
  | nilNil          -- `(nil, nil)`: no response and no error (for a stream: the handler returns nil mid-way)
  | panicEscapes    -- the panic leaves the handler / kills the process
  | engineHazard (tag : String)   -- the request reaches the engine although the engine is known to mishandle it
  deriving DecidableEq, Repr, Inhabited

def Outcome.defined : Outcome → Bool
  | .grpcError _ _ | .response => true
  | _ => false

def recovers (ds : List Dfr) : Bool := ds.contains .deferRecover

/-- `isLocked` after the handler returned: every `LockSystem` adds one; deferred unlocks run on
    every exit (return, recovered panic, escaping panic); a plain unlock only on a normal return. -/
def lockAfter (ds : List Dfr) (panicked : Bool) : Int :=
  (ds.count .lock : Int) - (ds.count .deferUnlock : Int)
    - (if panicked then 0 else (ds.count .unlockAtEnd : Int))

structure Result where
  out    : Outcome
  lock   : Int       -- safeops counter relative to its value before the request
  vigil  : Nat       -- leaked vigils
  bodies : Nat
  deriving Repr

def entriesOf (h : Handler) (sh : Shape) : List Entry := if h.multi then sh.entries else [sh.top]

def outcomeOf (h : Handler) : R → Outcome
  | .next | .early => if h.okNil then .nilNil else .response
  | .reject c m => .grpcError c m
  | .panic => if recovers h.defers then .nilNil else .panicEscapes
  | .crash => .panicEscapes
  | .hazard t => .engineHazard t

def isPanic : R → Bool
  | .panic | .crash => true
  | _ => false

def exec (cfg : Cfg) (h : Handler) (sh : Shape) : Result :=
  let es := entriesOf h sh
  let cx : Ctx := { single := es.length == 1, checkExist := false }
  let p1 := loopE cfg cx h.vigilDeferred h.val es
  match p1.r with
  | .next =>
    let p2 := loopE cfg cx h.vigilDeferred h.main p1.passed
    { out := outcomeOf h p2.r, lock := lockAfter h.defers (isPanic p2.r),
      vigil := p1.leak + p2.leak, bodies := p1.bodies + p2.bodies }
  | r => { out := outcomeOf h r, lock := lockAfter h.defers (isPanic r), vigil := p1.leak, bodies := p1.bodies }

/-- Does any entry reach the engine (with engines that answer)?  Used by the driver. -/
def reachesEngine (cfg : Cfg) (h : Handler) (sh : Shape) : Bool := (exec cfg h sh).bodies > 0

/-! ### Facts as strings (one grammar for the Lean verdict and for the driver)

  handler  :=  name '|' flags '|' defers '|' steps '|' steps
  flags    :=  subset of  s(tream) m(ulti) w(rites) v(igil deferred) n(il success) t(may stop early) u(nrecognised)
  defers   :=  word over  L U H E
  steps    :=  step (';' step)*            (may be empty)
  step     :=  'g' act cond | 'load' | 'loadgo' | 'need' atom tag | 'body' | 'unknown' | 'cn' exist mode
  act      :=  'early' | 'rej:' code ':' msgkey
  cond     :=  prefix notation over  or/and/not  and atom names
-/

def codeOf : String → Code
  | "IA" => .invalidArgument | "FP" => .failedPrecondition | "NF" => .notFound | "INT" => .internal
  | "UNAV" => .unavailable | "DL" => .deadlineExceeded | _ => .other

def Code.tag : Code → String
  | .invalidArgument => "IA" | .failedPrecondition => "FP" | .notFound => "NF" | .internal => "INT"
  | .unavailable => "UNAV" | .deadlineExceeded => "DL" | .other => "OTHER"

def atomOf : String → Option Atom
  | "nameEmpty" => some .nameEmpty | "nameInvalid" => some .nameInvalid | "nameLong" => some .nameLong | "notExist" => some .notExist
  | "notExistChk" => some .notExistChk | "keysNil" => some .keysNil | "keysLen0" => some .keysLen0
  | "keysEmptyNN" => some .keysEmptyNN | "key0Empty" => some .key0Empty | "kvNil" => some .kvNil
  | "keyInvalid" => some .keyInvalid | "fromNeg" => some .fromNeg
  | "incZero" => some .incZero | "opsEmpty" => some .opsEmpty | "metaNil" => some .metaNil
  | "patchesEmpty" => some .patchesEmpty | "capErr" => some .capErr | "bodyCapErr" => some .bodyCapErr
  | "lockKeyEmpty" => some .lockKeyEmpty | "lockIdEmpty" => some .lockIdEmpty | "lockHeld" => some .lockHeld
  | "telemetryOff" => some .telemetryOff
  | _ => none

/-- prefix-notation condition; fuel bounds the recursion by the number of tokens -/
def parseCond : Nat → List String → Option (Cond × List String)
  | 0, _ => none
  | _ + 1, [] => none
  | n + 1, t :: ts =>
    if t == "not" then
      match parseCond n ts with
      | some (c, rest) => some (.not c, rest)
      | none => none
    else if t == "or" || t == "and" then
      match parseCond n ts with
      | some (l, rest) =>
        match parseCond n rest with
        | some (r, rest') => some (if t == "or" then .or l r else .and l r, rest')
        | none => none
      | none => none
    else
      match atomOf t with
      | some a => some (.atom a, ts)
      | none => none

def parseAct (t : String) : Option Act :=
  if t == "early" then some .early
  else match t.splitOn ":" with
    | ["rej", c, m] => some (.reject (codeOf c) m)
    | _ => none

def parseStep (s : String) : Step :=
  match (s.splitOn " ").filter (· ≠ "") with
  | ["load"] => .load
  | ["loadgo"] => .loadGo
  | ["body"] => .body
  | ["need", a, tag] => (match atomOf a with | some atm => .need atm tag | none => .unknown)
  | ["cn", ex, m] =>
    let ex' : Option ExistP := if ex == "yes" then some .yes else if ex == "no" then some .no
                               else if ex == "single" then some .ifSingle else none
    let m' : Option FailMode :=
      if m == "prop" then some .propagate else if m == "fp" then some .fpEarly
      else if m == "nf" then some .nfEarly else if m == "all" then some .allEarly
      else match m.splitOn ":" with
        | ["wrap", c] => some (.wrap (codeOf c))
        | _ => none
    match ex', m' with
    | some a, some b => .checkName a b
    | _, _ => .unknown
  | "g" :: a :: cs =>
    match parseAct a, parseCond (cs.length + 1) cs with
    | some act, some (c, []) => .guard c act
    | _, _ => .unknown
  | _ => .unknown

def parseSteps (s : String) : List Step :=
  ((s.splitOn ";").filter (fun t => (t.splitOn " ").any (· ≠ ""))).map parseStep

def parseDefers (s : String) : List Dfr :=
  s.toList.filterMap fun c =>
    if c == 'L' then some .lock else if c == 'U' then some .deferUnlock
    else if c == 'H' then some .deferRecover else if c == 'E' then some .unlockAtEnd else none

def stepKnown : Step → Bool
  | .unknown => false
  | _ => true

def parseHandler (s : String) : Handler :=
  match s.splitOn "|" with
  | [nm, flags, ds, v, m] =>
    let fl := flags.toList
    let val := parseSteps v
    let main := parseSteps m
    { name := nm, stream := fl.contains 's', multi := fl.contains 'm', writes := fl.contains 'w',
      vigilDeferred := fl.contains 'v', okNil := fl.contains 'n', mayStop := fl.contains 't',
      recognised := !fl.contains 'u' && !fl.contains '?' && (val ++ main).all stepKnown,
      defers := parseDefers ds, val := val, main := main }
  | _ => { name := s, recognised := false }

def findHandler (cfg : Cfg) (nm : String) : Option Handler := cfg.handlers.find? (·.name == nm)

end Hv.Request
