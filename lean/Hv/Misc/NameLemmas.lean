/-
  Lemmas about the addressing model (Hv/Misc/Name.lean).
-/
import Hv.Misc.Name

namespace Hv.Name

/-! ### "%x" is injective -/

theorem unhex_append (ds : List Nat) (d : Nat) : unhex (ds ++ [d]) = unhex ds * 16 + d := by
  simp [unhex, List.foldl_append]

theorem unhex_hexDigitsFuel : ∀ (f n : Nat), n < 16 ^ f → unhex (hexDigitsFuel f n) = n := by
  intro f
  induction f with
  | zero => intro n h; simp at h; subst h; rfl
  | succ f ih =>
    intro n h
    simp only [hexDigitsFuel]
    split
    · simp [unhex]
    · rw [unhex_append, ih (n / 16) (by rw [Nat.pow_succ] at h; exact Nat.div_lt_of_lt_mul (by rw [Nat.mul_comm]; exact h))]
      omega

theorem unhex_hexDigits (n : Nat) (h : n < 2 ^ 64) : unhex (hexDigits n) = n :=
  unhex_hexDigitsFuel 20 n (Nat.lt_trans h (by decide))

theorem hexDigits_inj (a b : Nat) (ha : a < 2 ^ 64) (hb : b < 2 ^ 64) (h : hexDigits a = hexDigits b) : a = b := by
  rw [← unhex_hexDigits a ha, ← unhex_hexDigits b hb, h]

/-! ### when does the level loop panic -/

theorem sliceGo_isSome {α : Type} (s : List α) (a b : Nat) : (sliceGo s a b).isSome = true ↔ a ≤ b ∧ b ≤ s.length := by
  unfold sliceGo; split <;> simp_all

theorem levelsFrom_isSome (cfg : Cfg) (hx : List Nat) (cpl : Nat) :
    ∀ k i, (levelsFrom cfg hx cpl i k).isSome = true ↔
      (cfg.clampStart = true ∨ k = 0 ∨ (i + k - 1) * cpl ≤ hx.length) := by
  intro k
  induction k with
  | zero => intro i; simp [levelsFrom]
  | succ k ih =>
    intro i
    simp only [levelsFrom]
    have hrec := ih (i + 1)
    have e1 : i + 1 + k - 1 = i + k := by omega
    have e2 : i + (k + 1) - 1 = i + k := by omega
    rw [e1] at hrec
    rw [e2]
    have mono : i * cpl ≤ (i + k) * cpl := Nat.mul_le_mul_right cpl (Nat.le_add_right i k)
    cases hc : cfg.clampStart with
    | true =>
      simp only [hc, if_true, true_or, iff_true] at hrec ⊢
      have hs : (sliceGo hx (min (i * cpl) hx.length) (min (i * cpl + cpl) hx.length)).isSome = true := by
        rw [sliceGo_isSome]; omega
      cases hsl : sliceGo hx (min (i * cpl) hx.length) (min (i * cpl + cpl) hx.length) with
      | none => rw [hsl] at hs; simp at hs
      | some p => simpa using hrec
    | false =>
      simp only [hc, Bool.false_eq_true, if_false, false_or] at hrec ⊢
      cases hsl : sliceGo hx (i * cpl) (min (i * cpl + cpl) hx.length) with
      | none =>
        have : ¬ ((sliceGo hx (i * cpl) (min (i * cpl + cpl) hx.length)).isSome = true) := by rw [hsl]; simp
        rw [sliceGo_isSome] at this
        simp only [Option.isSome_none, Bool.false_eq_true, false_iff]
        omega
      | some p =>
        have : (sliceGo hx (i * cpl) (min (i * cpl + cpl) hx.length)).isSome = true := by rw [hsl]; rfl
        rw [sliceGo_isSome] at this
        simp only [Option.isSome_map]
        rw [hrec]
        constructor
        · intro h; rcases h with h | h
          · right; subst h; simpa using this.1 |> fun h => by omega
          · right; exact h
        · intro h; rcases h with h | h
          · omega
          · by_cases hk : k = 0
            · exact Or.inl hk
            · exact Or.inr h

/-- The path computation does not panic ⇔ start is clamped, or depth is 0, or the last level
    starts inside the rendered hash. -/
theorem hashedLevels_isSome (cfg : Cfg) (h : Nat) (depth : Nat) (per : Int) :
    (hashedLevels cfg h depth per).isSome = true ↔
      (cfg.clampStart = true ∨ depth = 0 ∨ (depth - 1) * charsPerLevel cfg per ≤ (hashHex cfg h).length) := by
  have hd : ¬ ((depth : Int) < 0) := by omega
  simp only [hashedLevels, hd, if_false, Int.toNat_natCast]
  rw [levelsFrom_isSome]
  simp

end Hv.Name
