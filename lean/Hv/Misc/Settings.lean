/-
  Model of app/core/settings/settings.go — the pattern registry and `GetBySwampName`.

  * The registry is a Go map `canonical pattern string → setting`.  A map has no order: every
    lookup iterates it in an order chosen by the runtime.  The model therefore keeps the
    registered entries as a list and defines the lookup for a GIVEN iteration order
    (`lookupIn`); what the code may return is `ResolvesTo`: the result for SOME order
    (any permutation of the registered entries).
  * `lookup = iteratesMap`: `for _, pi := range s.patterns { if match { return pi } }` — the first
    match in iteration order.  `lookup = ranked`: the loop visits every entry and keeps the
    match whose rank compares `cmp` against the best so far (initially −1); the rank is
    `wRealm` when the realm is not "*" plus `wSwamp` when the swamp is not "*".
  * `ComparePattern` (app/name/name.go): sanctuary must be equal (no sanctuary wildcard),
    realm/swamp of the pattern may be "*".
  * `RegisterPattern`: persistent re-registration with unchanged idle/interval/size returns
    early WITHOUT looking at the stored entry's in-memory flag (quirk kept); in-memory entries
    carry interval = size = 0.  `DeregisterPattern` deletes the key.
  * restart (`settings.New` on the same root): settings.json stores per pattern the canonical
    form and the persisted fields; loading re-creates each entry through `name.Load`.
    Which runtime fields are persisted is a code fact (`pInMem … pSize`).

  Scope: patterns reach the registry through `name.Load` (gateway.go `RegisterSwamp`), hence
  their parts contain no '/' — `WF`.  `ChroniclerV2` is a runtime-only field that the gateway
  never sets (it stays false) and is outside this model.
  Core-only (linked into the driver).
-/
import Hv.Misc.NameBase

namespace Hv.Settings
open Hv.Name

structure Fields where
  inMem : Bool
  idle : Int     -- seconds
  wi : Int       -- write interval, seconds
  size : Int     -- max file size, bytes
  deriving DecidableEq, Repr, Inhabited

structure Entry where
  pat : Name
  f : Fields
  deriving DecidableEq, Repr, Inhabited

/-- `swampName.ComparePattern(pattern)` -/
def matchesPat (n p : Name) : Bool :=
  n.s == p.s && (p.r == star || n.r == p.r) && (p.w == star || n.w == p.w)

/-- the settings returned when nothing matches -/
def defaultEntry (n : Name) : Entry := ⟨n, ⟨false, 5, 1, 65536⟩⟩

inductive Lookup where | iteratesMap | ranked | unknown
  deriving DecidableEq, Repr
inductive Cmp where | gt | ge | lt | le | unknown
  deriving DecidableEq, Repr

structure Cfg where
  lookup : Lookup
  cmp : Cmp
  wRealm : Int
  wSwamp : Int
  pInMem : Bool
  pIdle : Bool
  pWi : Bool
  pSize : Bool
  unchangedChecksType : Bool   -- RegisterPattern's "not changed" early return also compares the swamp type
  saveAtomic : Bool            -- settings.json is replaced atomically (temp file + rename), not rewritten in place
  unchangedChecksDisk : Bool   -- the "not changed" early return is taken only while the last save of the file succeeded
  deriving DecidableEq, Repr

def rank (cfg : Cfg) (p : Name) : Int :=
  (if p.r = star then 0 else cfg.wRealm) + (if p.w = star then 0 else cfg.wSwamp)

def better : Cmp → Int → Int → Bool
  | .gt, a, b => decide (a > b)
  | .ge, a, b => decide (a ≥ b)
  | .lt, a, b => decide (a < b)
  | .le, a, b => decide (a ≤ b)
  | .unknown, _, _ => false

/-- the ranking loop over one iteration order; state = (best, bestRank) -/
def rankedLoop (cfg : Cfg) (n : Name) : Option Entry × Int → List Entry → Option Entry × Int
  | st, [] => st
  | st, e :: es =>
    rankedLoop cfg n
      (if matchesPat n e.pat && better cfg.cmp (rank cfg e.pat) st.2 then (some e, rank cfg e.pat) else st) es

/-- `GetBySwampName` for one iteration order of the map -/
def lookupIn (cfg : Cfg) (order : List Entry) (n : Name) : Entry :=
  match cfg.lookup with
  | .ranked => (rankedLoop cfg n (none, -1) order).1.getD (defaultEntry n)
  | _ => (order.find? (fun e => matchesPat n e.pat)).getD (defaultEntry n)

/-- what `GetBySwampName` may return: the result for some iteration order -/
def ResolvesTo (cfg : Cfg) (reg : List Entry) (n : Name) (e : Entry) : Prop :=
  ∃ order, order.Perm reg ∧ lookupIn cfg order n = e

/-! ### registry operations -/

def hasKey (k : Bytes) (e : Entry) : Bool := canon e.pat == k

/-- the "already registered and not changed" test of `RegisterPattern`; in the original code it
    ignores whether the stored entry is in-memory (`unchangedChecksType = false`) -/
def unchanged (cfg : Cfg) (reg : List Entry) (k : Bytes) (idle wi size : Int) : Bool :=
  match reg.find? (hasKey k) with
  | some e => e.f.idle == idle && e.f.wi == wi && e.f.size == size && (!cfg.unchangedChecksType || !e.f.inMem)
  | none => false

/-- the entry a registration stores -/
def entryOf (p : Name) (inMem : Bool) (idle wi size : Int) : Entry :=
  ⟨p, if inMem then ⟨true, idle, 0, 0⟩ else ⟨false, idle, wi, size⟩⟩

/-- `RegisterPattern(pattern, inMem, idle, &FileSystemSettings{wi, size})` -/
def register (cfg : Cfg) (reg : List Entry) (p : Name) (inMem : Bool) (idle wi size : Int) : List Entry :=
  let k := canon p
  if !inMem && unchanged cfg reg k idle wi size then reg
  else reg.filter (fun e => !hasKey k e) ++ [entryOf p inMem idle wi size]

/-- `DeregisterPattern(pattern)` -/
def deregister (reg : List Entry) (p : Name) : List Entry :=
  reg.filter (fun e => !hasKey (canon p) e)

/-- registration histories -/
inductive RegOp where
  | reg (p : Name) (inMem : Bool) (idle wi size : Int)
  | dereg (p : Name)

def RegOp.pat : RegOp → Name
  | .reg p _ _ _ _ => p
  | .dereg p => p

def applyOp (cfg : Cfg) (reg : List Entry) : RegOp → List Entry
  | .reg p m i w s => register cfg reg p m i w s
  | .dereg p => deregister reg p

def runOps (cfg : Cfg) (reg : List Entry) (h : List RegOp) : List Entry := h.foldl (applyOp cfg) reg

/-- the stored entry of a key -/
def entryFor (reg : List Entry) (k : Bytes) : Option Entry := reg.find? (hasKey k)

/-- Spec of the registry as a function key ↦ last registration (nothing after a deregistration) -/
def specOp (f : Bytes → Option Entry) : RegOp → Bytes → Option Entry
  | .reg p m i w s => fun k => if k = canon p then some (entryOf p m i w s) else f k
  | .dereg p => fun k => if k = canon p then none else f k

def specRun (f : Bytes → Option Entry) (h : List RegOp) : Bytes → Option Entry := h.foldl specOp f

/-- one record of settings.json -/
structure PatternModel where
  nameCanonicalForm : Bytes
  inMemory : Bool
  closeAfterIdleSec : Int
  writeIntervalSec : Int
  maxFileSizeByte : Int
  deriving DecidableEq, Repr

def toPM (e : Entry) : PatternModel := ⟨canon e.pat, e.f.inMem, e.f.idle, e.f.wi, e.f.size⟩

/-- `loadSettingsFromFilesystem`: a field that is not carried over comes back as Go's zero value -/
def ofPM (cfg : Cfg) (pm : PatternModel) : Entry :=
  ⟨(load pm.nameCanonicalForm).getD ⟨[], [], []⟩,
   ⟨if cfg.pInMem then pm.inMemory else false,
    if cfg.pIdle then pm.closeAfterIdleSec else 0,
    if cfg.pWi then pm.writeIntervalSec else 0,
    if cfg.pSize then pm.maxFileSizeByte else 0⟩⟩

/-- registry seen by a second `settings.New` on the same root -/
def reload (cfg : Cfg) (reg : List Entry) : List Entry := reg.map (fun e => ofPM cfg (toPM e))

/-- what a second `settings.New` finds after a save of `settings.json` that failed part-way (crash, full disk)
    while the file held registry `disk`: an in-place rewrite has truncated the file — it no longer parses and
    `New` silently starts with NO patterns; an atomic replace leaves the previous file intact -/
def afterTornSave (cfg : Cfg) (disk : List Entry) : List Entry :=
  if cfg.saveAtomic then reload cfg disk else []

/-! ### runtime map and settings.json side by side -/

/-- registration operations as the caller sees them: every one of them is acknowledged; `torn` is a
    registration whose save of settings.json failed part-way -/
inductive POp where
  | reg (p : Name) (inMem : Bool) (idle wi size : Int)
  | torn (p : Name) (inMem : Bool) (idle wi size : Int)
  | dereg (p : Name)

def POp.pat : POp → Name
  | .reg p _ _ _ _ => p
  | .torn p _ _ _ _ => p
  | .dereg p => p

/-- the same history for the runtime map alone (a torn registration still enters the map) -/
def POp.toRegOp : POp → RegOp
  | .reg p m i w s => .reg p m i w s
  | .torn p m i w s => .reg p m i w s
  | .dereg p => .dereg p

structure RD where
  rt : List Entry      -- s.patterns
  disk : List Entry    -- what settings.json parses to
  dirty : Bool         -- the last SaveSettingsToFilesystem failed (the file may be behind the map)

/-- the registration without the early return -/
def regForce (reg : List Entry) (p : Name) (inMem : Bool) (idle wi size : Int) : List Entry :=
  reg.filter (fun e => !hasKey (canon p) e) ++ [entryOf p inMem idle wi size]

/-- the "already registered and not changed" early return, as far as the file is concerned -/
def earlyRD (cfg : Cfg) (s : RD) (p : Name) (inMem : Bool) (idle wi size : Int) : Bool :=
  !inMem && unchanged cfg s.rt (canon p) idle wi size && (!cfg.unchangedChecksDisk || !s.dirty)

def stepRD (cfg : Cfg) (s : RD) : POp → RD
  | .reg p m i w sz =>
    if earlyRD cfg s p m i w sz then s
    else let rt' := regForce s.rt p m i w sz; ⟨rt', rt', false⟩
  | .torn p m i w sz =>
    if earlyRD cfg s p m i w sz then s
    else ⟨regForce s.rt p m i w sz, if cfg.saveAtomic then s.disk else [], true⟩
  | .dereg p => let rt' := deregister s.rt p; ⟨rt', rt', false⟩

def runRD (cfg : Cfg) (s : RD) (h : List POp) : RD := h.foldl (stepRD cfg) s

/-- Spec of the FILE: a key holds its registration when the last operation on it was an acknowledged, untorn
    registration; a torn one makes no promise; other keys keep what they had -/
def specDiskOp (f : Bytes → Option (Option Entry)) : POp → Bytes → Option (Option Entry)
  | .reg p m i w s => fun k => if k = canon p then some (some (entryOf p m i w s)) else f k
  | .torn p _ _ _ _ => fun k => if k = canon p then none else f k
  | .dereg p => fun k => if k = canon p then some none else f k

/-- `some x`: the file must hold exactly `x` for the key; `none`: no promise -/
def specDisk (h : List POp) : Bytes → Option (Option Entry) := h.foldl specDiskOp (fun _ => some none)

/-- registries reachable through the gateway: separator-free parts, one entry per key -/
structure WF (reg : List Entry) : Prop where
  noSlash : ∀ e ∈ reg, e.pat.NoSlash
  keyed : ∀ a ∈ reg, ∀ b ∈ reg, canon a.pat = canon b.pat → a = b

def Cfg.persistsAll (cfg : Cfg) : Bool := cfg.pInMem && cfg.pIdle && cfg.pWi && cfg.pSize

/-- the ranking is a strict most-specific order: strict comparison, positive distinct weights -/
def Cfg.goodRank (cfg : Cfg) : Bool :=
  cfg.lookup == .ranked && cfg.cmp == .gt && decide (0 < cfg.wRealm) && decide (0 < cfg.wSwamp) &&
  decide (cfg.wRealm ≠ cfg.wSwamp)

/-! ### executable helpers for the driver -/

def perms {α : Type} : List α → List (List α)
  | [] => [[]]
  | x :: xs => (perms xs).flatMap (fun p => (List.range (p.length + 1)).map (fun i => p.take i ++ x :: p.drop i))

/-- every result some iteration order can produce (entries that do not match never matter) -/
def possible (cfg : Cfg) (reg : List Entry) (n : Name) : List Entry :=
  ((perms (reg.filter (fun e => matchesPat n e.pat))).map (fun o => lookupIn cfg o n)).eraseDups

end Hv.Settings
