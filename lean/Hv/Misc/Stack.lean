/-
  The serving stack between the two name packages (domain C20).

  What the server really does: the folder of a swamp is
      GetFullHashPath(data root, request.IslandID, depth, per-level)      (hydra.go, IsExistSwamp / createNewSwamp)
  i.e. a function of the NAME and of the island number THE REQUEST CARRIES.  `GetFolderNumber` (the server's own
  island function) has no caller under app/: nothing on the server derives the island from the name, and nothing
  compares request.IslandID with it.  The open swamps are kept in a map keyed by the name alone, so a request for
  an open swamp is served from the folder the swamp was opened at, whatever island the request carries.

  The SDK side: every RPC puts `name.GetIslandID(client.GetAllIslands())` on the wire (fact rpcIslandFromName).

  `step` is that server; the requests are abstract: (island on the wire, hash value of the name).
-/
import Hv.Misc.NameLemmas

namespace Hv.Stack
open Hv.Name

structure Srv where
  opened : List (Nat × Loc)   -- name (hash value) ↦ folder the swamp was opened at
  disk : List Loc             -- swamp folders that exist
  deriving Repr

def Srv.empty : Srv := ⟨[], []⟩

def openLoc (s : Srv) (h : Nat) : Option Loc := (s.opened.find? fun e => e.1 == h).map (·.2)

inductive Req
  | data (island h : Nat)     -- any RPC that summons the swamp and writes
  | probe (island h : Nat)    -- IsSwampExist
  | malformed                 -- a name the gateway refuses (not exactly three non-empty parts)
  | closeAll                  -- every swamp idles out
  deriving Repr

inductive Reply
  | served (l : Loc) | refused | present (b : Bool) | closed | crash
  deriving DecidableEq, Repr

/-- the (hypothetical) server-side check of request.IslandID against the name, for a server that knows `N` -/
def admitted (cfg : Cfg) (N island h : Nat) : Bool :=
  !cfg.srvChecksIsland || (srvIsland cfg h N == some island)

def step (cfg : Cfg) (N : Nat) (depth per : Int) (s : Srv) : Req → Srv × Reply
  | .data i h =>
    if !admitted cfg N i h then (s, .refused) else
    match openLoc s h with
    | some l => (s, .served l)
    | none =>
      match location cfg h i depth per with
      | some l => (⟨(h, l) :: s.opened, if l ∈ s.disk then s.disk else l :: s.disk⟩, .served l)
      | none => (s, .crash)
  | .probe i h =>
    if !admitted cfg N i h then (s, .refused) else
    match openLoc s h with
    | some _ => (s, .present true)
    | none =>
      match location cfg h i depth per with
      | some l => (s, .present (decide (l ∈ s.disk)))
      | none => (s, .crash)
  | .malformed => (s, .refused)
  | .closeAll => (⟨[], s.disk⟩, .closed)

def run (cfg : Cfg) (N : Nat) (depth per : Int) : Srv → List Req → Srv
  | s, [] => s
  | s, r :: rs => run cfg N depth per (step cfg N depth per s r).1 rs

/-- the island of the folder is the island `isl` derives from the name the folder belongs to -/
def Tied (isl : Nat → Option Nat) (l : Loc) : Prop := ∃ h, h < 2 ^ 64 ∧ isl h = some l.island ∧ l.folder = hexDigits h

/-- no name has folders under two islands -/
def OneFolderPerName (disk : List Loc) : Prop := ∀ l1 ∈ disk, ∀ l2 ∈ disk, l1.folder = l2.folder → l1.island = l2.island

/-- a request whose island is the one `isl` derives from its name (64-bit hash values) -/
def ReqTied (isl : Nat → Option Nat) : Req → Prop
  | .data i h => h < 2 ^ 64 ∧ isl h = some i
  | .probe i h => h < 2 ^ 64 ∧ isl h = some i
  | _ => True

def Req.hashBounded : Req → Prop
  | .data _ h => h < 2 ^ 64
  | .probe _ h => h < 2 ^ 64
  | _ => True

theorem tied_unique (isl : Nat → Option Nat) (l1 l2 : Loc) (t1 : Tied isl l1) (t2 : Tied isl l2)
    (hf : l1.folder = l2.folder) : l1.island = l2.island := by
  obtain ⟨h1, b1, e1, f1⟩ := t1
  obtain ⟨h2, b2, e2, f2⟩ := t2
  have : h1 = h2 := hexDigits_inj h1 h2 b1 b2 (by rw [← f1, ← f2, hf])
  subst this
  rw [e1] at e2
  exact Option.some.inj e2

theorem location_shape (cfg : Cfg) (h i : Nat) (depth per : Int) (l : Loc) (e : location cfg h i depth per = some l) :
    l.island = i ∧ l.folder = hexDigits h := by
  simp only [location] at e
  cases hq : hashedLevels cfg h depth per with
  | none => rw [hq] at e; simp at e
  | some ls => rw [hq] at e; simp at e; subst e; exact ⟨rfl, rfl⟩

/-- one step keeps every folder tied, when every request THE SERVER ADMITS is tied -/
theorem step_tied (cfg : Cfg) (N : Nat) (depth per : Int) (isl : Nat → Option Nat) (s : Srv) (r : Req)
    (hs : ∀ l ∈ s.disk, Tied isl l)
    (hr : match r with
          | .data i h => admitted cfg N i h = true → h < 2 ^ 64 ∧ isl h = some i
          | _ => True) :
    ∀ l ∈ (step cfg N depth per s r).1.disk, Tied isl l := by
  cases r with
  | data i h =>
    simp only [step]
    by_cases ha : admitted cfg N i h = true
    · simp only [ha, Bool.not_true, Bool.false_eq_true, if_false]
      cases openLoc s h with
      | some l0 => exact hs
      | none =>
        cases hl : location cfg h i depth per with
        | none => exact hs
        | some l0 =>
          simp only
          by_cases hm : l0 ∈ s.disk
          · simp only [hm, if_true]; exact hs
          · simp only [hm, if_false]
            intro l hin
            rcases List.mem_cons.mp hin with e | e
            · subst e
              obtain ⟨hb, hi⟩ := hr ha
              obtain ⟨e1, e2⟩ := location_shape cfg h i depth per l hl
              exact ⟨h, hb, by rw [e1]; exact hi, e2⟩
            · exact hs l e
    · have : admitted cfg N i h = false := by simpa using ha
      simp only [this, Bool.not_false, if_true]; exact hs
  | probe i h =>
    simp only [step]
    split
    · exact hs
    · cases openLoc s h with
      | some _ => exact hs
      | none => cases location cfg h i depth per <;> exact hs
  | malformed => exact hs
  | closeAll => exact hs

theorem run_tied (cfg : Cfg) (N : Nat) (depth per : Int) (isl : Nat → Option Nat) :
    ∀ (reqs : List Req) (s : Srv), (∀ l ∈ s.disk, Tied isl l) →
    (∀ r ∈ reqs, match r with
                 | .data i h => admitted cfg N i h = true → h < 2 ^ 64 ∧ isl h = some i
                 | _ => True) →
    ∀ l ∈ (run cfg N depth per s reqs).disk, Tied isl l
  | [], _, hs, _ => hs
  | r :: rs, s, hs, hr =>
    run_tied cfg N depth per isl rs _ (step_tied cfg N depth per isl s r hs (hr r (List.mem_cons_self ..)))
      (fun r' hm => hr r' (List.mem_cons_of_mem _ hm))

/-- END TO END: when every request comes from SDK clients that share the island count `N` (each puts
    `GetIslandID(N)` of the name on the wire), every name lives under exactly one island — the hash-derived one. -/
theorem sdk_requests_one_folder (cfg : Cfg) (N : Nat) (depth per : Int) (reqs : List Req)
    (hr : ∀ r ∈ reqs, ReqTied (fun h => sdkIsland cfg h N) r) :
    (∀ l ∈ (run cfg N depth per Srv.empty reqs).disk, Tied (fun h => sdkIsland cfg h N) l) ∧
    OneFolderPerName (run cfg N depth per Srv.empty reqs).disk := by
  have ht := run_tied cfg N depth per (fun h => sdkIsland cfg h N) reqs Srv.empty
    (by intro l hl; simp [Srv.empty] at hl)
    (by
      intro r hm
      have := hr r hm
      cases r with
      | data i h => exact fun _ => this
      | _ => trivial)
  exact ⟨ht, fun l1 h1 l2 h2 hf => tied_unique _ l1 l2 (ht l1 h1) (ht l2 h2) hf⟩

/-- a server that checks the island keeps one folder per name whatever the requests carry -/
theorem checked_requests_one_folder (cfg : Cfg) (hc : cfg.srvChecksIsland = true) (N : Nat) (depth per : Int)
    (reqs : List Req) (hb : ∀ r ∈ reqs, r.hashBounded) :
    OneFolderPerName (run cfg N depth per Srv.empty reqs).disk := by
  have ht := run_tied cfg N depth per (fun h => srvIsland cfg h N) reqs Srv.empty
    (by intro l hl; simp [Srv.empty] at hl)
    (by
      intro r hm
      have := hb r hm
      cases r with
      | data i h =>
        intro ha
        simp only [admitted, hc, Bool.not_true, Bool.false_or, beq_iff_eq] at ha
        exact ⟨this, ha⟩
      | _ => trivial)
  exact fun l1 h1 l2 h2 hf => tied_unique _ l1 l2 (ht l1 h1) (ht l2 h2) hf

/-- the requests of the witness: one name written under island 1, closed, written under island 2 -/
def twoIslands : List Req := [.data 1 0, .closeAll, .data 2 0]

/-- the server as it is: the same name under two islands is two swamps -/
theorem unchecked_two_swamps (cfg : Cfg) (hc : cfg.srvChecksIsland = false) :
    ¬ OneFolderPerName (run cfg 1 0 1 Srv.empty twoIslands).disk := by
  intro h
  have := h ⟨2, [], hexDigits 0⟩ (by simp [run, step, twoIslands, admitted, hc, openLoc, Srv.empty, location, hashedLevels, levelsFrom])
            ⟨1, [], hexDigits 0⟩ (by simp [run, step, twoIslands, admitted, hc, openLoc, Srv.empty, location, hashedLevels, levelsFrom]) rfl
  simp at this

end Hv.Stack
