/-
  Model of the VALUE conversions of the Go SDK for catalog models
  (sdk/go/hydraidego/hydraidego.go: convertFieldToKvPair, setProtoTreasureToModel, isFieldEmpty;
   conversions.go: the value branch; conversions_mapbody.go: encodeMapBody / decodeMapBodyInto;
   app/server/gateway/gateway.go: keyValuesToTreasure, treasureToKeyValuePair).

  A field of Go kind `k` holding `v` travels
    value slot:  Go value ─enc→ typed proto field ─store→ server content ─read→ typed proto field ─dec→ Go value
    body slot:   Go value ─msgpack→ entry of the map body (bytes value) ─msgpack→ Go value
  The four tables of the value slot (which proto field a Go kind is written to, which content type the
  server stores it as, which proto field it is read back into, which Go kinds the decoder accepts for
  that field) are CODE FACTS.  Integers are carried through every hop with the hop's own width and
  signedness (two's-complement wrap), so a narrowing hop is visible.

  Parameters, not code: the container codec (gob by default, msgpack on request) is `Lib` — only its
  law on NON-EMPTY containers is assumed (`Lib.Lawful`); how it treats nil/empty is left open and is
  tested.  msgpack of scalars, strings, times and non-empty containers inside the map body is
  assumed exact (tested).  Core-only (linked into the driver).
-/
namespace Hv.SdkValues

inductive Kind where
  | str | bool | u8 | u16 | u32 | u64 | uint | i8 | i16 | i32 | i64 | int | f32 | f64
  | bytes | slice | map | ptr | time | struct | array
  deriving DecidableEq, Repr

/-- typed value fields of KeyValuePair / Treasure -/
inductive Field where
  | stringVal | boolVal | uint8Val | uint16Val | uint32Val | uint64Val
  | int8Val | int16Val | int32Val | int64Val | float32Val | float64Val | bytesVal
  deriving DecidableEq, Repr

/-- content types of a server-side treasure -/
inductive Content where
  | cString | cBool | cUint8 | cUint16 | cUint32 | cUint64 | cInt8 | cInt16 | cInt32 | cInt64
  | cFloat32 | cFloat64 | cBytes
  deriving DecidableEq, Repr

/-- a Go value, as far as the conversions can tell values apart -/
inductive Val where
  | str (validUtf8 : Bool) (s : List Nat)
  | bool (b : Bool)
  | num (n : Int)
  | flt (bits : Nat)                 -- IEEE bit pattern of the field's own width
  | bytes (b : Option (List Nat))    -- none = nil slice
  | cont (c : Option (List Nat))     -- slice / map / pointer content, none = nil (elements are opaque tokens)
  | time (sec : Int) (nsec : Nat)
  | stru (x : Nat)                    -- struct / array content, 0 = the zero value
  deriving DecidableEq, Repr

/-- (signed?, bits) of an integer representation -/
abbrev IntTy := Bool × Nat

/-- two's-complement conversion to an integer type -/
def wrap (t : IntTy) (n : Int) : Int :=
  if t.1 then (n + 2 ^ (t.2 - 1)) % 2 ^ t.2 - 2 ^ (t.2 - 1) else n % 2 ^ t.2

def inRange (t : IntTy) (n : Int) : Prop :=
  if t.1 then -(2 ^ (t.2 - 1) : Int) ≤ n ∧ n < 2 ^ (t.2 - 1) else 0 ≤ n ∧ n < 2 ^ t.2

instance (t : IntTy) (n : Int) : Decidable (inRange t n) := by unfold inRange; split <;> exact inferInstance

def kindInt : Kind → Option IntTy
  | .u8 => some (false, 8) | .u16 => some (false, 16) | .u32 => some (false, 32) | .u64 => some (false, 64)
  | .uint => some (false, 64)
  | .i8 => some (true, 8) | .i16 => some (true, 16) | .i32 => some (true, 32) | .i64 => some (true, 64)
  | .int => some (true, 64)
  | _ => none

/-- Go type of the proto field (hydraide.pb.go): the 8/16-bit fields are 32 bits wide on the wire -/
def fieldInt : Field → Option IntTy
  | .uint8Val | .uint16Val | .uint32Val => some (false, 32)
  | .uint64Val => some (false, 64)
  | .int8Val | .int16Val | .int32Val => some (true, 32)
  | .int64Val => some (true, 64)
  | _ => none

def contentInt : Content → Option IntTy
  | .cUint8 => some (false, 8) | .cUint16 => some (false, 16) | .cUint32 => some (false, 32) | .cUint64 => some (false, 64)
  | .cInt8 => some (true, 8) | .cInt16 => some (true, 16) | .cInt32 => some (true, 32) | .cInt64 => some (true, 64)
  | _ => none

structure Cfg where
  enc : List (Kind × Field)            -- convertFieldToKvPair: `case reflect.K: kvPair.F = …`
  store : List (Field × Content)       -- keyValuesToTreasure: `case kv.F != nil: SetContentC(…)`
  read : List (Content × Field)        -- treasureToKeyValuePair: `case ContentTypeC: t.F = …`
  dec : List (Field × List Kind)       -- setProtoTreasureToModel: `if treasure.F != nil { switch field.Kind() { case … } }`
  timeAsUnixSeconds : Bool             -- time.Time value ↦ Int64Val of UTC().Unix()
  structValueEncoded : Bool            -- a non-time struct value is written somewhere (false: silently nothing)
  bodySkipsNil : Bool                  -- decodeMapBodyInto leaves the field alone for a msgpack nil entry
  emptyLenZero : Bool                  -- isFieldEmpty: a non-nil slice / map of length 0 counts as empty
  emptyNegZero : Bool                  -- isFieldEmpty: `value.Float() == 0`, which also holds for -0
  voidClearsContent : Bool             -- server: SetContentVoid replaces a typed content (false: it leaves it in place)
  deriving DecidableEq, Repr

/-- the container codec (gob / msgpack): what comes back for what went in -/
structure Lib where
  norm : Kind → Option (List Nat) → Option (List Nat)

def Lib.Lawful (l : Lib) : Prop := ∀ k x xs, l.norm k (some (x :: xs)) = some (x :: xs)

/-- gob, as observed: an empty slice decodes to nil, a nil map to an empty map, pointers are exact -/
def gobLib : Lib := ⟨fun k c => match k, c with
  | .slice, some [] => none
  | .map, none => some []
  | _, c => c⟩

/-- msgpack (a swamp registered with EncodingMsgPack), as observed: nil and empty containers come back as they went in -/
def msgpackLib : Lib := ⟨fun _ c => c⟩

inductive Res where
  | ok (v : Val)
  | err
  deriving DecidableEq, Repr

/-- the zero value of a field of kind `k` -/
def zero : Kind → Val
  | .str => .str true [] | .bool => .bool false
  | .f32 | .f64 => .flt 0
  | .bytes => .bytes none
  | .slice | .map | .ptr => .cont none
  | .time => .time (-62135596800) 0
  | .struct | .array => .stru 0
  | _ => .num 0

def signBit : Kind → Nat
  | .f32 => 2 ^ 31
  | _ => 2 ^ 63

/-- `isFieldEmpty` -/
def isEmpty (cfg : Cfg) (k : Kind) : Val → Bool
  | .str _ s => s.isEmpty
  | .num n => n == 0
  | .flt b => b == 0 || (cfg.emptyNegZero && b == signBit k)
  | .bytes b => b.isNone || (cfg.emptyLenZero && b == some [])
  | .cont c => if k == .ptr then c.isNone else (c.isNone || (cfg.emptyLenZero && c == some []))
  | .time s n => s == -62135596800 && n == 0
  | _ => false                                    -- bool, struct, array

/-- value and kind fit together (and integers lie in the kind's range) -/
def WellTyped (k : Kind) : Val → Prop
  | .str _ _ => k = .str
  | .bool _ => k = .bool
  | .num n => ∃ t, kindInt k = some t ∧ inRange t n
  | .flt b => (k = .f32 ∧ b < 2 ^ 32) ∨ (k = .f64 ∧ b < 2 ^ 64)
  | .bytes _ => k = .bytes
  | .cont c => k = .slice ∨ k = .map ∨ (k = .ptr ∧ c ≠ some [])
  | .time _ n => k = .time ∧ n < 1000000000
  | .stru _ => k = .struct ∨ k = .array

/-! ### value slot -/

/-- one integer of Go type `tk`, held by a field of kind `k`, through the four hops -/
def intHops (cfg : Cfg) (k : Kind) (tk : IntTy) (n : Int) : Option Int :=
  match cfg.enc.lookup k with
  | some f =>
    match fieldInt f, cfg.store.lookup f with
    | some tf, some c =>
      match contentInt c, cfg.read.lookup c with
      | some tc, some f' =>
        match fieldInt f', cfg.dec.lookup f' with
        | some tf', some ks =>
          if ks.contains k then some (wrap tk (wrap tf' (wrap tc (wrap tf n)))) else none
        | _, _ => none
      | _, _ => none
    | _, _ => none
  | none => none

/-- a non-integer payload travels unchanged when the four tables connect kind `k` to itself through
    fields / contents of the expected family -/
def pathOK (cfg : Cfg) (k : Kind) (f : Field) (c : Content) : Bool :=
  cfg.enc.lookup k == some f && cfg.store.lookup f == some c && cfg.read.lookup c == some f &&
  ((cfg.dec.lookup f).getD []).contains k

/-- CatalogSave + CatalogRead of a single-value model whose value field has kind `k` -/
def valueRT (cfg : Cfg) (lib : Lib) (k : Kind) (om : Bool) (v : Val) : Res :=
  if k == .array then .err                                   -- "unsupported value type"
  else if om && isEmpty cfg k v then .ok (zero k)              -- only VoidVal is sent; the field keeps its zero value
  else match v with
  | .str valid s => if !valid then .err                      -- gRPC refuses a non-UTF-8 proto string
      else if pathOK cfg .str .stringVal .cString then .ok v else .ok (zero k)
  | .bool _ => if pathOK cfg .bool .boolVal .cBool then .ok v else .ok (zero k)
  | .num n => match kindInt k with
      | some tk => (match intHops cfg k tk n with
        | some m => .ok (.num m)
        | none => .ok (zero k))                              -- a field/kind mismatch is skipped silently
      | none => .ok (zero k)
  | .flt _ =>
      let ok := if k == .f32 then pathOK cfg .f32 .float32Val .cFloat32 else pathOK cfg .f64 .float64Val .cFloat64
      if ok then .ok v else .ok (zero k)
  | .bytes b => if b.isNone then .ok v                        -- nil []byte: nothing sent, nothing set
      else if pathOK cfg .bytes .bytesVal .cBytes then .ok v else .ok (zero k)
  | .cont c =>
      if k == .ptr && c.isNone then .ok v                    -- nil pointer: nothing sent
      else if pathOK cfg k .bytesVal .cBytes then .ok (.cont (lib.norm k c)) else .ok (zero k)
  | .time s n =>
      if isEmpty cfg k (.time s n) then .ok v                              -- zero time: nothing sent
      else if cfg.timeAsUnixSeconds then
        (match intHops cfg .time (true, 64) s with
         | some s' => .ok (.time s' 0)                       -- UTC().Unix(): the nanoseconds are dropped
         | none => .ok (zero k))
      else .ok (.time s n)
  | .stru _ => if cfg.structValueEncoded then .ok v else .ok (zero k)

/-- nothing typed is sent for this value (the server then sets the treasure void) -/
def sendsVoid (cfg : Cfg) (k : Kind) (om : Bool) (v : Val) : Bool :=
  (om && isEmpty cfg k v) ||
  (match v with
   | .bytes none => true
   | .cont none => k == .ptr
   | .time _ _ => isEmpty cfg k v
   | .stru _ => !cfg.structValueEncoded
   | _ => false)

/-- save `v1`, save `v2` over it, read (value slot / profile field) -/
def valueUpdRT (cfg : Cfg) (lib : Lib) (k : Kind) (om : Bool) (v1 v2 : Val) : Res :=
  if sendsVoid cfg k om v2 && !cfg.voidClearsContent && !sendsVoid cfg k om v1 then
    (match valueRT cfg lib k om v2 with
     | .err => .err
     | .ok _ => valueRT cfg lib k om v1)       -- the void write left the first value's content in place
  else valueRT cfg lib k om v2

/-- a PROFILE field (one treasure per field) overwritten: `om` = omitempty, `del` = deletable.
    An empty value under `deletable` deletes the treasure; under `omitempty` alone the field is skipped and the
    stored treasure stays (documented: use `deletable` to remove); otherwise it is written like a catalog value. -/
def profileUpdRT (cfg : Cfg) (lib : Lib) (k : Kind) (om del : Bool) (v1 v2 : Val) : Res :=
  if isEmpty cfg k v2 && del then
    (match valueRT cfg lib k false v1 with
     | .err => .err
     | .ok _ => .ok (zero k))
  else if isEmpty cfg k v2 && om then
    (match valueRT cfg lib k false v2 with
     | .err => .err
     | .ok _ => valueRT cfg lib k (om && false) v1)
  else valueUpdRT cfg lib k false v1 v2

/-! ### map-body slot -/

/-- CatalogSave + CatalogRead of a map-body model for one body field of kind `k` -/
def bodyRT (cfg : Cfg) (k : Kind) (om : Bool) (v : Val) : Res :=
  if om && isEmpty cfg k v then .ok (zero k)                   -- entry left out of the map
  else match v with
  | .cont none => if cfg.bodySkipsNil then .ok v else .err   -- msgpack nil entry: decode fails with EOF
  | .bytes none => if cfg.bodySkipsNil then .ok v else .err
  | _ => .ok v

/-- every scalar kind is connected to itself by the four tables, without a narrowing hop -/
def intKinds : List Kind := [.u8, .u16, .u32, .u64, .uint, .i8, .i16, .i32, .i64, .int]

def hopFits (tk : IntTy) (t : Option IntTy) : Bool :=
  match t with
  | some t => t.1 == tk.1 && decide (tk.2 ≤ t.2)
  | none => false

def intOK (cfg : Cfg) (k : Kind) (tk : IntTy) : Bool :=
  match cfg.enc.lookup k with
  | some f =>
    match cfg.store.lookup f with
    | some c =>
      match cfg.read.lookup c with
      | some f' =>
        hopFits tk (fieldInt f) && hopFits tk (contentInt c) && hopFits tk (fieldInt f') &&
        ((cfg.dec.lookup f').getD []).contains k && decide (0 < tk.2)
      | none => false
    | none => false
  | none => false

def intKindOK (cfg : Cfg) (k : Kind) : Bool :=
  match kindInt k with
  | some tk => intOK cfg k tk
  | none => false

def tableOK (cfg : Cfg) : Bool :=
  intKinds.all (intKindOK cfg) && intOK cfg .time (true, 64) &&
  pathOK cfg .str .stringVal .cString && pathOK cfg .bool .boolVal .cBool &&
  pathOK cfg .f32 .float32Val .cFloat32 && pathOK cfg .f64 .float64Val .cFloat64 &&
  pathOK cfg .bytes .bytesVal .cBytes && pathOK cfg .slice .bytesVal .cBytes &&
  pathOK cfg .map .bytesVal .cBytes && pathOK cfg .ptr .bytesVal .cBytes

end Hv.SdkValues
