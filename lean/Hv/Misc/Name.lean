/-
  Model of swamp addressing: app/name/name.go (server) and sdk/go/hydraidego/name/name.go (SDK).

  * island:  SDK `hash % allIslands + 1` on uint64; server `uint16(hash % uint64(allFolders)) + 1`
    with a uint16 parameter and a wrapping uint16 addition.  `N = 0` is Go's integer-divide-by-zero
    panic.  Both hash `SanctuaryID + RealmName + SwampName` (no separators).  Each name object
    caches its first non-zero island (`islandCached`).
  * hashed path (`generateHashedDirectoryPath`): `hashHex = fmt.Sprintf("%x", hash)` — NO zero
    padding, 1..16 digits; `charsPerLevel = max(cplMin, len("%x" of maxFoldersPerLevel-1))`
    (a negative int renders with a '-' sign); `parts := make([]string, depth)` (negative depth
    panics); per level `start = i*cpl`, `end = min(start+cpl, len)`, `hashHex[start:end]` with
    Go slice-bounds semantics: `start > end` panics.  Only `end` is clamped in the current code
    (`clampStart = false`).
  * full location (`GetFullHashPath`): `filepath.Join(root, "%d" island, levels…, "%x" hash)` —
    the folder name is the same hash of the same canonical path; empty levels vanish in `Join`.
  * `Load`: `Hv.Name.load` (NameBase).

  The hash functions are PARAMETERS of every definition here (`h` is the 64-bit hash value of the
  relevant byte string).  Core-only (linked into the driver).
-/
import Hv.Misc.NameBase

namespace Hv.Name

structure Cfg where
  sdkPlusOne : Bool      -- SDK adds 1 after the modulus
  srvPlusOne : Bool      -- server adds 1 after the modulus
  srvBits : Nat          -- width of the server's island arithmetic (16)
  hexPadded : Bool       -- hash rendered with "%016x" instead of "%x"
  cplMin : Nat           -- lower bound of chars-per-level (2)
  clampStart : Bool      -- `start` is clamped to len(hashHex) before slicing
  rejectsSlash : Bool    -- the name constructors refuse / escape '/' inside a part
  defDepth : Nat         -- depth and folders-per-level the server ships with
  defPer : Nat
  validatesRanges : Bool -- the SDK client refuses server ranges that do not partition 1..allIslands
  cacheKeyedByN : Bool   -- the per-object island cache remembers the N it was computed for
  pathCacheKeyedByArgs : Bool -- GetFullHashPath reuses the memoised path only for the same (root, island, depth, per-level)
  unroutedIsError : Bool -- GetServiceClient hands out a client that fails with an error for an island without a route (not nil)
  srvChecksIsland : Bool -- the server refuses a request whose IslandID is not the island of the name (it has no such check: false)
  deriving DecidableEq, Repr

/-- both sides add 1 and the server computes on 16 bits -/
def Cfg.goodIsland (cfg : Cfg) : Bool := cfg.sdkPlusOne && cfg.srvPlusOne && cfg.srvBits == 16

/-! ### island -/

/-- SDK `GetIslandID(allIslands uint64)` on a fresh name object; `none` = divide-by-zero panic -/
def sdkIsland (cfg : Cfg) (h N : Nat) : Option Nat :=
  if N = 0 then none else some ((h % N + (if cfg.sdkPlusOne then 1 else 0)) % 2 ^ 64)

/-- server `GetFolderNumber(allFolders uint16)` on a fresh name object -/
def srvIsland (cfg : Cfg) (h N : Nat) : Option Nat :=
  if N = 0 then none
  else some (((h % N) % 2 ^ cfg.srvBits + (if cfg.srvPlusOne then 1 else 0)) % 2 ^ cfg.srvBits)

/-- the per-object cache: a non-zero cached value is returned whatever `N` is now -/
def islandCached (cache : Nat) (fresh : Option Nat) : Option Nat :=
  if cache ≠ 0 then some cache else fresh

/-- a second `GetIslandID(N2)` on a name object that already answered `GetIslandID(N1)` -/
def secondCall (cfg : Cfg) (h N1 N2 : Nat) : Option Nat :=
  match sdkIsland cfg h N1 with
  | some i => if cfg.cacheKeyedByN && N1 ≠ N2 then sdkIsland cfg h N2 else islandCached i (sdkIsland cfg h N2)
  | none => sdkIsland cfg h N2

/-! ### "%x" -/

/-- hexadecimal digits, most significant first, no padding (`0` ↦ `[0]`); fuel 20 covers 64 bits -/
def hexDigitsFuel : Nat → Nat → List Nat
  | 0, _ => []
  | f + 1, n => if n < 16 then [n] else hexDigitsFuel f (n / 16) ++ [n % 16]

def hexDigits (n : Nat) : List Nat := hexDigitsFuel 20 n

/-- value of a digit string -/
def unhex (ds : List Nat) : Nat := ds.foldl (fun a d => a * 16 + d) 0

/-- the hash as the code renders it -/
def hashHex (cfg : Cfg) (h : Nat) : List Nat :=
  let ds := hexDigits h
  if cfg.hexPadded then List.replicate (16 - ds.length) 0 ++ ds else ds

/-- `len(fmt.Sprintf("%x", x))` for a Go int -/
def hexLenInt (x : Int) : Nat :=
  if x < 0 then 1 + (hexDigits x.natAbs).length else (hexDigits x.toNat).length

def charsPerLevel (cfg : Cfg) (per : Int) : Nat := max cfg.cplMin (hexLenInt (per - 1))

/-! ### slicing -/

/-- Go `s[a:b]`: `none` is the slice-bounds panic -/
def sliceGo {α : Type} (s : List α) (a b : Nat) : Option (List α) :=
  if a ≤ b ∧ b ≤ s.length then some ((s.drop a).take (b - a)) else none

/-- the level loop from level `i`, `k` levels to go; `none` as soon as one slice panics -/
def levelsFrom (cfg : Cfg) (hx : List Nat) (cpl : Nat) : Nat → Nat → Option (List (List Nat))
  | _, 0 => some []
  | i, k + 1 =>
    let start := i * cpl
    let end_ := min (start + cpl) hx.length
    let start' := if cfg.clampStart then min start hx.length else start
    match sliceGo hx start' end_ with
    | none => none
    | some p => (levelsFrom cfg hx cpl (i + 1) k).map (p :: ·)

/-- `generateHashedDirectoryPath` as a list of levels; negative depth = makeslice panic -/
def hashedLevels (cfg : Cfg) (h : Nat) (depth : Int) (per : Int) : Option (List (List Nat)) :=
  if depth < 0 then none else levelsFrom cfg (hashHex cfg h) (charsPerLevel cfg per) 0 depth.toNat

/-- what `GetFullHashPath` joins below the root: island, non-empty levels, folder name -/
structure Loc where
  island : Nat
  levels : List (List Nat)
  folder : List Nat
  deriving DecidableEq, Repr

def location (cfg : Cfg) (h : Nat) (island : Nat) (depth per : Int) : Option Loc :=
  (hashedLevels cfg h depth per).map fun ls => ⟨island, ls.filter (· ≠ []), hexDigits h⟩

/-- a second `GetFullHashPath(…, island2, depth2, per2)` on a name object that already answered for other arguments -/
def secondLocation (cfg : Cfg) (h : Nat) (i1 : Nat) (d1 p1 : Int) (i2 : Nat) (d2 p2 : Int) : Option Loc :=
  match location cfg h i1 d1 p1 with
  | some l1 => if cfg.pathCacheKeyedByArgs && (i1, d1, p1) != (i2, d2, p2) then location cfg h i2 d2 p2 else some l1
  | none => location cfg h i2 d2 p2

/-- names the constructors accept -/
def Valid (cfg : Cfg) (n : Name) : Prop := cfg.rejectsSlash = true → n.NoSlash

end Hv.Name
