/-
  Soundness of the static checker of `RequestCheck.lean` with respect to the semantics of
  `Request.lean`, for every entry, every context and every list of entries.
-/
import Hv.Misc.RequestCheck

namespace Hv.Request

/-- every atom of `K` evaluates to `false` (without panicking) on this entry -/
def Valid (cx : Ctx) (e : Entry) (K : Known) : Prop := ∀ a ∈ K, atomEval cx e a = some false

theorem valid_nil (cx : Ctx) (e : Entry) : Valid cx e [] := by
  intro a ha; cases ha

theorem valid_append {cx : Ctx} {e : Entry} {K1 K2 : Known}
    (h1 : Valid cx e K1) (h2 : Valid cx e K2) : Valid cx e (K1 ++ K2) := by
  intro a ha
  rcases List.mem_append.mp ha with h | h
  · exact h1 a h
  · exact h2 a h

theorem atomEval_ctx (cx cx' : Ctx) (e : Entry) (a : Atom) (h : a ≠ .notExistChk) :
    atomEval cx e a = atomEval cx' e a := by
  cases a <;> first | rfl | exact absurd rfl h

theorem valid_dropCtx {cx : Ctx} (cx' : Ctx) {e : Entry} {K : Known} (h : Valid cx e K) :
    Valid cx' e (dropCtx K) := by
  intro a ha
  simp only [dropCtx, List.mem_filter, bne_iff_ne, ne_eq] at ha
  rw [← atomEval_ctx cx cx' e a ha.2]
  exact h a ha.1

theorem mem_of_contains {K : Known} {a : Atom} (h : K.contains a = true) : a ∈ K := by
  simpa using h

theorem atomSafe_sound {cx : Ctx} {e : Entry} {K : Known} (hv : Valid cx e K) (a : Atom)
    (hs : atomSafe K a = true) : atomEval cx e a ≠ none := by
  cases a <;> try (simp [atomEval])
  -- key0Empty
  simp only [atomSafe, Bool.or_eq_true, Bool.and_eq_true] at hs
  rcases hs with h | ⟨h1, h2⟩
  · have := hv _ (mem_of_contains h)
    simp only [atomEval, Option.some.injEq, Bool.or_eq_false_iff] at this
    cases hk : e.keys <;> simp [hk] at this ⊢
  · have a1 := hv _ (mem_of_contains h1)
    have a2 := hv _ (mem_of_contains h2)
    simp only [atomEval, Option.some.injEq] at a1 a2
    cases hk : e.keys <;> simp [hk] at a1 a2 ⊢

theorem learnF_valid {cx : Ctx} {e : Entry} (c : Cond) (h : condEval cx e c = some false) :
    Valid cx e (learnF c) := by
  induction c with
  | atom a =>
    intro a' ha'
    simp only [learnF, List.mem_singleton] at ha'
    subst ha'; simpa [condEval] using h
  | not c _ => exact valid_nil cx e
  | and l r _ _ => exact valid_nil cx e
  | or l r ihl ihr =>
    simp only [condEval] at h
    cases hl : condEval cx e l with
    | none => simp [hl] at h
    | some b =>
      cases b with
      | true => simp [hl] at h
      | false =>
        simp only [hl] at h
        exact valid_append (ihl hl) (ihr h)

theorem condSafe_sound {cx : Ctx} {e : Entry} (c : Cond) :
    ∀ K : Known, Valid cx e K → condSafe K c = true → condEval cx e c ≠ none := by
  induction c with
  | atom a => intro K hv hs; exact atomSafe_sound hv a hs
  | not c ih =>
    intro K hv hs
    have := ih K hv hs
    simp only [condEval]
    cases hc : condEval cx e c with
    | none => exact absurd hc this
    | some b => simp
  | or l r ihl ihr =>
    intro K hv hs
    simp only [condSafe, Bool.and_eq_true] at hs
    have hl := ihl K hv hs.1
    simp only [condEval]
    cases hcl : condEval cx e l with
    | none => exact absurd hcl hl
    | some b =>
      cases b with
      | true => simp
      | false =>
        simp only
        exact ihr _ (valid_append (learnF_valid l hcl) hv) hs.2
  | and l r ihl ihr =>
    intro K hv hs
    simp only [condSafe, Bool.and_eq_true] at hs
    have hl := ihl K hv hs.1
    simp only [condEval]
    cases hcl : condEval cx e l with
    | none => exact absurd hcl hl
    | some b =>
      cases b with
      | false => simp
      | true =>
        simp only
        exact ihr K hv hs.2

theorem loadSafe_sound {cfg : Cfg} {cx : Ctx} {e : Entry} {K : Known} (hv : Valid cx e K)
    (hs : loadSafe cfg K = true) : loadPanics cfg e = false := by
  simp only [loadSafe, Bool.or_eq_true] at hs
  rcases hs with h | h
  · simp [loadPanics, h]
  · have := hv _ (mem_of_contains h)
    simp only [atomEval, Entry.nameInvalid, Option.some.injEq, Bool.or_eq_false_iff, bne_eq_false_iff_eq] at this
    simp [loadPanics, this.1]

/-- result component is neither kind of panic -/
def NoPanic (r : R) : Prop := r ≠ .panic ∧ r ≠ .crash ∧ ∀ t, r ≠ .hazard t

theorem basic_sound (cfg : Cfg) (cx : Ctx) (e : Entry) (hE : e.engine ≠ .panics) :
    ∀ (ss : List Step) (K K' : Known), Valid cx e K → knownBasic cfg K ss = some K' →
      NoPanic (runBasic cfg cx e ss).1 ∧ ((runBasic cfg cx e ss).1 = .next → Valid cx e K') := by
  intro ss
  induction ss with
  | nil =>
    intro K K' hv hk
    simp only [knownBasic, Option.some.injEq] at hk
    subst hk
    simp [runBasic, NoPanic, hv]
  | cons s ss ih =>
    intro K K' hv hk
    cases s with
    | guard c a =>
      simp only [knownBasic] at hk
      split at hk
      · rename_i hcs
        have hne := condSafe_sound c K hv hcs
        cases hc : condEval cx e c with
        | none => exact absurd hc hne
        | some b =>
          cases b with
          | false =>
            have := ih _ _ (valid_append (learnF_valid c hc) hv) hk
            simpa [runBasic, stepBasic, hc] using this
          | true =>
            cases a <;> simp [runBasic, stepBasic, hc, NoPanic]
      · simp at hk
    | load =>
      simp only [knownBasic] at hk
      split at hk
      · rename_i hls
        have hp := loadSafe_sound (cfg := cfg) hv hls
        have := ih _ _ hv hk
        simpa [runBasic, stepBasic, hp] using this
      · simp at hk
    | loadGo =>
      simp only [knownBasic] at hk
      split at hk
      · rename_i hls
        have hp := loadSafe_sound (cfg := cfg) hv hls
        have := ih _ _ hv hk
        simpa [runBasic, stepBasic, hp] using this
      · simp at hk
    | checkName ex m => simp [knownBasic] at hk
    | need a tag =>
      simp only [knownBasic] at hk
      split at hk
      · rename_i hc
        have ha := hv a (mem_of_contains hc)
        have := ih _ _ hv hk
        simpa [runBasic, stepBasic, ha] using this
      · simp at hk
    | body =>
      simp only [knownBasic] at hk
      have := ih _ _ hv hk
      cases hen : e.engine with
      | ok => simpa [runBasic, stepBasic, hen] using this
      | err c => simp [runBasic, stepBasic, hen, NoPanic]
      | panics => exact absurd hen hE
    | unknown => simp [knownBasic] at hk

theorem applyFail_noPanic (m : FailMode) (c : Code) (msg : String) :
    NoPanic (applyFail m c msg) ∧ applyFail m c msg ≠ .next := by
  cases m <;> simp [applyFail, NoPanic] <;> split <;> simp

theorem steps_sound (cfg : Cfg) (cx : Ctx) (e : Entry) (hE : e.engine ≠ .panics) :
    ∀ (ss : List Step) (K K' : Known), Valid cx e K → knownSteps cfg K ss = some K' →
      NoPanic (runE cfg cx e ss).1 ∧ ((runE cfg cx e ss).1 = .next → Valid cx e K') := by
  intro ss
  induction ss with
  | nil =>
    intro K K' hv hk
    simp only [knownSteps, Option.some.injEq] at hk
    subst hk
    simp [runE, NoPanic, hv]
  | cons s ss ih =>
    intro K K' hv hk
    cases s with
    | guard c a =>
      simp only [knownSteps] at hk
      split at hk
      · rename_i hcs
        have hne := condSafe_sound c K hv hcs
        cases hc : condEval cx e c with
        | none => exact absurd hc hne
        | some b =>
          cases b with
          | false =>
            have := ih _ _ (valid_append (learnF_valid c hc) hv) hk
            simpa [runE, stepE, stepBasic, hc] using this
          | true =>
            cases a <;> simp [runE, stepE, stepBasic, hc, NoPanic]
      · simp at hk
    | load =>
      simp only [knownSteps] at hk
      split at hk
      · rename_i hls
        have hp := loadSafe_sound (cfg := cfg) hv hls
        have := ih _ _ hv hk
        simpa [runE, stepE, stepBasic, hp] using this
      · simp at hk
    | loadGo =>
      simp only [knownSteps] at hk
      split at hk
      · rename_i hls
        have hp := loadSafe_sound (cfg := cfg) hv hls
        have := ih _ _ hv hk
        simpa [runE, stepE, stepBasic, hp] using this
      · simp at hk
    | checkName ex m =>
      simp only [knownSteps] at hk
      cases hkb : knownBasic cfg (dropCtx K) cfg.checkName with
      | none => simp [hkb] at hk
      | some K1 =>
        simp only [hkb] at hk
        let cx' : Ctx := { cx with checkExist := resolveExist cx ex }
        have hb := basic_sound cfg cx' e hE cfg.checkName _ _ (valid_dropCtx cx' hv) hkb
        -- the knowledge after the call: `dropCtx K1`, plus "the swamp exists" when the existence guard was live
        obtain ⟨K2, hK2, hk⟩ : ∃ K2, (Valid cx' e K1 → Valid cx e K2) ∧ knownSteps cfg K2 ss = some K' := by
          by_cases hyes : (ex == ExistP.yes && K1.contains Atom.notExistChk) = true
          · rw [if_pos hyes] at hk
            refine ⟨_, ?_, hk⟩
            intro hv1 a ha
            rcases List.mem_cons.mp ha with h | h
            · subst h
              simp only [Bool.and_eq_true, beq_iff_eq] at hyes
              have hx := hv1 _ (mem_of_contains hyes.2)
              have hce : cx'.checkExist = true := by simp [cx', resolveExist, hyes.1]
              simp only [atomEval, hce, Bool.true_and, Option.some.injEq] at hx
              simp [atomEval, hx]
            · exact valid_dropCtx cx hv1 a h
          · rw [if_neg hyes] at hk
            exact ⟨_, fun hv1 => valid_dropCtx cx hv1, hk⟩
        cases hr : runBasic cfg cx' e cfg.checkName with
        | mk r b =>
          have hr1 : (runBasic cfg cx' e cfg.checkName).1 = r := by rw [hr]
          rw [hr1] at hb
          cases r with
          | next =>
            have hv1 : Valid cx e K2 := hK2 (hb.2 rfl)
            have := ih _ _ hv1 hk
            simp only [runE, stepE, cx', hr] at this ⊢
            exact this
          | early => simp [runE, stepE, cx', hr, NoPanic]
          | reject c msg =>
            have := applyFail_noPanic m c msg
            simp only [runE, stepE, cx', hr]
            cases haf : applyFail m c msg with
            | next => exact absurd haf this.2
            | early => simp [NoPanic]
            | reject c' m' => simp [NoPanic]
            | panic => exact absurd haf this.1.1
            | crash => exact absurd haf this.1.2.1
            | hazard t => exact absurd haf (this.1.2.2 t)
          | panic => exact absurd rfl hb.1.1
          | crash => exact absurd rfl hb.1.2.1
          | hazard t => exact absurd rfl (hb.1.2.2 t)
    | need a tag =>
      simp only [knownSteps] at hk
      split at hk
      · rename_i hc
        have ha := hv a (mem_of_contains hc)
        have := ih _ _ hv hk
        simpa [runE, stepE, stepBasic, ha] using this
      · simp at hk
    | body =>
      simp only [knownSteps] at hk
      have := ih _ _ hv hk
      cases hen : e.engine with
      | ok => simpa [runE, stepE, stepBasic, hen] using this
      | err c => simp [runE, stepE, stepBasic, hen, NoPanic]
      | panics => exact absurd hen hE
    | unknown => simp [knownSteps] at hk

/-- the loop over entries: no panic, and the entries handed to the second loop carry `K'` -/
theorem loop_sound (cfg : Cfg) (cx : Ctx) (vd : Bool) (steps : List Step) (K K' : Known)
    (hk : knownSteps cfg K steps = some K') :
    ∀ es : List Entry, (∀ e ∈ es, Valid cx e K ∧ e.engine ≠ .panics) →
      NoPanic (loopE cfg cx vd steps es).r ∧
      (∀ e ∈ (loopE cfg cx vd steps es).passed, Valid cx e K' ∧ e.engine ≠ .panics) := by
  intro es
  induction es with
  | nil => intro _; simp [loopE, NoPanic]
  | cons e es ih =>
    intro hes
    have he := hes e (List.mem_cons_self ..)
    have hrest := ih (fun e' h' => hes e' (List.mem_cons_of_mem _ h'))
    have hs := steps_sound cfg cx e he.2 steps K K' he.1 hk
    cases hr : runE cfg cx e steps with
    | mk r b =>
      have hr1 : (runE cfg cx e steps).1 = r := by rw [hr]
      rw [hr1] at hs
      cases r with
      | next =>
        simp only [loopE, hr]
        refine ⟨hrest.1, ?_⟩
        intro e' he'
        rcases List.mem_cons.mp he' with h | h
        · subst h; exact ⟨hs.2 rfl, he.2⟩
        · exact hrest.2 e' h
      | early =>
        simp only [loopE, hr]
        exact ⟨hrest.1, hrest.2⟩
      | reject c m => simp [loopE, hr, NoPanic]
      | panic => exact absurd rfl hs.1.1
      | crash => exact absurd rfl hs.1.2.1
      | hazard t => exact absurd rfl (hs.1.2.2 t)

/-- assumptions on the request shape: the atoms of `A` are false on this entry -/
def Assumed (A : Known) (e : Entry) : Prop :=
  ∀ a ∈ A, a ≠ .notExistChk → ∀ cx, atomEval cx e a = some false

theorem assumed_valid {A : Known} {e : Entry} (h : Assumed A e) (cx : Ctx) : Valid cx e (dropCtx A) := by
  intro a ha
  simp only [dropCtx, List.mem_filter, bne_iff_ne, ne_eq] at ha
  exact h a ha.1 ha.2 cx

theorem assumed_nil (e : Entry) : Assumed [] e := by
  intro a ha; cases ha

theorem outcomeOf_defined (h : Handler) (hn : h.okNil = false) (r : R) (hp : NoPanic r) :
    (outcomeOf h r).defined = true := by
  cases r <;> simp [outcomeOf, Outcome.defined, hn]
  · exact absurd rfl hp.1
  · exact absurd rfl hp.2.1
  · exact absurd rfl (hp.2.2 _)

/-- **Definedness.**  A handler accepted by `safeH` answers every request whose entries satisfy the
    assumptions `A` with a response or a gRPC error — never `(nil, nil)`, never an escaping panic —
    as long as the engine below the prefix does not panic. -/
theorem exec_defined (cfg : Cfg) (A : Known) (h : Handler) (hs : safeH cfg A h = true)
    (hn : h.okNil = false) (sh : Shape)
    (hes : ∀ e ∈ entriesOf h sh, Assumed A e ∧ e.engine ≠ .panics) :
    (exec cfg h sh).out.defined = true := by
  simp only [safeH] at hs
  cases hk1 : knownSteps cfg (dropCtx A) h.val with
  | none => simp [hk1] at hs
  | some K1 =>
    simp only [hk1, Option.isSome_iff_exists] at hs
    obtain ⟨K2, hk2⟩ := hs
    let cx : Ctx := { single := (entriesOf h sh).length == 1, checkExist := false }
    have l1 := loop_sound cfg cx h.vigilDeferred h.val _ _ hk1 (entriesOf h sh)
      (fun e he => ⟨assumed_valid (hes e he).1 cx, (hes e he).2⟩)
    have l2 := loop_sound cfg cx h.vigilDeferred h.main _ _ hk2 _ l1.2
    simp only [exec]
    cases hr : (loopE cfg cx h.vigilDeferred h.val (entriesOf h sh)).r with
    | next =>
      simp only [cx] at hr l2
      simp only [hr]
      exact outcomeOf_defined h hn _ l2.1
    | early =>
      simp only [cx] at hr
      simp only [hr]
      simp [outcomeOf, Outcome.defined, hn]
    | reject c m =>
      simp only [cx] at hr
      simp only [hr]
      simp [outcomeOf, Outcome.defined]
    | panic => exact absurd hr l1.1.1
    | crash => exact absurd hr l1.1.2.1
    | hazard t => exact absurd hr (l1.1.2.2 t)

/-! ### Counters -/

theorem loop_leak (cfg : Cfg) (cx : Ctx) (steps : List Step) :
    ∀ es : List Entry, (loopE cfg cx true steps es).leak = 0 := by
  intro es
  induction es with
  | nil => simp [loopE]
  | cons e es ih =>
    cases hr : runE cfg cx e steps with
    | mk r b => cases r <;> simp [loopE, hr, ih]

/-- **Counters.**  With every `LockSystem` paired with a deferred `UnlockSystem` and every vigil
    ceased by `defer`, both counters are back at their pre-request value on *every* path — normal
    return, rejected request, recovered panic, escaping panic — for every shape and every engine
    behaviour (including a panicking engine), whatever the order of the deferred calls. -/
theorem exec_balanced (cfg : Cfg) (h : Handler) (hb : balancedH h = true) (sh : Shape) :
    (exec cfg h sh).lock = 0 ∧ (exec cfg h sh).vigil = 0 := by
  simp only [balancedH, Bool.and_eq_true, beq_iff_eq] at hb
  obtain ⟨⟨h1, h2⟩, h3⟩ := hb
  have hl : ∀ p, lockAfter h.defers p = 0 := by
    intro p
    simp only [lockAfter, h1, h2]
    cases p <;> simp
  simp only [exec, h3]
  split <;> simp [hl, loop_leak]

/-! ### A rejected request has not entered the engine -/

theorem basic_noBody (cfg : Cfg) (cx : Ctx) (e : Entry) :
    ∀ ss : List Step, ss.all (fun s => !isBody s) = true → (runBasic cfg cx e ss).2 = false := by
  intro ss
  induction ss with
  | nil => intro _; simp [runBasic]
  | cons s ss ih =>
    intro h
    simp only [List.all_cons, Bool.and_eq_true] at h
    have := ih h.2
    cases s with
    | guard c a =>
      simp only [runBasic, stepBasic]
      cases condEval cx e c with
      | none => simp
      | some b =>
        cases b with
        | false => simpa using this
        | true => cases a <;> simp
    | load => simp only [runBasic, stepBasic]; split <;> simp_all
    | loadGo => simp only [runBasic, stepBasic]; split <;> simp_all
    | checkName ex m => simpa [runBasic, stepBasic] using this
    | need a tag =>
      simp only [runBasic, stepBasic]
      cases atomEval cx e a with
      | none => simp
      | some b => cases b <;> simp [this]
    | body => simp [isBody] at h
    | unknown => simpa [runBasic, stepBasic] using this

theorem stepE_noBody (cfg : Cfg) (cx : Ctx) (e : Entry) (hc : cfg.checkName.all (fun s => !isBody s) = true)
    (s : Step) (hs : isBody s = false) : (stepE cfg cx e s).2 = false := by
  cases s with
  | guard c a =>
    simp only [stepE, stepBasic]
    cases condEval cx e c with
    | none => simp
    | some b =>
      cases b with
      | false => simp
      | true => cases a <;> simp
  | load => simp only [stepE, stepBasic]
  | loadGo => simp only [stepE, stepBasic]
  | checkName ex m =>
    have := basic_noBody cfg { cx with checkExist := resolveExist cx ex } e cfg.checkName hc
    simp only [stepE]
    cases hr : runBasic cfg { cx with checkExist := resolveExist cx ex } e cfg.checkName with
    | mk r b =>
      rw [hr] at this
      simp only at this
      subst this
      cases r <;> simp
  | need a tag =>
    simp only [stepE, stepBasic]
    cases atomEval cx e a with
    | none => simp
    | some b => cases b <;> simp
  | body => simp [isBody] at hs
  | unknown => simp [stepE, stepBasic]

theorem runE_noBody (cfg : Cfg) (cx : Ctx) (e : Entry) (hc : cfg.checkName.all (fun s => !isBody s) = true) :
    ∀ ss : List Step, ss.all (fun s => !isBody s) = true → (runE cfg cx e ss).2 = false := by
  intro ss
  induction ss with
  | nil => intro _; simp [runE]
  | cons s ss ih =>
    intro h
    simp only [List.all_cons, Bool.and_eq_true, Bool.not_eq_true'] at h
    have h1 := stepE_noBody cfg cx e hc s h.1
    have h2 := ih (by simpa using h.2)
    simp only [runE]
    cases hr : stepE cfg cx e s with
    | mk r b =>
      rw [hr] at h1
      simp only at h1
      subst h1
      cases r <;> simp [h2]

theorem loop_noBody (cfg : Cfg) (cx : Ctx) (vd : Bool) (hc : cfg.checkName.all (fun s => !isBody s) = true)
    (steps : List Step) (hs : steps.all (fun s => !isBody s) = true) :
    ∀ es : List Entry, (loopE cfg cx vd steps es).bodies = 0 := by
  intro es
  induction es with
  | nil => simp [loopE]
  | cons e es ih =>
    have := runE_noBody cfg cx e hc steps hs
    cases hr : runE cfg cx e steps with
    | mk r b =>
      rw [hr] at this
      simp only at this
      subst this
      cases r <;> simp [loopE, hr, ih]

def IsReject : R → Prop
  | .reject _ _ => True
  | _ => False

theorem stepE_noReject (cfg : Cfg) (cx : Ctx) (e : Entry) (hE : e.engine = .ok) (s : Step)
    (hs : canReject s = false) : ¬ IsReject (stepE cfg cx e s).1 := by
  cases s with
  | guard c a =>
    cases a with
    | reject c' m => simp [canReject] at hs
    | early =>
      simp only [stepE, stepBasic]
      cases condEval cx e c with
      | none => simp [IsReject]
      | some b => cases b <;> simp [IsReject]
  | load => simp only [stepE, stepBasic]; split <;> simp [IsReject]
  | loadGo => simp only [stepE, stepBasic]; split <;> simp [IsReject]
  | checkName ex m =>
    cases m with
    | allEarly =>
      simp only [stepE]
      cases hr : runBasic cfg { cx with checkExist := resolveExist cx ex } e cfg.checkName with
      | mk r b => cases r <;> simp [IsReject, applyFail]
    | propagate => simp [canReject] at hs
    | fpEarly => simp [canReject] at hs
    | nfEarly => simp [canReject] at hs
    | wrap c => simp [canReject] at hs
  | need a tag =>
    simp only [stepE, stepBasic]
    cases atomEval cx e a with
    | none => simp [IsReject]
    | some b => cases b <;> simp [IsReject]
  | body => simp [stepE, stepBasic, hE, IsReject]
  | unknown => simp [stepE, stepBasic, IsReject]

theorem runE_noReject (cfg : Cfg) (cx : Ctx) (e : Entry) (hE : e.engine = .ok) :
    ∀ ss : List Step, ss.all (fun s => !canReject s) = true → ¬ IsReject (runE cfg cx e ss).1 := by
  intro ss
  induction ss with
  | nil => intro _; simp [runE, IsReject]
  | cons s ss ih =>
    intro h
    simp only [List.all_cons, Bool.and_eq_true, Bool.not_eq_true'] at h
    have h1 := stepE_noReject cfg cx e hE s h.1
    have h2 := ih (by simpa using h.2)
    simp only [runE]
    cases hr : stepE cfg cx e s with
    | mk r b =>
      rw [hr] at h1
      cases r with
      | next => simpa using h2
      | early => simp [IsReject]
      | reject c m => exact absurd trivial h1
      | panic => simp [IsReject]
      | crash => simp [IsReject]
      | hazard t => simp [IsReject]

theorem loop_noReject (cfg : Cfg) (cx : Ctx) (vd : Bool) (steps : List Step)
    (hs : steps.all (fun s => !canReject s) = true) :
    ∀ es : List Entry, (∀ e ∈ es, e.engine = .ok) → ¬ IsReject (loopE cfg cx vd steps es).r := by
  intro es
  induction es with
  | nil => intro _; simp [loopE, IsReject]
  | cons e es ih =>
    intro hes
    have h1 := runE_noReject cfg cx e (hes e (List.mem_cons_self ..)) steps hs
    have h2 := ih (fun e' h' => hes e' (List.mem_cons_of_mem _ h'))
    cases hr : runE cfg cx e steps with
    | mk r b =>
      rw [hr] at h1
      cases r with
      | next => simpa [loopE, hr] using h2
      | early => simpa [loopE, hr] using h2
      | reject c m => exact absurd trivial h1
      | panic => simp [loopE, hr, IsReject]
      | crash => simp [loopE, hr, IsReject]
      | hazard t => simp [loopE, hr, IsReject]

/-- with the rejecting steps before the engine call, a rejection means the engine was not entered -/
theorem runE_ordered (cfg : Cfg) (cx : Ctx) (e : Entry) (hE : e.engine = .ok)
    (hc : cfg.checkName.all (fun s => !isBody s) = true) :
    ∀ ss : List Step, orderedRB ss = true → IsReject (runE cfg cx e ss).1 → (runE cfg cx e ss).2 = false := by
  intro ss
  induction ss with
  | nil => intro _ h; simp [runE, IsReject] at h
  | cons s ss ih =>
    intro ho hrj
    by_cases hb : isBody s = true
    · -- the engine call: nothing after it rejects
      cases s <;> simp [isBody] at hb
      simp only [orderedRB] at ho
      have := runE_noReject cfg cx e hE ss ho
      simp only [runE, stepE, stepBasic, hE] at hrj
      exact absurd hrj this
    · have hb' : isBody s = false := by simpa using hb
      have h1 := stepE_noBody cfg cx e hc s hb'
      have ho' : orderedRB ss = true := by
        cases s <;> first | exact ho | (simp [isBody] at hb')
      simp only [runE] at hrj ⊢
      cases hr : stepE cfg cx e s with
      | mk r b =>
        rw [hr] at h1 hrj
        simp only at h1
        subst h1
        cases r with
        | next =>
          simp only at hrj ⊢
          simpa using ih ho' hrj
        | early => simp
        | reject c m => simp
        | panic => simp
        | crash => simp
        | hazard t => simp

theorem loop_passed_length (cfg : Cfg) (cx : Ctx) (vd : Bool) (steps : List Step) :
    ∀ es : List Entry, (loopE cfg cx vd steps es).passed.length ≤ es.length := by
  intro es
  induction es with
  | nil => simp [loopE]
  | cons e es ih =>
    cases hr : runE cfg cx e steps with
    | mk r b => cases r <;> simp [loopE, hr] <;> omega

theorem loop_passed_mem (cfg : Cfg) (cx : Ctx) (vd : Bool) (steps : List Step) :
    ∀ es : List Entry, ∀ e ∈ (loopE cfg cx vd steps es).passed, e ∈ es := by
  intro es
  induction es with
  | nil => simp [loopE]
  | cons e es ih =>
    intro e' he'
    cases hr : runE cfg cx e steps with
    | mk r b =>
      cases r <;> simp only [loopE, hr] at he'
      · rcases List.mem_cons.mp he' with h | h
        · exact h ▸ List.mem_cons_self ..
        · exact List.mem_cons_of_mem _ (ih e' h)
      · exact List.mem_cons_of_mem _ (ih e' he')
      · cases he'
      · cases he'
      · cases he'
      · cases he'

/-- **Rejections are pure.**  For a writing handler accepted by `effectSafe`, a gRPC error
    (with an engine that answers normally, i.e. a rejection by the prefix) means that no entry
    entered the engine: the store cannot have changed. -/
theorem exec_rejectPure (cfg : Cfg) (h : Handler) (hw : h.writes = true) (he : effectSafe cfg h = true)
    (sh : Shape) (hes : ∀ e ∈ entriesOf h sh, e.engine = .ok)
    (hrej : isGrpcError (exec cfg h sh).out = true) : (exec cfg h sh).bodies = 0 := by
  simp only [effectSafe, hw, Bool.not_true, Bool.false_or, Bool.and_eq_true] at he
  obtain ⟨⟨hc, hv⟩, hm⟩ := he
  let cx : Ctx := { single := (entriesOf h sh).length == 1, checkExist := false }
  have b1 := loop_noBody cfg cx h.vigilDeferred hc h.val hv (entriesOf h sh)
  have hpm := loop_passed_mem cfg cx h.vigilDeferred h.val (entriesOf h sh)
  have hok2 : ∀ e ∈ (loopE cfg cx h.vigilDeferred h.val (entriesOf h sh)).passed, e.engine = .ok :=
    fun e he' => hes e (hpm e he')
  simp only [exec] at hrej ⊢
  cases hr : (loopE cfg cx h.vigilDeferred h.val (entriesOf h sh)).r with
  | next =>
    simp only [cx] at hr b1 hok2
    simp only [hr, b1, Nat.zero_add] at hrej ⊢
    by_cases hmu : h.multi = true
    · simp only [hmu, if_true] at hm
      have := loop_noReject cfg cx h.vigilDeferred h.main hm _ hok2
      simp only [cx] at this
      cases hr2 : (loopE cfg { single := (entriesOf h sh).length == 1, checkExist := false } h.vigilDeferred h.main
          (loopE cfg { single := (entriesOf h sh).length == 1, checkExist := false } h.vigilDeferred h.val (entriesOf h sh)).passed).r with
      | reject c m => rw [hr2] at this; exact absurd trivial this
      | next => rw [hr2] at hrej; simp only [outcomeOf] at hrej; split at hrej <;> simp [isGrpcError] at hrej
      | early => rw [hr2] at hrej; simp only [outcomeOf] at hrej; split at hrej <;> simp [isGrpcError] at hrej
      | panic => rw [hr2] at hrej; simp only [outcomeOf] at hrej; split at hrej <;> simp [isGrpcError] at hrej
      | crash => rw [hr2] at hrej; simp [outcomeOf, isGrpcError] at hrej
      | hazard t => rw [hr2] at hrej; simp [outcomeOf, isGrpcError] at hrej
    · have hmu' : h.multi = false := by simpa using hmu
      simp only [hmu', Bool.false_eq_true, if_false] at hm
      have hlen := loop_passed_length cfg cx h.vigilDeferred h.val (entriesOf h sh)
      simp only [cx] at hlen
      have hone : (entriesOf h sh).length = 1 := by simp [entriesOf, hmu']
      generalize hP : (loopE cfg { single := (entriesOf h sh).length == 1, checkExist := false } h.vigilDeferred h.val (entriesOf h sh)).passed = P at hrej hlen hok2 ⊢
      match P, hlen, hok2 with
      | [], _, _ => simp [loopE]
      | [e], _, hok =>
        have heok := hok e (List.mem_cons_self ..)
        have hord := runE_ordered cfg { single := (entriesOf h sh).length == 1, checkExist := false } e heok hc h.main hm
        cases hre : runE cfg { single := (entriesOf h sh).length == 1, checkExist := false } e h.main with
        | mk r b =>
          rw [hre] at hord
          cases r with
          | reject c m =>
            have := hord trivial
            simp only at this
            subst this
            simp [loopE, hre]
          | next => simp [loopE, hre, outcomeOf] at hrej; split at hrej <;> simp [isGrpcError] at hrej
          | early => simp [loopE, hre, outcomeOf] at hrej; split at hrej <;> simp [isGrpcError] at hrej
          | panic => simp [loopE, hre, outcomeOf] at hrej; split at hrej <;> simp [isGrpcError] at hrej
          | crash => simp [loopE, hre, outcomeOf, isGrpcError] at hrej
          | hazard t => simp [loopE, hre, outcomeOf, isGrpcError] at hrej
      | _ :: _ :: _, hl, _ => simp [hone] at hl
  | early => simp only [cx] at hr b1; simp [hr, b1]
  | reject c m => simp only [cx] at hr b1; simp [hr, b1]
  | panic => simp only [cx] at hr b1; simp [hr, b1]
  | crash => simp only [cx] at hr b1; simp [hr, b1]
  | hazard t => simp only [cx] at hr b1; simp [hr, b1]

/-! ### Counterexample search is sound by construction -/

theorem firstBadShape_spec (cfg : Cfg) (h : Handler) (p : String × Shape)
    (hp : firstBadShape cfg h = some p) : violatesB cfg h p.2 = true := by
  simp only [firstBadShape] at hp
  have := List.find?_some hp
  simpa using this

theorem firstBad_spec (cfg : Cfg) : ∀ (hs : List Handler) (h : Handler) (p : String × Shape),
    firstBad cfg hs = some (h, p) → h ∈ hs ∧ violatesB cfg h p.2 = true := by
  intro hs
  induction hs with
  | nil => intro h p hf; simp [firstBad] at hf
  | cons h0 hs ih =>
    intro h p hf
    simp only [firstBad] at hf
    cases hb : firstBadShape cfg h0 with
    | some q =>
      simp only [hb, Option.some.injEq, Prod.mk.injEq] at hf
      obtain ⟨rfl, rfl⟩ := hf
      exact ⟨List.mem_cons_self .., firstBadShape_spec cfg _ _ hb⟩
    | none =>
      simp only [hb] at hf
      have := ih h p hf
      exact ⟨List.mem_cons_of_mem _ this.1, this.2⟩

end Hv.Request
