/-
  Model of the SDK client's routing table (sdk/go/hydraidego/client/client.go).

  `Connect` walks the configured servers in order and, for each, executes
      for island := server.FromIsland; island <= server.ToIsland; island++ { c.serviceClients[island] = … }
  so the table is a map island ↦ server in which a LATER entry overwrites an earlier one.  Nothing
  checks that the ranges cover 1..allIslands or that they are disjoint.  `GetServiceClient(name)`
  computes `name.GetIslandID(c.allIslands)` and indexes the map; a missing island yields `nil`.
  (All servers are assumed reachable; a failed connection leaves its islands unrouted, which is the
  same as a gap.)  Core-only (linked into the driver).
-/
namespace Hv.Routing

structure Server where
  from_ : Nat
  to : Nat
  id : Nat
  deriving DecidableEq, Repr

def covers (s : Server) (i : Nat) : Bool := decide (s.from_ ≤ i) && decide (i ≤ s.to)

/-- `c.serviceClients[island]` after `Connect`: the LAST configured entry whose range contains the island -/
def route (servers : List Server) (i : Nat) : Option Server := servers.reverse.find? (covers · i)

/-- the ranges partition 1..N: every island of 1..N lies in the range of exactly one entry -/
def Partition (servers : List Server) (N : Nat) : Prop :=
  ∀ i, 1 ≤ i → i ≤ N → ∃ s ∈ servers, covers s i = true ∧ ∀ s' ∈ servers, covers s' i = true → s' = s

/-- what a caller gets for an island: a server, an error value, or a nil client (whose first use panics) -/
inductive Lookup where
  | server (s : Server)
  | error
  | nilClient
  deriving DecidableEq, Repr

def lookup (unroutedIsError : Bool) (servers : List Server) (i : Nat) : Lookup :=
  match route servers i with
  | some s => .server s
  | none => if unroutedIsError then .error else .nilClient

/-- executable form of `Partition` for the driver -/
def coverCount (servers : List Server) (i : Nat) : Nat := (servers.filter (covers · i)).length

def gapOrOverlap (servers : List Server) (N : Nat) : Option (Nat × Nat) :=
  ((List.range N).map (· + 1)).findSome? fun i =>
    let c := coverCount servers i
    if c = 1 then none else some (i, c)

end Hv.Routing
