/-
  A static checker for guard programs (`Hv/Misc/Request.lean`): an abstract interpretation
  that tracks which atomic tests are *known to be false* at a program point (because a guard
  on them fell through) and accepts a program only when every panicking construct is dominated
  by the guard that excludes its panic.  `RequestLemmas.lean` proves it sound for every entry.

  Computable; `classify` (Props/C26) runs it on the extracted handlers.
-/
import Hv.Misc.Request

namespace Hv.Request

abbrev Known := List Atom

/-- `keys[0]` needs `len(keys) > 0`: either `len(keys) == 0` is known false, or `keys == nil`
    is known false and the request is known not to carry a non-nil empty list. -/
def atomSafe (K : Known) : Atom → Bool
  | .key0Empty => K.contains .keysLen0 || (K.contains .keysNil && K.contains .keysEmptyNN)
  | _ => true

/-- atoms known to be false once the condition evaluated to `false` -/
def learnF : Cond → Known
  | .atom a => [a]
  | .or l r => learnF l ++ learnF r
  | _ => []

def condSafe (K : Known) : Cond → Bool
  | .atom a => atomSafe K a
  | .not c => condSafe K c
  | .or l r => condSafe K l && condSafe (learnF l ++ K) r
  | .and l r => condSafe K l && condSafe K r

def loadSafe (cfg : Cfg) (K : Known) : Bool := cfg.loadChecksLen || K.contains .nameInvalid

/-- the only atom whose value depends on the evaluation context -/
def dropCtx (K : Known) : Known := K.filter (· != .notExistChk)

/-- `some K'`: the steps cannot panic from `K`, and `K'` is known after they fall through -/
def knownBasic (cfg : Cfg) : Known → List Step → Option Known
  | K, [] => some K
  | K, .guard c _ :: ss => if condSafe K c then knownBasic cfg (learnF c ++ K) ss else none
  | K, .load :: ss => if loadSafe cfg K then knownBasic cfg K ss else none
  | K, .loadGo :: ss => if loadSafe cfg K then knownBasic cfg K ss else none
  | _, .checkName _ _ :: _ => none
  | K, .need a _ :: ss => if K.contains a then knownBasic cfg K ss else none
  | K, .body :: ss => knownBasic cfg K ss
  | _, .unknown :: _ => none

def knownSteps (cfg : Cfg) : Known → List Step → Option Known
  | K, [] => some K
  | K, .guard c _ :: ss => if condSafe K c then knownSteps cfg (learnF c ++ K) ss else none
  | K, .load :: ss => if loadSafe cfg K then knownSteps cfg K ss else none
  | K, .loadGo :: ss => if loadSafe cfg K then knownSteps cfg K ss else none
  | K, .checkName ex _ :: ss =>
    match knownBasic cfg (dropCtx K) cfg.checkName with
    | none => none
    | some K' =>
      -- called with `checkExist = true`, a fall-through of its existence guard means the swamp exists
      if ex == .yes && K'.contains .notExistChk then knownSteps cfg (.notExist :: dropCtx K') ss
      else knownSteps cfg (dropCtx K') ss
  | K, .need a _ :: ss => if K.contains a then knownSteps cfg K ss else none
  | K, .body :: ss => knownSteps cfg K ss
  | _, .unknown :: _ => none

/-- no entry of this handler can panic in the prefix, assuming the atoms of `A` are false -/
def safeH (cfg : Cfg) (A : Known) (h : Handler) : Bool :=
  match knownSteps cfg (dropCtx A) h.val with
  | none => false
  | some K1 => (knownSteps cfg K1 h.main).isSome

/-- every `LockSystem` has its deferred `UnlockSystem`; vigils are ceased by `defer` -/
def balancedH (h : Handler) : Bool :=
  h.defers.count .lock == h.defers.count .deferUnlock && h.defers.count .unlockAtEnd == 0 && h.vigilDeferred

def isBody : Step → Bool
  | .body => true
  | _ => false

/-- may answer with a gRPC error although the engine answers normally -/
def canReject : Step → Bool
  | .guard _ (.reject _ _) => true
  | .checkName _ .allEarly => false
  | .checkName _ _ => true
  | _ => false

/-- no rejecting step after the engine was entered -/
def orderedRB : List Step → Bool
  | [] => true
  | .body :: ss => ss.all (fun s => !canReject s)
  | _ :: ss => orderedRB ss

/-- a rejected request has not touched the engine -/
def effectSafe (cfg : Cfg) (h : Handler) : Bool :=
  !h.writes ||
    (cfg.checkName.all (fun s => !isBody s) && h.val.all (fun s => !isBody s) &&
      (if h.multi then h.main.all (fun s => !canReject s) else orderedRB h.main))

def checkH (cfg : Cfg) (A : Known) (h : Handler) : Bool :=
  h.recognised && !h.okNil && safeH cfg A h && balancedH h && effectSafe cfg h

def checkCfg (cfg : Cfg) (A : Known) : Bool := cfg.handlers.all (checkH cfg A)

/-! ### Counterexample search over representative shapes -/

def enginesAnswerB (h : Handler) (sh : Shape) : Bool := (entriesOf h sh).all (fun e => e.engine != .panics)
def enginesOkB (h : Handler) (sh : Shape) : Bool := (entriesOf h sh).all (fun e => e.engine == .ok)

def isGrpcError : Outcome → Bool
  | .grpcError _ _ => true
  | _ => false

/-- the shape is a counterexample to one clause of the property for this handler -/
def violatesB (cfg : Cfg) (h : Handler) (sh : Shape) : Bool :=
  let r := exec cfg h sh
  (enginesAnswerB h sh && !r.out.defined) || r.lock != 0 || r.vigil != 0 ||
    (h.writes && enginesOkB h sh && isGrpcError r.out && r.bodies != 0)

/-- representative entries, each with the tag used in finding ids -/
def candEntries : List (String × Entry) :=
  [ ("shortname",  { nameParts := 2 }),
    ("shortname",  { nameParts := 1 }),
    ("emptyname",  { nameEmpty := true, nameParts := 1, emptyPart := true }),
    ("emptykeys",  { keys := .empty }),
    ("nilkeys",    { keys := .nil }),
    ("firstkeyempty", { keys := .firstEmpty }),
    ("emptykeys",  { exist := false, keys := .empty }),
    ("missingswamp", { exist := false }),
    ("longname",   { nameParts := 4 }),
    ("emptypart",  { emptyPart := true }),
    ("kvnil",      { kvNil := true }),
    ("inczero",    { incZero := true }),
    ("noops",      { opsEmpty := true, metaNil := true }),
    ("nopatches",  { patchesEmpty := true }),
    ("badcap",     { cap := .badMax }),
    ("negfrom",    { fromNeg := true }),
    ("badkey",     { keyBad := true }),
    ("heldkey",    { lockHeld := true }),
    ("name65k",    { nameLong := true }),
    ("valid",      {}),
    ("enginepanic", { engine := .panics }),
    ("engineerr",  { engine := .err .internal }) ]

def good : Entry := {}

def candShapes : List (String × Shape) :=
  candEntries.map (fun (t, e) => (t, { top := e, entries := [e] })) ++
  candEntries.map (fun (t, e) => (t, { top := e, entries := [good, e] }))

def firstBadShape (cfg : Cfg) (h : Handler) : Option (String × Shape) :=
  candShapes.find? (fun p => violatesB cfg h p.2)

def firstBad (cfg : Cfg) : List Handler → Option (Handler × String × Shape)
  | [] => none
  | h :: hs => match firstBadShape cfg h with
    | some p => some (h, p)
    | none => firstBad cfg hs

/-- all finding ids `C26-<rpc>-<shape tag>` (for reporting; soundness uses `firstBad`).  A handler that
    fails already on the ordinary request (a leaked lock, a nil success response) gets the single id
    `C26-<rpc>-everyrequest` instead of one id per shape. -/
def findingIds (cfg : Cfg) : List String :=
  (cfg.handlers.flatMap fun h =>
    if violatesB cfg h { top := good, entries := [good] } then ["C26-" ++ h.name ++ "-everyrequest"]
    else (candShapes.filter (fun p => violatesB cfg h p.2)).map (fun p =>
      -- an engine hazard is named after the hazard, not after the shape that happened to show it
      match (exec cfg h p.2).out with
      | .engineHazard t => "C26-" ++ h.name ++ "-" ++ t
      | _ => "C26-" ++ h.name ++ "-" ++ p.1)).eraseDups

end Hv.Request
