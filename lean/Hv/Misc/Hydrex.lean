/-
  Model of sdk/go/hydraidego/hydrex/hydrex.go — a reverse index on top of catalogs.

  Per index name `i`:  core swamp  hydraideCoreData/i/<domain> : key ↦ value
                       index swamp hydraideIndex/i/<key>       : set of domains
  `Save(i, d, items)` as coded:
    1. read every (key, value) of core i d                       (`existing`)
    2. for each existing key NOT in `items`: delete d from index i key, delete key from core i d
    3. for each key of `items` NOT in `existing`: save (key, value) into core i d and d into index i key
       — an existing key is left untouched EVEN WHEN ITS VALUE DIFFERS (`updatesExisting = false`)
  `Destroy(i, d)`: read the keys of core i d, destroy the core swamp, delete d from index i key for each.
  The catalog layer underneath (read-many, save-many, delete-many, many-to-many, destroy) is taken
  to behave like a finite map per swamp; the correspondence run checks that against the real
  SDK + server.  `items` with a nil pointer (a Go panic in step 3) are not modelled.

  States are total functions, so the invariants quantify over EVERY index name, domain and key.
  Core-only (linked into the driver).
-/
namespace Hv.Hydrex

abbrev Idx := Nat
abbrev Dom := Nat
abbrev Key := Nat
abbrev Val := Nat

structure Cfg where
  updatesExisting : Bool     -- Save rewrites an existing key whose value differs
  saveRemovesStale : Bool    -- Save deletes keys (and their index entries) that are not in `items`
  destroyCleansIndex : Bool  -- Destroy deletes the domain from the index swamps of its keys
  deriving DecidableEq, Repr

structure St where
  core : Idx → Dom → Key → Option Val
  index : Idx → Key → Dom → Bool

def init : St := ⟨fun _ _ _ => none, fun _ _ _ => false⟩

inductive Op where
  | save (i : Idx) (d : Dom) (items : Key → Option Val)
  | destroy (i : Idx) (d : Dom)

def saveCore (cfg : Cfg) (old : Option Val) (new : Option Val) : Option Val :=
  match old, new with
  | some v, some w => if cfg.updatesExisting then some w else some v
  | some v, none => if cfg.saveRemovesStale then none else some v
  | none, n => n

def saveIndex (cfg : Cfg) (old : Option Val) (new : Option Val) (was : Bool) : Bool :=
  match old, new with
  | some _, none => if cfg.saveRemovesStale then false else was
  | none, some _ => true
  | _, _ => was

def step (cfg : Cfg) (s : St) : Op → St
  | .save i d items =>
    { core := fun i' d' k => if i' = i ∧ d' = d then saveCore cfg (s.core i d k) (items k) else s.core i' d' k,
      index := fun i' k d' => if i' = i ∧ d' = d then saveIndex cfg (s.core i d k) (items k) (s.index i k d) else s.index i' k d' }
  | .destroy i d =>
    { core := fun i' d' k => if i' = i ∧ d' = d then none else s.core i' d' k,
      index := fun i' k d' =>
        if i' = i ∧ d' = d ∧ cfg.destroyCleansIndex = true ∧ (s.core i d k).isSome then false else s.index i' k d' }

def run (cfg : Cfg) (s : St) (h : List Op) : St := h.foldl (step cfg) s

/-- the reverse index says exactly which domains currently hold the key -/
def Consistent (s : St) : Prop := ∀ i k d, s.index i k d = true ↔ (s.core i d k).isSome = true

end Hv.Hydrex
