/-
  Model of app/core/compressor/compressor.go — the *wrapper* only.  The four compression
  libraries are parameters (`Lib`): the theorems quantify over every library behaviour.

  The Go wrapper returns `(data, err)`.  `Res` distinguishes the three observable shapes:
  an error, data with a nil error, and the degenerate `(nil, nil)` the gzip wrapper produces
  when it returns its own (nil) named result `err` instead of the library's error.
-/
import Hv.Basic.Verdict

namespace Hv.Compressor

abbrev Bytes := List UInt8

inductive Alg where | gzip | lz4 | snappy | zstd
  deriving DecidableEq, Repr

/-- what a library call yields -/
inductive LibRes where
  | ok (data : Bytes)
  | err
  deriving DecidableEq, Repr

/-- what the wrapper's caller sees -/
inductive Res where
  | ok (data : Bytes)
  | err
  deriving DecidableEq, Repr

/-- How one error site of the wrapper treats a library error. -/
inductive Site where
  | propagates   -- returns the library's error
  | swallows     -- returns (nil, nil): a nil error with empty data
  | unknown
  deriving DecidableEq, Repr

structure Cfg where
  gzipNewReader : Site   -- `gzip.NewReader` failure (bad header)
  gzipRead      : Site   -- `io.ReadAll(gzReader)` failure (bad body / checksum)
  lz4Read       : Site
  snappyDecode  : Site
  zstdDecode    : Site
  deriving DecidableEq, Repr

/-- A library decoder: two-stage for gzip (header, then body), one-stage otherwise. -/
structure Lib where
  gzipHeaderOk : Bytes → Bool
  gzipBody     : Bytes → LibRes
  lz4          : Bytes → LibRes
  snappy       : Bytes → LibRes
  zstd         : Bytes → LibRes

def viaSite (s : Site) : Res :=
  match s with
  | .propagates => .err
  | _ => .ok []          -- (nil, nil)

def liftRes (s : Site) : LibRes → Res
  | .ok d => .ok d
  | .err => viaSite s

/-- `compressor.Decompress` -/
def decompress (cfg : Cfg) (lib : Lib) (a : Alg) (c : Bytes) : Res :=
  match a with
  | .gzip => if lib.gzipHeaderOk c then liftRes cfg.gzipRead (lib.gzipBody c) else viaSite cfg.gzipNewReader
  | .lz4 => liftRes cfg.lz4Read (lib.lz4 c)
  | .snappy => liftRes cfg.snappyDecode (lib.snappy c)
  | .zstd => liftRes cfg.zstdDecode (lib.zstd c)

/-- the library's own verdict on the same bytes -/
def libDecode (lib : Lib) (a : Alg) (c : Bytes) : LibRes :=
  match a with
  | .gzip => if lib.gzipHeaderOk c then lib.gzipBody c else .err
  | .lz4 => lib.lz4 c
  | .snappy => lib.snappy c
  | .zstd => lib.zstd c

/-- A library encoder (one per algorithm); `compress` is the wrapper around it: every
    `compressX` in compressor.go returns the library's bytes, or its error, unchanged. -/
abbrev Enc := Alg → Bytes → LibRes

/-- `compressor.Compress` -/
def compress (enc : Enc) (a : Alg) (x : Bytes) : Res :=
  match enc a x with
  | .ok c => .ok c
  | .err => .err

/-- The assumption under which round trips hold: the library decodes what it encoded. -/
def LibRoundTrips (enc : Enc) (lib : Lib) : Prop :=
  ∀ a x c, enc a x = .ok c → libDecode lib a c = .ok x

def Cfg.allPropagate (cfg : Cfg) : Bool :=
  cfg.gzipNewReader == .propagates && cfg.gzipRead == .propagates && cfg.lz4Read == .propagates &&
  cfg.snappyDecode == .propagates && cfg.zstdDecode == .propagates

end Hv.Compressor
