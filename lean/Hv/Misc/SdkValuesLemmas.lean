/-
  Lemmas about the SDK value conversions (Hv/Misc/SdkValues.lean).
-/
import Hv.Misc.SdkValues

namespace Hv.SdkValues

theorem two_pow_pos (k : Nat) : 0 < (2 : Int) ^ k := by
  induction k with
  | zero => simp
  | succ k ih => rw [Int.pow_succ]; omega

theorem two_pow_mono {a b : Nat} (h : a ≤ b) : (2 : Int) ^ a ≤ (2 : Int) ^ b := by
  induction b with
  | zero => have : a = 0 := by omega
            subst this; exact Int.le_refl _
  | succ b ih =>
    by_cases e : a = b + 1
    · subst e; exact Int.le_refl _
    · have := ih (by omega)
      have hp := two_pow_pos b
      rw [Int.pow_succ]; omega

/-- a hop whose integer type is at least as wide (same signedness) does not change an in-range value -/
theorem wrap_id (tk t : IntTy) (n : Int) (hr : inRange tk n) (hf : hopFits tk (some t) = true) (hw : 0 < tk.2) :
    wrap t n = n := by
  obtain ⟨sk, wk⟩ := tk
  obtain ⟨st, wt⟩ := t
  simp only [hopFits, Bool.and_eq_true, beq_iff_eq, decide_eq_true_eq] at hf
  obtain ⟨hs, hle⟩ := hf
  simp only at hs hle hw
  subst hs
  cases st with
  | true =>
    simp only [inRange, if_true] at hr
    simp only [wrap, if_true]
    have hm := two_pow_mono (show wk - 1 ≤ wt - 1 by omega)
    have hp := two_pow_pos (wt - 1)
    have hsucc : (2 : Int) ^ wt = 2 ^ (wt - 1) * 2 := by
      have : wt = (wt - 1) + 1 := by omega
      conv => lhs; rw [this]
      exact Int.pow_succ _ _
    rw [Int.emod_eq_of_lt (by omega) (by omega)]
    omega
  | false =>
    simp only [inRange, Bool.false_eq_true, if_false] at hr
    simp only [wrap, Bool.false_eq_true, if_false]
    have hm := two_pow_mono hle
    exact Int.emod_eq_of_lt hr.1 (by omega)

theorem hopFits_self (tk : IntTy) : hopFits tk (some tk) = true := by
  simp [hopFits]

/-- when the four tables connect an integer kind to itself without a narrowing hop, every in-range
    value comes back unchanged -/
theorem intHops_id (cfg : Cfg) (k : Kind) (tk : IntTy) (n : Int) (h : intOK cfg k tk = true) (hr : inRange tk n) :
    intHops cfg k tk n = some n := by
  unfold intOK at h
  unfold intHops
  cases he : cfg.enc.lookup k with
  | none => simp [he] at h
  | some f =>
    simp only [he] at h ⊢
    cases hs : cfg.store.lookup f with
    | none => simp [hs] at h
    | some c =>
      simp only [hs] at h ⊢
      cases hrd : cfg.read.lookup c with
      | none => simp [hrd] at h
      | some f' =>
        simp only [hrd] at h ⊢
        simp only [Bool.and_eq_true, decide_eq_true_eq] at h
        obtain ⟨⟨⟨⟨h1, h2⟩, h3⟩, h4⟩, hw⟩ := h
        cases hf : fieldInt f with
        | none => simp [hf, hopFits] at h1
        | some tf =>
          cases hc : contentInt c with
          | none => simp [hc, hopFits] at h2
          | some tc =>
            cases hf' : fieldInt f' with
            | none => simp [hf', hopFits] at h3
            | some tf' =>
              cases hd : cfg.dec.lookup f' with
              | none => simp [hd] at h4
              | some ks =>
                simp only [hd, Option.getD_some] at h4
                simp only [hf, hs, hc, hrd, hf', hd, h4, if_true]
                rw [hf] at h1; rw [hc] at h2; rw [hf'] at h3
                rw [wrap_id tk tf n hr h1 hw, wrap_id tk tc n hr h2 hw, wrap_id tk tf' n hr h3 hw,
                  wrap_id tk tk n hr (hopFits_self tk) hw]

end Hv.SdkValues
