/-
  Model of how the Go SDK classifies a `hydraide:"…"` struct tag
  (sdk/go/hydraidego/conversions.go, conversions_mapbody.go).

  Three pieces of code look at the same tag string:
  * the SHAPE DETECTOR `inspectCatalogModel`: `head := strings.Split(raw, ",")[0]`; `head` equal to a
    reserved name (key, value, expireAt, createdAt, createdBy, updatedAt, updatedBy) ⇒ first-class
    slot; any other non-empty head ⇒ a field of the msgpack map body, stored under `head`;
  * the ENCODER loop of `convertCatalogModelToKeyValuePair`: one `if` per slot, in the order
    key, value, expireAt, createdBy, createdAt, updatedBy, updatedAt; the key branch and the five
    metadata branches end in `continue`/`return`, the value branch FALLS THROUGH to the later ones;
  * the DECODER loop of `convertProtoTreasureToCatalogModel`: the same order, every branch ends in
    `continue` (first match wins) — and it runs AFTER the body fields were decoded, so a body field
    that also matches a slot is overwritten.

  Which predicate each `if` applies to the tag is a code fact (`Pred`):
    `eq`       tag == name            `contains`  strings.Contains(tag, name)
    `headEq`   head(tag) == name      `unknown`   not recognised (never fires in the model)
  Tags are `List Char`.  Core-only (linked into the driver).
-/
namespace Hv.SdkTags

abbrev Tag := List Char

inductive Slot where
  | key | value | expireAt | createdBy | createdAt | updatedBy | updatedAt
  deriving DecidableEq, Repr

inductive Pred where
  | eq | contains | headEq | unknown
  deriving DecidableEq, Repr

def slotName : Slot → Tag
  | .key => ['k', 'e', 'y']
  | .value => ['v', 'a', 'l', 'u', 'e']
  | .expireAt => ['e', 'x', 'p', 'i', 'r', 'e', 'A', 't']
  | .createdBy => ['c', 'r', 'e', 'a', 't', 'e', 'd', 'B', 'y']
  | .createdAt => ['c', 'r', 'e', 'a', 't', 'e', 'd', 'A', 't']
  | .updatedBy => ['u', 'p', 'd', 'a', 't', 'e', 'd', 'B', 'y']
  | .updatedAt => ['u', 'p', 'd', 'a', 't', 'e', 'd', 'A', 't']

/-- the order of the `if`s in both loops -/
def allSlots : List Slot := [.key, .value, .expireAt, .createdBy, .createdAt, .updatedBy, .updatedAt]
def metaSlots : List Slot := [.expireAt, .createdBy, .createdAt, .updatedBy, .updatedAt]

structure Preds where
  key : Pred
  value : Pred
  expireAt : Pred
  createdBy : Pred
  createdAt : Pred
  updatedBy : Pred
  updatedAt : Pred
  deriving DecidableEq, Repr

def Preds.get (p : Preds) : Slot → Pred
  | .key => p.key | .value => p.value | .expireAt => p.expireAt | .createdBy => p.createdBy
  | .createdAt => p.createdAt | .updatedBy => p.updatedBy | .updatedAt => p.updatedAt

structure Cfg where
  enc : Preds
  dec : Preds
  deriving DecidableEq, Repr

/-- `strings.Split(tag, ",")[0]` -/
def head (t : Tag) : Tag := t.takeWhile (· ≠ ',')

/-- `strings.Contains(t, pat)` -/
def hasInfix (pat : Tag) : Tag → Bool
  | [] => pat.isEmpty
  | c :: cs => pat.isPrefixOf (c :: cs) || hasInfix pat cs

def holdsPred : Pred → Tag → Tag → Bool
  | .eq, name, t => t == name
  | .contains, name, t => hasInfix name t
  | .headEq, name, t => head t == name
  | .unknown, _, _ => false

def fires (ps : Preds) (t : Tag) (s : Slot) : Bool := holdsPred (ps.get s) (slotName s) t

def firstOf (ps : Preds) (t : Tag) : List Slot → Option Slot
  | [] => none
  | s :: r => if fires ps t s then some s else firstOf ps t r

/-- slots the decoder assigns from, for a field with this tag (first match) -/
def decSlots (cfg : Cfg) (t : Tag) : List Slot := (firstOf cfg.dec t allSlots).toList

/-- slots the encoder writes from a field with this tag (the value branch falls through) -/
def encSlots (cfg : Cfg) (t : Tag) : List Slot :=
  if fires cfg.enc t .key then [.key]
  else (if fires cfg.enc t .value then [.value] else []) ++ (firstOf cfg.enc t metaSlots).toList

/-- the shape detector's answer: the reserved slot whose name IS the tag head -/
def headSlot (t : Tag) : Option Slot := allSlots.find? (fun s => head t == slotName s)

/-- body field of a map-body catalog: non-empty, non-reserved head; stored under `head t` -/
def isBody (t : Tag) : Bool := head t != [] && (headSlot t).isNone

/-- encoder, decoder and shape detector classify the tag identically -/
def Agree (cfg : Cfg) (t : Tag) : Prop :=
  encSlots cfg t = (headSlot t).toList ∧ decSlots cfg t = (headSlot t).toList

instance (cfg : Cfg) (t : Tag) : Decidable (Agree cfg t) := by unfold Agree; exact inferInstance

def Preds.allHeadEq (p : Preds) : Bool :=
  p.key == .headEq && p.value == .headEq && p.expireAt == .headEq && p.createdBy == .headEq &&
  p.createdAt == .headEq && p.updatedBy == .headEq && p.updatedAt == .headEq

def Cfg.allHeadEq (cfg : Cfg) : Bool := cfg.enc.allHeadEq && cfg.dec.allHeadEq

/-- no predicate is a substring test -/
def Preds.noContains (p : Preds) : Bool :=
  p.key != .contains && p.value != .contains && p.expireAt != .contains && p.createdBy != .contains &&
  p.createdAt != .contains && p.updatedBy != .contains && p.updatedAt != .contains

end Hv.SdkTags
