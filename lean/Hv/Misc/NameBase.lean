/-
  Swamp names as the Go code sees them: three byte strings (Go strings are byte strings; the
  separator test and xxhash both work on bytes), the canonical form `s/r/w` built by
  `Sanctuary().Realm().Swamp()` (app/name/name.go, field `Path`) and `Load`, which splits the
  canonical form on '/' and takes the parts with the FIXED indices 0, 1, 2 (a slice-bounds panic
  when fewer than three parts exist; a fourth part is silently dropped).

  Shared by C20 (addressing) and C21 (settings patterns are names; they are persisted in
  canonical form and re-read through `Load`).  Core-only.
-/
namespace Hv.Name

abbrev Bytes := List UInt8

/-- '/' -/
def slash : UInt8 := 0x2f
/-- '*' as a Go string -/
def star : Bytes := [0x2a]

structure Name where
  s : Bytes
  r : Bytes
  w : Bytes
  deriving DecidableEq, Repr, Inhabited

/-- `Path` after `New().Sanctuary(s).Realm(r).Swamp(w)`: `s + "/" + r + "/" + w`. -/
def canon (n : Name) : Bytes := n.s ++ slash :: (n.r ++ slash :: n.w)

/-- `strings.Split(x, "/")`: never empty; `""` gives `[""]`. Structural. -/
def splitSlash : Bytes → List Bytes
  | [] => [[]]
  | c :: cs =>
    if c = slash then [] :: splitSlash cs
    else match splitSlash cs with
      | [] => [[c]]            -- unreachable (`splitSlash_ne_nil`)
      | p :: ps => (c :: p) :: ps

/-- `name.Load`: `none` is the index-out-of-range panic. -/
def load (path : Bytes) : Option Name :=
  match splitSlash path with
  | s :: r :: w :: _ => some ⟨s, r, w⟩
  | _ => none

def NoSlash (b : Bytes) : Prop := slash ∉ b
def Name.NoSlash (n : Name) : Prop := Hv.Name.NoSlash n.s ∧ Hv.Name.NoSlash n.r ∧ Hv.Name.NoSlash n.w

instance (b : Bytes) : Decidable (NoSlash b) := by unfold NoSlash; exact inferInstance
instance (n : Name) : Decidable n.NoSlash := by unfold Name.NoSlash; exact inferInstance

theorem splitSlash_ne_nil (b : Bytes) : splitSlash b ≠ [] := by
  induction b with
  | nil => simp [splitSlash]
  | cons c cs ih =>
    simp only [splitSlash]
    split
    · simp
    · split <;> simp

theorem splitSlash_noSlash (a : Bytes) (h : NoSlash a) : splitSlash a = [a] := by
  induction a with
  | nil => rfl
  | cons c cs ih =>
    have hc : c ≠ slash := fun e => h (by simp [e])
    have hcs : NoSlash cs := fun m => h (List.mem_cons_of_mem _ m)
    simp [splitSlash, hc, ih hcs]

theorem splitSlash_append (a rest : Bytes) (h : NoSlash a) :
    splitSlash (a ++ slash :: rest) = a :: splitSlash rest := by
  induction a with
  | nil => simp [splitSlash]
  | cons c cs ih =>
    have hc : c ≠ slash := fun e => h (by simp [e])
    have hcs : NoSlash cs := fun m => h (List.mem_cons_of_mem _ m)
    simp [splitSlash, hc, ih hcs]

/-- `Load` inverts the canonical form exactly when no part contains the separator. -/
theorem load_canon (n : Name) (h : n.NoSlash) : load (canon n) = some n := by
  obtain ⟨hs, hr, hw⟩ := h
  simp [load, canon, splitSlash_append _ _ hs, splitSlash_append _ _ hr, splitSlash_noSlash _ hw]

/-- Hence the canonical form is injective on separator-free names. -/
theorem canon_inj (a b : Name) (ha : a.NoSlash) (hb : b.NoSlash) (h : canon a = canon b) : a = b := by
  have := load_canon a ha
  rw [h, load_canon b hb] at this
  exact (Option.some.inj this).symm

/-- The canonical form always has at least three parts, so re-loading it never panics. -/
theorem splitSlash_length_append (a rest : Bytes) :
    (splitSlash rest).length < (splitSlash (a ++ slash :: rest)).length := by
  induction a with
  | nil => simp [splitSlash]
  | cons c cs ih =>
    simp only [List.cons_append, splitSlash]
    split
    · simp; omega
    · split
      · rename_i h; exact absurd h (splitSlash_ne_nil _)
      · rename_i p ps h; rw [h] at ih; simpa using ih

theorem load_canon_isSome (n : Name) : (load (canon n)).isSome = true := by
  have h1 := splitSlash_length_append n.s (n.r ++ slash :: n.w)
  have h2 := splitSlash_length_append n.r n.w
  have h3 : 0 < (splitSlash n.w).length := List.length_pos_iff.mpr (splitSlash_ne_nil _)
  unfold load canon
  match h : splitSlash (n.s ++ slash :: (n.r ++ slash :: n.w)) with
  | [] => rw [h] at h1; simp only [List.length_nil] at h1; omega
  | [_] => rw [h] at h1; simp only [List.length_cons, List.length_nil] at h1; omega
  | [_, _] => rw [h] at h1; simp only [List.length_cons, List.length_nil] at h1; omega
  | _ :: _ :: _ :: _ => simp

/-- Separator collision: two different triples with the same canonical form. -/
def collideA : Name := ⟨[0x61, 0x2f, 0x62], [0x63], [0x64]⟩   -- ("a/b","c","d")
def collideB : Name := ⟨[0x61], [0x62, 0x2f, 0x63], [0x64]⟩   -- ("a","b/c","d")

theorem canon_collision : collideA ≠ collideB ∧ canon collideA = canon collideB := by decide

/-- …and `Load` of that canonical form is neither of them: it drops the fourth part. -/
theorem load_drops_fourth : load (canon collideA) = some ⟨[0x61], [0x62], [0x63]⟩ := by decide

end Hv.Name
