/-
  Lemmas about the settings lookup (Hv/Misc/Settings.lean).
-/
import Hv.Misc.Settings

namespace Hv.Settings
open Hv.Name

theorem matchesPat_iff (n p : Name) :
    matchesPat n p = true ↔ n.s = p.s ∧ (p.r = star ∨ n.r = p.r) ∧ (p.w = star ∨ n.w = p.w) := by
  simp [matchesPat, and_assoc]

/-- Patterns that match the same name and have the same rank are the same pattern. -/
theorem rank_inj (cfg : Cfg) (hr : 0 < cfg.wRealm) (hs : 0 < cfg.wSwamp) (hne : cfg.wRealm ≠ cfg.wSwamp)
    (n p q : Name) (hp : matchesPat n p = true) (hq : matchesPat n q = true)
    (h : rank cfg p = rank cfg q) : p = q := by
  rw [matchesPat_iff] at hp hq
  obtain ⟨ps, pr, pw⟩ := hp
  obtain ⟨qs, qr, qw⟩ := hq
  obtain ⟨p1, p2, p3⟩ := p
  obtain ⟨q1, q2, q3⟩ := q
  simp only at ps pr pw qs qr qw
  simp only [rank] at h
  have e1 : p1 = q1 := ps.symm.trans qs
  by_cases a : p2 = star <;> by_cases b : q2 = star <;> by_cases c : p3 = star <;> by_cases d : q3 = star <;>
    simp only [a, b, c, d, if_true, if_false] at h <;>
    first
      | (exfalso; omega)
      | (have e2 : p2 = q2 := by
          first
            | exact a.trans b.symm
            | exact (pr.resolve_left a).symm.trans (qr.resolve_left b)
         have e3 : p3 = q3 := by
          first
            | exact c.trans d.symm
            | exact (pw.resolve_left c).symm.trans (qw.resolve_left d)
         rw [e1, e2, e3])

theorem rank_nonneg (cfg : Cfg) (hr : 0 < cfg.wRealm) (hs : 0 < cfg.wSwamp) (p : Name) : 0 ≤ rank cfg p := by
  simp only [rank]; split <;> split <;> omega

/-- Invariant of the ranking loop with a strict comparison. -/
theorem rankedLoop_spec (cfg : Cfg) (hc : cfg.cmp = .gt) (n : Name) (l : List Entry) :
    ∀ st : Option Entry × Int,
      st.2 ≤ (rankedLoop cfg n st l).2 ∧
      (∀ x ∈ l, matchesPat n x.pat = true → rank cfg x.pat ≤ (rankedLoop cfg n st l).2) ∧
      (rankedLoop cfg n st l = st ∨
        ∃ e ∈ l, matchesPat n e.pat = true ∧ rankedLoop cfg n st l = (some e, rank cfg e.pat)) := by
  induction l with
  | nil => intro st; simp [rankedLoop]
  | cons a as ih =>
    intro st
    simp only [rankedLoop]
    by_cases hm : (matchesPat n a.pat && better cfg.cmp (rank cfg a.pat) st.2) = true
    · simp only [hm, if_true]
      obtain ⟨h1, h2, h3⟩ := ih (some a, rank cfg a.pat)
      simp only [Bool.and_eq_true, hc, better, decide_eq_true_eq] at hm
      refine ⟨by simp only at h1; omega, ?_, ?_⟩
      · intro x hx hmx
        rcases List.mem_cons.mp hx with rfl | hx
        · exact h1
        · exact h2 x hx hmx
      · rcases h3 with h3 | ⟨e, he, hme, h3⟩
        · exact Or.inr ⟨a, by simp, hm.1, h3⟩
        · exact Or.inr ⟨e, List.mem_cons_of_mem _ he, hme, h3⟩
    · have hm' : (matchesPat n a.pat && better cfg.cmp (rank cfg a.pat) st.2) = false := by simpa using hm
      simp only [hm', Bool.false_eq_true, if_false]
      obtain ⟨h1, h2, h3⟩ := ih st
      refine ⟨h1, ?_, ?_⟩
      · intro x hx hmx
        rcases List.mem_cons.mp hx with rfl | hx
        · simp only [hmx, Bool.true_and, hc, better, decide_eq_false_iff_not] at hm'
          omega
        · exact h2 x hx hmx
      · rcases h3 with h3 | ⟨e, he, hme, h3⟩
        · exact Or.inl h3
        · exact Or.inr ⟨e, List.mem_cons_of_mem _ he, hme, h3⟩

/-- What the ranked lookup returns for one iteration order. -/
theorem lookupIn_ranked_spec (cfg : Cfg) (hg : cfg.goodRank = true) (order : List Entry) (n : Name) :
    ((∀ x ∈ order, matchesPat n x.pat = false) ∧ lookupIn cfg order n = defaultEntry n) ∨
    (lookupIn cfg order n ∈ order ∧ matchesPat n (lookupIn cfg order n).pat = true ∧
      ∀ x ∈ order, matchesPat n x.pat = true → rank cfg x.pat ≤ rank cfg (lookupIn cfg order n).pat) := by
  simp only [Cfg.goodRank, Bool.and_eq_true, beq_iff_eq, decide_eq_true_eq] at hg
  obtain ⟨⟨⟨⟨hl, hc⟩, hr⟩, hs⟩, _⟩ := hg
  obtain ⟨_, h2, h3⟩ := rankedLoop_spec cfg hc n order (none, -1)
  simp only [lookupIn, hl]
  rcases h3 with h3 | ⟨e, he, hme, h3⟩
  · left
    rw [h3] at h2
    refine ⟨?_, by simp [h3]⟩
    intro x hx
    cases hmx : matchesPat n x.pat with
    | false => rfl
    | true =>
      have := h2 x hx hmx
      have := rank_nonneg cfg hr hs x.pat
      simp only at *; omega
  · right
    rw [h3] at h2
    simp only [h3, Option.getD_some]
    exact ⟨he, hme, h2⟩

/-- Entries that do not match the name are irrelevant to either loop. -/
theorem rankedLoop_filter (cfg : Cfg) (n : Name) (l : List Entry) :
    ∀ st, rankedLoop cfg n st (l.filter (fun e => matchesPat n e.pat)) = rankedLoop cfg n st l := by
  induction l with
  | nil => intro st; rfl
  | cons a as ih =>
    intro st
    cases hm : matchesPat n a.pat with
    | true => simp only [List.filter_cons, hm, if_true, rankedLoop, ih]
    | false => simp [hm, rankedLoop, ih]

theorem lookupIn_filter (cfg : Cfg) (order : List Entry) (n : Name) :
    lookupIn cfg (order.filter (fun e => matchesPat n e.pat)) n = lookupIn cfg order n := by
  simp only [lookupIn]
  split
  · rw [rankedLoop_filter]
  · congr 1
    induction order with
    | nil => rfl
    | cons a as ih =>
      cases hm : matchesPat n a.pat with
      | true => simp [hm]
      | false => simp [hm, ih]

theorem WF.perm {a b : List Entry} (h : WF a) (p : b.Perm a) : WF b :=
  ⟨fun e he => h.noSlash e (p.mem_iff.mp he),
   fun x hx y hy => h.keyed x (p.mem_iff.mp hx) y (p.mem_iff.mp hy)⟩

/-- Reloading a gateway-reachable registry whose fields are all persisted gives it back. -/
theorem reload_id (cfg : Cfg) (hp : cfg.persistsAll = true) (reg : List Entry) (h : WF reg) :
    reload cfg reg = reg := by
  simp only [Cfg.persistsAll, Bool.and_eq_true] at hp
  obtain ⟨⟨⟨h1, h2⟩, h3⟩, h4⟩ := hp
  unfold reload
  have : ∀ e ∈ reg, ofPM cfg (toPM e) = e := by
    intro e he
    obtain ⟨pat, f⟩ := e
    obtain ⟨a, b, c, d⟩ := f
    simp [ofPM, toPM, h1, h2, h3, h4, load_canon pat (h.noSlash _ he)]
  calc reg.map (fun e => ofPM cfg (toPM e)) = reg.map id := List.map_congr_left this
    _ = reg := List.map_id _

/-! ### registry operations keep the registry well-formed -/

theorem wf_nil : WF [] := ⟨by simp, by simp⟩

theorem wf_filter (reg : List Entry) (h : WF reg) (p : Entry → Bool) : WF (reg.filter p) :=
  ⟨fun e he => h.noSlash e (List.mem_filter.mp he).1,
   fun a ha b hb => h.keyed a (List.mem_filter.mp ha).1 b (List.mem_filter.mp hb).1⟩

theorem wf_deregister (reg : List Entry) (h : WF reg) (p : Name) : WF (deregister reg p) :=
  wf_filter reg h _

theorem wf_register (cfg : Cfg) (reg : List Entry) (h : WF reg) (p : Name) (hp : p.NoSlash) (m : Bool) (i w s : Int) :
    WF (register cfg reg p m i w s) := by
  unfold register
  simp only
  split
  · exact h
  · have hf := wf_filter reg h (fun e => !hasKey (canon p) e)
    constructor
    · intro e he
      rcases List.mem_append.mp he with he | he
      · exact hf.noSlash e he
      · simp only [List.mem_singleton] at he; subst he; exact hp
    · intro a ha b hb hab
      rcases List.mem_append.mp ha with ha | ha <;> rcases List.mem_append.mp hb with hb | hb
      · exact hf.keyed a ha b hb hab
      · simp only [List.mem_singleton] at hb; subst hb
        have := (List.mem_filter.mp ha).2
        simp [hasKey, entryOf, hab] at this
      · simp only [List.mem_singleton] at ha; subst ha
        have := (List.mem_filter.mp hb).2
        simp [hasKey, entryOf, ← hab] at this
      · simp only [List.mem_singleton] at ha hb; rw [ha, hb]

/-! ### the registry follows the registration history -/

theorem find_filter_other (reg : List Entry) (k k' : Bytes) (h : k' ≠ k) :
    (reg.filter (fun e => !hasKey k e)).find? (hasKey k') = reg.find? (hasKey k') := by
  induction reg with
  | nil => rfl
  | cons a as ih =>
    cases hk : hasKey k a with
    | true =>
      have hk' : hasKey k' a = false := by
        simp only [hasKey, beq_iff_eq] at hk
        simp only [hasKey, hk, beq_eq_false_iff_ne, ne_eq]
        exact fun e => h e.symm
      simp [List.filter_cons, hk, List.find?_cons, hk', ih]
    | false => simp [List.filter_cons, hk, List.find?_cons, ih]

theorem find_filter_self (reg : List Entry) (k : Bytes) :
    (reg.filter (fun e => !hasKey k e)).find? (hasKey k) = none := by
  rw [List.find?_eq_none]
  intro x hx
  have := (List.mem_filter.mp hx).2
  simpa using this

theorem entryFor_register (cfg : Cfg) (hc : cfg.unchangedChecksType = true) (reg : List Entry) (hw : WF reg)
    (p : Name) (hp : p.NoSlash) (m : Bool) (i w s : Int) (k' : Bytes) :
    entryFor (register cfg reg p m i w s) k' =
      if k' = canon p then some (entryOf p m i w s) else entryFor reg k' := by
  unfold register
  simp only
  by_cases hearly : (!m && unchanged cfg reg (canon p) i w s) = true
  · simp only [hearly, if_true]
    simp only [Bool.and_eq_true, Bool.not_eq_true', unchanged] at hearly
    obtain ⟨hm, hu⟩ := hearly
    by_cases hk : k' = canon p
    · subst hk
      simp only [if_true, entryFor]
      cases hf : reg.find? (hasKey (canon p)) with
      | none => simp [hf] at hu
      | some e =>
        simp only [hf, hc, Bool.not_true, Bool.false_or, Bool.and_eq_true, beq_iff_eq, Bool.not_eq_true'] at hu
        obtain ⟨⟨⟨h1, h2⟩, h3⟩, h4⟩ := hu
        have hmem := List.mem_of_find?_eq_some hf
        have hkey : canon e.pat = canon p := by
          have := List.find?_some hf
          simpa [hasKey] using this
        have hpat : e.pat = p := canon_inj _ _ (hw.noSlash e hmem) hp hkey
        obtain ⟨ep, ef⟩ := e
        obtain ⟨a, b, c, d⟩ := ef
        simp only at h1 h2 h3 h4 hpat
        subst hm hpat h1 h2 h3 h4
        rfl
    · simp [hk]
  · simp only [hearly, Bool.false_eq_true, if_false, entryFor, List.find?_append]
    by_cases hk : k' = canon p
    · subst hk
      rw [find_filter_self]
      simp [hasKey, entryOf]
    · rw [find_filter_other reg (canon p) k' hk]
      have : hasKey k' (entryOf p m i w s) = false := by
        simp only [hasKey, entryOf, beq_eq_false_iff_ne, ne_eq]
        exact fun e => hk e.symm
      simp [hk, this]

theorem entryFor_deregister (reg : List Entry) (p : Name) (k' : Bytes) :
    entryFor (deregister reg p) k' = if k' = canon p then none else entryFor reg k' := by
  unfold deregister entryFor
  by_cases hk : k' = canon p
  · subst hk; simp [find_filter_self]
  · simp [hk, find_filter_other reg (canon p) k' hk]

theorem wf_applyOp (cfg : Cfg) (reg : List Entry) (hw : WF reg) (op : RegOp) (hp : op.pat.NoSlash) :
    WF (applyOp cfg reg op) := by
  cases op with
  | reg p m i w s => exact wf_register cfg reg hw p hp m i w s
  | dereg p => exact wf_deregister reg hw p

theorem entryFor_applyOp (cfg : Cfg) (hc : cfg.unchangedChecksType = true) (reg : List Entry) (hw : WF reg)
    (op : RegOp) (hp : op.pat.NoSlash) : entryFor (applyOp cfg reg op) = specOp (entryFor reg) op := by
  funext k
  cases op with
  | reg p m i w s => exact entryFor_register cfg hc reg hw p hp m i w s k
  | dereg p => exact entryFor_deregister reg p k

/-- After ANY history of registrations, re-registrations and deregistrations, the registry holds for
    every key exactly the last registration (nothing after a deregistration). -/
theorem registry_follows_history (cfg : Cfg) (hc : cfg.unchangedChecksType = true) (h : List RegOp) :
    ∀ reg, WF reg → (∀ op ∈ h, op.pat.NoSlash) →
      entryFor (runOps cfg reg h) = specRun (entryFor reg) h ∧ WF (runOps cfg reg h) := by
  induction h with
  | nil => intro reg hw _; exact ⟨rfl, hw⟩
  | cons op rest ih =>
    intro reg hw hns
    have hop := hns op (by simp)
    have := ih (applyOp cfg reg op) (wf_applyOp cfg reg hw op hop) (fun o ho => hns o (List.mem_cons_of_mem _ ho))
    simp only [runOps, specRun, List.foldl_cons] at this ⊢
    rw [entryFor_applyOp cfg hc reg hw op hop] at this
    exact this

/-! ### runtime map and file side by side: every acknowledged registration is on disk -/

theorem entryFor_regForce (reg : List Entry) (p : Name) (m : Bool) (i w s : Int) (k' : Bytes) :
    entryFor (regForce reg p m i w s) k' = if k' = canon p then some (entryOf p m i w s) else entryFor reg k' := by
  simp only [regForce, entryFor, List.find?_append]
  by_cases hk : k' = canon p
  · subst hk
    rw [find_filter_self]
    simp [hasKey, entryOf]
  · rw [find_filter_other reg (canon p) k' hk]
    have : hasKey k' (entryOf p m i w s) = false := by
      simp only [hasKey, entryOf, beq_eq_false_iff_ne, ne_eq]
      exact fun e => hk e.symm
    simp [hk, this]

theorem wf_regForce (reg : List Entry) (h : WF reg) (p : Name) (hp : p.NoSlash) (m : Bool) (i w s : Int) :
    WF (regForce reg p m i w s) := by
  have hf := wf_filter reg h (fun e => !hasKey (canon p) e)
  constructor
  · intro e he
    rcases List.mem_append.mp he with he | he
    · exact hf.noSlash e he
    · simp only [List.mem_singleton] at he; subst he; exact hp
  · intro a ha b hb hab
    rcases List.mem_append.mp ha with ha | ha <;> rcases List.mem_append.mp hb with hb | hb
    · exact hf.keyed a ha b hb hab
    · simp only [List.mem_singleton] at hb; subst hb
      have := (List.mem_filter.mp ha).2
      simp [hasKey, entryOf, hab] at this
    · simp only [List.mem_singleton] at ha; subst ha
      have := (List.mem_filter.mp hb).2
      simp [hasKey, entryOf, ← hab] at this
    · simp only [List.mem_singleton] at ha hb; rw [ha, hb]

/-- what the early return knows about the runtime entry of the key -/
theorem unchanged_entry (cfg : Cfg) (hc : cfg.unchangedChecksType = true) (reg : List Entry) (hw : WF reg) (p : Name)
    (hp : p.NoSlash) (i w s : Int) (hu : unchanged cfg reg (canon p) i w s = true) :
    entryFor reg (canon p) = some (entryOf p false i w s) := by
  have := entryFor_register cfg hc reg hw p hp false i w s (canon p)
  simp only [register, hu, Bool.not_false, Bool.true_and, if_true] at this
  simpa using this

/-- the invariant carried along a history -/
structure RDInv (s : RD) (h : List POp) : Prop where
  wf : WF s.rt
  rtSpec : entryFor s.rt = specRun (fun _ => none) (h.map POp.toRegOp)
  diskSpec : ∀ k x, specDisk h k = some x → entryFor s.disk k = x
  clean : s.dirty = false → entryFor s.disk = entryFor s.rt

theorem specRun_snoc (f : Bytes → Option Entry) (h : List RegOp) (op : RegOp) :
    specRun f (h ++ [op]) = specOp (specRun f h) op := by
  simp [specRun, List.foldl_append]

theorem specDisk_snoc (h : List POp) (op : POp) : specDisk (h ++ [op]) = specDiskOp (specDisk h) op := by
  simp [specDisk, List.foldl_append]

theorem runRD_snoc (cfg : Cfg) (s : RD) (h : List POp) (op : POp) : runRD cfg s (h ++ [op]) = stepRD cfg (runRD cfg s h) op := by
  simp [runRD, List.foldl_append]

/-- keys whose last operation is a registration of any kind are in the runtime map with exactly that entry, so a
    full save (disk := runtime) satisfies every promise of the file Spec -/
theorem specDisk_le_rt_gen (h : List POp) :
    ∀ (f : Bytes → Option (Option Entry)) (g : Bytes → Option Entry), (∀ k x, f k = some x → g k = x) →
      ∀ k x, h.foldl specDiskOp f k = some x → (h.map POp.toRegOp).foldl specOp g k = x := by
  induction h with
  | nil => intro f g hfg k x hs; exact hfg k x hs
  | cons op rest ih =>
    intro f g hfg k x hs
    simp only [List.foldl_cons, List.map_cons] at hs ⊢
    refine ih (specDiskOp f op) (specOp g op.toRegOp) ?_ k x hs
    intro k' x' hs'
    cases op with
    | reg p m i w s =>
      simp only [specDiskOp, POp.toRegOp, specOp] at hs' ⊢
      by_cases hk : k' = canon p
      · simp only [hk, if_true] at hs' ⊢; exact Option.some.inj hs'
      · simp only [hk, if_false] at hs' ⊢; exact hfg k' x' hs'
    | torn p m i w s =>
      simp only [specDiskOp, POp.toRegOp, specOp] at hs' ⊢
      by_cases hk : k' = canon p
      · simp [hk] at hs'
      · simp only [hk, if_false] at hs' ⊢; exact hfg k' x' hs'
    | dereg p =>
      simp only [specDiskOp, POp.toRegOp, specOp] at hs' ⊢
      by_cases hk : k' = canon p
      · simp only [hk, if_true] at hs' ⊢; exact Option.some.inj hs'
      · simp only [hk, if_false] at hs' ⊢; exact hfg k' x' hs'

theorem specDisk_le_rt (h : List POp) (k : Bytes) (x : Option Entry) (hs : specDisk h k = some x) :
    specRun (fun _ => none) (h.map POp.toRegOp) k = x :=
  specDisk_le_rt_gen h (fun _ => some none) (fun _ => none) (fun _ x hx => by simpa using hx) k x hs

theorem rdinv_step (cfg : Cfg) (hc : cfg.unchangedChecksType = true) (hd : cfg.unchangedChecksDisk = true)
    (ha : cfg.saveAtomic = true) (s : RD) (h : List POp) (op : POp) (hp : op.pat.NoSlash) (hi : RDInv s h) :
    RDInv (stepRD cfg s op) (h ++ [op]) := by
  obtain ⟨hw, hrt, hdk, hcl⟩ := hi
  cases op with
  | dereg p =>
    refine ⟨wf_deregister s.rt hw p, ?_, ?_, fun _ => rfl⟩
    · simp only [stepRD, List.map_append, List.map_singleton, specRun_snoc, POp.toRegOp, ← hrt]
      funext k; exact entryFor_deregister s.rt p k
    · intro k x hs
      have := specDisk_le_rt (h ++ [.dereg p]) k x hs
      simp only [stepRD, List.map_append, List.map_singleton, specRun_snoc, POp.toRegOp, ← hrt] at this ⊢
      rw [← this]; exact entryFor_deregister s.rt p k
  | reg p m i w sz =>
    have hrt' : ∀ rt', (entryFor rt' = fun k => if k = canon p then some (entryOf p m i w sz) else entryFor s.rt k) →
        entryFor rt' = specRun (fun _ => none) ((h ++ [POp.reg p m i w sz]).map POp.toRegOp) := by
      intro rt' e
      simp only [List.map_append, List.map_singleton, specRun_snoc, POp.toRegOp, ← hrt, specOp]; exact e
    by_cases he : earlyRD cfg s p m i w sz = true
    · simp only [stepRD, he, if_true]
      simp only [earlyRD, Bool.and_eq_true, Bool.not_eq_true', hd, Bool.not_true, Bool.false_or] at he
      obtain ⟨⟨hm, hu⟩, hclean⟩ := he
      subst hm
      have hent := unchanged_entry cfg hc s.rt hw p hp i w sz hu
      refine ⟨hw, hrt' s.rt ?_, ?_, hcl⟩
      · funext k; by_cases hk : k = canon p
        · subst hk; simp [hent]
        · simp [hk]
      · intro k x hs
        rw [specDisk_snoc] at hs
        simp only [specDiskOp] at hs
        by_cases hk : k = canon p
        · subst hk; simp only [if_true] at hs; rw [← Option.some.inj hs, hcl hclean]; exact hent
        · simp only [hk, if_false] at hs; exact hdk k x hs
    · have he' : earlyRD cfg s p m i w sz = false := by simpa using he
      simp only [stepRD, he', Bool.false_eq_true, if_false]
      have hf : entryFor (regForce s.rt p m i w sz) = fun k => if k = canon p then some (entryOf p m i w sz) else entryFor s.rt k :=
        funext fun k => entryFor_regForce s.rt p m i w sz k
      refine ⟨wf_regForce s.rt hw p hp m i w sz, hrt' _ hf, ?_, fun _ => rfl⟩
      intro k x hs
      have := specDisk_le_rt (h ++ [.reg p m i w sz]) k x hs
      rw [← hrt' _ hf] at this
      exact this
  | torn p m i w sz =>
    have hrt' : ∀ rt', (entryFor rt' = fun k => if k = canon p then some (entryOf p m i w sz) else entryFor s.rt k) →
        entryFor rt' = specRun (fun _ => none) ((h ++ [POp.torn p m i w sz]).map POp.toRegOp) := by
      intro rt' e
      simp only [List.map_append, List.map_singleton, specRun_snoc, POp.toRegOp, ← hrt, specOp]; exact e
    have hdisk' : ∀ disk', disk' = s.disk → ∀ k x, specDisk (h ++ [POp.torn p m i w sz]) k = some x → entryFor disk' k = x := by
      intro disk' e k x hs
      subst e
      rw [specDisk_snoc] at hs
      simp only [specDiskOp] at hs
      by_cases hk : k = canon p
      · simp [hk] at hs
      · simp only [hk, if_false] at hs; exact hdk k x hs
    by_cases he : earlyRD cfg s p m i w sz = true
    · simp only [stepRD, he, if_true]
      simp only [earlyRD, Bool.and_eq_true, Bool.not_eq_true', hd, Bool.not_true, Bool.false_or] at he
      obtain ⟨⟨hm, hu⟩, _⟩ := he
      subst hm
      have hent := unchanged_entry cfg hc s.rt hw p hp i w sz hu
      refine ⟨hw, hrt' s.rt ?_, hdisk' s.disk rfl, hcl⟩
      funext k; by_cases hk : k = canon p
      · subst hk; simp [hent]
      · simp [hk]
    · have he' : earlyRD cfg s p m i w sz = false := by simpa using he
      simp only [stepRD, he', Bool.false_eq_true, if_false, ha, if_true]
      exact ⟨wf_regForce s.rt hw p hp m i w sz, hrt' _ (funext fun k => entryFor_regForce s.rt p m i w sz k), hdisk' s.disk rfl,
        fun h => by simp at h⟩

/-- Every ACKNOWLEDGED registration is on disk: after any history of registrations (also torn ones) and
    deregistrations, the file holds for every key whose last operation was an untorn registration exactly that
    registration, and nothing for a key that was deregistered last (`acknowledged_is_durable`). -/
theorem rdinv_run (cfg : Cfg) (hc : cfg.unchangedChecksType = true) (hd : cfg.unchangedChecksDisk = true)
    (ha : cfg.saveAtomic = true) (h : List POp) :
    ∀ (h0 : List POp) (s : RD), (∀ op ∈ h, op.pat.NoSlash) → RDInv s h0 → RDInv (runRD cfg s h) (h0 ++ h) := by
  induction h with
  | nil => intro h0 s _ hi; simpa [runRD] using hi
  | cons op rest ih =>
    intro h0 s hns hi
    have hstep := rdinv_step cfg hc hd ha s h0 op (hns op (by simp)) hi
    have := ih (h0 ++ [op]) (stepRD cfg s op) (fun o ho => hns o (List.mem_cons_of_mem _ ho)) hstep
    simpa [runRD, List.append_assoc] using this

theorem acknowledged_is_durable (cfg : Cfg) (hc : cfg.unchangedChecksType = true) (hd : cfg.unchangedChecksDisk = true)
    (ha : cfg.saveAtomic = true) (h : List POp) (hns : ∀ op ∈ h, op.pat.NoSlash) :
    RDInv (runRD cfg ⟨[], [], false⟩ h) h := by
  have := rdinv_run cfg hc hd ha h [] ⟨[], [], false⟩ hns ⟨wf_nil, rfl, fun k x hs => by simp [specDisk] at hs; subst hs; rfl, fun _ => rfl⟩
  simpa using this

end Hv.Settings
