/-
  Refinement lemmas, part 2: delete paths, state-level bookkeeping (summon / settle), increments,
  uint32-slice requests.  Core-only proofs.
-/
import Hv.Data.KVLemmas

namespace Hv.Data
open Content

/-! ### delete paths -/

theorem instOK_deleteRec (cfg : Cfg) (i : Inst) (k : Key) (hi : InstOK cfg i) :
    InstOK cfg (Model.deleteRec i k) :=
  ⟨hi.infl, fun p hp => hi.recs p (AL.mem_erase k i.recs p hp), AL.sorted_erase _ _ hi.srt⟩

theorem absI_deleteRec (i : Inst) (k : Key) : absI (Model.deleteRec i k) = AL.erase k (absI i) := by
  simp [absI, Model.deleteRec, AL.erase_mapV]

theorem shiftLoop_sim (cfg : Cfg) (ar : Arith) (keys : List Key) :
    ∀ (i : Inst), InstOK cfg i →
    InstOK cfg (Model.shiftLoop ar i keys).1 ∧
    (absI (Model.shiftLoop ar i keys).1, (Model.shiftLoop ar i keys).2) = Spec.shiftAll ar (absI i) keys := by
  induction keys with
  | nil => intro i hi; exact ⟨hi, rfl⟩
  | cons k rest ih =>
    intro i hi
    simp only [Model.shiftLoop, Spec.shiftAll, find_absI]
    cases hf : AL.find k i.recs with
    | none => simp only [Option.map_none]; exact ih i hi
    | some t =>
      simp only [Option.map_some]
      obtain ⟨a1, a2⟩ := ih (Model.deleteRec i k) (instOK_deleteRec cfg i k hi)
      have ht : RecOK cfg t := hi.recs (k, t) (AL.find_mem _ _ _ hf)
      obtain ⟨u, hu⟩ := (wf_iff t.c).mp ht.wf
      have hcl : ({ t with c := t.c.clone } : MRec).abs = t.abs := by
        simp [MRec.abs, hu, clone_ofVal]
      refine ⟨a1, ?_⟩
      rw [← absI_deleteRec, ← a2, hcl]

theorem delLoop_sim (cfg : Cfg) (keys : List Key) :
    ∀ (i : Inst), InstOK cfg i →
    InstOK cfg (Model.delLoop i keys).1 ∧
    (absI (Model.delLoop i keys).1, (Model.delLoop i keys).2) = Spec.delAll (absI i) keys := by
  induction keys with
  | nil => intro i hi; exact ⟨hi, rfl⟩
  | cons k rest ih =>
    intro i hi
    simp only [Model.delLoop, Spec.delAll, has_absI]
    cases hh : AL.has k i.recs with
    | false =>
      simp only [Bool.false_eq_true, if_false]
      obtain ⟨a1, a2⟩ := ih i hi
      exact ⟨a1, by rw [← a2]⟩
    | true =>
      simp only [if_true]
      obtain ⟨a1, a2⟩ := ih (Model.deleteRec i k) (instOK_deleteRec cfg i k hi)
      refine ⟨a1, ?_⟩
      rw [← absI_deleteRec, ← a2]

/-! ### `SaveFunction`: the stored view, whatever the status -/

theorem sorted_absI (cfg : Cfg) (i : Inst) (hi : InstOK cfg i) : AL.Sorted (absI i) :=
  AL.sorted_mapV _ _ hi.srt

theorem save_abs (cfg : Cfg) (i : Inst) (k : Key) (t : MRec) (raised : Bool)
    (hi : InstOK cfg i) (hwf : t.c.WF) :
    InstOK cfg (Model.save cfg i k t raised).1 ∧
    absI (Model.save cfg i k t raised).1 = AL.insert k t.abs (absI i) ∧
    (Model.save cfg i k t raised).1.recs ≠ [] := by
  cases hf : AL.find k i.recs with
  | none =>
    obtain ⟨a, b, _, d⟩ := save_new cfg i k t raised hi hwf hf
    exact ⟨a, b, d⟩
  | some told =>
    have hne : i.recs ≠ [] := by
      intro e; rw [e] at hf; simp [AL.find] at hf
    simp only [Model.save, hf]
    cases hc : t.changed with
    | true =>
      simp only [if_true]
      refine ⟨?_, ?_, AL.insert_ne_nil _ _ _⟩
      · exact instOK_insert cfg i k _ hi (cleared_ok cfg t hwf (fun _ => trivial)) _ rfl hi.infl
      · simp only [absI]; rw [← AL.insert_mapV, cleared_abs]
    | false =>
      simp only [Bool.false_eq_true, if_false]
      by_cases he : t = told
      · simp only [he, if_true]
        have hfa : AL.find k (absI i) = some told.abs := by rw [find_absI, hf]; rfl
        refine ⟨hi, ?_, hne⟩
        rw [AL.insert_same k told.abs (absI i) (sorted_absI cfg i hi) hfa]
      · simp only [he, if_false]
        have hclean : RecOK cfg t := ⟨hwf, fun _ => hc⟩
        refine ⟨instOK_insert cfg i k t hi hclean _ rfl hi.infl, ?_, AL.insert_ne_nil _ _ _⟩
        simp only [absI]; rw [← AL.insert_mapV]

/-! ### state-level bookkeeping -/

theorem summon_facts (cfg : Cfg) (s : State) (hinv : Inv cfg s) :
    InstOK cfg (Model.summon s) ∧ absI (Model.summon s) = Model.abs s ∧
    Model.exists_ s = !(Model.abs s).isEmpty ∧
    (s.live = none → (Model.summon s).recs = []) := by
  cases hl : s.live with
  | none =>
    simp only [Model.summon, Model.abs, Model.exists_, hl, hinv.nofile, absI]
    refine ⟨⟨rfl, fun p hp => by simp [AL.mapV] at hp, by simp [AL.mapV, AL.Sorted]⟩, by simp [AL.mapV], by simp [AL.mapV], fun _ => by simp [AL.mapV]⟩
  | some i =>
    obtain ⟨hi, hne⟩ := hinv.live i hl
    simp only [Model.summon, Model.abs, Model.exists_, hl, absI]
    refine ⟨hi, by first | rfl | trivial, ?_, fun h => by cases h⟩
    simp only [Option.isSome_some, Bool.true_or, AL.isEmpty_mapV]
    cases hr : i.recs with
    | nil => exact absurd hr hne
    | cons _ _ => rfl

theorem inv_withLive (cfg : Cfg) (s : State) (i : Inst) (hinv : Inv cfg s) (hi : InstOK cfg i) (hne : i.recs ≠ []) :
    Inv cfg (Model.withLive s i) ∧ Model.abs (Model.withLive s i) = absI i := by
  refine ⟨⟨hinv.alive, hinv.nofile, fun j hj => ?_⟩, by simp [Model.withLive, Model.abs, absI]⟩
  simp only [Model.withLive, Option.some.injEq] at hj
  subst hj; exact ⟨hi, hne⟩

theorem inv_dropLive (cfg : Cfg) (s : State) (hinv : Inv cfg s) :
    Inv cfg { s with live := none } ∧ Model.abs { s with live := none } = [] := by
  refine ⟨⟨hinv.alive, hinv.nofile, fun j hj => by cases hj⟩, ?_⟩
  simp [Model.abs, hinv.nofile, AL.mapV]

theorem settleAfterTouch_sim (cfg : Cfg) (s : State) (i : Inst) (hinv : Inv cfg s) (hi : InstOK cfg i)
    (hq : Q cfg (Model.settleAfterTouch cfg s i).2) :
    Inv cfg (Model.settleAfterTouch cfg s i).1 ∧ Model.abs (Model.settleAfterTouch cfg s i).1 = absI i := by
  unfold Model.settleAfterTouch at hq ⊢
  cases hr : i.recs with
  | nil =>
    have habs : absI i = [] := by simp [absI, hr, AL.mapV]
    have hfn : s.file.isNone = true := by rw [hinv.nofile]; rfl
    simp only [hr, List.isEmpty_nil, hfn, Bool.and_self, if_true, hi.infl] at hq ⊢
    cases hn : cfg.noEmptyLive with
    | true =>
      simp only [Bool.true_and, if_true]
      rw [habs]; exact inv_dropLive cfg s hinv
    | false =>
      simp only [hn, Bool.false_and, Bool.false_eq_true, if_false] at hq
      exact Q.absurd_tag hq (fun hg => by have := Cfg.good_noEmptyLive hg; rw [this] at hn; cases hn)
  | cons p t =>
    simp only [List.isEmpty_cons, Bool.false_and, Bool.false_eq_true, if_false]
    have hne : i.recs ≠ [] := by rw [hr]; simp
    exact inv_withLive cfg s i hinv hi hne

theorem settleAfterDelete_sim (cfg : Cfg) (s : State) (i : Inst) (hinv : Inv cfg s) (hi : InstOK cfg i) :
    Inv cfg (Model.settleAfterDelete s i) ∧ Model.abs (Model.settleAfterDelete s i) = absI i := by
  unfold Model.settleAfterDelete
  cases hr : i.recs with
  | nil =>
    have habs : absI i = [] := by simp [absI, hr, AL.mapV]
    simp only [List.isEmpty_nil, if_true, Model.destroy]
    refine ⟨⟨hinv.alive, rfl, fun j hj => by cases hj⟩, ?_⟩
    simp [Model.abs, AL.mapV, habs]
  | cons p t =>
    simp only [List.isEmpty_cons, Bool.false_eq_true, if_false]
    have hne : i.recs ≠ [] := by rw [hr]; simp
    exact inv_withLive cfg s i hinv hi hne

end Hv.Data
