/-
  Close and reload over several sessions and either write interval: the invariant that reduces
  C05's `Holds` to a per-request obligation.

  `POK e i` — "the file image and the write buffer together describe the records": for every key
  that is NOT waiting for the writer, what the instance's file image holds under that key is the
  persisted form of the live record (or nothing, if there is no live record).

  Proved here, for ANY facts, ANY kind and ANY file the instance was loaded from:
    * `closeDisk_pok`, `close_view_pok` : from a `POK` state, close + reload shows every record
      passed once through the storage encoding (the general form of `close_view`);
    * `pok_summon`   : an instance loaded from a file written by a close is `POK` again;
    * `pok_save_new`, `pok_save_changed`, `pok_save_same`, `pok_delete_filed` : the write-buffer
      steps that keep it, each with the side condition it needs.
  What remains (`*_partial` in Props/C05): that every request reaches the write buffer only
  through these steps with their side conditions met — "a treasure whose `changed` flag is clear
  after a request is the stored one" (flag accuracy, needs `resetsFlags ∧ metaCompare` or sticky
  flags) and "a key of the file is filed or its delete is queued" (needs `recreateKeepsPointer`).
-/
import Hv.Data.Persist

namespace Hv.Data
open Model

structure POK (e : Encoding) (i : Inst) : Prop where
  srt : AL.Sorted i.recs
  dsrt : AL.Sorted (i.disk.getD [])
  sync : ∀ k, k ∉ i.waiting → AL.find k (i.disk.getD []) = (AL.find k i.recs).map (persistRec e)

/-- the file a close writes is exactly the persisted records -/
theorem closeDisk_pok (cfg : Cfg) (i : Inst) (hi : POK cfg.encoding i) :
    (Model.closeDisk cfg i).getD [] = AL.mapV (persistRec cfg.encoding) i.recs := by
  unfold Model.closeDisk Model.flushDisk
  by_cases hw : i.waiting.isEmpty = true
  · simp only [hw, if_true]
    apply AL.sorted_ext
    · exact hi.dsrt
    · exact AL.sorted_mapV _ _ hi.srt
    · intro k
      have hwn : i.waiting = [] := by simpa using hw
      rw [hi.sync k (by rw [hwn]; simp), AL.find_mapV]
  · simp only [hw, Bool.false_eq_true, if_false, Option.getD_some]
    apply AL.sorted_ext
    · exact flush_sorted _ _ _ _ hi.dsrt
    · exact AL.sorted_mapV _ _ hi.srt
    · intro k
      rw [flush_find, AL.find_mapV]
      by_cases hk : k ∈ i.waiting
      · simp [hk]
      · simp only [hk, if_false]
        exact hi.sync k hk

/-- **close + reload from any `POK` state** (any kind but in-memory, any number of earlier sessions) -/
theorem close_view_pok (cfg : Cfg) (s : State) (hk : s.kind ≠ .mem) (hd : s.dead = false) (i : Inst)
    (hl : s.live = some i) (hi : POK cfg.encoding i) :
    Model.abs (Model.closeStep cfg s).1 = AL.mapV (reloadView cfg.encoding) i.recs := by
  have hf := closeDisk_pok cfg i hi
  cases hkind : s.kind with
  | mem => exact absurd hkind hk
  | p0 => simp only [Model.closeStep, hd, Bool.false_eq_true, if_false, hl, hkind, Model.abs]; rw [hf, AL.mapV_mapV]; rfl
  | p1 => simp only [Model.closeStep, hd, Bool.false_eq_true, if_false, hl, hkind, Model.abs]; rw [hf, AL.mapV_mapV]; rfl

/-- an instance summoned from a file is `POK`, provided the file is in key order and holds persisted records -/
theorem pok_summon (e : Encoding) (s : State) (hl : s.live = none)
    (hs : AL.Sorted (s.file.getD [])) (hp : ∀ p, p ∈ s.file.getD [] → persistRec e (loadRec p.2) = p.2) :
    POK e (Model.summon s) := by
  unfold Model.summon
  simp only [hl]
  refine ⟨AL.sorted_mapV _ _ hs, ?_, fun k _ => ?_⟩
  · cases hf : s.file with
    | none => exact AL.sorted_nil
    | some f => simpa [hf] using hs
  · show AL.find k (s.file.getD []) = (AL.find k (AL.mapV loadRec (s.file.getD []))).map (persistRec e)
    rw [AL.find_mapV]
    cases hf : AL.find k (s.file.getD []) with
    | none => rfl
    | some p =>
      have hm := hp (k, p) (AL.find_mem _ _ _ hf)
      simp only [Option.map_some]
      exact congrArg some hm.symm

theorem not_mem_addWaiting {w : List Key} {k k' : Key} (h : k' ∉ Model.addWaiting w k) : k' ∉ w ∧ k' ≠ k :=
  ⟨fun hw => h (mem_addWaiting w k k' (Or.inl hw)), fun he => h (mem_addWaiting w k k' (Or.inr he))⟩

/-- a record is stored and its key queued: the file image may stay as it is -/
theorem pok_insert_queue (e : Encoding) (i i' : Inst) (k : Key) (t : MRec) (hi : POK e i)
    (hr : i'.recs = AL.insert k t i.recs) (hd : i'.disk = i.disk)
    (hw : ∀ k', k' ∉ i'.waiting → k' ∉ i.waiting ∧ k' ≠ k) : POK e i' := by
  refine ⟨by rw [hr]; exact AL.sorted_insert _ _ _ hi.srt, by rw [hd]; exact hi.dsrt, fun k' hk' => ?_⟩
  obtain ⟨h1, h2⟩ := hw k' hk'
  rw [hd, hr, hi.sync k' h1, AL.find_insert_ne k k' t i.recs h2]

/-- a record is stored and the write buffer (with its key) is written at once -/
theorem pok_insert_flush (e : Encoding) (i i' : Inst) (k : Key) (t : MRec) (hi : POK e i)
    (hr : i'.recs = AL.insert k t i.recs) (_hw : i'.waiting = [])
    (hd : i'.disk = Model.flushDisk e (AL.insert k t i.recs) (Model.addWaiting i.waiting k) i.disk) : POK e i' := by
  have hne : (Model.addWaiting i.waiting k).isEmpty = false := by
    have : k ∈ Model.addWaiting i.waiting k := mem_addWaiting _ _ _ (Or.inr rfl)
    cases hq : Model.addWaiting i.waiting k with
    | nil => rw [hq] at this; cases this
    | cons a b => rfl
  have hdisk : i'.disk.getD [] = (Model.addWaiting i.waiting k).foldl (Model.flushStep e (AL.insert k t i.recs)) (i.disk.getD []) := by
    rw [hd]; simp only [Model.flushDisk, hne, Bool.false_eq_true, if_false, Option.getD_some]
  refine ⟨by rw [hr]; exact AL.sorted_insert _ _ _ hi.srt, by rw [hdisk]; exact flush_sorted _ _ _ _ hi.dsrt, fun k' _ => ?_⟩
  rw [hdisk, hr, flush_find]
  by_cases hk : k' ∈ Model.addWaiting i.waiting k
  · simp [hk]
  · simp only [hk, if_false]
    obtain ⟨h1, h2⟩ := not_mem_addWaiting hk
    rw [hi.sync k' h1, AL.find_insert_ne k k' t i.recs h2]

/-- **`SaveFunction` keeps `POK`**, provided a treasure it classifies as "not modified" (flag clear)
    is the stored one or is already queued — the flag-accuracy obligation of the callers -/
theorem pok_save (cfg : Cfg) (i : Inst) (k : Key) (t : MRec) (fresh : Bool) (hi : POK cfg.encoding i)
    (hacc : ∀ told, AL.find k i.recs = some told → t.changed = false → t = told ∨ k ∈ i.waiting) :
    POK cfg.encoding (Model.save cfg i k t fresh).1 := by
  unfold Model.save
  cases hf : AL.find k i.recs with
  | none =>
    cases hm : (i.imm && cfg.saveReleasesImmediate) with
    | true => simp only [if_true]; exact pok_insert_flush _ i _ k _ hi rfl rfl rfl
    | false =>
      simp only [Bool.false_eq_true, if_false]
      exact pok_insert_queue _ i _ k _ hi rfl rfl (fun k' h => not_mem_addWaiting h)
  | some told =>
    simp only
    cases hc : t.changed with
    | true =>
      simp only [if_true]
      cases hm : (i.imm && cfg.saveReleasesImmediate) with
      | true => simp only [if_true]; exact pok_insert_flush _ i _ k _ hi rfl rfl rfl
      | false =>
        simp only [Bool.false_eq_true, if_false]
        exact pok_insert_queue _ i _ k _ hi rfl rfl (fun k' h => not_mem_addWaiting h)
    | false =>
      simp only [Bool.false_eq_true, if_false]
      by_cases he : t = told
      · simp only [he, if_true]; exact ⟨hi.srt, hi.dsrt, hi.sync⟩
      · simp only [he, if_false]
        rcases hacc told hf hc with h | h
        · exact absurd h he
        · exact pok_insert_queue _ i _ k t hi rfl rfl (fun k' hk' => ⟨hk', fun hkk => hk' (hkk ▸ h)⟩)

/-- **`deleteHandler` keeps `POK`**, provided an object without a file pointer is not in the file —
    the obligation that `recreateKeepsPointer` is about -/
theorem pok_delete (e : Encoding) (i : Inst) (k : Key) (hi : POK e i)
    (hfiled : i.filed.contains k = false → AL.find k (i.disk.getD []) = none) : POK e (Model.deleteRec i k) := by
  refine ⟨AL.sorted_erase _ _ hi.srt, hi.dsrt, fun k' hk' => ?_⟩
  simp only [Model.deleteRec] at hk' ⊢
  by_cases hkk : k' = k
  · subst hkk
    rw [AL.find_erase_self]
    cases hc : i.filed.contains k' with
    | true => simp only [hc, if_true] at hk'; exact absurd (mem_addWaiting _ _ _ (Or.inr rfl)) hk'
    | false => simpa using hfiled hc
  · rw [AL.find_erase_ne k k' i.recs hkk]
    apply hi.sync
    intro hw
    apply hk'
    split
    · exact mem_addWaiting _ _ _ (Or.inl hw)
    · simp only [List.mem_filter, bne_iff_ne, ne_eq]; exact ⟨hw, hkk⟩

theorem persist_load_typeTagged (p : PRec) : persistRec .typeTagged (loadRec p) = p := rfl

end Hv.Data
