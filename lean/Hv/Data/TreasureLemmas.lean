/-
  Lemmas about the content setters on well-formed contents (`c = ofVal u`) and on the nil
  content of a fresh treasure.  Core-only proofs.
-/
import Hv.Data.Treasure

namespace Hv.Data
open Content

@[simp] theorem vis_ofVal (v : Val) : (ofVal v).vis = v := by
  cases v <;> simp [ofVal, vis]

theorem ofVal_inj {u v : Val} (h : ofVal u = ofVal v) : u = v := by
  have := congrArg Content.vis h
  simpa using this

theorem wf_ofVal (v : Val) : (ofVal v).WF := by
  simp [WF]

theorem wf_iff (c : Content) : c.WF ↔ ∃ u, c = ofVal u := by
  constructor
  · intro h; exact ⟨c.vis, h⟩
  · rintro ⟨u, rfl⟩; exact wf_ofVal u

theorem ofVal_isNil (v : Val) : (ofVal v).isNil = false := by
  cases v <;> rfl

theorem fresh_ne_ofVal (v : Val) : Content.fresh ≠ ofVal v := by
  intro h
  have := congrArg Content.isNil h
  simp [Content.fresh, ofVal_isNil] at this

theorem ofVal_val_of_scalar (u v : Val) (hv : v.scalar = true) : (ofVal u).val = v ↔ u = v := by
  cases u <;> cases v <;> simp [ofVal, Val.scalar] at hv ⊢

theorem setScalar_ofVal (u v : Val) (hv : v.scalar = true) :
    setScalar (ofVal u) v = if u = v then ⟨ofVal u, false⟩ else ⟨ofVal v, true⟩ := by
  have hval := ofVal_val_of_scalar u v hv
  have hofv : ({ val := v } : Content) = ofVal v := by cases v <;> simp [ofVal, Val.scalar] at hv ⊢
  unfold setScalar
  by_cases h : u = v
  · have : (ofVal u).val = v := hval.mpr h
    subst h
    simp [ofVal_isNil, this]
  · have : ¬ (ofVal u).val = v := fun e => h (hval.mp e)
    simp [ofVal_isNil, this, h, hofv]

theorem setScalar_fresh (v : Val) (hv : v.scalar = true) :
    setScalar Content.fresh v = ⟨ofVal v, true⟩ := by
  have hofv : ({ val := v } : Content) = ofVal v := by cases v <;> simp [ofVal, Val.scalar] at hv ⊢
  simp [setScalar, Content.fresh, hofv]

theorem setVoid_fresh (cfg : SetterCfg) : setVoid cfg Content.fresh = ⟨ofVal .none, true⟩ := by
  simp [setVoid, Content.fresh, ofVal]

theorem ofVal_void (u : Val) : (ofVal u).void = true ↔ u = .none := by
  cases u <;> simp [ofVal]

theorem setVoid_ofVal (cfg : SetterCfg) (u : Val) :
    setVoid cfg (ofVal u) =
      if u = .none then ⟨ofVal .none, false⟩
      else if cfg.voidClears then ⟨ofVal .none, true⟩ else ⟨ofVal u, true⟩ := by
  unfold setVoid
  by_cases h : u = .none
  · subst h; simp [ofVal]
  · have hv : (ofVal u).void = false := by
      cases hb : (ofVal u).void with
      | false => rfl
      | true => exact absurd ((ofVal_void u).mp hb) h
    simp [ofVal_isNil, hv, h]
    cases cfg.voidClears <;> simp [ofVal]

theorem pushRaw_fresh (vs : List Nat) :
    pushRaw Content.fresh vs = ⟨ofVal (.u32s (pushU32 [] vs)), decide (pushU32 [] vs ≠ [])⟩ := by
  simp only [pushRaw, Content.fresh, ofVal, Option.getD]
  by_cases h : pushU32 [] vs = [] <;> simp [h]

theorem pushRaw_slice (l vs : List Nat) :
    pushRaw (ofVal (.u32s l)) vs = ⟨ofVal (.u32s (pushU32 l vs)), decide (pushU32 l vs ≠ l)⟩ := by
  simp only [pushRaw, ofVal, Option.getD]
  by_cases h : pushU32 l vs = l <;> simp [h]

/-- a push onto anything but a slice (or a fresh treasure) leaves the visible value not a slice
    with the pushed content: it is hidden -/
theorem pushRaw_vis_nonslice (u : Val) (vs : List Nat) (hu : ∀ l, u ≠ .u32s l) (hn : u ≠ .none) :
    (pushRaw (ofVal u) vs).c.vis = u := by
  cases u <;> simp [pushRaw, ofVal, vis] at hu hn ⊢

theorem pushRaw_vis_void (vs : List Nat) : (pushRaw (ofVal .none) vs).c.vis = .none := by
  simp [pushRaw, ofVal, vis]

theorem delRaw_slice (l vs : List Nat) :
    delRaw (ofVal (.u32s l)) vs = ⟨ofVal (.u32s (delU32 l vs)), !(delU32 l vs).isEmpty⟩ := by
  simp [delRaw, ofVal]

theorem ofVal_slice (u : Val) : (ofVal u).slice = match u with | .u32s l => some l | _ => none := by
  cases u <;> simp [ofVal]

theorem clone_ofVal (u : Val) : (ofVal u).clone = ofVal u := by
  cases u <;> simp [ofVal, Content.clone]

end Hv.Data
