/-
  Close / reload at record level and at swamp level (C05).

  * `persistContent` / `persistRec` / `loadRec` (KV.lean) model `LoadFromByte ∘ ConvertToByte`:
    with `encoding/gob` every zero-valued field is omitted from the stream, so a typed zero comes
    back as "no value".
  * `DOK`: the "every mutation marks dirty" invariant of a swamp that has not been written yet
    (write interval > 0): every record of the key beacon is in `treasuresWaitingForWriter`.
  * `close_view`: what a close + reload shows, for every history and every value of the other facts.

  Core-only proofs.
-/
import Hv.Data.KVLemmas6

namespace Hv.Data
open Content

/-! ### record level -/

theorem persistContent_typeTagged (c : Content) : persistContent .typeTagged c = c := rfl

/-- the reloaded view of a record -/
def reloadView (e : Encoding) (t : MRec) : Rec := (loadRec (persistRec e t)).abs

theorem reloadView_typeTagged (t : MRec) : reloadView .typeTagged t = t.abs := rfl

theorem persistContent_gob_ofVal (v : Val) :
    (persistContent .gobOmitZero (ofVal v)).vis = if v.zeroLike then .none else v := by
  cases v with
  | none => simp [persistContent, ofVal, vis, Val.zeroLike]
  | int t n =>
    by_cases h : n = 0 <;> simp [persistContent, ofVal, vis, Val.zeroLike, h]
  | flt t b =>
    cases hz : fltIsZero t b <;> simp [persistContent, ofVal, vis, Val.zeroLike, hz]
  | str s =>
    by_cases h : s = "" <;> simp [persistContent, ofVal, vis, Val.zeroLike, h]
  | bool b => cases b <;> simp [persistContent, ofVal, vis, Val.zeroLike]
  | bytes s =>
    by_cases h : s = "" <;> simp [persistContent, ofVal, vis, Val.zeroLike, h]
  | u32s l =>
    cases l <;> simp [persistContent, ofVal, vis, Val.zeroLike]

/-- **persistRecord_id_iff**: under gob, close + reload shows a (well-formed) record unchanged
    iff its value is not zero-like.  Metadata — created/updated/expiry — always survives. -/
theorem persistRecord_id_iff (t : MRec) (hwf : t.c.WF) :
    reloadView .gobOmitZero t = t.abs ↔ t.c.vis.zeroLike = false := by
  obtain ⟨v, hv⟩ := (wf_iff t.c).mp hwf
  have h1 := persistContent_gob_ofVal v
  simp only [reloadView, loadRec, persistRec, MRec.abs, hv, vis_ofVal]
  constructor
  · intro h
    have h2 := congrArg Rec.val h
    simp only [h1] at h2
    cases hz : v.zeroLike with
    | false => rfl
    | true =>
      rw [hz] at h2
      simp only [if_true] at h2
      rw [← h2] at hz
      simp [Val.zeroLike] at hz
  · intro hz
    rw [h1, hz]; simp

theorem reload_keeps_meta (e : Encoding) (t : MRec) : (reloadView e t).m = t.m := by
  cases e <;> rfl

/-- the closed witness table: every typed zero, the empty string, the empty byte array and the
    empty uint32 slice reload as "no value"; their non-zero twins and the void record survive -/
theorem zero_table :
    (([Val.int .i8 0, .int .i16 0, .int .i32 0, .int .i64 0, .int .u8 0, .int .u16 0, .int .u32 0, .int .u64 0,
       .flt .f32 0, .flt .f64 0, .flt .f64 (2 ^ 63), .bool false, .str "", .bytes "", .u32s []].map
        fun v => (reloadView .gobOmitZero { c := ofVal v }).val) = List.replicate 15 Val.none) ∧
    (([Val.none, .int .i8 (-1), .int .u64 1, .flt .f64 4607182418800017408, .bool true, .str "61", .bytes "00", .u32s [0]].map
        fun v => decide ((reloadView .gobOmitZero { c := ofVal v }).val = v)) = List.replicate 8 true) := by
  decide

/-! ### swamp level: every mutation marks dirty -/

/-- an instance that has not been written yet, with every record waiting for the writer -/
structure DOK (i : Inst) : Prop where
  imm : i.imm = false
  disk : i.disk = none
  srt : AL.Sorted i.recs
  dirty : ∀ p, p ∈ i.recs → p.1 ∈ i.waiting

theorem mem_addWaiting (w : List Key) (k k' : Key) (h : k' ∈ w ∨ k' = k) : k' ∈ Model.addWaiting w k := by
  unfold Model.addWaiting
  by_cases hc : w.contains k = true
  · simp only [hc, if_true]
    rcases h with h | h
    · exact h
    · subst h; simpa using hc
  · simp only [hc, if_false]
    rcases h with h | h
    · exact List.mem_append_left _ h
    · subst h; simp

theorem dok_insert (i i' : Inst) (k : Key) (t : MRec) (hi : DOK i)
    (hr : i'.recs = AL.insert k t i.recs) (hw : ∀ k', k' ∈ i.waiting ∨ k' = k → k' ∈ i'.waiting)
    (h1 : i'.imm = false) (h2 : i'.disk = none) : DOK i' := by
  refine ⟨h1, h2, by rw [hr]; exact AL.sorted_insert _ _ _ hi.srt, fun p hp => ?_⟩
  rw [hr] at hp
  rcases AL.mem_insert k t i.recs p hp with h | h
  · rw [h]; exact hw k (Or.inr rfl)
  · exact hw p.1 (Or.inl (hi.dirty p h))

theorem dok_save (cfg : Cfg) (i : Inst) (k : Key) (t : MRec) (raised : Bool) (hi : DOK i) :
    DOK (Model.save cfg i k t raised).1 := by
  have himm : (i.imm && cfg.saveReleasesImmediate) = false := by rw [hi.imm]; rfl
  unfold Model.save
  cases hf : AL.find k i.recs with
  | none =>
    simp only [himm, Bool.false_eq_true, if_false]
    exact dok_insert i _ k _ hi rfl (fun k' h => mem_addWaiting _ _ _ h) hi.imm hi.disk
  | some told =>
    simp only [himm, Bool.false_eq_true, if_false]
    split
    · exact dok_insert i _ k _ hi rfl (fun k' h => mem_addWaiting _ _ _ h) hi.imm hi.disk
    · by_cases he : t = told
      · simp only [he, if_true]; exact ⟨hi.imm, hi.disk, hi.srt, hi.dirty⟩
      · simp only [he, if_false]
        have hk : k ∈ i.waiting := hi.dirty (k, told) (AL.find_mem _ _ _ hf)
        refine dok_insert i _ k t hi rfl (fun k' h => ?_) hi.imm hi.disk
        rcases h with h | h
        · exact h
        · rw [h]; exact hk

theorem AL.mem_erase_ne {α : Type} (k : String) (l : List (String × α)) (p : String × α)
    (h : p ∈ AL.erase k l) : p.1 ≠ k := by
  simp only [AL.erase, List.mem_filter, Bool.not_eq_true', beq_eq_false_iff_ne] at h
  exact h.2

theorem dok_deleteRec (i : Inst) (k : Key) (hi : DOK i) : DOK (Model.deleteRec i k) := by
  refine ⟨hi.imm, hi.disk, AL.sorted_erase _ _ hi.srt, fun p hp => ?_⟩
  have h1 : p.1 ∈ i.waiting := hi.dirty p (AL.mem_erase k i.recs p hp)
  have h2 : p.1 ≠ k := AL.mem_erase_ne k i.recs p hp
  simp only [Model.deleteRec]
  split
  · exact mem_addWaiting _ _ _ (Or.inl h1)
  · simp only [List.mem_filter, bne_iff_ne, ne_eq]
    exact ⟨h1, h2⟩

theorem dok_park (i : Inst) (k : Key) (t : MRec) (hi : DOK i) : DOK (Model.park (AL.has k i.recs) i k t) := by
  unfold Model.park
  cases hh : AL.has k i.recs with
  | false => simp only [Bool.false_eq_true, if_false]; exact ⟨hi.imm, hi.disk, hi.srt, hi.dirty⟩
  | true =>
    simp only [if_true]
    have : ∃ told, AL.find k i.recs = some told := by
      simp only [AL.has] at hh
      cases hf : AL.find k i.recs with
      | none => rw [hf] at hh; cases hh
      | some told => exact ⟨told, rfl⟩
    obtain ⟨told, hf⟩ := this
    have hk : k ∈ i.waiting := hi.dirty (k, told) (AL.find_mem _ _ _ hf)
    refine dok_insert i _ k t hi rfl (fun k' h => ?_) hi.imm hi.disk
    rcases h with h | h
    · exact h
    · rw [h]; exact hk

theorem dok_setOne (cfg : Cfg) (c o : Bool) (i : Inst) (it : Item) (hi : DOK i) :
    DOK (Model.setOne cfg c o i it).1 := by
  simp only [Model.setOne]
  split
  · exact hi
  · split
    · exact hi
    · exact dok_save cfg i _ _ _ hi

theorem dok_setLoop (cfg : Cfg) (c o : Bool) (items : List Item) :
    ∀ i, DOK i → DOK (Model.setLoop cfg c o i items).1 := by
  induction items with
  | nil => intro i hi; exact hi
  | cons it rest ih => intro i hi; simp only [Model.setLoop]; exact ih _ (dok_setOne cfg c o i it hi)

theorem dok_shiftLoop (ar : Arith) (keys : List Key) : ∀ i, DOK i → DOK (Model.shiftLoop ar i keys).1 := by
  induction keys with
  | nil => intro i hi; exact hi
  | cons k rest ih =>
    intro i hi
    simp only [Model.shiftLoop]
    cases AL.find k i.recs with
    | none => exact ih i hi
    | some t => exact ih _ (dok_deleteRec i k hi)

theorem dok_delLoop (keys : List Key) : ∀ i, DOK i → DOK (Model.delLoop i keys).1 := by
  induction keys with
  | nil => intro i hi; exact hi
  | cons k rest ih =>
    intro i hi
    simp only [Model.delLoop]
    cases AL.has k i.recs with
    | false => simp only [Bool.false_eq_true, if_false]; exact ih i hi
    | true => simp only [if_true]; exact ih _ (dok_deleteRec i k hi)

theorem dok_incCore (cfg : Cfg) (ar : Arith) (now : Int) (i : Inst) (ty : NumTy) (k : Key) (by_ : Int)
    (cond : Option (RelOp × Int)) (ine ie : Option IncMeta) (hi : DOK i) :
    DOK (Model.incCore cfg ar now i ty k by_ cond ine ie).i := by
  simp only [Model.incCore]
  split
  · exact dok_park i k _ hi
  · split
    · exact dok_save cfg i _ _ _ hi
    · split
      · split
        · exact hi
        · exact ⟨hi.imm, hi.disk, hi.srt, hi.dirty⟩
      · exact dok_park i k _ hi

theorem dok_pushOne (cfg : Cfg) (i : Inst) (p : Key × List Nat) (hi : DOK i) : DOK (Model.pushOne cfg i p).1 := by
  simp only [Model.pushOne]
  split
  · exact hi
  · exact dok_save cfg i _ _ _ hi

theorem dok_pushLoop (cfg : Cfg) (pairs : List (Key × List Nat)) :
    ∀ i, DOK i → DOK (Model.pushLoop cfg i pairs).1 := by
  induction pairs with
  | nil => intro i hi; exact hi
  | cons p rest ih => intro i hi; simp only [Model.pushLoop]; exact ih _ (dok_pushOne cfg i p hi)

theorem dok_u32delFinish (cfg : Cfg) (kind : Kind) (k : Key) (b : Bool) (sv : Inst × St × List Tag) (tg : List Tag)
    (e : Bool) (hs : DOK sv.1) : ∀ i', (Model.u32delFinish cfg kind k b sv tg e).inst? = some i' → DOK i' := by
  intro i' h
  simp only [Model.u32delFinish] at h
  split at h
  · split at h
    · simp [Model.DelOut.inst?] at h
    · split at h
      · simp [Model.DelOut.inst?] at h
      · simp only [Model.DelOut.inst?, Option.some.injEq] at h
        rw [← h]; exact dok_deleteRec _ _ hs
  · simp only [Model.DelOut.inst?, Option.some.injEq] at h
    rw [← h]; exact hs

theorem dok_u32delOne (cfg : Cfg) (kind : Kind) (i : Inst) (p : Key × List Nat) (hi : DOK i) :
    ∀ i', (Model.u32delOne cfg kind i p).inst? = some i' → DOK i' := by
  intro i' h
  simp only [Model.u32delOne] at h
  split at h
  · simp only [Model.DelOut.inst?, Option.some.injEq] at h; rw [← h]; exact hi
  · split at h
    · simp only [Model.DelOut.inst?, Option.some.injEq] at h; rw [← h]; exact hi
    · exact dok_u32delFinish cfg kind p.1 _ _ _ _ (dok_save cfg i _ _ _ hi) i' h

theorem dok_u32delLoop (cfg : Cfg) (kind : Kind) (pairs : List (Key × List Nat)) :
    ∀ i, DOK i → ∀ i', (Model.u32delLoop cfg kind i pairs).1 = some i' → DOK i' := by
  induction pairs with
  | nil => intro i hi i' h; simp only [Model.u32delLoop, Option.some.injEq] at h; rw [← h]; exact hi
  | cons p rest ih =>
    intro i hi i' h
    have h1 := dok_u32delOne cfg kind i p hi
    simp only [Model.u32delLoop] at h
    cases ho : Model.u32delOne cfg kind i p with
    | cont i1 e tg =>
      rw [ho] at h h1
      simp only [Model.DelOut.inst?] at h1
      exact ih i1 (h1 i1 rfl) i' h
    | destroyed tg => rw [ho] at h; simp at h
    | hang tg =>
      rw [ho] at h
      simp only [Option.some.injEq] at h
      rw [← h]; exact hi

/-! ### state level -/

/-- a persistent swamp with a write interval > 0 that has not been closed yet -/
structure SOK (s : State) : Prop where
  kind : s.kind = .p1
  nofile : s.file = none
  live : ∀ i, s.live = some i → DOK i

theorem sok_summon (s : State) (hs : SOK s) : DOK (Model.summon s) := by
  unfold Model.summon
  cases hl : s.live with
  | some i => exact hs.live i hl
  | none =>
    simp only [hs.nofile, hs.kind]
    exact ⟨by decide, rfl, by simp [AL.mapV, AL.Sorted], fun p hp => by simp [AL.mapV] at hp⟩

theorem sok_withLive (s : State) (i : Inst) (hs : SOK s) (hi : DOK i) : SOK (Model.withLive s i) :=
  ⟨hs.kind, hs.nofile, fun j hj => by simp only [Model.withLive, Option.some.injEq] at hj; rw [← hj]; exact hi⟩

theorem sok_noLive (s : State) (hs : SOK s) : SOK { s with live := none } :=
  ⟨hs.kind, hs.nofile, fun j hj => by cases hj⟩

theorem sok_destroy (s : State) (hs : SOK s) : SOK (Model.destroy s) :=
  ⟨hs.kind, rfl, fun j hj => by cases hj⟩

theorem sok_dead (s : State) (hs : SOK s) : SOK { s with dead := true } :=
  ⟨hs.kind, hs.nofile, hs.live⟩

theorem sok_settleTouch (cfg : Cfg) (s : State) (i : Inst) (hs : SOK s) (hi : DOK i) :
    SOK (Model.settleAfterTouch cfg s i).1 := by
  unfold Model.settleAfterTouch
  split
  · split
    · exact sok_noLive s hs
    · exact sok_withLive s i hs hi
  · exact sok_withLive s i hs hi

theorem sok_settleDelete (s : State) (i : Inst) (hs : SOK s) (hi : DOK i) :
    SOK (Model.settleAfterDelete s i) := by
  unfold Model.settleAfterDelete
  split
  · exact sok_destroy s hs
  · exact sok_withLive s i hs hi

theorem sok_step (cfg : Cfg) (ar : Arith) (now : Int) (s : State) (req : Req) (hs : SOK s) :
    SOK (Model.step cfg ar now s req).s := by
  have hsum := sok_summon s hs
  unfold Model.step
  split
  · exact hs
  · show SOK (Model.stepCore cfg ar now s req).s
    cases req with
    | set c o items =>
      simp only [Model.stepCore]
      split
      · exact hs
      · split
        · exact hs
        · split
          · exact hs
          · exact sok_settleTouch cfg s _ hs (dok_setLoop cfg c o items _ hsum)
    | get keys => simp only [Model.stepCore]; split; exact hs; exact sok_withLive s _ hs hsum
    | getAll => simp only [Model.stepCore]; split; exact hs; exact sok_withLive s _ hs hsum
    | getByKeys keys => simp only [Model.stepCore]; split; exact hs; exact sok_withLive s _ hs hsum
    | shift keys =>
      simp only [Model.stepCore]; split; exact hs
      exact sok_settleDelete s _ hs (dok_shiftLoop ar keys _ hsum)
    | del keys =>
      simp only [Model.stepCore]; split; exact hs
      split
      · exact sok_destroy s hs
      · exact sok_withLive s _ hs (dok_delLoop keys _ hsum)
    | count =>
      simp only [Model.stepCore]; split
      · split <;> exact hs
      · exact sok_withLive s _ hs hsum
    | isKey k => simp only [Model.stepCore]; split; exact hs; exact sok_withLive s _ hs hsum
    | areKeys keys =>
      simp only [Model.stepCore]; split
      · split <;> exact hs
      · exact sok_withLive s _ hs hsum
    | isSwamp => simp only [Model.stepCore]; exact hs
    | inc ty k b c i1 i2 =>
      simp only [Model.stepCore, Model.incStep]
      split
      · exact hs
      · exact sok_settleTouch cfg s _ hs (dok_incCore cfg _ now _ ty k b c i1 i2 hsum)
    | push pairs =>
      simp only [Model.stepCore]
      exact sok_settleTouch cfg s _ hs (dok_pushLoop cfg pairs _ hsum)
    | u32del pairs =>
      simp only [Model.stepCore]
      split
      · exact sok_dead s hs
      · split
        · exact sok_destroy s hs
        · rename_i i' hr
          exact sok_settleTouch cfg s _ hs (dok_u32delLoop cfg s.kind pairs _ hsum i' hr)
    | size k =>
      simp only [Model.stepCore]
      split
      · exact sok_settleTouch cfg s _ hs hsum
      · split <;> exact sok_settleTouch cfg s _ hs hsum
    | hasVal k v =>
      simp only [Model.stepCore]
      split
      · exact sok_settleTouch cfg s _ hs hsum
      · split <;> exact sok_settleTouch cfg s _ hs hsum

/-! ### what the file holds after a close -/

theorem flush_find (e : Encoding) (recs : List (Key × MRec)) (w : List Key) :
    ∀ (acc : List (Key × PRec)) (k : Key),
      AL.find k (w.foldl (Model.flushStep e recs) acc) =
        if k ∈ w then (AL.find k recs).map (persistRec e) else AL.find k acc := by
  induction w with
  | nil => intro acc k; simp
  | cons k' w' ih =>
    intro acc k
    simp only [List.foldl_cons, ih]
    by_cases hk : k ∈ w'
    · simp [hk]
    · simp only [hk, if_false, List.mem_cons, or_false]
      by_cases he : k = k'
      · subst he
        simp only [if_true, Model.flushStep]
        cases hf : AL.find k recs with
        | some t => simp [AL.find_insert_self]
        | none => simp [AL.find_erase_self]
      · simp only [he, if_false, Model.flushStep]
        cases hf : AL.find k' recs with
        | some t => simp only; exact AL.find_insert_ne k' k _ acc he
        | none => simp only; exact AL.find_erase_ne k' k acc he

theorem flush_sorted (e : Encoding) (recs : List (Key × MRec)) (w : List Key) :
    ∀ (acc : List (Key × PRec)), AL.Sorted acc → AL.Sorted (w.foldl (Model.flushStep e recs) acc) := by
  induction w with
  | nil => intro acc h; exact h
  | cons k' w' ih =>
    intro acc h
    simp only [List.foldl_cons]
    apply ih
    unfold Model.flushStep
    cases AL.find k' recs with
    | some t => exact AL.sorted_insert _ _ _ h
    | none => exact AL.sorted_erase _ _ h

theorem AL.find_none_of_ne {α : Type} (k : String) (l : List (String × α)) (h : ∀ p, p ∈ l → p.1 ≠ k) :
    AL.find k l = none := by
  induction l with
  | nil => rfl
  | cons p t ih =>
    obtain ⟨k', v⟩ := p
    have h1 : k ≠ k' := fun e => h (k', v) (by simp) e.symm
    simp only [AL.find, h1, if_false]
    exact ih (fun q hq => h q (List.mem_cons_of_mem _ hq))

/-- two key-ordered association lists with the same lookups are the same list -/
theorem AL.sorted_ext {α : Type} : ∀ (l1 l2 : List (String × α)), AL.Sorted l1 → AL.Sorted l2 →
    (∀ k, AL.find k l1 = AL.find k l2) → l1 = l2 := by
  intro l1
  induction l1 with
  | nil =>
    intro l2 _ _ h
    cases l2 with
    | nil => rfl
    | cons p t =>
      obtain ⟨k, v⟩ := p
      have := h k
      simp [AL.find] at this
  | cons p1 t1 ih =>
    intro l2 hs1 hs2 h
    obtain ⟨k1, v1⟩ := p1
    obtain ⟨g1, s1⟩ := List.pairwise_cons.mp hs1
    cases l2 with
    | nil =>
      have := h k1
      simp [AL.find] at this
    | cons p2 t2 =>
      obtain ⟨k2, v2⟩ := p2
      obtain ⟨g2, s2⟩ := List.pairwise_cons.mp hs2
      have hk : k1 = k2 := by
        by_cases e : k1 = k2
        · exact e
        · exfalso
          by_cases hlt : k1 < k2
          · -- k1 is not a key of l2
            have hn : AL.find k1 ((k2, v2) :: t2) = none := by
              apply AL.find_none_of_ne
              intro q hq
              rcases List.mem_cons.mp hq with hq | hq
              · rw [hq]; exact fun e' => e e'.symm
              · intro e'
                have := g2 q hq
                rw [e'] at this
                exact String.lt_asymm hlt this
            have := h k1
            rw [hn] at this
            simp [AL.find] at this
          · have hgt : k2 < k1 := AL.lt_of_ne_of_not_lt e hlt
            have hn : AL.find k2 ((k1, v1) :: t1) = none := by
              apply AL.find_none_of_ne
              intro q hq
              rcases List.mem_cons.mp hq with hq | hq
              · rw [hq]; exact e
              · intro e'
                have := g1 q hq
                rw [e'] at this
                exact String.lt_asymm hgt this
            have := h k2
            rw [hn] at this
            simp [AL.find] at this
      subst hk
      have hv : v1 = v2 := by
        have := h k1
        simpa [AL.find] using this
      subst hv
      have ht : t1 = t2 := by
        apply ih t2 s1 s2
        intro k
        by_cases e : k = k1
        · subst e
          rw [AL.find_none_of_ne k t1 (fun q hq e' => by have := g1 q hq; rw [e'] at this; exact String.lt_irrefl _ this),
              AL.find_none_of_ne k t2 (fun q hq e' => by have := g2 q hq; rw [e'] at this; exact String.lt_irrefl _ this)]
        · have := h k
          simpa [AL.find, e] using this
      rw [ht]

theorem closeDisk_eq (cfg : Cfg) (i : Inst) (hi : DOK i) :
    (Model.closeDisk cfg i).getD [] = AL.mapV (persistRec cfg.encoding) i.recs := by
  unfold Model.closeDisk Model.flushDisk
  by_cases hw : i.waiting.isEmpty = true
  · have hr : i.recs = [] := by
      cases hrr : i.recs with
      | nil => rfl
      | cons p t =>
        have := hi.dirty p (by rw [hrr]; simp)
        have hwn : i.waiting = [] := by simpa using hw
        rw [hwn] at this; cases this
    simp [hw, hi.disk, hr, AL.mapV]
  · simp only [hw, Bool.false_eq_true, if_false, hi.disk, Option.getD_none, Option.getD_some]
    apply AL.sorted_ext
    · exact flush_sorted _ _ _ [] AL.sorted_nil
    · exact AL.sorted_mapV _ _ hi.srt
    · intro k
      rw [flush_find, AL.find_mapV]
      by_cases hk : k ∈ i.waiting
      · simp [hk]
      · simp only [hk, if_false, AL.find]
        cases hf : AL.find k i.recs with
        | none => rfl
        | some t => exact absurd (hi.dirty (k, t) (AL.find_mem _ _ _ hf)) hk

/-- **What a close + reload shows** (any facts, any history leading to `s`): every record,
    passed once through the storage encoding. -/
theorem close_view (cfg : Cfg) (s : State) (hs : SOK s) (hd : s.dead = false) (i : Inst) (hl : s.live = some i) :
    Model.abs (Model.closeStep cfg s).1 = AL.mapV (reloadView cfg.encoding) i.recs := by
  have hi := hs.live i hl
  simp only [Model.closeStep, hd, Bool.false_eq_true, if_false, hl, hs.kind, Model.abs]
  have := closeDisk_eq cfg i hi
  rw [this, AL.mapV_mapV]
  rfl

end Hv.Data
