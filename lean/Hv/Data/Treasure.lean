/-
  Record level of the key-value model (shared by C05, C06, C30).

  * `Val`      — a typed value as the API shows it (`treasureToKeyValuePair`): the Spec's values.
  * `Content`  — the code's `*treasure.Content` (treasure.go): a `Void` flag, ONE typed scalar slot
                 and the `Uint32Slice` slot, which the code can populate side by side (a push onto a
                 typed or void record attaches a hidden slice).  `vis` is `GetContentType` + getters.
  * content setters mirroring `SetContentX`, `SetContentVoid`, `Uint32SlicePush`, `Uint32SliceDelete`,
    parametrised by the extracted facts about their quirks.

  Core-only (the compiled driver links this file).
-/
namespace Hv.Data

abbrev Key := String

inductive IntTy where
  | i8 | i16 | i32 | i64 | u8 | u16 | u32 | u64
  deriving DecidableEq, Repr, Inhabited

inductive FltTy where
  | f32 | f64
  deriving DecidableEq, Repr, Inhabited

namespace IntTy
def bits : IntTy → Nat
  | i8 | u8 => 8 | i16 | u16 => 16 | i32 | u32 => 32 | i64 | u64 => 64
def signed : IntTy → Bool
  | i8 | i16 | i32 | i64 => true | _ => false
/-- Go's fixed-width wrap-around (two's complement for the signed types). -/
def wrap (t : IntTy) (x : Int) : Int :=
  let m : Int := (2 : Int) ^ t.bits
  let y := x % m
  if t.signed && decide (y ≥ m / 2) then y - m else y
end IntTy

/-- Float bit patterns are opaque to the theorems; arithmetic and comparison are parameters
    (instantiated by the driver with IEEE operations). -/
structure Arith where
  fadd : FltTy → Nat → Nat → Nat
  flt  : FltTy → Nat → Nat → Bool
  feq  : FltTy → Nat → Nat → Bool
  /-- environment of a run rather than arithmetic: replies show every non-zero ExpiredAt
      (false: only positive ones — `treasureToKeyValuePair` before the repair).  Spec and Model
      read it alike; what it should be is C30's subject. -/
  expNe0 : Bool := false

/-- `f == 0` on the bit pattern (+0 and −0). -/
def fltIsZero (t : FltTy) (bits : Nat) : Bool :=
  match t with
  | .f32 => bits % 2 ^ 31 == 0
  | .f64 => bits % 2 ^ 63 == 0

inductive Val where
  | none                              -- no value (void)
  | int (t : IntTy) (n : Int)
  | flt (t : FltTy) (bits : Nat)
  | str (hex : String)
  | bool (b : Bool)
  | bytes (hex : String)
  | u32s (l : List Nat)
  deriving DecidableEq, Repr, Inhabited

/-- a scalar value: neither void nor a slice -/
def Val.scalar : Val → Bool
  | .none => false
  | .u32s _ => false
  | _ => true

def Val.isSlice : Val → Bool
  | .u32s _ => true
  | _ => false

/-- the slice of a slice value, `[]` otherwise -/
def Val.sliceD : Val → List Nat
  | .u32s l => l
  | _ => []

/-- first-seen-order de-duplication (what `Uint32SlicePush` does to its argument) -/
def dedupAcc : List Nat → List Nat → List Nat
  | acc, [] => acc
  | acc, x :: xs => if acc.contains x then dedupAcc acc xs else dedupAcc (acc ++ [x]) xs

/-- `Uint32SlicePush`: append the values that are not present yet. -/
def pushU32 (old new : List Nat) : List Nat := dedupAcc old new
/-- `Uint32SliceDelete`: drop every listed value. -/
def delU32 (old del : List Nat) : List Nat := old.filter (fun v => !del.contains v)

/-- Zero-like values: exactly those that `encoding/gob` omits from the stream. -/
def Val.zeroLike : Val → Bool
  | .none => false
  | .int _ n => n == 0
  | .flt t b => fltIsZero t b
  | .str h => h == ""
  | .bool b => b == false
  | .bytes h => h == ""
  | .u32s l => l.isEmpty

/-- Metadata of a record; `0` / `""` mean "not set" (as in `treasure.Model`). Times are unix ns. -/
structure Meta where
  ca : Int := 0
  cb : String := ""
  ua : Int := 0
  ub : String := ""
  exp : Int := 0
  deriving DecidableEq, Repr, Inhabited

/-- Spec-level record. -/
structure Rec where
  val : Val := .none
  m : Meta := {}
  deriving DecidableEq, Repr, Inhabited

/-- The code's `*Content`.  `isNil` = nil pointer (a treasure that never had a setter called);
    `val` is the typed scalar slot (never `.u32s`); `slice` the `Uint32Slice` slot. -/
structure Content where
  isNil : Bool := false
  void : Bool := false
  val : Val := .none
  slice : Option (List Nat) := none
  deriving DecidableEq, Repr, Inhabited

namespace Content
def fresh : Content := { isNil := true }

/-- `GetContentType` and the matching getter: what a reader sees. -/
def vis (c : Content) : Val :=
  if c.void then .none
  else match c.val with
    | .none => (match c.slice with | some l => .u32s l | none => .none)
    | v => v

/-- canonical content of a visible value -/
def ofVal : Val → Content
  | .none => { void := true }
  | .u32s l => { slice := some l }
  | v => { val := v }

/-- `cloneContent` (treasure.go): copies ONE slot — the typed scalar if there is one, else the
    slice, else the void flag — so a clone of a content with hidden state looks different -/
def clone (c : Content) : Content :=
  match c.val with
  | .none =>
    (match c.slice with
     | some l => { slice := some l }
     | none => if c.void then { void := true } else {})
  | v => { val := v }

/-- Exactly one representation per visible value (no hidden slice, no stale void flag, not nil). -/
def WF (c : Content) : Prop := c = ofVal c.vis
end Content

/-- Facts about the content setters (treasure.go, gateway.go:keyValuesToTreasure). -/
structure SetterCfg where
  /-- `SetContentVoid` replaces typed content (false: the `Void != false` no-op in the code) -/
  voidClears : Bool
  /-- `Uint32SlicePush` rejects a record whose content is of another type -/
  pushChecksType : Bool
  /-- `Set` with a uint32 slice replaces the stored slice (false: it pushes into it) -/
  setSliceReplaces : Bool
  deriving DecidableEq, Repr

/-- Result of a setter: new content, "content changed" flag as the code raises it. -/
structure SetRes where
  c : Content
  changed : Bool
  deriving DecidableEq, Repr

/-- `SetContentX(v)` for a scalar `v`: no-op when the same slot already holds `v`. -/
def setScalar (c : Content) (v : Val) : SetRes :=
  if c.isNil = false ∧ c.val = v then ⟨c, false⟩ else ⟨{ val := v }, true⟩

/-- `SetContentVoid`. -/
def setVoid (cfg : SetterCfg) (c : Content) : SetRes :=
  if c.isNil then ⟨{ void := true }, true⟩
  else if c.void then ⟨c, false⟩
  else if cfg.voidClears then ⟨{ void := true }, true⟩
  else ⟨c, true⟩          -- flag raised, content untouched

/-- `Uint32SlicePush` at content level (no type check in the code). -/
def pushRaw (c : Content) (vs : List Nat) : SetRes :=
  let old := c.slice.getD []
  let new := pushU32 old vs
  ⟨{ c with isNil := false, slice := some new }, decide (new ≠ old)⟩

/-- `Uint32SliceDelete` at content level: `contentChanged` is raised for every value that is KEPT. -/
def delRaw (c : Content) (vs : List Nat) : SetRes :=
  match c.slice with
  | none => ⟨c, false⟩
  | some old =>
    let new := delU32 old vs
    ⟨{ c with slice := some new }, !new.isEmpty⟩

/-- `keyValuesToTreasure`'s value switch. -/
def setValue (cfg : SetterCfg) (c : Content) (v : Val) : SetRes :=
  match v with
  | .none => setVoid cfg c
  | .u32s l =>
    if cfg.setSliceReplaces then
      let new : Content := { slice := some (pushU32 [] l) }
      ⟨new, decide (c ≠ new)⟩
    else pushRaw c l
  | v => setScalar c v

end Hv.Data
