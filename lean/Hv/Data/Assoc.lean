/-
  Association lists keyed by strings, kept in key order (the API never exposes map order:
  `GetAll` is compared as a sorted list).  Plain functions + separate lemmas; core-only.
-/
namespace Hv.Data.AL

variable {α β : Type}

def find (k : String) : List (String × α) → Option α
  | [] => none
  | (k', v) :: t => if k = k' then some v else find k t

def has (k : String) (l : List (String × α)) : Bool := (find k l).isSome

/-- ordered insert, replacing an existing binding -/
def insert (k : String) (v : α) : List (String × α) → List (String × α)
  | [] => [(k, v)]
  | (k', v') :: t =>
    if k = k' then (k, v) :: t
    else if k < k' then (k, v) :: (k', v') :: t
    else (k', v') :: insert k v t

def erase (k : String) (l : List (String × α)) : List (String × α) :=
  l.filter (fun p => !(p.1 == k))

def mapV (f : α → β) (l : List (String × α)) : List (String × β) :=
  l.map (fun p => (p.1, f p.2))

def keys (l : List (String × α)) : List String := l.map (·.1)

/-! ### lemmas -/

theorem find_mapV (f : α → β) (k : String) (l : List (String × α)) :
    find k (mapV f l) = (find k l).map f := by
  induction l with
  | nil => rfl
  | cons p t ih =>
    obtain ⟨k', v⟩ := p
    simp only [mapV, List.map, find] at ih ⊢
    by_cases h : k = k'
    · simp [h]
    · simp [h]; exact ih

theorem has_mapV (f : α → β) (k : String) (l : List (String × α)) :
    has k (mapV f l) = has k l := by
  simp [has, find_mapV]

theorem insert_mapV (f : α → β) (k : String) (v : α) (l : List (String × α)) :
    insert k (f v) (mapV f l) = mapV f (insert k v l) := by
  induction l with
  | nil => rfl
  | cons p t ih =>
    obtain ⟨k', v'⟩ := p
    simp only [mapV, List.map, insert] at ih ⊢
    by_cases h : k = k'
    · simp [h]
    · by_cases h2 : k < k'
      · simp [h, h2]
      · simp [h, h2]; exact ih

theorem erase_mapV (f : α → β) (k : String) (l : List (String × α)) :
    erase k (mapV f l) = mapV f (erase k l) := by
  induction l with
  | nil => rfl
  | cons p t ih =>
    obtain ⟨k', v'⟩ := p
    simp only [mapV, erase, List.map, List.filter] at ih ⊢
    by_cases h : k' == k
    · simp [h]; exact ih
    · simp [h]; exact ih

theorem length_mapV (f : α → β) (l : List (String × α)) : (mapV f l).length = l.length := by
  simp [mapV]

theorem mapV_nil_iff (f : α → β) (l : List (String × α)) : mapV f l = [] ↔ l = [] := by
  cases l <;> simp [mapV]

theorem mapV_mapV (f : α → β) {γ : Type} (g : β → γ) (l : List (String × α)) :
    mapV g (mapV f l) = mapV (fun a => g (f a)) l := by
  simp [mapV, List.map_map, Function.comp_def]

theorem mapV_id (l : List (String × α)) : mapV (fun a => a) l = l := by
  simp [mapV]

theorem find_insert_self (k : String) (v : α) (l : List (String × α)) :
    find k (insert k v l) = some v := by
  induction l with
  | nil => simp [insert, find]
  | cons p t ih =>
    obtain ⟨k', v'⟩ := p
    simp only [insert]
    by_cases h : k = k'
    · simp [h, find]
    · by_cases h2 : k < k'
      · simp [h, h2, find]
      · simp [h, h2, find]; exact ih

theorem find_insert_ne (k k' : String) (v : α) (l : List (String × α)) (hne : k' ≠ k) :
    find k' (insert k v l) = find k' l := by
  induction l with
  | nil => simp [insert, find, hne]
  | cons p t ih =>
    obtain ⟨k2, v2⟩ := p
    simp only [insert]
    by_cases h : k = k2
    · subst h; simp [find, hne]
    · by_cases h2 : k < k2
      · simp [h, h2, find, hne]
      · simp only [h, h2, if_false, find]
        by_cases h3 : k' = k2
        · simp [h3]
        · simp [h3]; exact ih

theorem find_erase_self (k : String) (l : List (String × α)) : find k (erase k l) = none := by
  induction l with
  | nil => rfl
  | cons p t ih =>
    obtain ⟨k', v'⟩ := p
    simp only [erase, List.filter] at ih ⊢
    by_cases h : k' == k
    · simp [h]; exact ih
    · simp only [h, Bool.not_false, find]
      have : k ≠ k' := by intro e; subst e; simp at h
      simp [this]; exact ih

theorem find_erase_ne (k k' : String) (l : List (String × α)) (hne : k' ≠ k) :
    find k' (erase k l) = find k' l := by
  induction l with
  | nil => rfl
  | cons p t ih =>
    obtain ⟨k2, v2⟩ := p
    simp only [erase, List.filter] at ih ⊢
    by_cases h : k2 == k
    · have h' : k2 = k := by simpa using h
      subst h'
      simp only [h, Bool.not_true, find, hne, if_false]; exact ih
    · simp only [h, Bool.not_false, find]
      by_cases h3 : k' = k2
      · simp [h3]
      · simp [h3]; exact ih

end Hv.Data.AL
