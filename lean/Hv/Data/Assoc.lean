/-
  Association lists keyed by strings, kept in key order (the API never exposes map order:
  `GetAll` is compared as a sorted list).  Plain functions + separate lemmas; core-only.
-/
namespace Hv.Data.AL

variable {α β : Type}

def find (k : String) : List (String × α) → Option α
  | [] => none
  | (k', v) :: t => if k = k' then some v else find k t

def has (k : String) (l : List (String × α)) : Bool := (find k l).isSome

/-- ordered insert, replacing an existing binding -/
def insert (k : String) (v : α) : List (String × α) → List (String × α)
  | [] => [(k, v)]
  | (k', v') :: t =>
    if k = k' then (k, v) :: t
    else if k < k' then (k, v) :: (k', v') :: t
    else (k', v') :: insert k v t

def erase (k : String) (l : List (String × α)) : List (String × α) :=
  l.filter (fun p => !(p.1 == k))

def mapV (f : α → β) (l : List (String × α)) : List (String × β) :=
  l.map (fun p => (p.1, f p.2))

def keys (l : List (String × α)) : List String := l.map (·.1)

/-! ### lemmas -/

theorem find_mapV (f : α → β) (k : String) (l : List (String × α)) :
    find k (mapV f l) = (find k l).map f := by
  induction l with
  | nil => rfl
  | cons p t ih =>
    obtain ⟨k', v⟩ := p
    simp only [mapV, List.map, find] at ih ⊢
    by_cases h : k = k'
    · simp [h]
    · simp [h]; exact ih

theorem has_mapV (f : α → β) (k : String) (l : List (String × α)) :
    has k (mapV f l) = has k l := by
  simp [has, find_mapV]

theorem insert_mapV (f : α → β) (k : String) (v : α) (l : List (String × α)) :
    insert k (f v) (mapV f l) = mapV f (insert k v l) := by
  induction l with
  | nil => rfl
  | cons p t ih =>
    obtain ⟨k', v'⟩ := p
    simp only [mapV, List.map, insert] at ih ⊢
    by_cases h : k = k'
    · simp [h]
    · by_cases h2 : k < k'
      · simp [h, h2]
      · simp [h, h2]; exact ih

theorem erase_mapV (f : α → β) (k : String) (l : List (String × α)) :
    erase k (mapV f l) = mapV f (erase k l) := by
  induction l with
  | nil => rfl
  | cons p t ih =>
    obtain ⟨k', v'⟩ := p
    simp only [mapV, erase, List.map, List.filter] at ih ⊢
    by_cases h : k' == k
    · simp [h]; exact ih
    · simp [h]; exact ih

theorem length_mapV (f : α → β) (l : List (String × α)) : (mapV f l).length = l.length := by
  simp [mapV]

theorem mapV_nil_iff (f : α → β) (l : List (String × α)) : mapV f l = [] ↔ l = [] := by
  cases l <;> simp [mapV]

theorem mapV_mapV (f : α → β) {γ : Type} (g : β → γ) (l : List (String × α)) :
    mapV g (mapV f l) = mapV (fun a => g (f a)) l := by
  simp [mapV, List.map_map, Function.comp_def]

theorem mapV_id (l : List (String × α)) : mapV (fun a => a) l = l := by
  simp [mapV]

theorem find_insert_self (k : String) (v : α) (l : List (String × α)) :
    find k (insert k v l) = some v := by
  induction l with
  | nil => simp [insert, find]
  | cons p t ih =>
    obtain ⟨k', v'⟩ := p
    simp only [insert]
    by_cases h : k = k'
    · simp [h, find]
    · by_cases h2 : k < k'
      · simp [h, h2, find]
      · simp [h, h2, find]; exact ih

theorem find_insert_ne (k k' : String) (v : α) (l : List (String × α)) (hne : k' ≠ k) :
    find k' (insert k v l) = find k' l := by
  induction l with
  | nil => simp [insert, find, hne]
  | cons p t ih =>
    obtain ⟨k2, v2⟩ := p
    simp only [insert]
    by_cases h : k = k2
    · subst h; simp [find, hne]
    · by_cases h2 : k < k2
      · simp [h, h2, find, hne]
      · simp only [h, h2, if_false, find]
        by_cases h3 : k' = k2
        · simp [h3]
        · simp [h3]; exact ih

theorem find_erase_self (k : String) (l : List (String × α)) : find k (erase k l) = none := by
  induction l with
  | nil => rfl
  | cons p t ih =>
    obtain ⟨k', v'⟩ := p
    simp only [erase, List.filter] at ih ⊢
    by_cases h : k' == k
    · simp [h]; exact ih
    · simp only [h, Bool.not_false, find]
      have : k ≠ k' := by intro e; subst e; simp at h
      simp [this]; exact ih

theorem find_erase_ne (k k' : String) (l : List (String × α)) (hne : k' ≠ k) :
    find k' (erase k l) = find k' l := by
  induction l with
  | nil => rfl
  | cons p t ih =>
    obtain ⟨k2, v2⟩ := p
    simp only [erase, List.filter] at ih ⊢
    by_cases h : k2 == k
    · have h' : k2 = k := by simpa using h
      subst h'
      simp only [h, Bool.not_true, find, hne, if_false]; exact ih
    · simp only [h, Bool.not_false, find]
      by_cases h3 : k' = k2
      · simp [h3]
      · simp [h3]; exact ih

/-! ### key order -/

/-- strictly increasing keys (in particular: no duplicate keys) -/
def Sorted (l : List (String × α)) : Prop := l.Pairwise (fun a b => a.1 < b.1)

theorem lt_of_ne_of_not_lt {a b : String} (h : a ≠ b) (h2 : ¬ a < b) : b < a :=
  Std.lt_of_le_of_ne (String.not_lt.mp h2) (Ne.symm h)

theorem sorted_nil : Sorted ([] : List (String × α)) := List.Pairwise.nil

theorem sorted_erase (k : String) (l : List (String × α)) (h : Sorted l) : Sorted (erase k l) :=
  List.Pairwise.filter _ h

theorem sorted_mapV (f : α → β) (l : List (String × α)) (h : Sorted l) : Sorted (mapV f l) :=
  List.Pairwise.map _ (fun _ _ hab => hab) h

theorem mem_insert_key (k : String) (v : α) (l : List (String × α)) (p : String × α)
    (h : p ∈ insert k v l) : p.1 = k ∨ p ∈ l := by
  induction l with
  | nil => simp [insert] at h; exact Or.inl (by rw [h])
  | cons q t ih =>
    obtain ⟨k', v'⟩ := q
    simp only [insert] at h
    by_cases hk : k = k'
    · simp [hk] at h
      rcases h with h | h
      · exact Or.inl (by rw [h, hk])
      · exact Or.inr (List.mem_cons_of_mem _ h)
    · by_cases h2 : k < k'
      · simp [hk, h2] at h
        rcases h with h | h | h
        · exact Or.inl (by rw [h])
        · exact Or.inr (by rw [h]; simp)
        · exact Or.inr (List.mem_cons_of_mem _ h)
      · simp [hk, h2] at h
        rcases h with h | h
        · exact Or.inr (by rw [h]; simp)
        · rcases ih h with h | h
          · exact Or.inl h
          · exact Or.inr (List.mem_cons_of_mem _ h)

theorem sorted_insert (k : String) (v : α) (l : List (String × α)) (h : Sorted l) : Sorted (insert k v l) := by
  induction l with
  | nil => simp [insert, Sorted]
  | cons q t ih =>
    obtain ⟨k', v'⟩ := q
    have h' := List.pairwise_cons.mp h
    obtain ⟨h1, h2⟩ := h'
    simp only [insert]
    by_cases hk : k = k'
    · subst hk
      simp only [if_true]
      exact List.pairwise_cons.mpr ⟨h1, h2⟩
    · by_cases hlt : k < k'
      · simp only [hk, hlt, if_false, if_true]
        refine List.pairwise_cons.mpr ⟨?_, h⟩
        intro b hb
        rcases List.mem_cons.mp hb with hb | hb
        · rw [hb]; exact hlt
        · exact String.lt_trans hlt (h1 b hb)
      · simp only [hk, hlt, if_false]
        refine List.pairwise_cons.mpr ⟨?_, ih h2⟩
        intro b hb
        rcases mem_insert_key k v t b hb with hb | hb
        · rw [hb]; exact lt_of_ne_of_not_lt hk hlt
        · exact h1 b hb

theorem find_some_mem (k : String) (v : α) (l : List (String × α)) (h : find k l = some v) : (k, v) ∈ l := by
  induction l with
  | nil => simp [find] at h
  | cons p t ih =>
    obtain ⟨k', v'⟩ := p
    simp only [find] at h
    by_cases hk : k = k'
    · simp [hk] at h; subst hk; subst h; simp
    · simp [hk] at h; exact List.mem_cons_of_mem _ (ih h)

/-- writing the value a key already has changes nothing (needs the key order) -/
theorem insert_same (k : String) (v : α) (l : List (String × α)) (hs : Sorted l) (h : find k l = some v) :
    insert k v l = l := by
  induction l with
  | nil => simp [find] at h
  | cons q t ih =>
    obtain ⟨k', v'⟩ := q
    obtain ⟨h1, h2⟩ := List.pairwise_cons.mp hs
    simp only [find] at h
    simp only [insert]
    by_cases hk : k = k'
    · subst hk; simp at h; subst h; simp
    · simp only [hk, if_false] at h ⊢
      have hmem := find_some_mem k v t h
      have hlt : k' < k := h1 (k, v) hmem
      have hnlt : ¬ k < k' := String.lt_asymm hlt
      simp only [hnlt, if_false]
      rw [ih h2 h]

end Hv.Data.AL
