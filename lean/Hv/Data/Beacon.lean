/-
  Model of the ordered indexes ("beacons") of a swamp:

    app/core/hydra/swamp/beacon/beacon.go   Add / Delete / SortBy… / GetManyFromOrderPosition /
                                            findTimeRangeBounds
    app/core/hydra/swamp/swamp.go           buildBeacon / treasuresForBeacon (cold build),
                                            addTreasureToBeacons / addTo…Beacon (incremental),
                                            SaveFunction branches, deleteTreasureFromBeacons,
                                            GetTreasuresByBeacon / findIn…Beacon
    app/server/gateway/gateway.go           keyValuesToTreasure (which fields a Set overwrites)

  A beacon holds *pointers* to treasure objects: an update mutates the object in place, so the
  ordered slice sees the new sort value at once, without being re-sorted.  The model keeps copies
  of records in the ordered lists and replaces the copy on every in-place update (`alias`).

  The model is executable and core-only.  Everything the code decides by a constant, an operator
  or a call target is a field of `Cfg` (regenerated from /repo by extract/c07.go).

  Ghost fields (`nd`, `broken`, `causes`) are bookkeeping for the correspondence run only: Go's
  `sort.Slice` is unstable and fed in map-iteration order, so the position of records with equal
  sort values is unspecified; `nd` records that a list is no longer determined up to such ties.
  No theorem mentions the ghost fields.
-/
import Hv.Basic.Verdict

namespace Hv.Beacon

/-- treasure content types (`treasure.ContentType…`), as far as the indexes distinguish them -/
inductive CT where
  | void | i8 | i16 | i32 | i64 | u8 | u16 | u32 | u64 | f32 | f64 | str | bool
  /-- a byte array holding a msgpack body (the only content `PatchTreasures` / `PatchExpired` touch); no value index -/
  | bytes
  deriving DecidableEq, Repr, Inhabited

/-- One treasure.  `val` is the rank of the content inside its type (the order of two contents of
    the same type is the order of their ranks); timestamps are UnixNano, 0 = not set. -/
structure Rec where
  key : String
  ct : CT
  val : Int
  created : Int
  updated : Int
  expire : Int
  /-- `treasure.expirationTimeChanged` -/
  expFlag : Bool
  /-- `treasure.contentChanged` -/
  contFlag : Bool := true
  deriving DecidableEq, Repr, Inhabited

/-- An index: what the client asks for (`IndexType`), and also the name of a beacon pair. -/
inductive Slot where
  | key | created | updated | expire
  | value (t : CT)
  deriving DecidableEq, Repr, Inhabited

def Slot.isTime : Slot → Bool
  | .created | .updated | .expire => true
  | _ => false

/-- `getTimestampFromTreasure` for a beacon whose `sortOrder` was set by the sort of slot `s`
    (key and value sorts never set `sortOrder`, so it stays 0 and the timestamp is 0). -/
def ts (s : Slot) (r : Rec) : Int :=
  match s with
  | .created => r.created
  | .updated => r.updated
  | .expire => r.expire
  | _ => 0

/-- "carries the attribute": the records an index of this type is about. -/
def carries (s : Slot) (r : Rec) : Bool :=
  match s with
  | .key => true
  | .created => r.created != 0
  | .updated => r.updated != 0
  | .expire => r.expire != 0
  | .value t => r.ct == t

/-- The `less` closure of `SortBy<slot><Asc|Desc>`.  The typed value comparators answer `false`
    whenever either side is not of their type (`if err != nil { return false }`). -/
def less (s : Slot) (asc : Bool) (a b : Rec) : Bool :=
  match s with
  | .key => if asc then decide (a.key < b.key) else decide (b.key < a.key)
  | .created => if asc then decide (a.created < b.created) else decide (b.created < a.created)
  | .updated => if asc then decide (a.updated < b.updated) else decide (b.updated < a.updated)
  | .expire => if asc then decide (a.expire < b.expire) else decide (b.expire < a.expire)
  | .value t => a.ct == t && b.ct == t &&
      (if asc then decide (a.val < b.val) else decide (b.val < a.val))

/-- The comparator without the type test: what the order *means* on records that carry the
    attribute. -/
def lessPure (s : Slot) (asc : Bool) (a b : Rec) : Bool :=
  match s with
  | .key => if asc then decide (a.key < b.key) else decide (b.key < a.key)
  | .created => if asc then decide (a.created < b.created) else decide (b.created < a.created)
  | .updated => if asc then decide (a.updated < b.updated) else decide (b.updated < a.updated)
  | .expire => if asc then decide (a.expire < b.expire) else decide (b.expire < a.expire)
  | .value _ => if asc then decide (a.val < b.val) else decide (b.val < a.val)

/-! ### sorting -/

def insertBy {α : Type} (lt : α → α → Bool) (x : α) : List α → List α
  | [] => [x]
  | y :: ys => if lt x y then x :: y :: ys else y :: insertBy lt x ys

/-- insertion sort (structural, so that closed witnesses evaluate in the kernel).  Stands for
    `sort.Slice` / `sort.SliceStable`: any sorting permutation, ties in unspecified order. -/
def isort {α : Type} (lt : α → α → Bool) : List α → List α
  | [] => []
  | x :: xs => insertBy lt x (isort lt xs)

/-- `SortByValueInt64ASC/DESC` extract all values first and return an error — leaving the slice
    untouched — when any element is not an int64.  No other sort can fail. -/
def sortErr (s : Slot) (l : List Rec) : Bool :=
  match s with
  | .value .i64 => l.any (fun r => r.ct != .i64)
  | _ => false

def sortBy (s : Slot) (asc : Bool) (l : List Rec) : List Rec :=
  if sortErr s l then l else isort (less s asc) l

/-! ### code facts -/

/-- the comparison `ts(m) ◇ bound` inside a binary search of `findTimeRangeBounds` -/
inductive Cmp where
  | lt | le
  deriving DecidableEq, Repr

/-- which `SortBy…` an incremental `addTo…Beacon` calls after `Add` -/
inductive Resort where
  /-- the sort of the beacon's own attribute -/
  | own
  /-- always `SortByValueInt64…` -/
  | int64
  /-- no sort at all -/
  | none
  /-- no `Add` either: both beacons of the pair are `Reset()`, the next read rebuilds them -/
  | invalidate
  deriving DecidableEq, Repr

structure Cfg where
  /-- ascending beacon, lower bound:  `if ts(m) ◇ fromNano { l = m+1 } else { r = m }` -/
  bsAscFrom : Cmp
  /-- ascending beacon, upper bound:  `if ts(m) ◇ toNano { l = m+1 } else { r = m }` -/
  bsAscTo : Cmp
  /-- descending beacon, upper bound: `if ts(m) ◇ toNano { r = m } else { l = m+1 }` -/
  bsDescTo : Cmp
  /-- descending beacon, lower bound: `if ts(m) ◇ fromNano { r = m } else { l = m+1 }` -/
  bsDescFrom : Cmp
  resortKey : Resort
  resortCreated : Resort
  resortUpdated : Resort
  resortExpire : Resort
  resortValue : Resort
  /-- `treasuresForBeacon` drops records whose timestamp is 0 -/
  coldFilterCreated : Bool
  coldFilterUpdated : Bool
  coldFilterExpire : Bool
  /-- `treasuresForBeacon` keeps only records of the requested value type -/
  coldFilterValueType : Bool
  /-- `addTreasureToBeacons` guards `addTo…TimeBeacon` by `timestamp != 0` -/
  addGuardCreated : Bool
  addGuardUpdated : Bool
  addGuardExpire : Bool
  /-- `addToValueBeacon` is guarded by the content type -/
  addGuardValueType : Bool
  /-- `SaveFunction` on an existing key re-files the record in the creation-time beacons -/
  updRefreshCreated : Bool
  updRefreshUpdated : Bool
  updRefreshValue : Bool
  /-- `SaveFunction`: `else if t.IsExpirationTimeChanged()` → delete + re-add in the expiration beacons -/
  updRefreshExpireOnFlag : Bool
  /-- the `SetContent…` setters raise `contentTypeChanged` (only then is the first `SaveFunction`
      branch reachable from a Set) -/
  typeChangeDetected : Bool
  /-- one value beacon pair is shared by all value index types -/
  valueShared : Bool
  /-- the treasure's `…Changed` flags are never cleared after a save -/
  flagsSticky : Bool
  /-- `SetContentVoid` replaces typed content by void (false: it left typed content alone) -/
  setVoidClearsTyped : Bool
  /-- `buildBeacon` publishes `initialized` only after the slice is filled and sorted, under a
      build lock (false: the flag is raised first, so a concurrent first reader can see it early) -/
  initialisedAfterFill : Bool
  /-- the expiration branch of `SaveFunction` re-adds the record only `if t.GetExpirationTime() != 0`
      (false: a record whose expiry was cleared is filed again, under key 0) -/
  refileGuardExpire : Bool
  /-- `PatchExpired` hands every selected treasure to `ReindexExpiration` (false: only those it did not
      patch, trusting `SaveFunction` to have re-filed the patched ones) -/
  patchExpiredReindexesAll : Bool
  /-- a window bound that `time.Time.UnixNano` cannot represent (before 1677-09-21 / after 2262-04-11)
      is recognised: a lower bound below / an upper bound above the range is dropped, a window that lies
      wholly outside is empty (false: the bound is converted anyway and wraps around) -/
  windowBoundsChecked : Bool
  /-- a shift that finds, under the record guard, that a selected record is not wanted any more puts
      it back into the indexes (`deleteHandlerIf`: `addTreasureToBeacons`) -/
  claimLoserRefiled : Bool
  deriving DecidableEq, Repr

def minInt64 : Int := -9223372036854775808
def maxInt64 : Int := 9223372036854775807

/-- what `UnixNano()` returns for an instant `x` nanoseconds from the epoch: int64 arithmetic wraps -/
def wrap64 (x : Int) : Int := (x + 9223372036854775808) % 18446744073709551616 - 9223372036854775808

/-- the window as the index code sees it: `none` = "nothing can be in it", else the two optional bounds
    in int64 nanoseconds -/
def effWindow (cfg : Cfg) (fromT toT : Option Int) : Option (Option Int × Option Int) :=
  if cfg.windowBoundsChecked then
    if (match fromT with | some f => decide (f > maxInt64) | none => false) ||
       (match toT with | some t => decide (t < minInt64) | none => false) then none
    else some ((match fromT with | some f => if f < minInt64 then none else some f | none => none),
               (match toT with | some t => if t > maxInt64 then none else some t | none => none))
  else some (fromT.map wrap64, toT.map wrap64)

def test (c : Cmp) (x bound : Int) : Bool :=
  match c with
  | .lt => decide (x < bound)
  | .le => decide (x ≤ bound)

/-! ### GetManyFromOrderPosition / findTimeRangeBounds -/

/-- `for l < r { m := l + (r-l)/2; if P(ts[m]) { l = m + 1 } else { r = m } }; return l` -/
def bsLoop (P : Int → Bool) (tl : List Int) : Nat → Nat → Nat → Nat
  | 0, l, _ => l
  | fuel + 1, l, r =>
    if l < r then
      let m := l + (r - l) / 2
      if P (tl.getD m 0) then bsLoop P tl fuel (m + 1) r else bsLoop P tl fuel l m
    else l

/-- the loop started as the code starts it (`l, r := 0, n`); `n` iterations always suffice -/
def bsearch (P : Int → Bool) (tl : List Int) : Nat := bsLoop P tl tl.length 0 tl.length

/-- the tail of `findTimeRangeBounds`: clamp, then `(0, -1)` when the interval is empty -/
def normBounds (n s e : Int) : Int × Int :=
  let s := if s < 0 then 0 else s
  let e := if e ≥ n then n - 1 else e
  if s > e || s ≥ n || e < 0 then (0, -1) else (s, e)

/-- first index of the window, before normalisation -/
def boundStart (cfg : Cfg) (asc : Bool) (tl : List Int) (fromT toT : Option Int) : Nat :=
  if asc then
    (match fromT with
     | some f => bsearch (fun x => test cfg.bsAscFrom x f) tl
     | none => 0)
  else
    (match toT with
     | some t => bsearch (fun x => !test cfg.bsDescTo x t) tl
     | none => 0)

/-- one past the last index of the window (the code computes `this - 1`), before normalisation -/
def boundStop (cfg : Cfg) (asc : Bool) (tl : List Int) (fromT toT : Option Int) : Nat :=
  if asc then
    (match toT with
     | some t => bsearch (fun x => test cfg.bsAscTo x t) tl
     | none => tl.length)
  else
    (match fromT with
     | some f => bsearch (fun x => !test cfg.bsDescFrom x f) tl
     | none => tl.length)

/-- `findTimeRangeBounds` on the timestamps `tl` of the ordered slice; `asc` is `isAscending`.
    Result: inclusive indices, `(0, -1)` for "nothing". -/
def findBounds (cfg : Cfg) (asc : Bool) (tl : List Int) (fromT toT : Option Int) : Int × Int :=
  if tl.length = 0 then (0, -1) else
  normBounds (tl.length : Nat) ((boundStart cfg asc tl fromT toT : Nat) : Int) (((boundStop cfg asc tl fromT toT : Nat) : Int) - 1)

/-- the second half of `GetManyFromOrderPosition`: offset and limit inside `[startIdx, endIdx]` -/
def pageWithin (l : List Rec) (startIdx endIdx : Int) (from_ limit : Nat) : List Rec :=
  let actualStart : Int := startIdx + from_
  if actualStart > endIdx then [] else
  let actualEnd : Int :=
    if limit = 0 then endIdx
    else (if actualStart + limit - 1 > endIdx then endIdx else actualStart + limit - 1)
  let size : Int := actualEnd - actualStart + 1
  if size ≤ 0 then [] else (l.drop actualStart.toNat).take size.toNat

/-- `GetManyFromOrderPosition` on the ordered slice `l` of a beacon whose timestamps are `tsf`. -/
def getMany (cfg : Cfg) (l : List Rec) (tsf : Rec → Int) (asc : Bool)
    (from_ limit : Nat) (fromT toT : Option Int) : List Rec :=
  let n : Int := l.length
  let windowed := fromT.isSome || toT.isSome
  let se : Int × Int := if windowed then findBounds cfg asc (l.map tsf) fromT toT else (0, n - 1)
  if windowed && (se.2 < se.1 || se.1 < 0) then [] else
  pageWithin l se.1 se.2 from_ limit

/-! ### beacon pairs -/

/-- The ASC and the DESC beacon of one index type.  They are built, extended and pruned together
    (the only way out of lock-step is a failed int64 cold build: `broken`). -/
structure Pair where
  init : Bool := false
  asc : List Rec := []
  desc : List Rec := []
  /-- ghost: the lists are not determined up to ties any more -/
  nd : Bool := false
  /-- ghost: a cold build failed half-way (`SetInitialized(false)` with the slice filled) -/
  broken : Bool := false
  /-- ghost: maintenance events since the last successful full sort that may have left the lists
      unsorted ("update": attribute changed in place; "insert": appended without an effective sort;
      "mixed": sorted with a comparator that is not a strict weak order on the list;
      "gain": a record acquired the attribute after the build and was never added — the only
      cause a later full sort does not cure) -/
  causes : List String := []
  deriving Repr, Inhabited

def eraseKey (k : String) : List Rec → List Rec
  | [] => []
  | r :: rs => if r.key == k then rs else r :: eraseKey k rs

def findKey (k : String) : List Rec → Option Rec
  | [] => none
  | r :: rs => if r.key == k then some r else findKey k rs

/-- `beacon.Add`: ignored when the key is already present -/
def addTo (l : List Rec) (r : Rec) : List Rec :=
  if l.any (fun x => x.key == r.key) then l else l ++ [r]

/-- what the ordered slice shows after the treasure object with `n.key` was mutated in place -/
def alias (n : Rec) (l : List Rec) : List Rec :=
  l.map (fun r => if r.key == n.key then n else r)

/-- the physical beacon pair that serves index `s` -/
def phys (cfg : Cfg) : Slot → Slot
  | .value t => .value (if cfg.valueShared then .i64 else t)
  | s => s

/-- cold build (`treasuresForBeacon`): which records of the swamp go into the beacon when it is
    first built for a request of index type `s` -/
def coldIncl (cfg : Cfg) (s : Slot) (r : Rec) : Bool :=
  match s with
  | .key => true
  | .created => !cfg.coldFilterCreated || r.created != 0
  | .updated => !cfg.coldFilterUpdated || r.updated != 0
  | .expire => !cfg.coldFilterExpire || r.expire != 0
  | .value t => !cfg.coldFilterValueType || r.ct == t

/-- the guard in front of `addTo…Beacon` for the physical pair `ps` -/
def addGuard (cfg : Cfg) (ps : Slot) (r : Rec) : Bool :=
  match ps with
  | .key => true
  | .created => !cfg.addGuardCreated || r.created != 0
  | .updated => !cfg.addGuardUpdated || r.updated != 0
  | .expire => !cfg.addGuardExpire || r.expire != 0
  | .value t => !cfg.addGuardValueType || r.ct == t

/-- the sort an incremental add performs on pair `ps` (`none`: no sort) -/
def incrSort (cfg : Cfg) (ps : Slot) : Option Slot :=
  let pick (r : Resort) : Option Slot :=
    match r with
    | .own => some ps
    | .int64 => some (.value .i64)
    | .none => none
    | .invalidate => none
  match ps with
  | .key => pick cfg.resortKey
  | .created => pick cfg.resortCreated
  | .updated => pick cfg.resortUpdated
  | .expire => pick cfg.resortExpire
  | .value _ => pick cfg.resortValue

/-- does an incremental add drop the pair instead of extending it? -/
def invalidates (cfg : Cfg) (ps : Slot) : Bool :=
  match ps with
  | .key => cfg.resortKey == .invalidate
  | .created => cfg.resortCreated == .invalidate
  | .updated => cfg.resortUpdated == .invalidate
  | .expire => cfg.resortExpire == .invalidate
  | .value _ => cfg.resortValue == .invalidate

/-- is comparator `s` a strict weak order on `l`?  (typed value comparators are not as soon as a
    record of another type is present together with at least one more record) -/
def swoOn (s : Slot) (l : List Rec) : Bool :=
  match s with
  | .value t => l.all (fun r => r.ct == t) || l.length ≤ 1
  | _ => true

/-- same position-relevant attribute (ghost helper: the tie classes of pair `ps`) -/
def sameAttr (ps : Slot) (a b : Rec) : Bool :=
  match ps with
  | .key => a.key == b.key
  | .created => a.created == b.created
  | .updated => a.updated == b.updated
  | .expire => a.expire == b.expire
  | .value _ => a.ct == b.ct && a.val == b.val

/-- the guard in front of the re-add of a re-filing block of `SaveFunction` -/
def refileGuard (cfg : Cfg) (ps : Slot) (r : Rec) : Bool :=
  match ps with
  | .expire => !cfg.refileGuardExpire || r.expire != 0
  | _ => addGuard cfg ps r

/-- `addTo…Beacon(r)` behind a guard that evaluated to `g` -/
def Pair.insertG (cfg : Cfg) (ps : Slot) (r : Rec) (g : Bool) (p : Pair) : Pair :=
  if !p.init then p else
  if !g then p else
  if invalidates cfg ps then {} else
  let a := addTo p.asc r
  let d := addTo p.desc r
  match incrSort cfg ps with
  | none => { p with asc := a, desc := d, causes := "insert" :: p.causes }
  | some ss =>
    if sortErr ss a then
      { p with asc := sortBy ss true a, desc := sortBy ss false d, causes := "insert" :: p.causes }
    else if swoOn ss a then
      { p with asc := sortBy ss true a, desc := sortBy ss false d,
               nd := (if ss == ps then false else p.nd),
               causes := (if ss == ps then p.causes.filter (· == "gain") else "insert" :: p.causes) }
    else
      { p with asc := sortBy ss true a, desc := sortBy ss false d, nd := true, causes := "mixed" :: p.causes }

/-- `addTo…Beacon(r)` behind the guard of `addTreasureToBeacons` -/
def Pair.insert (cfg : Cfg) (ps : Slot) (r : Rec) (p : Pair) : Pair :=
  p.insertG cfg ps r (addGuard cfg ps r)

/-- `deleteTreasureIfBeaconInitialized` on both beacons of the pair -/
def Pair.erase (k : String) (p : Pair) : Pair :=
  if !p.init then p else { p with asc := eraseKey k p.asc, desc := eraseKey k p.desc }

/-- does `SaveFunction` on an existing key re-file the record in pair `ps`? -/
def refreshes (cfg : Cfg) (ps : Slot) (new : Rec) : Bool :=
  match ps with
  | .key => false
  | .created => cfg.updRefreshCreated
  | .updated => cfg.updRefreshUpdated
  | .expire => cfg.updRefreshExpireOnFlag && new.expFlag
  | .value _ => cfg.updRefreshValue && new.contFlag

/-- `SaveFunction` for an existing key (`old` → `new`, same treasure object) as seen by pair `ps` -/
def Pair.update (cfg : Cfg) (ps : Slot) (old new : Rec) (p : Pair) : Pair :=
  if !p.init then p else
  if cfg.typeChangeDetected && old.ct != new.ct then
    -- `if t.IsContentTypeChanged() { deleteTreasureFromBeacons; if type != void { addTreasureToBeacons } }`
    let p1 := p.erase new.key
    if new.ct != .void then p1.insert cfg ps new else p1
  else if refreshes cfg ps new then
    (p.erase new.key).insertG cfg ps new (refileGuard cfg ps new)
  else
    -- nothing: the beacon keeps its pointer to the mutated object
    let moved := !sameAttr ps old new
    let tied := (p.asc.filter (fun x => x.key != old.key && sameAttr ps x old)).length > 0
    let present := p.asc.any (fun x => x.key == old.key)
    { p with asc := alias new p.asc, desc := alias new p.desc,
             nd := p.nd || (moved && tied && present),
             causes := if !present && addGuard cfg ps new then "gain" :: p.causes
                       else if moved then "update" :: p.causes else p.causes }

/-- `buildBeacon` for a request of index type `s` (the physical pair is `phys cfg s`) -/
def Pair.build (cfg : Cfg) (s : Slot) (store : List Rec) (p : Pair) : Pair :=
  if p.init then p else
  let items := store.filter (coldIncl cfg s)
  if sortErr s items then
    -- SortByValueInt64… failed: SetInitialized(false), slice left filled in map order; the read
    -- that follows sets `initialized` again.  From here on the pair is outside the exact model.
    { p with init := true, asc := items, desc := items, nd := true, broken := true, causes := ["mixed"] }
  else
    { p with init := true, asc := sortBy s true items, desc := sortBy s false items,
             nd := !swoOn s items, causes := if swoOn s items then [] else ["mixed"] }

/-! ### the swamp -/

structure St where
  /-- `beaconKey`: every live treasure, keys unique (order irrelevant: a Go map) -/
  store : List Rec
  pairs : Slot → Pair

def St.init : St := { store := [], pairs := fun _ => {} }

/-- the fields of one `KeyValuePair` of a Set request that matter to the indexes -/
structure SetReq where
  key : String
  ct : CT
  val : Int
  created : Int   -- 0: field absent (`isValidTimestamp` false)
  updated : Int
  expire : Int
  /-- `PatchMeta.ClearExpiredAt` (a Set cannot clear an expiry) -/
  clearExpire : Bool := false
  deriving DecidableEq, Repr, Inhabited

/-- `keyValuesToTreasure` applied to the existing object (or to a fresh one) -/
def mergeRec (cfg : Cfg) (old : Option Rec) (rq : SetReq) : Rec :=
  match old with
  | none =>
    { key := rq.key, ct := rq.ct, val := (if rq.ct == .void then 0 else rq.val),
      created := wrap64 rq.created, updated := wrap64 rq.updated, expire := (if rq.clearExpire then 0 else wrap64 rq.expire),
      expFlag := rq.expire != 0 || rq.clearExpire, contFlag := true }
  | some o =>
    -- `SetContentVoid` on an object that already has non-void content: replaces it, or (older code)
    -- leaves the content alone
    let keep := rq.ct == .void && !cfg.setVoidClearsTyped
    { key := o.key,
      ct := if keep then o.ct else rq.ct,
      val := if keep then o.val else (if rq.ct == .void then 0 else rq.val),
      created := if rq.created != 0 then wrap64 rq.created else o.created,
      updated := if rq.updated != 0 then wrap64 rq.updated else o.updated,
      expire := if rq.clearExpire then 0 else if rq.expire != 0 then wrap64 rq.expire else o.expire,
      expFlag := (cfg.flagsSticky && o.expFlag) || rq.expire != 0 || rq.clearExpire,
      -- the setters raise `contentChanged` only when the value really differs
      contFlag := (cfg.flagsSticky && o.contFlag) ||
        (!keep && (rq.ct != o.ct || (if rq.ct == .void then 0 else rq.val) != o.val)) }

structure Query where
  slot : Slot
  asc : Bool
  from_ : Nat
  limit : Nat
  fromT : Option Int
  toT : Option Int
  deriving DecidableEq, Repr, Inhabited

/-- what the `PatchMeta` of a patch request does to the expiry -/
inductive ExpMeta where
  | keep
  | setTo (e : Int)
  | clear
  deriving DecidableEq, Repr, Inhabited

inductive Op where
  | set (rq : SetReq)
  | del (k : String)
  | read (q : Query)
  /-- `IncrementInt64(key, delta)` with `ExpiredAt = expire` in both metadata requests (0: none) -/
  | inc (k : String) (delta : Int) (expire : Int)
  /-- the swamp is closed and summoned again from disk -/
  | reload
  /-- `ShiftExpiredTreasures` with no bound: every record of the expiration index (all timestamps
      of the runs lie in the past) is returned in index order and deleted -/
  | shiftExpired
  /-- `PatchTreasures` of one key (no `CreateIfNotExist`) with one body op that changes the body, and
      a `PatchMeta` that sets / clears / leaves the expiry -/
  | patch (k : String) (m : ExpMeta)
  /-- `PatchExpiredTreasures`, `HowMany = 0` (all expired), the same kind of op and meta -/
  | patchExpired (m : ExpMeta)
  /-- `ShiftMatchingTreasures` without filters: index type, order, `HowMany = q.limit` (0: all),
      optional time window; `q.from_` is not used -/
  | shiftMatch (q : Query)
  /-- `ShiftByKeys`: the named records, those that exist, are handed out and deleted -/
  | shiftKeys (ks : List String)
  /-- `PatchTreasures` with `CreateIfNotExist` (seed `{}`): a missing or void key becomes a body whose
      counter is the increment; a body is patched; anything else is a type mismatch -/
  | patchCreate (k : String) (m : ExpMeta)
  deriving Repr

def setPair (p : Slot → Pair) (s : Slot) (v : Pair) : Slot → Pair :=
  fun x => if x = s then v else p x

/-- Gateway.Set of one key → `SaveFunction` -/
def stepSet (cfg : Cfg) (st : St) (rq : SetReq) : St :=
  match findKey rq.key st.store with
  | none =>
    let r := mergeRec cfg none rq
    { store := st.store ++ [r], pairs := fun ps => (st.pairs ps).insert cfg ps r }
  | some o =>
    let n := mergeRec cfg (some o) rq
    { store := eraseKey o.key st.store ++ [n], pairs := fun ps => (st.pairs ps).update cfg ps o n }

/-- Gateway.Delete of one key → `deleteHandler`; an emptied swamp is destroyed (`DeleteTreasure`),
    and with it every beacon -/
def stepDel (st : St) (k : String) : St :=
  match findKey k st.store with
  | none => st
  | some _ =>
    let store' := eraseKey k st.store
    if store'.isEmpty then St.init
    else { store := store', pairs := fun ps => (st.pairs ps).erase k }

/-- `IncrementInt64` (non-zero increment): a missing key (or void content) starts from 0; int64 content is incremented in
    place and saved; any other content type is an error and nothing changes -/
def stepInc (cfg : Cfg) (st : St) (k : String) (delta expire : Int) : St :=
  -- the gateway refuses `IncrementBy == 0`
  if delta == 0 then st else
  match findKey k st.store with
  | none => stepSet cfg st { key := k, ct := .i64, val := delta, created := 0, updated := 0, expire := expire }
  | some o =>
    if o.ct == .i64 then
      stepSet cfg st { key := k, ct := .i64, val := o.val + delta, created := 0, updated := 0, expire := expire }
    else if o.ct == .void then
      stepSet cfg st { key := k, ct := .i64, val := delta, created := 0, updated := 0, expire := expire }
    else st

/-- close + summon: every beacon is gone (they live in memory only) and the treasures are fresh
    objects, so their `…Changed` flags are clear -/
def stepReload (st : St) : St :=
  { store := st.store.map (fun r => { r with expFlag := false, contFlag := false }), pairs := fun _ => {} }

/-- the build step of a read -/
def stepBuild (cfg : Cfg) (st : St) (q : Query) : St :=
  if st.store.isEmpty then st else
  let ps := phys cfg q.slot
  { st with pairs := setPair st.pairs ps ((st.pairs ps).build cfg q.slot st.store) }

/-- `findIn…Beacon` → `GetManyFromOrderPosition` on the ordered slice `l` with effective limit `lim` -/
def readList (cfg : Cfg) (q : Query) (l : List Rec) (lim : Nat) : List Rec :=
  if q.slot.isTime then
    (match effWindow cfg q.fromT q.toT with
     | some (f, t) => getMany cfg l (ts q.slot) q.asc q.from_ lim f t
     | none => [])
  else
    -- findInKeyBeacon / findInValueBeacon do not pass the time window on
    getMany cfg l (ts q.slot) q.asc q.from_ lim none none

/-- `GetTreasuresByBeacon` after the build: `none` = "Swamp does not exist" (no live record) -/
def answer (cfg : Cfg) (st : St) (q : Query) : Option (List Rec) :=
  if st.store.isEmpty then none else
  let st' := stepBuild cfg st q
  let p := st'.pairs (phys cfg q.slot)
  let l := if q.asc then p.asc else p.desc
  -- `if limit == 0 { limit = int32(s.beaconKey.Count()) }`
  let lim := if q.limit = 0 then st.store.length else q.limit
  some (readList cfg q l lim)

def expireAll : Query := { slot := .expire, asc := true, from_ := 0, limit := 0, fromT := none, toT := none }

/-- what `CloneAndDeleteExpiredTreasures` walks: the ascending expiration beacon after `buildBeacon` -/
def shiftList (cfg : Cfg) (st : St) : List Rec :=
  ((stepBuild cfg st expireAll).pairs (phys cfg .expire)).asc.filter (fun r => r.expire != 0)

def stepShiftExpired (cfg : Cfg) (st : St) : St :=
  ((shiftList cfg st).map (·.key)).foldl stepDel (stepBuild cfg st expireAll)

/-- the Set-shaped request a successful patch of `o` amounts to: new body (a counter moved), and
    `applyPatchMeta` on the expiry (`SetExpiredAt` zero = absent) -/
def patchReq (o : Rec) (m : ExpMeta) : SetReq :=
  { key := o.key, ct := .bytes, val := o.val + 1, created := 0, updated := 0,
    expire := (match m with | .setTo e => e | _ => 0), clearExpire := m == .clear }

/-- `PatchFields` on one key: only a byte-array treasure is patched (`KEY_NOT_FOUND` / `TYPE_MISMATCH`
    change nothing); then `Save` → `SaveFunction` -/
def stepPatch (cfg : Cfg) (st : St) (k : String) (m : ExpMeta) : St :=
  match findKey k st.store with
  | none => st
  | some o => if o.ct == .bytes then stepSet cfg st (patchReq o m) else st

def stepPatchCreate (cfg : Cfg) (st : St) (k : String) (m : ExpMeta) : St :=
  let fresh : SetReq := { key := k, ct := .bytes, val := 1, created := 0, updated := 0,
                          expire := (match m with | .setTo e => e | _ => 0), clearExpire := m == .clear }
  match findKey k st.store with
  | none => stepSet cfg st fresh
  | some o =>
    if o.ct == .bytes then stepSet cfg st (patchReq o m)
    else if o.ct == .void then stepSet cfg st fresh
    else st

/-- `l` plus those records of `b` whose key `l` does not hold (`beacon.Add` of each) -/
def addAll (l b : List Rec) : List Rec :=
  l ++ b.filter (fun r => !l.any (fun x => x.key == r.key))

def dropKeys (ks : List String) (l : List Rec) : List Rec := l.filter (fun r => !ks.contains r.key)

/-- the selected records leave the ascending slice and the descending beacon -/
def hideKeys (ks : List String) (p : Pair) : Pair :=
  { p with asc := dropKeys ks p.asc, desc := dropKeys ks p.desc }

/-- `ReindexExpiration(re)` on the ascending beacon, `Add` + sort on the descending one -/
def reindexPair (p : Pair) (re : List Rec) (all : List Rec) (reKeys : List String) : Pair :=
  { p with asc := isort (less .expire true) (dropKeys reKeys p.asc ++ re),
           desc := isort (less .expire false) (addAll p.desc all),
           nd := false,
           causes := p.causes.filter (· == "gain") }

/-- will `applyPatchExpiredOne` report `PATCHED` for key `k`? -/
def patchable (store : List Rec) (k : String) : Bool :=
  match findKey k store with
  | some o => o.ct == .bytes
  | none => false

/-- `PatchExpired`: build the expiration pair; `SelectExpiredForPatchWithCap` takes every expired
    record out of the ascending slice, they are deleted from the descending beacon; each one is patched
    and saved (`stepPatch`); `ReindexExpiration` drops the handed-over keys from the ascending slice,
    appends those that still have an expiry and sorts; the descending beacon gets every selected record
    with an expiry it does not hold, and is sorted. -/
def stepPatchExpired (cfg : Cfg) (st : St) (m : ExpMeta) : St :=
  if st.store.isEmpty then st else
  let st1 := stepBuild cfg st expireAll
  let keys := (shiftList cfg st).map (·.key)
  let p1 := st1.pairs .expire
  let st2 : St := { st1 with pairs := setPair st1.pairs .expire (hideKeys keys p1) }
  let st3 := keys.foldl (fun s k => stepPatch cfg s k m) st2
  let p3 := st3.pairs .expire
  -- (a pair that an invalidating re-file dropped meanwhile is outside the exact model)
  if !p3.init then st3 else
  let re := keys.filter (fun k => cfg.patchExpiredReindexesAll || !patchable st.store k)
  -- (the handed-over treasures as they are now; their order before the sort does not matter)
  let back (ks : List String) : List Rec := st3.store.filter (fun r => ks.contains r.key && r.expire != 0)
  { st3 with pairs := setPair st3.pairs .expire (reindexPair p3 (back re) (back keys) re) }

/-- `inTimeRange` of the shift predicate: `[from, to)`, an absent bound is open -/
def inTimeRange (x : Int) (fromT toT : Option Int) : Bool :=
  (match fromT with | some f => decide (x ≥ f) | none => true) &&
  (match toT with | some t => decide (x < t) | none => true)

/-- the shift predicate's window over the index slice (time indexes only) -/
def windowed (cfg : Cfg) (q : Query) (l : List Rec) : List Rec :=
  if q.slot.isTime then
    (match effWindow cfg q.fromT q.toT with
     | some (f, t) => l.filter (fun r => inTimeRange (ts q.slot r) f t)
     | none => [])
  else l

/-- what `CloneAndDeleteMatchingTreasures` returns: the first `limit` records (0: all) of the built
    index, in its order, that lie in the window (time indexes only) -/
def matchList (cfg : Cfg) (st : St) (q : Query) : List Rec :=
  let p := (stepBuild cfg st q).pairs (phys cfg q.slot)
  let l := if q.asc then p.asc else p.desc
  let m := windowed cfg q l
  if q.limit = 0 then m else m.take q.limit

/-- …and deletes -/
def stepShiftMatch (cfg : Cfg) (st : St) (q : Query) : St :=
  ((matchList cfg st q).map (·.key)).foldl stepDel (stepBuild cfg st q)

/-! ### a shift whose selection pass and deletes are separated by another request

    `CloneAndDeleteMatchingTreasures` selects under the beacon mutex (`ShiftMatching` takes the selected
    records out of THAT beacon), then deletes each one under its record guard after asking the
    predicate again.  Forced schedule: the shifter is held between the two (hook `shift.selected`). -/

/-- the filter of the forced-schedule op: body counter `n >= v` (not indexable: evaluated whole, also
    at the re-check) -/
def claimPred (v : Int) (r : Rec) : Bool := r.ct == .bytes && decide (r.val ≥ v)

/-- selection pass: build, take the first `limit` (0: all) matching records out of the walked slice -/
def claimSelect (cfg : Cfg) (st : St) (q : Query) (v : Int) : St × List String :=
  let st1 := stepBuild cfg st q
  let ps := phys cfg q.slot
  let p := st1.pairs ps
  let l := if q.asc then p.asc else p.desc
  let m := (windowed cfg q l).filter (claimPred v)
  let keys := (if q.limit = 0 then m else m.take q.limit).map (·.key)
  let p' := if q.asc then { p with asc := dropKeys keys p.asc } else { p with desc := dropKeys keys p.desc }
  ({ st1 with pairs := setPair st1.pairs ps p' }, keys)

/-- the deletes: a selected record that is gone is skipped; one that still matches is deleted and
    handed out; one that does not is put back into the indexes — or (fact false) left where it is -/
def claimRelease (cfg : Cfg) (st : St) (v : Int) (keys : List String) : St × List String :=
  keys.foldl (fun (acc : St × List String) k =>
    match findKey k acc.1.store with
    | none => acc
    | some r =>
      if claimPred v r then (stepDel acc.1 k, acc.2 ++ [k])
      else if cfg.claimLoserRefiled then ({ acc.1 with pairs := fun ps => (acc.1.pairs ps).insert cfg ps r }, acc.2)
      else acc) (st, [])

/-- Two first readers of a pair that is not built yet.  The first sits in `buildBeacon` between
    raising `initialized` on the ASC beacon and filling it; this is what the SECOND reader is
    answered.  With the flag published last (and a build lock) it simply gets the built index. -/
def answerSecond (cfg : Cfg) (st : St) (q : Query) : Option (List Rec) :=
  if st.store.isEmpty then none
  else if (st.pairs (phys cfg q.slot)).init || cfg.initialisedAfterFill then answer cfg st q
  else if q.asc then
    -- ASC already carries the flag, so the second reader does not build it: it reads the empty slice
    some (getMany cfg [] (ts q.slot) q.asc q.from_ (if q.limit = 0 then st.store.length else q.limit) none none)
  else
    -- DESC is not flagged yet: the second reader builds it itself, completely
    answer cfg st q

def step (cfg : Cfg) (st : St) : Op → St
  | .set rq => stepSet cfg st rq
  | .del k => stepDel st k
  | .read q => stepBuild cfg st q
  | .inc k d e => stepInc cfg st k d e
  | .reload => stepReload st
  | .shiftExpired => stepShiftExpired cfg st
  | .patch k m => stepPatch cfg st k m
  | .patchExpired m => stepPatchExpired cfg st m
  | .shiftMatch q => stepShiftMatch cfg st q
  | .shiftKeys ks => ks.foldl stepDel st
  | .patchCreate k m => stepPatchCreate cfg st k m

def run (cfg : Cfg) (h : List Op) : St := h.foldl (step cfg) St.init

/-! ### Spec -/

/-- the order an index of type `s` promises (ascending), on records that carry the attribute -/
def sle (s : Slot) (a b : Rec) : Prop :=
  match s with
  | .key => a.key ≤ b.key
  | .created => a.created ≤ b.created
  | .updated => a.updated ≤ b.updated
  | .expire => a.expire ≤ b.expire
  | .value _ => a.val ≤ b.val

def ord (q : Query) (a b : Rec) : Prop := if q.asc then sle q.slot a b else sle q.slot b a

def inWindow (q : Query) (r : Rec) : Bool :=
  (match q.fromT with | some f => decide (f ≤ ts q.slot r) | none => true) &&
  (match q.toT with | some t => decide (ts q.slot r < t) | none => true)

/-- restriction to `[fromTime, toTime)` — only the time indexes have a window -/
def inRange (q : Query) (s : List Rec) : List Rec :=
  if q.slot.isTime then s.filter (inWindow q) else s

def page (q : Query) (s : List Rec) : List Rec :=
  if q.limit = 0 then s.drop q.from_ else (s.drop q.from_).take q.limit

/-- `res` is a correct answer to `q` on `store`: some sorted arrangement of exactly the records
    that carry the attribute (ties in any order), restricted to the window, then paged. -/
def CorrectPage (res : List Rec) (q : Query) (store : List Rec) : Prop :=
  ∃ s : List Rec, s.Perm (store.filter (carries q.slot)) ∧ s.Pairwise (ord q) ∧ res = page q (inRange q s)

end Hv.Beacon
