/-
  Sequential key-value behaviour of one swamp (C06; C05 and C30 build on it).

  * `Req` / `Resp`     — one non-streaming data RPC and its canonical reply.
  * `Spec.step`        — the documented semantics (proto comments + SDK docs, DESIGN App. F) over a
                         plain sorted association list.  A swamp exists iff it holds a record.
  * `Model.step`       — the gateway handlers and the swamp beneath them at mechanism level
                         (gateway.go, swamp.go, treasure.go), parametrised by `Cfg` (extracted code
                         facts).  Each step also reports the quirk mechanisms it exercised (`Tag`).

  `now` (server clock, unix ns) is an input of every step.  Core-only.
-/
import Hv.Data.Assoc
import Hv.Data.Treasure

namespace Hv.Data

/-- in-memory swamp; persistent with write interval 0 (`p0`: written inside `SaveFunction`, which
    then also releases the record guard) or > 0 (`p1`: written by the ticker / at close) -/
inductive Kind where
  | mem | p0 | p1
  deriving DecidableEq, Repr, Inhabited

inductive St where
  | nf | new | upd | del | same
  deriving DecidableEq, Repr, Inhabited

inductive RelOp where
  | eq | ne | gt | ge | lt | le
  deriving DecidableEq, Repr, Inhabited

inductive NumTy where
  | int (t : IntTy) | flt (t : FltTy)
  deriving DecidableEq, Repr, Inhabited

/-- one `KeyValuePair` of a Set request; absent times are `0`, absent strings `""` -/
structure Item where
  key : Key
  val : Val := .none
  ca : Int := 0
  cb : String := ""
  ua : Int := 0
  ub : String := ""
  exp : Int := 0
  deriving DecidableEq, Repr, Inhabited

structure IncMeta where
  ca : Bool := false
  cb : String := ""
  ua : Bool := false
  ub : String := ""
  exp : Option Int := none
  deriving DecidableEq, Repr, Inhabited

inductive Req where
  | set (create over : Bool) (items : List Item)
  | get (keys : List Key)
  | getAll
  | getByKeys (keys : List Key)
  | shift (keys : List Key)
  | del (keys : List Key)
  | count
  | isKey (k : Key)
  | areKeys (keys : List Key)
  | isSwamp
  | inc (t : NumTy) (k : Key) (by_ : Int) (cond : Option (RelOp × Int)) (ine ie : Option IncMeta)
  | push (pairs : List (Key × List Nat))
  | u32del (pairs : List (Key × List Nat))
  | size (k : Key)
  | hasVal (k : Key) (v : Nat)
  deriving Repr, Inhabited

inductive Resp where
  | err (code : String)
  | setErr (e : String) (dup : Bool)    -- dup: the failed swamp got a second, empty response entry
  | sts (l : List St)
  | recs (l : List (Option Rec))
  | kvs (l : List (Key × Rec))
  | delErr
  | count (n : Option Nat)
  | flag (b : Bool)
  | flags (l : List (Key × Bool))
  | inc (v : Val) (ok : Bool) (m : Option Meta)
  | ok
  | size (n : Nat)
  | hang
  | skip
  deriving DecidableEq, Repr, Inhabited

/-! ### shared wire-level helpers (`treasureToKeyValuePair`, request decoding) -/

/-- what a reader receives for a record: an empty repeated field is indistinguishable from no
    value; timestamps are only emitted when `> 0` -/
def wire (ar : Arith) (r : Rec) : Rec :=
  { val := match r.val with | .u32s [] => .none | v => v,
    m := { r.m with ca := if r.m.ca > 0 then r.m.ca else 0,
                    ua := if r.m.ua > 0 then r.m.ua else 0,
                    exp := if ar.expNe0 || decide (r.m.exp > 0) then r.m.exp else 0 } }

/-- request value as the handler sees it after protobuf decoding -/
def normVal : Val → Val
  | .u32s [] => .none
  | v => v

/-- a stored slice is a set: first-seen order, no duplicates -/
def dedupVal : Val → Val
  | .u32s l => .u32s (pushU32 [] l)
  | v => v

/-- `createMetaForIncrementResponse` -/
def metaResp (m : Meta) : Option Meta := if m = {} then none else some m

def numZero : NumTy → Val
  | .int t => .int t 0
  | .flt t => .flt t 0

def numVal : NumTy → Int → Val
  | .int t, x => .int t x
  | .flt t, x => .flt t x.toNat

/-- current number of a value of exactly this type -/
def numOf : NumTy → Val → Option Int
  | .int t, .int t' n => if t = t' then some n else none
  | .flt t, .flt t' b => if t = t' then some (Int.ofNat b) else none
  | _, _ => none

def numIsZero : NumTy → Int → Bool
  | .int _, x => x == 0
  | .flt t, x => fltIsZero t x.toNat

def numAdd (ar : Arith) : NumTy → Int → Int → Int
  | .int t, a, b => t.wrap (a + b)
  | .flt t, a, b => Int.ofNat (ar.fadd t a.toNat b.toNat)

/-- "the increment is applied only if `cur op ref`" -/
def numCmp (ar : Arith) : NumTy → RelOp → Int → Int → Bool
  | .int _, .eq, a, b => a == b
  | .int _, .ne, a, b => a != b
  | .int _, .gt, a, b => decide (a > b)
  | .int _, .ge, a, b => decide (a ≥ b)
  | .int _, .lt, a, b => decide (a < b)
  | .int _, .le, a, b => decide (a ≤ b)
  | .flt t, .eq, a, b => ar.feq t a.toNat b.toNat
  | .flt t, .ne, a, b => !ar.feq t a.toNat b.toNat
  | .flt t, .gt, a, b => ar.flt t b.toNat a.toNat
  | .flt t, .ge, a, b => ar.flt t b.toNat a.toNat || ar.feq t a.toNat b.toNat
  | .flt t, .lt, a, b => ar.flt t a.toNat b.toNat
  | .flt t, .le, a, b => ar.flt t a.toNat b.toNat || ar.feq t a.toNat b.toNat

/-- a number as it reaches the typed API: the wire carries Int8/Int16/Uint8/Uint16 arguments in
    32-bit fields, the handlers cast them to the width of the request -/
def numWrap : NumTy → Int → Int
  | .int t, x => t.wrap x
  | .flt _, x => x

def condHolds (ar : Arith) (ty : NumTy) (cond : Option (RelOp × Int)) (cur : Int) : Bool :=
  match cond with
  | none => true
  | some (op, ref) => numCmp ar ty op cur (numWrap ty ref)

/-- reply of the slice requests: collected per-key errors surface as InvalidArgument -/
def errOr (e : Bool) : Resp := if e then .err "InvalidArgument" else .ok

/-- sorted, duplicate-free answer map of AreKeysExist -/
def flagMap (f : Key → Bool) (keys : List Key) : List (Key × Bool) :=
  keys.foldl (fun acc k => AL.insert k (f k) acc) []

/-- metadata of a Set item applied to stored metadata; `sCa sUa sEx` say which of the three
    timestamps count as supplied -/
def itemMeta (sCa sUa sEx : Bool) (m : Meta) (it : Item) : Meta :=
  { ca := if sCa then it.ca else m.ca,
    cb := if it.cb ≠ "" then it.cb else m.cb,
    ua := if sUa then it.ua else m.ua,
    ub := if it.ub ≠ "" then it.ub else m.ub,
    exp := if sEx then it.exp else m.exp }

/-! ## Spec -/
/-- a key the storage file can hold: not empty, at most 65535 bytes (16-bit length field) -/
def validKey (k : Key) : Bool := k != "" && decide (k.utf8ByteSize ≤ 65535)

/-- the requests that can create a record refuse a key the file cannot hold (InvalidArgument, the
    whole request, before anything is created) -/
def Req.badKey : Req → Bool
  | .set _ _ items => items.any fun it => !validKey it.key
  | .inc _ k _ _ _ _ => !validKey k
  | .push pairs => pairs.any fun p => !validKey p.1
  | _ => false

namespace Spec

abbrev Store := List (Key × Rec)

def applyItem (old : Option Rec) (it : Item) : Rec :=
  let b := old.getD {}
  { val := dedupVal (normVal it.val),
    m := itemMeta (decide (it.ca > 0)) (decide (it.ua > 0)) (decide (it.exp > 0)) b.m it }

def setOne (create over : Bool) (st : Store) (it : Item) : Store × St :=
  match AL.find it.key st with
  | none => if create then (AL.insert it.key (applyItem none it) st, .new) else (st, .nf)
  | some r =>
    if !over then (st, .same)
    else
      let r' := applyItem (some r) it
      if r' = r then (st, .same) else (AL.insert it.key r' st, .upd)

def setAll (create over : Bool) : Store → List Item → Store × List St
  | st, [] => (st, [])
  | st, it :: rest =>
    let (st1, s) := setOne create over st it
    let (st2, ss) := setAll create over st1 rest
    (st2, s :: ss)

def applyIncMeta (now : Int) (m : Meta) : Option IncMeta → Meta
  | none => m
  | some q =>
    { ca := if q.ca then now else m.ca,
      cb := if q.cb ≠ "" then q.cb else m.cb,
      ua := if q.ua then now else m.ua,
      ub := if q.ub ≠ "" then q.ub else m.ub,
      exp := match q.exp with | some e => e | none => m.exp }

/-- current number of a key and whether the "not exist" metadata applies: an absent key and a
    key without a value start from 0; a value of another type is an error (`none`) -/
def incStart (ty : NumTy) (old : Option Rec) : Option (Int × Bool) :=
  match old with
  | none => some (0, true)
  | some r =>
    match r.val with
    | .none => some (0, true)
    | v => (numOf ty v).map (fun n => (n, false))

def incCore (ar : Arith) (now : Int) (st : Store) (ty : NumTy) (k : Key) (by_ : Int)
    (cond : Option (RelOp × Int)) (ine ie : Option IncMeta) : Store × Resp :=
  let old := AL.find k st
  match incStart ty old with
  | none => (st, .err "InvalidArgument")
  | some (cur, useIne) =>
    let oldM : Meta := (old.map (·.m)).getD {}
    if condHolds ar ty cond cur then
      let r' : Rec := { val := numVal ty (numAdd ar ty cur by_), m := applyIncMeta now oldM (if useIne then ine else ie) }
      (AL.insert k r' st, .inc r'.val true (metaResp r'.m))
    else (st, .inc (numVal ty cur) false (metaResp oldM))

def incStep (ar : Arith) (now : Int) (st : Store) (ty : NumTy) (k : Key) (by_ : Int)
    (cond : Option (RelOp × Int)) (ine ie : Option IncMeta) : Store × Resp :=
  if numIsZero ty by_ then (st, .err "InvalidArgument")
  else incCore ar now st ty k by_ cond ine ie

/-- returns the new store and whether the pair was rejected (type mismatch) -/
def pushOne (st : Store) (p : Key × List Nat) : Store × Bool :=
  match AL.find p.1 st with
  | none => (AL.insert p.1 { val := .u32s (pushU32 [] p.2) } st, false)
  | some r =>
    match r.val with
    | .none => (AL.insert p.1 { r with val := .u32s (pushU32 [] p.2) } st, false)
    | .u32s l => (AL.insert p.1 { r with val := .u32s (pushU32 l p.2) } st, false)
    | _ => (st, true)

def u32delOne (st : Store) (p : Key × List Nat) : Store × Bool :=
  match AL.find p.1 st with
  | none => (st, false)
  | some r =>
    if r.val.isSlice then
      if (delU32 r.val.sliceD p.2).isEmpty then (AL.erase p.1 st, false)
      else (AL.insert p.1 { r with val := .u32s (delU32 r.val.sliceD p.2) } st, false)
    else (st, true)

def foldPairs (f : Store → Key × List Nat → Store × Bool) : Store → List (Key × List Nat) → Store × Bool
  | st, [] => (st, false)
  | st, p :: rest =>
    let (st1, e) := f st p
    let (st2, es) := foldPairs f st1 rest
    (st2, e || es)

def shiftAll (ar : Arith) : Store → List Key → Store × List (Key × Rec)
  | st, [] => (st, [])
  | st, k :: rest =>
    match AL.find k st with
    | none => shiftAll ar st rest
    | some r =>
      let (st', out) := shiftAll ar (AL.erase k st) rest
      (st', (k, wire ar r) :: out)

def delAll : Store → List Key → Store × List St
  | st, [] => (st, [])
  | st, k :: rest =>
    if AL.has k st then
      let (st', out) := delAll (AL.erase k st) rest
      (st', .del :: out)
    else
      let (st', out) := delAll st rest
      (st', .nf :: out)

/-- the request on keys that passed the key check -/
def stepV (ar : Arith) (now : Int) (st : Store) : Req → Store × Resp
  | .set create over items =>
    if items.isEmpty then (st, .err "InvalidArgument")
    else if !create && !over then (st, .setErr "CanNotBeExecuted" false)
    else if !create && st.isEmpty then (st, .setErr "SwampDoesNotExist" false)
    else
      let (st', ss) := setAll create over st items
      (st', .sts ss)
  | .get keys =>
    if st.isEmpty then (st, .err "FailedPrecondition")
    else (st, .recs (keys.map fun k => (AL.find k st).map (wire ar)))
  | .getAll =>
    if st.isEmpty then (st, .err "FailedPrecondition") else (st, .kvs (AL.mapV (wire ar) st))
  | .getByKeys keys =>
    if st.isEmpty then (st, .err "FailedPrecondition")
    else (st, .kvs (keys.filterMap fun k => (AL.find k st).map fun r => (k, wire ar r)))
  | .shift keys =>
    if st.isEmpty then (st, .err "FailedPrecondition")
    else
      let (st', out) := shiftAll ar st keys
      (st', .kvs out)
  | .del keys =>
    if st.isEmpty then (st, .delErr)
    else
      let (st', out) := delAll st keys
      (st', .sts out)
  | .count => (st, .count (if st.isEmpty then none else some st.length))
  | .isKey k => if st.isEmpty then (st, .err "FailedPrecondition") else (st, .flag (AL.has k st))
  | .areKeys keys => (st, .flags (flagMap (fun k => AL.has k st) keys))
  | .isSwamp => (st, .flag (!st.isEmpty))
  | .inc ty k by_ cond ine ie => incStep ar now st ty k by_ cond ine ie
  | .push pairs =>
    let (st', e) := foldPairs pushOne st pairs
    (st', errOr e)
  | .u32del pairs =>
    let (st', e) := foldPairs u32delOne st pairs
    (st', errOr e)
  | .size k =>
    match AL.find k st with
    | none => (st, .err "InvalidArgument")
    | some r => if r.val.isSlice then (st, .size r.val.sliceD.length) else (st, .err "FailedPrecondition")
  | .hasVal k v =>
    match AL.find k st with
    | none => (st, .err "InvalidArgument")
    | some r => if r.val.isSlice then (st, .flag (r.val.sliceD.contains v)) else (st, .flag false)

/-- idle eviction / graceful stop followed by a re-summon: an in-memory swamp forgets
    everything, a persistent one nothing (C05) -/
def close (kind : Kind) (st : Store) : Store :=
  match kind with
  | .mem => []
  | _ => st

def step (ar : Arith) (now : Int) (st : Store) (req : Req) : Store × Resp :=
  if req.badKey then (st, .err "InvalidArgument") else stepV ar now st req

end Spec

/-! ## Model -/

inductive Encoding where
  | gobOmitZero | typeTagged
  deriving DecidableEq, Repr, Inhabited

/-- Code facts the sequential model depends on (`true` = the behaviour the Spec needs). -/
structure Cfg where
  /-- the `*Changed` flags are cleared after `SaveFunction` classified the save -/
  resetsFlags : Bool
  /-- metadata setters raise their flag only when the value differs -/
  metaCompare : Bool
  /-- `isValidTimestamp` accepts exactly the positive times (false: `seconds > 0 || nanos > 0`) -/
  tsPositive : Bool
  voidClears : Bool
  pushChecksType : Bool
  setSliceReplaces : Bool
  /-- `Uint32SliceDelete` releases the record guard before it calls `DeleteTreasure` -/
  u32delReleases : Bool
  /-- `Uint32SliceDelete` reports a non-slice record instead of deleting it -/
  u32delChecksType : Bool
  /-- a failed increment condition leaves no trace (metadata applied after the check, the in-flight
      treasure dropped) -/
  incFailClean : Bool
  /-- requests that cannot create a record do not leave an empty live swamp behind -/
  noEmptyLive : Bool
  /-- `AreKeysExist` answers all-false for a missing swamp (false: FailedPrecondition first) -/
  arekAllFalse : Bool
  /-- `Count` answers exists=false for a missing swamp (false: the FailedPrecondition of
      `checkSwampName` is compared with NotFound and returned as an error) -/
  countMissingOk : Bool
  /-- a failed swamp of a `Set` request gets exactly one response entry -/
  setErrSingle : Bool
  /-- the float Increment handlers evaluate `cur > ref` (…) as written; false: as "fail when the
      complement holds" (`if cur <= ref { fail }`), which a NaN operand never fails -/
  fltCondDirect : Bool
  /-- Set / Increment / Uint32SlicePush answer InvalidArgument for a key the file cannot hold
      (false: the record is acknowledged and the writer refuses it at flush time) -/
  keyChecked : Bool
  /-- a record re-created while its delete is still queued inherits the file pointer of the queued
      delete (false: it counts as never written, and a following delete drops it from the write
      buffer without writing a delete entry) -/
  recreateKeepsPointer : Bool
  /-- PatchTreasures without CreateIfNotExist asks whether the swamp exists before it summons it
      (false: it summons, and an empty swamp stays live and "exists") -/
  patchAsksFirst : Bool
  /-- `SaveFunction` releases the record guard itself when the write interval is 0 -/
  saveReleasesImmediate : Bool
  encoding : Encoding
  deriving DecidableEq, Repr

def Cfg.setters (c : Cfg) : SetterCfg := ⟨c.voidClears, c.pushChecksType, c.setSliceReplaces⟩

/-- quirk mechanisms; the ids of the findings are derived from these -/
inductive Tag where
  | stickyFlags        -- a save was classified by flags raised in an earlier request
  | metaNoCompare      -- a metadata setter raised its flag for an equal value
  | tsSubSecond        -- a non-positive timestamp passed `isValidTimestamp`
  | voidNoClear        -- `SetContentVoid` left typed content in place
  | hiddenSlice        -- a slice was attached to / read from a record of another type
  | sliceMerge         -- `Set` with a slice merged into the stored slice
  | u32delDeadlock     -- `DeleteTreasure` called while holding the record guard
  | u32delNonSlice     -- `Uint32SliceDelete` deleted a record that is not a slice
  | incFailTrace       -- a failed increment condition mutated metadata / parked an in-flight treasure
  | inflightReuse      -- `CreateTreasure` handed out a parked in-flight treasure
  | emptyLive          -- a request left an empty live swamp
  | arekPrecondition   -- `AreKeysExist` on a missing swamp answered FailedPrecondition
  | countPrecondition  -- `Count` on a missing swamp answered FailedPrecondition
  | setErrDup          -- a failed swamp of `Set` produced two response entries
  | zeroLikeDropped    -- close/reload changed a zero-like value into void
  | resurrected        -- a key that was deleted comes back from the file at reload
  | nanCond            -- a float ordering condition was evaluated through its complement
  | unstorableKey      -- a record was accepted under a key the file cannot hold
  | patchGhost         -- PatchTreasures summoned a swamp that does not exist and stored nothing
  deriving DecidableEq, Repr, Inhabited

/-- the code's treasure object -/
structure MRec where
  c : Content := Content.fresh
  m : Meta := {}
  changed : Bool := false
  expChanged : Bool := false
  deriving DecidableEq, Repr, Inhabited

def MRec.abs (t : MRec) : Rec := { val := t.c.vis, m := t.m }

/-- persisted form of a record -/
structure PRec where
  c : Content
  m : Meta
  deriving DecidableEq, Repr, Inhabited

/-- a live swamp instance -/
structure Inst where
  recs : List (Key × MRec) := []        -- beaconKey
  inflight : List (Key × MRec) := []    -- creatingTreasures
  waiting : List Key := []              -- treasuresWaitingForWriter
  expIdx : Option (List Key) := none    -- expiration-time beacon (none = not built)
  filed : List Key := []                -- keys whose live treasure object has a file pointer (loaded or written)
  imm : Bool := false                   -- write interval 0: `SaveFunction` writes at once
  disk : Option (List (Key × PRec)) := none   -- what the chronicler holds (none = no file yet)
  deriving DecidableEq, Repr, Inhabited

structure State where
  kind : Kind := .mem
  live : Option Inst := none
  file : Option (List (Key × PRec)) := none
  dead : Bool := false
  deriving DecidableEq, Repr, Inhabited

/-- `LoadFromByte ∘ ConvertToByte` at content level -/
def persistContent (e : Encoding) (c : Content) : Content :=
  match e with
  | .typeTagged => c
  | .gobOmitZero =>
    if c.isNil then c
    else { isNil := false, void := c.void,
           val := if c.val.zeroLike then .none else c.val,
           slice := match c.slice with | some [] => none | s => s }

def persistRec (e : Encoding) (t : MRec) : PRec := ⟨persistContent e t.c, t.m⟩
def loadRec (p : PRec) : MRec := { c := p.c, m := p.m }

namespace Model

structure Out where
  s : State
  r : Resp
  tags : List Tag := []
  deriving Repr, Inhabited

def exists_ (s : State) : Bool := s.live.isSome || s.file.isSome

/-- `SummonSwamp`: the live instance, or a new one loaded from the file -/
def summon (s : State) : Inst :=
  match s.live with
  | some i => i
  | none => { recs := AL.mapV loadRec (s.file.getD []), filed := (s.file.getD []).map (·.1),
              imm := s.kind == .p0, disk := s.file }

/-- `isValidTimestamp` -/
def validTs (cfg : Cfg) (n : Int) : Bool :=
  if cfg.tsPositive then decide (n > 0)
  else decide (n / 1000000000 > 0) || decide (n % 1000000000 > 0)

/-- raise-flag rule of a metadata setter -/
def metaFlag (cfg : Cfg) (differs : Bool) : Bool := if cfg.metaCompare then differs else true

/-- quirk tags of the value switch of `keyValuesToTreasure` -/
def valueTags (c : Content) (nv : Val) (sr : SetRes) : List Tag :=
  match nv with
  | .none => if sr.c.vis != .none then [Tag.voidNoClear] else []
  | .u32s l =>
    if sr.c.vis != .u32s (pushU32 [] l) then (if c.vis.isSlice then [Tag.sliceMerge] else [Tag.hiddenSlice]) else []
  | _ => []

def tsTags (it : Item) (sCa sUa sEx : Bool) : List Tag :=
  if (sCa && decide (it.ca ≤ 0)) || (sUa && decide (it.ua ≤ 0)) || (sEx && decide (it.exp ≤ 0)) then [Tag.tsSubSecond] else []

def itemSupplied (sCa sUa sEx : Bool) (it : Item) : Bool :=
  sCa || it.cb != "" || sUa || it.ub != "" || sEx

/-- `keyValuesToTreasure`: value switch, then the metadata setters. Returns the mutated treasure,
    whether a `*Changed` flag was raised by this request, and the tags. -/
def applyItem (cfg : Cfg) (t : MRec) (it : Item) : MRec × Bool × List Tag :=
  let nv := normVal it.val
  let sr := setValue cfg.setters t.c nv
  let sCa := validTs cfg it.ca
  let sUa := validTs cfg it.ua
  let sEx := validTs cfg it.exp
  let m' := itemMeta sCa sUa sEx t.m it
  let mflag := metaFlag cfg (decide (m' ≠ t.m)) && itemSupplied sCa sUa sEx it
  let tagM : List Tag := if mflag && decide (m' = t.m) && !sr.changed then [Tag.metaNoCompare] else []
  ({ c := sr.c, m := m', changed := t.changed || (sr.changed || mflag),
     expChanged := t.expChanged || (sEx && metaFlag cfg (decide (it.exp ≠ t.m.exp))) },
   sr.changed || mflag, valueTags t.c nv sr ++ tsTags it sCa sUa sEx ++ tagM)

/-- `CreateTreasure`: the record in the key beacon, else a parked in-flight treasure, else a fresh one -/
def createTreasure (i : Inst) (k : Key) : MRec × List Tag :=
  match AL.find k i.recs with
  | some t => (t, [])
  | none =>
    match AL.find k i.inflight with
    | some t => (t, [Tag.inflightReuse])
    | none => ({}, [])

def idxRemove (k : Key) : Option (List Key) → Option (List Key)
  | none => none
  | some l => some (l.filter (· != k))

def idxAdd (k : Key) : Option (List Key) → Option (List Key)
  | none => none
  | some l => if l.contains k then some l else some (l ++ [k])

/-- `fileWriterHandler`: write every treasure waiting for the writer (a key that is no longer in
    the key beacon is written as a delete) -/
def flushStep (e : Encoding) (recs : List (Key × MRec)) (f : List (Key × PRec)) (k : Key) : List (Key × PRec) :=
  match AL.find k recs with
  | some t => AL.insert k (persistRec e t) f
  | none => AL.erase k f

def flushDisk (e : Encoding) (recs : List (Key × MRec)) (waiting : List Key)
    (disk : Option (List (Key × PRec))) : Option (List (Key × PRec)) :=
  if waiting.isEmpty then disk
  else some (waiting.foldl (flushStep e recs) (disk.getD []))

def addWaiting (w : List Key) (k : Key) : List Key := if w.contains k then w else w ++ [k]

/-- `SaveFunction` (swamp.go) for the treasure `t` of key `k` (already mutated in place).
    `fresh` = flags raised by the current request. -/
def save (cfg : Cfg) (i : Inst) (k : Key) (t : MRec) (fresh : Bool) : Inst × St × List Tag :=
  let cleared : MRec := if cfg.resetsFlags then { t with changed := false, expChanged := false } else t
  match AL.find k i.recs with
  | none =>
    ({ i with recs := AL.insert k cleared i.recs, inflight := AL.erase k i.inflight,
              filed := if i.imm && cfg.saveReleasesImmediate then (AL.insert k cleared i.recs).map (·.1)
                       -- the key is not in the key beacon: an entry waiting for the writer is a queued delete of a
                       -- written record, whose file pointer the new treasure inherits (or not)
                       else if cfg.recreateKeepsPointer && i.waiting.contains k then
                         (if i.filed.contains k then i.filed else i.filed ++ [k])
                       else i.filed.filter (· != k),
              waiting := if i.imm && cfg.saveReleasesImmediate then [] else addWaiting i.waiting k,
              disk := if i.imm && cfg.saveReleasesImmediate then
                        flushDisk cfg.encoding (AL.insert k cleared i.recs) (addWaiting i.waiting k) i.disk
                      else i.disk,
              expIdx := if t.m.exp ≠ 0 then idxAdd k i.expIdx else i.expIdx }, .new, [])
  | some told =>
    if t.changed then
      let idx := if t.expChanged then (if t.m.exp ≠ 0 then idxAdd k (idxRemove k i.expIdx) else idxRemove k i.expIdx) else i.expIdx
      ({ i with recs := AL.insert k cleared i.recs,
                filed := if i.imm && cfg.saveReleasesImmediate then (AL.insert k cleared i.recs).map (·.1) else i.filed,
                waiting := if i.imm && cfg.saveReleasesImmediate then [] else addWaiting i.waiting k,
                disk := if i.imm && cfg.saveReleasesImmediate then
                          flushDisk cfg.encoding (AL.insert k cleared i.recs) (addWaiting i.waiting k) i.disk
                        else i.disk,
                expIdx := idx }, .upd, if fresh then [] else [Tag.stickyFlags])
    else ({ i with recs := if t = told then i.recs else AL.insert k t i.recs }, .same, [])

/-- `deleteHandler` -/
def deleteRec (i : Inst) (k : Key) : Inst :=
  -- a treasure that was never written is simply dropped from the write buffer; one that has a
  -- file pointer is queued as a delete
  { i with recs := AL.erase k i.recs,
           waiting := if i.filed.contains k then addWaiting i.waiting k else i.waiting.filter (· != k),
           filed := i.filed.filter (· != k),
           expIdx := idxRemove k i.expIdx }

/-- end of a request: auto-destroy of an emptied swamp is done by the delete paths themselves;
    here only the bookkeeping of "which instance is live". -/
def withLive (s : State) (i : Inst) : State := { s with live := some i }

/-- `Destroy`: the instance and its file are gone -/
def destroy (s : State) : State := { s with live := none, file := none }

/-- after a delete path: destroy when the key beacon is empty -/
def settleAfterDelete (s : State) (i : Inst) : State :=
  if i.recs.isEmpty then destroy s else withLive s i

/-- after a request that summoned but may have stored nothing -/
def settleAfterTouch (cfg : Cfg) (s : State) (i : Inst) : State × List Tag :=
  if i.recs.isEmpty && s.file.isNone then
    if cfg.noEmptyLive && i.inflight.isEmpty then ({ s with live := none }, [])
    -- with the readers repaired, only a parked in-flight treasure keeps an empty swamp alive
    else (withLive s i, [if cfg.noEmptyLive then Tag.incFailTrace else Tag.emptyLive])
  else (withLive s i, [])

/-- one key of `Set` (gateway.go) -/
def setOne (cfg : Cfg) (create over : Bool) (i : Inst) (it : Item) : Inst × St × List Tag :=
  if !create && !AL.has it.key i.recs then (i, .nf, [])
  else if !over && AL.has it.key i.recs then (i, .same, [])
  else
    let (t, tg0) := createTreasure i it.key
    let (t', raised, tg1) := applyItem cfg t it
    let (i1, st, tg2) := save cfg i it.key t' raised
    (i1, st, tg0 ++ tg1 ++ tg2)

def setLoop (cfg : Cfg) (create over : Bool) : Inst → List Item → Inst × List St × List Tag
  | i, [] => (i, [], [])
  | i, it :: rest =>
    let (i1, st, tg) := setOne cfg create over i it
    let (i', ss, tgs) := setLoop cfg create over i1 rest
    (i', st :: ss, tg ++ tgs)

def shiftLoop (ar : Arith) : Inst → List Key → Inst × List (Key × Rec)
  | i, [] => (i, [])
  | i, k :: rest =>
    match AL.find k i.recs with
    | none => shiftLoop ar i rest
    | some t =>
      let (i', out) := shiftLoop ar (deleteRec i k) rest
      -- the reply carries `treasureObj.Clone(...)`
      (i', (k, wire ar { t with c := t.c.clone }.abs) :: out)

def delLoop : Inst → List Key → Inst × List St
  | i, [] => (i, [])
  | i, k :: rest =>
    if AL.has k i.recs then
      let (i', out) := delLoop (deleteRec i k) rest
      (i', .del :: out)
    else
      let (i', out) := delLoop i rest
      (i', .nf :: out)

def applyIncMeta (now : Int) (t : MRec) : Option IncMeta → MRec
  | none => t
  | some q =>
    { t with
      m := { ca := if q.ca then now else t.m.ca,
             cb := if q.cb ≠ "" then q.cb else t.m.cb,
             ua := if q.ua then now else t.m.ua,
             ub := if q.ub ≠ "" then q.ub else t.m.ub,
             exp := match q.exp with | some e => e | none => t.m.exp },
      changed := t.changed || q.ca || q.cb != "" || q.ua || q.ub != "" || q.exp.isSome,
      expChanged := t.expChanged || q.exp.isSome }

/-- type switch of `IncrementXxx` on `GetContentType`: the treasure to work on (a void one gets
    the typed zero first), its current number, and whether the "not exist" metadata applies -/
def incStart (ty : NumTy) (t0 : MRec) : Option (MRec × Int × Bool) :=
  match t0.c.vis with
  | .none =>
    let sr := setScalar t0.c (numZero ty)
    some ({ t0 with c := sr.c, changed := t0.changed || sr.changed }, 0, true)
  | v => (numOf ty v).map (fun n => (t0, n, false))

/-- the successful increment: metadata, new number -/
def incApply (ar : Arith) (now : Int) (ty : NumTy) (by_ : Int) (t1 : MRec) (cur : Int) (mreq : Option IncMeta) : MRec :=
  let t2 := applyIncMeta now t1 mreq
  let sr := setScalar t2.c (numVal ty (numAdd ar ty cur by_))
  { t2 with c := sr.c, changed := t2.changed || sr.changed }

/-- a treasure that was handed out by `CreateTreasure` stays where it is: in the key beacon
    (mutated in place) or parked in `creatingTreasures` -/
def park (existed : Bool) (i : Inst) (k : Key) (t : MRec) : Inst :=
  if existed then { i with recs := AL.insert k t i.recs } else { i with inflight := AL.insert k t i.inflight }

/-- result of `IncrementXxx` on a live instance: the instance to keep (`settle` = the request
    may have stored nothing), the reply, tags -/
structure IncOut where
  i : Inst
  r : Resp
  tags : List Tag

/-- `IncrementXxx` (swamp.go) -/
def incCore (cfg : Cfg) (ar : Arith) (now : Int) (i : Inst) (ty : NumTy) (k : Key) (by_ : Int)
    (cond : Option (RelOp × Int)) (ine ie : Option IncMeta) : IncOut :=
  let existed := AL.has k i.recs
  let t0 := (createTreasure i k).1
  let tg0 := (createTreasure i k).2
  match incStart ty t0 with
  | none => ⟨park existed i k t0, .err "InvalidArgument", tg0⟩
  | some (t1, cur, useIne) =>
    let mreq := if useIne then ine else ie
    if condHolds ar ty cond cur then
      let t3 := incApply ar now ty by_ t1 cur mreq
      ⟨(save cfg i k t3 true).1, .inc t3.c.vis true (metaResp t3.m), tg0 ++ (save cfg i k t3 true).2.2⟩
    else if cfg.incFailClean then
      ⟨if existed then i else { i with inflight := AL.erase k i.inflight },
       .inc (numVal ty cur) false (metaResp t0.m), tg0⟩
    else
      let t2 := applyIncMeta now t1 mreq
      ⟨park existed i k t2, .inc (numVal ty cur) false (metaResp t2.m),
       tg0 ++ (if decide (t2 ≠ t0) || !existed then [Tag.incFailTrace] else [])⟩

def incStep (cfg : Cfg) (ar : Arith) (now : Int) (s : State) (ty : NumTy) (k : Key) (by_ : Int)
    (cond : Option (RelOp × Int)) (ine ie : Option IncMeta) : Out :=
  if numIsZero ty by_ then ⟨s, .err "InvalidArgument", []⟩
  else
    let o := incCore cfg ar now (summon s) ty k by_ cond ine ie
    let st := settleAfterTouch cfg s o.i
    ⟨st.1, o.r, o.tags ++ st.2⟩

/-- the comparison the float Increment handlers really make when they are written as
    `if cur <= ref { fail }`: "greater" is "not (less or equal)".  Equal to `ar` on ordered
    operands; with a NaN operand every ordering condition passes. -/
def negCmp (ar : Arith) : Arith :=
  { ar with flt := fun t x y => !(ar.flt t y x || ar.feq t x y) }

def cmpArith (cfg : Cfg) (ar : Arith) : Arith := if cfg.fltCondDirect then ar else negCmp ar

/-- a float condition with an ordering operator (the only place `Arith.flt` is consulted) -/
def isFltOrd : NumTy → Option (RelOp × Int) → Bool
  | .flt _, some (.gt, _) | .flt _, some (.ge, _) | .flt _, some (.lt, _) | .flt _, some (.le, _) => true
  | _, _ => false

/-- content after `Uint32SlicePush` (with the type check: a canonical slice) -/
def pushSet (cfg : Cfg) (c : Content) (vs : List Nat) : SetRes :=
  if cfg.pushChecksType then
    ⟨{ slice := some (pushU32 c.vis.sliceD vs) }, decide (({ slice := some (pushU32 c.vis.sliceD vs) } : Content) ≠ c)⟩
  else pushRaw c vs

/-- one pair of `Uint32SlicePush`; Bool = an error was collected -/
def pushOne (cfg : Cfg) (i : Inst) (p : Key × List Nat) : Inst × Bool × List Tag :=
  let t := (createTreasure i p.1).1
  let tg0 := (createTreasure i p.1).2
  if cfg.pushChecksType && t.c.vis.scalar then (i, true, tg0)
  else
    let sr := pushSet cfg t.c p.2
    let tgH : List Tag := if sr.c.vis.isSlice then [] else [Tag.hiddenSlice]
    let t' : MRec := { t with c := sr.c, changed := t.changed || sr.changed }
    ((save cfg i p.1 t' sr.changed).1, false, tg0 ++ tgH ++ (save cfg i p.1 t' sr.changed).2.2)

def pushLoop (cfg : Cfg) : Inst → List (Key × List Nat) → Inst × Bool × List Tag
  | i, [] => (i, false, [])
  | i, p :: rest =>
    let (i1, e, tg) := pushOne cfg i p
    let (i2, es, tgs) := pushLoop cfg i1 rest
    (i2, e || es, tg ++ tgs)

/-- outcome of one pair of `Uint32SliceDelete` -/
inductive DelOut where
  | cont (i : Inst) (err : Bool) (tags : List Tag)
  | destroyed (tags : List Tag)
  | hang (tags : List Tag)

def DelOut.tags : DelOut → List Tag
  | .cont _ _ tg => tg
  | .destroyed tg => tg
  | .hang tg => tg

/-- the tail of one pair of `Uint32SliceDelete`, after `Save`: when the slice is empty (or the
    record is not a slice) the handler calls `DeleteTreasure` -/
def u32delFinish (cfg : Cfg) (kind : Kind) (k : Key) (isSlice : Bool) (sv : Inst × St × List Tag)
    (tgH : List Tag) (empty : Bool) : DelOut :=
  if empty then
    let tgN : List Tag := if isSlice then [] else [Tag.u32delNonSlice]
    -- the guard is still held unless Save let go of it (write interval 0, save not "same")
    let released := cfg.u32delReleases || (cfg.saveReleasesImmediate && kind == .p0 && sv.2.1 != .same)
    if !released then .hang (tgH ++ sv.2.2 ++ tgN ++ [Tag.u32delDeadlock])
    else if (deleteRec sv.1 k).recs.isEmpty then .destroyed (tgH ++ sv.2.2 ++ tgN)
    else .cont (deleteRec sv.1 k) false (tgH ++ sv.2.2 ++ tgN)
  else .cont sv.1 false (tgH ++ sv.2.2)

def u32delOne (cfg : Cfg) (kind : Kind) (i : Inst) (p : Key × List Nat) : DelOut :=
  match AL.find p.1 i.recs with
  | none => .cont i false []
  | some t =>
    let isSlice := t.c.slice.isSome
    if cfg.u32delChecksType && !isSlice then .cont i true []
    else
      let sr := delRaw t.c p.2
      let tgH : List Tag := if isSlice && !t.c.vis.isSlice then [Tag.hiddenSlice] else []
      let t' : MRec := { t with c := sr.c, changed := t.changed || sr.changed }
      u32delFinish cfg kind p.1 isSlice (save cfg i p.1 t' sr.changed) tgH (sr.c.slice.getD []).isEmpty

/-- result: final instance (none = destroyed), error flag, hang flag, tags -/
def u32delLoop (cfg : Cfg) (kind : Kind) : Inst → List (Key × List Nat) → Option Inst × Bool × Bool × List Tag
  | i, [] => (some i, false, false, [])
  | i, p :: rest =>
    match u32delOne cfg kind i p with
    | .cont i1 e tg =>
      let (r, es, h, tgs) := u32delLoop cfg kind i1 rest
      (r, e || es, h, tg ++ tgs)
    | .destroyed tg => (none, false, false, tg)   -- later pairs find nothing in the destroyed instance
    | .hang tg => (some i, false, true, tg)

/-- the file after `Close` -/
def closeDisk (cfg : Cfg) (i : Inst) : Option (List (Key × PRec)) :=
  flushDisk cfg.encoding i.recs i.waiting i.disk

/-- what a close/reload changes: a written record whose visible value is not what was stored
    (`zeroLikeDropped`), or a record whose in-memory state was never handed to the writer -/
def closeTags (cfg : Cfg) (i : Inst) : List Tag :=
  (if i.recs.any (fun p => decide ((persistContent cfg.encoding p.2.c).vis ≠ p.2.c.vis)) then [Tag.zeroLikeDropped] else []) ++
  (if i.recs.any (fun p => !i.waiting.contains p.1 &&
        decide ((AL.find p.1 (i.disk.getD [])).map (fun q => (loadRec q).abs) ≠ some (loadRec (persistRec cfg.encoding p.2)).abs))
   then [Tag.incFailTrace] else []) ++
  (if ((closeDisk cfg i).getD []).any (fun q => !AL.has q.1 i.recs) then [Tag.resurrected] else [])

/-- the request on keys that passed (or were not put to) the key check -/
def stepCoreV (cfg : Cfg) (ar : Arith) (now : Int) (s : State) (req : Req) : Out :=
  match req with
  | .set create over items =>
    if items.isEmpty then ⟨s, .err "InvalidArgument", []⟩
    else if !create && !over then ⟨s, .setErr "CanNotBeExecuted" (!cfg.setErrSingle), if cfg.setErrSingle then [] else [Tag.setErrDup]⟩
    else if !create && !exists_ s then ⟨s, .setErr "SwampDoesNotExist" (!cfg.setErrSingle), if cfg.setErrSingle then [] else [Tag.setErrDup]⟩
    else
      let r := setLoop cfg create over (summon s) items
      let st := settleAfterTouch cfg s r.1
      ⟨st.1, .sts r.2.1, r.2.2 ++ st.2⟩
  | .get keys =>
    if !exists_ s then ⟨s, .err "FailedPrecondition", []⟩
    else ⟨withLive s (summon s), .recs (keys.map fun k => (AL.find k (summon s).recs).map fun t => wire ar t.abs), []⟩
  | .getAll =>
    if !exists_ s then ⟨s, .err "FailedPrecondition", []⟩
    else ⟨withLive s (summon s), .kvs (AL.mapV (fun t => wire ar t.abs) (summon s).recs), []⟩
  | .getByKeys keys =>
    if !exists_ s then ⟨s, .err "FailedPrecondition", []⟩
    else ⟨withLive s (summon s),
          .kvs (keys.filterMap fun k => (AL.find k (summon s).recs).map fun t => (k, wire ar t.abs)), []⟩
  | .shift keys =>
    if !exists_ s then ⟨s, .err "FailedPrecondition", []⟩
    else
      let r := shiftLoop ar (summon s) keys
      ⟨settleAfterDelete s r.1, .kvs r.2, []⟩
  | .del keys =>
    if !exists_ s then ⟨s, .delErr, []⟩
    else
      let r := delLoop (summon s) keys
      -- DeleteTreasure destroys only after an actual delete
      ⟨if r.1.recs.isEmpty && !(summon s).recs.isEmpty then destroy s else withLive s r.1, .sts r.2, []⟩
  | .count =>
    if !exists_ s then
      if cfg.countMissingOk then ⟨s, .count none, []⟩ else ⟨s, .err "FailedPrecondition", [Tag.countPrecondition]⟩
    else ⟨withLive s (summon s), .count (some (summon s).recs.length), []⟩
  | .isKey k =>
    if !exists_ s then ⟨s, .err "FailedPrecondition", []⟩
    else ⟨withLive s (summon s), .flag (AL.has k (summon s).recs), []⟩
  | .areKeys keys =>
    if !exists_ s then
      if cfg.arekAllFalse then ⟨s, .flags (flagMap (fun _ => false) keys), []⟩
      else ⟨s, .err "FailedPrecondition", [Tag.arekPrecondition]⟩
    else ⟨withLive s (summon s), .flags (flagMap (fun k => AL.has k (summon s).recs) keys), []⟩
  | .isSwamp => ⟨s, .flag (exists_ s), []⟩
  | .inc ty k by_ cond ine ie =>
    let o := incStep cfg (cmpArith cfg ar) now s ty k by_ cond ine ie
    ⟨o.s, o.r, o.tags ++ (if !cfg.fltCondDirect && isFltOrd ty cond then [Tag.nanCond] else [])⟩
  | .push pairs =>
    let r := pushLoop cfg (summon s) pairs
    let st := settleAfterTouch cfg s r.1
    ⟨st.1, errOr r.2.1, r.2.2 ++ st.2⟩
  | .u32del pairs =>
    let r := u32delLoop cfg s.kind (summon s) pairs
    if r.2.2.1 then ⟨{ s with dead := true }, .hang, r.2.2.2⟩
    else
      match r.1 with
      | none => ⟨destroy s, errOr r.2.1, r.2.2.2⟩
      | some i =>
        let st := settleAfterTouch cfg s i
        ⟨st.1, errOr r.2.1, r.2.2.2 ++ st.2⟩
  | .size k =>
    let st := settleAfterTouch cfg s (summon s)
    match AL.find k (summon s).recs with
    | none => ⟨st.1, .err "InvalidArgument", st.2⟩
    | some t =>
      match t.c.slice with
      | none => ⟨st.1, .err "FailedPrecondition", st.2⟩
      | some l => ⟨st.1, .size l.length, st.2 ++ (if t.c.vis.isSlice then [] else [Tag.hiddenSlice])⟩
  | .hasVal k v =>
    let st := settleAfterTouch cfg s (summon s)
    match AL.find k (summon s).recs with
    | none => ⟨st.1, .err "InvalidArgument", st.2⟩
    | some t =>
      match t.c.slice with
      | none => ⟨st.1, .flag false, st.2⟩
      | some l => ⟨st.1, .flag (l.contains v), st.2 ++ (if t.c.vis.isSlice then [] else [Tag.hiddenSlice])⟩

/-- `Close` (idle eviction or graceful stop): flush the write buffer, drop the instance -/
def closeStep (cfg : Cfg) (s : State) : State × List Tag :=
  if s.dead then (s, []) else
  match s.live with
  | none => (s, [])
  | some i =>
    match s.kind with
    | .mem => ({ s with live := none }, [])
    | _ => ({ s with live := none, file := closeDisk cfg i }, closeTags cfg i)

def stepCore (cfg : Cfg) (ar : Arith) (now : Int) (s : State) (req : Req) : Out :=
  if cfg.keyChecked && req.badKey then ⟨s, .err "InvalidArgument", []⟩
  else
    let o := stepCoreV cfg ar now s req
    ⟨o.s, o.r, o.tags ++ (if req.badKey then [Tag.unstorableKey] else [])⟩

/-- the Spec-level view of a model state -/
def abs (s : State) : Spec.Store :=
  match s.live with
  | some i => AL.mapV MRec.abs i.recs
  | none => AL.mapV (fun p => (loadRec p).abs) (s.file.getD [])

/-- an empty swamp that nevertheless answers "exists" -/
def ghost (s : State) : Bool := exists_ s && (abs s).isEmpty

def step (cfg : Cfg) (ar : Arith) (now : Int) (s : State) (req : Req) : Out :=
  if s.dead then ⟨s, .skip, []⟩
  else
    let o := stepCore cfg ar now s req
    { o with tags := o.tags ++ (if ghost s then [if cfg.noEmptyLive then Tag.incFailTrace else Tag.emptyLive] else []) }

end Model

end Hv.Data
