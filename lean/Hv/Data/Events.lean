/-
  Model of the change-event path (C19):

    swamp.go   SaveFunction  → sendEventToHydra (StatusNew / StatusModified), under the record guard
               deleteHandler → sendDeletedEventToClient, under the record guard
    hydra.go   eventCallbackFunction: synchronous fan-out on the writer's goroutine
    gateway.go SubscribeToEvents callback: time conversion + eventServer.SendMsg

  Three independent parts:
    * `conv`    — the conversion of `Event.EventTime` (UnixNano) into the protobuf timestamp;
    * `stepM`   — the sequential emission model (where the code emits, incl. the sticky
                  changed-flags quirk) next to `stepS`, the Spec (one event per committed change);
    * `Send` / `Order` — two small LTSs for the concurrent part (SendMsg serialisation, per-key order).
  Core-only: the compiled driver links this file.
-/
import Hv.Basic.LTS

namespace Hv.Events

/-! ### time conversion -/

inductive TimeConv where
  /-- `time.Unix(event.EventTime, 0)` — the nanosecond count is passed as seconds -/
  | unixSec
  /-- `time.Unix(0, event.EventTime)` -/
  | unixNano
  /-- `time.Unix(event.EventTime/1e9, event.EventTime%1e9)` -/
  | unixSplit
  | unknown
  deriving DecidableEq, Repr

def giga : Int := 1000000000

/-- Go `time.Unix(sec, nsec)` normalises `nsec` into `[0, 1e9)` by floor division;
    `timestamppb.New` then stores `(t.Unix(), t.Nanosecond())`. -/
def unixTs (sec nsec : Int) : Int × Int := (sec + nsec / giga, nsec % giga)

/-- what the gateway puts on the wire for an event stamped `n` (UnixNano) -/
def conv : TimeConv → Int → Int × Int
  | .unixSec, n => unixTs n 0
  | .unixNano, n => unixTs 0 n
  | .unixSplit, n => unixTs (n / giga) (n % giga)
  | .unknown, _ => (0, 0)

/-- the instant a client reads from the wire value -/
def toNanos (ts : Int × Int) : Int := ts.1 * giga + ts.2

/-! ### sequential emission -/

inductive Val where
  | str (s : String)
  | int (i : Int)
  deriving DecidableEq, Repr

structure Rec where
  val : Val
  /-- code: the treasure's `*Changed` flags (any of them set) -/
  dirty : Bool
  deriving DecidableEq, Repr

inductive Kind where | new | mod | del
  deriving DecidableEq, Repr

structure Event where
  kind : Kind
  key : String
  val : Val
  /-- `OldTreasure` of a StatusModified event -/
  old : Option Val
  deriving DecidableEq, Repr

inductive Op where
  | set (k : String) (v : Val)
  | inc (k : String) (n : Int)
  | del (k : String)
  | shift (k : String)
  | get (k : String)
  /-- close + re-summon a persistent swamp: every record is a fresh object loaded from disk -/
  | reload
  | sub (i : Nat)
  | unsub (i : Nat)
  /-- an auto-destroy starts (`true`) / ends by closing instead (`false`) draining the in-flight requests -/
  | drain (on : Bool)
  deriving DecidableEq, Repr

structure Cfg where
  /-- the changed flags are cleared once a save committed -/
  resetsChangedFlags : Bool
  /-- `OldTreasure` is the live object fetched from the key beacon (= the new record) -/
  oldIsLive : Bool
  /-- event sending stays on while an auto-destroy drains the in-flight requests (it is switched off only when the
      swamp is really destroyed) -/
  sendsDuringDrain : Bool := true
  deriving DecidableEq, Repr

inductive Status where
  | new | updated | same | deleted | notFound | typeErr | none
  deriving DecidableEq, Repr

structure St where
  recs : String → Option Rec
  subs : List Nat
  draining : Bool := false

def St.init : St := { recs := fun _ => none, subs := [] }

def upd (f : String → Option α) (k : String) (v : Option α) : String → Option α :=
  fun k' => if k' = k then v else f k'

/-- `keyValuesToTreasure` + `Save` → `SaveFunction` on an existing or fresh treasure -/
def save (cfg : Cfg) (s : St) (k : String) (v : Val) : St × Status × List Event :=
  match s.recs k with
  | none =>
    ({ s with recs := upd s.recs k (some { val := v, dirty := !cfg.resetsChangedFlags }) },
     .new, [{ kind := .new, key := k, val := v, old := none }])
  | some r =>
    -- SetContentXxx returns early on an equal value; the flags keep whatever they had
    if r.dirty || r.val != v then
      ({ s with recs := upd s.recs k (some { val := v, dirty := !cfg.resetsChangedFlags }) },
       .updated, [{ kind := .mod, key := k, val := v, old := some (if cfg.oldIsLive then v else r.val) }])
    else (s, .same, [])

def remove (s : St) (k : String) : St × Status × List Event :=
  match s.recs k with
  | none => (s, .notFound, [])
  | some r => ({ s with recs := upd s.recs k none }, .deleted,
               [{ kind := .del, key := k, val := r.val, old := none }])

def stepM (cfg : Cfg) (s : St) : Op → St × Status × List Event
  | .set k v =>
    let r := save cfg s k v
    -- Destroy has switched event sending off before its drain: the change is committed, its event is not sent
    if s.draining && !cfg.sendsDuringDrain then (r.1, r.2.1, []) else r
  | .inc k n =>
    match s.recs k with
    | none => save cfg s k (.int n)
    | some r =>
      match r.val with
      | .int i => save cfg s k (.int (i + n))
      | .str _ => (s, .typeErr, [])
  | .del k => remove s k
  | .shift k => remove s k
  | .get _ => (s, .none, [])
  | .reload => ({ s with recs := fun k => (s.recs k).map (fun r => { r with dirty := false }) }, .none, [])
  | .sub i => ({ s with subs := if s.subs.contains i then s.subs else s.subs ++ [i] }, .none, [])
  | .unsub i => ({ s with subs := s.subs.filter (· != i) }, .none, [])
  | .drain b => ({ s with draining := b }, .none, [])

/-- Spec: the committed state is a finite map; one event per create / real update / delete. -/
structure Spec where
  recs : String → Option Val
  subs : List Nat

def Spec.init : Spec := { recs := fun _ => none, subs := [] }

def specSave (s : Spec) (k : String) (v : Val) : Spec × List Event :=
  match s.recs k with
  | none => ({ s with recs := upd s.recs k (some v) }, [{ kind := .new, key := k, val := v, old := none }])
  | some o =>
    if o != v then ({ s with recs := upd s.recs k (some v) }, [{ kind := .mod, key := k, val := v, old := some o }])
    else (s, [])

def specRemove (s : Spec) (k : String) : Spec × List Event :=
  match s.recs k with
  | none => (s, [])
  | some o => ({ s with recs := upd s.recs k none }, [{ kind := .del, key := k, val := o, old := none }])

def stepS (s : Spec) : Op → Spec × List Event
  | .set k v => specSave s k v
  | .inc k n =>
    match s.recs k with
    | none => specSave s k (.int n)
    | some (.int i) => specSave s k (.int (i + n))
    | some (.str _) => (s, [])
  | .del k => specRemove s k
  | .shift k => specRemove s k
  | .get _ => (s, [])
  | .reload => (s, [])
  | .sub i => ({ s with subs := if s.subs.contains i then s.subs else s.subs ++ [i] }, [])
  | .unsub i => ({ s with subs := s.subs.filter (· != i) }, [])
  | .drain _ => (s, [])

/-- what subscriber `i` receives over a history: the events of every step during which it
    was subscribed (fan-out is synchronous, one callback invocation per subscriber per event) -/
def deliveredM (cfg : Cfg) (i : Nat) : St → List Op → List Event
  | _, [] => []
  | s, op :: ops =>
    let r := stepM cfg s op
    (if s.subs.contains i then r.2.2 else []) ++ deliveredM cfg i r.1 ops

def deliveredS (i : Nat) : Spec → List Op → List Event
  | _, [] => []
  | s, op :: ops =>
    let r := stepS s op
    (if s.subs.contains i then r.2 else []) ++ deliveredS i r.1 ops

/-! ### concurrent part 1: are `SendMsg` calls on one stream serialised? -/
namespace Send

/-- per writer goroutine: 0 = before the send section, 1 = past the (optional) lock,
    2 = inside `SendMsg`, 3 = returned from `SendMsg` (lock still held) -/
structure St where
  pc : Nat → Nat
  /-- the per-stream mutex, when the code has one -/
  holder : Option Nat

def init : St := { pc := fun _ => 0, holder := none }

def set (f : Nat → Nat) (t v : Nat) : Nat → Nat := fun t' => if t' = t then v else f t'

/-- one action = thread `t` advances to its next point -/
def step (mutex : Bool) (s : St) (t : Nat) : Option St :=
  match s.pc t with
  | 0 =>
    if mutex then
      match s.holder with
      | none => some { pc := set s.pc t 1, holder := some t }
      | some _ => none          -- blocked in `Lock`
    else some { s with pc := set s.pc t 1 }
  | 1 => some { s with pc := set s.pc t 2 }
  | 2 => some { s with pc := set s.pc t 3 }
  | _ => some { pc := set s.pc t 0, holder := if mutex then none else s.holder }

abbrev run (mutex : Bool) := LTS.run (step mutex)

def Serialized (s : St) : Prop := ∀ t u, s.pc t = 2 → s.pc u = 2 → t = u

end Send

/-! ### concurrent part 2: per-key order of emission vs commit -/
namespace Order

/-- one record; writers take its guard, commit, emit, release (`underGuard`) or
    take, commit, release, emit (otherwise) -/
structure St where
  pc : Nat → Nat
  holder : Option Nat
  /-- commit sequence numbers in commit order -/
  commits : List Nat
  /-- the same numbers in the order the events were handed to the subscriber -/
  emitted : List Nat
  /-- per thread: committed but not yet emitted -/
  pending : Nat → Option Nat
  next : Nat

def init : St := { pc := fun _ => 0, holder := none, commits := [], emitted := [], pending := fun _ => none, next := 0 }

def setp (f : Nat → α) (t : Nat) (v : α) : Nat → α := fun t' => if t' = t then v else f t'

def emit (s : St) (t : Nat) : St :=
  match s.pending t with
  | some n => { s with emitted := s.emitted ++ [n], pending := setp s.pending t none }
  | none => s

def step (underGuard : Bool) (s : St) (t : Nat) : Option St :=
  match s.pc t with
  | 0 =>                                        -- StartTreasureGuard(true)
    match s.holder with
    | none => some { s with pc := setp s.pc t 1, holder := some t }
    | some _ => none
  | 1 =>                                        -- commit (beacon / write-buffer update)
    some { s with pc := setp s.pc t 2, commits := s.commits ++ [s.next], next := s.next + 1,
                  pending := setp s.pending t (some s.next) }
  | 2 =>
    if underGuard then some { emit s t with pc := setp s.pc t 3 }            -- emit, guard still held
    else some { s with pc := setp s.pc t 3, holder := none }                 -- release first
  | _ =>
    if underGuard then some { s with pc := setp s.pc t 0, holder := none }   -- release
    else some { emit s t with pc := setp s.pc t 0 }                          -- emit after release

abbrev run (underGuard : Bool) := LTS.run (step underGuard)

end Order

end Hv.Events
