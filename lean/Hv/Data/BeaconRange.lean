/-
  Stored timestamps are int64 nanoseconds: whatever instant a request names, what is kept is
  `UnixNano()` of it (`wrap64`).  So every record of every reachable swamp has its three timestamps
  inside [MinInt64, MaxInt64]; and for such records a window whose bounds are checked for
  representability (`effWindow`, `windowBoundsChecked`) selects exactly what the unbounded window does.
-/
import Hv.Data.BeaconLemmas

namespace Hv.Beacon

def inI64 (x : Int) : Prop := minInt64 ≤ x ∧ x ≤ maxInt64

theorem wrap64_range (x : Int) : inI64 (wrap64 x) := by
  unfold inI64 wrap64 minInt64 maxInt64
  omega

theorem zero_inI64 : inI64 0 := by unfold inI64 minInt64 maxInt64; omega

/-- the record's timestamps are representable -/
def InR (r : Rec) : Prop := inI64 r.created ∧ inI64 r.updated ∧ inI64 r.expire

theorem ts_inI64 (s : Slot) (r : Rec) (h : InR r) : inI64 (ts s r) := by
  cases s <;> simp only [ts]
  · exact zero_inI64
  · exact h.1
  · exact h.2.1
  · exact h.2.2
  · exact zero_inI64

theorem inR_mergeRec (cfg : Cfg) (old : Option Rec) (rq : SetReq) (ho : ∀ o, old = some o → InR o) :
    InR (mergeRec cfg old rq) := by
  cases old with
  | none =>
    simp only [mergeRec]
    refine ⟨wrap64_range _, wrap64_range _, ?_⟩
    simp only []
    split
    · exact zero_inI64
    · exact wrap64_range _
  | some o =>
    have h := ho o rfl
    simp only [mergeRec]
    refine ⟨?_, ?_, ?_⟩
    · simp only []; split
      · exact wrap64_range _
      · exact h.1
    · simp only []; split
      · exact wrap64_range _
      · exact h.2.1
    · simp only []; split
      · exact zero_inI64
      · split
        · exact wrap64_range _
        · exact h.2.2

def RangeInv (st : St) : Prop := ∀ r ∈ st.store, InR r

theorem mem_eraseKey_sub (k : String) (l : List Rec) (r : Rec) (h : r ∈ eraseKey k l) : r ∈ l := by
  induction l with
  | nil => simp [eraseKey] at h
  | cons x xs ih =>
    simp only [eraseKey] at h
    split at h
    · exact List.mem_cons_of_mem _ h
    · rcases List.mem_cons.mp h with rfl | h'
      · exact List.mem_cons_self
      · exact List.mem_cons_of_mem _ (ih h')

theorem rangeInv_stepSet (cfg : Cfg) (st : St) (rq : SetReq) (h : RangeInv st) : RangeInv (stepSet cfg st rq) := by
  simp only [stepSet]
  cases hf : findKey rq.key st.store with
  | none =>
    intro r hr
    rcases List.mem_append.mp hr with hr | hr
    · exact h r hr
    · simp only [List.mem_singleton] at hr; rw [hr]
      exact inR_mergeRec cfg none rq (fun o ho => by cases ho)
  | some o =>
    intro r hr
    rcases List.mem_append.mp hr with hr | hr
    · exact h r (mem_eraseKey_sub _ _ _ hr)
    · simp only [List.mem_singleton] at hr; rw [hr]
      exact inR_mergeRec cfg (some o) rq (fun o' ho' => by cases ho'; exact h o (findKey_some hf).1)

theorem rangeInv_stepDel (st : St) (k : String) (h : RangeInv st) : RangeInv (stepDel st k) := by
  simp only [stepDel]
  cases hf : findKey k st.store with
  | none => exact h
  | some o =>
    simp only []
    split
    · intro r hr; simp [St.init] at hr
    · intro r hr; exact h r (mem_eraseKey_sub _ _ _ hr)

theorem rangeInv_foldDel (ks : List String) : ∀ (st : St), RangeInv st → RangeInv (ks.foldl stepDel st) := by
  induction ks with
  | nil => intro st h; exact h
  | cons k rest ih => intro st h; exact ih _ (rangeInv_stepDel st k h)

theorem stepBuild_store (cfg : Cfg) (st : St) (q : Query) : (stepBuild cfg st q).store = st.store := by
  simp only [stepBuild]; split <;> rfl

theorem rangeInv_stepBuild (cfg : Cfg) (st : St) (q : Query) (h : RangeInv st) : RangeInv (stepBuild cfg st q) := by
  intro r hr; rw [stepBuild_store] at hr; exact h r hr

theorem rangeInv_stepPatch (cfg : Cfg) (st : St) (k : String) (m : ExpMeta) (h : RangeInv st) :
    RangeInv (stepPatch cfg st k m) := by
  unfold stepPatch
  split
  · exact h
  · split
    · exact rangeInv_stepSet cfg st _ h
    · exact h

theorem rangeInv_foldPatch (cfg : Cfg) (m : ExpMeta) (ks : List String) :
    ∀ (st : St), RangeInv st → RangeInv (ks.foldl (fun s k => stepPatch cfg s k m) st) := by
  induction ks with
  | nil => intro st h; exact h
  | cons k rest ih => intro st h; exact ih _ (rangeInv_stepPatch cfg st k m h)

theorem rangeInv_step (cfg : Cfg) (st : St) (op : Op) (h : RangeInv st) : RangeInv (step cfg st op) := by
  cases op with
  | set rq => exact rangeInv_stepSet cfg st rq h
  | del k => exact rangeInv_stepDel st k h
  | read q => exact rangeInv_stepBuild cfg st q h
  | inc k d e =>
    simp only [step, stepInc]
    split
    · exact h
    split
    · exact rangeInv_stepSet cfg st _ h
    · split
      · exact rangeInv_stepSet cfg st _ h
      · split
        · exact rangeInv_stepSet cfg st _ h
        · exact h
  | reload =>
    intro r hr
    simp only [step, stepReload, List.mem_map] at hr
    obtain ⟨r0, hr0, rfl⟩ := hr
    exact h r0 hr0
  | shiftExpired => exact rangeInv_foldDel _ _ (rangeInv_stepBuild cfg st _ h)
  | patch k m => exact rangeInv_stepPatch cfg st k m h
  | patchExpired m =>
    simp only [step, stepPatchExpired]
    split
    · exact h
    · have h1 := rangeInv_stepBuild cfg st expireAll h
      generalize hg : (((shiftList cfg st).map (·.key)).foldl (fun s k => stepPatch cfg s k m) _) = st3
      have h3 : RangeInv st3 := by
        rw [← hg]
        exact rangeInv_foldPatch cfg m _ _ (fun r hr => h1 r hr)
      split <;> exact h3
  | shiftMatch q => exact rangeInv_foldDel _ _ (rangeInv_stepBuild cfg st q h)
  | shiftKeys ks => exact rangeInv_foldDel ks st h
  | patchCreate k m =>
    simp only [step, stepPatchCreate]
    split
    · exact rangeInv_stepSet cfg st _ h
    · split
      · exact rangeInv_stepSet cfg st _ h
      · split
        · exact rangeInv_stepSet cfg st _ h
        · exact h

theorem rangeInv_run (cfg : Cfg) (h : List Op) : RangeInv (run cfg h) := by
  unfold run
  suffices ∀ st, RangeInv st → RangeInv (h.foldl (step cfg) st) from this _ (by intro r hr; simp [St.init] at hr)
  induction h with
  | nil => intro st hst; exact hst
  | cons op ops ih => intro st hst; exact ih _ (rangeInv_step cfg st op hst)

/-- for a representable timestamp the checked window decides as the unbounded one -/
theorem effWindow_spec (cfg : Cfg) (hw : cfg.windowBoundsChecked = true) (fromT toT : Option Int) (x : Int) (hx : inI64 x) :
    match effWindow cfg fromT toT with
    | none => win fromT toT x = false
    | some (f, t) => win f t x = win fromT toT x := by
  unfold effWindow
  simp only [hw, if_true]
  unfold inI64 at hx
  cases fromT with
  | none =>
    cases toT with
    | none => simp
    | some t =>
      simp only [Bool.false_or]
      by_cases h1 : t < minInt64
      · simp only [h1, decide_true, if_true]
        simp only [win, loOk, hiOk, Bool.true_and, decide_eq_false_iff_not]
        omega
      · simp only [h1, decide_false, Bool.false_eq_true, if_false]
        by_cases h2 : t > maxInt64
        · simp only [h2, if_true, win, loOk, hiOk, Bool.true_and]
          symm; simp only [decide_eq_true_eq]; omega
        · simp [h2]
  | some f =>
    cases toT with
    | none =>
      simp only [Bool.or_false]
      by_cases h1 : f > maxInt64
      · simp only [h1, decide_true, if_true]
        simp only [win, loOk, hiOk, Bool.and_true, decide_eq_false_iff_not]
        omega
      · simp only [h1, decide_false, Bool.false_eq_true, if_false]
        by_cases h2 : f < minInt64
        · simp only [h2, if_true, win, loOk, hiOk, Bool.and_true]
          symm; simp only [decide_eq_true_eq]; omega
        · simp [h2]
    | some t =>
      by_cases h1 : f > maxInt64
      · simp only [h1, decide_true, Bool.true_or, if_true]
        simp only [win, loOk, hiOk, Bool.and_eq_false_iff, decide_eq_false_iff_not]
        left; omega
      · by_cases h1' : t < minInt64
        · simp only [h1', decide_true, Bool.or_true, if_true]
          simp only [win, loOk, hiOk, Bool.and_eq_false_iff, decide_eq_false_iff_not]
          right; omega
        · simp only [h1, h1', decide_false, Bool.or_self, Bool.false_eq_true, if_false]
          by_cases h2 : f < minInt64 <;> by_cases h3 : t > maxInt64 <;>
            simp only [h2, h3, if_true, if_false, win, loOk, hiOk, Bool.true_and, Bool.and_true]
          · symm; simp only [Bool.and_eq_true, decide_eq_true_eq]; omega
          · have : decide (f ≤ x) = true := by simp only [decide_eq_true_eq]; omega
            simp [this]
          · have : decide (x < t) = true := by simp only [decide_eq_true_eq]; omega
            simp [this]

end Hv.Beacon
