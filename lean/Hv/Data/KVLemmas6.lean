/-
  Refinement lemmas, part 6: one full step.  Core-only proofs.
-/
import Hv.Data.KVLemmas5

namespace Hv.Data
open Content

/-- closes `resp ∧ store ∧ inv` goals whose first two parts hold by reflexivity (possibly already
    simplified away) -/
macro "triv3 " h:term : tactic =>
  `(tactic| first
    | exact ⟨rfl, rfl, $h⟩
    | exact ⟨trivial, trivial, $h⟩
    | exact $h
    | (refine ⟨?_, ?_, ?_⟩ <;> first | rfl | trivial | exact $h))

/-- the three facts every handler starts from -/
theorem touch (cfg : Cfg) (s : State) (hinv : Inv cfg s) :
    InstOK cfg (Model.summon s) ∧ absI (Model.summon s) = Model.abs s ∧
    Model.exists_ s = !(Model.abs s).isEmpty := by
  obtain ⟨a, b, c, _⟩ := summon_facts cfg s hinv
  exact ⟨a, b, c⟩

theorem summon_nonempty (cfg : Cfg) (s : State) (hinv : Inv cfg s) (hex : Model.exists_ s = true) :
    (Model.summon s).recs ≠ [] := by
  obtain ⟨_, b, c⟩ := touch cfg s hinv
  intro e
  rw [hex] at c
  have : (Model.abs s).isEmpty = true := by
    rw [← b]; simp [absI, e, AL.mapV]
  rw [this] at c; cases c

theorem keep_live (cfg : Cfg) (s : State) (hinv : Inv cfg s) (hex : Model.exists_ s = true) :
    Inv cfg (Model.withLive s (Model.summon s)) ∧ Model.abs (Model.withLive s (Model.summon s)) = Model.abs s := by
  obtain ⟨a, b, _⟩ := touch cfg s hinv
  obtain ⟨x, y⟩ := inv_withLive cfg s _ hinv a (summon_nonempty cfg s hinv hex)
  exact ⟨x, by rw [y, b]⟩

theorem not_ghost (cfg : Cfg) (s : State) (hinv : Inv cfg s) : Model.ghost s = false := by
  obtain ⟨_, _, c⟩ := touch cfg s hinv
  simp only [Model.ghost, c]
  cases (Model.abs s).isEmpty <;> rfl

theorem exists_false_abs (cfg : Cfg) (s : State) (hinv : Inv cfg s) (hex : Model.exists_ s = false) :
    (Model.abs s).isEmpty = true := by
  obtain ⟨_, _, c⟩ := touch cfg s hinv
  rw [hex] at c
  cases h : (Model.abs s).isEmpty with
  | true => rfl
  | false => rw [h] at c; cases c

theorem exists_true_abs (cfg : Cfg) (s : State) (hinv : Inv cfg s) (hex : Model.exists_ s = true) :
    (Model.abs s).isEmpty = false := by
  obtain ⟨_, _, c⟩ := touch cfg s hinv
  rw [hex] at c
  cases h : (Model.abs s).isEmpty with
  | false => rfl
  | true => rw [h] at c; cases c

theorem filterMap_congr' {α β : Type} (f g : α → Option β) (l : List α) (h : ∀ a, a ∈ l → f a = g a) :
    l.filterMap f = l.filterMap g := by
  induction l with
  | nil => rfl
  | cons a t ih =>
    have h1 := h a (by simp)
    have h2 := ih (fun b hb => h b (List.mem_cons_of_mem _ hb))
    simp only [List.filterMap_cons, h1, h2]

theorem flagMap_congr (f g : Key → Bool) (keys : List Key) (h : ∀ k, f k = g k) :
    flagMap f keys = flagMap g keys := by
  have : f = g := funext h
  rw [this]

theorem ofVal_slice_cases (u : Val) :
    (ofVal u).slice = if u.isSlice then some u.sliceD else none := by
  cases u <;> simp [ofVal, Val.isSlice, Val.sliceD]

/-- What one step of the model and one step of the Spec have in common. -/
def Sim (cfg : Cfg) (ar : Arith) (now : Int) (s : State) (req : Req) : Prop :=
  (Model.stepCore cfg ar now s req).r = (Spec.step ar now (Model.abs s) req).2 ∧
  Model.abs (Model.stepCore cfg ar now s req).s = (Spec.step ar now (Model.abs s) req).1 ∧
  Inv cfg (Model.stepCore cfg ar now s req).s

theorem sim_set (cfg : Cfg) (ar : Arith) (now : Int) (s : State) (create over : Bool) (items : List Item)
    (hinv : Inv cfg s) (hq : Q cfg (Model.stepCore cfg ar now s (.set create over items)).tags) :
    Sim cfg ar now s (.set create over items) := by
  obtain ⟨hi, habs, hex⟩ := touch cfg s hinv
  have hsingle : ∀ {P : Prop}, Q cfg (if cfg.setErrSingle then [] else [Tag.setErrDup]) →
      (cfg.setErrSingle = true → P) → P := by
    intro P hq' k
    cases hs : cfg.setErrSingle with
    | true => exact k hs
    | false =>
      rw [hs] at hq'
      exact Q.absurd_tag hq' (fun hg => by have := Cfg.good_setErr hg; rw [this] at hs; cases hs)
  unfold Sim
  simp only [Model.stepCore, Spec.step] at hq ⊢
  by_cases h0 : items.isEmpty = true
  · simp only [h0, if_true] at hq ⊢
    triv3 hinv
  · simp only [h0, Bool.false_eq_true, if_false] at hq ⊢
    by_cases h1 : (!create && !over) = true
    · simp only [h1, if_true] at hq ⊢
      exact hsingle hq (fun hs => by simp only [hs, Bool.not_true]; triv3 hinv)
    · simp only [h1, Bool.false_eq_true, if_false] at hq ⊢
      by_cases h2 : (!create && !Model.exists_ s) = true
      · have h2' : (!create && (Model.abs s).isEmpty) = true := by
          rw [hex] at h2; simpa using h2
        simp only [h2, h2', if_true] at hq ⊢
        exact hsingle hq (fun hs => by simp only [hs, Bool.not_true]; triv3 hinv)
      · have h2' : ¬ (!create && (Model.abs s).isEmpty) = true := by
          rw [hex] at h2; simpa using h2
        simp only [h2, h2', Bool.false_eq_true, if_false] at hq ⊢
        obtain ⟨a1, a2, _⟩ := setLoop_sim cfg create over items (Model.summon s) hi hq.left
        obtain ⟨b1, b2⟩ := settleAfterTouch_sim cfg s _ hinv a1 hq.right
        rw [habs] at a2
        refine ⟨?_, ?_, b1⟩
        · rw [← a2]
        · rw [b2, ← a2]

theorem sim_reads (cfg : Cfg) (ar : Arith) (now : Int) (s : State) (hinv : Inv cfg s) :
    (∀ keys, Sim cfg ar now s (.get keys)) ∧ Sim cfg ar now s .getAll ∧
    (∀ keys, Sim cfg ar now s (.getByKeys keys)) ∧ (∀ k, Sim cfg ar now s (.isKey k)) ∧
    Sim cfg ar now s .isSwamp := by
  obtain ⟨hi, habs, hex⟩ := touch cfg s hinv
  unfold Sim
  cases hx : Model.exists_ s with
  | false =>
    have he := exists_false_abs cfg s hinv hx
    refine ⟨fun keys => ?_, ?_, fun keys => ?_, fun k => ?_, ?_⟩ <;>
      simp only [Model.stepCore, Spec.step, hx, he, Bool.not_false, Bool.not_true, if_true] <;>
      triv3 hinv
  | true =>
    have he := exists_true_abs cfg s hinv hx
    obtain ⟨k1, k2⟩ := keep_live cfg s hinv hx
    refine ⟨fun keys => ?_, ?_, fun keys => ?_, fun k => ?_, ?_⟩
    · simp only [Model.stepCore, Spec.step, hx, he, Bool.not_true, Bool.false_eq_true, if_false]
      refine ⟨?_, k2, k1⟩
      rw [← habs]
      congr 1
      apply List.map_congr_left
      intro k _
      rw [find_absI]; cases AL.find k (Model.summon s).recs <;> rfl
    · simp only [Model.stepCore, Spec.step, hx, he, Bool.not_true, Bool.false_eq_true, if_false]
      refine ⟨?_, k2, k1⟩
      rw [← habs, absI, AL.mapV_mapV]
    · simp only [Model.stepCore, Spec.step, hx, he, Bool.not_true, Bool.false_eq_true, if_false]
      refine ⟨?_, k2, k1⟩
      rw [← habs]
      congr 1
      apply filterMap_congr'
      intro k _
      rw [find_absI]; cases AL.find k (Model.summon s).recs <;> rfl
    · simp only [Model.stepCore, Spec.step, hx, he, Bool.not_true, Bool.false_eq_true, if_false]
      refine ⟨?_, k2, k1⟩
      rw [← habs, has_absI]
    · simp only [Model.stepCore, Spec.step, hx, he, Bool.not_false]
      triv3 hinv

theorem sim_shift (cfg : Cfg) (ar : Arith) (now : Int) (s : State) (keys : List Key) (hinv : Inv cfg s) :
    Sim cfg ar now s (.shift keys) := by
  obtain ⟨hi, habs, hex⟩ := touch cfg s hinv
  unfold Sim
  cases hx : Model.exists_ s with
  | false =>
    have he := exists_false_abs cfg s hinv hx
    simp only [Model.stepCore, Spec.step, hx, he, Bool.not_false, if_true]
    triv3 hinv
  | true =>
    have he := exists_true_abs cfg s hinv hx
    simp only [Model.stepCore, Spec.step, hx, he, Bool.not_true, Bool.false_eq_true, if_false]
    obtain ⟨a1, a2⟩ := shiftLoop_sim cfg ar keys (Model.summon s) hi
    obtain ⟨b1, b2⟩ := settleAfterDelete_sim cfg s _ hinv a1
    rw [habs] at a2
    refine ⟨?_, ?_, b1⟩
    · rw [← a2]
    · rw [b2, ← a2]

theorem sim_del (cfg : Cfg) (ar : Arith) (now : Int) (s : State) (keys : List Key) (hinv : Inv cfg s) :
    Sim cfg ar now s (.del keys) := by
  obtain ⟨hi, habs, hex⟩ := touch cfg s hinv
  unfold Sim
  cases hx : Model.exists_ s with
  | false =>
    have he := exists_false_abs cfg s hinv hx
    simp only [Model.stepCore, Spec.step, hx, he, Bool.not_false, if_true]
    triv3 hinv
  | true =>
    have he := exists_true_abs cfg s hinv hx
    have hne := summon_nonempty cfg s hinv hx
    have hne' : (Model.summon s).recs.isEmpty = false := by
      cases hr : (Model.summon s).recs with
      | nil => exact absurd hr hne
      | cons _ _ => rfl
    simp only [Model.stepCore, Spec.step, hx, he, Bool.not_true, Bool.false_eq_true, if_false, hne',
      Bool.not_false, Bool.and_true]
    obtain ⟨a1, a2⟩ := delLoop_sim cfg keys (Model.summon s) hi
    rw [habs] at a2
    cases hr : (Model.delLoop (Model.summon s) keys).1.recs with
    | nil =>
      simp only [List.isEmpty_nil, if_true, Model.destroy]
      have hz : absI (Model.delLoop (Model.summon s) keys).1 = [] := by simp [absI, hr, AL.mapV]
      refine ⟨?_, ?_, ⟨hinv.alive, rfl, fun j hj => by cases hj⟩⟩
      · rw [← a2]
      · rw [← a2, hz]; simp [Model.abs, AL.mapV]
    | cons p t =>
      simp only [List.isEmpty_cons, Bool.false_eq_true, if_false]
      have hn : (Model.delLoop (Model.summon s) keys).1.recs ≠ [] := by rw [hr]; simp
      obtain ⟨b1, b2⟩ := inv_withLive cfg s _ hinv a1 hn
      refine ⟨?_, ?_, b1⟩
      · rw [← a2]
      · rw [b2, ← a2]

theorem sim_count (cfg : Cfg) (ar : Arith) (now : Int) (s : State) (hinv : Inv cfg s)
    (hq : Q cfg (Model.stepCore cfg ar now s .count).tags) : Sim cfg ar now s .count := by
  obtain ⟨hi, habs, hex⟩ := touch cfg s hinv
  unfold Sim
  cases hx : Model.exists_ s with
  | false =>
    have he := exists_false_abs cfg s hinv hx
    simp only [Model.stepCore, Spec.step, hx, he, Bool.not_false, if_true] at hq ⊢
    cases hc : cfg.countMissingOk with
    | true => simp only [if_true]; triv3 hinv
    | false =>
      simp only [hc, Bool.false_eq_true, if_false] at hq
      exact Q.absurd_tag hq (fun hg => by have := Cfg.good_count hg; rw [this] at hc; cases hc)
  | true =>
    have he := exists_true_abs cfg s hinv hx
    obtain ⟨k1, k2⟩ := keep_live cfg s hinv hx
    simp only [Model.stepCore, Spec.step, hx, he, Bool.not_true, Bool.false_eq_true, if_false]
    refine ⟨?_, k2, k1⟩
    rw [← habs, absI, AL.length_mapV]

theorem sim_areKeys (cfg : Cfg) (ar : Arith) (now : Int) (s : State) (keys : List Key) (hinv : Inv cfg s)
    (hq : Q cfg (Model.stepCore cfg ar now s (.areKeys keys)).tags) : Sim cfg ar now s (.areKeys keys) := by
  obtain ⟨hi, habs, hex⟩ := touch cfg s hinv
  unfold Sim
  cases hx : Model.exists_ s with
  | false =>
    have he := exists_false_abs cfg s hinv hx
    have hnil : Model.abs s = [] := by
      cases h : Model.abs s with
      | nil => rfl
      | cons _ _ => rw [h] at he; simp at he
    simp only [Model.stepCore, Spec.step, hx, Bool.not_false, if_true] at hq ⊢
    cases hc : cfg.arekAllFalse with
    | true =>
      simp only [if_true]
      refine ⟨?_, by first | rfl | trivial, hinv⟩
      rw [hnil]
      congr 1
    | false =>
      simp only [hc, Bool.false_eq_true, if_false] at hq
      exact Q.absurd_tag hq (fun hg => by have := Cfg.good_arek hg; rw [this] at hc; cases hc)
  | true =>
    obtain ⟨k1, k2⟩ := keep_live cfg s hinv hx
    simp only [Model.stepCore, Spec.step, hx, Bool.not_true, Bool.false_eq_true, if_false]
    refine ⟨?_, k2, k1⟩
    rw [← habs]
    congr 1
    apply flagMap_congr
    intro k; rw [has_absI]

theorem condHolds_negCmp (ar : Arith) (ty : NumTy) (cond : Option (RelOp × Int)) (cur : Int)
    (h : Model.isFltOrd ty cond = false) :
    condHolds (Model.negCmp ar) ty cond cur = condHolds ar ty cond cur := by
  cases cond with
  | none => rfl
  | some p =>
    obtain ⟨op, ref⟩ := p
    cases ty <;> cases op <;> simp_all [condHolds, numCmp, Model.isFltOrd, Model.negCmp]

theorem numAdd_negCmp (ar : Arith) (ty : NumTy) (a b : Int) : numAdd (Model.negCmp ar) ty a b = numAdd ar ty a b := by
  cases ty <;> rfl

theorem incStep_negCmp (cfg : Cfg) (ar : Arith) (now : Int) (s : State) (ty : NumTy) (k : Key) (by_ : Int)
    (cond : Option (RelOp × Int)) (ine ie : Option IncMeta) (h : Model.isFltOrd ty cond = false) :
    Model.incStep cfg (Model.negCmp ar) now s ty k by_ cond ine ie = Model.incStep cfg ar now s ty k by_ cond ine ie := by
  unfold Model.incStep Model.incCore
  simp only [condHolds_negCmp _ _ _ _ h, Model.incApply, numAdd_negCmp]

/-- good facts, or no tag: the comparisons are the stated ones -/
theorem incStep_cmpArith (cfg : Cfg) (ar : Arith) (now : Int) (s : State) (ty : NumTy) (k : Key) (by_ : Int)
    (cond : Option (RelOp × Int)) (ine ie : Option IncMeta)
    (hq : Q cfg (if !cfg.fltCondDirect && Model.isFltOrd ty cond then [Tag.nanCond] else [])) :
    Model.incStep cfg (Model.cmpArith cfg ar) now s ty k by_ cond ine ie = Model.incStep cfg ar now s ty k by_ cond ine ie := by
  cases hd : cfg.fltCondDirect with
  | true => simp only [Model.cmpArith, hd, if_true]
  | false =>
    simp only [Model.cmpArith, hd, Bool.false_eq_true, if_false]
    cases ho : Model.isFltOrd ty cond with
    | false => exact incStep_negCmp cfg ar now s ty k by_ cond ine ie ho
    | true =>
      simp only [hd, ho, Bool.not_false, Bool.and_self, if_true] at hq
      exact Q.absurd_tag hq (fun hg => by have := Cfg.good_fltCond hg; rw [this] at hd; cases hd)

theorem sim_inc (cfg : Cfg) (ar : Arith) (now : Int) (s : State) (ty : NumTy) (k : Key) (by_ : Int)
    (cond : Option (RelOp × Int)) (ine ie : Option IncMeta) (hinv : Inv cfg s)
    (hq : Q cfg (Model.stepCore cfg ar now s (.inc ty k by_ cond ine ie)).tags) :
    Sim cfg ar now s (.inc ty k by_ cond ine ie) := by
  obtain ⟨hi, habs, hex⟩ := touch cfg s hinv
  unfold Sim
  simp only [Model.stepCore] at hq ⊢
  have harith := incStep_cmpArith cfg ar now s ty k by_ cond ine ie hq.right
  rw [harith] at hq ⊢
  replace hq := hq.left
  simp only [Spec.step, Model.incStep, Spec.incStep] at hq ⊢
  cases hz : numIsZero ty by_ with
  | true => simp only [if_true]; triv3 hinv
  | false =>
    simp only [hz, Bool.false_eq_true, if_false] at hq ⊢
    obtain ⟨a1, a2⟩ := incCore_sim cfg ar now (Model.summon s) ty k by_ cond ine ie hi hq.left
    obtain ⟨b1, b2⟩ := settleAfterTouch_sim cfg s _ hinv a1 hq.right
    rw [habs] at a2
    refine ⟨?_, ?_, b1⟩
    · rw [← a2]
    · rw [b2, ← a2]

theorem sim_push (cfg : Cfg) (ar : Arith) (now : Int) (s : State) (pairs : List (Key × List Nat)) (hinv : Inv cfg s)
    (hq : Q cfg (Model.stepCore cfg ar now s (.push pairs)).tags) : Sim cfg ar now s (.push pairs) := by
  obtain ⟨hi, habs, hex⟩ := touch cfg s hinv
  unfold Sim
  simp only [Model.stepCore, Spec.step] at hq ⊢
  obtain ⟨a1, a2⟩ := pushLoop_sim cfg pairs (Model.summon s) hi hq.left
  obtain ⟨b1, b2⟩ := settleAfterTouch_sim cfg s _ hinv a1 hq.right
  rw [habs] at a2
  refine ⟨?_, ?_, b1⟩
  · rw [← a2]
  · rw [b2, ← a2]

theorem sim_u32del (cfg : Cfg) (ar : Arith) (now : Int) (s : State) (pairs : List (Key × List Nat)) (hinv : Inv cfg s)
    (hq : Q cfg (Model.stepCore cfg ar now s (.u32del pairs)).tags) : Sim cfg ar now s (.u32del pairs) := by
  obtain ⟨hi, habs, hex⟩ := touch cfg s hinv
  unfold Sim
  simp only [Model.stepCore, Spec.step] at hq ⊢
  have hl := u32delLoop_sim cfg s.kind pairs (Model.summon s) hi
  cases hh : (Model.u32delLoop cfg s.kind (Model.summon s) pairs).2.2.1 with
  | true =>
    simp only [hh, if_true] at hq
    have := (hl hq).1
    rw [hh] at this; cases this
  | false =>
    simp only [hh, Bool.false_eq_true, if_false] at hq ⊢
    cases hr : (Model.u32delLoop cfg s.kind (Model.summon s) pairs).1 with
    | none =>
      simp only [hr] at hq ⊢
      obtain ⟨_, _, a2⟩ := hl hq
      rw [hr, habs] at a2
      simp only [absO] at a2
      refine ⟨?_, ?_, ⟨hinv.alive, rfl, fun j hj => by cases hj⟩⟩
      · rw [← a2]
      · rw [← a2]; simp [Model.destroy, Model.abs, AL.mapV]
    | some i' =>
      simp only [hr] at hq ⊢
      obtain ⟨_, a1, a2⟩ := hl hq.left
      rw [hr, habs] at a2
      simp only [absO] at a2
      obtain ⟨b1, b2⟩ := settleAfterTouch_sim cfg s i' hinv (a1 i' hr) hq.right
      refine ⟨?_, ?_, b1⟩
      · rw [← a2]
      · rw [b2, ← a2]

theorem sim_slice_reads (cfg : Cfg) (ar : Arith) (now : Int) (s : State) (hinv : Inv cfg s) :
    (∀ k, Q cfg (Model.stepCore cfg ar now s (.size k)).tags → Sim cfg ar now s (.size k)) ∧
    (∀ k v, Q cfg (Model.stepCore cfg ar now s (.hasVal k v)).tags → Sim cfg ar now s (.hasVal k v)) := by
  obtain ⟨hi, habs, hex⟩ := touch cfg s hinv
  refine ⟨fun k hq => ?_, fun k v hq => ?_⟩
  · unfold Sim
    simp only [Model.stepCore, Spec.step] at hq ⊢
    rw [← habs, find_absI]
    cases hf : AL.find k (Model.summon s).recs with
    | none =>
      simp only [hf] at hq ⊢
      obtain ⟨b1, b2⟩ := settleAfterTouch_sim cfg s _ hinv hi hq
      exact ⟨by first | rfl | trivial, b2, b1⟩
    | some t =>
      have ht : RecOK cfg t := hi.recs (k, t) (AL.find_mem _ _ _ hf)
      obtain ⟨u, hu⟩ := (wf_iff t.c).mp ht.wf
      have hv : t.abs.val = u := by simp [MRec.abs, hu]
      simp only [hf, Option.map_some, hu, ofVal_slice_cases, vis_ofVal, hv] at hq ⊢
      cases hs : u.isSlice with
      | false =>
        simp only [hs, Bool.false_eq_true, if_false] at hq ⊢
        obtain ⟨b1, b2⟩ := settleAfterTouch_sim cfg s _ hinv hi hq
        exact ⟨by first | rfl | trivial, b2, b1⟩
      | true =>
        simp only [hs, if_true, List.append_nil] at hq ⊢
        obtain ⟨b1, b2⟩ := settleAfterTouch_sim cfg s _ hinv hi hq
        exact ⟨by first | rfl | trivial, b2, b1⟩
  · unfold Sim
    simp only [Model.stepCore, Spec.step] at hq ⊢
    rw [← habs, find_absI]
    cases hf : AL.find k (Model.summon s).recs with
    | none =>
      simp only [hf] at hq ⊢
      obtain ⟨b1, b2⟩ := settleAfterTouch_sim cfg s _ hinv hi hq
      exact ⟨by first | rfl | trivial, b2, b1⟩
    | some t =>
      have ht : RecOK cfg t := hi.recs (k, t) (AL.find_mem _ _ _ hf)
      obtain ⟨u, hu⟩ := (wf_iff t.c).mp ht.wf
      have hv : t.abs.val = u := by simp [MRec.abs, hu]
      simp only [hf, Option.map_some, hu, ofVal_slice_cases, vis_ofVal, hv] at hq ⊢
      cases hs : u.isSlice with
      | false =>
        simp only [hs, Bool.false_eq_true, if_false] at hq ⊢
        obtain ⟨b1, b2⟩ := settleAfterTouch_sim cfg s _ hinv hi hq
        exact ⟨by first | rfl | trivial, b2, b1⟩
      | true =>
        simp only [hs, if_true, List.append_nil] at hq ⊢
        obtain ⟨b1, b2⟩ := settleAfterTouch_sim cfg s _ hinv hi hq
        exact ⟨by first | rfl | trivial, b2, b1⟩

/-- **One step.** From a state satisfying the invariant, with good facts or without any quirk
    mechanism firing, the model's reply and resulting store are the Spec's, and the invariant is
    kept. -/
theorem step_sim (cfg : Cfg) (ar : Arith) (now : Int) (s : State) (req : Req) (hinv : Inv cfg s)
    (hq : Q cfg (Model.step cfg ar now s req).tags) :
    (Model.step cfg ar now s req).r = (Spec.step ar now (Model.abs s) req).2 ∧
    Model.abs (Model.step cfg ar now s req).s = (Spec.step ar now (Model.abs s) req).1 ∧
    Inv cfg (Model.step cfg ar now s req).s := by
  have hg := not_ghost cfg s hinv
  simp only [Model.step, hinv.alive, Bool.false_eq_true, if_false, hg, List.append_nil] at hq ⊢
  have key : Sim cfg ar now s req := by
    cases req with
    | set create over items => exact sim_set cfg ar now s create over items hinv hq
    | get keys => exact (sim_reads cfg ar now s hinv).1 keys
    | getAll => exact (sim_reads cfg ar now s hinv).2.1
    | getByKeys keys => exact (sim_reads cfg ar now s hinv).2.2.1 keys
    | shift keys => exact sim_shift cfg ar now s keys hinv
    | del keys => exact sim_del cfg ar now s keys hinv
    | count => exact sim_count cfg ar now s hinv hq
    | isKey k => exact (sim_reads cfg ar now s hinv).2.2.2.1 k
    | areKeys keys => exact sim_areKeys cfg ar now s keys hinv hq
    | isSwamp => exact (sim_reads cfg ar now s hinv).2.2.2.2
    | inc ty k by_ cond ine ie => exact sim_inc cfg ar now s ty k by_ cond ine ie hinv hq
    | push pairs => exact sim_push cfg ar now s pairs hinv hq
    | u32del pairs => exact sim_u32del cfg ar now s pairs hinv hq
    | size k => exact (sim_slice_reads cfg ar now s hinv).1 k hq
    | hasVal k v => exact (sim_slice_reads cfg ar now s hinv).2 k v hq
  exact key

end Hv.Data
