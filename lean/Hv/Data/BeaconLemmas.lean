/-
  Lemmas about the beacon model (`Hv/Data/Beacon.lean`): the binary-search loop, the window
  as an index interval, page arithmetic, insertion sort, and the per-pair sortedness invariant.
  The property theorems are in `Hv/Props/C07.lean`.
-/
import Hv.Data.Beacon

set_option linter.unusedSimpArgs false

namespace Hv.Beacon

/-! ### A. the binary-search loop -/

/-- `k` is the partition point of `P` on `tl`: `P` holds exactly on the indices below `k`. -/
def Part (P : Int → Bool) (tl : List Int) (k : Nat) : Prop :=
  k ≤ tl.length ∧ (∀ i, i < k → P (tl.getD i 0) = true) ∧ (∀ i, k ≤ i → i < tl.length → P (tl.getD i 0) = false)

/-- The loop returns the partition point whenever one exists between `l` and `r`
    (any amount of fuel ≥ r - l; the code's loop runs until l ≥ r). -/
theorem bsLoop_spec (P : Int → Bool) (tl : List Int) (k : Nat) (hk : Part P tl k) :
    ∀ (fuel l r : Nat), l ≤ k → k ≤ r → r ≤ tl.length → r - l ≤ fuel → bsLoop P tl fuel l r = k := by
  intro fuel
  induction fuel with
  | zero =>
    intro l r hl hr _ hf
    simp only [bsLoop]; omega
  | succ fuel ih =>
    intro l r hl hr hn hf
    simp only [bsLoop]
    by_cases hlr : l < r
    · simp only [hlr, if_true]
      have hm1 : l + (r - l) / 2 < r := by omega
      have hm0 : l ≤ l + (r - l) / 2 := by omega
      cases hP : P (tl.getD (l + (r - l) / 2) 0)
      · -- ¬P at m: the partition point is at or below m
        simp only [Bool.false_eq_true, if_false]
        have : k ≤ l + (r - l) / 2 := by
          apply Nat.le_of_not_lt
          intro hlt
          have := hk.2.1 _ hlt
          rw [hP] at this; cases this
        exact ih l _ hl this (by omega) (by omega)
      · simp only [if_true]
        have : l + (r - l) / 2 < k := by
          apply Nat.lt_of_not_le
          intro hle
          have := hk.2.2 _ hle (by omega)
          rw [hP] at this; cases this
        exact ih _ r (by omega) hr hn (by omega)
    · simp only [hlr, if_false]; omega

theorem bsearch_spec (P : Int → Bool) (tl : List Int) (k : Nat) (hk : Part P tl k) : bsearch P tl = k :=
  bsLoop_spec P tl k hk tl.length 0 tl.length (Nat.zero_le _) hk.1 (Nat.le_refl _) (by omega)

/-- A list along which `P` can only switch from true to false has a partition point. -/
theorem part_exists (P : Int → Bool) (tl : List Int)
    (h : tl.Pairwise (fun a b => P b = true → P a = true)) : ∃ k, Part P tl k := by
  induction tl with
  | nil => exact ⟨0, Nat.le_refl _, fun i hi => by omega, fun i _ hi => by simp at hi⟩
  | cons x xs ih =>
    rw [List.pairwise_cons] at h
    obtain ⟨k, hk⟩ := ih h.2
    cases hx : P x
    · -- nothing after x satisfies P either
      refine ⟨0, Nat.zero_le _, fun i hi => by omega, ?_⟩
      intro i _ hi
      cases i with
      | zero => simpa using hx
      | succ j =>
        simp only [List.getD_cons_succ]
        have hj : j < xs.length := by simpa using hi
        cases hPj : P (xs.getD j 0)
        · rfl
        · have hmem : xs.getD j 0 ∈ xs := by
            rw [List.getD_eq_getElem?_getD, List.getElem?_eq_getElem hj]; simp
          have := h.1 _ hmem hPj
          rw [hx] at this; cases this
    · refine ⟨k + 1, by simpa using hk.1, ?_, ?_⟩
      · intro i hi
        cases i with
        | zero => simpa using hx
        | succ j => simp only [List.getD_cons_succ]; exact hk.2.1 j (by omega)
      · intro i hki hi
        cases i with
        | zero => omega
        | succ j =>
          simp only [List.getD_cons_succ]
          exact hk.2.2 j (by omega) (by simpa using hi)


/-! ### B. the window is an index interval -/

/-- the half-open window `[fromT, toT)` on a timestamp -/
def loOk (fromT : Option Int) (x : Int) : Bool :=
  match fromT with | some f => decide (f ≤ x) | none => true
def hiOk (toT : Option Int) (x : Int) : Bool :=
  match toT with | some t => decide (x < t) | none => true
def win (fromT toT : Option Int) (x : Int) : Bool := loOk fromT x && hiOk toT x

/-- the four comparison operators are the ones the half-open window needs -/
def BsGood (cfg : Cfg) : Prop :=
  cfg.bsAscFrom = .lt ∧ cfg.bsAscTo = .lt ∧ cfg.bsDescTo = .lt ∧ cfg.bsDescFrom = .lt

theorem getD_mem_of_lt {α : Type} (l : List α) (d : α) (i : Nat) (h : i < l.length) : l.getD i d ∈ l := by
  rw [List.getD_eq_getElem?_getD, List.getElem?_eq_getElem h]; simp

/-- arithmetic of the normalisation tail -/
theorem normBounds_spec (n a b : Nat) (ha : a ≤ n) (hb : b ≤ n) (i : Nat) (hi : i < n) :
    (((normBounds n a ((b : Int) - 1)).1 ≤ (i : Int) ∧ (i : Int) ≤ (normBounds n a ((b : Int) - 1)).2) ↔ (a ≤ i ∧ i < b)) := by
  unfold normBounds
  simp only []
  split <;> split <;> split <;> simp_all <;> omega

theorem normBounds_range (n a b : Nat) (ha : a ≤ n) (hb : b ≤ n) :
    0 ≤ (normBounds n a ((b : Int) - 1)).1 ∧ (normBounds n a ((b : Int) - 1)).2 < n ∧
    -1 ≤ (normBounds n a ((b : Int) - 1)).2 ∧ (normBounds n a ((b : Int) - 1)).1 ≤ (normBounds n a ((b : Int) - 1)).2 + 1 := by
  unfold normBounds
  simp only []
  split <;> split <;> split <;> simp_all <;> omega

/-- ascending list: both searches land on the partition points of `· < from` and `· < to` -/
theorem window_interval_asc (cfg : Cfg) (hg : BsGood cfg) (tl : List Int) (fromT toT : Option Int)
    (hs : tl.Pairwise (fun a b => a ≤ b)) :
    boundStart cfg true tl fromT toT ≤ tl.length ∧ boundStop cfg true tl fromT toT ≤ tl.length ∧
    ∀ i, i < tl.length → (win fromT toT (tl.getD i 0) = true ↔
      (boundStart cfg true tl fromT toT ≤ i ∧ i < boundStop cfg true tl fromT toT)) := by
  obtain ⟨h1, h2, _, _⟩ := hg
  have mono : ∀ c : Int, tl.Pairwise (fun a b => test .lt b c = true → test .lt a c = true) := by
    intro c
    refine hs.imp ?_
    intro a b hab
    simp only [test, decide_eq_true_eq]
    omega
  -- lower bound
  have hA : ∃ a, boundStart cfg true tl fromT toT = a ∧ a ≤ tl.length ∧
      ∀ i, i < tl.length → (loOk fromT (tl.getD i 0) = true ↔ a ≤ i) := by
    cases fromT with
    | none => exact ⟨0, by simp [boundStart], Nat.zero_le _, fun i _ => by simp [loOk, hiOk]⟩
    | some f =>
      obtain ⟨k, hk⟩ := part_exists (fun x => test .lt x f) tl (mono f)
      refine ⟨k, by simp [boundStart, h1, bsearch_spec _ _ _ hk], hk.1, ?_⟩
      intro i hi
      by_cases hik : i < k
      · have := hk.2.1 i hik
        simp only [test, decide_eq_true_eq] at this
        simp only [loOk, hiOk, decide_eq_true_eq]; omega
      · have := hk.2.2 i (by omega) hi
        simp only [test, decide_eq_false_iff_not] at this
        simp only [loOk, hiOk, decide_eq_true_eq]; omega
  have hB : ∃ b, boundStop cfg true tl fromT toT = b ∧ b ≤ tl.length ∧
      ∀ i, i < tl.length → (hiOk toT (tl.getD i 0) = true ↔ i < b) := by
    cases toT with
    | none => exact ⟨tl.length, by simp [boundStop], Nat.le_refl _, fun i hi => by simp [loOk, hiOk, hi]⟩
    | some t =>
      obtain ⟨k, hk⟩ := part_exists (fun x => test .lt x t) tl (mono t)
      refine ⟨k, by simp [boundStop, h2, bsearch_spec _ _ _ hk], hk.1, ?_⟩
      intro i hi
      by_cases hik : i < k
      · have := hk.2.1 i hik
        simp only [test, decide_eq_true_eq] at this
        simp only [loOk, hiOk, decide_eq_true_eq]; omega
      · have := hk.2.2 i (by omega) hi
        simp only [test, decide_eq_false_iff_not] at this
        simp only [loOk, hiOk, decide_eq_true_eq]; omega
  obtain ⟨a, ea, ha, hwa⟩ := hA
  obtain ⟨b, eb, hb, hwb⟩ := hB
  rw [ea, eb]
  refine ⟨ha, hb, ?_⟩
  intro i hi
  simp only [win, Bool.and_eq_true]
  rw [hwa i hi, hwb i hi]

/-- descending list: start = first index with `ts < to`, stop = first index with `ts < from` -/
theorem window_interval_desc (cfg : Cfg) (hg : BsGood cfg) (tl : List Int) (fromT toT : Option Int)
    (hs : tl.Pairwise (fun a b => b ≤ a)) :
    boundStart cfg false tl fromT toT ≤ tl.length ∧ boundStop cfg false tl fromT toT ≤ tl.length ∧
    ∀ i, i < tl.length → (win fromT toT (tl.getD i 0) = true ↔
      (boundStart cfg false tl fromT toT ≤ i ∧ i < boundStop cfg false tl fromT toT)) := by
  obtain ⟨_, _, h3, h4⟩ := hg
  have mono : ∀ c : Int, tl.Pairwise (fun a b => (!test .lt b c) = true → (!test .lt a c) = true) := by
    intro c
    refine hs.imp ?_
    intro a b hab
    simp only [test, Bool.not_eq_true', decide_eq_false_iff_not]
    omega
  have hA : ∃ a, boundStart cfg false tl fromT toT = a ∧ a ≤ tl.length ∧
      ∀ i, i < tl.length → (hiOk toT (tl.getD i 0) = true ↔ a ≤ i) := by
    cases toT with
    | none => exact ⟨0, by simp [boundStart], Nat.zero_le _, fun i _ => by simp [loOk, hiOk]⟩
    | some t =>
      obtain ⟨k, hk⟩ := part_exists (fun x => !test .lt x t) tl (mono t)
      refine ⟨k, by simp [boundStart, h3, bsearch_spec _ _ _ hk], hk.1, ?_⟩
      intro i hi
      by_cases hik : i < k
      · have := hk.2.1 i hik
        simp only [test, Bool.not_eq_true', decide_eq_false_iff_not] at this
        simp only [loOk, hiOk, decide_eq_true_eq]; omega
      · have := hk.2.2 i (by omega) hi
        simp only [test, Bool.not_eq_false', decide_eq_true_eq] at this
        simp only [loOk, hiOk, decide_eq_true_eq]; omega
  have hB : ∃ b, boundStop cfg false tl fromT toT = b ∧ b ≤ tl.length ∧
      ∀ i, i < tl.length → (loOk fromT (tl.getD i 0) = true ↔ i < b) := by
    cases fromT with
    | none => exact ⟨tl.length, by simp [boundStop], Nat.le_refl _, fun i hi => by simp [loOk, hiOk, hi]⟩
    | some f =>
      obtain ⟨k, hk⟩ := part_exists (fun x => !test .lt x f) tl (mono f)
      refine ⟨k, by simp [boundStop, h4, bsearch_spec _ _ _ hk], hk.1, ?_⟩
      intro i hi
      by_cases hik : i < k
      · have := hk.2.1 i hik
        simp only [test, Bool.not_eq_true', decide_eq_false_iff_not] at this
        simp only [loOk, hiOk, decide_eq_true_eq]; omega
      · have := hk.2.2 i (by omega) hi
        simp only [test, Bool.not_eq_false', decide_eq_true_eq] at this
        simp only [loOk, hiOk, decide_eq_true_eq]; omega
  obtain ⟨a, ea, ha, hwa⟩ := hA
  obtain ⟨b, eb, hb, hwb⟩ := hB
  rw [ea, eb]
  refine ⟨ha, hb, ?_⟩
  intro i hi
  simp only [win, Bool.and_eq_true]
  rw [hwa i hi, hwb i hi]
  exact And.comm


/-! ### C. slices -/

/-- a predicate that holds exactly on the index interval `[a, b)` filters out that slice -/
theorem filter_eq_slice {α : Type} (f : α → Int) (q : Int → Bool) :
    ∀ (l : List α) (a b : Nat),
      (∀ i, i < l.length → (q ((l.map f).getD i 0) = true ↔ (a ≤ i ∧ i < b))) →
      l.filter (fun r => q (f r)) = (l.drop a).take (b - a) := by
  intro l
  induction l with
  | nil => intro a b _; simp
  | cons x xs ih =>
    intro a b h
    have h0 := h 0 (by simp)
    have hs : ∀ i, i < xs.length → (q ((xs.map f).getD i 0) = true ↔ (a ≤ i + 1 ∧ i + 1 < b)) := by
      intro i hi
      have := h (i + 1) (by simpa using hi)
      simpa [List.getD_cons_succ] using this
    simp only [List.map_cons, List.getD_cons_zero] at h0
    cases a with
    | zero =>
      cases b with
      | zero =>
        have hx : q (f x) = false := by
          cases hq : q (f x)
          · rfl
          · have := h0.mp hq; omega
        have := ih 0 0 (fun i hi => by rw [hs i hi]; omega)
        simp only [List.filter_cons, hx, Bool.false_eq_true, if_false, this]
        simp
      | succ b' =>
        have hx : q (f x) = true := h0.mpr (by omega)
        have := ih 0 b' (fun i hi => by rw [hs i hi]; omega)
        simp only [List.filter_cons, hx, if_true, this]
        simp
    | succ a' =>
      have hx : q (f x) = false := by
        cases hq : q (f x)
        · rfl
        · have := h0.mp hq; omega
      have := ih a' (b - 1) (fun i hi => by rw [hs i hi]; omega)
      simp only [List.filter_cons, hx, Bool.false_eq_true, if_false, this, List.drop_succ_cons]
      congr 1
      omega

/-- `findTimeRangeBounds` cuts exactly the window out of a sorted slice -/
theorem findBounds_slice (cfg : Cfg) (hg : BsGood cfg) (asc : Bool) (l : List Rec) (tsf : Rec → Int)
    (fromT toT : Option Int)
    (hs : if asc then l.Pairwise (fun a b => tsf a ≤ tsf b) else l.Pairwise (fun a b => tsf b ≤ tsf a)) :
    let se := findBounds cfg asc (l.map tsf) fromT toT
    0 ≤ se.1 ∧ se.2 < l.length ∧ -1 ≤ se.2 ∧ se.1 ≤ se.2 + 1 ∧
    (l.drop se.1.toNat).take (se.2 + 1 - se.1).toNat = l.filter (fun r => win fromT toT (tsf r)) := by
  intro se
  by_cases hn : l.length = 0
  · have : l = [] := List.eq_nil_of_length_eq_zero hn
    subst this
    simp [se, findBounds]
  · have hiv : boundStart cfg asc (l.map tsf) fromT toT ≤ (l.map tsf).length ∧
        boundStop cfg asc (l.map tsf) fromT toT ≤ (l.map tsf).length ∧
        ∀ i, i < (l.map tsf).length → (win fromT toT ((l.map tsf).getD i 0) = true ↔
          (boundStart cfg asc (l.map tsf) fromT toT ≤ i ∧ i < boundStop cfg asc (l.map tsf) fromT toT)) := by
      cases asc with
      | true =>
        apply window_interval_asc cfg hg
        simp only [if_true] at hs
        exact List.pairwise_map.mpr hs
      | false =>
        apply window_interval_desc cfg hg
        simp only [Bool.false_eq_true, if_false] at hs
        exact List.pairwise_map.mpr hs
    obtain ⟨ha, hb, hw⟩ := hiv
    have hse : se = normBounds (l.map tsf).length (boundStart cfg asc (l.map tsf) fromT toT)
        ((boundStop cfg asc (l.map tsf) fromT toT : Nat) - 1) := by
      simp only [se, findBounds, List.length_map, hn, if_false]
    have hr := normBounds_range _ _ _ ha hb
    rw [← hse] at hr
    simp only [List.length_map] at hr
    refine ⟨hr.1, hr.2.1, hr.2.2.1, hr.2.2.2, ?_⟩
    have key := filter_eq_slice tsf (win fromT toT) l se.1.toNat (se.2 + 1).toNat (by
      intro i hi
      have hi' : i < (l.map tsf).length := by simpa using hi
      rw [hw i hi', ← normBounds_spec _ _ _ ha hb i hi', ← hse]
      omega)
    rw [key]
    congr 1
    omega


/-! ### D. page arithmetic -/

/-- offset / limit as the Spec states them -/
def pageOf (w : List Rec) (from_ limit : Nat) : List Rec :=
  if limit = 0 then w.drop from_ else (w.drop from_).take limit

theorem pageWithin_eq (l : List Rec) (s e : Int) (from_ limit : Nat)
    (h0 : 0 ≤ s) (_h1 : e < l.length) (h2 : s ≤ e + 1) :
    pageWithin l s e from_ limit = pageOf ((l.drop s.toNat).take (e + 1 - s).toNat) from_ limit := by
  have hdrop : ((l.drop s.toNat).take (e + 1 - s).toNat).drop from_ =
      (l.drop (s.toNat + from_)).take ((e + 1 - s).toNat - from_) := by
    rw [List.drop_take, List.drop_drop]
  unfold pageWithin pageOf
  simp only []
  by_cases hgt : s + (from_ : Int) > e
  · -- offset beyond the interval: both sides empty
    have hlen : ((l.drop s.toNat).take (e + 1 - s).toNat).length ≤ from_ := by
      have := List.length_take_le (e + 1 - s).toNat (l.drop s.toNat)
      omega
    have : ((l.drop s.toNat).take (e + 1 - s).toNat).drop from_ = [] := List.drop_eq_nil_of_le hlen
    simp only [hgt, if_true, this]
    split <;> simp
  · simp only [hgt, if_false]
    rw [hdrop]
    have hst : (s + (from_ : Int)).toNat = s.toNat + from_ := by omega
    by_cases hl : limit = 0
    · simp only [hl, if_true]
      have : ¬ (e - (s + (from_ : Int)) + 1 ≤ 0) := by omega
      simp only [this, if_false, hst]
      congr 1
      omega
    · simp only [hl, if_false]
      rw [List.take_take]
      by_cases hov : s + (from_ : Int) + (limit : Int) - 1 > e
      · simp only [hov, if_true]
        have : ¬ (e - (s + (from_ : Int)) + 1 ≤ 0) := by omega
        simp only [this, if_false, hst]
        congr 1
        omega
      · simp only [hov, if_false]
        have : ¬ (s + (from_ : Int) + (limit : Int) - 1 - (s + (from_ : Int)) + 1 ≤ 0) := by omega
        simp only [this, if_false, hst]
        congr 1
        omega

/-- `GetManyFromOrderPosition` on a sorted slice = window, then offset, then limit -/
theorem getMany_eq (cfg : Cfg) (hg : BsGood cfg) (asc : Bool) (l : List Rec) (tsf : Rec → Int)
    (from_ limit : Nat) (fromT toT : Option Int)
    (hs : if asc then l.Pairwise (fun a b => tsf a ≤ tsf b) else l.Pairwise (fun a b => tsf b ≤ tsf a)) :
    getMany cfg l tsf asc from_ limit fromT toT =
      pageOf (if fromT.isSome || toT.isSome then l.filter (fun r => win fromT toT (tsf r)) else l) from_ limit := by
  unfold getMany
  simp only []
  by_cases hw : (fromT.isSome || toT.isSome) = true
  · simp only [hw, if_true, Bool.true_and]
    obtain ⟨h0, h1, h2, h3, hsl⟩ := findBounds_slice cfg hg asc l tsf fromT toT hs
    rw [← hsl]
    by_cases hempty : ((findBounds cfg asc (l.map tsf) fromT toT).2 < (findBounds cfg asc (l.map tsf) fromT toT).1 ||
        (findBounds cfg asc (l.map tsf) fromT toT).1 < 0) = true
    · simp only [hempty, if_true]
      have : ((findBounds cfg asc (l.map tsf) fromT toT).2 + 1 - (findBounds cfg asc (l.map tsf) fromT toT).1).toNat = 0 := by
        simp only [Bool.or_eq_true, decide_eq_true_eq] at hempty
        omega
      rw [this]
      unfold pageOf
      split <;> simp
    · simp only [hempty]
      exact pageWithin_eq l _ _ from_ limit h0 h1 h3
  · have hw' : (fromT.isSome || toT.isSome) = false := by simpa using hw
    simp only [hw', Bool.false_and, Bool.false_eq_true, if_false]
    have := pageWithin_eq l 0 ((l.length : Int) - 1) from_ limit (by omega) (by omega) (by omega)
    rw [this]
    congr 1
    have : ((l.length : Int) - 1 + 1 - 0).toNat = l.length := by omega
    rw [this]
    simp


/-! ### E. insertion sort -/

theorem insertBy_perm {α : Type} (lt : α → α → Bool) (x : α) (l : List α) : (insertBy lt x l).Perm (x :: l) := by
  induction l with
  | nil => exact List.Perm.refl _
  | cons y ys ih =>
    simp only [insertBy]
    split
    · exact List.Perm.refl _
    · exact (List.Perm.cons y ih).trans (List.Perm.swap x y ys)

theorem isort_perm {α : Type} (lt : α → α → Bool) (l : List α) : (isort lt l).Perm l := by
  induction l with
  | nil => exact List.Perm.refl _
  | cons x xs ih => exact (insertBy_perm lt x _).trans (List.Perm.cons x ih)

/-- Under a strict weak order (asymmetric, with transitive "not greater") insertion sort sorts:
    nothing later is strictly smaller than anything earlier. -/
theorem insertBy_sorted {α : Type} (lt : α → α → Bool)
    (asym : ∀ a b, lt a b = true → lt b a = false)
    (trans : ∀ a b c, lt b a = false → lt c b = false → lt c a = false)
    (x : α) (l : List α) (h : l.Pairwise (fun a b => lt b a = false)) :
    (insertBy lt x l).Pairwise (fun a b => lt b a = false) := by
  induction l with
  | nil => simp [insertBy]
  | cons y ys ih =>
    rw [List.pairwise_cons] at h
    simp only [insertBy]
    cases hxy : lt x y
    · simp only [Bool.false_eq_true, if_false]
      rw [List.pairwise_cons]
      refine ⟨?_, ih h.2⟩
      intro z hz
      have := (insertBy_perm lt x ys).mem_iff.mp hz
      rcases List.mem_cons.mp this with rfl | hz'
      · exact hxy
      · exact h.1 z hz'
    · simp only [if_true]
      rw [List.pairwise_cons]
      refine ⟨?_, List.pairwise_cons.mpr h⟩
      intro z hz
      rcases List.mem_cons.mp hz with rfl | hz'
      · exact asym _ _ hxy
      · exact trans x y z (asym _ _ hxy) (h.1 z hz')

theorem isort_sorted {α : Type} (lt : α → α → Bool)
    (asym : ∀ a b, lt a b = true → lt b a = false)
    (trans : ∀ a b c, lt b a = false → lt c b = false → lt c a = false)
    (l : List α) : (isort lt l).Pairwise (fun a b => lt b a = false) := by
  induction l with
  | nil => simp [isort]
  | cons x xs ih => exact insertBy_sorted lt asym trans x _ ih

theorem insertBy_congr {α : Type} (lt lt' : α → α → Bool) (x : α) (l : List α)
    (h : ∀ b ∈ l, lt x b = lt' x b) : insertBy lt x l = insertBy lt' x l := by
  induction l with
  | nil => rfl
  | cons y ys ih =>
    simp only [insertBy]
    rw [h y (by simp), ih (fun b hb => h b (by simp [hb]))]

/-- two comparators that agree on the members of the list sort it identically -/
theorem isort_congr {α : Type} (lt lt' : α → α → Bool) (l : List α)
    (h : ∀ a ∈ l, ∀ b ∈ l, lt a b = lt' a b) : isort lt l = isort lt' l := by
  induction l with
  | nil => rfl
  | cons x xs ih =>
    simp only [isort]
    rw [ih (fun a ha b hb => h a (by simp [ha]) b (by simp [hb]))]
    apply insertBy_congr
    intro b hb
    have : b ∈ xs := (isort_perm lt' xs).mem_iff.mp hb
    exact h x (by simp) b (by simp [this])


/-! ### F. the order of a beacon -/

/-- what the ASC (`asc = true`) / DESC beacon of slot `s` promises about two records `a` before `b` -/
def ordB (s : Slot) (asc : Bool) (a b : Rec) : Prop := lessPure s asc b a = false

theorem lessPure_asym (s : Slot) (asc : Bool) (a b : Rec) : lessPure s asc a b = true → lessPure s asc b a = false := by
  cases s <;> cases asc <;> simp only [lessPure, Bool.false_eq_true, if_false, if_true, decide_eq_true_eq, decide_eq_false_iff_not] <;>
    first
    | exact String.lt_asymm
    | omega

theorem lessPure_trans (s : Slot) (asc : Bool) (a b c : Rec) :
    lessPure s asc b a = false → lessPure s asc c b = false → lessPure s asc c a = false := by
  cases s <;> cases asc <;> simp only [lessPure, Bool.false_eq_true, if_false, if_true, decide_eq_false_iff_not] <;>
    first
    | (intro h1 h2; exact String.not_lt.mpr (String.le_trans (String.not_lt.mp h2) (String.not_lt.mp h1)))
    | (intro h1 h2; exact String.not_lt.mpr (String.le_trans (String.not_lt.mp h1) (String.not_lt.mp h2)))
    | omega

theorem ordB_iff_sle (s : Slot) (asc : Bool) (a b : Rec) :
    ordB s asc a b ↔ (if asc then sle s a b else sle s b a) := by
  cases s <;> cases asc <;>
    simp only [ordB, lessPure, sle, Bool.false_eq_true, if_false, if_true, decide_eq_false_iff_not] <;>
    first
    | exact String.not_lt
    | omega

/-- the typed comparator is the pure one on records that carry the attribute -/
theorem less_eq_lessPure (s : Slot) (asc : Bool) (a b : Rec) (ha : carries s a = true) (hb : carries s b = true) :
    less s asc a b = lessPure s asc a b := by
  cases s <;> simp only [less, lessPure]
  simp only [carries] at ha hb
  simp [ha, hb]

/-- same sort attribute (and same carrier status) -/
def attrEq (s : Slot) (a b : Rec) : Prop :=
  match s with
  | .key => a.key = b.key
  | .created => a.created = b.created
  | .updated => a.updated = b.updated
  | .expire => a.expire = b.expire
  | .value _ => a.val = b.val ∧ a.ct = b.ct

theorem attrEq_refl (s : Slot) (a : Rec) : attrEq s a a := by cases s <;> simp [attrEq]

theorem attrEq_carries (s : Slot) (a b : Rec) (h : attrEq s a b) : carries s a = carries s b := by
  cases s <;> simp only [attrEq] at h <;> simp only [carries] <;> first | rfl | rw [h] | rw [h.2]

theorem ordB_congr (s : Slot) (asc : Bool) (a a' b b' : Rec) (ha : attrEq s a a') (hb : attrEq s b b') :
    ordB s asc a b → ordB s asc a' b' := by
  cases s <;> simp only [attrEq] at ha hb <;> simp only [ordB, lessPure] <;>
    first
    | (rw [ha, hb]; exact id)
    | (rw [ha.1, hb.1]; exact id)

/-! ### G. list plumbing -/

def KeysNodup (l : List Rec) : Prop := (l.map (·.key)).Nodup

theorem keysNodup_inj {l : List Rec} (h : KeysNodup l) {a b : Rec} (ha : a ∈ l) (hb : b ∈ l) (hk : a.key = b.key) : a = b := by
  induction l with
  | nil => cases ha
  | cons x xs ih =>
    simp only [KeysNodup, List.map_cons, List.nodup_cons, List.mem_map, not_exists, not_and] at h
    rcases List.mem_cons.mp ha with rfl | ha'
    · rcases List.mem_cons.mp hb with rfl | hb'
      · rfl
      · exact absurd hk.symm (h.1 b hb')
    · rcases List.mem_cons.mp hb with rfl | hb'
      · exact absurd hk (h.1 a ha')
      · exact ih h.2 ha' hb'

theorem eraseKey_eq_filter (k : String) (l : List Rec) (h : KeysNodup l) :
    eraseKey k l = l.filter (fun r => r.key != k) := by
  induction l with
  | nil => rfl
  | cons x xs ih =>
    simp only [KeysNodup, List.map_cons, List.nodup_cons, List.mem_map, not_exists, not_and] at h
    simp only [eraseKey, List.filter_cons]
    by_cases hx : x.key = k
    · simp only [hx, beq_self_eq_true, if_true, bne_self_eq_false, Bool.false_eq_true, if_false]
      symm
      rw [List.filter_eq_self]
      intro a ha
      simp only [bne_iff_ne, ne_eq]
      intro hak
      exact h.1 a ha (hak.trans hx.symm)
    · have : (x.key == k) = false := by simpa using hx
      simp only [this, Bool.false_eq_true, if_false, bne, Bool.not_false, if_true]
      rw [ih h.2]
      simp [bne]

theorem mem_eraseKey (k : String) (l : List Rec) (h : KeysNodup l) (r : Rec) :
    r ∈ eraseKey k l ↔ (r ∈ l ∧ r.key ≠ k) := by
  rw [eraseKey_eq_filter k l h]; simp

theorem keysNodup_eraseKey (k : String) (l : List Rec) (h : KeysNodup l) : KeysNodup (eraseKey k l) := by
  rw [eraseKey_eq_filter k l h]
  exact List.Nodup.sublist (List.Sublist.map _ List.filter_sublist) h

theorem findKey_some {k : String} {l : List Rec} {o : Rec} (h : findKey k l = some o) : o ∈ l ∧ o.key = k := by
  induction l with
  | nil => cases h
  | cons x xs ih =>
    simp only [findKey] at h
    by_cases hx : (x.key == k) = true
    · simp only [hx, if_true, Option.some.injEq] at h
      subst h
      exact ⟨by simp, by simpa using hx⟩
    · simp only [hx, if_false] at h
      have := ih h
      exact ⟨by simp [this.1], this.2⟩

theorem findKey_none {k : String} {l : List Rec} (h : findKey k l = none) : ∀ r ∈ l, r.key ≠ k := by
  induction l with
  | nil => intro r hr; cases hr
  | cons x xs ih =>
    simp only [findKey] at h
    by_cases hx : (x.key == k) = true
    · simp [hx] at h
    · simp only [hx, if_false] at h
      intro r hr
      rcases List.mem_cons.mp hr with rfl | hr'
      · simpa using hx
      · exact ih h r hr'

theorem addTo_fresh (l : List Rec) (r : Rec) (h : ∀ x ∈ l, x.key ≠ r.key) : addTo l r = l ++ [r] := by
  unfold addTo
  have : l.any (fun x => x.key == r.key) = false := by
    rw [List.any_eq_false]
    intro x hx
    simpa using h x hx
  simp [this]

theorem alias_keys (n : Rec) (l : List Rec) : (alias n l).map (·.key) = l.map (·.key) := by
  unfold alias
  rw [List.map_map]
  apply List.map_congr_left
  intro a _
  simp only [Function.comp]
  by_cases h : (a.key == n.key) = true
  · simp only [h, if_true]; exact (by simpa using h : a.key = n.key).symm
  · simp [h]

theorem mem_alias (n : Rec) (l : List Rec) (r : Rec) :
    r ∈ alias n l ↔ ((r ∈ l ∧ r.key ≠ n.key) ∨ (r = n ∧ ∃ x ∈ l, x.key = n.key)) := by
  unfold alias
  simp only [List.mem_map]
  constructor
  · rintro ⟨a, ha, rfl⟩
    by_cases h : (a.key == n.key) = true
    · rw [if_pos h]
      exact Or.inr ⟨rfl, a, ha, by simpa using h⟩
    · rw [if_neg h]
      exact Or.inl ⟨ha, by simpa using h⟩
  · rintro (⟨hr, hk⟩ | ⟨rfl, x, hx, hxk⟩)
    · exact ⟨r, hr, by simp [hk]⟩
    · exact ⟨x, hx, by simp [hxk]⟩


/-! ### H. one ordered list of a beacon -/

/-- the ordered slice `l` of the ASC/DESC beacon of slot `s` is what it should be for `store` -/
structure ListOk (s : Slot) (asc : Bool) (store l : List Rec) : Prop where
  nodup : KeysNodup l
  mem : ∀ r, r ∈ l ↔ (r ∈ store ∧ carries s r = true)
  sorted : l.Pairwise (ordB s asc)

theorem sortErr_carriers (s : Slot) (l : List Rec) (hc : ∀ r ∈ l, carries s r = true) : sortErr s l = false := by
  cases s with
  | value t =>
    cases t <;> simp only [sortErr]
    rw [List.any_eq_false]
    intro r hr
    have := hc r hr
    simp only [carries, beq_iff_eq] at this
    simp [this]
  | _ => rfl

theorem sortBy_carriers (s : Slot) (asc : Bool) (l : List Rec) (hc : ∀ r ∈ l, carries s r = true) :
    (sortBy s asc l).Perm l ∧ (sortBy s asc l).Pairwise (ordB s asc) := by
  have he : sortBy s asc l = isort (lessPure s asc) l := by
    unfold sortBy
    rw [sortErr_carriers s l hc]
    simp only [Bool.false_eq_true, if_false]
    exact isort_congr _ _ l (fun a ha b hb => less_eq_lessPure s asc a b (hc a ha) (hc b hb))
  rw [he]
  exact ⟨isort_perm _ l, isort_sorted _ (lessPure_asym s asc) (lessPure_trans s asc) l⟩

theorem ListOk.insert_carrier {s : Slot} {asc : Bool} {store l : List Rec} (h : ListOk s asc store l)
    (r : Rec) (hfresh : ∀ x ∈ store, x.key ≠ r.key) (hc : carries s r = true) :
    ListOk s asc (store ++ [r]) (sortBy s asc (addTo l r)) := by
  have hl : addTo l r = l ++ [r] := addTo_fresh l r (fun x hx => hfresh x ((h.mem x).mp hx).1)
  have hcar : ∀ x ∈ l ++ [r], carries s x = true := by
    intro x hx
    rcases List.mem_append.mp hx with hx | hx
    · exact ((h.mem x).mp hx).2
    · simp only [List.mem_singleton] at hx; rw [hx]; exact hc
  obtain ⟨hp, hsrt⟩ := sortBy_carriers s asc (l ++ [r]) hcar
  rw [hl]
  refine ⟨?_, ?_, hsrt⟩
  · have : ((l ++ [r]).map (·.key)).Nodup := by
      rw [List.map_append, List.nodup_append]
      refine ⟨h.nodup, by simp, ?_⟩
      intro a ha b hb
      simp only [List.map_cons, List.map_nil, List.mem_singleton] at hb
      obtain ⟨x, hx, rfl⟩ := List.mem_map.mp ha
      rw [hb]
      exact hfresh x ((h.mem x).mp hx).1
    exact (hp.map (·.key)).nodup_iff.mpr this
  · intro x
    rw [hp.mem_iff, List.mem_append, List.mem_append, h.mem x]
    simp only [List.mem_singleton]
    constructor
    · rintro (⟨hx, hcx⟩ | rfl)
      · exact ⟨Or.inl hx, hcx⟩
      · exact ⟨Or.inr rfl, hc⟩
    · rintro ⟨hx | rfl, hcx⟩
      · exact Or.inl ⟨hx, hcx⟩
      · exact Or.inr rfl

theorem ListOk.insert_skip {s : Slot} {asc : Bool} {store l : List Rec} (h : ListOk s asc store l)
    (r : Rec) (hc : carries s r = false) : ListOk s asc (store ++ [r]) l := by
  refine ⟨h.nodup, ?_, h.sorted⟩
  intro x
  rw [h.mem x, List.mem_append]
  simp only [List.mem_singleton]
  constructor
  · rintro ⟨hx, hcx⟩; exact ⟨Or.inl hx, hcx⟩
  · rintro ⟨hx | rfl, hcx⟩
    · exact ⟨hx, hcx⟩
    · rw [hc] at hcx; cases hcx

theorem ListOk.erase {s : Slot} {asc : Bool} {store l : List Rec} (h : ListOk s asc store l)
    (hs : KeysNodup store) (k : String) : ListOk s asc (eraseKey k store) (eraseKey k l) := by
  refine ⟨keysNodup_eraseKey k l h.nodup, ?_, ?_⟩
  · intro x
    rw [mem_eraseKey k l h.nodup, mem_eraseKey k store hs, h.mem x]
    constructor
    · rintro ⟨⟨a, b⟩, c⟩; exact ⟨⟨a, c⟩, b⟩
    · rintro ⟨⟨a, c⟩, b⟩; exact ⟨⟨a, b⟩, c⟩
  · rw [eraseKey_eq_filter k l h.nodup]
    exact h.sorted.filter _

/-- in-place mutation of a record whose sort attribute did not change -/
theorem ListOk.alias {s : Slot} {asc : Bool} {store l : List Rec} (h : ListOk s asc store l)
    (hs : KeysNodup store) (o n : Rec) (ho : o ∈ store) (hk : n.key = o.key) (ha : attrEq s o n) :
    ListOk s asc (eraseKey o.key store ++ [n]) (alias n l) := by
  have hcar := attrEq_carries s o n ha
  refine ⟨?_, ?_, ?_⟩
  · unfold KeysNodup; rw [alias_keys]; exact h.nodup
  · intro x
    rw [mem_alias, List.mem_append, mem_eraseKey _ _ hs]
    simp only [List.mem_singleton]
    constructor
    · rintro (⟨hx, hxk⟩ | ⟨rfl, y, hy, hyk⟩)
      · have := (h.mem x).mp hx
        exact ⟨Or.inl ⟨this.1, by rw [← hk]; exact hxk⟩, this.2⟩
      · have hy' := (h.mem y).mp hy
        have : y = o := keysNodup_inj hs hy'.1 ho (hyk.trans hk)
        rw [this] at hy'
        exact ⟨Or.inr rfl, by rw [← hcar]; exact hy'.2⟩
    · rintro ⟨⟨hx, hxk⟩ | rfl, hcx⟩
      · exact Or.inl ⟨(h.mem x).mpr ⟨hx, hcx⟩, by rw [hk]; exact hxk⟩
      · refine Or.inr ⟨rfl, o, (h.mem o).mpr ⟨ho, by rw [hcar]; exact hcx⟩, hk.symm⟩
  · unfold Hv.Beacon.alias
    rw [List.pairwise_map]
    refine h.sorted.imp_of_mem ?_
    intro a b hma hmb hab
    have fa : ∀ y ∈ l, attrEq s y (if (y.key == n.key) = true then n else y) := by
      intro y hy
      by_cases hyk : (y.key == n.key) = true
      · rw [if_pos hyk]
        have : y = o := keysNodup_inj hs ((h.mem y).mp hy).1 ho ((by simpa using hyk : y.key = n.key).trans hk)
        rw [this]; exact ha
      · rw [if_neg hyk]; exact attrEq_refl s y
    exact ordB_congr s asc a _ b _ (fa a hma) (fa b hmb) hab


/-! ### I. a beacon pair under sound facts -/

/-- the facts that make the beacon pair of index type `s` sound -/
structure SlotGood (cfg : Cfg) (s : Slot) : Prop where
  phys : phys cfg s = s
  cold : ∀ r, coldIncl cfg s r = carries s r
  guard : ∀ r, addGuard cfg s r = carries s r
  resort : incrSort cfg s = some s
  /-- no other index type is served from this pair -/
  exclusive : ∀ s', Hv.Beacon.phys cfg s' = s → s' = s
  /-- the type-change branch removes a treasure that became void from every beacon, the key index
      included: sound only while that cannot happen -/
  voidSafe : cfg.typeChangeDetected = false ∨ cfg.setVoidClearsTyped = false
  /-- every update either re-files the record in this pair or leaves its sort attribute alone -/
  stable : ∀ (o : Rec) (rq : SetReq),
    refreshes cfg s (mergeRec cfg (some o) rq) = true ∨ attrEq s o (mergeRec cfg (some o) rq)
  /-- a re-filing block of `SaveFunction` re-adds exactly the carriers -/
  refile : ∀ r, refileGuard cfg s r = carries s r
  /-- `PatchExpired` hands every selected treasure back to the expiration index -/
  reindex : s = .expire → cfg.patchExpiredReindexesAll = true

def PairOk (s : Slot) (store : List Rec) (p : Pair) : Prop :=
  p.init = true → ListOk s true store p.asc ∧ ListOk s false store p.desc

theorem invalidates_false_of_resort (cfg : Cfg) (ps ss : Slot) (h : incrSort cfg ps = some ss) : invalidates cfg ps = false := by
  cases ps with
  | key => simp only [incrSort, invalidates] at h ⊢; cases hr : cfg.resortKey <;> simp_all
  | created => simp only [incrSort, invalidates] at h ⊢; cases hr : cfg.resortCreated <;> simp_all
  | updated => simp only [incrSort, invalidates] at h ⊢; cases hr : cfg.resortUpdated <;> simp_all
  | expire => simp only [incrSort, invalidates] at h ⊢; cases hr : cfg.resortExpire <;> simp_all
  | value t => simp only [incrSort, invalidates] at h ⊢; cases hr : cfg.resortValue <;> simp_all

theorem Pair.insert_init (cfg : Cfg) (ps ss : Slot) (r : Rec) (g : Bool) (p : Pair) (hs : incrSort cfg ps = some ss) :
    (p.insertG cfg ps r g).init = p.init := by
  unfold Pair.insertG
  simp only [invalidates_false_of_resort cfg ps ss hs, hs, Bool.false_eq_true, if_false]
  repeat' split
  all_goals rfl

theorem Pair.insert_lists (cfg : Cfg) (ps ss : Slot) (r : Rec) (p : Pair)
    (hi : p.init = true) (hs : incrSort cfg ps = some ss) :
    (p.insertG cfg ps r true).asc = sortBy ss true (addTo p.asc r) ∧
    (p.insertG cfg ps r true).desc = sortBy ss false (addTo p.desc r) := by
  unfold Pair.insertG
  simp only [hi, Bool.not_true, Bool.false_eq_true, if_false, hs, invalidates_false_of_resort cfg ps ss hs]
  repeat' split
  all_goals exact ⟨rfl, rfl⟩

theorem Pair.insert_skip (cfg : Cfg) (ps : Slot) (r : Rec) (p : Pair) : p.insertG cfg ps r false = p := by
  unfold Pair.insertG
  split
  · rfl
  · simp

theorem Pair.erase_init (k : String) (p : Pair) : (p.erase k).init = p.init := by
  unfold Pair.erase; split <;> rfl

theorem Pair.erase_lists (k : String) (p : Pair) (hi : p.init = true) :
    (p.erase k).asc = eraseKey k p.asc ∧ (p.erase k).desc = eraseKey k p.desc := by
  unfold Pair.erase; simp [hi]

theorem PairOk.insertG {cfg : Cfg} {s : Slot} (hg : SlotGood cfg s) {store : List Rec} {p : Pair}
    (hp : PairOk s store p) (r : Rec) (hfresh : ∀ x ∈ store, x.key ≠ r.key) :
    PairOk s (store ++ [r]) (p.insertG cfg s r (carries s r)) := by
  intro hi
  rw [Pair.insert_init cfg s s r _ p hg.resort] at hi
  obtain ⟨ha, hd⟩ := hp hi
  cases hc : carries s r
  · rw [Pair.insert_skip cfg s r p]
    exact ⟨ha.insert_skip r hc, hd.insert_skip r hc⟩
  · obtain ⟨e1, e2⟩ := Pair.insert_lists cfg s s r p hi hg.resort
    rw [e1, e2]
    exact ⟨ha.insert_carrier r hfresh hc, hd.insert_carrier r hfresh hc⟩

theorem PairOk.insert {cfg : Cfg} {s : Slot} (hg : SlotGood cfg s) {store : List Rec} {p : Pair}
    (hp : PairOk s store p) (r : Rec) (hfresh : ∀ x ∈ store, x.key ≠ r.key) :
    PairOk s (store ++ [r]) (p.insert cfg s r) := by
  unfold Pair.insert
  rw [hg.guard]
  exact hp.insertG hg r hfresh

theorem PairOk.erase {s : Slot} {store : List Rec} {p : Pair} (hp : PairOk s store p)
    (hs : KeysNodup store) (k : String) : PairOk s (eraseKey k store) (p.erase k) := by
  intro hi
  rw [Pair.erase_init] at hi
  obtain ⟨ha, hd⟩ := hp hi
  obtain ⟨e1, e2⟩ := Pair.erase_lists k p hi
  rw [e1, e2]
  exact ⟨ha.erase hs k, hd.erase hs k⟩

theorem PairOk.update {cfg : Cfg} {s : Slot} (hg : SlotGood cfg s) {store : List Rec} {p : Pair}
    (hp : PairOk s store p) (hs : KeysNodup store) (o : Rec) (rq : SetReq) (ho : o ∈ store) :
    PairOk s (eraseKey o.key store ++ [mergeRec cfg (some o) rq])
      (p.update cfg s o (mergeRec cfg (some o) rq)) := by
  have hk : (mergeRec cfg (some o) rq).key = o.key := rfl
  have hfresh : ∀ x ∈ eraseKey o.key store, x.key ≠ (mergeRec cfg (some o) rq).key := by
    intro x hx
    rw [hk]
    exact ((mem_eraseKey _ _ hs x).mp hx).2
  have hrefile : PairOk s (eraseKey o.key store ++ [mergeRec cfg (some o) rq])
      ((p.erase o.key).insert cfg s (mergeRec cfg (some o) rq)) :=
    (hp.erase hs o.key).insert hg (mergeRec cfg (some o) rq) hfresh
  have hrefile' : PairOk s (eraseKey o.key store ++ [mergeRec cfg (some o) rq])
      ((p.erase o.key).insertG cfg s (mergeRec cfg (some o) rq) (refileGuard cfg s (mergeRec cfg (some o) rq))) := by
    rw [hg.refile]
    exact (hp.erase hs o.key).insertG hg (mergeRec cfg (some o) rq) hfresh
  unfold Pair.update
  cases hi : p.init
  · intro h; simp only [Bool.not_false, if_true] at h; rw [hi] at h; cases h
  · simp only [Bool.not_true, Bool.false_eq_true, if_false]
    by_cases htc : (cfg.typeChangeDetected && o.ct != (mergeRec cfg (some o) rq).ct) = true
    · -- `IsContentTypeChanged`: removed from every beacon, re-added unless the new type is void — and
      -- a Set cannot turn typed content into void (`SetContentVoid` leaves it alone)
      simp only [htc, if_true]
      have hnv : ((mergeRec cfg (some o) rq).ct != CT.void) = true := by
        simp only [Bool.and_eq_true, bne_iff_ne, ne_eq] at htc
        have hcl : cfg.setVoidClearsTyped = false := by
          rcases hg.voidSafe with h | h
          · rw [h] at htc; exact absurd htc.1 (by simp)
          · exact h
        have hne := htc.2
        simp only [mergeRec, hcl, Bool.not_false, Bool.and_true] at hne ⊢
        by_cases hv : (rq.ct == CT.void) = true
        · simp [hv] at hne
        · simp only [hv, Bool.false_eq_true, if_false, bne_iff_ne, ne_eq]
          simpa using hv
      simp only [hnv, if_true]
      rw [hk]
      exact hrefile
    · simp only [htc, Bool.false_eq_true, if_false]
      cases hr : refreshes cfg s (mergeRec cfg (some o) rq)
      · -- not re-filed: the attribute is unchanged
        have hattr : attrEq s o (mergeRec cfg (some o) rq) := by
          rcases hg.stable o rq with h | h
          · rw [hr] at h; cases h
          · exact h
        simp only [Bool.false_eq_true, if_false]
        intro _
        obtain ⟨ha, hd⟩ := hp hi
        exact ⟨ha.alias hs o _ ho hk hattr, hd.alias hs o _ ho hk hattr⟩
      · simp only [if_true]
        rw [hk]
        exact hrefile'

theorem Pair.build_init (cfg : Cfg) (s : Slot) (store : List Rec) (p : Pair) : (p.build cfg s store).init = true := by
  unfold Pair.build
  dsimp only
  cases hi : p.init
  · simp only [Bool.false_eq_true, if_false]
    split <;> rfl
  · simpa using hi

theorem PairOk.build {cfg : Cfg} {s : Slot} (hg : SlotGood cfg s) {store : List Rec} {p : Pair}
    (hp : PairOk s store p) (hs : KeysNodup store) : PairOk s store (p.build cfg s store) := by
  unfold Pair.build
  cases hi : p.init
  · simp only [Bool.false_eq_true, if_false]
    have hfilt : store.filter (coldIncl cfg s) = store.filter (carries s) := by
      congr 1; funext r; exact hg.cold r
    have hcar : ∀ r ∈ store.filter (carries s), carries s r = true := fun r hr => (List.mem_filter.mp hr).2
    rw [hfilt, sortErr_carriers s _ hcar]
    simp only [Bool.false_eq_true, if_false]
    intro _
    have mk : ∀ asc, ListOk s asc store (sortBy s asc (store.filter (carries s))) := by
      intro asc
      obtain ⟨hperm, hsrt⟩ := sortBy_carriers s asc _ hcar
      refine ⟨?_, ?_, hsrt⟩
      · have hsub : ((store.filter (carries s)).map (·.key)).Nodup :=
          List.Nodup.sublist (List.Sublist.map _ List.filter_sublist) hs
        exact (hperm.map (·.key)).nodup_iff.mpr hsub
      · intro r; rw [hperm.mem_iff, List.mem_filter]
    exact ⟨mk true, mk false⟩
  · simp only [if_true]
    exact hp


/-! ### J. the swamp: the pair of a sound index type stays sound along every history -/

def SlotInv (s : Slot) (st : St) : Prop := KeysNodup st.store ∧ PairOk s st.store (st.pairs s)

theorem slotInv_init (s : Slot) : SlotInv s St.init := by
  refine ⟨by simp [St.init, KeysNodup], ?_⟩
  intro h; simp [St.init] at h

theorem keysNodup_append_fresh {store : List Rec} (hs : KeysNodup store) (r : Rec)
    (hf : ∀ x ∈ store, x.key ≠ r.key) : KeysNodup (store ++ [r]) := by
  unfold KeysNodup at *
  rw [List.map_append, List.nodup_append]
  refine ⟨hs, by simp, ?_⟩
  intro a ha b hb
  simp only [List.map_cons, List.map_nil, List.mem_singleton] at hb
  obtain ⟨x, hx, rfl⟩ := List.mem_map.mp ha
  rw [hb]; exact hf x hx

theorem slotInv_stepSet {cfg : Cfg} {s : Slot} (hg : SlotGood cfg s) (st : St) (rq : SetReq)
    (h : SlotInv s st) : SlotInv s (stepSet cfg st rq) := by
  obtain ⟨hs, hp⟩ := h
  simp only [stepSet]
  cases hf : findKey rq.key st.store with
  | none =>
    have hfresh : ∀ x ∈ st.store, x.key ≠ (mergeRec cfg none rq).key := findKey_none hf
    exact ⟨keysNodup_append_fresh hs _ hfresh, hp.insert hg _ hfresh⟩
  | some o =>
    have ho := (findKey_some hf).1
    refine ⟨?_, hp.update hg hs o rq ho⟩
    apply keysNodup_append_fresh (keysNodup_eraseKey _ _ hs)
    intro x hx
    exact ((mem_eraseKey _ _ hs x).mp hx).2

theorem slotInv_stepDel {s : Slot} (st : St) (k : String) (h : SlotInv s st) : SlotInv s (stepDel st k) := by
  obtain ⟨hs, hp⟩ := h
  simp only [stepDel]
  cases hf : findKey k st.store with
  | none => exact ⟨hs, hp⟩
  | some o =>
    simp only []
    split
    · exact slotInv_init s
    · exact ⟨keysNodup_eraseKey _ _ hs, hp.erase hs k⟩

theorem slotInv_stepBuild {cfg : Cfg} {s : Slot} (hg : SlotGood cfg s) (st : St) (q : Query)
    (h : SlotInv s st) : SlotInv s (stepBuild cfg st q) := by
  obtain ⟨hs, hp⟩ := h
  simp only [stepBuild]
  split
  · exact ⟨hs, hp⟩
  · refine ⟨hs, ?_⟩
    simp only [setPair]
    by_cases he : s = Hv.Beacon.phys cfg q.slot
    · have hq : q.slot = s := hg.exclusive q.slot he.symm
      rw [if_pos he, ← he, hq]
      exact hp.build hg hs
    · rw [if_neg he]; exact hp

theorem slotInv_foldDel {s : Slot} (ks : List String) : ∀ (st : St), SlotInv s st → SlotInv s (ks.foldl stepDel st) := by
  induction ks with
  | nil => intro st h; exact h
  | cons k rest ih => intro st h; exact ih _ (slotInv_stepDel st k h)

/-! ### J'. PatchTreasures / PatchExpired / ShiftMatching -/

theorem slotInv_stepPatch {cfg : Cfg} {s : Slot} (hg : SlotGood cfg s) (st : St) (k : String) (m : ExpMeta)
    (h : SlotInv s st) : SlotInv s (stepPatch cfg st k m) := by
  unfold stepPatch
  split
  · exact h
  · split
    · exact slotInv_stepSet hg st _ h
    · exact h

theorem slotInv_foldPatch {cfg : Cfg} {s : Slot} (hg : SlotGood cfg s) (m : ExpMeta) (ks : List String) :
    ∀ (st : St), SlotInv s st → SlotInv s (ks.foldl (fun s k => stepPatch cfg s k m) st) := by
  induction ks with
  | nil => intro st h; exact h
  | cons k rest ih => intro st h; exact ih _ (slotInv_stepPatch hg st k m h)

/-- The expiration slice while `PatchExpired` works through its selection `K`: the selected records
    may be missing, everything else is as it should be (order aside: the final step sorts). -/
structure ListSub (K : List String) (store l : List Rec) : Prop where
  nodup : KeysNodup l
  sub : ∀ r, r ∈ l → r ∈ store ∧ carries .expire r = true
  sup : ∀ r, r ∈ store → carries .expire r = true → r.key ∉ K → r ∈ l

theorem mem_dropKeys (ks : List String) (l : List Rec) (r : Rec) : r ∈ dropKeys ks l ↔ (r ∈ l ∧ r.key ∉ ks) := by
  unfold dropKeys
  simp [List.mem_filter]

theorem keysNodup_filter (f : Rec → Bool) (l : List Rec) (h : KeysNodup l) : KeysNodup (l.filter f) :=
  List.Nodup.sublist (List.Sublist.map _ List.filter_sublist) h

theorem ListOk.hide {asc : Bool} {store l : List Rec} (h : ListOk .expire asc store l) (K : List String) :
    ListSub K store (dropKeys K l) := by
  refine ⟨keysNodup_filter _ l h.nodup, ?_, ?_⟩
  · intro r hr
    exact (h.mem r).mp ((mem_dropKeys K l r).mp hr).1
  · intro r hr hc hk
    exact (mem_dropKeys K l r).mpr ⟨(h.mem r).mpr ⟨hr, hc⟩, hk⟩

theorem ListSub.erase {K : List String} {store l : List Rec} (h : ListSub K store l)
    (hs : KeysNodup store) (k : String) : ListSub K (eraseKey k store) (eraseKey k l) := by
  refine ⟨keysNodup_eraseKey k l h.nodup, ?_, ?_⟩
  · intro r hr
    obtain ⟨h1, h2⟩ := (mem_eraseKey k l h.nodup r).mp hr
    exact ⟨(mem_eraseKey k store hs r).mpr ⟨(h.sub r h1).1, h2⟩, (h.sub r h1).2⟩
  · intro r hr hc hk
    obtain ⟨h1, h2⟩ := (mem_eraseKey k store hs r).mp hr
    exact (mem_eraseKey k l h.nodup r).mpr ⟨h.sup r h1 hc hk, h2⟩

theorem ListSub.insert_skip {K : List String} {store l : List Rec} (h : ListSub K store l)
    (r : Rec) (hk : r.key ∈ K) : ListSub K (store ++ [r]) l := by
  refine ⟨h.nodup, ?_, ?_⟩
  · intro x hx
    exact ⟨List.mem_append.mpr (Or.inl (h.sub x hx).1), (h.sub x hx).2⟩
  · intro x hx hc hxk
    rcases List.mem_append.mp hx with hx | hx
    · exact h.sup x hx hc hxk
    · simp only [List.mem_singleton] at hx
      rw [hx] at hxk
      exact absurd hk hxk

theorem ListSub.insert_carrier {K : List String} {store l : List Rec} (h : ListSub K store l) (asc : Bool)
    (r : Rec) (hfresh : ∀ x ∈ store, x.key ≠ r.key) (hc : carries .expire r = true) :
    ListSub K (store ++ [r]) (sortBy .expire asc (addTo l r)) := by
  have hl : addTo l r = l ++ [r] := addTo_fresh l r (fun x hx => hfresh x (h.sub x hx).1)
  have hcar : ∀ x ∈ l ++ [r], carries .expire x = true := by
    intro x hx
    rcases List.mem_append.mp hx with hx | hx
    · exact (h.sub x hx).2
    · simp only [List.mem_singleton] at hx; rw [hx]; exact hc
  obtain ⟨hp, _⟩ := sortBy_carriers .expire asc (l ++ [r]) hcar
  rw [hl]
  refine ⟨?_, ?_, ?_⟩
  · have : ((l ++ [r]).map (·.key)).Nodup := by
      rw [List.map_append, List.nodup_append]
      refine ⟨h.nodup, by simp, ?_⟩
      intro a ha b hb
      simp only [List.map_cons, List.map_nil, List.mem_singleton] at hb
      obtain ⟨x, hx, rfl⟩ := List.mem_map.mp ha
      rw [hb]
      exact hfresh x (h.sub x hx).1
    exact (hp.map (·.key)).nodup_iff.mpr this
  · intro x hx
    rw [hp.mem_iff] at hx
    rcases List.mem_append.mp hx with hx | hx
    · exact ⟨List.mem_append.mpr (Or.inl (h.sub x hx).1), (h.sub x hx).2⟩
    · simp only [List.mem_singleton] at hx
      rw [hx]
      exact ⟨List.mem_append.mpr (Or.inr (by simp)), hc⟩
  · intro x hx hcx hxk
    rw [hp.mem_iff]
    rcases List.mem_append.mp hx with hx | hx
    · exact List.mem_append.mpr (Or.inl (h.sup x hx hcx hxk))
    · exact List.mem_append.mpr (Or.inr hx)

theorem ListSub.alias {K : List String} {store l : List Rec} (h : ListSub K store l)
    (hs : KeysNodup store) (o n : Rec) (ho : o ∈ store) (hk : n.key = o.key) (ha : attrEq .expire o n) :
    ListSub K (eraseKey o.key store ++ [n]) (alias n l) := by
  have hcar := attrEq_carries .expire o n ha
  refine ⟨?_, ?_, ?_⟩
  · unfold KeysNodup; rw [alias_keys]; exact h.nodup
  · intro x hx
    rw [mem_alias] at hx
    rcases hx with ⟨hx, hxk⟩ | ⟨rfl, y, hy, hyk⟩
    · have := h.sub x hx
      exact ⟨List.mem_append.mpr (Or.inl ((mem_eraseKey _ _ hs x).mpr ⟨this.1, by rw [← hk]; exact hxk⟩)), this.2⟩
    · have hy' := h.sub y hy
      have : y = o := keysNodup_inj hs hy'.1 ho (hyk.trans hk)
      rw [this] at hy'
      exact ⟨List.mem_append.mpr (Or.inr (by simp)), by rw [← hcar]; exact hy'.2⟩
  · intro x hx hcx hxk
    rw [mem_alias]
    rcases List.mem_append.mp hx with hx | hx
    · obtain ⟨h1, h2⟩ := (mem_eraseKey _ _ hs x).mp hx
      exact Or.inl ⟨h.sup x h1 hcx hxk, by rw [hk]; exact h2⟩
    · simp only [List.mem_singleton] at hx
      refine Or.inr ⟨hx, o, ?_, hk.symm⟩
      have hko : o.key ∉ K := by rw [← hk, ← hx]; exact hxk
      exact h.sup o ho (by rw [hcar, ← hx]; exact hcx) hko

def PairSub (K : List String) (store : List Rec) (p : Pair) : Prop :=
  p.init = true → ListSub K store p.asc ∧ ListSub K store p.desc

theorem PairSub.erase {K : List String} {store : List Rec} {p : Pair} (hp : PairSub K store p)
    (hs : KeysNodup store) (k : String) : PairSub K (eraseKey k store) (p.erase k) := by
  intro hi
  rw [Pair.erase_init] at hi
  obtain ⟨ha, hd⟩ := hp hi
  obtain ⟨e1, e2⟩ := Pair.erase_lists k p hi
  rw [e1, e2]
  exact ⟨ha.erase hs k, hd.erase hs k⟩

theorem PairSub.insertG {cfg : Cfg} (hg : SlotGood cfg .expire) {K : List String} {store : List Rec} {p : Pair}
    (hp : PairSub K store p) (r : Rec) (hfresh : ∀ x ∈ store, x.key ≠ r.key) (hk : r.key ∈ K) :
    PairSub K (store ++ [r]) (p.insertG cfg .expire r (carries .expire r)) := by
  intro hi
  rw [Pair.insert_init cfg .expire .expire r _ p hg.resort] at hi
  obtain ⟨ha, hd⟩ := hp hi
  cases hc : carries .expire r
  · rw [Pair.insert_skip cfg .expire r p]
    exact ⟨ha.insert_skip r hk, hd.insert_skip r hk⟩
  · obtain ⟨e1, e2⟩ := Pair.insert_lists cfg .expire .expire r p hi hg.resort
    rw [e1, e2]
    exact ⟨ha.insert_carrier true r hfresh hc, hd.insert_carrier false r hfresh hc⟩

theorem PairSub.update {cfg : Cfg} (hg : SlotGood cfg .expire) {K : List String} {store : List Rec} {p : Pair}
    (hp : PairSub K store p) (hs : KeysNodup store) (o : Rec) (rq : SetReq) (ho : o ∈ store) (hK : o.key ∈ K) :
    PairSub K (eraseKey o.key store ++ [mergeRec cfg (some o) rq])
      (p.update cfg .expire o (mergeRec cfg (some o) rq)) := by
  have hk : (mergeRec cfg (some o) rq).key = o.key := rfl
  have hfresh : ∀ x ∈ eraseKey o.key store, x.key ≠ (mergeRec cfg (some o) rq).key := by
    intro x hx
    rw [hk]
    exact ((mem_eraseKey _ _ hs x).mp hx).2
  have hins : ∀ g, g = carries .expire (mergeRec cfg (some o) rq) →
      PairSub K (eraseKey o.key store ++ [mergeRec cfg (some o) rq])
        ((p.erase o.key).insertG cfg .expire (mergeRec cfg (some o) rq) g) := by
    intro g hgc
    rw [hgc]
    exact (hp.erase hs o.key).insertG hg (mergeRec cfg (some o) rq) hfresh (by rw [hk]; exact hK)
  have hskip : PairSub K (eraseKey o.key store ++ [mergeRec cfg (some o) rq]) (p.erase o.key) := by
    intro hi
    obtain ⟨ha, hd⟩ := (hp.erase hs o.key) hi
    exact ⟨ha.insert_skip _ (by rw [hk]; exact hK), hd.insert_skip _ (by rw [hk]; exact hK)⟩
  unfold Pair.update
  cases hi : p.init
  · intro h; simp only [Bool.not_false, if_true] at h; rw [hi] at h; cases h
  · simp only [Bool.not_true, Bool.false_eq_true, if_false]
    by_cases htc : (cfg.typeChangeDetected && o.ct != (mergeRec cfg (some o) rq).ct) = true
    · simp only [htc, if_true]
      rw [hk]
      split
      · unfold Pair.insert
        exact hins _ (hg.guard _)
      · exact hskip
    · simp only [htc, Bool.false_eq_true, if_false]
      cases hr : refreshes cfg .expire (mergeRec cfg (some o) rq)
      · have hattr : attrEq .expire o (mergeRec cfg (some o) rq) := by
          rcases hg.stable o rq with h | h
          · rw [hr] at h; cases h
          · exact h
        simp only [Bool.false_eq_true, if_false]
        intro _
        obtain ⟨ha, hd⟩ := hp hi
        exact ⟨ha.alias hs o _ ho hk hattr, hd.alias hs o _ ho hk hattr⟩
      · simp only [if_true]
        rw [hk]
        exact hins _ (hg.refile _)

def StSub (K : List String) (st : St) : Prop := KeysNodup st.store ∧ PairSub K st.store (st.pairs .expire)

theorem findKey_of_mem {l : List Rec} (h : KeysNodup l) {r : Rec} (hr : r ∈ l) : findKey r.key l = some r := by
  cases hf : findKey r.key l with
  | none => exact absurd rfl (findKey_none hf r hr)
  | some r' =>
    obtain ⟨h1, h2⟩ := findKey_some hf
    rw [keysNodup_inj h h1 hr h2]

theorem stSub_stepPatch {cfg : Cfg} (hg : SlotGood cfg .expire) {K : List String} (st : St) (k : String) (m : ExpMeta)
    (hk : k ∈ K) (h : StSub K st) : StSub K (stepPatch cfg st k m) := by
  obtain ⟨hs, hp⟩ := h
  unfold stepPatch
  cases hf : findKey k st.store with
  | none => exact ⟨hs, hp⟩
  | some o =>
    obtain ⟨ho, hok⟩ := findKey_some hf
    simp only []
    split
    · have hfo : findKey (patchReq o m).key st.store = some o := by
        show findKey o.key st.store = some o
        exact findKey_of_mem hs ho
      simp only [stepSet, hfo]
      refine ⟨?_, hp.update hg hs o _ ho (by rw [hok]; exact hk)⟩
      apply keysNodup_append_fresh (keysNodup_eraseKey _ _ hs)
      intro x hx
      exact ((mem_eraseKey _ _ hs x).mp hx).2
    · exact ⟨hs, hp⟩

theorem stSub_foldPatch {cfg : Cfg} (hg : SlotGood cfg .expire) {K : List String} (m : ExpMeta) (ks : List String) :
    (∀ k ∈ ks, k ∈ K) → ∀ (st : St), StSub K st → StSub K (ks.foldl (fun s k => stepPatch cfg s k m) st) := by
  induction ks with
  | nil => intro _ st h; exact h
  | cons k rest ih =>
    intro hk st h
    exact ih (fun x hx => hk x (by simp [hx])) _ (stSub_stepPatch hg st k m (hk k (by simp)) h)

theorem less_expire_eq (asc : Bool) : less .expire asc = lessPure .expire asc := rfl

/-- `ReindexExpiration` of the whole selection restores the ascending slice -/
theorem ListSub.reindex_asc {K : List String} {store l : List Rec} (h : ListSub K store l) (hs : KeysNodup store) :
    ListOk .expire true store
      (isort (less .expire true) (dropKeys K l ++ store.filter (fun r => K.contains r.key && r.expire != 0))) := by
  have hp := isort_perm (less .expire true) (dropKeys K l ++ store.filter (fun r => K.contains r.key && r.expire != 0))
  refine ⟨?_, ?_, ?_⟩
  · refine (hp.map (·.key)).nodup_iff.mpr ?_
    rw [List.map_append, List.nodup_append]
    refine ⟨keysNodup_filter _ l h.nodup, keysNodup_filter _ store hs, ?_⟩
    intro a ha b hb hab
    obtain ⟨x, hx, rfl⟩ := List.mem_map.mp ha
    obtain ⟨y, hy, rfl⟩ := List.mem_map.mp hb
    have h1 := ((mem_dropKeys K l x).mp hx).2
    have h2 := (List.mem_filter.mp hy).2
    simp only [Bool.and_eq_true, List.contains_iff_mem] at h2
    exact h1 (by rw [hab]; exact h2.1)
  · intro r
    rw [hp.mem_iff, List.mem_append, mem_dropKeys, List.mem_filter]
    simp only [Bool.and_eq_true, List.contains_iff_mem, bne_iff_ne, ne_eq, carries]
    constructor
    · rintro (⟨hr, _⟩ | ⟨hr, _, he⟩)
      · have := h.sub r hr
        exact ⟨this.1, by simpa [carries] using this.2⟩
      · exact ⟨hr, he⟩
    · rintro ⟨hr, he⟩
      by_cases hk : r.key ∈ K
      · exact Or.inr ⟨hr, hk, he⟩
      · exact Or.inl ⟨h.sup r hr (by simpa [carries] using he) hk, hk⟩
  · rw [less_expire_eq]
    exact isort_sorted _ (lessPure_asym .expire true) (lessPure_trans .expire true) _

/-- …and `Add` of every selected record that still has an expiry, then the sort, the descending one -/
theorem ListSub.reindex_desc {K : List String} {store l : List Rec} (h : ListSub K store l) (hs : KeysNodup store) :
    ListOk .expire false store
      (isort (less .expire false) (addAll l (store.filter (fun r => K.contains r.key && r.expire != 0)))) := by
  have hp := isort_perm (less .expire false) (addAll l (store.filter (fun r => K.contains r.key && r.expire != 0)))
  unfold addAll at hp ⊢
  refine ⟨?_, ?_, ?_⟩
  · refine (hp.map (·.key)).nodup_iff.mpr ?_
    rw [List.map_append, List.nodup_append]
    refine ⟨h.nodup, keysNodup_filter _ _ (keysNodup_filter _ store hs), ?_⟩
    intro a ha b hb hab
    obtain ⟨x, hx, rfl⟩ := List.mem_map.mp ha
    obtain ⟨y, hy, rfl⟩ := List.mem_map.mp hb
    have h2 := (List.mem_filter.mp hy).2
    simp only [Bool.not_eq_true', List.any_eq_false, beq_iff_eq] at h2
    exact h2 x hx hab
  · intro r
    rw [hp.mem_iff, List.mem_append, List.mem_filter, List.mem_filter]
    simp only [Bool.and_eq_true, List.contains_iff_mem, bne_iff_ne, ne_eq, carries]
    constructor
    · rintro (hr | ⟨⟨hr, _, he⟩, _⟩)
      · have := h.sub r hr
        exact ⟨this.1, by simpa [carries] using this.2⟩
      · exact ⟨hr, he⟩
    · rintro ⟨hr, he⟩
      by_cases hk : r.key ∈ K
      · by_cases hany : l.any (fun x => x.key == r.key) = true
        · obtain ⟨x, hx, hxk⟩ := List.any_eq_true.mp hany
          have : x = r := keysNodup_inj hs (h.sub x hx).1 hr (by simpa using hxk)
          rw [this] at hx
          exact Or.inl hx
        · exact Or.inr ⟨⟨hr, hk, he⟩, by simpa using hany⟩
      · exact Or.inl (h.sup r hr (by simpa [carries] using he) hk)
  · rw [less_expire_eq]
    exact isort_sorted _ (lessPure_asym .expire false) (lessPure_trans .expire false) _

theorem slotInv_stepPatchExpired {cfg : Cfg} {s : Slot} (hg : SlotGood cfg s) (st : St) (m : ExpMeta)
    (h : SlotInv s st) : SlotInv s (stepPatchExpired cfg st m) := by
  unfold stepPatchExpired
  split
  · exact h
  · have h1 : SlotInv s (stepBuild cfg st expireAll) := slotInv_stepBuild hg st expireAll h
    by_cases hse : s = .expire
    · subst hse
      -- the hidden pair
      generalize hK : (shiftList cfg st).map (·.key) = K
      have hsub2 : StSub K { (stepBuild cfg st expireAll) with
          pairs := setPair (stepBuild cfg st expireAll).pairs .expire (hideKeys K ((stepBuild cfg st expireAll).pairs .expire)) } := by
        refine ⟨h1.1, ?_⟩
        simp only [setPair, if_true]
        intro hi
        obtain ⟨ha, hd⟩ := h1.2 hi
        exact ⟨ha.hide K, hd.hide K⟩
      have hsub3 := stSub_foldPatch hg m K (fun _ hk => hk) _ hsub2
      simp only []
      generalize (K.foldl (fun s k => stepPatch cfg s k m) _) = st3 at hsub3 ⊢
      split
      · refine ⟨hsub3.1, ?_⟩
        intro hi
        rename_i hni
        rw [hi] at hni; simp at hni
      · rename_i hi3
        have hi3' : (st3.pairs .expire).init = true := by simpa using hi3
        obtain ⟨ha, hd⟩ := hsub3.2 hi3'
        have hre : K.filter (fun k => cfg.patchExpiredReindexesAll || !patchable st.store k) = K := by
          rw [List.filter_eq_self]
          intro a _
          simp [hg.reindex rfl]
        refine ⟨hsub3.1, ?_⟩
        simp only [setPair, if_true, hre, reindexPair]
        intro _
        exact ⟨ha.reindex_asc hsub3.1, hd.reindex_desc hsub3.1⟩
    · -- another slot: only the saves matter
      have h2 : SlotInv s { (stepBuild cfg st expireAll) with
          pairs := setPair (stepBuild cfg st expireAll).pairs .expire
            (hideKeys ((shiftList cfg st).map (·.key)) ((stepBuild cfg st expireAll).pairs .expire)) } := by
        refine ⟨h1.1, ?_⟩
        simp only [setPair, hse, if_false]
        exact h1.2
      have h3 := slotInv_foldPatch hg m ((shiftList cfg st).map (·.key)) _ h2
      simp only []
      generalize (((shiftList cfg st).map (·.key)).foldl (fun s k => stepPatch cfg s k m) _) = st3 at h3 ⊢
      split
      · exact h3
      · refine ⟨h3.1, ?_⟩
        simp only [setPair, hse, if_false]
        exact h3.2

theorem slotInv_stepShiftMatch {cfg : Cfg} {s : Slot} (hg : SlotGood cfg s) (st : St) (q : Query)
    (h : SlotInv s st) : SlotInv s (stepShiftMatch cfg st q) :=
  slotInv_foldDel _ _ (slotInv_stepBuild hg st q h)

theorem slotInv_step {cfg : Cfg} {s : Slot} (hg : SlotGood cfg s) (st : St) (op : Op)
    (h : SlotInv s st) : SlotInv s (step cfg st op) := by
  cases op with
  | set rq => exact slotInv_stepSet hg st rq h
  | inc k d e =>
    simp only [step, stepInc]
    split
    · exact h
    split
    · exact slotInv_stepSet hg st _ h
    · split
      · exact slotInv_stepSet hg st _ h
      · split
        · exact slotInv_stepSet hg st _ h
        · exact h
  | reload =>
    obtain ⟨hs, _⟩ := h
    refine ⟨?_, ?_⟩
    · simp only [step, stepReload, KeysNodup, List.map_map]
      exact hs
    · intro hi; simp [step, stepReload] at hi
  | shiftExpired => exact slotInv_foldDel _ _ (slotInv_stepBuild hg st _ h)
  | del k => exact slotInv_stepDel st k h
  | read q => exact slotInv_stepBuild hg st q h
  | patch k m => exact slotInv_stepPatch hg st k m h
  | patchExpired m => exact slotInv_stepPatchExpired hg st m h
  | shiftMatch q => exact slotInv_stepShiftMatch hg st q h
  | shiftKeys ks => exact slotInv_foldDel ks st h
  | patchCreate k m =>
    simp only [step, stepPatchCreate]
    split
    · exact slotInv_stepSet hg st _ h
    · split
      · exact slotInv_stepSet hg st _ h
      · split
        · exact slotInv_stepSet hg st _ h
        · exact h

theorem slotInv_run {cfg : Cfg} {s : Slot} (hg : SlotGood cfg s) (h : List Op) : SlotInv s (run cfg h) := by
  unfold run
  suffices ∀ st, SlotInv s st → SlotInv s (h.foldl (step cfg) st) from this _ (slotInv_init s)
  induction h with
  | nil => intro st hst; exact hst
  | cons op ops ih => intro st hst; exact ih _ (slotInv_step hg st op hst)

theorem nodup_of_map {α β : Type} (f : α → β) (l : List α) (h : (l.map f).Nodup) : l.Nodup := by
  induction l with
  | nil => exact List.nodup_nil
  | cons x xs ih =>
    rw [List.map_cons, List.nodup_cons] at h
    rw [List.nodup_cons]
    exact ⟨fun hx => h.1 (List.mem_map.mpr ⟨x, hx, rfl⟩), ih h.2⟩

/-- a list that is `ListOk` is a sorted permutation of exactly the carriers -/
theorem ListOk.perm {s : Slot} {asc : Bool} {store l : List Rec} (h : ListOk s asc store l) (hs : KeysNodup store) :
    l.Perm (store.filter (carries s)) := by
  have n1 : l.Nodup := nodup_of_map _ _ h.nodup
  have n2 : (store.filter (carries s)).Nodup :=
    List.Nodup.sublist List.filter_sublist (nodup_of_map _ _ hs)
  rw [List.perm_ext_iff_of_nodup n1 n2]
  intro a
  rw [h.mem a, List.mem_filter]

end Hv.Beacon
