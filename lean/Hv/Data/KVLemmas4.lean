/-
  Refinement lemmas, part 4: uint32-slice requests.  Core-only proofs.
-/
import Hv.Data.KVLemmas3

namespace Hv.Data
open Content

theorem scalar_not_slice (u : Val) (h : u.scalar = true) : (∀ l, u ≠ .u32s l) ∧ u ≠ .none := by
  cases u <;> simp [Val.scalar] at h ⊢

theorem scalar_isSlice (u : Val) (h : u.scalar = true) : u.isSlice = false := by
  cases u <;> simp [Val.scalar, Val.isSlice] at h ⊢

theorem ofVal_slice_scalar (u : Val) (h : u.scalar = true) : (ofVal u).slice = none := by
  cases u <;> simp [Val.scalar, ofVal] at h ⊢

theorem pushSet_fresh (cfg : Cfg) (vs : List Nat) :
    (Model.pushSet cfg Content.fresh vs).c = ofVal (.u32s (pushU32 [] vs)) := by
  unfold Model.pushSet
  cases cfg.pushChecksType
  · simp [pushRaw_fresh]
  · simp [fresh_vis, Val.sliceD, ofVal]

theorem pushSet_slice (cfg : Cfg) (l vs : List Nat) :
    (Model.pushSet cfg (ofVal (.u32s l)) vs).c = ofVal (.u32s (pushU32 l vs)) := by
  unfold Model.pushSet
  cases cfg.pushChecksType
  · simp [pushRaw_slice]
  · simp [Val.sliceD, ofVal, vis]

theorem pushSet_void (cfg : Cfg) (vs : List Nat)
    (hq : Q cfg (if (Model.pushSet cfg (ofVal .none) vs).c.vis.isSlice then [] else [Tag.hiddenSlice])) :
    (Model.pushSet cfg (ofVal .none) vs).c = ofVal (.u32s (pushU32 [] vs)) := by
  unfold Model.pushSet at hq ⊢
  cases hpc : cfg.pushChecksType with
  | true => simp [Val.sliceD, ofVal, vis]
  | false =>
    simp only [hpc, Bool.false_eq_true, if_false, pushRaw_vis_void, Val.isSlice] at hq
    exact Q.absurd_tag hq (fun hg => by have := Cfg.good_pushChecks hg; rw [this] at hpc; cases hpc)

theorem pushOne_sim (cfg : Cfg) (i : Inst) (p : Key × List Nat) (hi : InstOK cfg i)
    (hq : Q cfg (Model.pushOne cfg i p).2.2) :
    InstOK cfg (Model.pushOne cfg i p).1 ∧
    (absI (Model.pushOne cfg i p).1, (Model.pushOne cfg i p).2.1) = Spec.pushOne (absI i) p := by
  unfold Model.pushOne at hq ⊢
  unfold Spec.pushOne
  rw [createTreasure_eq i p.1 hi.infl] at hq ⊢
  rw [find_absI]
  cases hf : AL.find p.1 i.recs with
  | none =>
    have hc : ({} : MRec).c = Content.fresh := rfl
    simp only [hf, Option.getD_none, Option.map_none, hc, fresh_vis, Val.scalar, Bool.and_false,
      Bool.false_eq_true, if_false, List.nil_append] at hq ⊢
    have hsr := pushSet_fresh cfg p.2
    generalize Model.pushSet cfg Content.fresh p.2 = sr at hq hsr ⊢
    have hwf : ({ ({} : MRec) with c := sr.c, changed := ({} : MRec).changed || sr.changed } : MRec).c.WF := by
      show sr.c.WF; rw [hsr]; exact wf_ofVal _
    obtain ⟨s1, s2, _⟩ := save_abs cfg i p.1 _ sr.changed hi hwf
    refine ⟨s1, ?_⟩
    rw [s2]
    simp [MRec.abs, hsr]
  | some told =>
    have htold : RecOK cfg told := hi.recs (p.1, told) (AL.find_mem _ _ _ hf)
    obtain ⟨u, hu⟩ := (wf_iff told.c).mp htold.wf
    have habsv : told.abs.val = u := by simp [MRec.abs, hu]
    simp only [hf, Option.getD_some, Option.map_some, hu, vis_ofVal, List.nil_append] at hq ⊢
    by_cases hs : u.scalar = true
    · -- a typed value: rejected when the push checks the type, hidden slice otherwise
      obtain ⟨hns, hnn⟩ := scalar_not_slice u hs
      have hsp : ∀ (a b : Spec.Store × Bool),
          (match told.abs.val with | Val.none => a | Val.u32s _ => b | _ => (absI i, true)) = (absI i, true) := by
        intro a b; rw [habsv]; cases u <;> simp [Val.scalar] at hs ⊢
      cases hpc : cfg.pushChecksType with
      | true =>
        simp only [hs, Bool.and_self, if_true]
        refine ⟨hi, ?_⟩
        rw [habsv]; cases u <;> simp [Val.scalar] at hs ⊢
      | false =>
        simp only [hpc, Bool.false_and, Bool.false_eq_true, if_false, Model.pushSet] at hq
        rw [pushRaw_vis_nonslice u p.2 hns hnn, scalar_isSlice u hs] at hq
        simp only [Bool.false_eq_true, if_false] at hq
        exact Q.absurd_tag hq.left (fun hg => by have := Cfg.good_pushChecks hg; rw [this] at hpc; cases hpc)
    · have hsf : u.scalar = false := by cases h : u.scalar <;> simp_all
      simp only [hsf, Bool.and_false, Bool.false_eq_true, if_false] at hq ⊢
      cases u with
      | none =>
        have hX := pushSet_void cfg p.2 hq.left
        generalize Model.pushSet cfg (ofVal .none) p.2 = sr at hq hX ⊢
        have hwf : ({ told with c := sr.c, changed := told.changed || sr.changed } : MRec).c.WF := by
          show sr.c.WF; rw [hX]; exact wf_ofVal _
        obtain ⟨s1, s2, _⟩ := save_abs cfg i p.1 _ sr.changed hi hwf
        refine ⟨s1, ?_⟩
        rw [s2, habsv]
        simp [MRec.abs, hX]
      | u32s l =>
        have hX := pushSet_slice cfg l p.2
        generalize Model.pushSet cfg (ofVal (.u32s l)) p.2 = sr at hq hX ⊢
        have hwf : ({ told with c := sr.c, changed := told.changed || sr.changed } : MRec).c.WF := by
          show sr.c.WF; rw [hX]; exact wf_ofVal _
        obtain ⟨s1, s2, _⟩ := save_abs cfg i p.1 _ sr.changed hi hwf
        refine ⟨s1, ?_⟩
        rw [s2, habsv]
        simp [MRec.abs, hX]
      | int t n => simp [Val.scalar] at hsf
      | flt t n => simp [Val.scalar] at hsf
      | str h => simp [Val.scalar] at hsf
      | bool b => simp [Val.scalar] at hsf
      | bytes h => simp [Val.scalar] at hsf

theorem pushLoop_sim (cfg : Cfg) (pairs : List (Key × List Nat)) :
    ∀ (i : Inst), InstOK cfg i → Q cfg (Model.pushLoop cfg i pairs).2.2 →
    InstOK cfg (Model.pushLoop cfg i pairs).1 ∧
    (absI (Model.pushLoop cfg i pairs).1, (Model.pushLoop cfg i pairs).2.1)
      = Spec.foldPairs Spec.pushOne (absI i) pairs := by
  induction pairs with
  | nil => intro i hi _; exact ⟨hi, rfl⟩
  | cons p rest ih =>
    intro i hi hq
    simp only [Model.pushLoop] at hq ⊢
    obtain ⟨a1, a2⟩ := pushOne_sim cfg i p hi hq.left
    obtain ⟨b1, b2⟩ := ih (Model.pushOne cfg i p).1 a1 hq.right
    refine ⟨b1, ?_⟩
    simp only [Spec.foldPairs]
    rw [← a2]
    simp only
    rw [← b2]

end Hv.Data
