/-
  Refinement lemmas, part 3: increments.  Core-only proofs.
-/
import Hv.Data.KVLemmas2

namespace Hv.Data
open Content

theorem numZero_scalar (ty : NumTy) : (numZero ty).scalar = true := by cases ty <;> rfl
theorem numVal_scalar (ty : NumTy) (x : Int) : (numVal ty x).scalar = true := by cases ty <;> rfl

theorem fresh_vis : Content.fresh.vis = .none := rfl

theorem incStart_fresh (ty : NumTy) :
    Model.incStart ty ({} : MRec) =
      some ({ ({} : MRec) with c := ofVal (numZero ty), changed := true }, 0, true) := by
  have h : ({} : MRec).c = Content.fresh := rfl
  simp only [Model.incStart, h, fresh_vis, setScalar_fresh _ (numZero_scalar ty), Bool.or_true]

theorem match_val_ne_none {β : Type} (u : Val) (a : β) (f : Val → β) (hu : u ≠ .none) :
    (match u with | .none => a | v => f v) = f u := by
  cases u <;> first | (exact absurd rfl hu) | rfl

theorem incStart_void (ty : NumTy) (t0 : MRec) (hc : t0.c = ofVal .none) :
    Model.incStart ty t0 = some ({ t0 with c := ofVal (numZero ty), changed := true }, 0, true) := by
  have hne : Val.none ≠ numZero ty := by cases ty <;> simp [numZero]
  simp only [Model.incStart, hc, vis_ofVal, setScalar_ofVal _ _ (numZero_scalar ty), if_neg hne, Bool.or_true]

theorem incStart_typed (ty : NumTy) (t0 : MRec) (u : Val) (hc : t0.c = ofVal u) (hu : u ≠ .none) :
    Model.incStart ty t0 = (numOf ty u).map (fun n => (t0, n, false)) := by
  simp only [Model.incStart, hc, vis_ofVal]

theorem spec_incStart_typed (ty : NumTy) (r : Rec) (hu : r.val ≠ .none) :
    Spec.incStart ty (some r) = (numOf ty r.val).map (fun n => (n, false)) := by
  simp only [Spec.incStart]

theorem incApply_spec (ar : Arith) (now : Int) (ty : NumTy) (by_ : Int) (t1 : MRec) (cur : Int)
    (mreq : Option IncMeta) (u : Val) (hc : t1.c = ofVal u) :
    (Model.incApply ar now ty by_ t1 cur mreq).c = ofVal (numVal ty (numAdd ar ty cur by_)) ∧
    (Model.incApply ar now ty by_ t1 cur mreq).m = Spec.applyIncMeta now t1.m mreq := by
  have hc2 : (Model.applyIncMeta now t1 mreq).c = ofVal u := by
    cases mreq <;> simp [Model.applyIncMeta, hc]
  have hm2 : (Model.applyIncMeta now t1 mreq).m = Spec.applyIncMeta now t1.m mreq := by
    cases mreq <;> simp [Model.applyIncMeta, Spec.applyIncMeta]
  refine ⟨?_, ?_⟩
  · simp only [Model.incApply, hc2, setScalar_ofVal _ _ (numVal_scalar ty _)]
    by_cases h : u = numVal ty (numAdd ar ty cur by_)
    · rw [if_pos h, h]
    · rw [if_neg h]
  · simp only [Model.incApply, hm2]

theorem park_same (cfg : Cfg) (i : Inst) (k : Key) (t : MRec) (hi : InstOK cfg i)
    (hf : AL.find k i.recs = some t) : Model.park true i k t = i := by
  simp only [Model.park, if_true, AL.insert_same k t i.recs hi.srt hf]

theorem incCore_sim (cfg : Cfg) (ar : Arith) (now : Int) (i : Inst) (ty : NumTy) (k : Key) (by_ : Int)
    (cond : Option (RelOp × Int)) (ine ie : Option IncMeta) (hi : InstOK cfg i)
    (hq : Q cfg (Model.incCore cfg ar now i ty k by_ cond ine ie).tags) :
    InstOK cfg (Model.incCore cfg ar now i ty k by_ cond ine ie).i ∧
    (absI (Model.incCore cfg ar now i ty k by_ cond ine ie).i, (Model.incCore cfg ar now i ty k by_ cond ine ie).r)
      = Spec.incCore ar now (absI i) ty k by_ cond ine ie := by
  unfold Model.incCore at hq ⊢
  unfold Spec.incCore
  rw [createTreasure_eq i k hi.infl] at hq ⊢
  rw [find_absI]
  cases hf : AL.find k i.recs with
  | none =>
    have hh : AL.has k i.recs = false := by simp [AL.has, hf]
    simp only [hh, hf, Option.getD_none, Option.map_none, incStart_fresh, Spec.incStart, List.nil_append] at hq ⊢
    by_cases hcond : condHolds ar ty cond 0 = true
    · simp only [hcond, if_true] at hq ⊢
      obtain ⟨h1, h2⟩ := incApply_spec ar now ty by_ { ({} : MRec) with c := ofVal (numZero ty), changed := true } 0 ine
        (numZero ty) rfl
      have hwf : (Model.incApply ar now ty by_ { ({} : MRec) with c := ofVal (numZero ty), changed := true } 0 ine).c.WF := by
        rw [h1]; exact wf_ofVal _
      obtain ⟨s1, s2, _⟩ := save_abs cfg i k _ true hi hwf
      refine ⟨s1, ?_⟩
      rw [s2]
      simp only [MRec.abs, h1, h2, vis_ofVal]
    · simp only [hcond, Bool.false_eq_true, if_false] at hq ⊢
      cases hfc : cfg.incFailClean with
      | true =>
        simp only [if_true, Bool.false_eq_true, if_false]
        refine ⟨⟨by simp [hi.infl, AL.erase], hi.recs, hi.srt⟩, ?_⟩
        simp [absI]
      | false =>
        simp only [hfc, Bool.false_eq_true, if_false, Bool.not_false, Bool.or_true, if_true] at hq
        exact Q.absurd_tag hq (fun hg => by have := Cfg.good_incFailClean hg; rw [this] at hfc; cases hfc)
  | some told =>
    have hh : AL.has k i.recs = true := by simp [AL.has, hf]
    have htold : RecOK cfg told := hi.recs (k, told) (AL.find_mem _ _ _ hf)
    obtain ⟨u, hu⟩ := (wf_iff told.c).mp htold.wf
    have habsv : told.abs.val = u := by simp [MRec.abs, hu]
    simp only [hh, hf, Option.getD_some, Option.map_some, List.nil_append] at hq ⊢
    by_cases hun : u = .none
    · -- a key without a value starts from zero
      subst hun
      have hs : Spec.incStart ty (some told.abs) = some (0, true) := by simp [Spec.incStart, habsv]
      simp only [incStart_void ty told hu, hs] at hq ⊢
      by_cases hcond : condHolds ar ty cond 0 = true
      · simp only [hcond, if_true] at hq ⊢
        obtain ⟨h1, h2⟩ := incApply_spec ar now ty by_ { told with c := ofVal (numZero ty), changed := true } 0 ine
          (numZero ty) rfl
        have hwf : (Model.incApply ar now ty by_ { told with c := ofVal (numZero ty), changed := true } 0 ine).c.WF := by
          rw [h1]; exact wf_ofVal _
        obtain ⟨s1, s2, _⟩ := save_abs cfg i k _ true hi hwf
        refine ⟨s1, ?_⟩
        rw [s2]
        simp only [MRec.abs, h1, h2, vis_ofVal]
      · simp only [hcond, Bool.false_eq_true, if_false] at hq ⊢
        cases hfc : cfg.incFailClean with
        | true =>
          simp only [if_true]
          exact ⟨hi, rfl⟩
        | false =>
          simp only [hfc, Bool.false_eq_true, if_false] at hq
          have hne : Model.applyIncMeta now { told with c := ofVal (numZero ty), changed := true } ine ≠ told := by
            intro e
            have e1 := congrArg MRec.c e
            have e2 : (Model.applyIncMeta now { told with c := ofVal (numZero ty), changed := true } ine).c = ofVal (numZero ty) := by
              cases ine <;> simp [Model.applyIncMeta]
            rw [e2, hu] at e1
            have := ofVal_inj e1
            cases ty <;> simp [numZero] at this
          simp only [hne, ne_eq, not_false_eq_true, decide_true, Bool.true_or, if_true] at hq
          exact Q.absurd_tag hq (fun hg => by have := Cfg.good_incFailClean hg; rw [this] at hfc; cases hfc)
    · have hs := spec_incStart_typed ty told.abs (by rw [habsv]; exact hun)
      rw [habsv] at hs
      simp only [incStart_typed ty told u hu hun, hs] at hq ⊢
      cases hn : numOf ty u with
      | none =>
        rw [hn] at hq
        simp only [Option.map_none] at hq ⊢
        rw [park_same cfg i k told hi hf]
        exact ⟨hi, rfl⟩
      | some n =>
        rw [hn] at hq
        simp only [Option.map_some, Bool.false_eq_true, if_false] at hq ⊢
        by_cases hcond : condHolds ar ty cond n = true
        · simp only [hcond, if_true] at hq ⊢
          obtain ⟨h1, h2⟩ := incApply_spec ar now ty by_ told n ie u hu
          have hwf : (Model.incApply ar now ty by_ told n ie).c.WF := by rw [h1]; exact wf_ofVal _
          obtain ⟨s1, s2, _⟩ := save_abs cfg i k _ true hi hwf
          refine ⟨s1, ?_⟩
          rw [s2]
          simp only [MRec.abs, h1, h2, vis_ofVal]
        · simp only [hcond, Bool.false_eq_true, if_false] at hq ⊢
          cases hfc : cfg.incFailClean with
          | true =>
            simp only [if_true]
            exact ⟨hi, rfl⟩
          | false =>
            simp only [hfc, Bool.false_eq_true, if_false, Bool.not_true, Bool.or_false] at hq ⊢
            by_cases he : Model.applyIncMeta now told ie = told
            · rw [he, park_same cfg i k told hi hf]
              exact ⟨hi, rfl⟩
            · simp only [he, ne_eq, not_false_eq_true, decide_true, if_true] at hq
              exact Q.absurd_tag hq (fun hg => by have := Cfg.good_incFailClean hg; rw [this] at hfc; cases hfc)

end Hv.Data
