/-
  What DOES hold for value indexes on the current tree: the one shared value beacon pair is filled
  with every record and is dropped by every add and every content change (`addToValueBeacon` resets
  it), so in a swamp all of whose records have ONE content type `t`, read by value only as `t`, the
  pair — whenever it is built — holds exactly the carriers of `.value t`, sorted by `t`'s comparator.
-/
import Hv.Data.BeaconLemmas

namespace Hv.Beacon

/-- the facts of the shared, invalidated value pair -/
structure ValFacts (cfg : Cfg) : Prop where
  shared : cfg.valueShared = true
  invalidate : cfg.resortValue = .invalidate
  noGuard : cfg.addGuardValueType = false
  refresh : cfg.updRefreshValue = true

/-- the history stays inside a single-type swamp of type `t`: every Set writes content of type `t`,
    Increment only where `t` is int64, value reads (and shifts by value) ask for `t` only -/
def OpOk (t : CT) : Op → Prop
  | .set rq => rq.ct = t
  | .inc _ _ _ => t = .i64
  | .read q => ∀ t', q.slot = .value t' → t' = t
  | .shiftMatch q => ∀ t', q.slot = .value t' → t' = t
  | .patchCreate _ _ => t = .bytes
  | _ => True

def SingleInv (t : CT) (st : St) : Prop :=
  KeysNodup st.store ∧ (∀ r ∈ st.store, r.ct = t) ∧
  ((st.pairs (.value .i64)).init = true →
    ListOk (.value t) true st.store (st.pairs (.value .i64)).asc ∧
    ListOk (.value t) false st.store (st.pairs (.value .i64)).desc)

theorem singleInv_init (t : CT) : SingleInv t St.init := by
  refine ⟨by simp [St.init, KeysNodup], by intro r hr; simp [St.init] at hr, ?_⟩
  intro h; simp [St.init] at h

/-- an add to the value pair leaves it dropped (or never built) -/
theorem insertG_value_init (cfg : Cfg) (hv : ValFacts cfg) (r : Rec) (p : Pair) :
    (p.insertG cfg (.value .i64) r true).init = false := by
  unfold Pair.insertG
  cases hi : p.init
  · simp [hi]
  · simp [invalidates, hv.invalidate]

theorem addGuard_value (cfg : Cfg) (hv : ValFacts cfg) (r : Rec) : addGuard cfg (.value .i64) r = true := by
  simp [addGuard, hv.noGuard]

theorem refileGuard_value (cfg : Cfg) (hv : ValFacts cfg) (r : Rec) : refileGuard cfg (.value .i64) r = true := by
  simp [refileGuard, addGuard, hv.noGuard]

/-- `contentChanged` stays down only when type and value did not move -/
theorem value_stable (cfg : Cfg) (t : CT) (o : Rec) (rq : SetReq) (hc : (mergeRec cfg (some o) rq).contFlag = false) :
    attrEq (.value t) o (mergeRec cfg (some o) rq) := by
  simp only [mergeRec, Bool.or_eq_false_iff, Bool.and_eq_false_iff, Bool.not_eq_false',
    bne_eq_false_iff_eq] at hc
  simp only [attrEq, mergeRec]
  rcases hc.2 with hkeep | hsame
  · simp [hkeep]
  · by_cases hkeep : (rq.ct == CT.void && !cfg.setVoidClearsTyped) = true
    · simp [hkeep]
    · simp only [hkeep, Bool.false_eq_true, if_false]
      exact ⟨hsame.2.symm, hsame.1.symm⟩

theorem mergeRec_ct (cfg : Cfg) (t : CT) (o : Rec) (rq : SetReq) (ho : o.ct = t) (hr : rq.ct = t) :
    (mergeRec cfg (some o) rq).ct = t := by
  simp only [mergeRec]
  split <;> assumption

theorem singleInv_stepSet {cfg : Cfg} (hv : ValFacts cfg) {t : CT} (st : St) (rq : SetReq) (hr : rq.ct = t)
    (h : SingleInv t st) : SingleInv t (stepSet cfg st rq) := by
  obtain ⟨hs, hct, hp⟩ := h
  simp only [stepSet]
  cases hf : findKey rq.key st.store with
  | none =>
    have hfresh : ∀ x ∈ st.store, x.key ≠ (mergeRec cfg none rq).key := findKey_none hf
    refine ⟨keysNodup_append_fresh hs _ hfresh, ?_, ?_⟩
    · intro r hr'
      rcases List.mem_append.mp hr' with hr' | hr'
      · exact hct r hr'
      · simp only [List.mem_singleton] at hr'; rw [hr']; simpa [mergeRec] using hr
    · intro hi
      simp only [Pair.insert, addGuard_value cfg hv, insertG_value_init cfg hv] at hi
      cases hi
  | some o =>
    obtain ⟨ho, _⟩ := findKey_some hf
    have hoct := hct o ho
    have hnct := mergeRec_ct cfg t o rq hoct hr
    have hk : (mergeRec cfg (some o) rq).key = o.key := rfl
    refine ⟨?_, ?_, ?_⟩
    · apply keysNodup_append_fresh (keysNodup_eraseKey _ _ hs)
      intro x hx
      exact ((mem_eraseKey _ _ hs x).mp hx).2
    · intro r hr'
      rcases List.mem_append.mp hr' with hr' | hr'
      · exact hct r ((mem_eraseKey _ _ hs r).mp hr').1
      · simp only [List.mem_singleton] at hr'; rw [hr']; exact hnct
    · simp only []
      unfold Pair.update
      cases hi : (st.pairs (.value .i64)).init
      · intro h'; simp only [Bool.not_false, if_true] at h'; rw [hi] at h'; cases h'
      · simp only [Bool.not_true, Bool.false_eq_true, if_false]
        have htc : (cfg.typeChangeDetected && o.ct != (mergeRec cfg (some o) rq).ct) = false := by
          rw [hoct, hnct]; simp
        simp only [htc, Bool.false_eq_true, if_false]
        cases hc : (mergeRec cfg (some o) rq).contFlag
        · -- content untouched: the pair keeps its pointer, the value did not move
          have hrf : refreshes cfg (.value .i64) (mergeRec cfg (some o) rq) = false := by
            simp [refreshes, hc]
          simp only [hrf, Bool.false_eq_true, if_false]
          intro _
          obtain ⟨ha, hd⟩ := hp hi
          have hattr := value_stable cfg t o rq hc
          exact ⟨ha.alias hs o _ ho hk hattr, hd.alias hs o _ ho hk hattr⟩
        · have hrf : refreshes cfg (.value .i64) (mergeRec cfg (some o) rq) = true := by
            simp [refreshes, hc, hv.refresh]
          simp only [hrf, if_true, refileGuard_value cfg hv]
          intro h'
          rw [insertG_value_init cfg hv] at h'
          cases h'

theorem singleInv_stepDel {t : CT} (st : St) (k : String) (h : SingleInv t st) : SingleInv t (stepDel st k) := by
  obtain ⟨hs, hct, hp⟩ := h
  simp only [stepDel]
  cases hf : findKey k st.store with
  | none => exact ⟨hs, hct, hp⟩
  | some o =>
    simp only []
    split
    · exact singleInv_init t
    · refine ⟨keysNodup_eraseKey _ _ hs, fun r hr => hct r ((mem_eraseKey _ _ hs r).mp hr).1, ?_⟩
      intro hi
      rw [Pair.erase_init] at hi
      obtain ⟨ha, hd⟩ := hp hi
      obtain ⟨e1, e2⟩ := Pair.erase_lists k (st.pairs (.value .i64)) hi
      rw [e1, e2]
      exact ⟨ha.erase hs k, hd.erase hs k⟩

theorem singleInv_foldDel {t : CT} (ks : List String) : ∀ (st : St), SingleInv t st → SingleInv t (ks.foldl stepDel st) := by
  induction ks with
  | nil => intro st h; exact h
  | cons k rest ih => intro st h; exact ih _ (singleInv_stepDel st k h)

/-- a cold build for a request of type `t` over a single-type store -/
theorem listOk_build (cfg : Cfg) (t : CT) (store : List Rec) (hs : KeysNodup store) (hct : ∀ r ∈ store, r.ct = t) (asc : Bool) :
    sortErr (.value t) (store.filter (coldIncl cfg (.value t))) = false ∧
    ListOk (.value t) asc store (sortBy (.value t) asc (store.filter (coldIncl cfg (.value t)))) := by
  have hfilt : store.filter (coldIncl cfg (.value t)) = store.filter (carries (.value t)) := by
    apply List.filter_congr
    intro r hr
    simp [coldIncl, carries, hct r hr]
  have hcar : ∀ r ∈ store.filter (carries (.value t)), carries (.value t) r = true := fun r hr => (List.mem_filter.mp hr).2
  rw [hfilt]
  refine ⟨sortErr_carriers _ _ hcar, ?_⟩
  obtain ⟨hperm, hsrt⟩ := sortBy_carriers (.value t) asc _ hcar
  refine ⟨?_, ?_, hsrt⟩
  · have hsub : ((store.filter (carries (.value t))).map (·.key)).Nodup :=
      List.Nodup.sublist (List.Sublist.map _ List.filter_sublist) hs
    exact (hperm.map (·.key)).nodup_iff.mpr hsub
  · intro r; rw [hperm.mem_iff, List.mem_filter]

theorem singleInv_stepBuild {cfg : Cfg} (_hv : ValFacts cfg) {t : CT} (st : St) (q : Query)
    (hq : ∀ t', q.slot = .value t' → t' = t) (h : SingleInv t st) : SingleInv t (stepBuild cfg st q) := by
  obtain ⟨hs, hct, hp⟩ := h
  simp only [stepBuild]
  split
  · exact ⟨hs, hct, hp⟩
  · refine ⟨hs, hct, ?_⟩
    simp only [setPair]
    by_cases he : Slot.value CT.i64 = phys cfg q.slot
    · rw [if_pos he]
      -- a value request: it asks for `t`
      cases hsl : q.slot with
      | value t' =>
        have := hq t' hsl
        subst this
        unfold Pair.build
        cases hi : (st.pairs (phys cfg (Slot.value t'))).init
        · simp only [Bool.false_eq_true, if_false]
          obtain ⟨he1, _⟩ := listOk_build cfg t' st.store hs hct true
          simp only [he1, Bool.false_eq_true, if_false]
          intro _
          exact ⟨(listOk_build cfg t' st.store hs hct true).2, (listOk_build cfg t' st.store hs hct false).2⟩
        · simp only [if_true]
          rw [hsl] at he
          rw [← he] at hi ⊢
          exact hp
      | key => rw [hsl] at he; simp [phys] at he
      | created => rw [hsl] at he; simp [phys] at he
      | updated => rw [hsl] at he; simp [phys] at he
      | expire => rw [hsl] at he; simp [phys] at he
    · rw [if_neg he]; exact hp

theorem singleInv_stepPatch {cfg : Cfg} (hv : ValFacts cfg) {t : CT} (st : St) (k : String) (m : ExpMeta)
    (h : SingleInv t st) : SingleInv t (stepPatch cfg st k m) := by
  unfold stepPatch
  cases hf : findKey k st.store with
  | none => exact h
  | some o =>
    simp only []
    split
    · rename_i hb
      have hot : o.ct = t := h.2.1 o (findKey_some hf).1
      have : (patchReq o m).ct = t := by
        simp only [patchReq]
        rw [← hot]; exact (by simpa using hb : o.ct = CT.bytes).symm
      exact singleInv_stepSet hv st _ this h
    · exact h

theorem singleInv_foldPatch {cfg : Cfg} (hv : ValFacts cfg) {t : CT} (m : ExpMeta) (ks : List String) :
    ∀ (st : St), SingleInv t st → SingleInv t (ks.foldl (fun s k => stepPatch cfg s k m) st) := by
  induction ks with
  | nil => intro st h; exact h
  | cons k rest ih => intro st h; exact ih _ (singleInv_stepPatch hv st k m h)

/-- the invariant does not look at the expiration pair -/
theorem singleInv_setExpire {t : CT} (st : St) (p : Pair) (h : SingleInv t st) :
    SingleInv t { st with pairs := setPair st.pairs .expire p } := by
  obtain ⟨hs, hct, hp⟩ := h
  refine ⟨hs, hct, ?_⟩
  simp only [setPair]
  rw [if_neg (by simp)]
  exact hp

theorem expireAll_ok (t : CT) : ∀ t', expireAll.slot = .value t' → t' = t := by
  intro t' h; simp [expireAll] at h

theorem singleInv_step {cfg : Cfg} (hv : ValFacts cfg) {t : CT} (st : St) (op : Op) (hok : OpOk t op)
    (h : SingleInv t st) : SingleInv t (step cfg st op) := by
  cases op with
  | set rq => exact singleInv_stepSet hv st rq hok h
  | del k => exact singleInv_stepDel st k h
  | read q => exact singleInv_stepBuild hv st q hok h
  | inc k d e =>
    simp only [OpOk] at hok
    subst hok
    simp only [step, stepInc]
    split
    · exact h
    split
    · exact singleInv_stepSet hv st _ rfl h
    · split
      · exact singleInv_stepSet hv st _ rfl h
      · split
        · exact singleInv_stepSet hv st _ rfl h
        · exact h
  | reload =>
    obtain ⟨hs, hct, _⟩ := h
    refine ⟨?_, ?_, ?_⟩
    · simp only [step, stepReload, KeysNodup, List.map_map]
      exact hs
    · intro r hr
      simp only [step, stepReload, List.mem_map] at hr
      obtain ⟨r0, hr0, rfl⟩ := hr
      exact hct r0 hr0
    · intro hi; simp [step, stepReload] at hi
  | shiftExpired =>
    exact singleInv_foldDel _ _ (singleInv_stepBuild hv st expireAll (expireAll_ok t) h)
  | patch k m => exact singleInv_stepPatch hv st k m h
  | patchExpired m =>
    simp only [step, stepPatchExpired]
    split
    · exact h
    · have h1 := singleInv_stepBuild hv st expireAll (expireAll_ok t) h
      have h2 := singleInv_setExpire (stepBuild cfg st expireAll)
        (hideKeys ((shiftList cfg st).map (·.key)) ((stepBuild cfg st expireAll).pairs .expire)) h1
      have h3 := singleInv_foldPatch hv m ((shiftList cfg st).map (·.key)) _ h2
      generalize (((shiftList cfg st).map (·.key)).foldl (fun s k => stepPatch cfg s k m) _) = st3 at h3 ⊢
      split
      · exact h3
      · exact singleInv_setExpire st3 _ h3
  | shiftMatch q => exact singleInv_foldDel _ _ (singleInv_stepBuild hv st q hok h)
  | shiftKeys ks => exact singleInv_foldDel ks st h
  | patchCreate k m =>
    simp only [OpOk] at hok
    subst hok
    simp only [step, stepPatchCreate]
    split
    · exact singleInv_stepSet hv st _ rfl h
    · split
      · exact singleInv_stepSet hv st _ rfl h
      · split
        · exact singleInv_stepSet hv st _ rfl h
        · exact h

theorem singleInv_run {cfg : Cfg} (hv : ValFacts cfg) {t : CT} (h : List Op) (hok : ∀ op ∈ h, OpOk t op) :
    SingleInv t (run cfg h) := by
  unfold run
  suffices ∀ st, SingleInv t st → SingleInv t (h.foldl (step cfg) st) from this _ (singleInv_init t)
  induction h with
  | nil => intro st hst; exact hst
  | cons op ops ih =>
    intro st hst
    exact ih (fun o ho => hok o (by simp [ho])) _ (singleInv_step hv st op (hok op (by simp)) hst)

end Hv.Beacon
