/-
  Refinement lemmas: one step of `Model` simulates one step of `Spec` from a state satisfying
  `Inv`, provided either all facts are good or the step exercised no quirk mechanism (`Q`).
  Core-only proofs.
-/
import Hv.Data.KV
import Hv.Data.TreasureLemmas

namespace Hv.Data
open Content

/-- every fact has the value the Spec needs (the storage encoding and the guard release inside
    `SaveFunction` do not matter for request/response behaviour) -/
def Cfg.good (c : Cfg) : Bool :=
  c.resetsFlags && c.metaCompare && c.tsPositive && c.voidClears && c.pushChecksType &&
  c.setSliceReplaces && c.u32delReleases && c.u32delChecksType && c.incFailClean && c.noEmptyLive &&
  c.arekAllFalse && c.countMissingOk && c.setErrSingle && c.fltCondDirect

/-- hypothesis of every simulation lemma: good facts, or no quirk tag raised -/
def Q (cfg : Cfg) (tg : List Tag) : Prop := cfg.good = true ∨ tg = []

theorem Q.left {cfg : Cfg} {a b : List Tag} (h : Q cfg (a ++ b)) : Q cfg a := by
  rcases h with h | h
  · exact Or.inl h
  · exact Or.inr (List.append_eq_nil_iff.mp h).1

theorem Q.right {cfg : Cfg} {a b : List Tag} (h : Q cfg (a ++ b)) : Q cfg b := by
  rcases h with h | h
  · exact Or.inl h
  · exact Or.inr (List.append_eq_nil_iff.mp h).2

theorem Q.nil (cfg : Cfg) : Q cfg [] := Or.inr rfl

/-- under `Q`, a branch that raises a tag is only taken when the guarding fact is bad, which
    contradicts goodness; and a raised tag contradicts `tags = []` -/
theorem Q.absurd_tag {cfg : Cfg} {t : Tag} {P : Prop} (h : Q cfg [t]) (hbad : cfg.good = true → False) : P := by
  rcases h with h | h
  · exact (hbad h).elim
  · cases h

namespace Cfg
variable {c : Cfg}
theorem good_resets (h : c.good = true) : c.resetsFlags = true := by simp [good] at h; simp [h]
theorem good_metaCompare (h : c.good = true) : c.metaCompare = true := by simp [good] at h; simp [h]
theorem good_tsPositive (h : c.good = true) : c.tsPositive = true := by simp [good] at h; simp [h]
theorem good_voidClears (h : c.good = true) : c.voidClears = true := by simp [good] at h; simp [h]
theorem good_pushChecks (h : c.good = true) : c.pushChecksType = true := by simp [good] at h; simp [h]
theorem good_setSlice (h : c.good = true) : c.setSliceReplaces = true := by simp [good] at h; simp [h]
theorem good_u32delReleases (h : c.good = true) : c.u32delReleases = true := by simp [good] at h; simp [h]
theorem good_u32delChecks (h : c.good = true) : c.u32delChecksType = true := by simp [good] at h; simp [h]
theorem good_incFailClean (h : c.good = true) : c.incFailClean = true := by simp [good] at h; simp [h]
theorem good_noEmptyLive (h : c.good = true) : c.noEmptyLive = true := by simp [good] at h; simp [h]
theorem good_arek (h : c.good = true) : c.arekAllFalse = true := by simp [good] at h; simp [h]
theorem good_count (h : c.good = true) : c.countMissingOk = true := by simp [good] at h; simp [h]
theorem good_setErr (h : c.good = true) : c.setErrSingle = true := by simp [good] at h; simp [h]
theorem good_fltCond (h : c.good = true) : c.fltCondDirect = true := by simp [good] at h; simp [h]
end Cfg

/-! ### invariant -/

structure RecOK (cfg : Cfg) (t : MRec) : Prop where
  wf : t.c.WF
  clean : cfg.resetsFlags = true → t.changed = false

structure InstOK (cfg : Cfg) (i : Inst) : Prop where
  infl : i.inflight = []
  recs : ∀ p, p ∈ i.recs → RecOK cfg p.2
  srt : AL.Sorted i.recs

/-- states reachable without a close: not hung, nothing on disk that the live instance does not
    hold, no empty live instance -/
structure Inv (cfg : Cfg) (s : State) : Prop where
  alive : s.dead = false
  nofile : s.file = none
  live : ∀ i, s.live = some i → InstOK cfg i ∧ i.recs ≠ []

def absI (i : Inst) : Spec.Store := AL.mapV MRec.abs i.recs

/-! ### association-list facts used below -/

theorem AL.find_mem {α : Type} (k : String) (v : α) (l : List (String × α)) (h : AL.find k l = some v) :
    (k, v) ∈ l := by
  induction l with
  | nil => simp [AL.find] at h
  | cons p t ih =>
    obtain ⟨k', v'⟩ := p
    simp only [AL.find] at h
    by_cases hk : k = k'
    · simp [hk] at h; subst hk; subst h; simp
    · simp [hk] at h; exact List.mem_cons_of_mem _ (ih h)

theorem AL.mem_insert {α : Type} (k : String) (v : α) (l : List (String × α)) (p : String × α)
    (h : p ∈ AL.insert k v l) : p = (k, v) ∨ p ∈ l := by
  induction l with
  | nil => simp [AL.insert] at h; exact Or.inl h
  | cons q t ih =>
    obtain ⟨k', v'⟩ := q
    simp only [AL.insert] at h
    by_cases hk : k = k'
    · simp [hk] at h
      rcases h with h | h
      · exact Or.inl (by rw [h, hk])
      · exact Or.inr (List.mem_cons_of_mem _ h)
    · by_cases h2 : k < k'
      · simp [hk, h2] at h
        rcases h with h | h | h
        · exact Or.inl h
        · exact Or.inr (by rw [h]; simp)
        · exact Or.inr (List.mem_cons_of_mem _ h)
      · simp [hk, h2] at h
        rcases h with h | h
        · exact Or.inr (by rw [h]; simp)
        · rcases ih h with h | h
          · exact Or.inl h
          · exact Or.inr (List.mem_cons_of_mem _ h)

theorem AL.mem_erase {α : Type} (k : String) (l : List (String × α)) (p : String × α)
    (h : p ∈ AL.erase k l) : p ∈ l := by
  simp only [AL.erase, List.mem_filter] at h
  exact h.1

theorem AL.insert_ne_nil {α : Type} (k : String) (v : α) (l : List (String × α)) : AL.insert k v l ≠ [] := by
  cases l with
  | nil => simp [AL.insert]
  | cons p t =>
    obtain ⟨k', v'⟩ := p
    simp only [AL.insert]
    by_cases hk : k = k'
    · simp [hk]
    · by_cases h2 : k < k' <;> simp [hk, h2]

theorem AL.erase_insert {α : Type} (k : String) (v : α) (l : List (String × α)) :
    AL.erase k (AL.insert k v l) = AL.erase k l := by
  induction l with
  | nil => simp [AL.insert, AL.erase]
  | cons p t ih =>
    obtain ⟨k', v'⟩ := p
    simp only [AL.insert]
    by_cases hk : k = k'
    · subst hk; simp [AL.erase, List.filter]
    · by_cases h2 : k < k'
      · simp [hk, h2, AL.erase, List.filter]
      · have hk' : (k' == k) = false := by simp; exact fun e => hk e.symm
        simp only [hk, h2, if_false, AL.erase, List.filter, hk', Bool.not_false] at ih ⊢
        rw [ih]

theorem AL.has_eq_find {α : Type} (k : String) (l : List (String × α)) :
    AL.has k l = (AL.find k l).isSome := rfl

theorem AL.isEmpty_mapV {α β : Type} (f : α → β) (l : List (String × α)) :
    (AL.mapV f l).isEmpty = l.isEmpty := by
  cases l <;> simp [AL.mapV]

theorem AL.find_nil_of_isEmpty {α : Type} (k : String) (l : List (String × α)) (h : l.isEmpty = true) :
    AL.find k l = none := by
  cases l with
  | nil => rfl
  | cons _ _ => simp at h

/-! ### timestamps -/

theorem validTs_eq (cfg : Cfg) (n : Int)
    (h : cfg.tsPositive = true ∨ ¬ (Model.validTs cfg n = true ∧ n ≤ 0)) :
    Model.validTs cfg n = decide (n > 0) := by
  unfold Model.validTs at *
  cases hp : cfg.tsPositive with
  | true => simp
  | false =>
    simp only [hp, Bool.false_eq_true, if_false, false_or] at h ⊢
    by_cases hn : n > 0
    · have : n / 1000000000 > 0 ∨ n % 1000000000 > 0 := by omega
      rcases this with h1 | h1 <;> simp [h1, hn]
    · have hle : n ≤ 0 := by omega
      have h' := h
      simp only [hle, and_true] at h'
      simp only [hn, decide_false]
      cases hv : (decide (n / 1000000000 > 0) || decide (n % 1000000000 > 0)) with
      | false => rfl
      | true => exact absurd hv h'

theorem tsTags_spec (cfg : Cfg) (it : Item)
    (hq : Q cfg (Model.tsTags it (Model.validTs cfg it.ca) (Model.validTs cfg it.ua) (Model.validTs cfg it.exp))) :
    Model.validTs cfg it.ca = decide (it.ca > 0) ∧ Model.validTs cfg it.ua = decide (it.ua > 0) ∧
    Model.validTs cfg it.exp = decide (it.exp > 0) := by
  rcases hq with hg | ht
  · have := Cfg.good_tsPositive hg
    exact ⟨validTs_eq _ _ (Or.inl this), validTs_eq _ _ (Or.inl this), validTs_eq _ _ (Or.inl this)⟩
  · unfold Model.tsTags at ht
    split at ht
    · cases ht
    · rename_i hc
      simp only [Bool.or_eq_true, Bool.and_eq_true, decide_eq_true_eq, not_or, not_and] at hc
      obtain ⟨⟨h1, h2⟩, h3⟩ := hc
      refine ⟨validTs_eq _ _ (Or.inr ?_), validTs_eq _ _ (Or.inr ?_), validTs_eq _ _ (Or.inr ?_)⟩
      · intro ⟨a, b⟩; exact h1 a b
      · intro ⟨a, b⟩; exact h2 a b
      · intro ⟨a, b⟩; exact h3 a b

theorem itemMeta_not_supplied (sCa sUa sEx : Bool) (m : Meta) (it : Item)
    (h : Model.itemSupplied sCa sUa sEx it = false) : itemMeta sCa sUa sEx m it = m := by
  simp only [Model.itemSupplied, Bool.or_eq_false_iff, bne_eq_false_iff_eq] at h
  obtain ⟨⟨⟨⟨h1, h2⟩, h3⟩, h4⟩, h5⟩ := h
  simp [itemMeta, h1, h2, h3, h4, h5]

/-! ### the value switch of `keyValuesToTreasure` -/

theorem setValue_of_scalar (scfg : SetterCfg) (c : Content) (v : Val) (hv : v.scalar = true) :
    setValue scfg c v = setScalar c v := by
  cases v <;> simp [Val.scalar] at hv <;> rfl

theorem dedupVal_of_scalar (v : Val) (hv : v.scalar = true) : dedupVal v = v := by
  cases v <;> simp [Val.scalar] at hv <;> rfl

theorem not_wf_fresh : ¬ Content.fresh.WF := fun h => fresh_ne_ofVal _ h

theorem setValue_sim (cfg : Cfg) (c : Content) (nv : Val)
    (hc : c = Content.fresh ∨ c.WF)
    (hq : Q cfg (Model.valueTags c nv (setValue cfg.setters c nv))) :
    (setValue cfg.setters c nv).c = ofVal (dedupVal nv) ∧
    (c.WF → ((setValue cfg.setters c nv).changed = true ↔ (setValue cfg.setters c nv).c ≠ c)) := by
  by_cases hs : nv.scalar = true
  · -- SetContentX
    rw [setValue_of_scalar _ _ _ hs, dedupVal_of_scalar _ hs]
    rcases hc with hc | hc
    · subst hc
      rw [setScalar_fresh _ hs]
      exact ⟨rfl, fun h => absurd h not_wf_fresh⟩
    · obtain ⟨u, rfl⟩ := (wf_iff c).mp hc
      rw [setScalar_ofVal _ _ hs]
      by_cases hu : u = nv
      · rw [if_pos hu]; subst hu; simp
      · rw [if_neg hu]
        exact ⟨rfl, fun _ => ⟨fun _ e => hu (ofVal_inj e).symm, fun _ => rfl⟩⟩
  · cases nv with
    | none =>
      -- SetContentVoid
      simp only [setValue, dedupVal]
      rcases hc with hc | hc
      · subst hc
        rw [setVoid_fresh]
        exact ⟨rfl, fun h => absurd h not_wf_fresh⟩
      · obtain ⟨u, rfl⟩ := (wf_iff c).mp hc
        simp only [setValue, Model.valueTags, setVoid_ofVal] at hq
        rw [setVoid_ofVal]
        by_cases hu : u = .none
        · rw [if_pos hu]; subst hu; simp
        · rw [if_neg hu]
          simp only [hu, if_false] at hq
          cases hv : cfg.setters.voidClears with
          | true =>
            rw [if_pos rfl]
            exact ⟨rfl, fun _ => ⟨fun _ e => hu (ofVal_inj e).symm, fun _ => rfl⟩⟩
          | false =>
            simp only [hv, Bool.false_eq_true, if_false, vis_ofVal] at hq
            have hne : (u != Val.none) = true := by simp [hu]
            simp only [hne, if_true] at hq
            exact Q.absurd_tag hq (fun hg => by
              have := Cfg.good_voidClears hg
              simp [Cfg.setters] at hv; rw [this] at hv; cases hv)
    | u32s l =>
      simp only [setValue, dedupVal]
      cases hr : cfg.setters.setSliceReplaces with
      | true =>
        simp only [if_true]
        refine ⟨by simp [ofVal], fun _ => ?_⟩
        simp only [decide_eq_true_eq]
        exact ⟨fun h e => h e.symm, fun h e => h e.symm⟩
      | false =>
        simp only [Bool.false_eq_true, if_false]
        simp only [setValue, hr, Bool.false_eq_true, if_false, Model.valueTags] at hq
        have hbad : cfg.good = true → False := fun hg => by
          have := Cfg.good_setSlice hg
          simp [Cfg.setters] at hr; rw [this] at hr; cases hr
        rcases hc with hc | hc
        · subst hc
          rw [pushRaw_fresh]
          exact ⟨rfl, fun h => absurd h not_wf_fresh⟩
        · obtain ⟨u, rfl⟩ := (wf_iff c).mp hc
          cases u with
          | u32s l0 =>
            rw [pushRaw_slice] at hq ⊢
            simp only [vis_ofVal] at hq
            by_cases he : pushU32 l0 l = pushU32 [] l
            · rw [he]
              refine ⟨rfl, fun _ => ?_⟩
              simp only [decide_eq_true_eq]
              rw [← he]
              exact ⟨fun h e => h (by have := ofVal_inj e; simpa using this),
                     fun h e => h (by rw [e])⟩
            · have : (Val.u32s (pushU32 l0 l) != Val.u32s (pushU32 [] l)) = true := by simp [he]
              simp only [this, if_true, Val.isSlice] at hq
              exact Q.absurd_tag hq hbad
          | none =>
            have hv := pushRaw_vis_void l
            rw [hv] at hq
            simp only [vis_ofVal, Val.isSlice] at hq
            have : (Val.none != Val.u32s (pushU32 [] l)) = true := by simp
            simp only [this, if_true] at hq
            exact Q.absurd_tag hq hbad
          | int t n =>
            have hv := pushRaw_vis_nonslice (.int t n) l (by simp) (by simp)
            rw [hv] at hq; simp only [vis_ofVal, Val.isSlice] at hq
            have : (Val.int t n != Val.u32s (pushU32 [] l)) = true := by simp
            simp only [this, if_true] at hq
            exact Q.absurd_tag hq hbad
          | flt t n =>
            have hv := pushRaw_vis_nonslice (.flt t n) l (by simp) (by simp)
            rw [hv] at hq; simp only [vis_ofVal, Val.isSlice] at hq
            have : (Val.flt t n != Val.u32s (pushU32 [] l)) = true := by simp
            simp only [this, if_true] at hq
            exact Q.absurd_tag hq hbad
          | str h =>
            have hv := pushRaw_vis_nonslice (.str h) l (by simp) (by simp)
            rw [hv] at hq; simp only [vis_ofVal, Val.isSlice] at hq
            have : (Val.str h != Val.u32s (pushU32 [] l)) = true := by simp
            simp only [this, if_true] at hq
            exact Q.absurd_tag hq hbad
          | bool b =>
            have hv := pushRaw_vis_nonslice (.bool b) l (by simp) (by simp)
            rw [hv] at hq; simp only [vis_ofVal, Val.isSlice] at hq
            have : (Val.bool b != Val.u32s (pushU32 [] l)) = true := by simp
            simp only [this, if_true] at hq
            exact Q.absurd_tag hq hbad
          | bytes h =>
            have hv := pushRaw_vis_nonslice (.bytes h) l (by simp) (by simp)
            rw [hv] at hq; simp only [vis_ofVal, Val.isSlice] at hq
            have : (Val.bytes h != Val.u32s (pushU32 [] l)) = true := by simp
            simp only [this, if_true] at hq
            exact Q.absurd_tag hq hbad
    | int t n => simp [Val.scalar] at hs
    | flt t n => simp [Val.scalar] at hs
    | str h => simp [Val.scalar] at hs
    | bool b => simp [Val.scalar] at hs
    | bytes h => simp [Val.scalar] at hs

/-! ### `keyValuesToTreasure` against `Spec.applyItem` -/

theorem metaFlag_false (cfg : Cfg) (m' m : Meta) (sup : Bool)
    (h : (Model.metaFlag cfg (decide (m' ≠ m)) && sup) = false) (hns : sup = false → m' = m) :
    m' = m ∧ (cfg.metaCompare = true ∨ sup = false) := by
  cases sup with
  | false => exact ⟨hns rfl, Or.inr rfl⟩
  | true =>
    simp only [Bool.and_true] at h
    unfold Model.metaFlag at h
    cases hm : cfg.metaCompare with
    | false => simp [hm] at h
    | true =>
      simp only [hm, if_true, decide_eq_false_iff_not, Decidable.not_not] at h
      exact ⟨h, Or.inl rfl⟩

theorem abs_eq_iff (t t' : MRec) (h : t.c.WF) (h' : t'.c.WF) :
    t'.abs = t.abs ↔ t'.c = t.c ∧ t'.m = t.m := by
  constructor
  · intro e
    have e1 : t'.c.vis = t.c.vis := congrArg Rec.val e
    have e2 : t'.m = t.m := congrArg Rec.m e
    refine ⟨?_, e2⟩
    rw [h', h, e1]
  · rintro ⟨e1, e2⟩
    simp [MRec.abs, e1, e2]

theorem applyItem_sim (cfg : Cfg) (old : Option MRec) (it : Item)
    (hold : ∀ t, old = some t → t.c.WF)
    (hq : Q cfg (Model.applyItem cfg (old.getD {}) it).2.2) :
    (Model.applyItem cfg (old.getD {}) it).1.abs = Spec.applyItem (old.map MRec.abs) it ∧
    (Model.applyItem cfg (old.getD {}) it).1.c.WF ∧
    (Model.applyItem cfg (old.getD {}) it).1.changed
        = ((old.getD {}).changed || (Model.applyItem cfg (old.getD {}) it).2.1) ∧
    (∀ t, old = some t →
       ((Model.applyItem cfg t it).2.1 = true ↔ (Model.applyItem cfg t it).1.abs ≠ t.abs) ∧
       ((Model.applyItem cfg t it).2.1 = false → (Model.applyItem cfg t it).1 = t)) := by
  have hc : (old.getD {}).c = Content.fresh ∨ (old.getD {}).c.WF := by
    cases old with
    | none => exact Or.inl rfl
    | some t => exact Or.inr (hold t rfl)
  simp only [Model.applyItem] at hq
  have hqv := hq.left.left
  have hqt := hq.left.right
  have hqm := hq.right
  obtain ⟨hca, hua, hex⟩ := tsTags_spec cfg it hqt
  obtain ⟨hval, hchg⟩ := setValue_sim cfg (old.getD {}).c (normVal it.val) hc hqv
  have hmeta : (old.getD {}).m = ((old.map MRec.abs).getD {}).m := by
    cases old <;> rfl
  refine ⟨?_, ?_, ?_, ?_⟩
  · simp only [Model.applyItem, MRec.abs, Spec.applyItem, hval, vis_ofVal, hca, hua, hex, hmeta]
  · simp only [Model.applyItem, hval]; exact wf_ofVal _
  · simp only [Model.applyItem]
  · intro t ht
    subst ht
    simp only [Option.getD_some] at hval hchg hqm
    have hwf : t.c.WF := hold t rfl
    have hchg' := hchg hwf
    have hwf' : (setValue cfg.setters t.c (normVal it.val)).c.WF := by rw [hval]; exact wf_ofVal _
    -- abbreviations
    have hns : Model.itemSupplied (Model.validTs cfg it.ca) (Model.validTs cfg it.ua) (Model.validTs cfg it.exp) it = false →
        itemMeta (Model.validTs cfg it.ca) (Model.validTs cfg it.ua) (Model.validTs cfg it.exp) t.m it = t.m :=
      itemMeta_not_supplied _ _ _ _ _
    have key : (Model.applyItem cfg t it).2.1 = false → (Model.applyItem cfg t it).1 = t := by
      intro hr
      simp only [Model.applyItem, Bool.or_eq_false_iff] at hr
      obtain ⟨hr1, hr2⟩ := hr
      obtain ⟨hm, hcmp⟩ := metaFlag_false cfg _ _ _ hr2 hns
      have hcc : (setValue cfg.setters t.c (normVal it.val)).c = t.c := by
        cases hd : decide ((setValue cfg.setters t.c (normVal it.val)).c = t.c) with
        | true => exact of_decide_eq_true hd
        | false =>
          have hne := of_decide_eq_false hd
          have := hchg'.mpr hne
          rw [hr1] at this; cases this
      have hexp : (Model.validTs cfg it.exp && Model.metaFlag cfg (decide (it.exp ≠ t.m.exp))) = false := by
        cases hsx : Model.validTs cfg it.exp with
        | false => rfl
        | true =>
          rcases hcmp with hcmp | hcmp
          · have he : it.exp = t.m.exp := by
              have := congrArg Meta.exp hm
              simpa [itemMeta, hsx] using this
            simp [Model.metaFlag, hcmp, he]
          · simp [Model.itemSupplied, hsx] at hcmp
      simp only [Model.applyItem]
      rw [hr2, hexp, hr1, hcc, hm]
      cases t; simp
    refine ⟨⟨?_, ?_⟩, key⟩
    · -- a raised flag means the record really differs
      intro hr heq
      have hwfA : (Model.applyItem cfg t it).1.c.WF := by simp only [Model.applyItem]; exact hwf'
      obtain ⟨e1, e2⟩ := (abs_eq_iff t _ hwf hwfA).mp heq
      simp only [Model.applyItem] at e1 e2 hr
      have hsc : (setValue cfg.setters t.c (normVal it.val)).changed = false := by
        cases hd : (setValue cfg.setters t.c (normVal it.val)).changed with
        | false => rfl
        | true => exact absurd e1 (hchg'.mp hd)
      simp only [hsc, Bool.false_or] at hr
      simp only [hsc, Bool.not_false, Bool.and_true, e2, decide_true] at hqm
      rw [e2] at hr
      simp only [ne_eq, not_true_eq_false, decide_false] at hr hqm
      rw [hr] at hqm
      simp only [if_true] at hqm
      refine Q.absurd_tag hqm (fun hg => ?_)
      have := Cfg.good_metaCompare hg
      simp [Model.metaFlag, this] at hr
    · intro hne
      cases hr : (Model.applyItem cfg t it).2.1 with
      | true => rfl
      | false => exact absurd (by rw [key hr]) hne

/-! ### `SaveFunction` -/

theorem absI_insert (i : Inst) (k : Key) (t : MRec) :
    AL.mapV MRec.abs (AL.insert k t i.recs) = AL.insert k t.abs (absI i) := by
  rw [absI, AL.insert_mapV]

theorem cleared_abs (cfg : Cfg) (t : MRec) :
    (if cfg.resetsFlags then { t with changed := false, expChanged := false } else t).abs = t.abs := by
  cases cfg.resetsFlags <;> rfl

theorem cleared_ok (cfg : Cfg) (t : MRec) (hwf : t.c.WF) (hch : cfg.resetsFlags = false → True) :
    RecOK cfg (if cfg.resetsFlags then { t with changed := false, expChanged := false } else t) := by
  cases h : cfg.resetsFlags with
  | true => exact ⟨hwf, fun _ => rfl⟩
  | false => exact ⟨hwf, fun e => by rw [h] at e; cases e⟩

theorem instOK_insert (cfg : Cfg) (i : Inst) (k : Key) (t : MRec) (hi : InstOK cfg i) (ht : RecOK cfg t)
    (i' : Inst) (hr : i'.recs = AL.insert k t i.recs) (hf : i'.inflight = []) : InstOK cfg i' := by
  refine ⟨hf, fun p hp => ?_, by rw [hr]; exact AL.sorted_insert _ _ _ hi.srt⟩
  rw [hr] at hp
  rcases AL.mem_insert k t i.recs p hp with h | h
  · rw [h]; exact ht
  · exact hi.recs p h

theorem save_new (cfg : Cfg) (i : Inst) (k : Key) (t : MRec) (raised : Bool)
    (hi : InstOK cfg i) (hwf : t.c.WF) (hf : AL.find k i.recs = none) :
    InstOK cfg (Model.save cfg i k t raised).1 ∧
    absI (Model.save cfg i k t raised).1 = AL.insert k t.abs (absI i) ∧
    (Model.save cfg i k t raised).2.1 = .new ∧ (Model.save cfg i k t raised).1.recs ≠ [] := by
  simp only [Model.save, hf]
  refine ⟨?_, ?_, by first | rfl | trivial, AL.insert_ne_nil _ _ _⟩
  · exact instOK_insert cfg i k _ hi (cleared_ok cfg t hwf (fun _ => trivial)) _ rfl (by simp [hi.infl, AL.erase])
  · simp only [absI]; rw [← AL.insert_mapV, cleared_abs]

theorem save_old (cfg : Cfg) (i : Inst) (k : Key) (t told : MRec) (raised : Bool)
    (hi : InstOK cfg i) (hwf : t.c.WF) (hf : AL.find k i.recs = some told)
    (hch : t.changed = (told.changed || raised))
    (hiff : raised = true ↔ t.abs ≠ told.abs) (hsame : raised = false → t = told)
    (hq : Q cfg (Model.save cfg i k t raised).2.2) :
    InstOK cfg (Model.save cfg i k t raised).1 ∧
    (if t.abs = told.abs then
       absI (Model.save cfg i k t raised).1 = absI i ∧ (Model.save cfg i k t raised).2.1 = .same
     else
       absI (Model.save cfg i k t raised).1 = AL.insert k t.abs (absI i) ∧ (Model.save cfg i k t raised).2.1 = .upd) ∧
    ((Model.save cfg i k t raised).1.recs = [] → i.recs = []) := by
  have htold : RecOK cfg told := hi.recs (k, told) (AL.find_mem k told i.recs hf)
  simp only [Model.save, hf] at hq ⊢
  cases hc : t.changed with
  | true =>
    simp only [hc, if_true] at hq ⊢
    have hr : raised = true := by
      cases hrz : raised with
      | true => rfl
      | false =>
        rw [hrz] at hq
        simp only [Bool.false_eq_true, if_false] at hq
        refine Q.absurd_tag hq (fun hg => ?_)
        have := htold.clean (Cfg.good_resets hg)
        rw [hc, this, hrz] at hch; cases hch
    have hne : t.abs ≠ told.abs := hiff.mp hr
    rw [if_neg hne]
    refine ⟨?_, ⟨?_, by first | rfl | trivial⟩, fun h => absurd h (AL.insert_ne_nil _ _ _)⟩
    · exact instOK_insert cfg i k _ hi (cleared_ok cfg t hwf (fun _ => trivial)) _ rfl hi.infl
    · simp only [absI]; rw [← AL.insert_mapV, cleared_abs]
  | false =>
    simp only [hc, Bool.false_eq_true, if_false] at hq ⊢
    have hr : raised = false := by
      cases hrz : raised with
      | false => rfl
      | true => rw [hc, hrz] at hch; simp at hch
    have heq : t = told := hsame hr
    subst heq
    simp only [if_true]
    exact ⟨hi, ⟨by first | rfl | trivial, by first | rfl | trivial⟩, fun h => h⟩

theorem createTreasure_eq (i : Inst) (k : Key) (hinfl : i.inflight = []) :
    Model.createTreasure i k = ((AL.find k i.recs).getD {}, []) := by
  unfold Model.createTreasure
  cases h : AL.find k i.recs with
  | some t => rfl
  | none => simp [hinfl, AL.find]

/-! ### `Set` -/

theorem find_absI (i : Inst) (k : Key) : AL.find k (absI i) = (AL.find k i.recs).map MRec.abs := by
  simp [absI, AL.find_mapV]

theorem has_absI (i : Inst) (k : Key) : AL.has k (absI i) = AL.has k i.recs := by
  simp [absI, AL.has_mapV]

theorem setOne_sim (cfg : Cfg) (create over : Bool) (i : Inst) (it : Item) (hi : InstOK cfg i)
    (hq : Q cfg (Model.setOne cfg create over i it).2.2) :
    InstOK cfg (Model.setOne cfg create over i it).1 ∧
    (absI (Model.setOne cfg create over i it).1, (Model.setOne cfg create over i it).2.1)
      = Spec.setOne create over (absI i) it ∧
    ((Model.setOne cfg create over i it).1.recs = [] → i.recs = []) := by
  unfold Model.setOne at hq ⊢
  unfold Spec.setOne
  rw [find_absI]
  cases hf : AL.find it.key i.recs with
  | none =>
    have hh : AL.has it.key i.recs = false := by simp [AL.has, hf]
    simp only [hh, Bool.not_false, Bool.and_true, Option.map_none] at hq ⊢
    cases create with
    | false => simp; exact hi
    | true =>
      simp only [Bool.not_true, Bool.false_eq_true, if_false, Bool.and_false] at hq ⊢
      rw [createTreasure_eq i it.key hi.infl, hf] at hq ⊢
      simp only [Option.getD_none] at hq ⊢
      have hq1 : Q cfg (Model.applyItem cfg ({} : MRec) it).2.2 := hq.left.right
      obtain ⟨ha, hw, _, _⟩ := applyItem_sim cfg none it (fun t h => by cases h) hq1
      simp only [Option.getD_none, Option.map_none] at ha hw
      obtain ⟨s1, s2, s3, s4⟩ := save_new cfg i it.key (Model.applyItem cfg {} it).1 (Model.applyItem cfg {} it).2.1 hi hw hf
      refine ⟨s1, ?_, fun h => absurd h s4⟩
      rw [s2, s3, ha]; simp
  | some told =>
    have hh : AL.has it.key i.recs = true := by simp [AL.has, hf]
    simp only [hh, Bool.not_true, Bool.and_false, Bool.false_eq_true, if_false, Bool.and_true, Option.map_some] at hq ⊢
    cases over with
    | false => simp; exact hi
    | true =>
      simp only [Bool.not_true, Bool.false_eq_true, if_false] at hq ⊢
      rw [createTreasure_eq i it.key hi.infl, hf] at hq ⊢
      simp only [Option.getD_some] at hq ⊢
      have hq1 : Q cfg (Model.applyItem cfg told it).2.2 := hq.left.right
      have hq2 := hq.right
      have htold : RecOK cfg told := hi.recs (it.key, told) (AL.find_mem _ _ _ hf)
      obtain ⟨ha, hw, hc, h4⟩ := applyItem_sim cfg (some told) it (fun t h => by cases h; exact htold.wf) hq1
      simp only [Option.getD_some, Option.map_some] at ha hw hc
      obtain ⟨hiff, hsame⟩ := h4 told rfl
      obtain ⟨s1, s2, s3⟩ := save_old cfg i it.key (Model.applyItem cfg told it).1 told
        (Model.applyItem cfg told it).2.1 hi hw hf hc hiff hsame hq2
      refine ⟨s1, ?_, s3⟩
      rw [← ha]
      by_cases he : (Model.applyItem cfg told it).1.abs = told.abs
      · rw [if_pos he] at s2; rw [if_pos he, s2.1, s2.2]
      · rw [if_neg he] at s2; rw [if_neg he, s2.1, s2.2]

theorem setLoop_sim (cfg : Cfg) (create over : Bool) (items : List Item) :
    ∀ (i : Inst), InstOK cfg i → Q cfg (Model.setLoop cfg create over i items).2.2 →
    InstOK cfg (Model.setLoop cfg create over i items).1 ∧
    (absI (Model.setLoop cfg create over i items).1, (Model.setLoop cfg create over i items).2.1)
      = Spec.setAll create over (absI i) items ∧
    ((Model.setLoop cfg create over i items).1.recs = [] → i.recs = []) := by
  induction items with
  | nil => intro i hi _; exact ⟨hi, rfl, fun h => h⟩
  | cons it rest ih =>
    intro i hi hq
    simp only [Model.setLoop] at hq ⊢
    obtain ⟨a1, a2, a3⟩ := setOne_sim cfg create over i it hi hq.left
    obtain ⟨b1, b2, b3⟩ := ih (Model.setOne cfg create over i it).1 a1 hq.right
    refine ⟨b1, ?_, fun h => a3 (b3 h)⟩
    simp only [Spec.setAll]
    rw [← a2]
    simp only
    rw [← b2]

end Hv.Data
