/-
  Refinement lemmas, part 5: `Uint32SliceDelete`.  Core-only proofs.
-/
import Hv.Data.KVLemmas4

namespace Hv.Data
open Content

namespace Model.DelOut
def hung : DelOut → Bool
  | .hang _ => true
  | _ => false
def inst? : DelOut → Option Inst
  | .cont i _ _ => some i
  | _ => none
def err : DelOut → Bool
  | .cont _ e _ => e
  | _ => false
end Model.DelOut

/-- Spec view of "the instance that is left" (none = destroyed) -/
def absO : Option Inst → Spec.Store
  | some i => absI i
  | none => []

theorem spec_u32del_nil (p : Key × List Nat) : Spec.u32delOne [] p = ([], false) := by
  simp [Spec.u32delOne, AL.find]

theorem spec_fold_u32del_nil (pairs : List (Key × List Nat)) :
    Spec.foldPairs Spec.u32delOne [] pairs = ([], false) := by
  induction pairs with
  | nil => rfl
  | cons p rest ih => simp [Spec.foldPairs, spec_u32del_nil, ih]

theorem Q.last {cfg : Cfg} {a : List Tag} {t : Tag} (h : Q cfg (a ++ [t])) : cfg.good = true := by
  rcases h with h | h
  · exact h
  · simp at h

theorem absI_nil_of_recs (i : Inst) (h : i.recs.isEmpty = true) : absI i = [] := by
  cases hr : i.recs with
  | nil => simp [absI, hr, AL.mapV]
  | cons _ _ => rw [hr] at h; simp at h

/-- the tail of a pair, for a record that IS a slice -/
theorem u32delFinish_slice (cfg : Cfg) (kind : Kind) (k : Key) (sv : Inst × St × List Tag) (empty : Bool)
    (hs : InstOK cfg sv.1) (hq : Q cfg (Model.u32delFinish cfg kind k true sv [] empty).tags) :
    (Model.u32delFinish cfg kind k true sv [] empty).hung = false ∧
    (∀ i', (Model.u32delFinish cfg kind k true sv [] empty).inst? = some i' → InstOK cfg i') ∧
    (Model.u32delFinish cfg kind k true sv [] empty).err = false ∧
    absO (Model.u32delFinish cfg kind k true sv [] empty).inst?
      = (if empty then AL.erase k (absI sv.1) else absI sv.1) := by
  unfold Model.u32delFinish at hq ⊢
  cases empty with
  | false =>
    simp only [Bool.false_eq_true, if_false]
    refine ⟨rfl, fun i' h => ?_, rfl, rfl⟩
    simp only [Model.DelOut.inst?, Option.some.injEq] at h
    rw [← h]; exact hs
  | true =>
    simp only [if_true, List.nil_append, List.append_nil] at hq ⊢
    by_cases hrel : (cfg.u32delReleases || (cfg.saveReleasesImmediate && kind == Kind.p0 && sv.2.1 != St.same)) = true
    · simp only [hrel, Bool.not_true, Bool.false_eq_true, if_false] at hq ⊢
      by_cases hemp : (Model.deleteRec sv.1 k).recs.isEmpty = true
      · simp only [hemp, if_true]
        refine ⟨rfl, fun i' h => ?_, rfl, ?_⟩
        · simp [Model.DelOut.inst?] at h
        · simp only [Model.DelOut.inst?, absO]
          rw [← absI_deleteRec, absI_nil_of_recs _ hemp]
      · simp only [hemp, Bool.false_eq_true, if_false]
        refine ⟨rfl, fun i' h => ?_, rfl, ?_⟩
        · simp only [Model.DelOut.inst?, Option.some.injEq] at h
          rw [← h]; exact instOK_deleteRec cfg _ k hs
        · simp only [Model.DelOut.inst?, absO]; exact absI_deleteRec _ _
    · simp only [hrel, Bool.not_false, if_true] at hq ⊢
      have hg := Q.last hq
      have := Cfg.good_u32delReleases hg
      simp [this] at hrel

/-- the tail of a pair, for a record that is NOT a slice: only reachable with bad facts -/
theorem u32delFinish_nonslice (cfg : Cfg) (kind : Kind) (k : Key) (sv : Inst × St × List Tag) (tgH : List Tag)
    (hck : cfg.u32delChecksType = false)
    (hq : Q cfg (Model.u32delFinish cfg kind k false sv tgH true).tags) : False := by
  have hbad : cfg.good = true → False := fun hg => by
    have := Cfg.good_u32delChecks hg; rw [this] at hck; cases hck
  unfold Model.u32delFinish at hq
  simp only [if_true, Bool.false_eq_true, if_false] at hq
  split at hq
  · exact hbad (Q.last hq)
  · split at hq
    · exact Q.absurd_tag hq.right hbad
    · exact Q.absurd_tag hq.right hbad

theorem val_isSlice_cases (u : Val) : (∃ l, u = .u32s l) ∨ u.isSlice = false := by
  cases u <;> simp [Val.isSlice]

theorem ofVal_slice_none (u : Val) (h : u.isSlice = false) : (ofVal u).slice = none := by
  cases u <;> simp [Val.isSlice, ofVal] at h ⊢

theorem ofVal_u32s_slice (l : List Nat) : (ofVal (.u32s l)).slice = some l := rfl

theorem u32delOne_sim (cfg : Cfg) (kind : Kind) (i : Inst) (p : Key × List Nat) (hi : InstOK cfg i)
    (hq : Q cfg (Model.u32delOne cfg kind i p).tags) :
    (Model.u32delOne cfg kind i p).hung = false ∧
    (∀ i', (Model.u32delOne cfg kind i p).inst? = some i' → InstOK cfg i') ∧
    (absO (Model.u32delOne cfg kind i p).inst?, (Model.u32delOne cfg kind i p).err)
      = Spec.u32delOne (absI i) p := by
  unfold Model.u32delOne at hq ⊢
  unfold Spec.u32delOne
  rw [find_absI]
  cases hf : AL.find p.1 i.recs with
  | none =>
    simp only [Option.map_none]
    refine ⟨rfl, fun i' h => ?_, rfl⟩
    simp only [Model.DelOut.inst?, Option.some.injEq] at h
    rw [← h]; exact hi
  | some told =>
    have htold : RecOK cfg told := hi.recs (p.1, told) (AL.find_mem _ _ _ hf)
    obtain ⟨u, hu⟩ := (wf_iff told.c).mp htold.wf
    have habsv : told.abs.val = u := by simp [MRec.abs, hu]
    simp only [hf, Option.map_some, hu, vis_ofVal] at hq ⊢
    rcases val_isSlice_cases u with ⟨l, hl⟩ | hns
    · subst hl
      simp only [ofVal_u32s_slice, Option.isSome_some, Bool.not_true, Bool.and_false, Bool.false_eq_true, if_false,
        delRaw_slice, Val.isSlice, Val.sliceD, Option.getD_some, habsv, if_true] at hq ⊢
      have hwf : ({ told with c := ofVal (.u32s (delU32 l p.2)),
                              changed := told.changed || !(delU32 l p.2).isEmpty } : MRec).c.WF := by
        show (ofVal (.u32s (delU32 l p.2))).WF; exact wf_ofVal _
      obtain ⟨s1, s2, _⟩ := save_abs cfg i p.1 _ (!(delU32 l p.2).isEmpty) hi hwf
      obtain ⟨f0, f1, f2, f3⟩ := u32delFinish_slice cfg kind p.1 _ (delU32 l p.2).isEmpty s1 hq
      refine ⟨f0, f1, ?_⟩
      rw [f2, f3, s2]
      cases hemp : (delU32 l p.2).isEmpty with
      | true => simp [AL.erase_insert]
      | false => simp [MRec.abs]
    · have hsl : (ofVal u).slice = none := ofVal_slice_none u hns
      simp only [hsl, Option.isSome_none, Bool.not_false, Bool.and_true, habsv, hns, Bool.false_eq_true, if_false] at hq ⊢
      cases hck : cfg.u32delChecksType with
      | true =>
        simp only [if_true]
        refine ⟨rfl, fun i' h => ?_, rfl⟩
        simp only [Model.DelOut.inst?, Option.some.injEq] at h
        rw [← h]; exact hi
      | false =>
        exfalso
        simp only [hck, Bool.false_eq_true, if_false, delRaw, hsl, Option.getD_none, List.isEmpty_nil] at hq
        exact u32delFinish_nonslice cfg kind p.1 _ _ hck hq

theorem u32delLoop_sim (cfg : Cfg) (kind : Kind) (pairs : List (Key × List Nat)) :
    ∀ (i : Inst), InstOK cfg i → Q cfg (Model.u32delLoop cfg kind i pairs).2.2.2 →
    (Model.u32delLoop cfg kind i pairs).2.2.1 = false ∧
    (∀ i', (Model.u32delLoop cfg kind i pairs).1 = some i' → InstOK cfg i') ∧
    (absO (Model.u32delLoop cfg kind i pairs).1, (Model.u32delLoop cfg kind i pairs).2.1)
      = Spec.foldPairs Spec.u32delOne (absI i) pairs := by
  induction pairs with
  | nil =>
    intro i hi _
    refine ⟨rfl, fun i' h => ?_, rfl⟩
    simp only [Model.u32delLoop, Option.some.injEq] at h
    rw [← h]; exact hi
  | cons p rest ih =>
    intro i hi hq
    have h1 := u32delOne_sim cfg kind i p hi
    simp only [Model.u32delLoop] at hq ⊢
    cases ho : Model.u32delOne cfg kind i p with
    | cont i1 e tg =>
      rw [ho] at h1 hq
      simp only [Model.DelOut.tags, Model.DelOut.hung, Model.DelOut.inst?, Model.DelOut.err, absO] at h1
      simp only at hq ⊢
      obtain ⟨_, a1, a2⟩ := h1 hq.left
      obtain ⟨b0, b1, b2⟩ := ih i1 (a1 i1 rfl) hq.right
      refine ⟨b0, b1, ?_⟩
      simp only [Spec.foldPairs]
      rw [← a2]
      simp only
      rw [← b2]
    | destroyed tg =>
      rw [ho] at h1 hq
      simp only [Model.DelOut.tags, Model.DelOut.hung, Model.DelOut.inst?, Model.DelOut.err, absO] at h1
      simp only at hq ⊢
      obtain ⟨_, _, a2⟩ := h1 hq
      refine ⟨by first | rfl | trivial, fun i' h => by simp at h, ?_⟩
      simp only [Spec.foldPairs, ← a2, spec_fold_u32del_nil, Bool.or_false, absO]
    | hang tg =>
      rw [ho] at h1 hq
      simp only [Model.DelOut.tags, Model.DelOut.hung] at h1
      simp only at hq
      have := (h1 hq).1
      cases this

end Hv.Data
