/-
  Expiry (C30).

  Part A — the predicate each expiry-aware path of the code applies, as extracted
  (`ExpCfg`: comparison operator and zero-guard of every site), against
  `expired exp now := exp ≠ 0 ∧ exp < now`.

  Part B — the expiry-aware requests on top of the sequential model of KV.lean (executable,
  used by the correspondence run): ShiftExpiredTreasures, PatchTreasures / PatchExpiredTreasures
  with metadata only (set / slide / clear the expiry), GetByIndex(EXPIRATION_TIME) and the
  ExpiredAt filter, with the expiration-time beacon (lazy cold build, incremental maintenance).

  Core-only.
-/
import Hv.Data.KV

namespace Hv.Data

/-! ## Part A: predicates -/

/-- "A record is expired exactly when it has a non-zero expiry time that lies in the past." -/
def expired (exp now : Int) : Bool := decide (exp ≠ 0) && decide (exp < now)

/-- shape of one comparison site: is there an `exp != 0` guard, and is the comparison strict -/
structure Site where
  guard0 : Bool
  strict : Bool
  deriving DecidableEq, Repr

def Site.eval (s : Site) (exp now : Int) : Bool :=
  (if s.guard0 then decide (exp ≠ 0) else true) && (if s.strict then decide (exp < now) else decide (exp ≤ now))

/-- how a timestamp is shown on the wire -/
inductive WireOut where
  | gt0      -- `> 0`
  | ne0      -- `!= 0`
  deriving DecidableEq, Repr

def WireOut.shows (w : WireOut) (exp : Int) : Bool :=
  match w with
  | .gt0 => decide (exp > 0)
  | .ne0 => decide (exp ≠ 0)

structure ExpCfg where
  isExpired : Site          -- treasure.IsExpired
  shift : Site              -- beacon.ShiftExpired
  selectCap : Site          -- beacon.SelectExpiredForPatchWithCap
  coldBuildNe0 : Bool       -- swamp.treasuresForBeacon keeps only `exp != 0`
  addBeaconsNe0 : Bool      -- swamp.addTreasureToBeacons
  saveBranchNe0 : Bool      -- swamp.SaveFunction, expiration-changed branch
  reindexNe0 : Bool         -- beacon.ReindexExpiration skips `exp == 0`
  patchReaddNe0 : Bool      -- swamp.PatchExpired, DESC re-add
  filterGuard0 : Bool       -- gateway.compareNativeTimestamp: `nanos == 0 → false`
  isEmptyEq0 : Bool         -- gateway.nativeFieldIsEmpty: `exp == 0`
  setZeroNone : Bool        -- treasure.SetExpirationTime: zero time.Time ↦ 0
  clearWins : Bool          -- swamp.applyPatchMeta: ClearExpiredAt before SetExpiredAt
  wireGet : WireOut         -- gateway.treasureToKeyValuePair
  deriving DecidableEq, Repr

def Site.good (s : Site) : Bool := s.guard0 && s.strict

/-- the comparison sites and membership guards are the documented ones -/
def ExpCfg.good (c : ExpCfg) : Bool :=
  c.isExpired.good && c.shift.good && c.selectCap.good && c.coldBuildNe0 && c.addBeaconsNe0 &&
  c.saveBranchNe0 && c.reindexNe0 && c.patchReaddNe0 && c.filterGuard0 && c.isEmptyEq0 && c.setZeroNone && c.clearWins

/-- membership of a record in the expiration index at a site with / without the zero filter -/
def member (ne0 : Bool) (exp : Int) : Bool := if ne0 then decide (exp ≠ 0) else true

/-- the `ExpiredAt < ref` filter -/
def filterLt (guard0 : Bool) (exp ref : Int) : Bool := (if guard0 then decide (exp ≠ 0) else true) && decide (exp < ref)

/-- `applyPatchMeta` on the expiry: clear wins over set; a supplied time is stored as its unix
    nanoseconds (the epoch itself is 0 = "never expires") -/
def patchExp (clearWins : Bool) (clear : Bool) (set : Option Int) (old : Int) : Int :=
  if clearWins then
    (if clear then 0 else match set with | some e => e | none => old)
  else
    (match set with | some e => e | none => if clear then 0 else old)

theorem site_good_eval (s : Site) (h : s.good = true) (exp now : Int) : s.eval exp now = expired exp now := by
  simp only [Site.good, Bool.and_eq_true] at h
  simp [Site.eval, expired, h.1, h.2]

/-- **paths_agree**: with the documented comparison at every site, every claim path and the
    `ExpiredAt < now` filter decide "expired" exactly as the definition, for ALL times (also
    pre-epoch ones); every index-membership site keeps exactly the records with `exp ≠ 0`;
    IS_EMPTY is `exp = 0`; clearing wins over setting. -/
theorem paths_agree (c : ExpCfg) (h : c.good = true) (exp now : Int) :
    c.isExpired.eval exp now = expired exp now ∧ c.shift.eval exp now = expired exp now ∧
    c.selectCap.eval exp now = expired exp now ∧
    filterLt c.filterGuard0 exp now = expired exp now ∧
    member c.coldBuildNe0 exp = decide (exp ≠ 0) ∧ member c.addBeaconsNe0 exp = decide (exp ≠ 0) ∧
    member c.saveBranchNe0 exp = decide (exp ≠ 0) ∧ member c.reindexNe0 exp = decide (exp ≠ 0) ∧
    member c.patchReaddNe0 exp = decide (exp ≠ 0) ∧
    (∀ set old, patchExp c.clearWins true set old = 0) := by
  simp only [ExpCfg.good, Bool.and_eq_true] at h
  obtain ⟨⟨⟨⟨⟨⟨⟨⟨⟨⟨⟨h1, h2⟩, h4⟩, h5⟩, h6⟩, h7⟩, h8⟩, h9⟩, h10⟩, h11⟩, h12⟩, h13⟩ := h
  refine ⟨site_good_eval _ h1 _ _, site_good_eval _ h2 _ _, site_good_eval _ h4 _ _,
    by simp [filterLt, expired, h10], by simp [member, h5], by simp [member, h6], by simp [member, h7],
    by simp [member, h8], by simp [member, h9], fun set old => by simp [patchExp, h13]⟩

/-- visibility on the wire agrees with "has an expiry" for every time at or after the epoch … -/
theorem wire_agrees_nonneg (w : WireOut) (exp : Int) (h : exp ≥ 0) : w.shows exp = decide (exp ≠ 0) := by
  cases w
  · simp only [WireOut.shows]
    by_cases h0 : exp = 0
    · simp [h0]
    · have : exp > 0 := by omega
      simp [h0, this]
  · rfl

/-- … and with `!= 0` for every time -/
theorem wire_ne0_agrees (exp : Int) : WireOut.ne0.shows exp = decide (exp ≠ 0) := rfl

/-- but with the `> 0` test a pre-epoch expiry is expired, indexed and invisible in a reply -/
theorem preepoch_disagreement :
    expired (-5000000000) 1 = true ∧ member true (-5000000000) = true ∧ WireOut.gt0.shows (-5000000000) = false := by
  decide

/-- `<=` at one site: a record expiring exactly now is claimed there and not elsewhere -/
theorem le_site_witness : (Site.mk true false).eval 7 7 = true ∧ expired 7 7 = false := by decide

/-- a site without the zero guard claims records that never expire -/
theorem noguard_site_witness : (Site.mk false true).eval 0 7 = true ∧ expired 0 7 = false := by decide

/-- an index site without the zero filter holds records that never expire -/
theorem nofilter_member_witness : member false 0 = true := by decide

/-- set wins over clear when the order is swapped -/
theorem clear_loses_witness : patchExp false true (some 9) 3 = 9 := by decide

/-! ## Part B: the expiry-aware requests -/

structure PatchMeta where
  setUa : Bool := false
  ub : String := ""
  setCa : Bool := false
  cb : String := ""
  setExp : Option Int := none
  clearExp : Bool := false
  deriving DecidableEq, Repr, Inhabited

inductive FOp where
  | lt | le | gt | ge | eq | ne | empty | notEmpty
  deriving DecidableEq, Repr, Inhabited

inductive Req30 where
  | kv (r : Req)
  | shiftExp (n : Nat)
  | patch (create : Bool) (k : Key) (m : Option PatchMeta)
  | patchExp (n : Nat) (m : PatchMeta)
  | getIdx (desc : Bool) (frm limit : Nat)
  | filterExp (op : FOp) (ref : Int)
  deriving Repr, Inhabited

inductive PStatus where
  | patched | created | keyNotFound | typeMismatch | encodingNotSupported
  deriving DecidableEq, Repr, Inhabited

inductive Resp30 where
  | kv (r : Resp)
  | recs (l : List (Key × Rec))             -- shifted / indexed records, in order
  | keys (l : List Key)
  | pstat (s : PStatus)
  | pexp (l : List (Key × PStatus × Int))   -- key, status, expiry after the patch
  | err (code : String)
  | skip
  deriving DecidableEq, Repr, Inhabited

namespace Model30
open Model

def expOf (recs : List (Key × MRec)) (k : Key) : Int :=
  match AL.find k recs with
  | some t => t.m.exp
  | none => 0

/-- insertion sort of keys by their record's current expiry (ascending) -/
def insertByExp (recs : List (Key × MRec)) (k : Key) : List Key → List Key
  | [] => [k]
  | k' :: t => if expOf recs k < expOf recs k' then k :: k' :: t else k' :: insertByExp recs k t

def sortByExp (recs : List (Key × MRec)) (l : List Key) : List Key :=
  l.foldl (fun acc k => insertByExp recs k acc) []

/-- `buildBeacon` for the expiration-time index (cold build on first use) -/
def idxBuild (e : ExpCfg) (i : Inst) : Inst :=
  match i.expIdx with
  | some _ => i
  | none => { i with expIdx := some (sortByExp i.recs ((i.recs.filter fun p => member e.coldBuildNe0 p.2.m.exp).map (·.1))) }

/-- in-flight marker of an instance that PatchTreasures summoned without storing anything -/
def ghostMark : Key := "\x00summoned"

/-- marker key used by `step` to observe index adds (no request uses it as a key) -/
def idxMark : Key := "\x00idx-mark"

/-- the index is re-sorted whenever a key is added to it -/
def idxResort (i : Inst) : Inst :=
  match i.expIdx with
  | some l => { i with expIdx := some (sortByExp i.recs l) }
  | none => i

/-- walk of `ShiftExpired` / `SelectExpiredForPatch*`: the first `n` keys (in index order) whose
    record satisfies the site's predicate -/
def takeExpired (site : Site) (now : Int) (recs : List (Key × MRec)) : Nat → List Key → List Key × List Key
  | _, [] => ([], [])
  | n, k :: rest =>
    if n > 0 && site.eval (expOf recs k) now then
      let (a, b) := takeExpired site now recs (n - 1) rest
      (k :: a, b)
    else
      let (a, b) := takeExpired site now recs n rest
      (a, k :: b)

def cloneView (ar : Arith) (t : MRec) : Rec := wire ar { t with c := t.c.clone }.abs

/-- msgpack body of a patchable record: the model knows the empty map only -/
def patchBody (t : MRec) : Option PStatus :=
  match t.c.vis with
  | .bytes h => if h == "c70080" then none else some .encodingNotSupported
  | .none => some .keyNotFound
  | _ => some .typeMismatch

/-- `applyPatchMeta` -/
def applyMeta (e : ExpCfg) (now : Int) (t : MRec) (m : Option PatchMeta) (onCreate : Bool) : MRec :=
  match m with
  | none => t
  | some q =>
    let exp' := patchExp e.clearWins q.clearExp q.setExp t.m.exp
    let touchesExp := q.clearExp || q.setExp.isSome
    { t with
      m := { ca := if onCreate && q.setCa then now else t.m.ca,
             cb := if onCreate && q.cb != "" then q.cb else t.m.cb,
             ua := if q.setUa then now else t.m.ua,
             ub := if q.ub != "" then q.ub else t.m.ub,
             exp := exp' },
      changed := t.changed || q.setUa || q.ub != "" || (onCreate && (q.setCa || q.cb != "")) || touchesExp,
      expChanged := t.expChanged || touchesExp }

/-- `SaveFunction` as in KV.lean, plus the index re-sort that follows an add -/
def save30 (cfg : Cfg) (i : Inst) (k : Key) (t : MRec) : Inst :=
  idxResort (save cfg i k t true).1

structure Out30 where
  s : State
  r : Resp30
  deriving Repr, Inhabited

def fopEval (guard0 isEmptyEq0 : Bool) (op : FOp) (exp ref : Int) : Bool :=
  let g := if guard0 then decide (exp ≠ 0) else true
  match op with
  | .lt => g && decide (exp < ref)
  | .le => g && decide (exp ≤ ref)
  | .gt => g && decide (exp > ref)
  | .ge => g && decide (exp ≥ ref)
  | .eq => g && decide (exp = ref)
  | .ne => g && decide (exp ≠ ref)
  | .empty => if isEmptyEq0 then decide (exp = 0) else false
  | .notEmpty => if isEmptyEq0 then decide (exp ≠ 0) else true

def step (cfg : Cfg) (e : ExpCfg) (ar : Arith) (now : Int) (s : State) : Req30 → Out30
  | .kv r =>
    -- `addToExpirationTimeBeacon` appends the treasure and sorts the index; nothing else sorts it.  To see
    -- whether the data request added (or re-filed: removed and appended) a key, a marker is put at the end
    -- of the index for the duration of the request: an add leaves a key behind the marker.
    let s0 := match s.live with
      | some i => { s with live := some { i with expIdx := i.expIdx.map (· ++ [idxMark]) } }
      | none => s
    let o := Model.step cfg ar now s0 r
    ⟨match o.s.live with
      | some i =>
        (match i.expIdx with
         | some l =>
           let i' := { i with expIdx := some (l.filter (· != idxMark)) }
           { o.s with live := some (if l.getLast? != some idxMark && l.contains idxMark then idxResort i' else i') }
         | none => o.s)
      | none => o.s, .kv o.r⟩
  | .shiftExp n =>
    if s.dead then ⟨s, .skip⟩
    else if !exists_ s then ⟨s, .err "FailedPrecondition"⟩
    else
      let i := idxBuild e (summon s)
      let howMany := if n = 0 then 1000000000 else n
      let (taken, rest) := takeExpired e.shift now i.recs howMany (i.expIdx.getD [])
      let out := taken.filterMap fun k => (AL.find k i.recs).map fun t => (k, cloneView ar t)
      let i1 := taken.foldl deleteRec { i with expIdx := some rest }
      ⟨settleAfterDelete s i1, .recs out⟩
  | .patch create k m =>
    if s.dead then ⟨s, .skip⟩
    else if cfg.keyChecked && !validKey k then ⟨s, .err "InvalidArgument"⟩
    else if cfg.patchAsksFirst && !create && !exists_ s then ⟨s, .pstat .keyNotFound⟩
    else
      let i := summon s
      -- PatchTreasures summons without an existence check and keeps whatever it summoned (an empty
      -- swamp stays live when nothing was created)
      -- An instance summoned for nothing is kept by the swamp map (unlike the readers, which ask first):
      -- a marker in the in-flight list keeps it alive through later requests, as `settleAfterTouch` has it.
      let finish (i : Inst) (st : PStatus) : Out30 :=
        ⟨withLive s (if i.recs.isEmpty && s.file.isNone then { i with inflight := AL.insert ghostMark {} i.inflight } else i),
         .pstat st⟩
      match AL.find k i.recs with
      | none =>
        if !create then finish i .keyNotFound
        else
          let t0 := (createTreasure i k).1
          -- a parked in-flight treasure is dropped when the patch does not save it
          let iDrop : Inst := { i with inflight := AL.erase k i.inflight }
          match t0.c.vis with
          | .none =>
            let t1 : MRec := { t0 with c := (setScalar t0.c (.bytes "c70080")).c, changed := true }
            finish (save30 cfg i k (applyMeta e now t1 m true)) .created
          | .bytes h =>
            if h == "c70080" then finish (save30 cfg i k (applyMeta e now t0 m false)) .patched
            else finish iDrop .encodingNotSupported
          | _ => finish iDrop .typeMismatch
      | some t =>
        match t.c.vis with
        | .none =>
          if !create then finish i .keyNotFound
          else
            let sr := setScalar t.c (.bytes "c70080")
            let t1 : MRec := { t with c := sr.c, changed := t.changed || sr.changed }
            finish (save30 cfg i k (applyMeta e now t1 m true)) .created
        | .bytes h =>
          if h == "c70080" then finish (save30 cfg i k (applyMeta e now t m false)) .patched
          else finish i .encodingNotSupported
        | _ => finish i .typeMismatch
  | .patchExp n m =>
    if s.dead then ⟨s, .skip⟩
    else if !exists_ s then ⟨s, .pexp []⟩
    else
      let i := idxBuild e (summon s)
      let howMany := if n = 0 then 1000000000 else n
      let (taken, rest) := takeExpired e.selectCap now i.recs howMany (i.expIdx.getD [])
      -- per selected record: patch in place (metadata only), Save; failures keep the record as it is
      let i0 : Inst := { i with expIdx := some rest }
      let (i1, entries) := taken.foldl (fun (acc : Inst × List (Key × PStatus × Int)) k =>
        match AL.find k acc.1.recs with
        | none => acc
        | some t =>
          match patchBody t with
          | some st => (acc.1, acc.2 ++ [(k, st, t.m.exp)])
          | none =>
            let t' := applyMeta e now t (some m) false
            ((save cfg acc.1 k t' true).1, acc.2 ++ [(k, .patched, t'.m.exp)])) (i0, [])
      -- ReindexExpiration: drop the selected keys, re-add those that still have an expiry, sort
      let base := (i1.expIdx.getD []).filter fun k => !taken.contains k
      let back := taken.filter fun k => member e.reindexNe0 (expOf i1.recs k)
      let i2 : Inst := { i1 with expIdx := some (sortByExp i1.recs (base ++ back)) }
      ⟨withLive s i2, .pexp entries⟩
  | .getIdx desc frm limit =>
    if s.dead then ⟨s, .skip⟩
    else if !exists_ s then ⟨s, .err "FailedPrecondition"⟩
    else
      let i := idxBuild e (summon s)
      let l := if desc then (i.expIdx.getD []).reverse else i.expIdx.getD []
      let l := l.drop frm
      let l := if limit = 0 then l else l.take limit
      ⟨withLive s i, .recs (l.filterMap fun k => (AL.find k i.recs).map fun t => (k, wire ar t.abs))⟩
  | .filterExp op ref =>
    if s.dead then ⟨s, .skip⟩
    else if !exists_ s then ⟨s, .err "FailedPrecondition"⟩
    else
      let i := summon s
      ⟨withLive s i, .keys ((i.recs.filter fun p => fopEval e.filterGuard0 e.isEmptyEq0 op p.2.m.exp ref).map (·.1))⟩

end Model30

end Hv.Data
