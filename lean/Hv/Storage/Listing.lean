/-
  The explorer's index over a directory (app/server/explorer/index.go: hierarchicalIndex.add,
  scanner.go: scanDirectory): every `.hyd` file is scanned on its own (`scanListed`), and `add` files
  the result under (sanctuary, realm, swamp) — the three parts of `SplitN(name, "/", 3)`, which
  determine the name and are determined by it — so a second file with the same name overwrites the
  first: the index is the *set* of listed names.  Sorting (listSwamps) is presentation only.
-/
import Hv.Storage.Reader

namespace Hv.Storage

/-- `hierarchicalIndex.add`, keyed by the full name -/
def addName (n : Bytes) (idx : List Bytes) : List Bytes := if n ∈ idx then idx else n :: idx

/-- `scanDirectory` + `add` over the files of a directory (the worker pool only permutes the order,
    which does not matter for a set) -/
def listing (cfg : Cfg) (d : Decoder) (crc : Checksum) (files : List Bytes) : List Bytes :=
  files.foldl (fun idx f => match scanListed cfg d crc f with
    | some n => addName n idx
    | none => idx) []

theorem mem_addName (n x : Bytes) (idx : List Bytes) : x ∈ addName n idx ↔ x = n ∨ x ∈ idx := by
  unfold addName
  by_cases h : n ∈ idx
  · simp only [h, if_true]
    constructor
    · exact Or.inr
    · intro hx
      rcases hx with hx | hx
      · rw [hx]; exact h
      · exact hx
  · simp [h]

theorem nodup_addName (n : Bytes) (idx : List Bytes) (h : idx.Nodup) : (addName n idx).Nodup := by
  unfold addName
  by_cases hc : n ∈ idx
  · simp [hc, h]
  · simp [hc, h]

theorem listing_aux (cfg : Cfg) (d : Decoder) (crc : Checksum) (files : List Bytes) (idx : List Bytes) (hn : idx.Nodup) :
    (∀ x, x ∈ files.foldl (fun idx f => match scanListed cfg d crc f with
        | some n => addName n idx
        | none => idx) idx ↔ x ∈ idx ∨ ∃ f ∈ files, scanListed cfg d crc f = some x) ∧
    (files.foldl (fun idx f => match scanListed cfg d crc f with
        | some n => addName n idx
        | none => idx) idx).Nodup := by
  induction files generalizing idx with
  | nil => simp [hn]
  | cons f fs ih =>
    simp only [List.foldl_cons]
    cases hs : scanListed cfg d crc f with
    | none =>
      obtain ⟨h1, h2⟩ := ih idx hn
      refine ⟨fun x => ?_, h2⟩
      rw [h1 x]
      simp [hs]
    | some n =>
      obtain ⟨h1, h2⟩ := ih (addName n idx) (nodup_addName n idx hn)
      refine ⟨fun x => ?_, h2⟩
      rw [h1 x, mem_addName]
      constructor
      · rintro ((rfl | h) | ⟨g, hg, hx⟩)
        · exact Or.inr ⟨f, by simp, hs⟩
        · exact Or.inl h
        · exact Or.inr ⟨g, by simp [hg], hx⟩
      · rintro (h | ⟨g, hg, hx⟩)
        · exact Or.inl (Or.inr h)
        · simp only [List.mem_cons] at hg
          rcases hg with rfl | hg
          · rw [hs] at hx; cases hx; exact Or.inl (Or.inl rfl)
          · exact Or.inr ⟨g, hg, hx⟩

/-- the index contains exactly the names of the files that are listed, each once -/
theorem listing_spec (cfg : Cfg) (d : Decoder) (crc : Checksum) (files : List Bytes) :
    (∀ x, x ∈ listing cfg d crc files ↔ ∃ f ∈ files, scanListed cfg d crc f = some x) ∧
    (listing cfg d crc files).Nodup := by
  have := listing_aux cfg d crc files [] (by simp)
  refine ⟨fun x => ?_, this.2⟩
  unfold listing
  rw [this.1 x]
  simp

/-- `listSwamps`: the page `[off, off+lim)` of the *sorted* listing (sorting happens before slicing) -/
def page (sorted : List Bytes) (off lim : Nat) : List Bytes := (sorted.drop off).take lim

/-- consecutive pages tile the listing: nothing is skipped, nothing repeated -/
theorem page_tiles (sorted : List Bytes) (off lim : Nat) :
    page sorted off lim ++ sorted.drop (off + lim) = sorted.drop off := by
  unfold page
  rw [← List.drop_drop]
  exact List.take_append_drop lim (sorted.drop off)

/-- what the explorer TUI shows for a realm: everything, or the single page `ListSwamps` hands out
    (its `Limit` is clamped to 1000 whatever the caller asks for) -/
def tuiView (cfg : Cfg) (sorted : List Bytes) : List Bytes := if cfg.tuiListsAll then sorted else page sorted 0 1000

theorem tuiView_all (cfg : Cfg) (h : cfg.tuiListsAll = true) (sorted : List Bytes) : tuiView cfg sorted = sorted := by
  simp [tuiView, h]

/-- a realm with 1001 swamps: one clamped page shows 1000 of them -/
theorem tuiView_truncates (cfg : Cfg) (h : cfg.tuiListsAll = false) :
    (tuiView cfg (List.replicate 1001 [])).length = 1000 := by
  simp only [tuiView, h, Bool.false_eq_true, if_false, page, List.drop_zero, List.length_take, List.length_replicate]
  decide

end Hv.Storage
