/-
  Fault-aware model of the writer (C25): every file operation gets a result `ok | err | short n`
  from a result stream, and the writer reacts as the Go code does — including what it does *not*
  do after a failure (it neither restores the buffer, nor truncates a partial block, nor restores
  the file offset when the in-place header rewrite fails).

  Mirrors: v2/writer.go flushLocked / Sync / Close / createNewFile, v2/block.go WriteBuffer.Flush,
  chronicler_v2.go Write (errors logged, next entry), Sync, Close.
-/
import Hv.Storage.Chron

namespace Hv.BlockStore

inductive Res where
  | ok
  | err                 -- the operation failed, nothing was transferred
  | short (n : Nat)     -- a write transferred its first `n` bytes, then failed
  deriving DecidableEq, Repr, Inhabited

def Res.isOk : Res → Bool
  | .ok => true
  | _ => false

/-- bytes transferred by a write of `len` bytes -/
def Res.written (len : Nat) : Res → Nat
  | .ok => len
  | .err => 0
  | .short n => min n len

/-- effect of an operation with its result -/
def Disk.applyRes (d : Disk) (op : FsOp) (r : Res) : Disk :=
  match op with
  | .write p off cs => d.apply (.write p off (cs.take (r.written cs.length)))
  | op => if r.isOk then d.apply op else d

def Disk.applyAllRes (d : Disk) (ops : List (FsOp × Res)) : Disk :=
  ops.foldl (fun d o => d.applyRes o.1 o.2) d

/-- facts about failure handling -/
structure FCfg where
  /-- `WriteBuffer.Flush` empties the buffer before the block is written (so a failed write loses it) -/
  clearsBufferBeforeWrite : Bool
  /-- (repair, not in the tree) a failed block write is cut off again and the offset restored -/
  rollsBackFailedBlock : Bool
  /-- (repair, not in the tree) the offset is restored when the in-place header rewrite fails -/
  restoresOffsetAfterHeader : Bool
  /-- flushLocked never hands more than 65535 entries to one block (the rest stays buffered and
      is written as further blocks) -/
  splitsOversizedBuffer : Bool := false
  /-- `WriteEntry` returns the error of the flush it triggers (although the entry stays queued) -/
  addReportsFlushError : Bool := true
  /-- a `Close` that fails leaves the writer usable (the file stays open; a later Close retries) -/
  closeKeepsWriter : Bool := false
  deriving DecidableEq, Repr

def nextRes : List Res → Res × List Res
  | [] => (.ok, [])
  | r :: t => (r, t)

/-- state threaded through fault-aware steps -/
structure FSt where
  w : WSt
  d : Disk
  ops : List (FsOp × Res) := []
  rs : List Res              -- results still to be handed out
  failed : Bool := false

def FSt.issue (s : FSt) (op : FsOp) : FSt × Res :=
  let (r, rest) := nextRes s.rs
  ({ s with d := s.d.applyRes op r, ops := s.ops ++ [(op, r)], rs := rest }, r)

def fileLen (d : Disk) (p : Path) : Nat :=
  match d.get p with
  | some f => f.length
  | none => 0

/-- One block of `flushLocked` under faults: `chunk` is written, `rest` (sizes `restSzs`) is what
    stays buffered behind it.  `start` is the offset the block begins at.
    With `rollsBackFailedBlock` this is the repaired version: a failed block write is cut off again
    (`Truncate(start)`, remembered in `dirty` when even that fails and retried before the next
    block), the offset goes back and the entries return to the front of the buffer.
    The flag says whether `flushLocked` goes on with the next block. -/
def writeBlockF (fc : FCfg) (mk : Mk) (s : FSt) (chunk rest : List Op) (restSzs : List Nat) : FSt × Bool :=
  let w := s.w
  let b := mk chunk
  let start := w.pos
  -- what the buffer holds while the block is being written
  let wCleared : WSt := { w with buf := rest, bufSize := restSzs.sum, szs := restSzs }
  let w0 := if fc.clearsBufferBeforeWrite then wCleared else w
  let rollback (s : FSt) (pos : Nat) : FSt :=
    if fc.rollsBackFailedBlock then
      let (s', r) := ({ s with w := { w with pos := start } } : FSt).issue (.truncate w.path start)
      { s' with w := { s'.w with dirty := !r.isOk }, failed := true }
    else { s with w := { w0 with pos := pos }, failed := true }
  let (s1, r1) := s.issue (.write w.path start (hdrCells b))
  if !r1.isOk then (rollback s1 (start + r1.written 16), false) else
  let (s2, r2) := s1.issue (.write w.path (start + 16) (payCells b))
  if !r2.isOk then (rollback s2 (start + 16 + r2.written b.plen), false) else
  let (s3, r3) := s2.issue (.write w.path 0 (fhCells w.nl))
  if !r3.isOk then
    -- the block is on disk; the descriptor is left wherever the header write stopped
    let pos := if fc.restoresOffsetAfterHeader then start + 16 + b.plen else r3.written 64
    ({ s3 with w := { wCleared with pos := pos }, failed := true }, false)
  else ({ s3 with w := { wCleared with pos := start + 16 + b.plen } }, true)

/-- the blocks of one `flushLocked`: with `splitsOversizedBuffer` at most `maxEnts` entries go
    into a block and the flush goes on with the rest; without it the whole buffer is handed to
    `CompressEntries` whatever its length.  Fuel: one unit per block. -/
def flushBlocks (fc : FCfg) (mk : Mk) : Nat → FSt → FSt
  | 0, s => s
  | n + 1, s =>
    match s.w.buf with
    | [] => s
    | _ =>
      if fc.splitsOversizedBuffer && decide (maxEnts < s.w.buf.length) then
        let (s', go) := writeBlockF fc mk s (s.w.buf.take maxEnts) (s.w.buf.drop maxEnts) (s.w.szs.drop maxEnts)
        if go then flushBlocks fc mk n s' else s'
      else (writeBlockF fc mk s s.w.buf [] []).1

/-- `flushLocked` under faults.  The repaired flush first gets rid of a fragment it could not cut
    off earlier. -/
def flushWF (fc : FCfg) (mk : Mk) (s : FSt) : FSt :=
  let s : FSt × Bool :=
    if fc.rollsBackFailedBlock && s.w.dirty then
      let (s', r) := s.issue (.truncate s.w.path s.w.pos)
      if r.isOk then ({ s' with w := { s'.w with dirty := false } }, true) else ({ s' with failed := true }, false)
    else (s, true)
  if !s.2 then s.1 else flushBlocks fc mk (s.1.w.buf.length / maxEnts + 1) s.1

/-- `WriteEntry` under faults; a failure is reported to the caller (who logs it and goes on) -/
def addWF (fc : FCfg) (mk : Mk) (s : FSt) (e : Op) (sz : Nat) : FSt :=
  let s1 := { s with w := s.w.push e sz }
  if s1.w.full then
    -- the entry is queued whatever happens to the flush; the repaired WriteEntry does not report its error
    if fc.addReportsFlushError then flushWF fc mk s1 else { flushWF fc mk s1 with failed := s.failed }
  else s1

def addManyWF (fc : FCfg) (mk : Mk) (s : FSt) : List (Op × Nat) → FSt
  | [] => s
  | (e, sz) :: rest => addManyWF fc mk ({ addWF fc mk s e sz with failed := false }) rest

/-! #### The same function in linear time (what the compiled driver runs)

`addManyWF` appends to the end of the buffer for every entry and measures the buffer to see whether
it reports full: quadratic in the number of pending entries, which an outage drives beyond 65535.
`addManyWFfast` keeps the entries that arrived since the last flush in reverse and counts along;
`addManyWF_eq_fast` proves the two equal, `@[csimp]` makes the compiler use the fast one. -/

/-- the state after the pending entries `pe` (newest first, sizes `ps`) were added without a flush -/
def FSt.mat (s : FSt) (pe : List Op) (ps : List Nat) (bsz : Nat) (fl : Bool) : FSt :=
  { s with w := { s.w with buf := s.w.buf ++ pe.reverse, bufSize := bsz, szs := s.w.szs ++ ps.reverse }, failed := fl }

def addManyWFgo (fc : FCfg) (mk : Mk) (s : FSt) (pe : List Op) (ps : List Nat) (n bsz : Nat) (fl : Bool) :
    List (Op × Nat) → FSt
  | [] => s.mat pe ps bsz fl
  | (e, sz) :: rest =>
    if bsz + sz ≥ s.w.bs ∨ n + 1 ≥ maxEnts then
      let s2 : FSt := { flushWF fc mk (s.mat (e :: pe) (sz :: ps) (bsz + sz) fl) with failed := false }
      addManyWFgo fc mk s2 [] [] s2.w.buf.length s2.w.bufSize false rest
    else addManyWFgo fc mk s (e :: pe) (sz :: ps) (n + 1) (bsz + sz) false rest

def addManyWFfast (fc : FCfg) (mk : Mk) (s : FSt) (items : List (Op × Nat)) : FSt :=
  addManyWFgo fc mk s [] [] s.w.buf.length s.w.bufSize s.failed items

theorem FSt.mat_nil (s : FSt) : s.mat [] [] s.w.bufSize s.failed = s := by
  cases s with | mk w d ops rs failed => cases w; simp [FSt.mat]

theorem FSt.mat_push (s : FSt) (pe : List Op) (ps : List Nat) (bsz : Nat) (fl : Bool) (e : Op) (sz : Nat) :
    ({ s.mat pe ps bsz fl with w := (s.mat pe ps bsz fl).w.push e sz } : FSt) = s.mat (e :: pe) (sz :: ps) (bsz + sz) fl := by
  simp [FSt.mat, WSt.push, List.reverse_cons, List.append_assoc]

theorem addManyWFgo_eq (fc : FCfg) (mk : Mk) (items : List (Op × Nat)) :
    ∀ (s : FSt) (pe : List Op) (ps : List Nat) (n bsz : Nat) (fl : Bool), n = s.w.buf.length + pe.length →
    addManyWFgo fc mk s pe ps n bsz fl items = addManyWF fc mk (s.mat pe ps bsz fl) items := by
  induction items with
  | nil => intro s pe ps n bsz fl _; rfl
  | cons it rest ih =>
    intro s pe ps n bsz fl hn
    obtain ⟨e, sz⟩ := it
    have hfull : ((s.mat pe ps bsz fl).w.push e sz).full ↔ (bsz + sz ≥ s.w.bs ∨ n + 1 ≥ maxEnts) := by
      simp only [WSt.full, WSt.push, FSt.mat, List.length_append, List.length_reverse, List.length_cons, List.length_nil, hn]
    simp only [addManyWF, addManyWFgo, addWF]
    by_cases hf : bsz + sz ≥ s.w.bs ∨ n + 1 ≥ maxEnts
    · rw [if_pos hf, if_pos (hfull.mpr hf), FSt.mat_push]
      rw [ih _ [] [] _ _ false (by simp)]
      congr 1
      have e1 := FSt.mat_nil { flushWF fc mk (s.mat (e :: pe) (sz :: ps) (bsz + sz) fl) with failed := false }
      rw [e1]
      cases fc.addReportsFlushError <;> rfl
    · rw [if_neg hf, if_neg (fun h => hf (hfull.mp h)), FSt.mat_push]
      rw [ih s (e :: pe) (sz :: ps) (n + 1) (bsz + sz) false (by simp [hn]; omega)]
      rfl

@[csimp] theorem addManyWF_eq_fast : @addManyWF = @addManyWFfast := by
  funext fc mk s items
  unfold addManyWFfast
  rw [addManyWFgo_eq fc mk items s [] [] _ _ _ (by simp), FSt.mat_nil]

/-- `FileWriter.Sync` under faults -/
def syncWF (c : Cfg) (fc : FCfg) (mk : Mk) (s : FSt) : FSt :=
  let s1 := flushWF fc mk { s with failed := false }
  if s1.failed then s1 else
  let (s2, r2) := s1.issue (.write s1.w.path 0 (fhCells s1.w.nl))
  if !r2.isOk then
    { s2 with w := { s2.w with pos := if fc.restoresOffsetAfterHeader then fileLen s2.d s2.w.path else r2.written 64 },
              failed := true } else
  -- Seek(0, io.SeekEnd)
  let s3 := { s2 with w := { s2.w with pos := fileLen s2.d s2.w.path } }
  if c.syncFsyncs then
    let (s4, r4) := s3.issue (.sync s3.w.path)
    { s4 with failed := !r4.isOk }
  else s3

/-- `FileWriter.Close` under faults (the descriptor is closed whatever happens) -/
def closeWF (c : Cfg) (fc : FCfg) (mk : Mk) (s : FSt) : FSt :=
  let s1 := flushWF fc mk { s with failed := false }
  if s1.failed then s1 else
  let (s2, r2) := s1.issue (.write s1.w.path 0 (fhCells s1.w.nl))
  if !r2.isOk then { s2 with failed := true } else
  if c.closeFsyncs then
    let (s4, r4) := s2.issue (.sync s2.w.path)
    { s4 with failed := !r4.isOk }
  else s2

/-- `createNewFile` under faults: a failed header/name write closes the file and reports the error,
    leaving whatever was written behind -/
def createWF (p : Path) (nl bs : Nat) (d : Disk) (rs : List Res) : FSt :=
  let w : WSt := { path := p, pos := 64 + nl, nl := nl, buf := [], bufSize := 0, bs := bs }
  let s0 : FSt := { w := w, d := d, rs := rs }
  let (s1, r1) := s0.issue (.create p)
  if !r1.isOk then { s1 with failed := true } else
  let (s2, r2) := s1.issue (.write p 0 (fhCells nl))
  if !r2.isOk then { s2 with failed := true } else
  if nl = 0 then s2 else
  let (s3, r3) := s2.issue (.write p 64 (nmCells nl))
  { s3 with failed := !r3.isOk }

/-! ### Compaction under faults -/

/-- entries until the first failing flush (`WriteEntry` error ⇒ the compaction loop stops) -/
def addUntilFail (fc : FCfg) (mk : Mk) (s : FSt) : List (Op × Nat) → FSt
  | [] => s
  | (e, sz) :: rest =>
    let s1 := addWF fc mk { s with failed := false } e sz
    if s1.failed then s1 else addUntilFail fc mk s1 rest

def rmTempF (s : FSt) : FSt :=
  match s.d.temp with
  | some _ => (s.issue (.unlink .temp)).1
  | none => s

/-- `Compactor.Compact` / `CompactFromIndex` under faults: any failure after the temp was opened
    closes the writer, removes the temp and returns the error; the main file is only ever touched
    by the final rename. -/
def compactF (c : Cfg) (fc : FCfg) (mk : Mk) (d : Disk) (rs : List Res) (rmFirst : Bool)
    (entries : List (Op × Nat)) (bs : Nat) : FSt :=
  let w0 : WSt := { path := .temp, pos := 0, nl := mainNl d, buf := [], bufSize := 0, bs := bs }
  let s0 : FSt := { w := w0, d := d, rs := rs }
  let s0 := if rmFirst then rmTempF s0 else s0
  -- NewFileWriterWithName(temp)
  let opened : FSt × Bool :=
    match s0.d.temp with
    | none =>
      let s := createWF .temp (mainNl d) bs s0.d s0.rs
      ({ s with ops := s0.ops ++ s.ops }, !s.failed)
    | some _ =>
      match openWriter c s0.d .temp (mainNl d) bs with
      | some (w, oo) =>
        let s1 := oo.foldl (fun (s : FSt) op => if s.failed then s else
          let (s', r) := s.issue op
          { s' with failed := !r.isOk }) { s0 with w := w }
        (s1, !s1.failed)
      | none => ({ s0 with failed := true }, false)
  if !opened.2 then { opened.1 with failed := true } else
  let s1 := addUntilFail fc mk opened.1 entries
  if s1.failed then
    -- writer.Close() (its own result is ignored), os.Remove(temp)
    { rmTempF { closeWF c fc mk s1 with failed := false } with failed := true }
  else
  let s2 := closeWF c fc mk s1
  if s2.failed then { rmTempF s2 with failed := true } else
  let (s3, r3) := s2.issue (.rename .temp .main)
  if !r3.isOk then { rmTempF s3 with failed := true } else s3

/-- chronicler state under faults -/
structure CFSt where
  cs : CSt
  d : Disk
  rs : List Res

structure CFOut where
  st : CFSt
  ops : List (FsOp × Res)
  failed : Bool   -- what the chronicler call reports (Write reports nothing)

/-- `ensureWriter` + `Write(batch)` under faults -/
def cWriteF (c : Cfg) (fc : FCfg) (mk : Mk) (st : CFSt) (items : List (Op × Nat)) : CFOut :=
  if items.isEmpty then ⟨st, [], false⟩ else
  let opened : Option FSt :=
    match st.cs.w with
    | some w => some { w := w, d := st.d, rs := st.rs }
    | none =>
      match st.d.get .main with
      | none =>
        let s := createWF .main st.cs.nlName st.cs.bs st.d st.rs
        -- a failed create returns no writer; the file stays behind
        if s.failed then none else some s
      | some _ =>
        match openWriter c st.d .main st.cs.nlName st.cs.bs with
        | some (w, oo) =>
          -- the repaired open may recreate the file or cut a torn tail: real operations with results
          let s0 : FSt := { w := w, d := st.d, rs := st.rs }
          let s1 := oo.foldl (fun (s : FSt) op => if s.failed then s else
            let (s', r) := s.issue op
            { s' with failed := !r.isOk }) s0
          if s1.failed then none else some s1
        | none => none
  match opened with
  | none =>
    -- "cannot initialize swamp file writer": nothing is written; a failed create consumed results
    match st.cs.w, st.d.get .main with
    | none, none =>
      let s := createWF .main st.cs.nlName st.cs.bs st.d st.rs
      ⟨{ st with d := s.d, rs := s.rs }, s.ops, false⟩
    | none, some _ =>
      match openWriter c st.d .main st.cs.nlName st.cs.bs with
      | some (w, oo) =>
        let s0 : FSt := { w := w, d := st.d, rs := st.rs }
        let s1 := oo.foldl (fun (s : FSt) op => if s.failed then s else
          let (s', r) := s.issue op
          { s' with failed := !r.isOk }) s0
        ⟨{ st with d := s1.d, rs := s1.rs }, s1.ops, false⟩
      | none => ⟨st, [], false⟩
    | _, _ => ⟨st, [], false⟩
  | some s0 =>
    let s := addManyWF fc mk s0 items
    ⟨{ cs := { st.cs with w := some s.w }, d := s.d, rs := s.rs }, s.ops, false⟩

def cSyncF (c : Cfg) (fc : FCfg) (mk : Mk) (st : CFSt) : CFOut :=
  match st.cs.w with
  | none => ⟨st, [], false⟩
  | some w =>
    let s := syncWF c fc mk { w := w, d := st.d, rs := st.rs }
    ⟨{ cs := { st.cs with w := some s.w }, d := s.d, rs := s.rs }, s.ops, s.failed⟩

/-- `Close`.  When it fails the chronicler keeps its writer; with `closeKeepsWriter` that writer is
    still usable (the repaired `FileWriter.Close` leaves the file open), otherwise its descriptor is
    closed and the scenarios go on with a fresh chronicler. -/
def cCloseF (c : Cfg) (fc : FCfg) (mk : Mk) (st : CFSt) : CFOut :=
  match st.cs.w with
  | none => ⟨st, [], false⟩
  | some w =>
    let s := closeWF c fc mk { w := w, d := st.d, rs := st.rs }
    ⟨{ cs := { st.cs with w := if s.failed && fc.closeKeepsWriter then some s.w else none }, d := s.d, rs := s.rs },
     s.ops, s.failed⟩

/-- `runCompactionLocked` / CLI / load self-heal under faults -/
def cCompactF (c : Cfg) (fc : FCfg) (mk : Mk) (st : CFSt) (ep : EP) (order : List (Nat × Nat)) (skip : Bool) : CFOut :=
  -- runCompactionLocked first closes the chronicler's writer; a failing Close aborts
  let pre : CFOut := if ep == .locked then cCloseF c fc mk st else ⟨st, [], false⟩
  if pre.failed then pre else
  let st1 := pre.st
  if skip then
    let s : FSt := { w := { path := .temp, pos := 0, nl := 0, buf := [], bufSize := 0, bs := 0 }, d := st1.d, rs := st1.rs }
    let s := if ep == .locked && c.rmTempLocked then rmTempF s else s
    ⟨{ st1 with d := s.d, rs := s.rs }, pre.ops ++ s.ops, false⟩
  else
  match mainIndex c st1.d with
  | none => ⟨st1, pre.ops, true⟩
  | some idx =>
    let s := compactF c fc mk st1.d st1.rs (ep.rmFirst c) (liveEntries idx order) (if ep == .cli then 16384 else st1.cs.bs)
    ⟨{ st1 with d := s.d, rs := s.rs }, pre.ops ++ s.ops, s.failed⟩

end Hv.BlockStore
