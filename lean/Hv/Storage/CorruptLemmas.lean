/-
  The reader on arbitrary bytes: bounded iteration, soundness relative to the checksum, and the
  allocation bound.
-/
import Hv.Storage.Reader

namespace Hv.Storage

/-! ### Never hangs: the loop needs at most `len/16 + 1` iterations -/

theorem readBlocksP_eof (cfg : Cfg) (d : Decoder) (crc : Checksum) (rest : Bytes)
    (h : readNextBlock cfg d crc rest = .eof) : readBlocksP cfg d crc rest = ([], none) := by
  rw [readBlocksP]
  split
  · rfl
  · rename_i h'; rw [h] at h'; cases h'
  · rename_i h'; rw [h] at h'; cases h'

theorem readBlocksP_err' (cfg : Cfg) (d : Decoder) (crc : Checksum) (rest : Bytes) (e : Err)
    (h : readNextBlock cfg d crc rest = .err e) : readBlocksP cfg d crc rest = ([], some e) := by
  rw [readBlocksP]
  split
  · rename_i h'; rw [h] at h'; cases h'
  · rename_i h'; rw [h] at h'; cases h'; rfl
  · rename_i h'; rw [h] at h'; cases h'

theorem readBlocksP_ok (cfg : Cfg) (d : Decoder) (crc : Checksum) (rest : Bytes) (es : List Entry) (rest' : Bytes)
    (h : readNextBlock cfg d crc rest = .ok es rest') :
    readBlocksP cfg d crc rest = (es ++ (readBlocksP cfg d crc rest').1, (readBlocksP cfg d crc rest').2) := by
  rw [readBlocksP]
  split
  · rename_i h'; rw [h] at h'; cases h'
  · rename_i h'; rw [h] at h'; cases h'
  · rename_i h'; rw [h] at h'; cases h'; rfl

theorem readBlocksFuel_eq (cfg : Cfg) (d : Decoder) (crc : Checksum) :
    ∀ (n : Nat) (rest : Bytes), rest.length < 16 * n →
      readBlocksFuel cfg d crc n rest = readBlocksP cfg d crc rest := by
  intro n
  induction n with
  | zero => intro rest h; omega
  | succ n ih =>
    intro rest h
    cases heq : readNextBlock cfg d crc rest with
    | eof => rw [readBlocksP_eof _ _ _ _ heq]; simp [readBlocksFuel, heq]
    | err e => rw [readBlocksP_err' _ _ _ _ _ heq]; simp [readBlocksFuel, heq]
    | ok es rest' =>
      have hl := readNextBlock_ok_length heq
      rw [readBlocksP_ok _ _ _ _ _ _ heq]
      simp only [readBlocksFuel, heq]
      rw [ih rest' (by omega)]

/-- `ReadAllEntries` terminates within `len/16 + 1` block reads on every byte string. -/
theorem reader_total (cfg : Cfg) (d : Decoder) (crc : Checksum) (rest : Bytes) :
    readBlocksFuel cfg d crc (rest.length / 16 + 1) rest = readBlocksP cfg d crc rest :=
  readBlocksFuel_eq cfg d crc _ rest (by omega)

/-! ### Sound relative to the checksum -/

/-- what it means that `readNextBlock` accepted a block at the head of `rest` -/
structure Accepted (cfg : Cfg) (d : Decoder) (crc : Checksum) (rest : Bytes) (es : List Entry) (rest' : Bytes) : Prop where
  hdr : 16 ≤ rest.length
  avail : (decodeBlockHeader rest).csize ≤ (rest.drop 16).length
  next : rest' = (rest.drop 16).drop (decodeBlockHeader rest).csize
  crcOk : cfg.validatesCrc = true →
    (crc ((rest.drop 16).take (decodeBlockHeader rest).csize)).toNat = (decodeBlockHeader rest).crc
  decoded : ∃ u, d.dec ((rest.drop 16).take (decodeBlockHeader rest).csize) = some u ∧
    (cfg.validatesULen = true → u.length % 2 ^ 32 = (decodeBlockHeader rest).usize) ∧
    parseEntries (decodeBlockHeader rest).count u = .ok es ∧
    (cfg.parseConsumesAll = true → sizeSum es = u.length)

theorem parseBlock_ok (cfg : Cfg) (d : Decoder) (crc : Checksum) (h : BlockHeader) (c : Bytes) (es : List Entry)
    (hp : parseBlock cfg d crc h c = .ok es) :
    (cfg.validatesCrc = true → (crc c).toNat = h.crc) ∧
    (cfg.boundsDecodedLen = true → d.declLen c ≤ 32 * c.length + 64) ∧
    ∃ u, d.dec c = some u ∧ (cfg.validatesULen = true → u.length % 2 ^ 32 = h.usize) ∧
      parseEntries h.count u = .ok es ∧ (cfg.parseConsumesAll = true → sizeSum es = u.length) := by
  unfold parseBlock at hp
  split at hp
  · cases hp
  · rename_i h1
    split at hp
    · cases hp
    · rename_i h2
      split at hp
      · cases hp
      · rename_i u hu
        split at hp
        · cases hp
        · rename_i h3
          unfold finishParse at hp
          split at hp
          · cases hp
          · rename_i es' hpe
            split at hp
            · cases hp
            · rename_i h4
              cases hp
              refine ⟨?_, ?_, u, hu, ?_, hpe, ?_⟩
              · intro hv; simp [hv] at h1; exact h1
              · intro hv; simp [hv] at h2; exact h2
              · intro hv; simp [hv] at h3; exact h3
              · intro hv; simp [hv] at h4; exact h4

/-- every block `readNextBlock` returns entries for had a matching checksum, decoded, had the
    declared length, and its entries are exactly the parse of the decoded bytes -/
theorem readNextBlock_sound (cfg : Cfg) (d : Decoder) (crc : Checksum) (rest : Bytes) (es : List Entry)
    (rest' : Bytes) (h : readNextBlock cfg d crc rest = .ok es rest') : Accepted cfg d crc rest es rest' := by
  have h := readNextBlock_ok_core h
  unfold readNextBlockCore at h
  simp only [shorterThan_eq, decide_eq_true_eq] at h
  split at h
  · cases h
  · rename_i h16
    split at h
    · cases h
    · split at h
      · split at h <;> cases h
      · rename_i hav
        split at h
        · cases h
        · rename_i es' hp
          cases h
          obtain ⟨h1, _, h3⟩ := parseBlock_ok cfg d crc _ _ _ hp
          exact ⟨by omega, by omega, rfl, h1, h3⟩

/-- a block whose compressed bytes do not match the stored checksum is never decoded: the core
    reader reports it -/
theorem readNextBlockCore_crc_mismatch (cfg : Cfg) (d : Decoder) (crc : Checksum) (rest : Bytes)
    (hv : cfg.validatesCrc = true) (h16 : 16 ≤ rest.length)
    (hav : (decodeBlockHeader rest).csize ≤ (rest.drop 16).length) (hpos : 0 < (decodeBlockHeader rest).csize)
    (hne : (crc ((rest.drop 16).take (decodeBlockHeader rest).csize)).toNat ≠ (decodeBlockHeader rest).crc) :
    readNextBlockCore cfg d crc rest = .err .crc := by
  unfold readNextBlockCore
  simp only [shorterThan_eq, decide_eq_true_eq]
  rw [if_neg (by omega)]
  have hnon : (rest.drop 16).isEmpty = false := by
    cases hd : rest.drop 16 with
    | nil => rw [hd] at hav; simp at hav; omega
    | cons _ _ => rfl
  simp only [hnon, Bool.and_false, Bool.false_eq_true, if_false]
  rw [if_neg (by omega)]
  have : parseBlock cfg d crc (decodeBlockHeader rest) ((rest.drop 16).take (decodeBlockHeader rest).csize) = .error .crc := by
    unfold parseBlock
    simp [hv, hne]
  rw [this]

/-- … and `readNextBlock` reports it or (zero-filled tail) takes it for the end of the data; it
    never returns entries for it -/
theorem readNextBlock_crc_mismatch (cfg : Cfg) (d : Decoder) (crc : Checksum) (rest : Bytes)
    (hv : cfg.validatesCrc = true) (h16 : 16 ≤ rest.length)
    (hav : (decodeBlockHeader rest).csize ≤ (rest.drop 16).length) (hpos : 0 < (decodeBlockHeader rest).csize)
    (hne : (crc ((rest.drop 16).take (decodeBlockHeader rest).csize)).toNat ≠ (decodeBlockHeader rest).crc) :
    readNextBlock cfg d crc rest = .err .crc ∨ readNextBlock cfg d crc rest = .eof :=
  readNextBlock_of_core_err (readNextBlockCore_crc_mismatch cfg d crc rest hv h16 hav hpos hne)

/-- without the zero-tail rule it is always reported -/
theorem readNextBlock_crc_mismatch_strict (cfg : Cfg) (d : Decoder) (crc : Checksum) (rest : Bytes)
    (hv : cfg.validatesCrc = true) (ht : cfg.zeroTailIsEOF = false) (h16 : 16 ≤ rest.length)
    (hav : (decodeBlockHeader rest).csize ≤ (rest.drop 16).length) (hpos : 0 < (decodeBlockHeader rest).csize)
    (hne : (crc ((rest.drop 16).take (decodeBlockHeader rest).csize)).toNat ≠ (decodeBlockHeader rest).crc) :
    readNextBlock cfg d crc rest = .err .crc :=
  readNextBlock_of_core_err' (readNextBlockCore_crc_mismatch cfg d crc rest hv h16 hav hpos hne)
    (fun _ => by omega) ht

/-! ### Allocation stays proportional to the file -/

/-- the decoder never returns more than it declared up front -/
def DecoderSane (d : Decoder) : Prop := ∀ c u, d.dec c = some u → u.length ≤ d.declLen c

theorem decodeEntry_ok_used (buf : Bytes) (e : Entry) (used : Nat) (h : decodeEntry buf = .ok (e, used)) :
    7 ≤ used ∧ used ≤ buf.length := by
  unfold decodeEntry at h
  simp only [shorterThan_eq, decide_eq_true_eq] at h
  split at h
  · cases h
  · split at h
    · cases h
    · rename_i op t
      try simp only at h
      split at h
      · cases h
      · split at h
        · cases h
        · split at h
          · cases h
          · rename_i hlen
            cases h
            constructor
            · omega
            · omega

theorem parseEntries_ok_length (n : Nat) (buf : Bytes) (es : List Entry) (h : parseEntries n buf = .ok es) :
    7 * n ≤ buf.length := by
  induction n generalizing buf es with
  | zero => omega
  | succ n ih =>
    simp only [parseEntries] at h
    split at h
    · cases h
    · rename_i e used hd
      obtain ⟨h7, hu⟩ := decodeEntry_ok_used buf e used hd
      split at h
      · cases h
      · rename_i es' hp
        have := ih (buf.drop used) es' hp
        simp only [List.length_drop] at this
        omega

theorem count_lt (rest : Bytes) : (decodeBlockHeader rest).count < 65536 := by
  have := unle_lt (((rest.drop 8).take 2))
  have hl : (((rest.drop 8).take 2)).length ≤ 2 := by simp; omega
  have hp : 256 ^ (((rest.drop 8).take 2)).length ≤ 256 ^ 2 := Nat.pow_le_pow_right (by decide) hl
  simp only [decodeBlockHeader]
  omega

/-- facts under which allocation is bounded -/
def AllocGuards (cfg : Cfg) : Prop := cfg.boundsCompressedSize = true ∧ cfg.boundsDecodedLen = true

theorem parseAlloc_le (cfg : Cfg) (d : Decoder) (crc : Checksum) (h : BlockHeader) (c : Bytes)
    (hg : cfg.boundsDecodedLen = true) (hs : DecoderSane d) (hc : h.count < 65536) :
    parseAlloc cfg d crc h c ≤ 96 * c.length + 192 + 3145680 := by
  unfold parseAlloc
  split
  · omega
  · split
    · omega
    · rename_i hb
      have hD : d.declLen c ≤ 32 * c.length + 64 := by
        simp only [hg, Bool.true_and, decide_eq_true_eq] at hb; omega
      cases hdec : d.dec c with
      | none => simp only; omega
      | some u =>
        have hu := hs c u hdec
        simp only
        split
        · omega
        · have hx : entrySlot * h.count + 2 * u.length ≤ 3145680 + 2 * d.declLen c := by
            simp only [entrySlot]; omega
          generalize entrySlot * h.count + 2 * u.length = X at hx ⊢
          omega

theorem parseAlloc_ok_le (cfg : Cfg) (d : Decoder) (crc : Checksum) (h : BlockHeader) (c : Bytes) (es : List Entry)
    (hg : cfg.boundsDecodedLen = true) (hs : DecoderSane d) (hp : parseBlock cfg d crc h c = .ok es) :
    parseAlloc cfg d crc h c ≤ 320 * c.length + 640 := by
  obtain ⟨_, hD, u, hu, _, hpe, _⟩ := parseBlock_ok cfg d crc h c es hp
  have hD := hD hg
  have hul := hs c u hu
  have hcnt := parseEntries_ok_length _ _ _ hpe
  unfold parseAlloc
  split
  · omega
  · split
    · omega
    · simp only [hu]
      split
      · omega
      · have hx : entrySlot * h.count + 2 * u.length ≤ 9 * d.declLen c := by
          simp only [entrySlot]; omega
        generalize entrySlot * h.count + 2 * u.length = X at hx ⊢
        omega

/-- allocation of one accepted block is at most 321 bytes per byte consumed -/
theorem blockAlloc_ok_le (cfg : Cfg) (d : Decoder) (crc : Checksum) (rest : Bytes) (es : List Entry) (rest' : Bytes)
    (hg : AllocGuards cfg) (hs : DecoderSane d) (h : readNextBlock cfg d crc rest = .ok es rest') :
    blockAlloc cfg d crc rest + 321 * rest'.length ≤ 321 * rest.length := by
  have hacc := readNextBlock_sound cfg d crc rest es rest' h
  have h := readNextBlock_ok_core h
  unfold readNextBlockCore at h
  simp only [shorterThan_eq, decide_eq_true_eq] at h
  split at h
  · cases h
  · split at h
    · cases h
    · split at h
      · split at h <;> cases h
      · rename_i hav
        split at h
        · cases h
        · rename_i es' hp
          cases h
          have hpa := parseAlloc_ok_le cfg d crc _ _ _ hg.2 hs hp
          unfold blockAlloc
          simp only [shorterThan_eq, decide_eq_true_eq]
          rw [if_neg (by have := hacc.hdr; omega), if_neg hav]
          have hcl : ((rest.drop 16).take (decodeBlockHeader rest).csize).length = (decodeBlockHeader rest).csize := by
            simp only [List.length_take, List.length_drop] at hav ⊢; omega
          rw [hcl] at hpa
          simp only [List.length_drop] at hav ⊢
          have := hacc.hdr
          omega

/-- allocation of any single `readNextBlock` is bounded by what remains of the file plus a constant -/
theorem blockAlloc_le (cfg : Cfg) (d : Decoder) (crc : Checksum) (rest : Bytes)
    (hg : AllocGuards cfg) (hs : DecoderSane d) :
    blockAlloc cfg d crc rest ≤ 97 * rest.length + 208 + 3145680 := by
  unfold blockAlloc
  simp only [shorterThan_eq, decide_eq_true_eq]
  split
  · omega
  · rename_i h16
    split
    · simp only [hg.1, if_true]; omega
    · rename_i hav
      have hpa := parseAlloc_le cfg d crc (decodeBlockHeader rest)
        ((rest.drop 16).take (decodeBlockHeader rest).csize) hg.2 hs (count_lt rest)
      have hcl : ((rest.drop 16).take (decodeBlockHeader rest).csize).length = (decodeBlockHeader rest).csize := by
        simp only [List.length_take, List.length_drop] at hav ⊢; omega
      rw [hcl] at hpa
      simp only [List.length_drop] at hav
      omega

theorem loadAllocLoop_le (cfg : Cfg) (d : Decoder) (crc : Checksum) (hg : AllocGuards cfg) (hs : DecoderSane d) :
    ∀ (n : Nat) (rest : Bytes), rest.length ≤ n →
      loadAllocLoop cfg d crc rest ≤ 321 * rest.length + 208 + 3145680 + 65536 := by
  have hz : zeroScanAlloc cfg ≤ 65536 := by unfold zeroScanAlloc; split <;> omega
  intro n
  induction n with
  | zero =>
    intro rest hl
    rw [loadAllocLoop]
    have hb := blockAlloc_le cfg d crc rest hg hs
    split
    · omega
    · omega
    · rename_i heq; have := readNextBlock_ok_length heq; omega
  | succ n ih =>
    intro rest hl
    rw [loadAllocLoop]
    have hb := blockAlloc_le cfg d crc rest hg hs
    split
    · omega
    · omega
    · rename_i es rest' heq
      have hlen := readNextBlock_ok_length heq
      have h1 := blockAlloc_ok_le cfg d crc rest es rest' hg hs heq
      have h2 := ih rest' (by omega)
      omega

theorem decodeFileHeader_nameLength_lt (b : Bytes) (h : FileHeader) (hd : decodeFileHeader b = .ok h) :
    h.nameLength < 65536 := by
  unfold decodeFileHeader at hd
  split at hd
  · cases hd
  · split at hd
    · cases hd
    · dsimp only at hd
      split at hd
      · cases hd
      · cases hd
        dsimp only
        split
        · have := unle_lt ((b.drop 44).take 2)
          have hl : ((b.drop 44).take 2).length ≤ 2 := by simp; omega
          have hp : 256 ^ ((b.drop 44).take 2).length ≤ 256 ^ 2 := Nat.pow_le_pow_right (by decide) hl
          omega
        · omega

theorem openReader_nameLength_lt (file : Bytes) (r : Reader) (hr : openReader file = .ok r) :
    r.hdr.nameLength < 65536 := by
  unfold openReader at hr
  split at hr
  · cases hr
  · split at hr
    · cases hr
    · rename_i h hd
      have hlt := decodeFileHeader_nameLength_lt _ h hd
      split at hr
      · split at hr
        · cases hr
        · cases hr; exact hlt
      · cases hr; exact hlt

/-- **alloc_bounded**: with both bounds checks in place, loading *any* byte string requests at
    most `321·len + K` bytes, for every decoder that does not exceed its own declared length. -/
theorem alloc_bounded (cfg : Cfg) (d : Decoder) (crc : Checksum) (file : Bytes)
    (hg : AllocGuards cfg) (hs : DecoderSane d) :
    loadAlloc cfg d crc file ≤ 321 * file.length + 3300000 := by
  unfold loadAlloc
  split
  · omega
  · rename_i r hr
    have hnl : r.hdr.nameLength < 65536 := openReader_nameLength_lt file r hr
    have hloop := loadAllocLoop_le cfg d crc hg hs _ (file.drop r.hdr.dataStart) (Nat.le_refl _)
    simp only [List.length_drop, entrySlot] at hloop
    omega

end Hv.Storage
