/-
  A file cut at any byte offset inside its block area (the torn tail of an interrupted append):
  with `cfg.shortPayloadIsEOF` the reader returns exactly the replay of a *prefix of the written
  blocks* — never an error, never anything that was not written.
-/
import Hv.Storage.ReaderLemmas
import Hv.Storage.CorruptLemmas

namespace Hv.Storage

/-- header decode only needs the size/count bounds of a block, not encodable entries -/
theorem readNextBlock_torn (cfg : Cfg) (he : cfg.shortPayloadIsEOF = true) (codec : Codec) (crc : Checksum)
    (es : List Entry) (hcount : es.length < 2 ^ 16) (hsize : sizeSum es < 2 ^ 31 + 2 ^ 17)
    (k : Nat) (hk : k < (encodeBlock codec crc es).length) :
    readNextBlock cfg codec.toDecoder crc ((encodeBlock codec crc es).take k) = .eof := by
  apply readNextBlock_of_core_eof
  have hu : (encodeEntries es).length < 2 ^ 31 + 2 ^ 17 := by rw [encodeEntries_length]; exact hsize
  have hc : (codec.enc (encodeEntries es)).length < 2 ^ 32 := enc_length_lt codec _ hu
  have hcrc : (crc (codec.enc (encodeEntries es))).toNat < 2 ^ 32 := UInt32.toNat_lt _
  generalize hcdef : codec.enc (encodeEntries es) = c at hc hcrc
  have e0 : encodeBlock codec crc es
      = encodeBlockHeader ⟨c.length, (encodeEntries es).length, es.length, (crc c).toNat, 0⟩ ++ c := by
    simp [encodeBlock, hcdef]
  rw [e0] at hk ⊢
  have hl16 := encodeBlockHeader_length ⟨c.length, (encodeEntries es).length, es.length, (crc c).toNat, 0⟩
  simp only [List.length_append, hl16] at hk
  by_cases h16 : k < 16
  · unfold readNextBlockCore
    simp only [shorterThan_eq, decide_eq_true_eq]
    rw [if_pos (by simp [List.length_take, hl16]; omega)]
  · have htake : (encodeBlockHeader ⟨c.length, (encodeEntries es).length, es.length, (crc c).toNat, 0⟩ ++ c).take k
        = encodeBlockHeader ⟨c.length, (encodeEntries es).length, es.length, (crc c).toNat, 0⟩ ++ c.take (k - 16) := by
      rw [List.take_append, hl16]
      rw [List.take_of_length_le (by omega)]
    rw [htake]
    unfold readNextBlockCore
    simp only [shorterThan_eq, decide_eq_true_eq]
    rw [if_neg (by simp [hl16])]
    rw [decodeBlockHeader_encode _ _ hc (by simp; omega) hcount hcrc (by simp)]
    rw [drop_append_len _ _ 16 hl16]
    have hshort : (c.take (k - 16)).length < c.length := by simp [List.length_take]; omega
    by_cases hemp : (c.take (k - 16)).isEmpty = true
    · have : 0 < c.length := by omega
      simp [hemp, this]
    · simp only [Bool.not_eq_true] at hemp
      simp only [hemp, Bool.and_false, Bool.false_eq_true, if_false]
      rw [if_pos hshort]
      simp [he]

/-- `ReadAllEntries` on a block area cut at any offset: the entries of the first `j` blocks -/
theorem readBlocksP_truncated (cfg : Cfg) (he : cfg.shortPayloadIsEOF = true) (codec : Codec) (crc : Checksum)
    (blocks : List (List Entry)) (hg : ∀ b ∈ blocks, GoodBlock b) (k : Nat) :
    ∃ j, j ≤ blocks.length ∧
      readBlocksP cfg codec.toDecoder crc ((renderBlocks codec crc blocks).take k) = ((blocks.take j).flatten, none) := by
  induction blocks generalizing k with
  | nil => exact ⟨0, by simp, by simp [renderBlocks, readBlocksP_nil]⟩
  | cons b bs ih =>
    have hb := hg b (by simp)
    have hbs : ∀ x ∈ bs, GoodBlock x := fun x hx => hg x (by simp [hx])
    have hr : renderBlocks codec crc (b :: bs) = encodeBlock codec crc b ++ renderBlocks codec crc bs := by
      simp [renderBlocks]
    rw [hr]
    by_cases hk : k < (encodeBlock codec crc b).length
    · refine ⟨0, by simp, ?_⟩
      have : (encodeBlock codec crc b ++ renderBlocks codec crc bs).take k = (encodeBlock codec crc b).take k := by
        rw [List.take_append]
        have : k - (encodeBlock codec crc b).length = 0 := by omega
        simp [this]
      rw [this, readBlocksP_eof _ _ _ _ (readNextBlock_torn cfg he codec crc b hb.count hb.size k hk)]
      simp
    · obtain ⟨j, hj, hrest⟩ := ih hbs (k - (encodeBlock codec crc b).length)
      refine ⟨j + 1, by simp; omega, ?_⟩
      have : (encodeBlock codec crc b ++ renderBlocks codec crc bs).take k
          = encodeBlock codec crc b ++ (renderBlocks codec crc bs).take (k - (encodeBlock codec crc b).length) := by
        rw [List.take_append, List.take_of_length_le (by omega)]
      rw [this, readBlocksP_block cfg codec crc b _ hb, hrest]
      simp

/-- **load_is_prefix_replay**: a file cut anywhere after its name area loads, without error, to the
    replay of the first `j` blocks that were written — for every lawful codec, checksum and the
    other code facts. -/
theorem load_is_prefix_replay (cfg : Cfg) (he : cfg.shortPayloadIsEOF = true) (codec : Codec) (crc : Checksum)
    (h : FileHeader) (name : Bytes) (blocks : List (List Entry)) (hv : h.Valid) (hn : NameOk h name)
    (hg : ∀ b ∈ blocks, GoodBlock b) (k : Nat) :
    ∃ j, j ≤ blocks.length ∧
      loadIndex cfg codec.toDecoder crc (encodeFileHeader h ++ (name ++ (renderBlocks codec crc blocks).take k))
        = .ok (replay cfg (blocks.take j).flatten,
               if name.isEmpty then metaName (blocks.take j).flatten else name) := by
  obtain ⟨j, hj, hread⟩ := readBlocksP_truncated cfg he codec crc blocks hg k
  refine ⟨j, hj, ?_⟩
  unfold loadIndex
  rw [openReader_prefix h name _ hv hn]
  simp only
  rw [drop_dataStart h name _ hn]
  unfold readBlocks
  rw [hread]

/-- What is *not* reported.  A block header whose `CompressedSize` exceeds what is left of the file
    ends the data silently when `cfg.shortPayloadIsEOF` (it is indistinguishable from the torn tail
    of an interrupted append) — wherever it sits: every intact block behind it is ignored without an
    error.  (Without the fact the same input is the error `ueof`, unless nothing follows the header.) -/
theorem oversized_csize_hides_rest (cfg : Cfg) (he : cfg.shortPayloadIsEOF = true) (d : Decoder) (crc : Checksum)
    (rest : Bytes) (h16 : 16 ≤ rest.length) (hbig : (rest.drop 16).length < (decodeBlockHeader rest).csize) :
    readBlocksP cfg d crc rest = ([], none) := by
  apply readBlocksP_eof
  apply readNextBlock_of_core_eof
  unfold readNextBlockCore
  simp only [shorterThan_eq, decide_eq_true_eq]
  rw [if_neg (by omega)]
  by_cases hemp : (rest.drop 16).isEmpty = true
  · have : 0 < (decodeBlockHeader rest).csize := by omega
    simp [hemp, this]
  · simp only [Bool.not_eq_true] at hemp
    simp only [hemp, Bool.and_false, Bool.false_eq_true, if_false]
    rw [if_pos hbig]
    simp [he]

/-- the same at file level: blocks written before the damaged header load, everything after it is
    dropped, and `LoadIndex` returns no error -/
theorem load_after_oversized_csize (cfg : Cfg) (he : cfg.shortPayloadIsEOF = true) (codec : Codec) (crc : Checksum)
    (h : FileHeader) (name : Bytes) (before : List (List Entry)) (rest : Bytes) (hv : h.Valid) (hn : NameOk h name)
    (hg : ∀ b ∈ before, GoodBlock b) (h16 : 16 ≤ rest.length)
    (hbig : (rest.drop 16).length < (decodeBlockHeader rest).csize) :
    loadIndex cfg codec.toDecoder crc (encodeFileHeader h ++ (name ++ (renderBlocks codec crc before ++ rest)))
      = .ok (replay cfg before.flatten, if name.isEmpty then metaName before.flatten else name) := by
  unfold loadIndex
  rw [openReader_prefix h name _ hv hn]
  simp only
  rw [drop_dataStart h name _ hn]
  unfold readBlocks
  rw [readBlocksP_blocks cfg codec crc before rest hg, oversized_csize_hides_rest cfg he _ crc rest h16 hbig]
  simp

/-! ### The zero-filled tail (file size reached the disk, the data did not) -/

/-- **The prefix property of every clean end**, whatever rule produced it: if the reader stops
    cleanly at `rest` behind blocks that were written, `LoadIndex` returns exactly the replay of
    those blocks — nothing that was not written, nothing reordered. -/
theorem load_stops_at_eof (cfg : Cfg) (codec : Codec) (crc : Checksum)
    (h : FileHeader) (name : Bytes) (before : List (List Entry)) (rest : Bytes) (hv : h.Valid) (hn : NameOk h name)
    (hg : ∀ b ∈ before, GoodBlock b) (hstop : readNextBlock cfg codec.toDecoder crc rest = .eof) :
    loadIndex cfg codec.toDecoder crc (encodeFileHeader h ++ (name ++ (renderBlocks codec crc before ++ rest)))
      = .ok (replay cfg before.flatten, if name.isEmpty then metaName before.flatten else name) := by
  unfold loadIndex
  rw [openReader_prefix h name _ hv hn]
  simp only
  rw [drop_dataStart h name _ hn]
  unfold readBlocks
  rw [readBlocksP_blocks cfg codec crc before rest hg, readBlocksP_eof _ _ _ _ hstop]
  simp

/-- a zero size field ends the data -/
theorem readNextBlock_zeroSize (cfg : Cfg) (hz : cfg.zeroSizeIsEOF = true) (d : Decoder) (crc : Checksum)
    (rest : Bytes) (h0 : (decodeBlockHeader rest).csize = 0) : readNextBlock cfg d crc rest = .eof := by
  unfold readNextBlock
  simp [hz, h0]

theorem unle_zeros (n : Nat) : unle (List.replicate n 0) = 0 := by
  induction n with
  | zero => rfl
  | succ n ih => simp [List.replicate_succ, unle, ih]

/-- a tail of zero bytes of any length ends the data: shorter than a block header it is the short
    header, otherwise its size field reads 0 -/
theorem readNextBlock_zeros (cfg : Cfg) (hz : cfg.zeroSizeIsEOF = true) (d : Decoder) (crc : Checksum) (n : Nat) :
    readNextBlock cfg d crc (List.replicate n 0) = .eof := by
  apply readNextBlock_zeroSize cfg hz
  simp only [decodeBlockHeader, List.take_replicate]
  exact unle_zeros _

/-- **load_zero_filled_tail**: blocks that were written, followed by any number of zero bytes, load
    without error to exactly the replay of those blocks. -/
theorem load_zero_filled_tail (cfg : Cfg) (hz : cfg.zeroSizeIsEOF = true) (codec : Codec) (crc : Checksum)
    (h : FileHeader) (name : Bytes) (before : List (List Entry)) (n : Nat) (hv : h.Valid) (hn : NameOk h name)
    (hg : ∀ b ∈ before, GoodBlock b) :
    loadIndex cfg codec.toDecoder crc
        (encodeFileHeader h ++ (name ++ (renderBlocks codec crc before ++ List.replicate n 0)))
      = .ok (replay cfg before.flatten, if name.isEmpty then metaName before.flatten else name) :=
  load_stops_at_eof cfg codec crc h name before _ hv hn hg (readNextBlock_zeros cfg hz codec.toDecoder crc n)

/-- the zero-tail rule only ever turns an error into the end of the data: a block it applies to is
    one the core reader refuses, so no entry of it (or behind it) is returned -/
theorem zeroTail_only_drops (cfg : Cfg) (d : Decoder) (crc : Checksum) (rest : Bytes)
    (hstop : readNextBlock cfg d crc rest = .eof) :
    readNextBlockCore cfg d crc rest = .eof ∨ (∃ e, readNextBlockCore cfg d crc rest = .err e) ∨
      (cfg.zeroSizeIsEOF = true ∧ (decodeBlockHeader rest).csize = 0) := by
  unfold readNextBlock at hstop
  split at hstop
  · rename_i hc
    simp only [Bool.and_eq_true, beq_iff_eq] at hc
    exact Or.inr (Or.inr hc)
  · split at hstop
    · rename_i heq; exact Or.inl heq
    · cases hstop
    · rename_i e heq; exact Or.inr (Or.inl ⟨e, heq⟩)

end Hv.Storage
