/-
  Round-trip lemmas of the byte format: entry, entry list, block header, block, file header.
-/
import Hv.Storage.Reader

namespace Hv.Storage

theorem encodeEntry_length (e : Entry) : (encodeEntry e).length = e.size := by
  simp [encodeEntry, Entry.size]; omega

/-- `Entry.Deserialize ∘ Entry.Serialize = id` on encodable entries, with any bytes following. -/
theorem decodeEntry_encodeEntry (e : Entry) (rest : Bytes) (he : Encodable e) :
    decodeEntry (encodeEntry e ++ rest) = .ok (e, e.size) := by
  obtain ⟨hk0, hk, hd⟩ := he
  obtain ⟨op, key, data⟩ := e
  simp only at hk0 hk hd
  have e1 : encodeEntry ⟨op, key, data⟩ ++ rest
      = op :: (le 2 key.length ++ (key ++ (le 4 data.length ++ (data ++ rest)))) := by
    simp [encodeEntry]
  rw [e1]
  have hlen : (op :: (le 2 key.length ++ (key ++ (le 4 data.length ++ (data ++ rest))))).length
      = 7 + key.length + data.length + rest.length := by
    simp; omega
  have hk2 : unle (le 2 key.length) = key.length := unle_le_of_lt (by simpa using hk)
  have hd4 : unle (le 4 data.length) = data.length := unle_le_of_lt (by simpa using hd)
  have t1 : (le 2 key.length ++ (key ++ (le 4 data.length ++ (data ++ rest)))).take 2 = le 2 key.length :=
    take_append_len _ _ 2 (by simp)
  have d1 : (le 2 key.length ++ (key ++ (le 4 data.length ++ (data ++ rest)))).drop 2
      = key ++ (le 4 data.length ++ (data ++ rest)) := drop_append_len _ _ 2 (by simp)
  have t2 : (key ++ (le 4 data.length ++ (data ++ rest))).take key.length = key :=
    take_append_len _ _ _ rfl
  have d2 : (key ++ (le 4 data.length ++ (data ++ rest))).drop key.length
      = le 4 data.length ++ (data ++ rest) := drop_append_len _ _ _ rfl
  have t3 : (le 4 data.length ++ (data ++ rest)).take 4 = le 4 data.length :=
    take_append_len _ _ 4 (by simp)
  have d3 : (le 4 data.length ++ (data ++ rest)).drop 4 = data ++ rest := drop_append_len _ _ 4 (by simp)
  have t4 : (data ++ rest).take data.length = data := take_append_len _ _ _ rfl
  have hne : key.isEmpty = false := by
    cases key with
    | nil => simp at hk0
    | cons _ _ => rfl
  unfold decodeEntry
  simp only [shorterThan_eq, decide_eq_true_eq]
  rw [if_neg (by rw [hlen]; omega)]
  simp only [t1, hk2, d1, t2, d2, t3, hd4, d3, t4, hne]
  rw [if_neg (by rw [hlen]; omega)]
  simp only [Bool.false_eq_true, if_false]
  rw [if_neg (by rw [hlen]; omega)]
  simp [Entry.size]

theorem encodeEntries_cons (e : Entry) (es : List Entry) :
    encodeEntries (e :: es) = encodeEntry e ++ encodeEntries es := by
  simp [encodeEntries]

theorem encodeEntries_append (a b : List Entry) :
    encodeEntries (a ++ b) = encodeEntries a ++ encodeEntries b := by
  simp [encodeEntries]

theorem encodeEntries_length (es : List Entry) : (encodeEntries es).length = sizeSum es := by
  induction es with
  | nil => rfl
  | cons e es ih => simp [encodeEntries_cons, encodeEntry_length, ih, sizeSum]

/-- the entry loop of `ParseBlock` recovers exactly the serialized entries -/
theorem parseEntries_encodeEntries (es : List Entry) (rest : Bytes) (h : ∀ e ∈ es, Encodable e) :
    parseEntries es.length (encodeEntries es ++ rest) = .ok es := by
  induction es with
  | nil => rfl
  | cons e es ih =>
    have he := h e (by simp)
    have hes : ∀ x ∈ es, Encodable x := fun x hx => h x (by simp [hx])
    simp only [List.length_cons, parseEntries, encodeEntries_cons, List.append_assoc]
    rw [decodeEntry_encodeEntry e _ he]
    simp only
    rw [drop_append_len _ _ _ (encodeEntry_length e), ih hes]

/-- a count field smaller than the number of serialized entries silently drops the tail -/
theorem parseEntries_prefix (n : Nat) (es : List Entry) (rest : Bytes) (h : ∀ e ∈ es, Encodable e)
    (hn : n ≤ es.length) : parseEntries n (encodeEntries es ++ rest) = .ok (es.take n) := by
  have hsplit : es = es.take n ++ es.drop n := (List.take_append_drop n es).symm
  have hl : (es.take n).length = n := by simp [List.length_take]; omega
  have h1 : ∀ e ∈ es.take n, Encodable e := fun e he => h e (List.mem_of_mem_take he)
  have := parseEntries_encodeEntries (es.take n) (encodeEntries (es.drop n) ++ rest) h1
  rw [hl, ← List.append_assoc, ← encodeEntries_append, ← hsplit] at this
  exact this

theorem encodeBlockHeader_length (h : BlockHeader) : (encodeBlockHeader h).length = 16 := by
  simp [encodeBlockHeader]

theorem decodeBlockHeader_encode (h : BlockHeader) (rest : Bytes)
    (h1 : h.csize < 2 ^ 32) (h2 : h.usize < 2 ^ 32) (h3 : h.count < 2 ^ 16) (h4 : h.crc < 2 ^ 32)
    (h5 : h.flags < 2 ^ 16) : decodeBlockHeader (encodeBlockHeader h ++ rest) = h := by
  obtain ⟨a, b, c, d, e⟩ := h
  simp only at h1 h2 h3 h4 h5
  have e0 : encodeBlockHeader ⟨a, b, c, d, e⟩ ++ rest
      = le 4 a ++ (le 4 b ++ (le 2 c ++ (le 4 d ++ (le 2 e ++ rest)))) := by
    simp [encodeBlockHeader]
  rw [e0]
  have da : (le 4 a ++ (le 4 b ++ (le 2 c ++ (le 4 d ++ (le 2 e ++ rest))))).drop 4
      = le 4 b ++ (le 2 c ++ (le 4 d ++ (le 2 e ++ rest))) := drop_append_len _ _ 4 (by simp)
  have db : (le 4 a ++ (le 4 b ++ (le 2 c ++ (le 4 d ++ (le 2 e ++ rest))))).drop 8
      = le 2 c ++ (le 4 d ++ (le 2 e ++ rest)) := by
    rw [← List.append_assoc]; exact drop_append_len _ _ 8 (by simp)
  have dc : (le 4 a ++ (le 4 b ++ (le 2 c ++ (le 4 d ++ (le 2 e ++ rest))))).drop 10
      = le 4 d ++ (le 2 e ++ rest) := by
    rw [← List.append_assoc, ← List.append_assoc]; exact drop_append_len _ _ 10 (by simp)
  have dd : (le 4 a ++ (le 4 b ++ (le 2 c ++ (le 4 d ++ (le 2 e ++ rest))))).drop 14
      = le 2 e ++ rest := by
    rw [← List.append_assoc, ← List.append_assoc, ← List.append_assoc]
    exact drop_append_len _ _ 14 (by simp)
  unfold decodeBlockHeader
  rw [da, db, dc, dd]
  rw [take_append_len _ _ 4 (by simp), take_append_len _ _ 4 (by simp), take_append_len _ _ 2 (by simp),
    take_append_len _ _ 4 (by simp), take_append_len _ _ 2 (by simp)]
  rw [unle_le_of_lt (by simpa using h1), unle_le_of_lt (by simpa using h2), unle_le_of_lt (by simpa using h3),
    unle_le_of_lt (by simpa using h4), unle_le_of_lt (by simpa using h5)]

/-- what a reader sees of *any* header the writer emits: every field modulo its width -/
theorem decodeBlockHeader_encode_mod (h : BlockHeader) (rest : Bytes) :
    decodeBlockHeader (encodeBlockHeader h ++ rest)
      = ⟨h.csize % 2 ^ 32, h.usize % 2 ^ 32, h.count % 2 ^ 16, h.crc % 2 ^ 32, h.flags % 2 ^ 16⟩ := by
  have hm : encodeBlockHeader h
      = encodeBlockHeader ⟨h.csize % 2 ^ 32, h.usize % 2 ^ 32, h.count % 2 ^ 16, h.crc % 2 ^ 32, h.flags % 2 ^ 16⟩ := by
    have e4 : (2 : Nat) ^ 32 = 256 ^ 4 := by decide
    have e2 : (2 : Nat) ^ 16 = 256 ^ 2 := by decide
    simp only [encodeBlockHeader, e4, e2, le_mod]
  rw [hm]
  exact decodeBlockHeader_encode _ rest (Nat.mod_lt _ (by decide)) (Nat.mod_lt _ (by decide))
    (Nat.mod_lt _ (by decide)) (Nat.mod_lt _ (by decide)) (Nat.mod_lt _ (by decide))

/-- A block the format can carry: encodable entries, count fits 16 bits, sizes fit 32 bits. -/
structure GoodBlock (es : List Entry) : Prop where
  enc : ∀ e ∈ es, Encodable e
  count : es.length < 2 ^ 16
  size : sizeSum es < 2 ^ 31 + 2 ^ 17
  /-- `flushLocked` writes nothing for an empty buffer -/
  ne : es ≠ []

theorem enc_length_lt (codec : Codec) (u : Bytes) (h : u.length < 2 ^ 31 + 2 ^ 17) :
    (codec.enc u).length < 2 ^ 32 := by
  have := codec.grow u
  omega

/-- result of `readNextBlock` in terms of the entry loop's result -/
def blockResOf (r : Except Err (List Entry)) (rest : Bytes) : BlockRes :=
  match r with
  | .error e => .err e
  | .ok es => .ok es rest

/-- `readNextBlock` on a block written by `flushLocked` from *any* entries, however many: header,
    checksum, decompression and length check all pass; what remains is the entry loop, run for
    `len mod 65536` entries. -/
theorem readNextBlockCore_encodeBlock_any (cfg : Cfg) (codec : Codec) (crc : Checksum) (es : List Entry)
    (rest : Bytes) (hsize : sizeSum es < 2 ^ 31 + 2 ^ 17) :
    readNextBlockCore cfg codec.toDecoder crc (encodeBlock codec crc es ++ rest)
      = blockResOf (finishParse cfg (encodeEntries es).length (parseEntries (es.length % 2 ^ 16) (encodeEntries es))) rest := by
  have hu : (encodeEntries es).length < 2 ^ 31 + 2 ^ 17 := by rw [encodeEntries_length]; exact hsize
  have hc : (codec.enc (encodeEntries es)).length < 2 ^ 32 := enc_length_lt codec _ hu
  have hcrc : (crc (codec.enc (encodeEntries es))).toNat < 2 ^ 32 := UInt32.toNat_lt _
  have hdec := codec.law (encodeEntries es)
  have hdecl := codec.declOk (encodeEntries es)
  generalize hcdef : codec.enc (encodeEntries es) = c at hc hcrc hdec hdecl
  have e0 : encodeBlock codec crc es ++ rest
      = encodeBlockHeader ⟨c.length, (encodeEntries es).length, es.length, (crc c).toNat, 0⟩ ++ (c ++ rest) := by
    simp [encodeBlock, hcdef]
  have hcond : (decide (0 < c.length) && (c ++ rest).isEmpty) = false := by
    cases c <;> simp
  unfold readNextBlockCore
  simp only [shorterThan_eq, decide_eq_true_eq]
  rw [e0]
  rw [if_neg (by simp [encodeBlockHeader_length])]
  try simp only
  rw [decodeBlockHeader_encode_mod]
  rw [drop_append_len _ _ 16 (encodeBlockHeader_length _)]
  have m1 : c.length % 2 ^ 32 = c.length := Nat.mod_eq_of_lt hc
  have m2 : (encodeEntries es).length % 2 ^ 32 = (encodeEntries es).length := Nat.mod_eq_of_lt (by omega)
  have m3 : (crc c).toNat % 2 ^ 32 = (crc c).toNat := Nat.mod_eq_of_lt hcrc
  simp only [m1, m2, m3, hcond, Bool.false_eq_true, if_false]
  rw [if_neg (by simp)]
  rw [take_append_len _ _ _ rfl, drop_append_len _ _ _ rfl]
  have hpb : parseBlock cfg codec.toDecoder crc
      ⟨c.length, (encodeEntries es).length, es.length % 2 ^ 16, (crc c).toNat, 0 % 2 ^ 16⟩ c
        = finishParse cfg (encodeEntries es).length (parseEntries (es.length % 2 ^ 16) (encodeEntries es)) := by
    unfold parseBlock
    have hnd : (decide (32 * c.length + 64 < codec.toDecoder.declLen c)) = false := by
      simp only [decide_eq_false_iff_not]; omega
    simp only [bne_self_eq_false, Bool.and_false, Bool.false_eq_true, if_false, hdec, hnd]
    simp only [m2, bne_self_eq_false, Bool.and_false, Bool.false_eq_true, if_false]
  rw [hpb]
  cases finishParse cfg (encodeEntries es).length (parseEntries (es.length % 2 ^ 16) (encodeEntries es)) <;> rfl

theorem readNextBlockCore_encodeBlock_gen (cfg : Cfg) (codec : Codec) (crc : Checksum) (es : List Entry)
    (rest : Bytes) (hcount : es.length < 2 ^ 16) (hsize : sizeSum es < 2 ^ 31 + 2 ^ 17) :
    readNextBlockCore cfg codec.toDecoder crc (encodeBlock codec crc es ++ rest)
      = blockResOf (finishParse cfg (encodeEntries es).length (parseEntries es.length (encodeEntries es))) rest := by
  rw [readNextBlockCore_encodeBlock_any cfg codec crc es rest hsize, Nat.mod_eq_of_lt hcount]

/-- the size field of a written block, whatever follows it -/
theorem csize_encodeBlock (codec : Codec) (crc : Checksum) (es : List Entry) (rest : Bytes)
    (hsize : sizeSum es < 2 ^ 31 + 2 ^ 17) :
    (decodeBlockHeader (encodeBlock codec crc es ++ rest)).csize = (codec.enc (encodeEntries es)).length := by
  have hu : (encodeEntries es).length < 2 ^ 31 + 2 ^ 17 := by rw [encodeEntries_length]; exact hsize
  have hc : (codec.enc (encodeEntries es)).length < 2 ^ 32 := enc_length_lt codec _ hu
  have e0 : encodeBlock codec crc es ++ rest
      = encodeBlockHeader ⟨(codec.enc (encodeEntries es)).length, (encodeEntries es).length, es.length,
          (crc (codec.enc (encodeEntries es))).toNat, 0⟩ ++ (codec.enc (encodeEntries es) ++ rest) := by
    simp [encodeBlock]
  rw [e0, decodeBlockHeader_encode_mod]
  exact Nat.mod_eq_of_lt hc

/-- a written block is never empty: its size field is not the 0 the reader takes for the end -/
theorem csize_encodeBlock_ne_zero (codec : Codec) (crc : Checksum) (es : List Entry) (rest : Bytes)
    (hsize : sizeSum es < 2 ^ 31 + 2 ^ 17) (hne : es ≠ []) :
    (decodeBlockHeader (encodeBlock codec crc es ++ rest)).csize ≠ 0 := by
  rw [csize_encodeBlock codec crc es rest hsize]
  have hu : encodeEntries es ≠ [] := by
    intro h
    have hl := encodeEntries_length es
    rw [h] at hl
    cases es with
    | nil => exact hne rfl
    | cons e t => simp [sizeSum, Entry.size] at hl; omega
  have := codec.nonempty _ hu
  intro h0
  exact this (List.eq_nil_of_length_eq_zero h0)

/-- `readNextBlock` on a block written by `flushLocked`, whatever follows it
    (for every lawful codec, every checksum, every value of the code facts). -/
theorem readNextBlock_encodeBlock (cfg : Cfg) (codec : Codec) (crc : Checksum) (es : List Entry)
    (rest : Bytes) (hg : GoodBlock es) :
    readNextBlock cfg codec.toDecoder crc (encodeBlock codec crc es ++ rest) = .ok es rest := by
  apply readNextBlock_of_core_ok
  · rw [readNextBlockCore_encodeBlock_gen cfg codec crc es rest hg.count hg.size]
    have hpe := parseEntries_encodeEntries es [] hg.enc
    rw [List.append_nil] at hpe
    rw [hpe]
    simp [finishParse, encodeEntries_length, blockResOf]
  · intro _
    exact csize_encodeBlock_ne_zero codec crc es rest hg.size hg.ne

/-- a zero key-length field is always rejected: this is what an empty key *and* a 65536-byte key
    look like on disk -/
theorem decodeEntry_zeroKeyLen (op : UInt8) (rest : Bytes) (h : 4 ≤ rest.length) :
    decodeEntry (op :: 0 :: 0 :: rest) = .error .emptyKey := by
  unfold decodeEntry
  simp only [shorterThan_eq, decide_eq_true_eq]
  rw [if_neg (by simp; omega)]
  simp only [List.take_succ_cons, List.take_zero, unle]
  have : (0 : UInt8).toNat = 0 := rfl
  simp only [this]
  rw [if_neg (by simp; omega)]
  simp

end Hv.Storage
