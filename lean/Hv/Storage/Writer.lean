/-
  Model of the writer (app/core/hydra/swamp/chronicler/v2/writer.go, block.go:WriteBuffer).

  State: the file's bytes on disk plus the open `FileWriter` session, if any.  One `Op` is
  one call of the public API.  `createFile`/`openExisting` are `createNewFile`/`openExistingFile`;
  `flushSess` is `flushLocked` (block header, compressed data, then the in-place rewrite of the
  64-byte file header with the running counters).  Counters are `uint64` (wrap), the per-block
  entry count is `uint16` (wraps — the code does not guard it unless `cfg.flushAtCount`).
-/
import Hv.Storage.Reader

namespace Hv.Storage

/-- the open `FileWriter` -/
structure Sess where
  hdr : FileHeader
  /-- buffered entries, newest first (`wb.entries` reversed: appending is a cons) -/
  bufRev : List Entry
  /-- `len(wb.entries)`, kept as a number so that the executable model stays linear -/
  bufCount : Nat
  bufSize : Nat
  blockCount : Nat
  entryCount : Nat
  deriving Repr

structure St where
  file : Bytes
  sess : Option Sess
  deriving Repr

inductive Op where
  | write (e : Entry)
  | flush
  | sync
  | close
  | reopen
  deriving Repr

inductive Reply where
  | ok
  | rejClosed
  | rejEmptyKey
  | rejLongKey
  | rejOpen
  | rejHeader
  deriving DecidableEq, Repr

/-- `NewWriteBuffer`: a non-positive size means the default -/
def maxSizeOf (bs : Nat) : Nat := if bs = 0 then 16384 else bs

/-- `NewFileHeader` + `createNewFile` (the file did not exist) -/
def initHdr (name : Bytes) (now : Nat) : FileHeader :=
  { version := 3, flags := 0, createdAt := now % 2 ^ 64, modifiedAt := now % 2 ^ 64,
    blockSize := 16384, entryCount := 0, blockCount := 0,
    nameLength := name.length % 2 ^ 16, reserved := List.replicate 14 0 }

def createFile (name : Bytes) (now : Nat) : St :=
  { file := encodeFileHeader (initHdr name now) ++ name, sess := some ⟨initHdr name now, [], 0, 0, 0, 0⟩ }

/-- `NewFileWriterWithName` on a path that does not exist; with the name-length guard the
    constructor fails and nothing usable is left behind -/
def createFileCfg (cfg : Cfg) (name : Bytes) (now : Nat) : Option St :=
  if cfg.rejectsLongName && 65535 < name.length then none else some (createFile name now)

/-- the torn-tail walk of `openExistingFile`: total length of the leading blocks that are entirely
    there (16-byte header + `CompressedSize` bytes each) -/
def walkEnd (stopZero : Bool) : Nat → Bytes → Nat
  | 0, _ => 0
  | fuel + 1, rest =>
    if shorterThan rest 16 then 0 else
    let cs := unle (rest.take 4)
    if shorterThan (rest.drop 16) cs then 0
    -- a zero size field: the zero-filled tail the reader takes for the end of the data
    else if stopZero && cs == 0 then 0
    else 16 + cs + walkEnd stopZero fuel (rest.drop (16 + cs))

/-- `openExistingFile`: the session and the (possibly truncated) file.  A file too short for its
    header or name is re-created by the code; the model does not follow that path (no state the
    writer itself leaves behind has that shape) and reports `none`.  The same holds for the three
    branches the code has for files no history of the writer alone produces: a header of 64 zero
    bytes (the file is replaced by a fresh one), a last walked block whose checksum does not match
    (it is cut as well) and a damaged block with an intact one behind it (open fails, the file is
    left untouched).  On every file the writer leaves behind none of them is taken: the header
    carries the magic, the walk reaches the end of the file and every block has the checksum it was
    written with (`openExisting_ok`).  Their presence is extracted (`openRestartsZeroHeader`,
    `openChecksLastBlock`, `openSparesMidDamage`) so that a change of that code is noticed. -/
def openExisting (cfg : Cfg) (file : Bytes) : Option (Bytes × Sess) :=
  if file.length < 64 then none else
  match decodeFileHeader (file.take 64) with
  | .error _ => none
  | .ok h =>
    if file.length < h.dataStart then none else
    let file' := if cfg.openCutsTornTail
      then file.take (h.dataStart + walkEnd cfg.openStopsAtZeroSize (file.length / 16 + 1) (file.drop h.dataStart)) else file
    some (file', ⟨h, [], 0, 0, h.blockCount, h.entryCount⟩)

/-- in-place rewrite of the first 64 bytes -/
def rewriteHeader (file : Bytes) (h : FileHeader) : Bytes := encodeFileHeader h ++ file.drop 64

/-- `flushLocked` -/
def flushSess (codec : Codec) (crc : Checksum) (file : Bytes) (s : Sess) : Bytes × Sess :=
  if s.bufRev.isEmpty then (file, s) else
  let file1 := file ++ encodeBlock codec crc s.bufRev.reverse
  let bc := (s.blockCount + 1) % 2 ^ 64
  let ec := (s.entryCount + s.bufRev.length % 2 ^ 16) % 2 ^ 64
  let hdr := { s.hdr with blockCount := bc, entryCount := ec }
  (rewriteHeader file1 hdr, { s with hdr := hdr, bufRev := [], bufCount := 0, bufSize := 0, blockCount := bc, entryCount := ec })

/-- the header rewrite `Sync` and `Close` perform after flushing -/
def finishSess (codec : Codec) (crc : Checksum) (file : Bytes) (s : Sess) : Bytes × Sess :=
  let (file1, s1) := flushSess codec crc file s
  let hdr := { s1.hdr with blockCount := s1.blockCount, entryCount := s1.entryCount }
  (rewriteHeader file1 hdr, { s1 with hdr := hdr })

/-- `WriteBuffer.Add`'s verdict after appending -/
def shouldFlush (cfg : Cfg) (bs : Nat) (bufSize count : Nat) : Bool :=
  (if cfg.flushGe then maxSizeOf bs ≤ bufSize else maxSizeOf bs < bufSize) ||
  (cfg.flushAtCount && 65535 ≤ count)

/-- the validation `WriteEntry` performs before `buffer.Add` -/
def accepts (cfg : Cfg) (e : Entry) : Bool :=
  !(cfg.rejectsEmptyKey && e.key.isEmpty) && !(cfg.rejectsLongKey && 65535 < e.key.length)

def step (cfg : Cfg) (codec : Codec) (crc : Checksum) (bs : Nat) (st : St) (op : Op) : St × Reply :=
  match op, st.sess with
  | .write _, none => (st, .rejClosed)
  | .write e, some s =>
    if cfg.rejectsEmptyKey && e.key.isEmpty then (st, .rejEmptyKey)
    else if cfg.rejectsLongKey && 65535 < e.key.length then (st, .rejLongKey)
    else
      let s1 := { s with bufRev := e :: s.bufRev, bufCount := s.bufCount + 1, bufSize := s.bufSize + e.size }
      if shouldFlush cfg bs s1.bufSize s1.bufCount then
        let (f, s2) := flushSess codec crc st.file s1
        ({ file := f, sess := some s2 }, .ok)
      else ({ st with sess := some s1 }, .ok)
  | .flush, none => (st, .rejClosed)
  | .flush, some s =>
    let (f, s1) := flushSess codec crc st.file s
    ({ file := f, sess := some s1 }, .ok)
  | .sync, none => (st, .rejClosed)
  | .sync, some s =>
    let (f, s1) := finishSess codec crc st.file s
    ({ file := f, sess := some s1 }, .ok)
  | .close, none => (st, .ok)            -- `Close` on a closed writer returns nil
  | .close, some s =>
    let (f, _) := finishSess codec crc st.file s
    ({ file := f, sess := none }, .ok)
  | .reopen, some _ => (st, .rejOpen)    -- the harness never opens two writers on one file
  | .reopen, none =>
    match openExisting cfg st.file with
    | none => (st, .rejHeader)
    | some (f, s) => ({ file := f, sess := some s }, .ok)

def runOps (cfg : Cfg) (codec : Codec) (crc : Checksum) (bs : Nat) (st : St) (ops : List Op) : St :=
  ops.foldl (fun s o => (step cfg codec crc bs s o).1) st

/-- The crash window of `flushLocked` made permanent: a block was appended but the in-place header
    rewrite never happened (here in its extreme form: the counters still say 0/0).  Only the 16
    counter bytes of the header change.  Meaningful while no writer is open. -/
def zeroCounts (st : St) : St :=
  match st.sess, decodeFileHeader (st.file.take 64) with
  | none, .ok h => { st with file := rewriteHeader st.file { h with blockCount := 0, entryCount := 0 } }
  | _, _ => st

/-- `Compactor.Compact` (forced): load the live index and the name, write a fresh V3 file under
    that name with one INSERT per live key (through `WriteEntry`, so the buffer's flush rules
    apply), close it, and put it in place of the old file.  On a load error, or when the writer
    constructor refuses the name, the old file is left as it is. -/
def compactSt (cfg : Cfg) (codec : Codec) (crc : Checksum) (bs : Nat) (now : Nat) (st : St) : St × Reply :=
  match st.sess with
  | some _ => (st, .rejOpen)
  | none =>
    match loadIndex cfg codec.toDecoder crc st.file with
    | .error _ => (st, .rejHeader)
    | .ok (idx, nm) =>
      match createFileCfg cfg nm now with
      | none => (st, .rejHeader)
      | some st0 =>
        (runOps cfg codec crc bs st0 (idx.map (fun p => Op.write ⟨opInsert, p.1, p.2⟩) ++ [.close]), .ok)

/-- `CompactFromIndex(path, bs, swampName, index, …)` (the Load self-heal): the caller supplies the
    name and the live index; a fresh V3 file under that name replaces the old one -/
def compactFromIndexSt (cfg : Cfg) (codec : Codec) (crc : Checksum) (bs : Nat) (now : Nat) (name : Bytes) (idx : Index)
    (st : St) : St × Reply :=
  match createFileCfg cfg name now with
  | none => (st, .rejHeader)
  | some st0 => (runOps cfg codec crc bs st0 (idx.map (fun p => Op.write ⟨opInsert, p.1, p.2⟩) ++ [.close]), .ok)

/-- entries still waiting in the write buffer -/
def St.pending (st : St) : List Entry :=
  match st.sess with
  | some s => s.bufRev.reverse
  | none => []

/-! ### What the API accepted (the Spec side of a history) -/

/-- is a writer open after this call (given it was / was not before) -/
def openAfter : Bool → Op → Bool
  | _, .close => false
  | _, .reopen => true
  | b, _ => b

/-- the entry this call made the API acknowledge, if any -/
def acceptedBy (cfg : Cfg) : Bool → Op → List Entry
  | true, .write e => if accepts cfg e then [e] else []
  | _, _ => []

/-- the writes of a history the API acknowledged with `nil`, in order -/
def accepted (cfg : Cfg) : Bool → List Op → List Entry
  | _, [] => []
  | b, op :: t => acceptedBy cfg b op ++ accepted cfg (openAfter b op) t

/-- The Spec: last writer wins, delete removes, over the acknowledged writes. -/
def specStep (m : Index) (e : Entry) : Index :=
  if e.op == opDelete then m.del e.key
  else if e.op == opInsert || e.op == opUpdate then m.put e.key e.data
  else m

def specOf (es : List Entry) : Index := es.foldl specStep []

def specFold (cfg : Cfg) (ops : List Op) : Index := specOf (accepted cfg true ops)

/-- every write of the history -/
def writesOf : List Op → List Entry
  | [] => []
  | .write e :: t => e :: writesOf t
  | _ :: t => writesOf t

end Hv.Storage
