/-
  Lemmas about `Hv/Storage/Migrate.lean`: the segment framing round-trips through both readers,
  the migrator's dedupe is "last segment wins" and produces distinct keys, and with distinct
  keys the legacy load does not depend on the order in which the files are visited.
-/
import Hv.Storage.Migrate

set_option linter.unusedSectionVars false

namespace Hv.Migrate

/-! ### Byte level -/

theorem de32_le32 (n : Nat) (h : n < 4294967296) : de32 (le32 n) = n := by
  simp only [le32, de32]; omega

theorem le32_length (n : Nat) : (le32 n).length = 4 := rfl

theorem take4_enc (s rest : Bytes) : (le32 s.length ++ (s ++ rest)).take 4 = le32 s.length := by
  rw [List.take_append_of_le_length (by simp [le32_length])]
  simp [le32]

theorem drop4_enc (s rest : Bytes) : (le32 s.length ++ (s ++ rest)).drop 4 = s ++ rest := by
  rw [List.drop_append_of_le_length (by simp [le32_length])]
  simp [le32]

theorem enc_length (s rest : Bytes) : (le32 s.length ++ (s ++ rest)).length = 4 + (s.length + rest.length) := by
  simp [le32_length]

/-- The migrator's reader returns exactly the non-empty segments that were written. -/
theorem parseMig_encode (segs : List Bytes) (hlen : ∀ s ∈ segs, s.length < 4294967296) :
    ∀ fuel, segs.length < fuel → parseMig fuel (encodeSegs segs) = some (segs.filter (fun s => s ≠ [])) := by
  induction segs with
  | nil =>
    intro fuel hf
    cases fuel with
    | zero => omega
    | succ f => simp [parseMig, encodeSegs]
  | cons s ss ih =>
    intro fuel hf
    cases fuel with
    | zero => omega
    | succ f =>
      have hs := hlen s (List.mem_cons_self ..)
      have ih' := ih (fun x hx => hlen x (List.mem_cons_of_mem _ hx)) f (by simp at hf; omega)
      have hl : ¬ (le32 s.length ++ (s ++ encodeSegs ss)).length < 4 := by rw [enc_length]; omega
      simp only [parseMig, encodeSegs, hl, if_false, take4_enc, drop4_enc, de32_le32 _ hs]
      by_cases h0 : s.length = 0
      · have : s = [] := List.eq_nil_of_length_eq_zero h0
        subst this
        simp [ih']
      · have hne : s ≠ [] := fun h => h0 (by simp [h])
        have h2 : ¬ (s ++ encodeSegs ss).length < s.length := by simp
        simp only [h0, h2, if_false]
        simp [ih', hne]

/-- The legacy reader returns every segment, provided none is empty. -/
theorem parseV1_encode (segs : List Bytes) (hlen : ∀ s ∈ segs, s.length < 4294967296 ∧ s ≠ []) :
    ∀ fuel, segs.length < fuel → parseV1 fuel (encodeSegs segs) = some segs := by
  induction segs with
  | nil =>
    intro fuel hf
    cases fuel with
    | zero => omega
    | succ f => simp [parseV1, encodeSegs]
  | cons s ss ih =>
    intro fuel hf
    cases fuel with
    | zero => omega
    | succ f =>
      have hs := hlen s (List.mem_cons_self ..)
      have ih' := ih (fun x hx => hlen x (List.mem_cons_of_mem _ hx)) f (by simp at hf; omega)
      have hpos : 0 < s.length := List.length_pos_iff.mpr hs.2
      have hl0 : ¬ (le32 s.length ++ (s ++ encodeSegs ss)).length = 0 := by rw [enc_length]; omega
      have hl : ¬ (le32 s.length ++ (s ++ encodeSegs ss)).length < 4 := by rw [enc_length]; omega
      have h2 : ¬ (s ++ encodeSegs ss).length = 0 := by rw [List.length_append]; omega
      simp only [parseV1, encodeSegs, hl0, hl, if_false, take4_enc, drop4_enc, de32_le32 _ hs.1, h2]
      simp [ih']

/-- Both readers agree on every file the V1 writer can produce (segments are gob encodings, never empty). -/
theorem readers_agree (segs : List Bytes) (hlen : ∀ s ∈ segs, s.length < 4294967296 ∧ s ≠ []) :
    parseMig (segs.length + 1) (encodeSegs segs) = parseV1 (segs.length + 1) (encodeSegs segs) := by
  rw [parseMig_encode segs (fun s h => (hlen s h).1) _ (by omega), parseV1_encode segs hlen _ (by omega)]
  congr 1
  exact List.filter_eq_self.mpr (fun s h => by simpa using (hlen s h).2)

/-! ### Record level: `lastOf` -/

section
variable {α : Type} [DecidableEq α] [Inhabited α]


theorem lastOf_nil (k : α) : lastOf [] k = none := rfl

theorem lastOf_append_singleton (segs : List (Seg α)) (s : Seg α) (k : α) :
    lastOf (segs ++ [s]) k = if s.key == k then some s.data else lastOf segs k := by
  simp only [lastOf, List.reverse_append, List.reverse_cons, List.reverse_nil, List.nil_append,
    List.cons_append, List.find?_cons]
  by_cases h : (s.key == k) = true <;> simp [h]

theorem lastOf_cons (s : Seg α) (segs : List (Seg α)) (k : α) :
    lastOf (s :: segs) k = match lastOf segs k with
      | some v => some v
      | none => if s.key == k then some s.data else none := by
  simp only [lastOf, List.reverse_cons, List.find?_append, List.find?_cons, List.find?_nil]
  cases h : List.find? (fun s => s.key == k) segs.reverse with
  | some x => simp
  | none => by_cases hk : (s.key == k) = true <;> simp [hk]

theorem lastOf_eq_none_iff (segs : List (Seg α)) (k : α) :
    lastOf segs k = none ↔ ∀ s ∈ segs, s.key ≠ k := by
  simp only [lastOf, Option.map_eq_none_iff, List.find?_eq_none, List.mem_reverse, beq_iff_eq]

theorem lastOf_some_of_mem_nodup (segs : List (Seg α)) (hnd : (segs.map Seg.key).Nodup) (s : Seg α) (hs : s ∈ segs) :
    lastOf segs s.key = some s.data := by
  induction segs with
  | nil => cases hs
  | cons x xs ih =>
    simp only [List.map_cons, List.nodup_cons, List.mem_map, not_exists, not_and] at hnd
    rw [lastOf_cons]
    rcases List.mem_cons.mp hs with h | h
    · subst h
      have : lastOf xs s.key = none := (lastOf_eq_none_iff xs s.key).mpr (fun y hy he => hnd.1 y hy he)
      simp [this]
    · rw [ih hnd.2 h]

theorem lastOf_mem (segs : List (Seg α)) (k v : α) (h : lastOf segs k = some v) :
    ∃ s ∈ segs, s.key = k ∧ s.data = v := by
  simp only [lastOf, Option.map_eq_some_iff] at h
  obtain ⟨s, hf, hd⟩ := h
  have hm := List.mem_of_find?_eq_some hf
  have hk := List.find?_some hf
  exact ⟨s, by simpa using hm, by simpa using hk, hd⟩

/-- With distinct keys the fold does not depend on the order of the segments. -/
theorem lastOf_perm (l1 l2 : List (Seg α)) (hp : l1.Perm l2) (hnd : (l1.map Seg.key).Nodup) (k : α) :
    lastOf l1 k = lastOf l2 k := by
  have hnd2 : (l2.map Seg.key).Nodup := (hp.map Seg.key).nodup_iff.mp hnd
  cases h : lastOf l1 k with
  | none =>
    have := (lastOf_eq_none_iff l1 k).mp h
    exact ((lastOf_eq_none_iff l2 k).mpr (fun s hs => this s (hp.mem_iff.mpr hs))).symm
  | some v =>
    obtain ⟨s, hs, hk, hv⟩ := lastOf_mem l1 k v h
    have := lastOf_some_of_mem_nodup l2 hnd2 s (hp.mem_iff.mp hs)
    rw [hk, hv] at this
    exact this.symm

theorem allSegs_perm (p q : Folder α) (h : p.Perm q) : (allSegs p).Perm (allSegs q) := by
  induction h with
  | nil => exact List.Perm.refl _
  | cons x _ ih =>
    simp only [allSegs, List.flatMap_cons] at ih ⊢
    exact List.Perm.append_left _ ih
  | swap x y l =>
    simp only [allSegs, List.flatMap_cons]
    rw [← List.append_assoc, ← List.append_assoc]
    exact List.Perm.append_right _ List.perm_append_comm
  | trans _ _ ih1 ih2 => exact ih1.trans ih2

/-- With distinct keys the legacy load is a function: every visiting order gives the same map. -/
theorem loadsV1_unique (fo : Folder α) (hu : UniqueKeys fo) (m : α → Option α) (h : LoadsV1 fo m) :
    m = loadV1In fo := by
  obtain ⟨perm, hp, rfl⟩ := h
  funext k
  have hsp := allSegs_perm perm fo hp
  have hu' : ((allSegs fo).map Seg.key).Nodup := hu
  have hnd : ((allSegs perm).map Seg.key).Nodup := (hsp.map Seg.key).nodup_iff.mpr hu'
  exact lastOf_perm _ _ hsp hnd k

/-! ### Record level: the migrator's dedupe -/

theorem beq_true_of_eq {a b : α} (h : a = b) : (a == b) = true := by simp [h]
theorem beq_false_of_ne {a b : α} (h : a ≠ b) : (a == b) = false := by simp [h]

theorem lookup_cons (a b k' : α) (rest : List (Entry α)) :
    lookup ((a, b) :: rest) k' = if a == k' then some b else lookup rest k' := by
  simp only [lookup, List.find?_cons]
  cases a == k' <;> rfl

theorem lookup_insertKV (es : List (Entry α)) (k v k' : α) :
    lookup (insertKV es k v) k' = if k == k' then some v else lookup es k' := by
  induction es with
  | nil => simp only [insertKV, lookup_cons]
  | cons e rest ih =>
    obtain ⟨a, b⟩ := e
    simp only [insertKV]
    by_cases hak : a = k
    · subst hak
      rw [if_pos (beq_true_of_eq rfl), lookup_cons, lookup_cons]
      cases a == k' <;> rfl
    · rw [if_neg (by simp [hak]), lookup_cons, lookup_cons, ih]
      by_cases h2 : a = k'
      · subst h2
        rw [if_pos (beq_true_of_eq rfl), if_neg (by simpa using fun e : k = a => hak e.symm)]
        simp
      · have h3 : (a == k') = false := by simp [h2]
        simp [h3]

theorem keys_insertKV (es : List (Entry α)) (k v : α) :
    ∀ x, x ∈ (insertKV es k v).map Prod.fst → x = k ∨ x ∈ es.map Prod.fst := by
  induction es with
  | nil =>
    intro x hx
    simp only [insertKV, List.map_cons, List.map_nil, List.mem_singleton] at hx
    exact Or.inl hx
  | cons e rest ih =>
    obtain ⟨a, b⟩ := e
    intro x hx
    simp only [insertKV] at hx
    by_cases hak : a = k
    · rw [if_pos (beq_true_of_eq hak)] at hx
      rcases List.mem_cons.mp hx with h1 | h1
      · exact Or.inl h1
      · exact Or.inr (List.mem_cons_of_mem _ h1)
    · rw [if_neg (by simp [hak])] at hx
      rcases List.mem_cons.mp hx with h1 | h1
      · exact Or.inr (h1 ▸ List.mem_cons_self ..)
      · rcases ih x h1 with h2 | h2
        · exact Or.inl h2
        · exact Or.inr (List.mem_cons_of_mem _ h2)

theorem nodup_insertKV (es : List (Entry α)) (k v : α) (h : (es.map Prod.fst).Nodup) :
    ((insertKV es k v).map Prod.fst).Nodup := by
  induction es with
  | nil => simp [insertKV]
  | cons e rest ih =>
    obtain ⟨a, b⟩ := e
    have h' := List.nodup_cons.mp h
    simp only [insertKV]
    by_cases hak : a = k
    · rw [if_pos (beq_true_of_eq hak)]
      subst hak
      exact h
    · rw [if_neg (by simp [hak])]
      refine List.nodup_cons.mpr ⟨?_, ih h'.2⟩
      intro hm
      rcases keys_insertKV rest k v a hm with h1 | h1
      · exact hak h1
      · exact h'.1 h1

theorem dedupe_last_aux (segs : List (Seg α)) :
    ∀ acc : List (Entry α), (acc.map Prod.fst).Nodup →
      ((segs.foldl (fun es s => insertKV es s.key s.data) acc).map Prod.fst).Nodup ∧
      ∀ k, lookup (segs.foldl (fun es s => insertKV es s.key s.data) acc) k = match lastOf segs k with
        | some v => some v
        | none => lookup acc k := by
  induction segs with
  | nil => intro acc h; simp [lastOf_nil, h]
  | cons s segs ih =>
    intro acc h
    have := ih (insertKV acc s.key s.data) (nodup_insertKV _ _ _ h)
    simp only [List.foldl_cons]
    refine ⟨this.1, fun k => ?_⟩
    rw [this.2 k, lastOf_cons, lookup_insertKV]
    cases lastOf segs k with
    | some v => rfl
    | none => by_cases hk : (s.key == k) = true <;> simp [hk]

/-- `entryMap[key] = entry`: distinct keys, and each key keeps the value of its last segment. -/
theorem dedupe_last (cfg : MCfg) (h : cfg.dedupeLast = true) (segs : List (Seg α)) :
    ((dedupe cfg segs).map Prod.fst).Nodup ∧ ∀ k, lookup (dedupe cfg segs) k = lastOf segs k := by
  have := dedupe_last_aux segs [] (by simp)
  simp only [dedupe, h, if_true]
  refine ⟨this.1, fun k => ?_⟩
  rw [this.2 k]
  cases lastOf segs k <;> simp [lookup]

theorem lookup_isSome_of_mem (es : List (Entry α)) (e : Entry α) (h : e ∈ es) : (lookup es e.1).isSome = true := by
  simp only [lookup, Option.isSome_map]
  rw [List.find?_isSome]
  exact ⟨e, h, by simp⟩

theorem mem_keys_of_lookup (es : List (Entry α)) (k : α) (h : (lookup es k).isSome = true) : k ∈ es.map Prod.fst := by
  simp only [lookup, Option.isSome_map] at h
  rw [List.find?_isSome] at h
  obtain ⟨e, he, hk⟩ := h
  have : e.1 = k := by simpa using hk
  exact List.mem_map.mpr ⟨e, he, this⟩

theorem lookup_isSome_of_key (es : List (Entry α)) (k : α) (h : k ∈ es.map Prod.fst) : (lookup es k).isSome = true := by
  obtain ⟨e, he, rfl⟩ := List.mem_map.mp h
  exact lookup_isSome_of_mem es e he

/-- with distinct keys `lookup` returns the value of the record with that key -/
theorem lookup_of_mem_nodup (es : List (Entry α)) (hnd : (es.map Prod.fst).Nodup) (e : Entry α) (h : e ∈ es) :
    lookup es e.1 = some e.2 := by
  induction es with
  | nil => cases h
  | cons x rest ih =>
    obtain ⟨a, b⟩ := x
    have hnd' := List.nodup_cons.mp hnd
    rw [lookup_cons]
    rcases List.mem_cons.mp h with rfl | hm
    · simp
    · have hne : a ≠ e.1 := by
        intro heq
        exact hnd'.1 (heq ▸ List.mem_map.mpr ⟨e, hm, rfl⟩)
      rw [if_neg (by simpa using hne)]
      exact ih hnd'.2 hm

/-- **The target-equals-legacy test is sound**: a file that passes it loads to exactly the records, under the name. -/
theorem sameTarget_sound {File : Type} (v : V2 α File) (okE : Entry α → Prop) (okN : α → Prop) (hv : v.Lawful okE okN)
    (f : File) (nm : α) (es : List (Entry α)) (hnd : (es.map Prod.fst).Nodup) (h : sameTarget v f nm es = true) :
    v.nameOf f = nm ∧ ∀ k, v.loadMap f k = lookup es k := by
  simp only [sameTarget, Bool.and_eq_true, beq_iff_eq, List.all_eq_true] at h
  obtain ⟨⟨h1, h2⟩, h3⟩ := h
  refine ⟨h1, ?_⟩
  intro k
  cases hl : lookup es k with
  | some x =>
    obtain ⟨e, he, hk⟩ := List.mem_map.mp (mem_keys_of_lookup es k (by simp [hl]))
    have hx := lookup_of_mem_nodup es hnd e he
    rw [hk, hl] at hx
    have := h3 e he
    rw [hk] at this
    rw [this, Option.some.injEq] 
    exact (Option.some.inj hx).symm
  | none =>
    cases hm : v.loadMap f k with
    | none => rfl
    | some y =>
      have hk := hv.keysSound f k (by simp [hm])
      have := h2 k hk
      simp [hl] at this

/-- … and complete: the file a lawful writer produced from these records under this name passes it -/
theorem sameTarget_written {File : Type} (v : V2 α File) (okE : Entry α → Prop) (okN : α → Prop) (hv : v.Lawful okE okN)
    (nm : α) (es : List (Entry α)) (hn : okN nm) (he : ∀ e ∈ es, okE e) (hnd : (es.map Prod.fst).Nodup) :
    sameTarget v (v.write nm es) nm es = true := by
  simp only [sameTarget, Bool.and_eq_true, beq_iff_eq, List.all_eq_true]
  refine ⟨⟨hv.name nm es hn he, ?_⟩, ?_⟩
  · intro k hk
    exact hv.keysWritten nm es k hn he hnd hk
  · intro e hm
    rw [hv.load nm es hn he hnd e.1, lookup_of_mem_nodup es hnd e hm]

theorem insertKV_ne_nil (es : List (Entry α)) (k v : α) : insertKV es k v ≠ [] := by
  cases es with
  | nil => simp [insertKV]
  | cons e r => obtain ⟨a, b⟩ := e; simp only [insertKV]; split <;> simp

theorem insertIfAbsent_ne_nil (es : List (Entry α)) (k v : α) : insertIfAbsent es k v ≠ [] := by
  cases es with
  | nil => simp [insertIfAbsent]
  | cons e r => obtain ⟨a, b⟩ := e; simp only [insertIfAbsent]; split <;> simp

theorem foldl_ne_nil (cfg : MCfg) (segs : List (Seg α)) :
    ∀ acc : List (Entry α), acc ≠ [] →
      segs.foldl (fun es s => if cfg.dedupeLast then insertKV es s.key s.data else insertIfAbsent es s.key s.data) acc ≠ [] := by
  induction segs with
  | nil => intro acc h; simpa using h
  | cons s segs ih =>
    intro acc _
    simp only [List.foldl_cons]
    apply ih
    split
    · exact insertKV_ne_nil _ _ _
    · exact insertIfAbsent_ne_nil _ _ _

theorem mem_insertKV (es : List (Entry α)) (k v : α) (e : Entry α) (h : e ∈ insertKV es k v) : e = (k, v) ∨ e ∈ es := by
  induction es with
  | nil => simp [insertKV] at h; exact Or.inl h
  | cons x rest ih =>
    obtain ⟨a, b⟩ := x
    simp only [insertKV] at h
    by_cases hak : a = k
    · rw [if_pos (beq_true_of_eq hak)] at h
      rcases List.mem_cons.mp h with h1 | h1
      · exact Or.inl h1
      · exact Or.inr (List.mem_cons_of_mem _ h1)
    · rw [if_neg (by simp [hak])] at h
      rcases List.mem_cons.mp h with h1 | h1
      · exact Or.inr (h1 ▸ List.mem_cons_self ..)
      · rcases ih h1 with h2 | h2
        · exact Or.inl h2
        · exact Or.inr (List.mem_cons_of_mem _ h2)

theorem mem_insertIfAbsent (es : List (Entry α)) (k v : α) (e : Entry α) (h : e ∈ insertIfAbsent es k v) : e = (k, v) ∨ e ∈ es := by
  induction es with
  | nil => simp [insertIfAbsent] at h; exact Or.inl h
  | cons x rest ih =>
    obtain ⟨a, b⟩ := x
    simp only [insertIfAbsent] at h
    by_cases hak : a = k
    · rw [if_pos (beq_true_of_eq hak)] at h
      exact Or.inr h
    · rw [if_neg (by simp [hak])] at h
      rcases List.mem_cons.mp h with h1 | h1
      · exact Or.inr (h1 ▸ List.mem_cons_self ..)
      · rcases ih h1 with h2 | h2
        · exact Or.inl h2
        · exact Or.inr (List.mem_cons_of_mem _ h2)

theorem mem_dedupe_aux (cfg : MCfg) (e : Entry α) (segs : List (Seg α)) :
    ∀ acc : List (Entry α), e ∈ segs.foldl (fun es s => if cfg.dedupeLast then insertKV es s.key s.data
      else insertIfAbsent es s.key s.data) acc → e ∈ acc ∨ ∃ s ∈ segs, e = (s.key, s.data) := by
  induction segs with
  | nil => intro acc h; exact Or.inl (by simpa using h)
  | cons s segs ih =>
    intro acc h
    simp only [List.foldl_cons] at h
    rcases ih _ h with h1 | ⟨s', hs', he⟩
    · have : e = (s.key, s.data) ∨ e ∈ acc := by
        split at h1
        · exact mem_insertKV _ _ _ _ h1
        · exact mem_insertIfAbsent _ _ _ _ h1
      rcases this with h2 | h2
      · exact Or.inr ⟨s, List.mem_cons_self .., h2⟩
      · exact Or.inl h2
    · exact Or.inr ⟨s', List.mem_cons_of_mem _ hs', he⟩

/-- every entry the migrator writes is a segment of the folder -/
theorem mem_dedupe (cfg : MCfg) (segs : List (Seg α)) (e : Entry α) (h : e ∈ dedupe cfg segs) :
    ∃ s ∈ segs, e = (s.key, s.data) := by
  rcases mem_dedupe_aux cfg e segs [] h with h1 | h1
  · cases h1
  · exact h1

/-- the migrator sees an empty swamp exactly when the folder has no segment -/
theorem dedupe_isEmpty (cfg : MCfg) (segs : List (Seg α)) : (dedupe cfg segs).isEmpty = segs.isEmpty := by
  cases segs with
  | nil => simp [dedupe]
  | cons s segs =>
    simp only [dedupe, List.foldl_cons, List.isEmpty_cons]
    have : (segs.foldl (fun es s => if cfg.dedupeLast then insertKV es s.key s.data else insertIfAbsent es s.key s.data)
        (if cfg.dedupeLast then insertKV [] s.key s.data else insertIfAbsent [] s.key s.data)) ≠ [] := by
      apply foldl_ne_nil
      split
      · exact insertKV_ne_nil _ _ _
      · exact insertIfAbsent_ne_nil _ _ _
    simpa [List.isEmpty_iff] using this

end

end Hv.Migrate
