/-
  Compaction and the stale-header crash window on the byte-level writer model.
-/
import Hv.Storage.NameLemmas

namespace Hv.Storage

/-- the counters in the header are advisory: rewinding them keeps the invariant, hence
    (`loadIndex_runOps_from`) everything that was flushed still loads, now and after any
    further sessions -/
theorem zeroCounts_inv (cfg : Cfg) (codec : Codec) (crc : Checksum) (bs : Nat) (name : Bytes) (st : St)
    (acc : List Entry) (hI : Inv cfg codec crc bs name st acc false) :
    Inv cfg codec crc bs name (zeroCounts st) acc false := by
  obtain ⟨⟨blocks, ⟨⟨hdr, hfile, hv, hn⟩, hgood⟩, hacc⟩, hsess, hopen⟩ := hI
  obtain ⟨file, sess⟩ := st
  cases sess with
  | some s => simp at hopen
  | none =>
    simp only at hfile
    have hl := encodeFileHeader_length hdr
    have hd : decodeFileHeader (file.take 64) = .ok hdr := by
      rw [hfile]; unfold render; rw [take_append_len _ _ 64 hl, decodeFileHeader_encode hdr hv]
    simp only [zeroCounts, hd]
    refine ⟨⟨blocks, ⟨⟨_, ?_, valid_setCounts hdr hv 0 0 (by decide) (by decide), hn⟩, hgood⟩, hacc⟩, ?_, rfl⟩
    · show rewriteHeader file _ = _
      rw [hfile, rewriteHeader_render]
    · intro s hs; simp at hs

/-- **compaction_keeps_name**: compacting a closed file the writer left behind yields a file
    whose fast name lookup answers the name `LoadIndex` reports for the old file — the V3 name, or
    for a legacy file the name of its metadata entry (the result is always V3). -/
theorem compaction_keeps_name (cfg : Cfg) (codec : Codec) (crc : Checksum)
    (bs now : Nat) (name : Bytes) (st : St) (acc : List Entry)
    (hI : Inv cfg codec crc bs name st acc false)
    (hlen : (if name.isEmpty then metaName acc else name).length < 2 ^ 16) :
    (compactSt cfg codec crc bs now st).2 = .ok ∧
    readSwampName cfg codec.toDecoder crc (compactSt cfg codec crc bs now st).1.file
      = .ok (if name.isEmpty then metaName acc else name) := by
  obtain ⟨⟨blocks, ⟨⟨hdr, hfile, hv, hn⟩, hgood⟩, hacc⟩, hsess, hopen⟩ := hI
  obtain ⟨file, sess⟩ := st
  cases sess with
  | some s => simp at hopen
  | none =>
    simp only [St.pending, List.append_nil] at hacc
    simp only at hfile
    have hload := loadIndex_render cfg codec crc hdr name blocks hv hn hgood
    rw [← hfile, hacc] at hload
    have hcf : createFileCfg cfg (if name.isEmpty then metaName acc else name) now
        = some (createFile (if name.isEmpty then metaName acc else name) now) := by
      unfold createFileCfg
      rw [if_neg]
      simp only [Bool.and_eq_true, decide_eq_true_eq, not_and, Nat.not_lt]
      intro _; omega
    simp only [compactSt, hload, hcf]
    refine ⟨trivial, ?_⟩
    have hs := runOps_shape cfg codec crc bs 3 (if name.isEmpty then metaName acc else name)
      ((replay cfg acc).map (fun p => Op.write ⟨opInsert, p.1, p.2⟩) ++ [.close]) _
      (createFile_shape (if name.isEmpty then metaName acc else name) now hlen)
    obtain ⟨hdr', ho, hver⟩ := openReader_shape 3 _ _ hs
    unfold readSwampName
    rw [ho]
    simp [hver]

end Hv.Storage
