/-
  The chronicler model, run over a list of acts from an empty disk, produces a session log:
  `createOps ++ evOps …`, and leaves a clean file holding exactly the flushed entries.
-/
import Hv.Storage.CrashLog

namespace Hv.BlockStore

/-! ### Events applied to a disk -/

theorem apply_write_main (d : Disk) (f : List Cell) (hd : d.main = some f) (off : Nat) (cs : List Cell) :
    d.apply (.write .main off cs) = { d with main := some (splice f off cs) } := by
  simp [Disk.apply, Disk.get, hd, Disk.set]

theorem applyAll_evOps (nl : Nat) (evs : List Ev) : ∀ (f : List Cell) (d : Disk), d.main = some f → HdrOk f nl →
    d.applyAll (evOps nl f.length evs) = { d with main := some (f ++ render (evBlocks evs)) } := by
  induction evs with
  | nil => intro f d hd _; cases d; simp_all [evOps, evBlocks, render, Disk.applyAll]
  | cons e r ih =>
    intro f d hd hh
    cases e with
    | sync =>
      simp only [evOps, evBlocks, Disk.applyAll_cons]
      have : d.apply (.sync .main) = d := rfl
      rw [this]; exact ih f d hd hh
    | hdr =>
      simp only [evOps, evBlocks, Disk.applyAll_cons]
      rw [apply_write_main d f hd, splice_hdr hh]
      have : ({ d with main := some f } : Disk) = d := by cases d; simp_all
      rw [this]; exact ih f d hd hh
    | blk b =>
      simp only [evOps, evBlocks, Disk.applyAll_cons]
      rw [apply_write_main d f hd, splice_end]
      rw [apply_write_main { d with main := some (f ++ hdrCells b) } (f ++ hdrCells b) rfl]
      have h16 : f.length + 16 = (f ++ hdrCells b).length := by simp
      rw [h16, splice_end]
      have hb : f ++ hdrCells b ++ payCells b = f ++ blockCells b := by simp [blockCells]
      rw [hb]
      rw [apply_write_main { d with main := some (f ++ blockCells b) } (f ++ blockCells b) rfl, splice_hdr (hh.append _)]
      have hL : (f ++ hdrCells b).length + b.plen = (f ++ blockCells b).length := by simp; omega
      rw [hL, ih (f ++ blockCells b) _ rfl (hh.append _)]
      simp [render, List.append_assoc]

/-! ### Writer steps as events -/

/-- a writer on the main file -/
structure WMain (w : WSt) (nl bs : Nat) : Prop where
  path : w.path = .main
  nl : w.nl = nl
  bs : w.bs = bs

/-- result of some writer steps: the operations are a run of events -/
structure WEv (mk : Mk) (nl bs : Nat) (w w' : WSt) (ops : List FsOp) (evs : List Ev) : Prop where
  ops : ops = evOps nl w.pos evs
  pos : w'.pos = w.pos + evSize evs
  wf : ∀ b ∈ evBlocks evs, b.WF
  main : WMain w' nl bs
  cnt : w'.buf.length < maxEnts

theorem flushW_ev (mk : Mk) (hmk : MkOk mk) (nl bs : Nat) (w : WSt) (hw : WMain w nl bs)
    (hlen : w.buf.length ≤ maxEnts) :
    ∃ evs, WEv mk nl bs w (flushW mk w).1 (flushW mk w).2 evs ∧
      entsOf (evBlocks evs) = w.buf ∧ (flushW mk w).1.buf = [] := by
  by_cases hb : w.buf = []
  · rw [flushW_nil mk w hb]
    exact ⟨[], ⟨by simp [evOps], by simp [evSize], by simp [evBlocks], hw, by rw [hb]; exact maxEnts_pos⟩,
      by simp [evBlocks, entsOf, hb], hb⟩
  · rw [flushW_cons mk w hb]
    obtain ⟨hwf, hents⟩ := hmk w.buf hb hlen
    refine ⟨[.blk (mk w.buf)], ⟨?_, ?_, ?_, ⟨hw.path, hw.nl, hw.bs⟩, maxEnts_pos⟩, ?_, rfl⟩
    · simp [evOps, hw.path, hw.nl]
    · simp [evSize]; omega
    · simpa [evBlocks] using hwf
    · simp [evBlocks, entsOf, hents]

theorem WEv.trans {mk : Mk} {nl bs : Nat} {w w1 w2 : WSt} {o1 o2 : List FsOp} {e1 e2 : List Ev}
    (h1 : WEv mk nl bs w w1 o1 e1) (h2 : WEv mk nl bs w1 w2 o2 e2) : WEv mk nl bs w w2 (o1 ++ o2) (e1 ++ e2) := by
  refine ⟨?_, ?_, ?_, h2.main, h2.cnt⟩
  · rw [evOps_append, h1.ops, h2.ops, h1.pos]
  · rw [h2.pos, h1.pos]
    have : evSize (e1 ++ e2) = evSize e1 + evSize e2 := by
      rw [evSize_eq, evSize_eq, evSize_eq, evBlocks_append, render_append]; simp
    omega
  · intro b hb
    rw [evBlocks_append] at hb
    rcases List.mem_append.mp hb with hb | hb
    · exact h1.wf b hb
    · exact h2.wf b hb

theorem addW_ev (mk : Mk) (hmk : MkOk mk) (nl bs : Nat) (w : WSt) (hw : WMain w nl bs)
    (hlen : w.buf.length < maxEnts) (e : Op) (sz : Nat) :
    ∃ evs, WEv mk nl bs w (addW mk w e sz).1 (addW mk w e sz).2 evs ∧
      entsOf (evBlocks evs) ++ (addW mk w e sz).1.buf = w.buf ++ [e] := by
  have hw1 : WMain (w.push e sz) nl bs := ⟨hw.path, hw.nl, hw.bs⟩
  have hl1 : (w.push e sz).buf.length ≤ maxEnts := by simp [WSt.push]; omega
  by_cases hge : (w.push e sz).full
  · have : addW mk w e sz = flushW mk (w.push e sz) := by
      unfold addW; rw [if_pos hge]
    rw [this]
    obtain ⟨evs, hev, he, hbuf⟩ := flushW_ev mk hmk nl bs _ hw1 hl1
    exact ⟨evs, ⟨hev.ops, hev.pos, hev.wf, hev.main, hev.cnt⟩, by rw [hbuf, he]; simp [WSt.push]⟩
  · have : addW mk w e sz = (w.push e sz, []) := by
      unfold addW; rw [if_neg hge]
    rw [this]
    have hc : (w.push e sz).buf.length < maxEnts := by
      simp only [WSt.full, not_or, Nat.not_le] at hge; exact hge.2
    exact ⟨[], ⟨by simp [evOps], by simp [evSize, WSt.push], by simp [evBlocks], hw1, hc⟩,
      by simp [evBlocks, entsOf, WSt.push]⟩

theorem addManyW_ev (mk : Mk) (hmk : MkOk mk) (nl bs : Nat) (items : List (Op × Nat)) :
    ∀ (w : WSt), WMain w nl bs → w.buf.length < maxEnts →
    ∃ evs, WEv mk nl bs w (addManyW mk w items).1 (addManyW mk w items).2 evs ∧
      entsOf (evBlocks evs) ++ (addManyW mk w items).1.buf = w.buf ++ items.map (·.1) := by
  induction items with
  | nil =>
    intro w hw hc
    exact ⟨[], ⟨by simp [evOps, addManyW], by simp [evSize, addManyW], by simp [evBlocks], hw, hc⟩,
      by simp [evBlocks, entsOf, addManyW]⟩
  | cons it rest ih =>
    intro w hw hc
    obtain ⟨e, sz⟩ := it
    obtain ⟨a, ha, hea⟩ := addW_ev mk hmk nl bs w hw hc e sz
    obtain ⟨b, hb, heb⟩ := ih _ ha.main ha.cnt
    refine ⟨a ++ b, ?_, ?_⟩
    · simp only [addManyW]; exact ha.trans hb
    · simp only [addManyW, evBlocks_append, entsOf_append, List.map_cons, List.append_assoc]
      rw [heb, ← List.append_assoc, hea]; simp

theorem syncW_ev (c : Cfg) (mk : Mk) (hmk : MkOk mk) (nl bs : Nat) (w : WSt) (hw : WMain w nl bs)
    (hlen : w.buf.length ≤ maxEnts) :
    ∃ evs, WEv mk nl bs w (syncW c mk w).1 (syncW c mk w).2 evs ∧
      entsOf (evBlocks evs) = w.buf ∧ (syncW c mk w).1.buf = [] := by
  obtain ⟨evs, hev, he, hbuf⟩ := flushW_ev mk hmk nl bs w hw hlen
  refine ⟨evs ++ ([.hdr] ++ if c.syncFsyncs then [.sync] else []), ⟨?_, ?_, ?_, hev.main, hev.cnt⟩, ?_, hbuf⟩
  · simp only [syncW]
    rw [evOps_append, ← hev.ops, List.append_assoc]
    congr 1
    cases c.syncFsyncs <;> simp [evOps, hw.path, hw.nl]
  · simp only [syncW]
    have : evSize (evs ++ ([Ev.hdr] ++ if c.syncFsyncs = true then [Ev.sync] else [])) = evSize evs := by
      rw [evSize_eq, evSize_eq, evBlocks_append]
      cases c.syncFsyncs <;> simp [evBlocks, render]
    rw [this]; exact hev.pos
  · intro b hb
    rw [evBlocks_append] at hb
    have : evBlocks ([Ev.hdr] ++ if c.syncFsyncs = true then [Ev.sync] else []) = [] := by
      cases c.syncFsyncs <;> simp [evBlocks]
    rw [this, List.append_nil] at hb
    exact hev.wf b hb
  · rw [evBlocks_append]
    have : evBlocks ([Ev.hdr] ++ if c.syncFsyncs = true then [Ev.sync] else []) = [] := by
      cases c.syncFsyncs <;> simp [evBlocks]
    rw [this, List.append_nil]; exact he

theorem closeW_ev (c : Cfg) (mk : Mk) (hmk : MkOk mk) (nl bs : Nat) (w : WSt) (hw : WMain w nl bs)
    (hlen : w.buf.length ≤ maxEnts) :
    ∃ evs, closeW c mk w = evOps nl w.pos evs ∧ (∀ b ∈ evBlocks evs, b.WF) ∧ entsOf (evBlocks evs) = w.buf := by
  obtain ⟨evs, hev, he, _⟩ := flushW_ev mk hmk nl bs w hw hlen
  have hnil : evBlocks ([Ev.hdr] ++ if c.closeFsyncs = true then [Ev.sync] else []) = [] := by
    cases c.closeFsyncs <;> simp [evBlocks]
  refine ⟨evs ++ ([.hdr] ++ if c.closeFsyncs then [.sync] else []), ?_, ?_, ?_⟩
  · simp only [closeW]
    rw [evOps_append, ← hev.ops, List.append_assoc]
    congr 1
    cases c.closeFsyncs <;> simp [evOps, hw.path, hw.nl]
  · intro b hb
    rw [evBlocks_append, hnil, List.append_nil] at hb
    exact hev.wf b hb
  · rw [evBlocks_append, hnil, List.append_nil]; exact he

end Hv.BlockStore

namespace Hv.BlockStore

/-! ### Where a repaired open would cut (`validLen`) -/

theorem validBlocksLen_block (f : Nat) (b : Block) (hw : b.WF) (rest : List Cell) :
    validBlocksLen (f + 1) (blockCells b ++ rest) = 16 + b.plen + validBlocksLen f rest := by
  have hlen : (blockCells b ++ rest).length = 16 + b.plen + rest.length := by simp
  have hhead : (blockCells b ++ rest).head? = some (Cell.bh b 0) := by
    simp [blockCells, hdrCells_eq]
  have htake : (blockCells b ++ rest).take (16 + b.plen) = blockCells b := by
    rw [List.take_append_of_le_length (by simp)]
    exact List.take_of_length_le (by simp)
  have hdrop : (blockCells b ++ rest).drop (16 + b.plen) = rest := by
    rw [List.drop_append_of_le_length (by simp)]
    simp [List.drop_of_length_le]
  rw [validBlocksLen]
  simp only [hlen, sizeField_block b hw rest, hhead, htake, hdrop]
  have h2 : ¬ (16 + b.plen + rest.length < 16) := by omega
  have h3 : ¬ (16 + b.plen + rest.length - 16 < b.plen) := by omega
  simp [h2, h3]

theorem validBlocksLen_nil (f : Nat) : validBlocksLen f [] = 0 := by
  cases f <;> simp [validBlocksLen]

theorem validBlocksLen_torn (f : Nat) (b : Block) (hw : b.WF) (r : Nat) (hr : r < 16 + b.plen) :
    validBlocksLen f ((blockCells b).take r) = 0 := by
  cases f with
  | zero => rfl
  | succ f =>
    have hlen : ((blockCells b).take r).length = r := by
      simp only [List.length_take, blockCells_length]; omega
    rw [validBlocksLen]
    simp only [hlen]
    by_cases h1 : r < 16
    · simp [h1]
    · have hge : 16 ≤ r := by omega
      have hsz : sizeField ((blockCells b).take r) = some b.plen := by
        rw [take_blockCells_ge b r hge]; exact sizeField_hdr b hw _
      have hlt : r - 16 < b.plen := by omega
      simp [h1, hsz, hlt]

theorem validBlocksLen_render (bs : List Block) (hw : ∀ b ∈ bs, b.WF) (f : Nat) (rest : List Cell) :
    validBlocksLen (bs.length + f) (render bs ++ rest) = (render bs).length + validBlocksLen f rest := by
  induction bs with
  | nil => simp [render]
  | cons b bs ih =>
    have hb := hw b (by simp)
    have ih' := ih (fun x hx => hw x (by simp [hx]))
    have e : (b :: bs).length + f = (bs.length + f) + 1 := by simp; omega
    rw [e]
    simp only [render, List.flatMap_cons, List.append_assoc, List.length_append, blockCells_length] at ih' ⊢
    rw [validBlocksLen_block _ b hb, ih']
    omega

/-- a clean file followed by anything the walk over the blocks stops at: the valid part is the clean file -/
theorem validLen_clean_stop (nl : Nat) (bs : List Block) (hwf : ∀ b ∈ bs, b.WF) (t : List Cell)
    (ht : ∀ f, validBlocksLen f t = 0) :
    validLen (fileCells nl bs ++ t) = some (fileCells nl bs).length := by
  have hh : headerOf (fileCells nl bs ++ t) = some nl := by
    simp only [fileCells, List.append_assoc]; exact headerOf_file nl _
  have hdr : (fileCells nl bs ++ t).drop 64 = nmCells nl ++ (render bs ++ t) := by
    simp only [fileCells, List.append_assoc]
    rw [List.drop_append_of_le_length (by simp)]
    simp [List.drop_of_length_le]
  have hdr2 : (fileCells nl bs ++ t).drop (64 + nl) = render bs ++ t := by
    rw [← List.drop_drop, hdr, List.drop_append_of_le_length (by simp)]
    simp [List.drop_of_length_le]
  have hfuel : (fileCells nl bs ++ t).length = bs.length + ((fileCells nl bs ++ t).length - bs.length) := by
    have := render_length_ge bs
    simp only [fileCells, List.length_append, fhCells_length, nmCells_length]
    omega
  simp only [validLen, hh, hdr, hdr2]
  have hnl : ¬ ((nmCells nl ++ (render bs ++ t)).length < nl) := by simp
  simp only [hnl, if_false]
  rw [hfuel, validBlocksLen_render bs hwf]
  rw [ht]
  simp [fileCells]; omega

/-- a clean file, possibly followed by the beginning of one more block: the valid part is the clean file -/
theorem validLen_clean_tail (nl : Nat) (bs : List Block) (hwf : ∀ b ∈ bs, b.WF) (t : List Cell)
    (ht : t = [] ∨ ∃ b r, b.WF ∧ t = (blockCells b).take r ∧ r < 16 + b.plen) :
    validLen (fileCells nl bs ++ t) = some (fileCells nl bs).length := by
  apply validLen_clean_stop nl bs hwf t
  intro f
  rcases ht with h | ⟨b, r, hb, h, hr⟩
  · rw [h]; exact validBlocksLen_nil _
  · rw [h]; exact validBlocksLen_torn _ b hb r hr

theorem validBlocksLen_zeros (f n : Nat) : validBlocksLen f (zeros n) = 0 := by
  cases f with
  | zero => rfl
  | succ f =>
    rw [validBlocksLen]
    simp only [zeros, List.length_replicate]
    by_cases h1 : n < 16
    · simp [h1]
    · obtain ⟨k, rfl⟩ : ∃ k, n = k + 4 := ⟨n - 4, by omega⟩
      have hs : sizeField (List.replicate (k + 4) Cell.zero) = some 0 := by
        simp [List.replicate_succ, sizeField, cellByte]
      simp only [h1, if_false, hs]
      simp [List.replicate_succ]

/-- the repaired open cuts a zero-filled tail: the valid part of `clean file ++ zeros` is the clean file -/
theorem validLen_zero_tail (nl : Nat) (bs : List Block) (hwf : ∀ b ∈ bs, b.WF) (n : Nat) :
    validLen (fileCells nl bs ++ zeros n) = some (fileCells nl bs).length :=
  validLen_clean_stop nl bs hwf (zeros n) (fun f => validBlocksLen_zeros f n)

/-- reopening a cleanly written file: no operation, descriptor at the end (with or without the repair) -/
theorem openWriter_clean (c : Cfg) (nl bs : Nat) (blocks : List Block) (hwf : ∀ b ∈ blocks, b.WF)
    (t : Option (List Cell)) (nlNew : Nat) :
    openWriter c { main := some (fileCells nl blocks), temp := t } .main nlNew bs =
      some ({ path := .main, pos := (fileCells nl blocks).length, nl := nl, buf := [], bufSize := 0, bs := bs }, []) := by
  have hh : headerOf (fileCells nl blocks) = some nl := by
    simp only [fileCells, List.append_assoc]; exact headerOf_file nl _
  have hv := validLen_clean_tail nl blocks hwf [] (Or.inl rfl)
  rw [List.append_nil] at hv
  have ht : tailHoldsBlock [] = false := rfl
  cases htr : c.truncatesTornTail <;> simp [openWriter, Disk.get, hh, htr, hv, ht]

end Hv.BlockStore

namespace Hv.BlockStore

/-! ### The run invariant -/

theorem createOps_apply_main (nl : Nat) :
    ({} : Disk).applyAll (createOps .main nl) = { main := some (fhCells nl ++ nmCells nl), temp := none } := by
  by_cases h : nl = 0
  · subst h
    simp [createOps, Disk.applyAll, Disk.apply, Disk.set, Disk.get, splice, nmCells]
  · have ht : List.take 64 (fhCells nl) = fhCells nl := List.take_of_length_le (by simp)
    simp [createOps, h, Disk.applyAll, Disk.apply, Disk.set, Disk.get, splice, List.drop_of_length_le, ht]

theorem fileCells_nil (nl : Nat) : fileCells nl [] = fhCells nl ++ nmCells nl := by simp [fileCells, render]

theorem fileCells_length (nl : Nat) (bs : List Block) : (fileCells nl bs).length = 64 + nl + (render bs).length := by
  simp [fileCells]; omega

theorem fileCells_hdr (nl : Nat) (bs : List Block) : HdrOk (fileCells nl bs) nl := by
  simp only [fileCells, List.append_assoc]; exact HdrOk_file nl _

/-- shape of a run that has touched the disk: a session log on a clean file -/
structure Started (mk : Mk) (nl bs : Nat) (r : Run) (wr : List Op) (evs : List Ev) : Prop where
  ops : r.ops = createOps .main nl ++ evOps nl (64 + nl) evs
  disk : r.d = { main := some (fileCells nl (evBlocks evs)), temp := none }
  wf : ∀ b ∈ evBlocks evs, b.WF
  writer : match r.cs.w with
    | none => entsOf (evBlocks evs) = wr
    | some w => WMain w nl bs ∧ w.pos = (fileCells nl (evBlocks evs)).length ∧ entsOf (evBlocks evs) ++ w.buf = wr ∧
        w.buf.length < maxEnts

structure RInv (mk : Mk) (nl bs : Nat) (r : Run) (wr : List Op) : Prop where
  nlName : r.cs.nlName = nl
  bsz : r.cs.bs = bs
  shape : (r.ops = [] ∧ r.d = {} ∧ r.cs.w = none ∧ wr = []) ∨ ∃ evs, Started mk nl bs r wr evs

/-- appending a writer's events to a started run -/
theorem Started.extend {nl : Nat} {d : Disk} {ops : List FsOp} {evs e2 : List Ev}
    (hops : ops = createOps .main nl ++ evOps nl (64 + nl) evs)
    (hd : d = { main := some (fileCells nl (evBlocks evs)), temp := none })
    (pos : Nat) (hpos : pos = (fileCells nl (evBlocks evs)).length) :
    ops ++ evOps nl pos e2 = createOps .main nl ++ evOps nl (64 + nl) (evs ++ e2) ∧
    d.applyAll (evOps nl pos e2) = { main := some (fileCells nl (evBlocks (evs ++ e2))), temp := none } := by
  constructor
  · rw [hops, evOps_append, List.append_assoc]
    congr 2
    rw [hpos, fileCells_length, evSize_eq]
  · rw [hd, hpos, applyAll_evOps nl e2 _ _ rfl (fileCells_hdr nl _)]
    simp [fileCells, evBlocks_append, render_append, List.append_assoc]

theorem step_inv (c : Cfg) (mk : Mk) (hmk : MkOk mk) (nl bs : Nat) (r : Run) (wr : List Op)
    (h : RInv mk nl bs r wr) (a : Act) :
    RInv mk nl bs (r.step c mk a) (wr ++ written [a]) := by
  obtain ⟨hnl, hbs, hshape⟩ := h
  cases a with
  | w items =>
    simp only [Run.step, written, List.append_nil]
    by_cases hemp : items.isEmpty = true
    · have : items = [] := by simpa using hemp
      subst this
      simp only [cWrite, List.isEmpty_nil, if_true, Disk.applyAll_nil, List.append_nil, List.map_nil]
      exact ⟨hnl, hbs, hshape⟩
    · simp only [cWrite, hemp, if_false, Bool.false_eq_true]
      rcases hshape with ⟨hops, hd, hw, hwr⟩ | ⟨evs, hst⟩
      · -- first write: the file is created
        have hopen : ensureW c r.d r.cs = some ({ path := .main, pos := 64 + nl, nl := nl, buf := [], bufSize := 0, bs := bs },
            createOps .main nl) := by
          simp [ensureW, hw, hd, openWriter, Disk.get, hnl, hbs]
        simp only [hopen]
        obtain ⟨e2, hev, hents⟩ := addManyW_ev mk hmk nl bs items
          { path := .main, pos := 64 + nl, nl := nl, buf := [], bufSize := 0, bs := bs } ⟨rfl, rfl, rfl⟩ maxEnts_pos
        refine ⟨hnl, hbs, Or.inr ⟨e2, ?_, ?_, hev.wf, ?_⟩⟩
        · simp only [hops, List.nil_append]; rw [hev.ops]
        · simp only [hd, Disk.applyAll_append, createOps_apply_main]
          rw [hev.ops]
          have := applyAll_evOps nl e2 (fhCells nl ++ nmCells nl)
            { main := some (fhCells nl ++ nmCells nl), temp := none } rfl (HdrOk_file nl _)
          simp only [List.length_append, fhCells_length, nmCells_length] at this
          rw [this]; simp [fileCells]
        · simp only
          refine ⟨hev.main, ?_, ?_, hev.cnt⟩
          · rw [hev.pos, fileCells_length, evSize_eq]
          · rw [hwr]; simpa using hents
      · obtain ⟨hops, hd, hwf, hwriter⟩ := hst
        -- a writer is open, or the clean file is reopened without any operation
        have key : ∀ w0 : WSt, WMain w0 nl bs → w0.pos = (fileCells nl (evBlocks evs)).length →
            entsOf (evBlocks evs) ++ w0.buf = wr → w0.buf.length < maxEnts →
            ∀ o0, ensureW c r.d r.cs = some (w0, o0) → o0 = [] →
            RInv mk nl bs { cs := { r.cs with w := some (addManyW mk w0 items).1 },
                            d := r.d.applyAll (o0 ++ (addManyW mk w0 items).2),
                            ops := r.ops ++ (o0 ++ (addManyW mk w0 items).2) } (wr ++ items.map (·.1)) := by
          intro w0 hw0 hpos hent hcnt o0 _ ho0
          subst ho0
          obtain ⟨e2, hev, hents⟩ := addManyW_ev mk hmk nl bs items w0 hw0 hcnt
          obtain ⟨h1, h2⟩ := Started.extend (e2 := e2) hops hd w0.pos hpos
          refine ⟨hnl, hbs, Or.inr ⟨evs ++ e2, ?_, ?_, ?_, ?_⟩⟩
          · simp only [List.nil_append]; rw [hev.ops]; exact h1
          · simp only [List.nil_append]; rw [hev.ops]; exact h2
          · intro b hb
            rw [evBlocks_append] at hb
            rcases List.mem_append.mp hb with hb | hb
            · exact hwf b hb
            · exact hev.wf b hb
          · simp only
            refine ⟨hev.main, ?_, ?_, hev.cnt⟩
            · rw [hev.pos, hpos, fileCells_length, fileCells_length, evBlocks_append, render_append, evSize_eq]
              simp; omega
            · rw [evBlocks_append, entsOf_append, List.append_assoc, hents, ← List.append_assoc, hent]
        cases hw : r.cs.w with
        | some w0 =>
          rw [hw] at hwriter
          obtain ⟨hw0, hpos, hent, hcnt⟩ := hwriter
          have he : ensureW c r.d r.cs = some (w0, []) := by simp [ensureW, hw]
          simp only [he]
          exact key w0 hw0 hpos hent hcnt [] he rfl
        | none =>
          rw [hw] at hwriter
          let w1 : WSt := { path := .main, pos := (fileCells nl (evBlocks evs)).length, nl := nl, buf := [], bufSize := 0, bs := bs }
          have he : ensureW c r.d r.cs = some (w1, []) := by
            simp only [ensureW, hw, hd, hbs]
            exact openWriter_clean c nl bs _ hwf none _
          simp only [he]
          exact key w1 ⟨rfl, rfl, rfl⟩ rfl (by simpa [w1] using hwriter) maxEnts_pos [] he rfl
  | sync =>
    simp only [Run.step, written, List.append_nil]
    cases hw : r.cs.w with
    | none =>
      simp only [cSync, hw, Disk.applyAll_nil, List.append_nil]
      exact ⟨hnl, hbs, hshape⟩
    | some w0 =>
      simp only [cSync, hw]
      rcases hshape with ⟨_, _, hwn, _⟩ | ⟨evs, hops, hd, hwf, hwriter⟩
      · rw [hw] at hwn; cases hwn
      · rw [hw] at hwriter
        obtain ⟨hw0, hpos, hent, hcnt⟩ := hwriter
        obtain ⟨e2, hev, hents, hbuf⟩ := syncW_ev c mk hmk nl bs w0 hw0 (Nat.le_of_lt hcnt)
        obtain ⟨h1, h2⟩ := Started.extend (e2 := e2) hops hd w0.pos hpos
        refine ⟨hnl, hbs, Or.inr ⟨evs ++ e2, ?_, ?_, ?_, ?_⟩⟩
        · simp only; rw [hev.ops]; exact h1
        · simp only; rw [hev.ops]; exact h2
        · intro b hb
          rw [evBlocks_append] at hb
          rcases List.mem_append.mp hb with hb | hb
          · exact hwf b hb
          · exact hev.wf b hb
        · simp only
          refine ⟨hev.main, ?_, ?_, hev.cnt⟩
          · rw [hev.pos, hpos, fileCells_length, fileCells_length, evBlocks_append, render_append, evSize_eq]
            simp; omega
          · rw [hbuf, evBlocks_append, entsOf_append, hents, List.append_nil]; exact hent
  | close =>
    simp only [Run.step, written, List.append_nil]
    cases hw : r.cs.w with
    | none =>
      simp only [cClose, hw, Disk.applyAll_nil, List.append_nil]
      exact ⟨hnl, hbs, hshape⟩
    | some w0 =>
      simp only [cClose, hw]
      rcases hshape with ⟨_, _, hwn, _⟩ | ⟨evs, hops, hd, hwf, hwriter⟩
      · rw [hw] at hwn; cases hwn
      · rw [hw] at hwriter
        obtain ⟨hw0, hpos, hent, hcnt⟩ := hwriter
        obtain ⟨e2, hev, hwf2, hents⟩ := closeW_ev c mk hmk nl bs w0 hw0 (Nat.le_of_lt hcnt)
        obtain ⟨h1, h2⟩ := Started.extend (e2 := e2) hops hd w0.pos hpos
        refine ⟨hnl, hbs, Or.inr ⟨evs ++ e2, ?_, ?_, ?_, ?_⟩⟩
        · simp only; rw [hev]; exact h1
        · simp only; rw [hev]; exact h2
        · intro b hb
          rw [evBlocks_append] at hb
          rcases List.mem_append.mp hb with hb | hb
          · exact hwf b hb
          · exact hwf2 b hb
        · simp only
          rw [evBlocks_append, entsOf_append, hents]; exact hent

theorem written_append (a b : List Act) : written (a ++ b) = written a ++ written b := by
  induction a with
  | nil => rfl
  | cons x r ih => cases x <;> simp [written, ih]

/-- the run after a `Write` that left the writer `w` and issued `o` -/
def Run.wrote (r : Run) (w : WSt) (o : List FsOp) : Run :=
  { cs := { r.cs with w := some w }, d := r.d.applyAll o, ops := r.ops ++ o }

theorem step_cs (c : Cfg) (mk : Mk) (r : Run) (a : Act) :
    (r.step c mk a).cs.nlName = r.cs.nlName ∧ (r.step c mk a).cs.bs = r.cs.bs := by
  cases a with
  | w items =>
    simp only [Run.step, cWrite]
    split
    · exact ⟨rfl, rfl⟩
    · split <;> exact ⟨rfl, rfl⟩
  | sync => simp only [Run.step, cSync]; split <;> exact ⟨rfl, rfl⟩
  | close => simp only [Run.step, cClose]; split <;> exact ⟨rfl, rfl⟩

theorem Started.append_nil {mk : Mk} {nl bs : Nat} {r : Run} {wr : List Op} {evs : List Ev}
    (h : Started mk nl bs r wr evs) : Started mk nl bs r wr (evs ++ []) := by simpa using h

/-- **A started run only ever extends its event log**: whatever the next act, the operations are
    the old session log followed by further events. -/
theorem step_started (c : Cfg) (mk : Mk) (hmk : MkOk mk) (nl bs : Nat) (r : Run) (wr : List Op) (evs : List Ev)
    (hbs : r.cs.bs = bs) (hst : Started mk nl bs r wr evs) (a : Act) :
    ∃ e2, Started mk nl bs (r.step c mk a) (wr ++ written [a]) (evs ++ e2) := by
  cases a with
  | w items =>
    simp only [Run.step, written, List.append_nil]
    by_cases hemp : items.isEmpty = true
    · have : items = [] := by simpa using hemp
      subst this
      simp only [cWrite, List.isEmpty_nil, if_true, Disk.applyAll_nil, List.append_nil, List.map_nil]
      exact ⟨[], hst.append_nil⟩
    · simp only [cWrite, hemp, if_false, Bool.false_eq_true]
      obtain ⟨hops, hd, hwf, hwriter⟩ := hst
      have key : ∀ w0 : WSt, WMain w0 nl bs → w0.pos = (fileCells nl (evBlocks evs)).length →
          entsOf (evBlocks evs) ++ w0.buf = wr → w0.buf.length < maxEnts →
          ∀ o0, ensureW c r.d r.cs = some (w0, o0) → o0 = [] →
          ∃ e2, Started mk nl bs (r.wrote (addManyW mk w0 items).1 (o0 ++ (addManyW mk w0 items).2))
            (wr ++ items.map (·.1)) (evs ++ e2) := by
        intro w0 hw0 hpos hent hcnt o0 _ ho0
        subst ho0
        obtain ⟨e2, hev, hents⟩ := addManyW_ev mk hmk nl bs items w0 hw0 hcnt
        obtain ⟨h1, h2⟩ := Started.extend (e2 := e2) hops hd w0.pos hpos
        refine ⟨e2, ?_, ?_, ?_, ?_⟩
        · simp only [Run.wrote, List.nil_append]; rw [hev.ops]; exact h1
        · simp only [Run.wrote, List.nil_append]; rw [hev.ops]; exact h2
        · intro b hb
          rw [evBlocks_append] at hb
          rcases List.mem_append.mp hb with hb | hb
          · exact hwf b hb
          · exact hev.wf b hb
        · simp only [Run.wrote]
          refine ⟨hev.main, ?_, ?_, hev.cnt⟩
          · rw [hev.pos, hpos, fileCells_length, fileCells_length, evBlocks_append, render_append, evSize_eq]
            simp; omega
          · rw [evBlocks_append, entsOf_append, List.append_assoc, hents, ← List.append_assoc, hent]
      cases hw : r.cs.w with
      | some w0 =>
        rw [hw] at hwriter
        obtain ⟨hw0, hpos, hent, hcnt⟩ := hwriter
        have he : ensureW c r.d r.cs = some (w0, []) := by simp [ensureW, hw]
        simp only [he]
        exact key w0 hw0 hpos hent hcnt [] he rfl
      | none =>
        rw [hw] at hwriter
        let w1 : WSt := { path := .main, pos := (fileCells nl (evBlocks evs)).length, nl := nl, buf := [], bufSize := 0, bs := bs }
        have he : ensureW c r.d r.cs = some (w1, []) := by
          simp only [ensureW, hw, hd, hbs]
          exact openWriter_clean c nl bs _ hwf none _
        simp only [he]
        exact key w1 ⟨rfl, rfl, rfl⟩ rfl (by simpa [w1] using hwriter) maxEnts_pos [] he rfl
  | sync =>
    simp only [Run.step, written, List.append_nil]
    cases hw : r.cs.w with
    | none =>
      simp only [cSync, hw, Disk.applyAll_nil, List.append_nil]
      exact ⟨[], hst.append_nil⟩
    | some w0 =>
      simp only [cSync, hw]
      obtain ⟨hops, hd, hwf, hwriter⟩ := hst
      rw [hw] at hwriter
      obtain ⟨hw0, hpos, hent, hcnt⟩ := hwriter
      obtain ⟨e2, hev, hents, hbuf⟩ := syncW_ev c mk hmk nl bs w0 hw0 (Nat.le_of_lt hcnt)
      obtain ⟨h1, h2⟩ := Started.extend (e2 := e2) hops hd w0.pos hpos
      refine ⟨e2, ?_, ?_, ?_, ?_⟩
      · simp only; rw [hev.ops]; exact h1
      · simp only; rw [hev.ops]; exact h2
      · intro b hb
        rw [evBlocks_append] at hb
        rcases List.mem_append.mp hb with hb | hb
        · exact hwf b hb
        · exact hev.wf b hb
      · simp only
        refine ⟨hev.main, ?_, ?_, hev.cnt⟩
        · rw [hev.pos, hpos, fileCells_length, fileCells_length, evBlocks_append, render_append, evSize_eq]
          simp; omega
        · rw [hbuf, evBlocks_append, entsOf_append, hents, List.append_nil]; exact hent
  | close =>
    simp only [Run.step, written, List.append_nil]
    cases hw : r.cs.w with
    | none =>
      simp only [cClose, hw, Disk.applyAll_nil, List.append_nil]
      exact ⟨[], hst.append_nil⟩
    | some w0 =>
      simp only [cClose, hw]
      obtain ⟨hops, hd, hwf, hwriter⟩ := hst
      rw [hw] at hwriter
      obtain ⟨hw0, hpos, hent, hcnt⟩ := hwriter
      obtain ⟨e2, hev, hwf2, hents⟩ := closeW_ev c mk hmk nl bs w0 hw0 (Nat.le_of_lt hcnt)
      obtain ⟨h1, h2⟩ := Started.extend (e2 := e2) hops hd w0.pos hpos
      refine ⟨e2, ?_, ?_, ?_, ?_⟩
      · simp only; rw [hev]; exact h1
      · simp only; rw [hev]; exact h2
      · intro b hb
        rw [evBlocks_append] at hb
        rcases List.mem_append.mp hb with hb | hb
        · exact hwf b hb
        · exact hwf2 b hb
      · simp only
        rw [evBlocks_append, entsOf_append, hents]; exact hent

/-- any acts from a started run: the event log is extended -/
theorem run_started (c : Cfg) (mk : Mk) (hmk : MkOk mk) (nl bs : Nat) : ∀ (acts : List Act) (r : Run) (wr : List Op)
    (evs : List Ev), r.cs.bs = bs → Started mk nl bs r wr evs →
    ∃ e2, Started mk nl bs (acts.foldl (Run.step c mk) r) (wr ++ written acts) (evs ++ e2) := by
  intro acts
  induction acts with
  | nil => intro r wr evs _ h; exact ⟨[], by simpa [written] using h⟩
  | cons a rest ih =>
    intro r wr evs hbs h
    obtain ⟨e1, h1⟩ := step_started c mk hmk nl bs r wr evs hbs h a
    obtain ⟨e2, h2⟩ := ih _ _ _ ((step_cs c mk r a).2.trans hbs) h1
    refine ⟨e1 ++ e2, ?_⟩
    simp only [List.foldl_cons]
    have hw : wr ++ written (a :: rest) = wr ++ written [a] ++ written rest := by
      rw [show a :: rest = [a] ++ rest from rfl, written_append, List.append_assoc]
    rw [hw, ← List.append_assoc]; exact h2

/-- the invariant is kept by any acts, from any run that satisfies it (not only the empty one) -/
theorem run_inv_gen (c : Cfg) (mk : Mk) (hmk : MkOk mk) (nl bs : Nat) : ∀ (acts : List Act) (r : Run) (wr : List Op),
    RInv mk nl bs r wr → RInv mk nl bs (acts.foldl (Run.step c mk) r) (wr ++ written acts) := by
  intro acts
  induction acts with
  | nil => intro r wr h; simpa [written] using h
  | cons a rest ih =>
    intro r wr h
    have h1 := step_inv c mk hmk nl bs r wr h a
    have h2 := ih _ _ h1
    simp only [List.foldl_cons]
    have : wr ++ written (a :: rest) = wr ++ written [a] ++ written rest := by
      rw [show a :: rest = [a] ++ rest from rfl, written_append, List.append_assoc]
    rw [this]; exact h2

/-- **Tie between the executable chronicler model and the session log**: whatever acts are
    run from an empty disk, the operation log is `createOps ++ evOps …` on a clean file whose
    blocks plus the writer's buffer hold exactly the written entries. -/
theorem run_inv (c : Cfg) (mk : Mk) (hmk : MkOk mk) (nl bs : Nat) (acts : List Act) :
    RInv mk nl bs (runActs c mk nl bs acts) (written acts) := by
  have h0 : RInv mk nl bs { cs := { w := none, nlName := nl, bs := bs } } [] :=
    ⟨rfl, rfl, Or.inl ⟨rfl, rfl, rfl, rfl⟩⟩
  simpa [runActs] using run_inv_gen c mk hmk nl bs acts _ _ h0

end Hv.BlockStore
