/-
  The chronicler model, run over a list of acts from an empty disk, produces a session log:
  `createOps ++ evOps …`, and leaves a clean file holding exactly the flushed entries.
-/
import Hv.Storage.CrashLog

namespace Hv.Storage

/-! ### Events applied to a disk -/

theorem apply_write_main (d : Disk) (f : List Cell) (hd : d.main = some f) (off : Nat) (cs : List Cell) :
    d.apply (.write .main off cs) = { d with main := some (splice f off cs) } := by
  simp [Disk.apply, Disk.get, hd, Disk.set]

theorem applyAll_evOps (nl : Nat) (evs : List Ev) : ∀ (f : List Cell) (d : Disk), d.main = some f → HdrOk f nl →
    d.applyAll (evOps nl f.length evs) = { d with main := some (f ++ render (evBlocks evs)) } := by
  induction evs with
  | nil => intro f d hd _; cases d; simp_all [evOps, evBlocks, render, Disk.applyAll]
  | cons e r ih =>
    intro f d hd hh
    cases e with
    | sync =>
      simp only [evOps, evBlocks, Disk.applyAll_cons]
      have : d.apply (.sync .main) = d := rfl
      rw [this]; exact ih f d hd hh
    | hdr =>
      simp only [evOps, evBlocks, Disk.applyAll_cons]
      rw [apply_write_main d f hd, splice_hdr hh]
      have : ({ d with main := some f } : Disk) = d := by cases d; simp_all
      rw [this]; exact ih f d hd hh
    | blk b =>
      simp only [evOps, evBlocks, Disk.applyAll_cons]
      rw [apply_write_main d f hd, splice_end]
      rw [apply_write_main { d with main := some (f ++ hdrCells b) } (f ++ hdrCells b) rfl]
      have h16 : f.length + 16 = (f ++ hdrCells b).length := by simp
      rw [h16, splice_end]
      have hb : f ++ hdrCells b ++ payCells b = f ++ blockCells b := by simp [blockCells]
      rw [hb]
      rw [apply_write_main { d with main := some (f ++ blockCells b) } (f ++ blockCells b) rfl, splice_hdr (hh.append _)]
      have hL : (f ++ hdrCells b).length + b.plen = (f ++ blockCells b).length := by simp; omega
      rw [hL, ih (f ++ blockCells b) _ rfl (hh.append _)]
      simp [render, List.append_assoc]

/-! ### Writer steps as events -/

/-- a writer on the main file -/
structure WMain (w : WSt) (nl bs : Nat) : Prop where
  path : w.path = .main
  nl : w.nl = nl
  bs : w.bs = bs

/-- result of some writer steps: the operations are a run of events -/
structure WEv (mk : Mk) (nl bs : Nat) (w w' : WSt) (ops : List FsOp) (evs : List Ev) : Prop where
  ops : ops = evOps nl w.pos evs
  pos : w'.pos = w.pos + evSize evs
  wf : ∀ b ∈ evBlocks evs, b.WF
  main : WMain w' nl bs

theorem flushW_ev (mk : Mk) (hmk : MkOk mk) (nl bs : Nat) (w : WSt) (hw : WMain w nl bs) :
    ∃ evs, WEv mk nl bs w (flushW mk w).1 (flushW mk w).2 evs ∧
      entsOf (evBlocks evs) = w.buf ∧ (flushW mk w).1.buf = [] := by
  by_cases hb : w.buf = []
  · rw [flushW_nil mk w hb]
    exact ⟨[], ⟨by simp [evOps], by simp [evSize], by simp [evBlocks], hw⟩, by simp [evBlocks, entsOf, hb], hb⟩
  · rw [flushW_cons mk w hb]
    obtain ⟨hwf, hents⟩ := hmk w.buf hb
    refine ⟨[.blk (mk w.buf)], ⟨?_, ?_, ?_, ⟨hw.path, hw.nl, hw.bs⟩⟩, ?_, rfl⟩
    · simp [evOps, hw.path, hw.nl]
    · simp [evSize]; omega
    · simpa [evBlocks] using hwf
    · simp [evBlocks, entsOf, hents]

theorem WEv.trans {mk : Mk} {nl bs : Nat} {w w1 w2 : WSt} {o1 o2 : List FsOp} {e1 e2 : List Ev}
    (h1 : WEv mk nl bs w w1 o1 e1) (h2 : WEv mk nl bs w1 w2 o2 e2) : WEv mk nl bs w w2 (o1 ++ o2) (e1 ++ e2) := by
  refine ⟨?_, ?_, ?_, h2.main⟩
  · rw [evOps_append, h1.ops, h2.ops, h1.pos]
  · rw [h2.pos, h1.pos]
    have : evSize (e1 ++ e2) = evSize e1 + evSize e2 := by
      rw [evSize_eq, evSize_eq, evSize_eq, evBlocks_append, render_append]; simp
    omega
  · intro b hb
    rw [evBlocks_append] at hb
    rcases List.mem_append.mp hb with hb | hb
    · exact h1.wf b hb
    · exact h2.wf b hb

theorem addW_ev (mk : Mk) (hmk : MkOk mk) (nl bs : Nat) (w : WSt) (hw : WMain w nl bs) (e : Op) (sz : Nat) :
    ∃ evs, WEv mk nl bs w (addW mk w e sz).1 (addW mk w e sz).2 evs ∧
      entsOf (evBlocks evs) ++ (addW mk w e sz).1.buf = w.buf ++ [e] := by
  have hw1 : WMain { w with buf := w.buf ++ [e], bufSize := w.bufSize + sz } nl bs := ⟨hw.path, hw.nl, hw.bs⟩
  by_cases hge : w.bufSize + sz ≥ w.bs
  · have : addW mk w e sz = flushW mk { w with buf := w.buf ++ [e], bufSize := w.bufSize + sz } := by
      unfold addW; simp only; rw [if_pos hge]
    rw [this]
    obtain ⟨evs, hev, he, hbuf⟩ := flushW_ev mk hmk nl bs _ hw1
    exact ⟨evs, ⟨hev.ops, hev.pos, hev.wf, hev.main⟩, by rw [hbuf, he]; simp⟩
  · have : addW mk w e sz = ({ w with buf := w.buf ++ [e], bufSize := w.bufSize + sz }, []) := by
      unfold addW; simp only; rw [if_neg hge]
    rw [this]
    exact ⟨[], ⟨by simp [evOps], by simp [evSize], by simp [evBlocks], hw1⟩, by simp [evBlocks, entsOf]⟩

theorem addManyW_ev (mk : Mk) (hmk : MkOk mk) (nl bs : Nat) (items : List (Op × Nat)) :
    ∀ (w : WSt), WMain w nl bs →
    ∃ evs, WEv mk nl bs w (addManyW mk w items).1 (addManyW mk w items).2 evs ∧
      entsOf (evBlocks evs) ++ (addManyW mk w items).1.buf = w.buf ++ items.map (·.1) := by
  induction items with
  | nil =>
    intro w hw
    exact ⟨[], ⟨by simp [evOps, addManyW], by simp [evSize, addManyW], by simp [evBlocks], hw⟩,
      by simp [evBlocks, entsOf, addManyW]⟩
  | cons it rest ih =>
    intro w hw
    obtain ⟨e, sz⟩ := it
    obtain ⟨a, ha, hea⟩ := addW_ev mk hmk nl bs w hw e sz
    obtain ⟨b, hb, heb⟩ := ih _ ha.main
    refine ⟨a ++ b, ?_, ?_⟩
    · simp only [addManyW]; exact ha.trans hb
    · simp only [addManyW, evBlocks_append, entsOf_append, List.map_cons, List.append_assoc]
      rw [heb, ← List.append_assoc, hea]; simp

theorem syncW_ev (c : Cfg) (mk : Mk) (hmk : MkOk mk) (nl bs : Nat) (w : WSt) (hw : WMain w nl bs) :
    ∃ evs, WEv mk nl bs w (syncW c mk w).1 (syncW c mk w).2 evs ∧
      entsOf (evBlocks evs) = w.buf ∧ (syncW c mk w).1.buf = [] := by
  obtain ⟨evs, hev, he, hbuf⟩ := flushW_ev mk hmk nl bs w hw
  refine ⟨evs ++ ([.hdr] ++ if c.syncFsyncs then [.sync] else []), ⟨?_, ?_, ?_, hev.main⟩, ?_, hbuf⟩
  · simp only [syncW]
    rw [evOps_append, ← hev.ops, List.append_assoc]
    congr 1
    cases c.syncFsyncs <;> simp [evOps, hw.path, hw.nl]
  · simp only [syncW]
    have : evSize (evs ++ ([Ev.hdr] ++ if c.syncFsyncs = true then [Ev.sync] else [])) = evSize evs := by
      rw [evSize_eq, evSize_eq, evBlocks_append]
      cases c.syncFsyncs <;> simp [evBlocks, render]
    rw [this]; exact hev.pos
  · intro b hb
    rw [evBlocks_append] at hb
    have : evBlocks ([Ev.hdr] ++ if c.syncFsyncs = true then [Ev.sync] else []) = [] := by
      cases c.syncFsyncs <;> simp [evBlocks]
    rw [this, List.append_nil] at hb
    exact hev.wf b hb
  · rw [evBlocks_append]
    have : evBlocks ([Ev.hdr] ++ if c.syncFsyncs = true then [Ev.sync] else []) = [] := by
      cases c.syncFsyncs <;> simp [evBlocks]
    rw [this, List.append_nil]; exact he

theorem closeW_ev (c : Cfg) (mk : Mk) (hmk : MkOk mk) (nl bs : Nat) (w : WSt) (hw : WMain w nl bs) :
    ∃ evs, closeW c mk w = evOps nl w.pos evs ∧ (∀ b ∈ evBlocks evs, b.WF) ∧ entsOf (evBlocks evs) = w.buf := by
  obtain ⟨evs, hev, he, _⟩ := flushW_ev mk hmk nl bs w hw
  have hnil : evBlocks ([Ev.hdr] ++ if c.closeFsyncs = true then [Ev.sync] else []) = [] := by
    cases c.closeFsyncs <;> simp [evBlocks]
  refine ⟨evs ++ ([.hdr] ++ if c.closeFsyncs then [.sync] else []), ?_, ?_, ?_⟩
  · simp only [closeW]
    rw [evOps_append, ← hev.ops, List.append_assoc]
    congr 1
    cases c.closeFsyncs <;> simp [evOps, hw.path, hw.nl]
  · intro b hb
    rw [evBlocks_append, hnil, List.append_nil] at hb
    exact hev.wf b hb
  · rw [evBlocks_append, hnil, List.append_nil]; exact he

end Hv.Storage
