/-
  Lemmas for C02: how the reader treats a byte-prefix of a cleanly written file (what a crash
  leaves behind when the log is append-only), for every reader configuration.
-/
import Hv.Storage.ChronLemmas

namespace Hv.BlockStore

/-! ### A torn block at the end of the file -/

theorem sizeField_hdr (b : Block) (hw : b.WF) (rest : List Cell) :
    sizeField (hdrCells b ++ rest) = some b.plen := by
  have := sizeField_block b hw rest
  simp only [blockCells, List.append_assoc] at this
  -- the size field only looks at the first four cells, all inside the header
  obtain ⟨h16, hle, _⟩ := hw
  have e0 : b.hdr[0]? = some (b.hdr[0]'(by omega)) := List.getElem?_eq_getElem (by omega)
  have e1 : b.hdr[1]? = some (b.hdr[1]'(by omega)) := List.getElem?_eq_getElem (by omega)
  have e2 : b.hdr[2]? = some (b.hdr[2]'(by omega)) := List.getElem?_eq_getElem (by omega)
  have e3 : b.hdr[3]? = some (b.hdr[3]'(by omega)) := List.getElem?_eq_getElem (by omega)
  simp only [hdrCells_eq, List.cons_append, List.nil_append, sizeField, cellByte, e0, e1, e2, e3]
  simp only [le32, List.getD_eq_getElem?_getD, e0, e1, e2, e3, Option.getD_some] at hle
  simp [hle]

/-- how reading stops on the first `r` bytes of a block (`r` less than the whole block) -/
def tailStop (r : Nat) : Stop :=
  if r = 0 then .eof else if r < 16 then .shortHdr else if r = 16 then .eof else .torn

theorem take_blockCells_ge (b : Block) (r : Nat) (h : 16 ≤ r) :
    (blockCells b).take r = hdrCells b ++ (payCells b).take (r - 16) := by
  simp only [blockCells]
  rw [List.take_append]
  simp [List.take_of_length_le, h]

theorem readBlocks_torn_tail (f : Nat) (b : Block) (hw : b.WF) (r : Nat) (hr : r < 16 + b.plen) :
    readBlocks (f + 1) ((blockCells b).take r) = ([], tailStop r) := by
  have hlen : ((blockCells b).take r).length = r := by
    simp only [List.length_take, blockCells_length]; omega
  rw [readBlocks]
  simp only [hlen]
  by_cases h0 : r = 0
  · simp [h0, tailStop]
  · by_cases h1 : r < 16
    · simp [h0, h1, tailStop]
    · have hge : 16 ≤ r := by omega
      have hsz : sizeField ((blockCells b).take r) = some b.plen := by
        rw [take_blockCells_ge b r hge]; exact sizeField_hdr b hw _
      simp only [h0, h1, if_false, hsz]
      have hlt : r - 16 < b.plen := by omega
      have hp0 : ¬ b.plen = 0 := by have := hw.2.2.1; omega
      simp only [hp0, hlt, if_true, if_false]
      by_cases h16 : r = 16
      · simp [h16, tailStop]
      · simp [h16, tailStop, h0, h1]

/-- whole blocks followed by a torn one -/
theorem readBlocks_render_torn (bs : List Block) (hwf : ∀ b ∈ bs, b.WF) (b : Block) (hb : b.WF) (r : Nat)
    (hr : r < 16 + b.plen) (f : Nat) :
    readBlocks (bs.length + (f + 1)) (render bs ++ (blockCells b).take r) = (entsOf bs, tailStop r) := by
  rw [readBlocks_render bs hwf (f + 1), readBlocks_torn_tail f b hb r hr]
  simp

/-! ### Prefixes of a run of blocks -/

/-- a prefix of whole blocks is: some whole blocks, then nothing or the beginning of the next one -/
theorem prefix_render (bs : List Block) : ∀ (g : List Cell), g <+: render bs →
    ∃ m, m ≤ bs.length ∧ ∃ t, g = render (bs.take m) ++ t ∧
      (t = [] ∨ ∃ b r, bs[m]? = some b ∧ t = (blockCells b).take r ∧ 0 < r ∧ r < 16 + b.plen) := by
  induction bs with
  | nil =>
    intro g hg
    have : g = [] := by simpa [render] using hg
    exact ⟨0, by simp, [], by simp [this, render], Or.inl rfl⟩
  | cons b rest ih =>
    intro g hg
    have hrender : render (b :: rest) = blockCells b ++ render rest := by simp [render]
    rw [hrender] at hg
    by_cases hlen : g.length < 16 + b.plen
    · -- g lies inside the first block
      have hpre : g <+: blockCells b :=
        List.prefix_of_prefix_length_le hg (List.prefix_append _ _) (by simp; omega)
      have hgt : g = (blockCells b).take g.length := List.prefix_iff_eq_take.mp hpre
      refine ⟨0, by simp, g, by simp [render], ?_⟩
      by_cases hnil : g = []
      · exact Or.inl hnil
      · refine Or.inr ⟨b, g.length, by simp, hgt, ?_, hlen⟩
        cases g with
        | nil => exact absurd rfl hnil
        | cons _ _ => simp
    · have hpre : blockCells b <+: g :=
        List.prefix_of_prefix_length_le (List.prefix_append _ _) hg (by simp; omega)
      obtain ⟨g', hg'⟩ := hpre
      subst hg'
      have hg2 : g' <+: render rest := (List.prefix_append_right_inj _).mp hg
      obtain ⟨m, hm, t, ht, htail⟩ := ih g' hg2
      refine ⟨m + 1, by simp; omega, t, ?_, ?_⟩
      · rw [ht]; simp [render, List.append_assoc]
      · rcases htail with h | ⟨b', r, hb', ht', hr0, hr1⟩
        · exact Or.inl h
        · exact Or.inr ⟨b', r, by simpa using hb', ht', hr0, hr1⟩

theorem render_take_length_le (bs : List Block) (a b : Nat) (h : a ≤ b) :
    (render (bs.take a)).length ≤ (render (bs.take b)).length := by
  have : bs.take a = (bs.take b).take a := by rw [List.take_take]; congr 1; omega
  rw [this]
  have hp : (bs.take b).take a <+: bs.take b := List.take_prefix _ _
  obtain ⟨t, ht⟩ := hp
  conv => rhs; rw [← ht, render_append]
  simp

theorem render_take_succ (bs : List Block) (m : Nat) (b : Block) (h : bs[m]? = some b) :
    render (bs.take (m + 1)) = render (bs.take m) ++ blockCells b := by
  rw [List.take_succ, h]
  simp [render]

/-! ### Loading a prefix of a clean file -/

/-- the reader treats a torn tail (short block header, short payload) as the end of the data -/
def GoodR (c : RCfg) : Prop := c.shortHeaderIsEOF = true ∧ c.tornDataIsEOF = true

/-- entries a load returns; an unreadable file yields none (`Load` logs the error and the swamp starts empty) -/
def loadEntries (c : RCfg) (g : List Cell) : List Op :=
  match loadFile c g with
  | .ok es => es
  | _ => []

theorem stopOk_tailStop (c : RCfg) (hc : GoodR c) (r : Nat) : stopOk c (tailStop r) = true := by
  obtain ⟨h1, h2⟩ := hc
  unfold tailStop
  split
  · rfl
  · split
    · exact h1
    · split
      · rfl
      · exact h2

theorem headerOf_short (g : List Cell) (h : g.length < 64) : headerOf g = none := by
  unfold headerOf
  split
  · rename_i nl i _
    have : g.take 64 ≠ fhCells nl := by
      intro e
      have := congrArg List.length e
      simp only [List.length_take, fhCells_length] at this
      omega
    simp [this]
  · rfl

/-- shape of a prefix of a clean file that is long enough to hold header and name -/
theorem prefix_file_shape (nl : Nat) (bs : List Block) (g : List Cell) (hg : g <+: fileCells nl bs)
    (hlen : 64 + nl ≤ g.length) :
    ∃ m, m ≤ bs.length ∧ ∃ t, g = fileCells nl (bs.take m) ++ t ∧
      (t = [] ∨ ∃ b r, bs[m]? = some b ∧ t = (blockCells b).take r ∧ 0 < r ∧ r < 16 + b.plen) := by
  have hbase : fhCells nl ++ nmCells nl <+: g := by
    apply List.prefix_of_prefix_length_le _ hg (by simp; omega)
    simp only [fileCells]; exact List.prefix_append _ _
  obtain ⟨g2, hg2⟩ := hbase
  subst hg2
  have : g2 <+: render bs := by
    simp only [fileCells] at hg
    exact (List.prefix_append_right_inj _).mp hg
  obtain ⟨m, hm, t, ht, htail⟩ := prefix_render bs g2 this
  exact ⟨m, hm, t, by rw [ht]; simp [fileCells, List.append_assoc], htail⟩

theorem loadFile_base_tail (c : RCfg) (nl : Nat) (bs : List Block) (hwf : ∀ b ∈ bs, b.WF)
    (b : Block) (hb : b.WF) (r : Nat) (hr : r < 16 + b.plen) :
    loadFile c (fileCells nl bs ++ (blockCells b).take r) =
      if stopOk c (tailStop r) then .ok (entsOf bs) else .errLoad := by
  have hh : headerOf (fileCells nl bs ++ (blockCells b).take r) = some nl := by
    simp only [fileCells, List.append_assoc]; exact headerOf_file nl _
  have hdr : (fileCells nl bs ++ (blockCells b).take r).drop 64 = nmCells nl ++ (render bs ++ (blockCells b).take r) := by
    simp only [fileCells, List.append_assoc]
    rw [List.drop_append_of_le_length (by simp)]
    simp [List.drop_of_length_le]
  have hdr2 : (nmCells nl ++ (render bs ++ (blockCells b).take r)).drop nl = render bs ++ (blockCells b).take r := by
    rw [List.drop_append_of_le_length (by simp)]
    simp [List.drop_of_length_le]
  simp only [loadFile, hh, hdr, hdr2]
  have hnl : ¬ ((nmCells nl ++ (render bs ++ (blockCells b).take r)).length < nl) := by simp
  simp only [hnl, if_false]
  have hfuel : (fileCells nl bs ++ (blockCells b).take r).length =
      bs.length + (((fileCells nl bs ++ (blockCells b).take r).length - bs.length - 1) + 1) := by
    have := render_length_ge bs
    simp only [fileCells, List.length_append, fhCells_length, nmCells_length]
    omega
  rw [hfuel, readBlocks_render_torn bs hwf b hb r hr]

/-- Good reader facts: every prefix of a clean file loads, to the entries of the whole blocks
    it contains.  The number of whole blocks is pinned down by the length. -/
theorem loadFile_prefix_good (c : RCfg) (hc : GoodR c) (nl : Nat) (bs : List Block) (hwf : ∀ b ∈ bs, b.WF)
    (g : List Cell) (hg : g <+: fileCells nl bs) :
    ∃ m, m ≤ bs.length ∧ loadEntries c g = entsOf (bs.take m) ∧
      ∀ sb : List Block, sb <+: bs → fileCells nl sb <+: g → sb.length ≤ m := by
  by_cases hlen : 64 + nl ≤ g.length
  · obtain ⟨m, hm, t, ht, htail⟩ := prefix_file_shape nl bs g hg hlen
    have hwfm : ∀ b ∈ bs.take m, b.WF := fun b hb => hwf b (List.mem_of_mem_take hb)
    refine ⟨m, hm, ?_, ?_⟩
    · rcases htail with h | ⟨b, r, hb, ht', _, hr1⟩
      · subst h; rw [ht, List.append_nil]; simp [loadEntries, loadFile_clean c nl _ hwfm]
      · rw [ht, ht']; simp [loadEntries, loadFile_base_tail c nl _ hwfm b (hwf b (List.mem_of_getElem? hb)) r hr1,
          stopOk_tailStop c hc r]
    · intro sb hsb hpre
      apply Classical.byContradiction
      intro hcon
      have hgt : m + 1 ≤ sb.length := by omega
      have hsbt : sb = bs.take sb.length := List.prefix_iff_eq_take.mp hsb
      have hsl : sb.length ≤ bs.length := hsb.length_le
      have hl1 := hpre.length_le
      obtain ⟨b, hb⟩ : ∃ b, bs[m]? = some b := ⟨bs[m]'(by omega), List.getElem?_eq_getElem (by omega)⟩
      have hl2 := render_take_length_le bs (m + 1) sb.length hgt
      rw [← hsbt, render_take_succ bs m b hb] at hl2
      have hgl : g.length < (fileCells nl (bs.take m)).length + (16 + b.plen) := by
        rw [ht]
        rcases htail with h | ⟨b', r, hb', ht', _, hr1⟩
        · subst h; simp; omega
        · rw [hb] at hb'; cases hb'; rw [ht']; simp; omega
      simp only [fileCells, List.length_append, fhCells_length, nmCells_length, blockCells_length] at hl1 hl2 hgl
      omega
  · -- header or name incomplete: an empty swamp
    refine ⟨0, by simp, ?_, ?_⟩
    · by_cases h64 : g.length < 64
      · cases hs : c.shortFileIsEmpty <;> simp [loadEntries, loadFile, headerOf_short g h64, hs, h64, entsOf]
      · have hfh : fhCells nl <+: g := by
          apply List.prefix_of_prefix_length_le _ hg (by simp; omega)
          simp only [fileCells, List.append_assoc]; exact List.prefix_append _ _
        obtain ⟨g2, hg2⟩ := hfh
        subst hg2
        have hd : (fhCells nl ++ g2).drop 64 = g2 := by
          rw [List.drop_append_of_le_length (by simp)]
          simp [List.drop_of_length_le]
        have hl : g2.length < nl := by
          simp only [List.length_append, fhCells_length] at hlen
          omega
        cases hs : c.shortFileIsEmpty <;>
          simp [loadEntries, loadFile, headerOf_file, hd, hl, hs, entsOf]
    · intro sb _ hpre
      have := hpre.length_le
      simp only [fileCells, List.length_append, fhCells_length, nmCells_length] at this
      omega

end Hv.BlockStore
