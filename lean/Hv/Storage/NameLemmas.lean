/-
  The name area of a file under the writer: whatever is written (encodable or not), the file
  keeps the shape  header ++ name ++ blocks  with a valid header of the same version that counts
  the name correctly.  No hypothesis on entries, block sizes or the code facts is needed.
-/
import Hv.Storage.WriterLemmas

namespace Hv.Storage

structure ShapeOK (v : Nat) (name : Bytes) (st : St) : Prop where
  file : ∃ (hdr : FileHeader) (tail : Bytes),
    st.file = encodeFileHeader hdr ++ (name ++ tail) ∧ hdr.Valid ∧ NameOk hdr name ∧ hdr.version = v
  sess : ∀ s, st.sess = some s →
    s.hdr.Valid ∧ NameOk s.hdr name ∧ s.hdr.version = v ∧ s.blockCount < 2 ^ 64 ∧ s.entryCount < 2 ^ 64

theorem rewriteHeader_shape (h h' : FileHeader) (name tail : Bytes) :
    rewriteHeader (encodeFileHeader h ++ (name ++ tail)) h' = encodeFileHeader h' ++ (name ++ tail) := by
  unfold rewriteHeader
  rw [drop_append_len _ _ 64 (encodeFileHeader_length h)]

theorem flushSess_shape (codec : Codec) (crc : Checksum) (v : Nat) (name file : Bytes) (s : Sess)
    (hF : ∃ (hdr : FileHeader) (tail : Bytes), file = encodeFileHeader hdr ++ (name ++ tail) ∧ hdr.Valid ∧ NameOk hdr name ∧ hdr.version = v)
    (hS : s.hdr.Valid ∧ NameOk s.hdr name ∧ s.hdr.version = v ∧ s.blockCount < 2 ^ 64 ∧ s.entryCount < 2 ^ 64) :
    (∃ (hdr : FileHeader) (tail : Bytes), (flushSess codec crc file s).1 = encodeFileHeader hdr ++ (name ++ tail) ∧
        hdr.Valid ∧ NameOk hdr name ∧ hdr.version = v) ∧
    ((flushSess codec crc file s).2.hdr.Valid ∧ NameOk (flushSess codec crc file s).2.hdr name ∧
      (flushSess codec crc file s).2.hdr.version = v ∧
      (flushSess codec crc file s).2.blockCount < 2 ^ 64 ∧ (flushSess codec crc file s).2.entryCount < 2 ^ 64) := by
  unfold flushSess
  cases hb : s.bufRev with
  | nil => simp only [List.isEmpty_nil, if_true]; exact ⟨hF, hS⟩
  | cons e t =>
    simp only [List.isEmpty_cons, Bool.false_eq_true, if_false]
    obtain ⟨hdr, tail, hfile, _, _, _⟩ := hF
    obtain ⟨hv, hn, hver, _, _⟩ := hS
    have hbc : (s.blockCount + 1) % 2 ^ 64 < 2 ^ 64 := Nat.mod_lt _ (by decide)
    have hec : (s.entryCount + (e :: t).length % 2 ^ 16) % 2 ^ 64 < 2 ^ 64 := Nat.mod_lt _ (by decide)
    refine ⟨⟨_, tail ++ encodeBlock codec crc (e :: t).reverse, ?_, valid_setCounts s.hdr hv _ _ hbc hec, hn, hver⟩,
      valid_setCounts s.hdr hv _ _ hbc hec, hn, hver, hbc, hec⟩
    rw [hfile]
    have : encodeFileHeader hdr ++ (name ++ tail) ++ encodeBlock codec crc (e :: t).reverse
        = encodeFileHeader hdr ++ (name ++ (tail ++ encodeBlock codec crc (e :: t).reverse)) := by simp
    rw [this, rewriteHeader_shape]

theorem finishSess_shape (codec : Codec) (crc : Checksum) (v : Nat) (name file : Bytes) (s : Sess)
    (hF : ∃ (hdr : FileHeader) (tail : Bytes), file = encodeFileHeader hdr ++ (name ++ tail) ∧ hdr.Valid ∧ NameOk hdr name ∧ hdr.version = v)
    (hS : s.hdr.Valid ∧ NameOk s.hdr name ∧ s.hdr.version = v ∧ s.blockCount < 2 ^ 64 ∧ s.entryCount < 2 ^ 64) :
    (∃ (hdr : FileHeader) (tail : Bytes), (finishSess codec crc file s).1 = encodeFileHeader hdr ++ (name ++ tail) ∧
        hdr.Valid ∧ NameOk hdr name ∧ hdr.version = v) ∧
    ((finishSess codec crc file s).2.hdr.Valid ∧ NameOk (finishSess codec crc file s).2.hdr name ∧
      (finishSess codec crc file s).2.hdr.version = v ∧
      (finishSess codec crc file s).2.blockCount < 2 ^ 64 ∧ (finishSess codec crc file s).2.entryCount < 2 ^ 64) := by
  obtain ⟨hF', hS'⟩ := flushSess_shape codec crc v name file s hF hS
  unfold finishSess
  generalize flushSess codec crc file s = r at hF' hS'
  obtain ⟨f1, s1⟩ := r
  simp only at hF' hS' ⊢
  obtain ⟨hdr, tail, hfile, _, _, _⟩ := hF'
  obtain ⟨hv, hn, hver, hbc, hec⟩ := hS'
  have hv' := valid_setCounts s1.hdr hv s1.blockCount s1.entryCount hbc hec
  refine ⟨⟨_, tail, ?_, hv', hn, hver⟩, hv', hn, hver, hbc, hec⟩
  rw [hfile, rewriteHeader_shape]

theorem step_shape (cfg : Cfg) (codec : Codec) (crc : Checksum) (bs : Nat) (v : Nat) (name : Bytes)
    (st : St) (op : Op) (h : ShapeOK v name st) : ShapeOK v name (step cfg codec crc bs st op).1 := by
  obtain ⟨hF, hS⟩ := h
  obtain ⟨file, sess⟩ := st
  cases sess with
  | none =>
    cases op with
    | write e => exact ⟨hF, hS⟩
    | flush => exact ⟨hF, hS⟩
    | sync => exact ⟨hF, hS⟩
    | close => exact ⟨hF, hS⟩
    | reopen =>
      obtain ⟨hdr, tail, hfile, hv, hn, hver⟩ := hF
      simp only at hfile
      have hl := encodeFileHeader_length hdr
      have hd : decodeFileHeader (file.take 64) = .ok hdr := by
        rw [hfile, take_append_len _ _ 64 hl, decodeFileHeader_encode hdr hv]
      have hds : hdr.dataStart = 64 + name.length := by
        rcases hn with ⟨h3, hnl⟩ | ⟨h2, hnl⟩
        · simp [FileHeader.dataStart, h3, hnl]
        · subst hnl; simp [FileHeader.dataStart, h2]
      -- whatever the walk decides, the cut keeps header and name and a prefix of the tail
      have hcut : ∀ k, (encodeFileHeader hdr ++ (name ++ tail)).take (hdr.dataStart + k)
          = encodeFileHeader hdr ++ (name ++ tail.take k) := by
        intro k
        rw [hds, ← List.append_assoc, List.take_append]
        have : (encodeFileHeader hdr ++ name).length = 64 + name.length := by simp [hl]
        rw [List.take_of_length_le (by omega), this]
        have : 64 + name.length + k - (64 + name.length) = k := by omega
        rw [this, List.append_assoc]
      have ho : ∃ tail', openExisting cfg file = some (encodeFileHeader hdr ++ (name ++ tail'),
          ⟨hdr, [], 0, 0, hdr.blockCount, hdr.entryCount⟩) := by
        unfold openExisting
        rw [if_neg (by rw [hfile]; simp [hl]), hd]
        simp only
        rw [if_neg (by rw [hfile, hds]; simp [hl])]
        by_cases hc : cfg.openCutsTornTail = true
        · simp only [hc, if_true]
          rw [hfile, hcut]
          exact ⟨_, rfl⟩
        · simp only [hc]
          exact ⟨tail, by rw [hfile]; rfl⟩
      obtain ⟨tail', ho⟩ := ho
      simp only [step, ho]
      refine ⟨⟨hdr, tail', rfl, hv, hn, hver⟩, ?_⟩
      intro s hs
      simp at hs
      subst hs
      exact ⟨hv, hn, hver, hv.blockCount, hv.entryCount⟩
  | some s =>
    have hSs := hS s rfl
    cases op with
    | write e =>
      simp only [step]
      split
      · exact ⟨hF, hS⟩
      · split
        · exact ⟨hF, hS⟩
        · split
          · have := flushSess_shape codec crc v name file
              { s with bufRev := e :: s.bufRev, bufCount := s.bufCount + 1, bufSize := s.bufSize + e.size } hF hSs
            refine ⟨this.1, ?_⟩
            intro s' hs'; simp at hs'; subst hs'; exact this.2
          · refine ⟨hF, ?_⟩
            intro s' hs'; simp at hs'; subst hs'; exact hSs
    | flush =>
      have := flushSess_shape codec crc v name file s hF hSs
      simp only [step]
      refine ⟨this.1, ?_⟩
      intro s' hs'; simp at hs'; subst hs'; exact this.2
    | sync =>
      have := finishSess_shape codec crc v name file s hF hSs
      simp only [step]
      refine ⟨this.1, ?_⟩
      intro s' hs'; simp at hs'; subst hs'; exact this.2
    | close =>
      have := finishSess_shape codec crc v name file s hF hSs
      simp only [step]
      refine ⟨this.1, ?_⟩
      intro s' hs'; simp at hs'
    | reopen => exact ⟨hF, hS⟩

theorem runOps_shape (cfg : Cfg) (codec : Codec) (crc : Checksum) (bs : Nat) (v : Nat) (name : Bytes)
    (ops : List Op) (st : St) (h : ShapeOK v name st) : ShapeOK v name (runOps cfg codec crc bs st ops) := by
  induction ops generalizing st with
  | nil => exact h
  | cons op ops ih => exact ih _ (step_shape cfg codec crc bs v name st op h)

theorem createFile_shape (name : Bytes) (now : Nat) (hn : name.length < 2 ^ 16) :
    ShapeOK 3 name (createFile name now) := by
  have hmod : name.length % 2 ^ 16 = name.length := Nat.mod_eq_of_lt hn
  have hv : (initHdr name now).Valid :=
    ⟨Or.inr rfl, by simp [initHdr], Nat.mod_lt _ (by decide), Nat.mod_lt _ (by decide), by simp [initHdr],
      by simp [initHdr], by simp [initHdr], Nat.mod_lt _ (by decide), by simp [initHdr], by simp [initHdr]⟩
  refine ⟨⟨initHdr name now, [], by simp [createFile], hv, Or.inl ⟨rfl, hmod⟩, rfl⟩, ?_⟩
  intro s hs
  simp [createFile] at hs
  subst hs
  exact ⟨hv, Or.inl ⟨rfl, hmod⟩, rfl, by simp, by simp⟩

theorem legacyState_shape (codec : Codec) (crc : Checksum) (hdr : FileHeader) (blocks : List (List Entry))
    (hv : hdr.Valid) (h2 : hdr.version = 2) : ShapeOK 2 [] (legacyState codec crc hdr blocks) :=
  ⟨⟨hdr, renderBlocks codec crc blocks, rfl, hv, Or.inr ⟨h2, rfl⟩, h2⟩, by intro s hs; simp [legacyState] at hs⟩

/-- what `NewFileReader` sees on a file of that shape -/
theorem openReader_shape (v : Nat) (name : Bytes) (st : St) (h : ShapeOK v name st) :
    ∃ hdr, openReader st.file = .ok ⟨hdr, name⟩ ∧ hdr.version = v := by
  obtain ⟨⟨hdr, tail, hfile, hv, hn, hver⟩, _⟩ := h
  exact ⟨hdr, by rw [hfile]; exact openReader_prefix hdr name tail hv hn, hver⟩

/-- the first metadata entry decides `LoadIndex`'s fallback name, whatever follows -/
theorem metaName_cons (nm : Bytes) (rest : List Entry) (h : nm ≠ []) :
    metaName (⟨opMetadata, metadataKey, nm⟩ :: rest) = nm := by
  have : nm.isEmpty = false := by cases nm with | nil => exact absurd rfl h | cons _ _ => rfl
  simp [metaName, List.find?, this]

theorem scanMetaName_cons (nm : Bytes) (rest : List Entry) :
    scanMetaName (⟨opMetadata, metadataKey, nm⟩ :: rest) = nm := by
  simp [scanMetaName, List.find?]

/-! ### Blocks on disk only grow: the buffer never holds more than what was acknowledged since -/

theorem flushSess_buf_nil (codec : Codec) (crc : Checksum) (file : Bytes) (s : Sess) :
    (flushSess codec crc file s).2.bufRev = [] := by
  unfold flushSess
  cases h : s.bufRev with
  | nil => simp [h]
  | cons _ _ => simp

theorem finishSess_buf_nil (codec : Codec) (crc : Checksum) (file : Bytes) (s : Sess) :
    (finishSess codec crc file s).2.bufRev = [] := by
  have := flushSess_buf_nil codec crc file s
  unfold finishSess
  generalize flushSess codec crc file s = r at this
  obtain ⟨f1, s1⟩ := r
  simpa using this

theorem step_pending_le (cfg : Cfg) (codec : Codec) (crc : Checksum) (bs : Nat) (st : St) (isOpen : Bool) (op : Op)
    (ho : st.sess.isSome = isOpen) :
    (step cfg codec crc bs st op).1.pending.length ≤ st.pending.length + (acceptedBy cfg isOpen op).length := by
  obtain ⟨file, sess⟩ := st
  cases sess with
  | none =>
    cases op with
    | reopen =>
      simp only [step]
      cases hoe : openExisting cfg file with
      | none => simp [St.pending]
      | some r =>
        obtain ⟨f', s⟩ := r
        unfold openExisting at hoe
        split at hoe
        · cases hoe
        · split at hoe
          · cases hoe
          · split at hoe
            · cases hoe
            · cases hoe; simp [St.pending]
    | _ => simp [step, St.pending]
  | some s =>
    simp only [Option.isSome_some] at ho
    subst ho
    cases op with
    | write e =>
      simp only [step, acceptedBy, accepts]
      by_cases h1 : (cfg.rejectsEmptyKey && e.key.isEmpty) = true
      · simp [h1, St.pending]
      · by_cases h2 : (cfg.rejectsLongKey && decide (65535 < e.key.length)) = true
        · simp [h1, h2, St.pending]
        · simp only [Bool.not_eq_true] at h1 h2
          simp only [h1, h2, Bool.false_eq_true, if_false, Bool.not_false, Bool.and_self, if_true]
          split
          · simp [St.pending, flushSess_buf_nil]
          · simp [St.pending]
    | flush => simp [step, St.pending, flushSess_buf_nil, acceptedBy]
    | sync => simp [step, St.pending, finishSess_buf_nil, acceptedBy]
    | close => simp [step, St.pending, acceptedBy]
    | reopen => simp [step, St.pending, acceptedBy]

theorem runOps_pending_le (cfg : Cfg) (codec : Codec) (crc : Checksum) (bs : Nat) (hP : Params cfg bs)
    (name : Bytes) (ops : List Op) (st : St) (acc : List Entry) (isOpen : Bool)
    (hI : Inv cfg codec crc bs name st acc isOpen) (hW : WritesOK cfg ops) :
    (runOps cfg codec crc bs st ops).pending.length ≤ st.pending.length + (accepted cfg isOpen ops).length := by
  induction ops generalizing st acc isOpen with
  | nil => simp [runOps]
  | cons op ops ih =>
    obtain ⟨h1, h2⟩ := writesOK_cons cfg op ops hW
    have hstep := step_inv cfg codec crc bs hP name st acc isOpen op hI h1
    have hle := step_pending_le cfg codec crc bs st isOpen op hI.opened
    have := ih (step cfg codec crc bs st op).1 _ _ hstep h2
    simp only [runOps, List.foldl_cons, accepted, List.length_append] at this ⊢
    omega

/-- if `a ++ b = c ++ d` and `b` is no longer than `d`, then `c` is a prefix of `a` -/
theorem prefix_of_append_eq {α} (a b c d : List α) (h : a ++ b = c ++ d) (hl : b.length ≤ d.length) :
    ∃ e, a = c ++ e := by
  rcases List.append_eq_append_iff.mp h with ⟨a', hc, hb⟩ | ⟨c', ha, _⟩
  · have : a'.length = 0 := by
      have := congrArg List.length hb
      simp only [List.length_append] at this
      omega
    have ha' : a' = [] := List.eq_nil_of_length_eq_zero this
    subst ha'
    exact ⟨[], by simpa using hc.symm⟩
  · exact ⟨c', ha⟩

end Hv.Storage
