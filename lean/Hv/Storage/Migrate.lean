/-
  Model of the V1 → V2 migrator (app/core/hydra/swamp/chronicler/v2/migrator/migrator.go) and of
  what the legacy engine loads (chronicler.go `Load`, filesystem.go `GetAllFileContents`).

  Two levels.

  * Byte level — the framing of a V1 chunk file after decompression: each segment is a
    little-endian u32 length followed by that many bytes (`filesystem.SaveFile` /
    `encodeBinaryLength`).  `parseMig` mirrors `migrator.parseV1Segments` (fewer than 4 bytes
    left = end; a zero length is skipped; a segment that runs past the end is an error);
    `parseV1` mirrors `filesystem.parseBinaryData` (the legacy reader).

  * Record level — a V1 folder is a list of files, a file a list of segments, a segment a
    `(key, data)` pair where `key` is the gob-decoded `Model.Key` of `data` (gob is a parameter
    of the model, as is the byte-level V2 codec: `V2`, with its round-trip law as an explicit
    assumption).  `LoadsV1` is what the legacy `Load` can produce: it folds the files *in Go map
    iteration order*, so with a key present in several files the result is a relation.
    `migrate` mirrors `migrateSwamp` — load + dedupe, empty-swamp branch, dry run, write, verify
    (key presence only), delete — on an explicit disk state and with an injected failure.

  Executable and core-only (the driver links it).
-/
import Hv.Basic.Verdict

namespace Hv.Migrate

/-! ### Byte level -/

abbrev Bytes := List Nat      -- byte values; only lengths and positions matter here

def le32 (n : Nat) : Bytes := [n % 256, n / 256 % 256, n / 65536 % 256, n / 16777216 % 256]

def de32 : Bytes → Nat
  | [a, b, c, d] => a + 256 * b + 65536 * c + 16777216 * d
  | _ => 0

/-- `filesystem.SaveFile`: `encodeBinaryLength(part) ++ part` for every part -/
def encodeSegs : List Bytes → Bytes
  | [] => []
  | s :: ss => le32 s.length ++ (s ++ encodeSegs ss)

/-- `migrator.parseV1Segments`; `none` = error (the whole swamp then fails in phase "load") -/
def parseMig : Nat → Bytes → Option (List Bytes)
  | 0, _ => some []
  | fuel + 1, data =>
    if data.length < 4 then some []                       -- `ReadUint32` → io.EOF → break
    else
      let n := de32 (data.take 4)
      let rest := data.drop 4
      if n = 0 then parseMig fuel rest                    -- `if length == 0 { continue }`
      else if rest.length < n then none                   -- `ReadBytes` → io.ErrUnexpectedEOF
      else (parseMig fuel (rest.drop n)).map (rest.take n :: ·)

/-- `filesystem.parseBinaryData` (legacy reader): no skipping; a short final block is accepted
    as is (`reader.Read` may return fewer bytes); a zero-length block at the very end is an error
    (`bytes.Reader.Read` reports EOF before looking at the buffer length). -/
def parseV1 : Nat → Bytes → Option (List Bytes)
  | 0, _ => some []
  | fuel + 1, data =>
    if data.length = 0 then some []
    else if data.length < 4 then none                     -- io.ErrUnexpectedEOF from binary.Read
    else
      let n := de32 (data.take 4)
      let rest := data.drop 4
      if rest.length = 0 then none                        -- Read at end of data: io.EOF → error
      else (parseV1 fuel (rest.drop n)).map (rest.take n :: ·)

/-! ### Record level

  Keys, payloads and the swamp name are values of one type `α` (strings in the driver, byte strings when
  the V2 codec is instantiated with the storage model of C01); `default : α` is the empty key. -/

structure Seg (α : Type) where
  key  : α      -- gob-decoded `Model.Key`; `default` (empty) = `extractKeyFromTreasure` fails
  data : α      -- the segment bytes (opaque; a hash in the driver)
  deriving DecidableEq, Repr, Inhabited

abbrev V1File (α : Type) := String × List (Seg α)      -- file name, segments in file order
abbrev Folder (α : Type) := List (V1File α)            -- in `os.ReadDir` order (sorted by name)

section
variable {α : Type} [DecidableEq α] [Inhabited α]

def allSegs (fo : Folder α) : List (Seg α) := fo.flatMap (·.2)

/-- value of `k` when the segments are folded in order with `m[key] = value` -/
def lastOf (segs : List (Seg α)) (k : α) : Option α :=
  (segs.reverse.find? (fun s => s.key == k)).map (·.data)

def firstOf (segs : List (Seg α)) (k : α) : Option α :=
  (segs.find? (fun s => s.key == k)).map (·.data)

/-- legacy `Load` visiting the files in the order `perm` -/
def loadV1In (perm : Folder α) : α → Option α := lastOf (allSegs perm)

/-- what the legacy engine can load: any file order (Go map iteration) -/
def LoadsV1 (fo : Folder α) (m : α → Option α) : Prop :=
  ∃ perm : Folder α, perm.Perm fo ∧ m = loadV1In perm

def UniqueKeys (fo : Folder α) : Prop := ((allSegs fo).map Seg.key).Nodup

end

abbrev Entry (α : Type) := α × α

section
variable {α : Type} [DecidableEq α] [Inhabited α]

def lookup (es : List (Entry α)) (k : α) : Option α := (es.find? (fun e => e.1 == k)).map (·.2)

/-- `entryMap[entry.Key] = entry` -/
def insertKV (es : List (Entry α)) (k v : α) : List (Entry α) :=
  match es with
  | [] => [(k, v)]
  | (k', v') :: rest => if k' == k then (k, v) :: rest else (k', v') :: insertKV rest k v

/-- keeps the first value seen for a key (the seeded defect "dedupe keeping the first") -/
def insertIfAbsent (es : List (Entry α)) (k v : α) : List (Entry α) :=
  match es with
  | [] => [(k, v)]
  | (k', v') :: rest => if k' == k then (k', v') :: rest else (k', v') :: insertIfAbsent rest k v

end

/-- code facts of the migrator -/
structure MCfg where
  dedupeLast         : Bool   -- `entryMap[key] = entry` (later segment overwrites)
  verifyBeforeDelete : Bool   -- `verifyMigration` precedes `deleteV1Files`
  writeBeforeDelete  : Bool   -- `writeV2File` precedes `deleteV1Files`
  removeOnVerifyFail : Bool   -- `os.Remove(hydFilePath)` when verification fails
  removeOnWriteFail  : Bool   -- `os.Remove(filePath)` when writing an entry or closing fails
  removeOnOpenFail   : Bool   -- nothing is left behind when creating the file (header, name) fails
  emptyKeyIsError    : Bool   -- `extractKeyFromTreasure` rejects an empty key
  metaErrorAborts    : Bool   -- an unreadable meta file fails the migration (instead of migrating without the name)
  verifyValues       : Bool   -- verification compares values too (currently: key presence only)
  refusesExisting    : Bool   -- a `.hyd` file that is already there fails the swamp (phase "write") untouched,
                              -- instead of being opened for appending by `NewFileWriterWithName`
  acceptsEqualTarget : Bool   -- … unless it holds exactly the legacy data (same keys, same values, same name): then the swamp
                              -- counts as already migrated — nothing is written, the run goes on to the delete step
  syncsBeforeDelete  : Bool   -- the new file is fsync'ed (`FileWriter.Close`) before `deleteV1Files` can run
  deriving DecidableEq, Repr, Inhabited

def good : MCfg := ⟨true, true, true, true, true, true, true, true, false, true, true, true⟩

/-- the V2 codec as a parameter: how a file is written from inserts and read back -/
structure V2 (α : Type) (File : Type) where
  write   : α → List (Entry α) → File
  /-- `NewFileWriterWithName` on a path that exists: the file is opened for appending (its header, and with it
      its name, stay); `none` = it cannot be opened (too short, bad header) -/
  append  : File → List (Entry α) → Option File
  /-- `WriteEntry`'s validation (an empty key, a key longer than 65535 bytes) -/
  accepts : Entry α → Bool
  /-- `createNewFile`'s name-length guard (checked before anything is created) -/
  acceptsName : α → Bool
  loadMap : File → α → Option α
  nameOf  : File → α
  hasKey  : File → α → Bool      -- `LoadIndex` (used by verification)
  keys    : File → List α        -- the keys of the loaded index (used by the target-equals-legacy test)

structure Opts where
  verify    : Bool
  deleteOld : Bool
  dryRun    : Bool
  deriving DecidableEq, Repr, Inhabited

/-- an injected failure of one step -/
inductive Fault where
  | none
  | load                 -- reading / decompressing / parsing a V1 file fails
  | write (stage : Nat)  -- writing the .hyd file fails: stage 0 = while creating it (header, swamp name), else later
  | verify               -- re-reading the .hyd file fails or a key is missing
  | unlink (n : Nat)     -- deleting the (n+1)-th V1 file fails
  | rmdir                -- every file is deleted, removing the folder itself fails
  | metaRead             -- the meta file cannot be read: the swamp name is unknown
  deriving DecidableEq, Repr, Inhabited

def Fault.isWrite : Fault → Bool
  | .write _ => true
  | _ => false

inductive Res where
  | success
  | skippedEmpty
  | failed (phase : String)
  deriving DecidableEq, Repr, Inhabited

structure Disk (α : Type) (File : Type) where
  v1       : Folder α        -- V1 files still present
  v1Folder : Bool            -- the swamp folder itself still exists
  hyd      : Option File
  hydSynced : Bool := true   -- what is at the target path has been fsync'ed
  deriving Repr

section
variable {α : Type} [DecidableEq α] [Inhabited α]

def dedupe (cfg : MCfg) (segs : List (Seg α)) : List (Entry α) :=
  segs.foldl (fun es s => if cfg.dedupeLast then insertKV es s.key s.data else insertIfAbsent es s.key s.data) []

/-- the assumption about the V2 codec, for the entries `okE` and names `okN` it is required to carry:
    with distinct keys a written file loads back to exactly the inserted records, under the written name.
    (`Hv/Storage/MigrateV2.lean` discharges it for the storage model of C01.) -/
structure V2.Lawful {File : Type} (v : V2 α File) (okE : Entry α → Prop) (okN : α → Prop) : Prop where
  load : ∀ nm es, okN nm → (∀ e ∈ es, okE e) → (es.map Prod.fst).Nodup → ∀ k, v.loadMap (v.write nm es) k = lookup es k
  name : ∀ nm es, okN nm → (∀ e ∈ es, okE e) → v.nameOf (v.write nm es) = nm
  keys : ∀ nm es k, okN nm → (∀ e ∈ es, okE e) → (es.map Prod.fst).Nodup → v.hasKey (v.write nm es) k = (lookup es k).isSome
  acc  : ∀ e, okE e → v.accepts e = true
  accN : ∀ nm, okN nm → v.acceptsName nm = true
  /-- every key a file loads is listed (any file, not only written ones) -/
  keysSound : ∀ f k, (v.loadMap f k).isSome = true → k ∈ v.keys f
  keysWritten : ∀ nm es k, okN nm → (∀ e ∈ es, okE e) → (es.map Prod.fst).Nodup → k ∈ v.keys (v.write nm es) → (lookup es k).isSome = true

/-- the trivial codec used by the driver -/
def idV2 : V2 α (α × List (Entry α)) where
  write nm es := (nm, es)
  append f es := some (f.1, es ++ f.2.filter (fun e => !es.any (fun x => x.1 == e.1)))   -- the appended inserts win
  accepts _ := true
  acceptsName _ := true
  keys f := f.2.map Prod.fst
  loadMap f k := lookup f.2 k
  nameOf f := f.1
  hasKey f k := (lookup f.2 k).isSome

/-- `deleteV1Files`: removes the files in directory order, then the folder; stops at the first failure
    (the caller only logs a warning) -/
def deleteV1 {File : Type} (ft : Fault) (d : Disk α File) : Disk α File :=
  match ft with
  | .unlink n => if n < d.v1.length then { d with v1 := d.v1.drop n } else { d with v1 := [], v1Folder := false }
  | .rmdir => { d with v1 := [] }
  | _ => { d with v1 := [], v1Folder := false }

def verifyOk {File : Type} (cfg : MCfg) (v : V2 α File) (f : File) (es : List (Entry α)) : Bool :=
  es.all (fun e => v.hasKey f e.1 && (!cfg.verifyValues || v.loadMap f e.1 == some e.2))

/-- the target-equals-legacy test of a re-run: same swamp name, no key the legacy data does not have, every legacy record
    there with its value -/
def sameTarget {File : Type} (v : V2 α File) (f : File) (nm : α) (es : List (Entry α)) : Bool :=
  v.nameOf f == nm && (v.keys f).all (fun k => (lookup es k).isSome) && es.all (fun e => v.loadMap f e.1 == some e.2)

/-- `migrateSwamp` for one folder.  `nm0` = the swamp name in the meta file; `d.hyd` = what is at the target path
    before the run (`none` in a first migration; a file from an earlier run, or planted, otherwise). -/
def migrate {File : Type} (cfg : MCfg) (v : V2 α File) (o : Opts) (ft : Fault) (nm0 : α) (d : Disk α File) :
    Res × Disk α File :=
  -- `loadSwampNameFromMeta` failing is only logged: the migration goes on with an empty name
  let nm : α := if ft = .metaRead then default else nm0
  let segs := allSegs d.v1
  if ft = .load || (cfg.metaErrorAborts && ft = .metaRead) || (cfg.emptyKeyIsError && segs.any (fun s => s.key == default)) then (.failed "load", d)
  else
    let es := dedupe cfg segs
    if es.isEmpty then
      (.skippedEmpty, if o.deleteOld && !o.dryRun then deleteV1 ft d else d)
    else if o.dryRun then (.success, d)
    else if cfg.refusesExisting && d.hyd.isSome then
      -- a re-run: only a target that holds exactly the legacy data counts as already migrated
      match d.hyd with
      | some f =>
        if cfg.acceptsEqualTarget && sameTarget v f nm es then (.success, if o.deleteOld then deleteV1 ft d else d)
        else (.failed "write", d)
      | none => (.failed "write", d)
    else
      -- what a complete write puts at the target path (`none`: the writer cannot even be created; nothing is touched)
      let target : Option File := match d.hyd with
        | none => if v.acceptsName nm then some (v.write nm es) else none
        | some f => v.append f es
      let del (x : Disk α File) : Disk α File := if o.deleteOld then deleteV1 ft x else x
      let written (x : Disk α File) : Disk α File := { x with hyd := target, hydSynced := cfg.syncsBeforeDelete }
      -- `WriteEntry` refuses a record: same branch as a failing write of a block
      let wfails : Bool := ft.isWrite || target.isNone || es.any (fun e => !v.accepts e)
      -- a failed write leaves nothing (`os.Remove`) or a partial file
      let wfail (x : Disk α File) : Disk α File :=
        if target.isNone then x
        else match d.hyd with
          | none =>
            let removes := match ft with
              | .write 0 => cfg.removeOnOpenFail
              | _ => cfg.removeOnWriteFail
            if removes then { x with hyd := none } else { x with hyd := some (v.write nm []) }
          | some f =>
            -- opening an existing file writes nothing; a failure later removes the file — the one that was there
            if ft = .write 0 then x
            else if cfg.removeOnWriteFail then { x with hyd := none } else { x with hyd := (v.append f []).getD f }
      let vfails (x : Disk α File) : Bool :=
        o.verify && (ft = .verify || match x.hyd with
                                     | some f => !verifyOk cfg v f es
                                     | none => true)
      let unwrite (x : Disk α File) : Disk α File := if cfg.removeOnVerifyFail then { x with hyd := none, hydSynced := d.hydSynced } else x
      -- the three effects in the order the code performs them
      match cfg.writeBeforeDelete, cfg.verifyBeforeDelete with
      | true, true =>
        if wfails then (.failed "write", wfail d)
        else if vfails (written d) then (.failed "verify", unwrite (written d))
        else (.success, del (written d))
      | true, false =>
        if wfails then (.failed "write", wfail d)
        else if vfails (del (written d)) then (.failed "verify", unwrite (del (written d)))
        else (.success, del (written d))
      | false, _ =>
        if wfails then (.failed "write", wfail (del d))
        else if vfails (written (del d)) then (.failed "verify", unwrite (written (del d)))
        else (.success, written (del d))

/-- the migrator with the facts as extracted today, spelled out -/
def migrateGood {File : Type} (v : V2 α File) (o : Opts) (ft : Fault) (nm0 : α) (d : Disk α File) : Res × Disk α File :=
  let nm : α := if ft = .metaRead then default else nm0
  let segs := allSegs d.v1
  let es := dedupe good segs
  if ft = .load || ft = .metaRead || segs.any (fun s => s.key == default) then (.failed "load", d)
  else if es.isEmpty then (.skippedEmpty, if o.deleteOld && !o.dryRun then deleteV1 ft d else d)
  else if o.dryRun then (.success, d)
  else match d.hyd with
  | some f => if sameTarget v f nm es then (.success, if o.deleteOld then deleteV1 ft d else d) else (.failed "write", d)
  | none =>
  if ft.isWrite || !v.acceptsName nm || es.any (fun e => !v.accepts e) then (.failed "write", d)
  else if o.verify && (ft = .verify || !verifyOk good v (v.write nm es) es) then (.failed "verify", d)
  else (.success, if o.deleteOld then deleteV1 ft { d with hyd := some (v.write nm es), hydSynced := true }
                  else { d with hyd := some (v.write nm es), hydSynced := true })

end

end Hv.Migrate
