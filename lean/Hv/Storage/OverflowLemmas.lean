/-
  The 16-bit per-block entry count: when `WriteBuffer.Add` does not flush at 65535 buffered
  entries, 65536 eight-byte inserts fit into one 1 MiB block whose header then says "0 entries".
  Everything here is symbolic (no 65536-element term is ever evaluated).
-/
import Hv.Storage.NameLemmas
import Hv.Storage.SpecLemmas
import Hv.Storage.CorruptLemmas

namespace Hv.Storage

/-- the smallest encodable entry: insert key "k" with an empty payload (8 bytes on disk) -/
def tiny : Entry := ⟨1, [0x6b], []⟩

theorem tiny_size : tiny.size = 8 := rfl
theorem tiny_accepted (cfg : Cfg) : accepts cfg tiny = true := by simp [accepts, tiny]

theorem replicate_append_cons {α} (n : Nat) (a : α) (l : List α) :
    List.replicate n a ++ a :: l = a :: (List.replicate n a ++ l) := by
  induction n with
  | zero => rfl
  | succ n ih => simp [List.replicate_succ, ih]

/-- the exact file `Sync`/`Close` leave behind when the buffer is not empty -/
theorem finishSess_file (codec : Codec) (crc : Checksum) (h : FileHeader) (name tail : Bytes) (s : Sess)
    (hne : s.bufRev.isEmpty = false) :
    (finishSess codec crc (encodeFileHeader h ++ (name ++ tail)) s).1
      = encodeFileHeader (finishSess codec crc (encodeFileHeader h ++ (name ++ tail)) s).2.hdr
          ++ (name ++ (tail ++ encodeBlock codec crc s.bufRev.reverse)) := by
  have e : encodeFileHeader h ++ (name ++ tail) ++ encodeBlock codec crc s.bufRev.reverse
      = encodeFileHeader h ++ (name ++ (tail ++ encodeBlock codec crc s.bufRev.reverse)) := by simp
  simp only [finishSess, flushSess, hne, Bool.false_eq_true, if_false]
  rw [e, rewriteHeader_shape, rewriteHeader_shape]

theorem step_close_file (cfg : Cfg) (codec : Codec) (crc : Checksum) (bs : Nat) (file : Bytes) (s : Sess) :
    (step cfg codec crc bs ⟨file, some s⟩ .close).1.file = (finishSess codec crc file s).1 := by
  simp [step]

/-- `n` writes of `tiny` into an open session that never reaches a flush threshold only grow the buffer -/
theorem runOps_tiny_noflush (cfg : Cfg) (codec : Codec) (crc : Checksum) (bs : Nat) (file : Bytes) :
    ∀ (n : Nat) (s : Sess),
      (∀ k, k < n → shouldFlush cfg bs (s.bufSize + (k + 1) * 8) (s.bufCount + (k + 1)) = false) →
      runOps cfg codec crc bs ⟨file, some s⟩ (List.replicate n (.write tiny))
        = ⟨file, some { s with bufRev := List.replicate n tiny ++ s.bufRev, bufCount := s.bufCount + n,
                               bufSize := s.bufSize + n * 8 }⟩ := by
  intro n
  induction n with
  | zero => intro s _; simp [runOps]
  | succ n ih =>
    intro s h
    have h0 := h 0 (by omega)
    simp only [Nat.zero_add, Nat.one_mul] at h0
    have hstep : (step cfg codec crc bs ⟨file, some s⟩ (.write tiny)).1
        = ⟨file, some { s with bufRev := tiny :: s.bufRev, bufCount := s.bufCount + 1, bufSize := s.bufSize + 8 }⟩ := by
      simp [step, tiny, Entry.size, h0]
    simp only [List.replicate_succ, runOps, List.foldl_cons]
    rw [hstep]
    have := ih { s with bufRev := tiny :: s.bufRev, bufCount := s.bufCount + 1, bufSize := s.bufSize + 8 }
      (by
        intro k hk
        have := h (k + 1) (by omega)
        simp only at this ⊢
        have e1 : s.bufSize + 8 + (k + 1) * 8 = s.bufSize + (k + 1 + 1) * 8 := by omega
        have e2 : s.bufCount + 1 + (k + 1) = s.bufCount + (k + 1 + 1) := by omega
        rw [e1, e2]; exact this)
    simp only [runOps] at this
    rw [this]
    have e3 := replicate_append_cons n tiny s.bufRev
    have e4 : s.bufCount + 1 + n = s.bufCount + (n + 1) := by omega
    have e5 : s.bufSize + 8 + n * 8 = s.bufSize + (n + 1) * 8 := by omega
    simp only [e3, e4, e5, List.cons_append]

theorem accepted_tiny (cfg : Cfg) (n : Nat) (tail : List Op) :
    accepted cfg true (List.replicate n (.write tiny) ++ tail) = List.replicate n tiny ++ accepted cfg true tail := by
  induction n with
  | zero => simp
  | succ n ih => simp [List.replicate_succ, accepted, acceptedBy, tiny_accepted, openAfter, ih]

theorem specOf_tiny (n : Nat) : specOf (List.replicate (n + 1) tiny) = [([0x6b], [])] := by
  unfold specOf
  suffices ∀ m : Index, (m = [] ∨ m = [([0x6b], [])]) →
      (List.replicate (n + 1) tiny).foldl specStep m = [([0x6b], [])] from this [] (Or.inl rfl)
  induction n with
  | zero => intro m hm; rcases hm with h | h <;> subst h <;> decide
  | succ n ih =>
    intro m hm
    rw [List.replicate_succ, List.foldl_cons]
    apply ih
    right
    rcases hm with h | h <;> subst h <;> decide

theorem parseEntries_zero (buf : Bytes) : parseEntries 0 buf = .ok [] := rfl

theorem sizeSum_replicate_tiny (n : Nat) : sizeSum (List.replicate n tiny) = n * 8 := by
  induction n with
  | zero => simp [sizeSum]
  | succ n ih =>
    simp only [List.replicate_succ, sizeSum, List.map_cons, List.sum_cons] at ih ⊢
    rw [ih]; simp [tiny, Entry.size]; omega

/-- the history: `N` tiny inserts, then `Close` -/
def overflowOpsN (N : Nat) : List Op := List.replicate N (.write tiny) ++ [.close]

/-- What `LoadIndex` makes of the file that history leaves behind when the buffer does not flush at
    65535 entries and `N` is a positive multiple of 65536 that fits the block: never the one record
    that was written `N` times. -/
theorem overflow_load_gen (cfg : Cfg) (hc : cfg.flushAtCount = false) (codec : Codec) (crc : Checksum)
    (N : Nat) (hN0 : 0 < N) (hmod : N % 2 ^ 16 = 0) (hfit : N * 8 < 1048576) :
    ∀ m n, loadIndex cfg codec.toDecoder crc (runOps cfg codec crc 1048576 (createFile [] 0) (overflowOpsN N)).file
      ≠ .ok (([0x6b], []) :: m, n) := by
  -- the state after the N writes
  have hnf : ∀ k, k < N → shouldFlush cfg 1048576 (0 + (k + 1) * 8) (0 + (k + 1)) = false := by
    intro k hk
    simp only [shouldFlush, hc, Bool.false_and, Bool.or_false, maxSizeOf]
    by_cases hg : cfg.flushGe = true
    · simp [hg]; omega
    · simp [hg]; omega
  have hw := runOps_tiny_noflush cfg codec crc 1048576 (encodeFileHeader (initHdr [] 0) ++ []) N
    ⟨initHdr [] 0, [], 0, 0, 0, 0⟩ hnf
  generalize hbig : List.replicate N tiny = big at hw
  have hbiglen : big.length = N := by rw [← hbig, List.length_replicate]
  have hbigsz : sizeSum big = N * 8 := by rw [← hbig, sizeSum_replicate_tiny]
  have hbigrev : big.reverse = big := by rw [← hbig, List.reverse_replicate]
  have hbigne : (big ++ ([] : List Entry)).isEmpty = false := by
    cases hb : big with
    | nil => rw [hb] at hbiglen; simp at hbiglen; omega
    | cons _ _ => rfl
  have hrun : runOps cfg codec crc 1048576 (createFile [] 0) (overflowOpsN N)
      = (step cfg codec crc 1048576
          ⟨encodeFileHeader (initHdr [] 0) ++ [], some ⟨initHdr [] 0, big ++ [], 0 + N, 0 + N * 8, 0, 0⟩⟩ .close).1 := by
    unfold overflowOpsN
    simp only [runOps, List.foldl_append, List.foldl_cons, List.foldl_nil]
    have : createFile [] 0 = ⟨encodeFileHeader (initHdr [] 0) ++ [], some ⟨initHdr [] 0, [], 0, 0, 0, 0⟩⟩ := rfl
    rw [this]
    simp only [runOps] at hw
    rw [hw]
  -- the file after `Close`
  have hv0 : (initHdr [] 0).Valid :=
    ⟨Or.inr rfl, by simp [initHdr], by simp [initHdr], by simp [initHdr], by simp [initHdr],
      by simp [initHdr], by simp [initHdr], by simp [initHdr], by simp [initHdr], by simp [initHdr]⟩
  obtain ⟨hdr2, hfile, hv2, hn2⟩ : ∃ hdr2 : FileHeader,
      (runOps cfg codec crc 1048576 (createFile [] 0) (overflowOpsN N)).file
        = encodeFileHeader hdr2 ++ ([] ++ ([] ++ encodeBlock codec crc big)) ∧
      hdr2.Valid ∧ NameOk hdr2 [] := by
    generalize hsb : (⟨initHdr [] 0, big ++ [], 0 + N, 0 + N * 8, 0, 0⟩ : Sess) = sBig at hrun
    have hbuf : sBig.bufRev = big ++ [] := by rw [← hsb]
    have hsh : sBig.hdr = initHdr [] 0 ∧ sBig.blockCount = 0 ∧ sBig.entryCount = 0 := by rw [← hsb]; exact ⟨rfl, rfl, rfl⟩
    have hshape := finishSess_shape codec crc 3 [] (encodeFileHeader (initHdr [] 0) ++ ([] ++ [])) sBig
      ⟨initHdr [] 0, [], rfl, hv0, Or.inl ⟨rfl, rfl⟩, rfl⟩
      ⟨by rw [hsh.1]; exact hv0, by rw [hsh.1]; exact Or.inl ⟨rfl, rfl⟩, by rw [hsh.1]; rfl, by rw [hsh.2.1]; decide, by rw [hsh.2.2]; decide⟩
    refine ⟨(finishSess codec crc (encodeFileHeader (initHdr [] 0) ++ ([] ++ [])) sBig).2.hdr, ?_, hshape.2.1, hshape.2.2.1⟩
    rw [hrun, step_close_file]
    have hf := finishSess_file codec crc (initHdr [] 0) [] [] sBig (by rw [hbuf]; exact hbigne)
    have hr2 : (big ++ ([] : List Entry)).reverse = big := by rw [List.append_nil, hbigrev]
    rw [hbuf, hr2] at hf
    exact hf
  -- reading it back
  have hsz : sizeSum big < 2 ^ 31 + 2 ^ 17 := by rw [hbigsz]; omega
  have hblk := readNextBlockCore_encodeBlock_any cfg codec crc big [] hsz
  rw [List.append_nil, hbiglen, hmod, parseEntries_zero] at hblk
  intro m n hload
  rw [hfile] at hload
  unfold loadIndex at hload
  rw [openReader_prefix hdr2 [] _ hv2 hn2] at hload
  simp only at hload
  rw [drop_dataStart hdr2 [] _ hn2, List.nil_append] at hload
  unfold readBlocks at hload
  -- the block is refused (leftover payload), taken for the end of the data, or yields no entries
  have hstop : ∀ (hb' : readNextBlock cfg codec.toDecoder crc (encodeBlock codec crc big) = .eof), False := by
    intro hb'
    rw [readBlocksP_eof _ _ _ _ hb'] at hload
    simp [replay] at hload
  cases hfp : finishParse cfg (encodeEntries big).length (.ok []) with
  | error e =>
    rw [hfp] at hblk
    have hb' : readNextBlockCore cfg codec.toDecoder crc (encodeBlock codec crc big) = .err e := hblk
    rcases readNextBlock_of_core_err hb' with h1 | h1
    · rw [readBlocksP_err' _ _ _ _ e h1] at hload
      simp at hload
    · exact hstop h1
  | ok es =>
    have hes : es = [] := by
      unfold finishParse at hfp
      simp only at hfp
      split at hfp
      · cases hfp
      · cases hfp; rfl
    subst hes
    rw [hfp] at hblk
    have hb' : readNextBlockCore cfg codec.toDecoder crc (encodeBlock codec crc big) = .ok [] [] := hblk
    rcases readNextBlock_cases_of_core_ok hb' with h1 | h1
    · rw [readBlocksP_ok _ _ _ _ [] [] h1, readBlocksP_nil] at hload
      simp [replay] at hload
    · exact hstop h1

end Hv.Storage
