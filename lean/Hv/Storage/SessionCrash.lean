/-
  Crash images of a whole session (file creation included), from the empty disk.
-/
import Hv.Storage.Session

namespace Hv.BlockStore

/-! ### `durAt` is the file at the last completed fsync -/

theorem lastSyncIdx_nil (i : Nat) : lastSyncIdx [] i = 0 := by
  induction i with
  | zero => rfl
  | succ n ih => rw [lastSyncIdx]; simp [ih]

theorem durAt_file (nl : Nat) (evs : List Ev) : ∀ (f D : List Cell) (d : Disk), d.main = some f → HdrOk f nl →
    ∀ i, 0 < lastSyncIdx (evOps nl f.length evs) i →
      (d.applyAll ((evOps nl f.length evs).take (lastSyncIdx (evOps nl f.length evs) i))).main =
        some (durAt evs f D i) := by
  induction evs with
  | nil => intro f D d _ _ i h; simp [evOps, lastSyncIdx_nil] at h
  | cons e r ih =>
    intro f D d hd hh i hpos
    cases e with
    | sync =>
      simp only [evOps] at hpos ⊢
      cases i with
      | zero => simp [lastSyncIdx] at hpos
      | succ i' =>
        rw [lastSyncIdx_cons]
        simp only [FsOp.isSync, if_true]
        by_cases h0 : lastSyncIdx (evOps nl f.length r) i' = 0
        · simp only [h0, if_true, List.take_succ_cons, List.take_zero, Disk.applyAll_cons, Disk.applyAll_nil]
          have := durAt_nosync nl r f.length f f i' h0
          simp [durAt, this, Disk.apply, hd]
        · simp only [h0, if_false, List.take_succ_cons, Disk.applyAll_cons]
          have hd' : (d.apply (.sync .main)).main = some f := by simp [Disk.apply, hd]
          have := ih f f _ hd' hh i' (by omega)
          simpa [durAt] using this
    | hdr =>
      simp only [evOps] at hpos ⊢
      cases i with
      | zero => simp [lastSyncIdx] at hpos
      | succ i' =>
        rw [lastSyncIdx_cons_nosync _ rfl] at hpos ⊢
        by_cases h0 : lastSyncIdx (evOps nl f.length r) i' = 0
        · simp [h0] at hpos
        · simp only [h0, if_false, List.take_succ_cons, Disk.applyAll_cons]
          have hd' : (d.apply (.write .main 0 (fhCells nl))).main = some f := by
            rw [write_main_get d f hd, splice_hdr hh]
          have := ih f D _ hd' hh i' (by omega)
          simpa [durAt] using this
    | blk b =>
      simp only [evOps] at hpos ⊢
      by_cases hi : i < 3
      · have := lastSyncIdx_small_nosync (.write .main f.length (hdrCells b)) (.write .main (f.length + 16) (payCells b))
          (.write .main 0 (fhCells nl)) rfl rfl rfl (evOps nl (f.length + 16 + b.plen) r) i
          (by have := lastSyncIdx_le (FsOp.write .main f.length (hdrCells b) :: .write .main (f.length + 16) (payCells b) ::
                .write .main 0 (fhCells nl) :: evOps nl (f.length + 16 + b.plen) r) i; omega)
        omega
      · obtain ⟨i', rfl⟩ : ∃ i', i = i' + 3 := ⟨i - 3, by omega⟩
        rw [lastSyncIdx_cons3 _ _ _ rfl rfl rfl] at hpos ⊢
        by_cases h0 : lastSyncIdx (evOps nl (f.length + 16 + b.plen) r) i' = 0
        · simp [h0] at hpos
        · simp only [h0, if_false]
          have hL : f.length + 16 + b.plen = (f ++ blockCells b).length := by simp; omega
          have hd1 : (d.apply (.write .main f.length (hdrCells b))).main = some (f ++ hdrCells b) := by
            rw [write_main_get d f hd, splice_end]
          have hd2 : ((d.apply (.write .main f.length (hdrCells b))).apply (.write .main (f.length + 16) (payCells b))).main =
              some (f ++ blockCells b) := by
            rw [write_main_get _ _ hd1]
            have : f.length + 16 = (f ++ hdrCells b).length := by simp
            rw [this, splice_end]; simp [blockCells, List.append_assoc]
          have hh2 : HdrOk (f ++ blockCells b) nl := hh.append _
          have hd3 : (((d.apply (.write .main f.length (hdrCells b))).apply (.write .main (f.length + 16) (payCells b))).apply
              (.write .main 0 (fhCells nl))).main = some (f ++ blockCells b) := by
            rw [write_main_get _ _ hd2, splice_hdr hh2]
          rw [show lastSyncIdx (evOps nl (f.length + 16 + b.plen) r) i' + 3 =
                ((lastSyncIdx (evOps nl (f.length + 16 + b.plen) r) i' + 2) + 1) from rfl]
          simp only [List.take_succ_cons, Disk.applyAll_cons]
          rw [hL] at h0 ⊢
          have := ih (f ++ blockCells b) D _ hd3 hh2 i' (by omega)
          simp only [durAt]
          have hn : ¬ (i' + 3 < 3) := by omega
          simpa [hn] using this

/-- the durable content is nothing, or a clean file made of a prefix of the session's blocks -/
theorem durAt_shape (evs : List Ev) : ∀ (f D : List Cell) (i : Nat),
    durAt evs f D i = D ∨ ∃ t, durAt evs f D i = f ++ render (evBlocks (evs.take t)) := by
  induction evs with
  | nil => intro f D i; exact Or.inl rfl
  | cons e r ih =>
    intro f D i
    cases e with
    | sync =>
      simp only [durAt]
      split
      · exact Or.inl rfl
      · rcases ih f f (i - 1) with h | ⟨t, h⟩
        · exact Or.inr ⟨0, by simp [h, evBlocks, render]⟩
        · exact Or.inr ⟨t + 1, by simp [h, evBlocks]⟩
    | hdr =>
      simp only [durAt]
      split
      · exact Or.inl rfl
      · rcases ih f D (i - 1) with h | ⟨t, h⟩
        · exact Or.inl h
        · exact Or.inr ⟨t + 1, by simp [h, evBlocks]⟩
    | blk b =>
      simp only [durAt]
      split
      · exact Or.inl rfl
      · rcases ih (f ++ blockCells b) D (i - 3) with h | ⟨t, h⟩
        · exact Or.inl h
        · exact Or.inr ⟨t + 1, by simp [h, evBlocks, render, List.append_assoc]⟩

theorem evBlocks_take_prefix (evs : List Ev) (t : Nat) : evBlocks (evs.take t) <+: evBlocks evs := by
  have : evs = evs.take t ++ evs.drop t := (List.take_append_drop t evs).symm
  conv => rhs; rw [this, evBlocks_append]
  exact List.prefix_append _ _

end Hv.BlockStore

namespace Hv.BlockStore

/-! ### The whole session, file creation included -/

def sessionOps (nl : Nat) (evs : List Ev) : List FsOp := createOps .main nl ++ evOps nl (64 + nl) evs

/-- main-file content that is durable while operation `i` of the session is in flight -/
def sessionDurable (nl : Nat) (evs : List Ev) (i : Nat) : List Cell :=
  if i ≤ (createOps .main nl).length then [] else durAt evs (fileCells nl []) [] (i - (createOps .main nl).length)

theorem lastSyncIdx_append_nosync (P : List FsOp) (hP : ∀ o ∈ P, o.isSync = false) (E : List FsOp) :
    (∀ i, i ≤ P.length → lastSyncIdx (P ++ E) i = 0) ∧
    (∀ n, lastSyncIdx (P ++ E) (P.length + n) = if lastSyncIdx E n = 0 then 0 else lastSyncIdx E n + P.length) := by
  induction P with
  | nil =>
    refine ⟨fun i hi => ?_, fun n => ?_⟩
    · have : i = 0 := by simpa using hi
      subst this; rfl
    · simp
  | cons o P ih =>
    obtain ⟨ih1, ih2⟩ := ih (fun x hx => hP x (by simp [hx]))
    have ho := hP o (by simp)
    refine ⟨fun i hi => ?_, fun n => ?_⟩
    · cases i with
      | zero => rfl
      | succ i' =>
        simp only [List.cons_append]
        rw [lastSyncIdx_cons_nosync _ ho, ih1 i' (by simpa using hi)]; simp
    · simp only [List.cons_append, List.length_cons]
      rw [show P.length + 1 + n = (P.length + n) + 1 by omega, lastSyncIdx_cons_nosync _ ho, ih2 n]
      by_cases h : lastSyncIdx E n = 0 <;> simp [h]; omega

theorem createOps_nosync (nl : Nat) : ∀ o ∈ createOps .main nl, o.isSync = false := by
  intro o ho
  simp only [createOps] at ho
  split at ho <;> simp at ho <;> rcases ho with rfl | rfl | rfl <;> rfl

def FsOp.onlyMain : FsOp → Bool
  | .create .main => true
  | .write .main _ _ => true
  | .sync _ => true
  | _ => false

theorem apply_onlyMain_temp (d : Disk) (o : FsOp) (h : o.onlyMain = true) : (d.apply o).temp = d.temp := by
  cases o with
  | create p => cases p <;> simp_all [FsOp.onlyMain, Disk.apply, Disk.set]
  | write p off cs =>
    cases p
    · simp only [Disk.apply, Disk.get]; cases d.main <;> simp [Disk.set]
    · simp [FsOp.onlyMain] at h
  | sync p => simp [Disk.apply]
  | rename a b => simp [FsOp.onlyMain] at h
  | unlink p => simp [FsOp.onlyMain] at h
  | truncate p n => simp [FsOp.onlyMain] at h

theorem applyAll_onlyMain_temp (ops : List FsOp) (h : ∀ o ∈ ops, o.onlyMain = true) (d : Disk) :
    (d.applyAll ops).temp = d.temp := by
  induction ops generalizing d with
  | nil => rfl
  | cons o os ih =>
    rw [Disk.applyAll_cons, ih (fun x hx => h x (by simp [hx])), apply_onlyMain_temp d o (h o (by simp))]

theorem applyTorn_onlyMain_temp (d : Disk) (o : FsOp) (k : Nat) (h : o.onlyMain = true) :
    (d.applyTorn o k).temp = d.temp := by
  cases o with
  | write p off cs =>
    cases p
    · exact apply_onlyMain_temp d (.write .main off (cs.take k)) rfl
    · simp [FsOp.onlyMain] at h
  | create p =>
    simp only [Disk.applyTorn]
    split
    · rfl
    · exact apply_onlyMain_temp d _ h
  | sync p =>
    simp only [Disk.applyTorn]
    split
    · rfl
    · exact apply_onlyMain_temp d _ h
  | rename a b => simp [FsOp.onlyMain] at h
  | unlink p => simp [FsOp.onlyMain] at h
  | truncate p n => simp [FsOp.onlyMain] at h

theorem evOps_onlyMain (nl : Nat) (evs : List Ev) : ∀ L, ∀ o ∈ evOps nl L evs, o.onlyMain = true := by
  induction evs with
  | nil => intro L o ho; simp [evOps] at ho
  | cons e r ih =>
    intro L o ho
    cases e with
    | blk b =>
      simp only [evOps, List.mem_cons] at ho
      rcases ho with rfl | rfl | rfl | ho
      · rfl
      · rfl
      · rfl
      · exact ih _ o ho
    | hdr =>
      simp only [evOps, List.mem_cons] at ho
      rcases ho with rfl | ho
      · rfl
      · exact ih _ o ho
    | sync =>
      simp only [evOps, List.mem_cons] at ho
      rcases ho with rfl | ho
      · rfl
      · exact ih _ o ho

theorem sessionOps_onlyMain (nl : Nat) (evs : List Ev) : ∀ o ∈ sessionOps nl evs, o.onlyMain = true := by
  intro o ho
  simp only [sessionOps, List.mem_append] at ho
  rcases ho with ho | ho
  · simp only [createOps] at ho
    split at ho <;> simp at ho <;> rcases ho with rfl | rfl | rfl <;> rfl
  · exact evOps_onlyMain nl evs _ o ho

theorem imageAt_onlyMain_temp (ops : List FsOp) (h : ∀ o ∈ ops, o.onlyMain = true) (i k : Nat) :
    (imageAt {} ops i k).temp = none := by
  simp only [imageAt]
  cases hg : ops[i]? with
  | none => simp only; exact applyAll_onlyMain_temp ops h {}
  | some op =>
    simp only
    rw [applyTorn_onlyMain_temp _ _ _ (h op (List.mem_of_getElem? hg))]
    exact applyAll_onlyMain_temp _ (fun o ho => h o (List.mem_of_mem_take ho)) {}

theorem applyAll_syncs (l : List FsOp) (h : ∀ o ∈ l, o.isSync = true) (d : Disk) : d.applyAll l = d := by
  induction l generalizing d with
  | nil => rfl
  | cons o os ih =>
    rw [Disk.applyAll_cons]
    have ho := h o (by simp)
    cases o with
    | sync p => exact ih (fun x hx => h x (by simp [hx])) d
    | create p => simp [FsOp.isSync] at ho
    | write p off cs => simp [FsOp.isSync] at ho
    | rename a b => simp [FsOp.isSync] at ho
    | unlink p => simp [FsOp.isSync] at ho
    | truncate p n => simp [FsOp.isSync] at ho

theorem evOps_write_or_sync (nl : Nat) (evs : List Ev) : ∀ L, ∀ o ∈ evOps nl L evs, o.isWrite = true ∨ o.isSync = true := by
  induction evs with
  | nil => intro L o ho; simp [evOps] at ho
  | cons e r ih =>
    intro L o ho
    cases e with
    | blk b =>
      simp only [evOps, List.mem_cons] at ho
      rcases ho with rfl | rfl | rfl | ho
      · exact Or.inl rfl
      · exact Or.inl rfl
      · exact Or.inl rfl
      · exact ih _ o ho
    | hdr =>
      simp only [evOps, List.mem_cons] at ho
      rcases ho with rfl | ho
      · exact Or.inl rfl
      · exact ih _ o ho
    | sync =>
      simp only [evOps, List.mem_cons] at ho
      rcases ho with rfl | ho
      · exact Or.inr rfl
      · exact ih _ o ho

theorem sessionOps_tail (nl : Nat) (evs : List Ev) :
    ∀ o ∈ (sessionOps nl evs).drop 1, o.isWrite = true ∨ o.isSync = true := by
  intro o ho
  have : (sessionOps nl evs).drop 1 =
      ([FsOp.write .main 0 (fhCells nl)] ++ (if nl = 0 then [] else [FsOp.write .main 64 (nmCells nl)])) ++
        evOps nl (64 + nl) evs := by
    simp [sessionOps, createOps]
  rw [this] at ho
  rcases List.mem_append.mp ho with ho | ho
  · left
    rcases List.mem_append.mp ho with ho | ho
    · simp only [List.mem_cons, List.not_mem_nil, or_false] at ho; subst ho; rfl
    · split at ho
      · simp at ho
      · simp only [List.mem_cons, List.not_mem_nil, or_false] at ho; subst ho; rfl
  · exact evOps_write_or_sync nl evs _ o ho

/-- power loss in a session: the metadata operations issued after the lost writes are only
    fsyncs, so the lossy image is the plain image at `j` -/
theorem session_lossy_eq (nl : Nat) (evs : List Ev) (i j k : Nat) (hji : j < i) :
    lossyImageAt {} (sessionOps nl evs) i j k = imageAt {} (sessionOps nl evs) j k := by
  unfold lossyImageAt
  have : ¬ i ≤ j := by omega
  simp only [this, if_false]
  apply applyAll_syncs
  intro o ho
  have hm := List.mem_filter.mp ho
  have hmem : o ∈ (sessionOps nl evs).drop 1 := by
    have h1 : o ∈ ((sessionOps nl evs).take i).drop (j + 1) := hm.1
    have h2 : o ∈ ((sessionOps nl evs).take i).drop 1 := by
      have e : ((sessionOps nl evs).take i).drop (j + 1) = (((sessionOps nl evs).take i).drop 1).drop j := by
        rw [List.drop_drop]; congr 1; omega
      rw [e] at h1; exact List.mem_of_mem_drop h1
    rw [List.drop_take] at h2
    exact List.mem_of_mem_take h2
  rcases sessionOps_tail nl evs o hmem with h | h
  · simp [h] at hm
  · exact h

end Hv.BlockStore

namespace Hv.BlockStore

theorem createOps_length (nl : Nat) : (createOps .main nl).length = if nl = 0 then 2 else 3 := by
  by_cases h : nl = 0 <;> simp [createOps, h]

theorem sessionDurable_nil_of_small (nl : Nat) (evs : List Ev) (i j : Nat)
    (hls : lastSyncIdx (sessionOps nl evs) i ≤ j) (hj : j < (createOps .main nl).length) :
    sessionDurable nl evs i = [] := by
  unfold sessionDurable
  split
  · rfl
  · rename_i hi
    obtain ⟨n, rfl⟩ : ∃ n, i = (createOps .main nl).length + n := ⟨i - (createOps .main nl).length, by omega⟩
    have h2 := (lastSyncIdx_append_nosync (createOps .main nl) (createOps_nosync nl) (evOps nl (64 + nl) evs)).2 n
    simp only [sessionOps] at hls
    rw [h2] at hls
    have h0 : lastSyncIdx (evOps nl (64 + nl) evs) n = 0 := by split at hls <;> omega
    simp only [Nat.add_sub_cancel_left]
    exact durAt_nosync nl evs (64 + nl) _ [] n h0

/-- **Crash images of a session.**  At every crash point the main file is missing (only
    possible before anything was synced) or is a prefix of the final clean file that extends
    the durable content. -/
theorem session_image (nl : Nat) (evs : List Ev) (i j k : Nat)
    (hls : lastSyncIdx (sessionOps nl evs) i ≤ j) (hji : j ≤ i) :
    ((imageAt {} (sessionOps nl evs) j k).main = none ∧ sessionDurable nl evs i = []) ∨
    ∃ g, (imageAt {} (sessionOps nl evs) j k).main = some g ∧
      sessionDurable nl evs i <+: g ∧ g <+: fileCells nl (evBlocks evs) := by
  have hfl : (fhCells nl ++ nmCells nl).length = 64 + nl := by simp
  by_cases hjc : (createOps .main nl).length ≤ j
  · -- past the creation of the file
    right
    obtain ⟨n, rfl⟩ : ∃ n, i = (createOps .main nl).length + n := ⟨i - (createOps .main nl).length, by omega⟩
    have h2 := (lastSyncIdx_append_nosync (createOps .main nl) (createOps_nosync nl) (evOps nl (64 + nl) evs)).2 n
    have hls' : lastSyncIdx (evOps nl (64 + nl) evs) n ≤ j - (createOps .main nl).length := by
      simp only [sessionOps] at hls
      rw [h2] at hls
      split at hls <;> omega
    rw [imageAt_checkpoint {} (sessionOps nl evs) (createOps .main nl).length j k hjc]
    have ht : (sessionOps nl evs).take (createOps .main nl).length = createOps .main nl := by
      simp [sessionOps]
    have hd : (sessionOps nl evs).drop (createOps .main nl).length = evOps nl (64 + nl) evs := by
      simp [sessionOps]
    rw [ht, hd, createOps_apply_main]
    have := ev_images nl evs (fhCells nl ++ nmCells nl) [] { main := some (fhCells nl ++ nmCells nl), temp := none } rfl
      (HdrOk_file nl _) (List.nil_prefix) n (j - (createOps .main nl).length) k (by rw [hfl]; exact hls') (by omega)
    rw [hfl] at this
    obtain ⟨g, hg, h1, h2'⟩ := this
    refine ⟨g, hg, ?_, by simpa [fileCells, List.append_assoc] using h2'⟩
    unfold sessionDurable
    split
    · exact List.nil_prefix
    · simp only [Nat.add_sub_cancel_left, fileCells_nil]; exact h1
  · -- the file is being created: nothing is durable yet
    have hdur := sessionDurable_nil_of_small nl evs i j hls (by omega)
    rw [hdur]
    have hfin : fhCells nl ++ nmCells nl <+: fileCells nl (evBlocks evs) := by
      simp only [fileCells]; exact List.prefix_append _ _
    rw [createOps_length] at hjc
    match j with
    | 0 =>
      by_cases hk : k = 0
      · left
        refine ⟨?_, rfl⟩
        simp [sessionOps, createOps, imageAt_zero, Disk.applyTorn, hk]
      · right
        refine ⟨[], ?_, List.nil_prefix, List.nil_prefix⟩
        simp [sessionOps, createOps, imageAt_zero, Disk.applyTorn, hk, Disk.apply, Disk.set]
    | 1 =>
      right
      refine ⟨(fhCells nl).take k, ?_, List.nil_prefix, ?_⟩
      · simp only [sessionOps, createOps, List.cons_append, List.nil_append]
        rw [imageAt_succ, imageAt_zero]
        simp [Disk.applyTorn, Disk.apply, Disk.set, Disk.get, splice]
      · exact ((List.take_prefix _ _).trans (List.prefix_append _ _)).trans hfin
    | 2 =>
      have hnl : nl ≠ 0 := by intro h; simp [h] at hjc
      right
      refine ⟨fhCells nl ++ (nmCells nl).take k, ?_, List.nil_prefix, ?_⟩
      · simp only [sessionOps, createOps, hnl, if_false, List.cons_append, List.nil_append]
        rw [imageAt_succ, imageAt_succ, imageAt_zero]
        have ht : List.take 64 (fhCells nl) = fhCells nl := List.take_of_length_le (by simp)
        simp [Disk.applyTorn, Disk.apply, Disk.set, Disk.get, splice, ht, List.drop_of_length_le]
      · exact ((List.prefix_append_right_inj _).mpr (List.take_prefix _ _)).trans hfin
    | j' + 3 => split at hjc <;> omega

/-- the durable content really is the main file as it stood when the last fsync returned -/
theorem sessionDurable_is_synced_file (nl : Nat) (evs : List Ev) (i : Nat)
    (h : 0 < lastSyncIdx (sessionOps nl evs) i) :
    (({} : Disk).applyAll ((sessionOps nl evs).take (lastSyncIdx (sessionOps nl evs) i))).main =
      some (sessionDurable nl evs i) := by
  have h1 := (lastSyncIdx_append_nosync (createOps .main nl) (createOps_nosync nl) (evOps nl (64 + nl) evs)).1
  have hi : (createOps .main nl).length < i := by
    apply Classical.byContradiction; intro hc
    have := h1 i (by omega)
    simp only [sessionOps] at h
    omega
  obtain ⟨n, rfl⟩ : ∃ n, i = (createOps .main nl).length + n := ⟨i - (createOps .main nl).length, by omega⟩
  have h2 := (lastSyncIdx_append_nosync (createOps .main nl) (createOps_nosync nl) (evOps nl (64 + nl) evs)).2 n
  have hfl : (fhCells nl ++ nmCells nl).length = 64 + nl := by simp
  simp only [sessionOps] at h ⊢
  rw [h2] at h ⊢
  by_cases h0 : lastSyncIdx (evOps nl (64 + nl) evs) n = 0
  · simp [h0] at h
  · simp only [h0, if_false]
    rw [Nat.add_comm, List.take_append]
    simp only [List.take_of_length_le (Nat.le_add_right _ _), Nat.add_sub_cancel_left, Disk.applyAll_append,
      createOps_apply_main]
    have := durAt_file nl evs (fhCells nl ++ nmCells nl) [] { main := some (fhCells nl ++ nmCells nl), temp := none } rfl
      (HdrOk_file nl _) n (by rw [hfl]; omega)
    rw [hfl] at this
    rw [this]
    unfold sessionDurable
    have : ¬ ((createOps .main nl).length + n ≤ (createOps .main nl).length) := by omega
    simp [this, fileCells_nil]

end Hv.BlockStore

namespace Hv.BlockStore

/-! ### Writing after a recovery (repaired open) -/

theorem createOps_apply_any (d : Disk) (nl : Nat) :
    d.applyAll (createOps .main nl) = { main := some (fhCells nl ++ nmCells nl), temp := d.temp } := by
  by_cases h : nl = 0
  · subst h
    simp [createOps, Disk.applyAll, Disk.apply, Disk.set, Disk.get, splice, nmCells]
  · have ht : List.take 64 (fhCells nl) = fhCells nl := List.take_of_length_le (by simp)
    simp [createOps, h, Disk.applyAll, Disk.apply, Disk.set, Disk.get, splice, List.drop_of_length_le, ht]

/-- `Sync`: everything buffered ends up in the file as whole blocks -/
theorem syncW_spec (c : Cfg) (mk : Mk) (hmk : MkOk mk) (d : Disk) (w : WSt) (f : List Cell) (h : WInv d w f)
    (hlen : w.buf.length ≤ maxEnts) :
    ∃ nbs, entsOf nbs = w.buf ∧ (∀ b ∈ nbs, b.WF) ∧
      (d.applyAll (syncW c mk w).2).get w.path = some (f ++ render nbs) := by
  obtain ⟨nbs, he, _, hp⟩ := flushW_spec mk hmk d w f h hlen
  refine ⟨nbs, he, hp.wf, ?_⟩
  simp only [syncW, Disk.applyAll_append, Disk.applyAll_cons, Disk.applyAll_nil]
  have hno := header_rewrite_noop _ _ _ hp.inv
  rw [hp.path, hp.nl] at hno
  rw [hno]
  cases c.syncFsyncs <;> simp [Disk.applyAll, Disk.apply] <;> rw [← hp.path] <;> exact hp.inv.file

theorem payCells_getElem? (b : Block) (i : Nat) (h : i < b.plen) : (payCells b)[i]? = some (Cell.bp b i) := by
  simp [payCells, List.getElem?_map, List.getElem?_range h]

theorem blockCells_getElem?_cases (b : Block) (i : Nat) :
    (blockCells b)[i]? = none ∨ (∃ j, (blockCells b)[i]? = some (Cell.bp b j)) ∨ (blockCells b)[i]? = some (Cell.bh b i) := by
  by_cases h : i < 16
  · right; right
    simp [blockCells, hdrCells, List.getElem?_append, h]
  · by_cases h2 : i < 16 + b.plen
    · right; left
      refine ⟨i - 16, ?_⟩
      simp only [blockCells]
      rw [List.getElem?_append_right (by simp; omega)]
      simp only [hdrCells_length]
      exact payCells_getElem? b (i - 16) (by omega)
    · left
      apply List.getElem?_eq_none
      simp [blockCells_length]; omega

/-- the torn prefix of one block holds no whole block -/
theorem tailHoldsBlock_torn (b : Block) (r : Nat) : tailHoldsBlock ((blockCells b).take r) = false := by
  unfold tailHoldsBlock
  rw [List.any_eq_false]
  intro i _
  by_cases hi : i ≥ 1
  · simp only [hi, decide_true, Bool.true_and]
    have hh : (((blockCells b).take r).drop i).head? = ((blockCells b).take r)[i]? := by
      rw [List.head?_drop]
    rw [hh]
    by_cases hir : i < r
    · rw [List.getElem?_take_of_lt hir]
      rcases blockCells_getElem?_cases b i with h | ⟨j, h⟩ | h
      · rw [h]; simp
      · rw [h]; simp
      · rw [h]
        cases i with
        | zero => omega
        | succ n => simp
    · rw [List.getElem?_eq_none (by simp; omega)]; simp
  · simp [hi]

/-- The repaired `openExistingFile` on what a crash leaves behind: the writer ends up on a clean
    file holding exactly the blocks a load of the image returns. -/
theorem open_repaired (c : Cfg) (hc : GoodR c.r) (ht : c.truncatesTornTail = true) (nl bsz : Nat)
    (blocks : List Block) (hwf : ∀ b ∈ blocks, b.WF) (d : Disk) (htemp : d.temp = none)
    (hmain : d.main = none ∨ ∃ g, d.main = some g ∧ g <+: fileCells nl blocks) :
    ∃ bs0 w o, openWriter c d .main nl bsz = some (w, o) ∧ WInv (d.applyAll o) w (fileCells nl bs0) ∧
      w.path = .main ∧ w.buf = [] ∧ (∀ b ∈ bs0, b.WF) ∧ recover c d = Index.replay [] (entsOf bs0) := by
  have fresh : ∀ d : Disk, d.temp = none →
      WInv (d.applyAll (createOps .main nl))
        { path := .main, pos := 64 + nl, nl := nl, buf := [], bufSize := 0, bs := bsz } (fileCells nl []) := by
    intro d hd
    rw [createOps_apply_any]
    exact ⟨by simp [Disk.get, fileCells_nil], by simp [fileCells_nil], fileCells_hdr nl []⟩
  rcases hmain with hnone | ⟨g, hg, hpre⟩
  · refine ⟨[], _, createOps .main nl, ?_, fresh d htemp, rfl, rfl, by simp, ?_⟩
    · simp [openWriter, Disk.get, hnone]
    · simp [recover, mainIndex, hnone, entsOf, Index.replay]
  · by_cases hlen : 64 + nl ≤ g.length
    · obtain ⟨m, hm, t, hgt, htail⟩ := prefix_file_shape nl blocks g hpre hlen
      have hwfm : ∀ b ∈ blocks.take m, b.WF := fun b hb => hwf b (List.mem_of_mem_take hb)
      have htail' : t = [] ∨ ∃ b r, b.WF ∧ t = (blockCells b).take r ∧ r < 16 + b.plen := by
        rcases htail with h | ⟨b, r, hb, h, _, hr⟩
        · exact Or.inl h
        · exact Or.inr ⟨b, r, hwf b (List.mem_of_getElem? hb), h, hr⟩
      have hv := validLen_clean_tail nl (blocks.take m) hwfm t htail'
      rw [← hgt] at hv
      have hh : headerOf g = some nl := by
        rw [hgt]; simp only [fileCells, List.append_assoc]; exact headerOf_file nl _
      have hload : loadFile c.r g = .ok (entsOf (blocks.take m)) := by
        rcases htail with h | ⟨b, r, hb, h, _, hr⟩
        · rw [hgt, h, List.append_nil]; exact loadFile_clean c.r nl _ hwfm
        · rw [hgt, h, loadFile_base_tail c.r nl _ hwfm b (hwf b (List.mem_of_getElem? hb)) r hr,
            stopOk_tailStop c.r hc r]; simp
      refine ⟨blocks.take m, { path := .main, pos := (fileCells nl (blocks.take m)).length, nl := nl, buf := [], bufSize := 0, bs := bsz },
        (if (fileCells nl (blocks.take m)).length < g.length then [.truncate .main (fileCells nl (blocks.take m)).length] else []),
        ?_, ?_, rfl, rfl, hwfm, ?_⟩
      · have htb : tailHoldsBlock (g.drop (fileCells nl (blocks.take m)).length) = false := by
          rw [hgt, List.drop_left']
          · rcases htail with h | ⟨b, r, _, h, _, _⟩
            · rw [h]; rfl
            · rw [h]; exact tailHoldsBlock_torn b r
          · rfl
        simp [openWriter, Disk.get, hg, hh, ht, hv, htb]
      · have hdisk : (d.applyAll (if (fileCells nl (blocks.take m)).length < g.length
            then [FsOp.truncate .main (fileCells nl (blocks.take m)).length] else [])).get .main =
              some (fileCells nl (blocks.take m)) := by
          split
          · rename_i hlt
            simp only [Disk.applyAll_cons, Disk.applyAll_nil, Disk.apply, Disk.get, hg, Disk.set]
            rw [hgt, List.take_left']
            · have : (fileCells nl (List.take m blocks)).length - (fileCells nl (List.take m blocks) ++ t).length = 0 := by
                simp
              simp [this]
            · rfl
          · rename_i hge
            have hl : g.length = (fileCells nl (blocks.take m)).length + t.length := by rw [hgt]; simp
            have ht0 : t = [] := by
              apply List.eq_nil_of_length_eq_zero; omega
            simp [Disk.applyAll_nil, Disk.get, hg, hgt, ht0]
        exact ⟨hdisk, rfl, fileCells_hdr nl _⟩
      · simp [recover, mainIndex, hg, hload]
    · -- not even header + name: the file is recreated; it loads as empty
      have hload : loadEntries c.r g = [] := by
        by_cases h64 : g.length < 64
        · cases hs : c.r.shortFileIsEmpty <;> simp [loadEntries, loadFile, headerOf_short g h64, hs, h64]
        · have hfh : fhCells nl <+: g := by
            apply List.prefix_of_prefix_length_le _ hpre (by simp; omega)
            simp only [fileCells, List.append_assoc]; exact List.prefix_append _ _
          obtain ⟨g2, hg2⟩ := hfh
          subst hg2
          have hd : (fhCells nl ++ g2).drop 64 = g2 := by
            rw [List.drop_append_of_le_length (by simp)]
            simp [List.drop_of_length_le]
          have hl2 : g2.length < nl := by
            simp only [List.length_append, fhCells_length] at hlen
            omega
          cases hs : c.r.shortFileIsEmpty <;> simp [loadEntries, loadFile, headerOf_file, hd, hl2, hs]
      refine ⟨[], _, createOps .main nl, ?_, fresh d htemp, rfl, rfl, by simp, ?_⟩
      · by_cases h64 : g.length < 64
        · simp [openWriter, Disk.get, hg, headerOf_short g h64, ht, h64]
        · have hfh : fhCells nl <+: g := by
            apply List.prefix_of_prefix_length_le _ hpre (by simp; omega)
            simp only [fileCells, List.append_assoc]; exact List.prefix_append _ _
          obtain ⟨g2, hg2⟩ := hfh
          subst hg2
          have hd : (fhCells nl ++ g2).drop 64 = g2 := by
            rw [List.drop_append_of_le_length (by simp)]
            simp [List.drop_of_length_le]
          have hl2 : g2.length < nl := by
            simp only [List.length_append, fhCells_length] at hlen
            omega
          simp [openWriter, Disk.get, hg, headerOf_file, ht, validLen, hd, hl2]
      · have : recover c d = Index.replay [] (loadEntries c.r g) := by
          simp only [recover, mainIndex, hg, loadEntries]
          cases loadFile c.r g <;> simp [Index.replay]
        rw [this, hload]; simp [entsOf]

end Hv.BlockStore

namespace Hv.BlockStore

theorem applyAll_sessionOps (nl : Nat) (evs : List Ev) :
    ({} : Disk).applyAll (sessionOps nl evs) = { main := some (fileCells nl (evBlocks evs)), temp := none } := by
  simp only [sessionOps, Disk.applyAll_append, createOps_apply_main]
  have := applyAll_evOps nl evs (fhCells nl ++ nmCells nl) { main := some (fhCells nl ++ nmCells nl), temp := none } rfl
    (HdrOk_file nl _)
  simp only [List.length_append, fhCells_length, nmCells_length] at this
  rw [this]; simp [fileCells]

end Hv.BlockStore

namespace Hv.BlockStore

/-! ### Appending behind a torn block strands everything that follows -/

/-- A block cut at or after its header, followed by anything that is not its own continuation:
    the reader returns no entry from here on (it stops with a checksum error or a short read). -/
theorem readBlocks_frag_strands (f : Nat) (b : Block) (hw : b.WF) (r : Nat) (h1 : 16 ≤ r) (h2 : r < 16 + b.plen)
    (rest : List Cell) (hrest : rest.head? ≠ some (Cell.bp b (r - 16))) :
    (readBlocks (f + 1) ((blockCells b).take r ++ rest)).1 = [] := by
  have hlen : ((blockCells b).take r ++ rest).length = r + rest.length := by
    simp only [List.length_append, List.length_take, blockCells_length]; omega
  have hsz : sizeField ((blockCells b).take r ++ rest) = some b.plen := by
    rw [take_blockCells_ge b r h1, List.append_assoc]; exact sizeField_hdr b hw _
  have hhead : ((blockCells b).take r ++ rest).head? = some (Cell.bh b 0) := by
    rw [take_blockCells_ge b r h1]; simp [hdrCells_eq]
  rw [readBlocks]
  simp only [hlen, hsz, hhead]
  have a1 : ¬ (r + rest.length = 0) := by omega
  have a2 : ¬ (r + rest.length < 16) := by omega
  have a0 : ¬ b.plen = 0 := by have := hw.2.2.1; omega
  simp only [a0, a1, a2, if_false]
  split
  · rfl
  · rename_i hav
    split
    · rename_i heq
      exfalso
      apply hrest
      have hx : (((blockCells b).take r ++ rest).take (16 + b.plen))[r]? = (blockCells b)[r]? := by rw [heq]
      rw [List.getElem?_take_of_lt h2,
        List.getElem?_append_right (by simp only [List.length_take, blockCells_length]; omega)] at hx
      have hl : ((blockCells b).take r).length = r := by
        simp only [List.length_take, blockCells_length]; omega
      rw [hl, Nat.sub_self] at hx
      have hb : (blockCells b)[r]? = some (Cell.bp b (r - 16)) := by
        simp only [blockCells]
        rw [List.getElem?_append_right (by simp; exact h1)]
        simp only [hdrCells_length]
        exact payCells_getElem? b (r - 16) (by omega)
      rw [hb] at hx
      cases rest with
      | nil => simp at hx
      | cons x xs => simpa using hx
    · rfl

/-- file level: whole blocks, a torn block, then foreign bytes — nothing behind the torn block is ever loaded -/
theorem loadEntries_strands (c : RCfg) (nl : Nat) (bs : List Block) (hwf : ∀ b ∈ bs, b.WF) (b : Block) (hb : b.WF)
    (r : Nat) (h1 : 16 ≤ r) (h2 : r < 16 + b.plen) (rest : List Cell)
    (hrest : rest.head? ≠ some (Cell.bp b (r - 16))) :
    loadEntries c (fileCells nl bs ++ ((blockCells b).take r ++ rest)) = entsOf bs ∨
    loadEntries c (fileCells nl bs ++ ((blockCells b).take r ++ rest)) = [] := by
  have hh : headerOf (fileCells nl bs ++ ((blockCells b).take r ++ rest)) = some nl := by
    simp only [fileCells, List.append_assoc]; exact headerOf_file nl _
  have hdr : (fileCells nl bs ++ ((blockCells b).take r ++ rest)).drop 64 =
      nmCells nl ++ (render bs ++ ((blockCells b).take r ++ rest)) := by
    simp only [fileCells, List.append_assoc]
    rw [List.drop_append_of_le_length (by simp)]
    simp [List.drop_of_length_le]
  have hdr2 : (nmCells nl ++ (render bs ++ ((blockCells b).take r ++ rest))).drop nl =
      render bs ++ ((blockCells b).take r ++ rest) := by
    rw [List.drop_append_of_le_length (by simp)]
    simp [List.drop_of_length_le]
  have hnl : ¬ ((nmCells nl ++ (render bs ++ ((blockCells b).take r ++ rest))).length < nl) := by simp
  obtain ⟨F, hF⟩ : ∃ F, (fileCells nl bs ++ ((blockCells b).take r ++ rest)).length = bs.length + (F + 1) := by
    refine ⟨(fileCells nl bs ++ ((blockCells b).take r ++ rest)).length - bs.length - 1, ?_⟩
    have := render_length_ge bs
    simp only [fileCells, List.length_append, fhCells_length, nmCells_length]
    omega
  simp only [loadEntries, loadFile, hh, hdr, hdr2, hnl, if_false]
  rw [hF, readBlocks_render bs hwf]
  have := readBlocks_frag_strands F b hb r h1 h2 rest hrest
  rw [this, List.append_nil]
  cases stopOk c (readBlocks (F + 1) ((blockCells b).take r ++ rest)).2
  · right; rfl
  · left; rfl

end Hv.BlockStore
