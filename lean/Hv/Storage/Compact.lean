/-
  Lemmas for C03: what a compaction leaves on disk, and which operations touch the main file.
-/
import Hv.Storage.ChronLemmas

namespace Hv.BlockStore

/-! ### The file a compaction produces -/

theorem liveEntries_fst (idx : Index) (order : List (Nat × Nat)) :
    (liveEntries idx order).map (·.1) =
      (order.map (·.1)).filterMap fun k => (idx.get k).map fun v => Op.put k v := by
  induction order with
  | nil => simp [liveEntries]
  | cons p rest ih =>
    obtain ⟨k, sz⟩ := p
    simp only [liveEntries] at ih
    cases h : idx.get k <;> simp [liveEntries, h, ih]

/-- From an open writer on the temp file: write the entries, close, rename.  The main file
    becomes `base ++ whole blocks holding exactly the entries`, the temp disappears. -/
theorem compact_tail (c : Cfg) (mk : Mk) (hmk : MkOk mk) (d : Disk) (w : WSt) (base : List Cell)
    (hw : WInv d w base) (hp : w.path = .temp) (hbuf : w.buf = []) (entries : List (Op × Nat)) :
    ∃ nbs, (∀ b ∈ nbs, b.WF) ∧ entsOf nbs = entries.map (·.1) ∧
      d.applyAll ((addManyW mk w entries).2 ++ closeW c mk (addManyW mk w entries).1 ++ [.rename .temp .main]) =
        { main := some (base ++ render nbs), temp := none } := by
  obtain ⟨a, ha, pa⟩ := addManyW_spec mk hmk entries d w base hw (by rw [hbuf]; exact maxEnts_pos)
  obtain ⟨b, hb, hbwf, hfile, _⟩ := closeW_spec c mk hmk _ _ _ pa.inv (Nat.le_of_lt pa.cnt)
  refine ⟨a ++ b, ?_, ?_, ?_⟩
  · intro x hx
    rcases List.mem_append.mp hx with hx | hx
    · exact pa.wf x hx
    · exact hbwf x hx
  · rw [entsOf_append, hb, ha, hbuf]; simp
  · rw [Disk.applyAll_append, Disk.applyAll_append]
    rw [pa.path, hp] at hfile
    simp only [Disk.applyAll_cons, Disk.applyAll_nil, Disk.apply]
    simp only [Disk.get] at hfile
    simp [Disk.get, hfile, Disk.set, render_append, List.append_assoc]

/-! ### Operations that cannot change the main file -/

def FsOp.onlyTemp : FsOp → Bool
  | .create .temp => true
  | .write .temp _ _ => true
  | .sync _ => true
  | .unlink .temp => true
  | .truncate .temp _ => true
  | _ => false

theorem apply_onlyTemp_main (d : Disk) (o : FsOp) (h : o.onlyTemp = true) : (d.apply o).main = d.main := by
  cases o with
  | create p => cases p <;> simp_all [FsOp.onlyTemp, Disk.apply, Disk.set]
  | write p off cs =>
    cases p
    · simp [FsOp.onlyTemp] at h
    · simp only [Disk.apply, Disk.get]; cases d.temp <;> simp [Disk.set]
  | sync p => simp [Disk.apply]
  | rename a b => simp [FsOp.onlyTemp] at h
  | unlink p => cases p <;> simp_all [FsOp.onlyTemp, Disk.apply, Disk.set]
  | truncate p n =>
    cases p
    · simp [FsOp.onlyTemp] at h
    · simp only [Disk.apply, Disk.get]; cases d.temp <;> simp [Disk.set]

theorem applyAll_onlyTemp_main (ops : List FsOp) (h : ∀ o ∈ ops, o.onlyTemp = true) (d : Disk) :
    (d.applyAll ops).main = d.main := by
  induction ops generalizing d with
  | nil => rfl
  | cons o os ih =>
    rw [Disk.applyAll_cons, ih (fun x hx => h x (by simp [hx])), apply_onlyTemp_main d o (h o (by simp))]

theorem applyTorn_onlyTemp_main (d : Disk) (o : FsOp) (k : Nat) (h : o.onlyTemp = true) :
    (d.applyTorn o k).main = d.main := by
  cases o with
  | write p off cs =>
    cases p
    · simp [FsOp.onlyTemp] at h
    · exact apply_onlyTemp_main d (.write .temp off (cs.take k)) rfl
  | create p =>
    simp only [Disk.applyTorn]
    split
    · rfl
    · exact apply_onlyTemp_main d _ h
  | sync p =>
    simp only [Disk.applyTorn]
    split
    · rfl
    · exact apply_onlyTemp_main d _ h
  | rename a b => simp [FsOp.onlyTemp] at h
  | unlink p =>
    simp only [Disk.applyTorn]
    split
    · rfl
    · exact apply_onlyTemp_main d _ h
  | truncate p n =>
    simp only [Disk.applyTorn]
    split
    · rfl
    · exact apply_onlyTemp_main d _ h

theorem createOps_onlyTemp (nl : Nat) : ∀ o ∈ createOps .temp nl, o.onlyTemp = true := by
  intro o ho
  simp only [createOps] at ho
  split at ho <;> simp at ho <;> rcases ho with rfl | rfl | rfl <;> rfl

theorem flushW_onlyTemp (mk : Mk) (w : WSt) (hp : w.path = .temp) :
    (∀ o ∈ (flushW mk w).2, o.onlyTemp = true) ∧ (flushW mk w).1.path = .temp := by
  by_cases hb : w.buf = []
  · rw [flushW_nil mk w hb]; exact ⟨by simp, hp⟩
  · rw [flushW_cons mk w hb]
    refine ⟨?_, hp⟩
    intro o ho
    simp only [List.mem_cons, List.not_mem_nil, or_false, hp] at ho
    rcases ho with rfl | rfl | rfl <;> rfl

theorem addW_onlyTemp (mk : Mk) (w : WSt) (hp : w.path = .temp) (e : Op) (sz : Nat) :
    (∀ o ∈ (addW mk w e sz).2, o.onlyTemp = true) ∧ (addW mk w e sz).1.path = .temp := by
  unfold addW
  split
  · exact flushW_onlyTemp mk _ hp
  · exact ⟨by simp, hp⟩

theorem addManyW_onlyTemp (mk : Mk) (items : List (Op × Nat)) : ∀ (w : WSt), w.path = .temp →
    (∀ o ∈ (addManyW mk w items).2, o.onlyTemp = true) ∧ (addManyW mk w items).1.path = .temp := by
  induction items with
  | nil => intro w hp; exact ⟨by simp [addManyW], hp⟩
  | cons it rest ih =>
    intro w hp
    obtain ⟨e, sz⟩ := it
    have h1 := addW_onlyTemp mk w hp e sz
    have h2 := ih _ h1.2
    simp only [addManyW]
    refine ⟨?_, h2.2⟩
    intro o ho
    rcases List.mem_append.mp ho with ho | ho
    · exact h1.1 o ho
    · exact h2.1 o ho

theorem closeW_onlyTemp (c : Cfg) (mk : Mk) (w : WSt) (hp : w.path = .temp) :
    ∀ o ∈ closeW c mk w, o.onlyTemp = true := by
  intro o ho
  simp only [closeW, List.mem_append] at ho
  rcases ho with (ho | ho) | ho
  · exact (flushW_onlyTemp mk w hp).1 o ho
  · simp only [List.mem_cons, List.not_mem_nil, or_false, hp] at ho; subst ho; rfl
  · split at ho
    · simp only [List.mem_cons, List.not_mem_nil, or_false] at ho; subst ho; rfl
    · simp at ho

theorem rmTempOps_onlyTemp (d : Disk) : ∀ o ∈ rmTempOps d, o.onlyTemp = true := by
  intro o ho
  simp only [rmTempOps] at ho
  split at ho
  · simp only [List.mem_cons, List.not_mem_nil, or_false] at ho; subst ho; rfl
  · simp at ho

theorem openWriter_temp (c : Cfg) (d : Disk) (nlNew bs : Nat) (w : WSt) (o : List FsOp)
    (h : openWriter c d .temp nlNew bs = some (w, o)) : w.path = .temp ∧ ∀ x ∈ o, x.onlyTemp = true := by
  unfold openWriter at h
  simp only at h
  split at h
  · cases h; exact ⟨rfl, createOps_onlyTemp _⟩
  · split at h
    · split at h
      · cases h; exact ⟨rfl, createOps_onlyTemp _⟩
      · cases h
    · split at h
      · split at h
        · cases h; exact ⟨rfl, createOps_onlyTemp _⟩
        · split at h
          · cases h
          · cases h
            refine ⟨rfl, ?_⟩
            intro x hx
            split at hx
            · simp only [List.mem_cons, List.not_mem_nil, or_false] at hx; subst hx; rfl
            · simp at hx
      · cases h; exact ⟨rfl, by simp⟩

/-- shape of a compaction's operation log: either it never gets as far as the rename (the
    writer could not be opened) and touches only the temp file, or it is `pre ++ [rename]`
    with `pre` touching only the temp file -/
theorem compactOps_shape (c : Cfg) (mk : Mk) (d : Disk) (rmFirst : Bool) (entries : List (Op × Nat)) (bs : Nat) :
    (∀ o ∈ compactOps c mk d rmFirst entries bs, o.onlyTemp = true) ∨
    ∃ pre, compactOps c mk d rmFirst entries bs = pre ++ [.rename .temp .main] ∧
      (∀ o ∈ pre, o.onlyTemp = true) ∧
      (c.closeFsyncs = true → ∃ pre', pre = pre' ++ [.sync .temp]) := by
  have ho0 : ∀ o ∈ (if rmFirst then rmTempOps d else []), o.onlyTemp = true := by
    intro o ho; split at ho
    · exact rmTempOps_onlyTemp d o ho
    · simp at ho
  unfold compactOps
  simp only
  split
  · exact Or.inl ho0
  · rename_i w o1 hopen
    obtain ⟨hp, ho1⟩ := openWriter_temp c _ _ _ w o1 hopen
    have h2 := addManyW_onlyTemp mk entries w hp
    have h3 := closeW_onlyTemp c mk _ h2.2
    refine Or.inr ⟨_, rfl, ?_, ?_⟩
    · intro o ho
      simp only [List.mem_append] at ho
      rcases ho with ((ho | ho) | ho) | ho
      · exact ho0 o ho
      · exact ho1 o ho
      · exact h2.1 o ho
      · exact h3 o ho
    · intro hf
      refine ⟨(if rmFirst then rmTempOps d else []) ++ o1 ++ (addManyW mk w entries).2 ++
        ((flushW mk (addManyW mk w entries).1).2 ++ [.write .temp 0 (fhCells (addManyW mk w entries).1.nl)]), ?_⟩
      simp [closeW, hf, h2.2, List.append_assoc]

/-! ### The disk after a whole compaction -/

def cleanDisk (nl : Nat) (blocks : List Block) (temp : Option (List Cell)) : Disk :=
  { main := some (fileCells nl blocks), temp := temp }

theorem mainIndex_clean (c : Cfg) (nl : Nat) (blocks : List Block) (hwf : ∀ b ∈ blocks, b.WF)
    (temp : Option (List Cell)) :
    mainIndex c (cleanDisk nl blocks temp) = some (Index.replay [] (entsOf blocks)) := by
  simp [mainIndex, cleanDisk, loadFile_clean c.r nl blocks hwf]

theorem mainNl_clean (nl : Nat) (blocks : List Block) (temp : Option (List Cell)) :
    mainNl (cleanDisk nl blocks temp) = nl := by
  simp [mainNl, cleanDisk, fileCells, List.append_assoc, headerOf_file]

theorem rmTemp_apply (d : Disk) : d.applyAll (rmTempOps d) = { d with temp := none } := by
  cases d with
  | mk m t => cases t <;> simp [rmTempOps, Disk.applyAll, Disk.apply, Disk.set]

theorem createOps_apply (m : Option (List Cell)) (nl : Nat) :
    ({ main := m, temp := none } : Disk).applyAll (createOps .temp nl) =
      { main := m, temp := some (fhCells nl ++ nmCells nl) } := by
  by_cases h : nl = 0
  · subst h
    simp [createOps, Disk.applyAll, Disk.apply, Disk.set, Disk.get, splice, nmCells]
  · have ht : List.take 64 (fhCells nl) = fhCells nl := List.take_of_length_le (by simp)
    simp [createOps, h, Disk.applyAll, Disk.apply, Disk.set, Disk.get, splice, List.drop_of_length_le, ht]

/-- temp removed first: the new main file is a clean file holding exactly the entries written -/
theorem compactOps_rm (c : Cfg) (mk : Mk) (hmk : MkOk mk) (nl bs : Nat) (blocks : List Block)
    (temp : Option (List Cell)) (entries : List (Op × Nat)) :
    ∃ nbs, (∀ b ∈ nbs, b.WF) ∧ entsOf nbs = entries.map (·.1) ∧
      (cleanDisk nl blocks temp).applyAll (compactOps c mk (cleanDisk nl blocks temp) true entries bs) =
        cleanDisk nl nbs none := by
  have hd1 : (cleanDisk nl blocks temp).applyAll (rmTempOps (cleanDisk nl blocks temp)) = cleanDisk nl blocks none := by
    rw [rmTemp_apply]; rfl
  have hopen : openWriter c (cleanDisk nl blocks none) .temp nl bs =
      some ({ path := .temp, pos := 64 + nl, nl := nl, buf := [], bufSize := 0, bs := bs }, createOps .temp nl) := by
    simp [openWriter, cleanDisk, Disk.get]
  have hd2 : (cleanDisk nl blocks none).applyAll (createOps .temp nl) =
      { main := some (fileCells nl blocks), temp := some (fhCells nl ++ nmCells nl) } := by
    simp only [cleanDisk]; exact createOps_apply _ nl
  have hw : WInv { main := some (fileCells nl blocks), temp := some (fhCells nl ++ nmCells nl) }
      { path := .temp, pos := 64 + nl, nl := nl, buf := [], bufSize := 0, bs := bs } (fhCells nl ++ nmCells nl) :=
    ⟨rfl, by simp, HdrOk_file nl _⟩
  obtain ⟨nbs, hwf, hents, hfin⟩ := compact_tail c mk hmk _ _ _ hw rfl rfl entries
  refine ⟨nbs, hwf, hents, ?_⟩
  simp only [compactOps, if_true, hd1, mainNl_clean, hopen]
  rw [List.append_assoc, List.append_assoc, List.append_assoc, Disk.applyAll_append, hd1, Disk.applyAll_append, hd2,
      ← List.append_assoc, hfin]
  simp [cleanDisk, fileCells]

def mainDisk (mf : List Cell) (temp : Option (List Cell)) : Disk := { main := some mf, temp := temp }

/-- the same for an arbitrary main file (only its header is looked at by the compaction body) -/
theorem compactOps_rm_gen (c : Cfg) (mk : Mk) (hmk : MkOk mk) (nl bs : Nat) (mf : List Cell)
    (temp : Option (List Cell)) (hnl : ∀ t, mainNl (mainDisk mf t) = nl) (entries : List (Op × Nat)) :
    ∃ nbs, (∀ b ∈ nbs, b.WF) ∧ entsOf nbs = entries.map (·.1) ∧
      (mainDisk mf temp).applyAll (compactOps c mk (mainDisk mf temp) true entries bs) =
        cleanDisk nl nbs none := by
  have hd1 : (mainDisk mf temp).applyAll (rmTempOps (mainDisk mf temp)) = mainDisk mf none := by
    rw [rmTemp_apply]; rfl
  have hopen : openWriter c (mainDisk mf none) .temp nl bs =
      some ({ path := .temp, pos := 64 + nl, nl := nl, buf := [], bufSize := 0, bs := bs }, createOps .temp nl) := by
    simp [openWriter, mainDisk, Disk.get]
  have hd2 : (mainDisk mf none).applyAll (createOps .temp nl) =
      { main := some mf, temp := some (fhCells nl ++ nmCells nl) } := by
    simp only [mainDisk]; exact createOps_apply _ nl
  have hw : WInv { main := some mf, temp := some (fhCells nl ++ nmCells nl) }
      { path := .temp, pos := 64 + nl, nl := nl, buf := [], bufSize := 0, bs := bs } (fhCells nl ++ nmCells nl) :=
    ⟨rfl, by simp, HdrOk_file nl _⟩
  obtain ⟨nbs, hwf, hents, hfin⟩ := compact_tail c mk hmk _ _ _ hw rfl rfl entries
  refine ⟨nbs, hwf, hents, ?_⟩
  simp only [compactOps, if_true, hd1, hnl, hopen]
  rw [List.append_assoc, List.append_assoc, List.append_assoc, Disk.applyAll_append, hd1, Disk.applyAll_append, hd2,
      ← List.append_assoc, hfin]
  simp [cleanDisk, fileCells]

/-- temp *not* removed and a parseable file is lying there: the writer appends to it, and the
    rename installs `stale blocks ++ new blocks` as the main file -/
theorem compactOps_stale (c : Cfg) (hc : c.truncatesTornTail = false) (mk : Mk) (hmk : MkOk mk) (nl bs : Nat)
    (blocks sbs : List Block) (snl : Nat) (entries : List (Op × Nat)) :
    ∃ nbs, (∀ b ∈ nbs, b.WF) ∧ entsOf nbs = entries.map (·.1) ∧
      (cleanDisk nl blocks (some (fileCells snl sbs))).applyAll
          (compactOps c mk (cleanDisk nl blocks (some (fileCells snl sbs))) false entries bs) =
        cleanDisk snl (sbs ++ nbs) none := by
  have hh : headerOf (fileCells snl sbs) = some snl := by
    simp only [fileCells, List.append_assoc]; exact headerOf_file snl _
  have hopen : openWriter c (cleanDisk nl blocks (some (fileCells snl sbs))) .temp nl bs =
      some ({ path := .temp, pos := (fileCells snl sbs).length, nl := snl, buf := [], bufSize := 0, bs := bs }, []) := by
    simp [openWriter, cleanDisk, Disk.get, hh, hc]
  have hw : WInv (cleanDisk nl blocks (some (fileCells snl sbs)))
      { path := .temp, pos := (fileCells snl sbs).length, nl := snl, buf := [], bufSize := 0, bs := bs } (fileCells snl sbs) :=
    ⟨rfl, rfl, by simp only [fileCells, List.append_assoc]; exact HdrOk_file snl _⟩
  obtain ⟨nbs, hwf, hents, hfin⟩ := compact_tail c mk hmk _ _ _ hw rfl rfl entries
  refine ⟨nbs, hwf, hents, ?_⟩
  simp only [compactOps, Bool.false_eq_true, if_false, Disk.applyAll_nil, mainNl_clean, hopen, List.nil_append]
  rw [hfin]
  simp [cleanDisk, fileCells, render_append, List.append_assoc]

/-! ### Crash atomicity around the rename -/

theorem imageAt_main_onlyTemp (d : Disk) (A B : List FsOp) (hA : ∀ o ∈ A, o.onlyTemp = true) (i k : Nat)
    (hi : i < A.length) : (imageAt d (A ++ B) i k).main = d.main := by
  have hget : (A ++ B)[i]? = some A[i] := by
    rw [List.getElem?_append_left hi]; exact List.getElem?_eq_getElem hi
  have htake : (A ++ B).take i = A.take i := List.take_append_of_le_length (Nat.le_of_lt hi)
  simp only [imageAt, hget, htake]
  rw [applyTorn_onlyTemp_main _ _ _ (hA _ (List.getElem_mem hi))]
  exact applyAll_onlyTemp_main _ (fun o ho => hA o (List.mem_of_mem_take ho)) d

theorem suffix_onlyTemp (A B : List FsOp) (hA : ∀ o ∈ A, o.onlyTemp = true) (i j : Nat) (hi : i ≤ A.length) :
    ∀ o ∈ (((A ++ B).take i).drop (j + 1)).filter (fun o => !o.isWrite), o.onlyTemp = true := by
  intro o ho
  have h1 := (List.mem_filter.mp ho).1
  have h2 := List.mem_of_mem_drop h1
  rw [List.take_append_of_le_length hi] at h2
  exact hA o (List.mem_of_mem_take h2)

theorem lastSyncIdx_tail (P : List FsOp) (t a b : Path) :
    lastSyncIdx (P ++ [.sync t, .rename a b]) (P.length + 2) = P.length + 1 := by
  have h1 : (P ++ [FsOp.sync t, FsOp.rename a b])[P.length + 1]? = some (.rename a b) := by
    rw [List.getElem?_append_right (by omega)]; simp
  have h0 : (P ++ [FsOp.sync t, FsOp.rename a b])[P.length]? = some (.sync t) := by
    rw [List.getElem?_append_right (by omega)]; simp
  show lastSyncIdx _ ((P.length + 1) + 1) = _
  rw [lastSyncIdx]
  simp only [h1, Option.map_some, FsOp.isSync, Option.getD_some, Bool.false_eq_true, if_false]
  rw [lastSyncIdx]
  simp [h0, FsOp.isSync]

/-- fsync(temp) directly before rename(temp → main), everything earlier confined to the temp
    file: every crash image has the old main file, or is the finished compaction -/
theorem atomic_of_shape (d : Disk) (P : List FsOp) (hP : ∀ o ∈ P, o.onlyTemp = true) (i j k : Nat)
    (hcp : CrashPoint (P ++ [.sync .temp, .rename .temp .main]) i j) :
    (lossyImageAt d (P ++ [.sync .temp, .rename .temp .main]) i j k).main = d.main ∨
    lossyImageAt d (P ++ [.sync .temp, .rename .temp .main]) i j k =
      d.applyAll (P ++ [.sync .temp, .rename .temp .main]) := by
  obtain ⟨hlen, hj1, hj2⟩ := hcp
  have hops : P ++ [FsOp.sync .temp, FsOp.rename .temp .main] = (P ++ [.sync .temp]) ++ [.rename .temp .main] := by simp
  have hA : ∀ o ∈ P ++ [FsOp.sync .temp], o.onlyTemp = true := by
    intro o ho
    rcases List.mem_append.mp ho with ho | ho
    · exact hP o ho
    · simp only [List.mem_cons, List.not_mem_nil, or_false] at ho; subst ho; rfl
  have hAl : (P ++ [FsOp.sync .temp]).length = P.length + 1 := by simp
  simp only [List.length_append, List.length_cons, List.length_nil] at hlen
  -- the image when the rename itself is in flight
  have hren : ∀ k, (imageAt d (P ++ [.sync .temp, .rename .temp .main]) (P.length + 1) k).main = d.main ∨
      imageAt d (P ++ [.sync .temp, .rename .temp .main]) (P.length + 1) k =
        d.applyAll (P ++ [.sync .temp, .rename .temp .main]) := by
    intro k
    have hget : (P ++ [FsOp.sync .temp, FsOp.rename .temp .main])[P.length + 1]? = some (.rename .temp .main) := by
      rw [List.getElem?_append_right (by omega)]; simp
    have htake : (P ++ [FsOp.sync .temp, FsOp.rename .temp .main]).take (P.length + 1) = P ++ [.sync .temp] := by
      rw [hops, List.take_append_of_le_length (by simp)]
      exact List.take_of_length_le (by simp)
    simp only [imageAt, hget, htake, Disk.applyTorn]
    by_cases hk : k = 0
    · left; simp only [hk, if_true]; exact applyAll_onlyTemp_main _ hA d
    · right; simp only [hk, if_false]
      rw [hops]
      simp only [Disk.applyAll_append, Disk.applyAll_cons, Disk.applyAll_nil]
  by_cases hi : i < P.length + 1
  · -- the rename has not been issued
    left
    unfold lossyImageAt
    split
    · rw [hops]; exact imageAt_main_onlyTemp d _ _ hA i k (by omega)
    · rename_i hij
      rw [applyAll_onlyTemp_main]
      · rw [hops]; exact imageAt_main_onlyTemp d _ _ hA j k (by omega)
      · rw [hops]; exact suffix_onlyTemp _ _ hA i j (by omega)
  · by_cases hi2 : i = P.length + 1
    · subst hi2
      unfold lossyImageAt
      split
      · exact hren k
      · rename_i hij
        left
        rw [applyAll_onlyTemp_main]
        · rw [hops]; exact imageAt_main_onlyTemp d _ _ hA j k (by omega)
        · rw [hops]; exact suffix_onlyTemp _ _ hA _ j (by omega)
    · have hi3 : i = P.length + 2 := by omega
      subst hi3
      rw [lastSyncIdx_tail] at hj1
      unfold lossyImageAt
      split
      · right
        have : (P ++ [FsOp.sync .temp, FsOp.rename .temp .main])[P.length + 2]? = none := by
          rw [List.getElem?_eq_none]; simp
        simp [imageAt, this]
      · have hj : j = P.length + 1 := by omega
        subst hj
        have hnil : (((P ++ [FsOp.sync .temp, FsOp.rename .temp .main]).take (P.length + 2)).drop (P.length + 1 + 1)) = [] := by
          apply List.drop_of_length_le; simp
        rw [hnil]
        simp only [List.filter_nil, Disk.applyAll_nil]
        exact hren k

theorem onlyTemp_lossy_main (d : Disk) (ops : List FsOp) (h : ∀ o ∈ ops, o.onlyTemp = true) (i j k : Nat) :
    (lossyImageAt d ops i j k).main = d.main := by
  have himg : ∀ m, (imageAt d ops m k).main = d.main := by
    intro m
    by_cases hm : m < ops.length
    · have := imageAt_main_onlyTemp d ops [] h m k hm
      simpa using this
    · have : ops[m]? = none := by rw [List.getElem?_eq_none]; omega
      simp only [imageAt, this]
      exact applyAll_onlyTemp_main _ h d
  unfold lossyImageAt
  split
  · exact himg i
  · rw [applyAll_onlyTemp_main]
    · exact himg j
    · intro o ho
      exact h o (List.mem_of_mem_take (List.mem_of_mem_drop (List.mem_filter.mp ho).1))

end Hv.BlockStore
