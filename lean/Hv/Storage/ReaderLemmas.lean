/-
  The reader on files rendered from a header, a name and a list of blocks.
-/
import Hv.Storage.FormatLemmas

namespace Hv.Storage

theorem padTo_length (n : Nat) (b : Bytes) : (padTo n b).length = n := by
  simp [padTo]

theorem drop_le_nil (k n x : Nat) (h : k ≤ n) : (le k x).drop n = [] := by
  simp [List.drop_eq_nil_iff, h]

theorem drop_padTo_nil (k n : Nat) (b : Bytes) (h : k ≤ n) : (padTo k b).drop n = [] := by
  simp [List.drop_eq_nil_iff, padTo_length, h]

theorem padTo_of_length (n : Nat) (b : Bytes) (h : b.length = n) : padTo n b = b := by
  subst h; simp [padTo]

theorem encodeFileHeader_length (h : FileHeader) : (encodeFileHeader h).length = 64 := by
  simp [encodeFileHeader, padTo_length, magic]

/-- `FileHeader.Deserialize ∘ FileHeader.Serialize = id` on valid headers -/
theorem decodeFileHeader_encode (h : FileHeader) (hv : h.Valid) :
    decodeFileHeader (encodeFileHeader h) = .ok h := by
  obtain ⟨version, flags, createdAt, modifiedAt, blockSize, entryCount, blockCount, nameLength, reserved⟩ := h
  obtain ⟨hver, hfl, hca, hma, hbs, hec, hbc, hnl, hv2, hres⟩ := hv
  simp only at hver hfl hca hma hbs hec hbc hnl hv2 hres
  have hvlt : version < 256 ^ 2 := by rcases hver with h | h <;> omega
  have u1 : unle (le 2 version) = version := unle_le_of_lt hvlt
  have u2 : unle (le 2 flags) = flags := unle_le_of_lt (by simpa using hfl)
  have u3 : unle (le 8 createdAt) = createdAt := unle_le_of_lt (by simpa using hca)
  have u4 : unle (le 8 modifiedAt) = modifiedAt := unle_le_of_lt (by simpa using hma)
  have u5 : unle (le 4 blockSize) = blockSize := unle_le_of_lt (by simpa using hbs)
  have u6 : unle (le 8 entryCount) = entryCount := unle_le_of_lt (by simpa using hec)
  have u7 : unle (le 8 blockCount) = blockCount := unle_le_of_lt (by simpa using hbc)
  have u8 : unle (le 2 nameLength) = nameLength := unle_le_of_lt (by simpa using hnl)
  have hp : padTo 14 reserved = reserved := padTo_of_length 14 reserved hres
  have hlen := encodeFileHeader_length ⟨version, flags, createdAt, modifiedAt, blockSize, entryCount, blockCount, nameLength, reserved⟩
  unfold decodeFileHeader
  rw [if_neg (by omega)]
  have hm : (encodeFileHeader ⟨version, flags, createdAt, modifiedAt, blockSize, entryCount, blockCount, nameLength, reserved⟩).take 4 = magic := by
    simp [encodeFileHeader, magic]
  have hvv : unle (((encodeFileHeader ⟨version, flags, createdAt, modifiedAt, blockSize, entryCount, blockCount, nameLength, reserved⟩).drop 4).take 2) = version := by
    simp [encodeFileHeader, magic, drop_le_nil, List.drop_append, List.take_append, u1]
  rw [hm, hvv]
  simp only [bne_self_eq_false, Bool.false_eq_true, if_false]
  have hver' : (version != 2 && version != 3) = false := by
    rcases hver with h | h <;> simp [h]
  simp only [hver', Bool.false_eq_true, if_false]
  have f2 : unle (((encodeFileHeader ⟨version, flags, createdAt, modifiedAt, blockSize, entryCount, blockCount, nameLength, reserved⟩).drop 6).take 2) = flags := by
    simp [encodeFileHeader, magic, drop_le_nil, List.drop_append, List.take_append, u2]
  have f3 : unle (((encodeFileHeader ⟨version, flags, createdAt, modifiedAt, blockSize, entryCount, blockCount, nameLength, reserved⟩).drop 8).take 8) = createdAt := by
    simp [encodeFileHeader, magic, drop_le_nil, List.drop_append, List.take_append, u3]
  have f4 : unle (((encodeFileHeader ⟨version, flags, createdAt, modifiedAt, blockSize, entryCount, blockCount, nameLength, reserved⟩).drop 16).take 8) = modifiedAt := by
    simp [encodeFileHeader, magic, drop_le_nil, List.drop_append, List.take_append, u4]
  have f5 : unle (((encodeFileHeader ⟨version, flags, createdAt, modifiedAt, blockSize, entryCount, blockCount, nameLength, reserved⟩).drop 24).take 4) = blockSize := by
    simp [encodeFileHeader, magic, drop_le_nil, List.drop_append, List.take_append, u5]
  have f6 : unle (((encodeFileHeader ⟨version, flags, createdAt, modifiedAt, blockSize, entryCount, blockCount, nameLength, reserved⟩).drop 28).take 8) = entryCount := by
    simp [encodeFileHeader, magic, drop_le_nil, List.drop_append, List.take_append, u6]
  have f7 : unle (((encodeFileHeader ⟨version, flags, createdAt, modifiedAt, blockSize, entryCount, blockCount, nameLength, reserved⟩).drop 36).take 8) = blockCount := by
    simp [encodeFileHeader, magic, drop_le_nil, List.drop_append, List.take_append, u7]
  have f8 : unle (((encodeFileHeader ⟨version, flags, createdAt, modifiedAt, blockSize, entryCount, blockCount, nameLength, reserved⟩).drop 44).take 2) = nameLength := by
    simp [encodeFileHeader, magic, drop_le_nil, List.drop_append, List.take_append, u8]
  have f9 : ((encodeFileHeader ⟨version, flags, createdAt, modifiedAt, blockSize, entryCount, blockCount, nameLength, reserved⟩).drop 46).take 14 = reserved := by
    simp [encodeFileHeader, magic, drop_le_nil, List.drop_append, List.take_append, hp, padTo_length, hres]
  rw [f2, f3, f4, f5, f6, f7, f8, f9]
  rcases hver with h | h
  · subst h; simp [hv2 rfl]
  · subst h; simp

/-! ### Rendered files -/

def renderBlocks (codec : Codec) (crc : Checksum) (blocks : List (List Entry)) : Bytes :=
  blocks.flatMap (encodeBlock codec crc)

/-- a V3 file as the writer leaves it: header, name, blocks -/
def render (codec : Codec) (crc : Checksum) (h : FileHeader) (name : Bytes) (blocks : List (List Entry)) : Bytes :=
  encodeFileHeader h ++ (name ++ renderBlocks codec crc blocks)

theorem renderBlocks_append (codec : Codec) (crc : Checksum) (a b : List (List Entry)) :
    renderBlocks codec crc (a ++ b) = renderBlocks codec crc a ++ renderBlocks codec crc b := by
  simp [renderBlocks]

theorem readBlocksP_nil (cfg : Cfg) (d : Decoder) (crc : Checksum) : readBlocksP cfg d crc [] = ([], none) := by
  rw [readBlocksP]
  split
  · rfl
  · rename_i h; simp [readNextBlock, readNextBlockCore, shorterThan] at h
  · rename_i h; simp [readNextBlock, readNextBlockCore, shorterThan] at h

theorem readBlocksP_block (cfg : Cfg) (codec : Codec) (crc : Checksum) (es : List Entry) (rest : Bytes)
    (hg : GoodBlock es) :
    readBlocksP cfg codec.toDecoder crc (encodeBlock codec crc es ++ rest)
      = (es ++ (readBlocksP cfg codec.toDecoder crc rest).1, (readBlocksP cfg codec.toDecoder crc rest).2) := by
  have hb := readNextBlock_encodeBlock cfg codec crc es rest hg
  rw [readBlocksP]
  split
  · rename_i h; rw [hb] at h; cases h
  · rename_i h; rw [hb] at h; cases h
  · rename_i es' rest' h
    rw [hb] at h
    cases h
    rfl

/-- `ReadAllEntries` over any number of well-formed blocks, followed by anything -/
theorem readBlocksP_blocks (cfg : Cfg) (codec : Codec) (crc : Checksum) (blocks : List (List Entry))
    (tail : Bytes) (hg : ∀ b ∈ blocks, GoodBlock b) :
    readBlocksP cfg codec.toDecoder crc (renderBlocks codec crc blocks ++ tail)
      = (blocks.flatten ++ (readBlocksP cfg codec.toDecoder crc tail).1,
         (readBlocksP cfg codec.toDecoder crc tail).2) := by
  induction blocks with
  | nil => simp [renderBlocks]
  | cons b bs ih =>
    have hb := hg b (by simp)
    have hbs : ∀ x ∈ bs, GoodBlock x := fun x hx => hg x (by simp [hx])
    have : renderBlocks codec crc (b :: bs) ++ tail
        = encodeBlock codec crc b ++ (renderBlocks codec crc bs ++ tail) := by
      simp [renderBlocks]
    rw [this, readBlocksP_block cfg codec crc b _ hb, ih hbs]
    simp

theorem readBlocks_blocks (cfg : Cfg) (codec : Codec) (crc : Checksum) (blocks : List (List Entry))
    (hg : ∀ b ∈ blocks, GoodBlock b) :
    readBlocks cfg codec.toDecoder crc (renderBlocks codec crc blocks) = .ok blocks.flatten := by
  have := readBlocksP_blocks cfg codec crc blocks [] hg
  rw [List.append_nil, readBlocksP_nil] at this
  simp [readBlocks, this]

/-- How a valid header relates to the name bytes that follow it: a V3 header counts them, a
    V2 (legacy) header is followed directly by the blocks. -/
def NameOk (h : FileHeader) (name : Bytes) : Prop :=
  (h.version = 3 ∧ h.nameLength = name.length) ∨ (h.version = 2 ∧ name = [])

/-- `NewFileReader` on any file that starts with a valid header and its name -/
theorem openReader_prefix (h : FileHeader) (name tail : Bytes) (hv : h.Valid) (hn : NameOk h name) :
    openReader (encodeFileHeader h ++ (name ++ tail)) = .ok ⟨h, name⟩ := by
  have hl := encodeFileHeader_length h
  unfold openReader
  rw [if_neg (by simp [hl])]
  rw [take_append_len _ _ 64 hl, decodeFileHeader_encode h hv]
  rcases hn with ⟨h3, hn⟩ | ⟨h2, hn⟩
  · simp only [h3, beq_self_eq_true, Bool.true_and]
    by_cases hz : 0 < h.nameLength
    · simp only [hz, decide_true, if_true]
      rw [if_neg (by simp [hl, hn])]
      rw [drop_append_len _ _ 64 hl, hn, take_append_len _ _ _ rfl]
    · have hz' : h.nameLength = 0 := by omega
      have hne : name = [] := by
        cases name with
        | nil => rfl
        | cons _ _ => simp at hn; omega
      simp [hz', hne]
  · subst hn
    simp [h2]

theorem drop_dataStart (h : FileHeader) (name tail : Bytes) (hn : NameOk h name) :
    (encodeFileHeader h ++ (name ++ tail)).drop h.dataStart = tail := by
  have hds : h.dataStart = 64 + name.length := by
    rcases hn with ⟨h3, hn⟩ | ⟨h2, hn⟩
    · simp [FileHeader.dataStart, h3, hn]
    · subst hn; simp [FileHeader.dataStart, h2]
  rw [hds, ← List.append_assoc]
  exact drop_append_len _ _ _ (by simp [encodeFileHeader_length])

/-- `NewFileReader` on a rendered file -/
theorem openReader_render (codec : Codec) (crc : Checksum) (h : FileHeader) (name : Bytes)
    (blocks : List (List Entry)) (hv : h.Valid) (hn : NameOk h name) :
    openReader (render codec crc h name blocks) = .ok ⟨h, name⟩ :=
  openReader_prefix h name _ hv hn

/-- `ReadAllEntries` of a rendered file returns the written entries. -/
theorem readAll_render (cfg : Cfg) (codec : Codec) (crc : Checksum) (h : FileHeader) (name : Bytes)
    (blocks : List (List Entry)) (hv : h.Valid) (hn : NameOk h name)
    (hg : ∀ b ∈ blocks, GoodBlock b) :
    readAll cfg codec.toDecoder crc (render codec crc h name blocks) = .ok blocks.flatten := by
  unfold readAll
  rw [openReader_render codec crc h name blocks hv hn]
  simp only
  have : (render codec crc h name blocks).drop h.dataStart = renderBlocks codec crc blocks :=
    drop_dataStart h name _ hn
  rw [this, readBlocks_blocks cfg codec crc blocks hg]

/-- `LoadIndex` of a rendered file is the replay of the written entries, and reports the name. -/
theorem loadIndex_render (cfg : Cfg) (codec : Codec) (crc : Checksum) (h : FileHeader) (name : Bytes)
    (blocks : List (List Entry)) (hv : h.Valid) (hn : NameOk h name)
    (hg : ∀ b ∈ blocks, GoodBlock b) :
    loadIndex cfg codec.toDecoder crc (render codec crc h name blocks)
      = .ok (replay cfg blocks.flatten, if name.isEmpty then metaName blocks.flatten else name) := by
  have hra := readAll_render cfg codec crc h name blocks hv hn hg
  unfold readAll at hra
  unfold loadIndex
  rw [openReader_render codec crc h name blocks hv hn] at hra ⊢
  simp only at hra ⊢
  rw [hra]

theorem readBlocksP_err (cfg : Cfg) (d : Decoder) (crc : Checksum) (rest : Bytes) (e : Err)
    (h : readNextBlock cfg d crc rest = .err e) : readBlocksP cfg d crc rest = ([], some e) := by
  rw [readBlocksP]
  split
  · rename_i h'; rw [h] at h'; cases h'
  · rename_i h'; rw [h] at h'; cases h'; rfl
  · rename_i h'; rw [h] at h'; cases h'

/-- One entry whose key-length field is zero on disk poisons the whole file, wherever its block
    sits: `LoadIndex` reports `ErrEmptyKey` and returns nothing. -/
theorem loadIndex_poisoned (cfg : Cfg) (codec : Codec) (crc : Checksum) (h : FileHeader) (name : Bytes)
    (before : List (List Entry)) (bad : List Entry) (tail : Bytes)
    (hv : h.Valid) (hn : NameOk h name)
    (hg : ∀ b ∈ before, GoodBlock b)
    (hbad : readNextBlock cfg codec.toDecoder crc (encodeBlock codec crc bad ++ tail) = .err .emptyKey) :
    loadIndex cfg codec.toDecoder crc
      (encodeFileHeader h ++ (name ++ (renderBlocks codec crc before ++ (encodeBlock codec crc bad ++ tail))))
      = .error .emptyKey := by
  unfold loadIndex
  rw [openReader_prefix h name _ hv hn]
  simp only
  rw [drop_dataStart h name _ hn]
  unfold readBlocks
  rw [readBlocksP_blocks cfg codec crc before _ hg, readBlocksP_err _ _ _ _ _ hbad]

end Hv.Storage
