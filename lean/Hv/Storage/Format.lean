/-
  Byte-level format of a `.hyd` file (app/core/hydra/swamp/chronicler/v2/types.go, block.go).

  Mirrors the code including its quirks: every length/count field is written with a silently
  truncating conversion (`uint16(keyLen)`, `uint32(dataLen)`, `uint16(len(entries))`,
  `uint16(len(name))`); `Entry.Deserialize` rejects an empty key; `FileHeader.Deserialize`
  forces `NameLength = 0` for version 2.

  Compression is a parameter: a `Decoder` (what the reader needs) and a lawful `Codec`
  (what the writer needs, with `dec (enc x) = some x` as a field).  The checksum is an
  arbitrary function.  Every theorem quantifies over them.
-/
import Hv.Storage.Bytes

namespace Hv.Storage

/-- Code facts (tie 1) that parametrise the storage model. -/
structure Cfg where
  /-- `WriteEntry` returns an error for an empty key before `buffer.Add` -/
  rejectsEmptyKey : Bool
  /-- `WriteEntry` returns an error for a key longer than 65535 bytes before `buffer.Add` -/
  rejectsLongKey : Bool
  /-- `WriteBuffer.Add` compares `currentSize >= maxSize` (true) or `>` (false) -/
  flushGe : Bool
  /-- `WriteBuffer.Add` also asks for a flush when 65535 entries are buffered -/
  flushAtCount : Bool
  /-- `LoadIndex` has the `OpDelete → delete(index, key)` case -/
  deleteRemoves : Bool
  /-- `ParseBlock` validates the CRC of the compressed bytes -/
  validatesCrc : Bool
  /-- `ParseBlock` compares the decoded length with `UncompressedSize` -/
  validatesULen : Bool
  /-- `readNextBlock` compares `CompressedSize` with the remaining file size before `make` -/
  boundsCompressedSize : Bool
  /-- a block whose payload is cut short (fewer bytes left than `CompressedSize`) ends the data
      like a short header does (`io.EOF`), instead of failing the load (`io.ErrUnexpectedEOF`);
      read from both sites: the size pre-check and the `io.ReadFull` error mapping -/
  shortPayloadIsEOF : Bool
  /-- `readNextBlock` takes a block header whose `CompressedSize` field is 0 for the end of the
      data (`io.EOF`): what a power loss leaves when the file size reached the disk but the data
      did not; a real block is never empty -/
  zeroSizeIsEOF : Bool
  /-- `readNextBlock` takes a block that does not parse (`ParseBlock` error), whose payload ends in
      a zero byte and behind which only zero bytes follow up to the end of the file, for the end
      of the data (`zeroFilledTail`) -/
  zeroTailIsEOF : Bool
  /-- `ParseBlock` bounds the decoder's declared output length before decompressing -/
  boundsDecodedLen : Bool
  /-- `ParseBlock` requires the counted entries to consume the whole decoded payload (so the
      16-bit `EntryCount`, which no checksum covers, cannot be changed unnoticed) -/
  parseConsumesAll : Bool
  /-- every key-creating RPC of the gateway refuses empty / > 65535-byte keys (`isValidKey`) -/
  apiValidatesKeys : Bool
  /-- the gateway's `isValidSwampName` refuses names longer than 65535 bytes -/
  apiBoundsNameLength : Bool
  /-- the explorer TUI fetches a realm's swamps completely (pages through `ListSwamps`, whose limit is
      clamped to 1000, or uses `ListAllSwamps`) instead of taking one clamped page -/
  tuiListsAll : Bool
  /-- `openExistingFile` walks the block headers and truncates the file behind the last block that
      is entirely there (a torn tail would hide every block appended after it) -/
  openCutsTornTail : Bool
  /-- the torn-tail walk of `openExistingFile` also stops at a block header whose size field is 0
      (the zero-filled tail the reader takes for the end of the data) -/
  openStopsAtZeroSize : Bool
  /-- `chroniclerV2.Write` tells its caller when `WriteEntry` refused an entry (it has a result that
      carries the refusal); `false`: the refusal is only logged and the entry silently dropped -/
  chronSurfacesError : Bool
  /-- `ReadSwampName` falls back to `LoadIndex` (metadata entry) for non-V3 files -/
  v2Fallback : Bool
  /-- `createNewFile` refuses a swamp name longer than 65535 bytes -/
  rejectsLongName : Bool
  deriving DecidableEq, Repr

/-- every check and guard present (the repaired code) -/
def goodCfg : Cfg :=
  { rejectsEmptyKey := true, rejectsLongKey := true, flushGe := true, flushAtCount := true,
    deleteRemoves := true, validatesCrc := true, validatesULen := true, boundsCompressedSize := true,
    boundsDecodedLen := true, parseConsumesAll := true, shortPayloadIsEOF := true, zeroSizeIsEOF := true, zeroTailIsEOF := true, openStopsAtZeroSize := true, chronSurfacesError := true, apiValidatesKeys := true, apiBoundsNameLength := true, tuiListsAll := true, openCutsTornTail := true, v2Fallback := true, rejectsLongName := true }

/-- canonical error classes of the reader -/
inductive Err where
  | magic | version | short | ueof | crc | snappy | entry | emptyKey
  deriving DecidableEq, Repr

def Err.name : Err → String
  | .magic => "magic" | .version => "version" | .short => "short" | .ueof => "ueof"
  | .crc => "crc" | .snappy => "snappy" | .entry => "entry" | .emptyKey => "emptykey"

/-! ### Compression and checksum parameters -/

structure Decoder where
  dec : Bytes → Option Bytes
  /-- the output size the decoder allocates up front for this input (snappy: the varint prefix) -/
  declLen : Bytes → Nat

structure Codec extends Decoder where
  enc : Bytes → Bytes
  law : ∀ x, dec (enc x) = some x
  /-- snappy's documented `MaxEncodedLen` -/
  grow : ∀ x, (enc x).length ≤ 32 + x.length + x.length / 6
  /-- what the encoder emits declares a length a decoder can plausibly reach (snappy expands at
      most 64 bytes per 3 input bytes) -/
  declOk : ∀ x, declLen (enc x) ≤ 32 * (enc x).length + 64
  /-- something is never encoded to nothing (snappy's output starts with the uvarint of the
      length): a written block never has the size field 0 the reader takes for the end -/
  nonempty : ∀ x, x ≠ [] → enc x ≠ []

abbrev Checksum := Bytes → UInt32

/-- the identity codec is lawful (used by closed witnesses and non-vacuity examples) -/
def idCodec : Codec where
  dec := fun x => some x
  declLen := fun x => x.length
  enc := fun x => x
  law := fun _ => rfl
  grow := fun x => by omega
  declOk := fun x => by omega
  nonempty := fun _ h => h

def crc0 : Checksum := fun _ => 0

/-! ### Entry -/

def opInsert : UInt8 := 1
def opUpdate : UInt8 := 2
def opDelete : UInt8 := 3
def opMetadata : UInt8 := 4

structure Entry where
  op : UInt8
  key : Bytes
  data : Bytes
  deriving DecidableEq, Repr

/-- `Entry.Size` -/
def Entry.size (e : Entry) : Nat := 7 + e.key.length + e.data.length

/-- `Entry.Serialize` -/
def encodeEntry (e : Entry) : Bytes :=
  e.op :: (le 2 e.key.length ++ (e.key ++ (le 4 e.data.length ++ e.data)))

def encodeEntries (es : List Entry) : Bytes := es.flatMap encodeEntry

/-- `Entry.Deserialize`: the entry and the number of bytes consumed. -/
def decodeEntry (buf : Bytes) : Except Err (Entry × Nat) :=
  if shorterThan buf 7 then .error .entry else
  match buf with
  | [] => .error .entry
  | op :: t =>
    let keyLen := unle (t.take 2)
    if shorterThan buf (3 + keyLen + 4) then .error .entry else
    let key := (t.drop 2).take keyLen
    if key.isEmpty then .error .emptyKey else
    let t2 := (t.drop 2).drop keyLen
    let dataLen := unle (t2.take 4)
    if shorterThan buf (7 + keyLen + dataLen) then .error .entry else
    .ok (⟨op, key, (t2.drop 4).take dataLen⟩, 7 + keyLen + dataLen)

/-- The entries the engine can encode faithfully. -/
def Encodable (e : Entry) : Prop :=
  0 < e.key.length ∧ e.key.length < 2 ^ 16 ∧ e.data.length < 2 ^ 32

instance (e : Entry) : Decidable (Encodable e) := by unfold Encodable; infer_instance

/-- total serialized size -/
def sizeSum (es : List Entry) : Nat := (es.map Entry.size).sum

/-- the loop of `ParseBlock`: `n` entries from `buf`; trailing bytes are ignored -/
def parseEntries : Nat → Bytes → Except Err (List Entry)
  | 0, _ => .ok []
  | n + 1, buf =>
    match decodeEntry buf with
    | .error e => .error e
    | .ok (e, used) =>
      match parseEntries n (buf.drop used) with
      | .error e' => .error e'
      | .ok es => .ok (e :: es)

/-! ### Block header (16 bytes) -/

structure BlockHeader where
  csize : Nat
  usize : Nat
  count : Nat
  crc : Nat
  flags : Nat
  deriving DecidableEq, Repr

def encodeBlockHeader (h : BlockHeader) : Bytes :=
  le 4 h.csize ++ (le 4 h.usize ++ (le 2 h.count ++ (le 4 h.crc ++ le 2 h.flags)))

/-- `BlockHeader.Deserialize` on a buffer of at least 16 bytes -/
def decodeBlockHeader (b : Bytes) : BlockHeader :=
  { csize := unle (b.take 4)
    usize := unle ((b.drop 4).take 4)
    count := unle ((b.drop 8).take 2)
    crc := unle ((b.drop 10).take 4)
    flags := unle ((b.drop 14).take 2) }

/-- `WriteBuffer.Flush`: header ++ compressed data, in the order `flushLocked` writes them -/
def encodeBlock (codec : Codec) (crc : Checksum) (es : List Entry) : Bytes :=
  let u := encodeEntries es
  let c := codec.enc u
  encodeBlockHeader ⟨c.length, u.length, es.length, (crc c).toNat, 0⟩ ++ c

/-! ### File header (64 bytes) -/

structure FileHeader where
  version : Nat
  flags : Nat
  createdAt : Nat
  modifiedAt : Nat
  blockSize : Nat
  entryCount : Nat
  blockCount : Nat
  nameLength : Nat
  reserved : Bytes
  deriving DecidableEq, Repr

def magic : Bytes := [0x48, 0x59, 0x44, 0x52]

/-- exactly `n` bytes of `b`, zero padded (`copy` into a fixed array) -/
def padTo (n : Nat) (b : Bytes) : Bytes := (b ++ List.replicate n 0).take n

/-- `FileHeader.Serialize` -/
def encodeFileHeader (h : FileHeader) : Bytes :=
  magic ++ (le 2 h.version ++ (le 2 h.flags ++ (le 8 h.createdAt ++ (le 8 h.modifiedAt ++
    (le 4 h.blockSize ++ (le 8 h.entryCount ++ (le 8 h.blockCount ++ (le 2 h.nameLength ++
      (padTo 14 h.reserved ++ List.replicate 4 0)))))))))

/-- `FileHeader.Deserialize` -/
def decodeFileHeader (b : Bytes) : Except Err FileHeader :=
  if b.length < 64 then .error .short else
  if b.take 4 != magic then .error .magic else
  let version := unle ((b.drop 4).take 2)
  if version != 2 && version != 3 then .error .version else
  .ok { version := version
        flags := unle ((b.drop 6).take 2)
        createdAt := unle ((b.drop 8).take 8)
        modifiedAt := unle ((b.drop 16).take 8)
        blockSize := unle ((b.drop 24).take 4)
        entryCount := unle ((b.drop 28).take 8)
        blockCount := unle ((b.drop 36).take 8)
        nameLength := if version == 3 then unle ((b.drop 44).take 2) else 0
        reserved := (b.drop 46).take 14 }

/-- `DataStartOffset` -/
def FileHeader.dataStart (h : FileHeader) : Nat :=
  if h.version == 3 then 64 + h.nameLength else 64

/-- header values that survive a write/read cycle unchanged -/
structure FileHeader.Valid (h : FileHeader) : Prop where
  version : h.version = 2 ∨ h.version = 3
  flags : h.flags < 2 ^ 16
  createdAt : h.createdAt < 2 ^ 64
  modifiedAt : h.modifiedAt < 2 ^ 64
  blockSize : h.blockSize < 2 ^ 32
  entryCount : h.entryCount < 2 ^ 64
  blockCount : h.blockCount < 2 ^ 64
  nameLength : h.nameLength < 2 ^ 16
  v2name : h.version = 2 → h.nameLength = 0
  reserved : h.reserved.length = 14

end Hv.Storage
