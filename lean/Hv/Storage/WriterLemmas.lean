/-
  The writer invariant (`writer_sessions`): after any history, across any flush / sync / close /
  reopen boundaries, the file on disk is `render hdr name blocks` for a list of well-formed
  blocks with  `blocks.flatten ++ (entries still buffered) = (writes the API acknowledged)`.
-/
import Hv.Storage.Writer
import Hv.Storage.ReaderLemmas

namespace Hv.Storage

/-- what a single write must satisfy for the format to carry it (payload bound: a Go slice the
    API can actually deliver; DESIGN §8 C01 "payloads 0…MBs") -/
def EntryOK (e : Entry) : Prop := Encodable e ∧ e.data.length ≤ 2 ^ 30

/-- the block-size configurations covered -/
structure Params (cfg : Cfg) (bs : Nat) : Prop where
  maxLe : maxSizeOf bs ≤ 2 ^ 30
  /-- the 16-bit per-block entry count cannot wrap: either the buffer flushes at 65535 entries,
      or the block size is small enough (each entry takes ≥ 8 bytes) -/
  count : cfg.flushAtCount = true ∨ maxSizeOf bs ≤ 524272

theorem sizeSum_append (a b : List Entry) : sizeSum (a ++ b) = sizeSum a + sizeSum b := by
  simp [sizeSum]

theorem sizeSum_ge (es : List Entry) (h : ∀ e ∈ es, EntryOK e) : 8 * es.length ≤ sizeSum es := by
  induction es with
  | nil => simp [sizeSum]
  | cons e es ih =>
    have he := (h e (by simp)).1.1
    have := ih (fun x hx => h x (by simp [hx]))
    simp only [sizeSum, List.map_cons, List.sum_cons, List.length_cons] at this ⊢
    simp only [Entry.size]
    omega

/-- the buffer is below both flush thresholds -/
structure BufBound (cfg : Cfg) (bs : Nat) (es : List Entry) : Prop where
  size : sizeSum es ≤ maxSizeOf bs
  count : cfg.flushAtCount = true → es.length < 65535

theorem bufBound_nil (cfg : Cfg) (bs : Nat) : BufBound cfg bs [] :=
  ⟨by simp [sizeSum], fun _ => by simp⟩

theorem bufBound_of_noFlush (cfg : Cfg) (bs : Nat) (es : List Entry)
    (h : shouldFlush cfg bs (sizeSum es) es.length = false) : BufBound cfg bs es := by
  simp only [shouldFlush, Bool.or_eq_false_iff, Bool.and_eq_false_iff] at h
  obtain ⟨h1, h2⟩ := h
  refine ⟨?_, ?_⟩
  · by_cases hg : cfg.flushGe = true
    · simp [hg] at h1; omega
    · simp [hg] at h1; omega
  · intro hc
    rcases h2 with h2 | h2
    · simp [hc] at h2
    · simp at h2; omega

theorem goodBlock_of_bound (cfg : Cfg) (bs : Nat) (hP : Params cfg bs) (es : List Entry)
    (hb : BufBound cfg bs es) (he : ∀ e ∈ es, EntryOK e) (hne : es ≠ []) : GoodBlock es := by
  refine ⟨fun e h => (he e h).1, ?_, ?_, hne⟩
  · rcases hP.count with hc | hc
    · have := hb.count hc; omega
    · have := sizeSum_ge es he; have := hb.size; omega
  · have := hb.size; have := hP.maxLe; omega

theorem goodBlock_cons (cfg : Cfg) (bs : Nat) (hP : Params cfg bs) (es : List Entry) (e : Entry)
    (hb : BufBound cfg bs es) (he : ∀ x ∈ es, EntryOK x) (hx : EntryOK e) : GoodBlock (e :: es) := by
  have hall : ∀ x ∈ e :: es, EntryOK x := by
    intro x hm
    rcases List.mem_cons.mp hm with h | h
    · subst h; exact hx
    · exact he x h
  refine ⟨fun x h => (hall x h).1, ?_, ?_, by simp⟩
  · simp only [List.length_cons]
    rcases hP.count with hc | hc
    · have := hb.count hc; omega
    · have := sizeSum_ge es he; have := hb.size; omega
  · have := hb.size; have := hP.maxLe
    have h1 := hx.2
    have h2 := hx.1.2.1
    have hs : sizeSum (e :: es) = (7 + e.key.length + e.data.length) + sizeSum es := by simp [sizeSum, Entry.size]
    rw [hs]
    omega

theorem sizeSum_reverse (es : List Entry) : sizeSum es.reverse = sizeSum es := by
  induction es with
  | nil => rfl
  | cons e es ih =>
    rw [List.reverse_cons, sizeSum_append, ih]
    simp [sizeSum]; omega

theorem goodBlock_reverse (es : List Entry) (h : GoodBlock es) : GoodBlock es.reverse :=
  ⟨fun e he => h.enc e (List.mem_reverse.mp he), by simpa using h.count, by rw [sizeSum_reverse]; exact h.size,
    by simpa using h.ne⟩

/-- the open session's own state -/
structure SessOK (cfg : Cfg) (bs : Nat) (name : Bytes) (s : Sess) : Prop where
  hv : s.hdr.Valid
  nm : NameOk s.hdr name
  bc : s.blockCount < 2 ^ 64
  ec : s.entryCount < 2 ^ 64
  enc : ∀ e ∈ s.bufRev, EntryOK e
  size : s.bufSize = sizeSum s.bufRev
  cnt : s.bufCount = s.bufRev.length
  below : BufBound cfg bs s.bufRev

/-- the on-disk shape -/
structure FileOK (codec : Codec) (crc : Checksum) (name : Bytes) (file : Bytes)
    (blocks : List (List Entry)) : Prop where
  shape : ∃ hdr : FileHeader, file = render codec crc hdr name blocks ∧ hdr.Valid ∧ NameOk hdr name
  good : ∀ b ∈ blocks, GoodBlock b

theorem rewriteHeader_render (codec : Codec) (crc : Checksum) (h h' : FileHeader) (name : Bytes)
    (blocks : List (List Entry)) :
    rewriteHeader (render codec crc h name blocks) h' = render codec crc h' name blocks := by
  unfold rewriteHeader render
  rw [drop_append_len _ _ 64 (encodeFileHeader_length h)]

theorem render_append_block (codec : Codec) (crc : Checksum) (h : FileHeader) (name : Bytes)
    (blocks : List (List Entry)) (b : List Entry) :
    render codec crc h name blocks ++ encodeBlock codec crc b = render codec crc h name (blocks ++ [b]) := by
  simp [render, renderBlocks]

theorem nameOk_setCounts (h : FileHeader) (name : Bytes) (hn : NameOk h name) (bc ec : Nat) :
    NameOk ({ h with blockCount := bc, entryCount := ec } : FileHeader) name := hn

theorem valid_setCounts (h : FileHeader) (hv : h.Valid) (bc ec : Nat) (hbc : bc < 2 ^ 64) (hec : ec < 2 ^ 64) :
    ({ h with blockCount := bc, entryCount := ec } : FileHeader).Valid :=
  ⟨hv.version, hv.flags, hv.createdAt, hv.modifiedAt, hv.blockSize, hec, hbc, hv.nameLength, hv.v2name, hv.reserved⟩

/-- `flushLocked` appends exactly one block holding the buffered entries (or does nothing). -/
theorem flushSess_ok (cfg : Cfg) (codec : Codec) (crc : Checksum) (bs : Nat) (hP : Params cfg bs)
    (name file : Bytes) (blocks : List (List Entry)) (s : Sess)
    (hF : FileOK codec crc name file blocks) (hS : SessOK cfg bs name s) :
    ∃ blocks', FileOK codec crc name (flushSess codec crc file s).1 blocks' ∧
      SessOK cfg bs name (flushSess codec crc file s).2 ∧
      (flushSess codec crc file s).2.bufRev = [] ∧
      blocks'.flatten = blocks.flatten ++ s.bufRev.reverse := by
  unfold flushSess
  cases hbuf : s.bufRev with
  | nil =>
    simp only [List.isEmpty_nil, if_true]
    refine ⟨blocks, hF, hS, ?_, ?_⟩ <;> simp [hbuf]
  | cons e t =>
    simp only [List.isEmpty_cons, Bool.false_eq_true, if_false]
    obtain ⟨⟨hdr, hfile, _, _⟩, hgood⟩ := hF
    have hgb : GoodBlock (e :: t).reverse := by
      rw [← hbuf]; exact goodBlock_reverse _ (goodBlock_of_bound cfg bs hP s.bufRev hS.below hS.enc (by rw [hbuf]; simp))
    have hbc : (s.blockCount + 1) % 2 ^ 64 < 2 ^ 64 := Nat.mod_lt _ (by decide)
    have hec : (s.entryCount + (e :: t).length % 2 ^ 16) % 2 ^ 64 < 2 ^ 64 := Nat.mod_lt _ (by decide)
    refine ⟨blocks ++ [(e :: t).reverse], ⟨⟨_, ?_, valid_setCounts s.hdr hS.hv _ _ hbc hec, hS.nm⟩, ?_⟩, ?_, by simp, by simp⟩
    · rw [hfile, render_append_block, rewriteHeader_render]
    · intro b hb
      rcases List.mem_append.mp hb with h | h
      · exact hgood b h
      · simp only [List.mem_singleton] at h; subst h; exact hgb
    · exact ⟨valid_setCounts s.hdr hS.hv _ _ hbc hec, hS.nm, hbc, hec, by simp, by simp [sizeSum], by simp,
        bufBound_nil cfg bs⟩

/-- the extra header rewrite of `Sync`/`Close` changes nothing but the header -/
theorem finishSess_ok (cfg : Cfg) (codec : Codec) (crc : Checksum) (bs : Nat) (hP : Params cfg bs)
    (name file : Bytes) (blocks : List (List Entry)) (s : Sess)
    (hF : FileOK codec crc name file blocks) (hS : SessOK cfg bs name s) :
    ∃ blocks', FileOK codec crc name (finishSess codec crc file s).1 blocks' ∧
      SessOK cfg bs name (finishSess codec crc file s).2 ∧
      (finishSess codec crc file s).2.bufRev = [] ∧
      blocks'.flatten = blocks.flatten ++ s.bufRev.reverse := by
  obtain ⟨blocks', hF', hS', hb', hfl⟩ := flushSess_ok cfg codec crc bs hP name file blocks s hF hS
  unfold finishSess
  generalize flushSess codec crc file s = r at hF' hS' hb'
  obtain ⟨f1, s1⟩ := r
  simp only at hF' hS' hb' ⊢
  obtain ⟨⟨hdr, hfile, _, _⟩, hgood⟩ := hF'
  have hv' := valid_setCounts s1.hdr hS'.hv s1.blockCount s1.entryCount hS'.bc hS'.ec
  refine ⟨blocks', ⟨⟨_, ?_, hv', hS'.nm⟩, hgood⟩, ?_, hb', hfl⟩
  · rw [hfile, rewriteHeader_render]
  · exact ⟨hv', hS'.nm, hS'.bc, hS'.ec, hS'.enc, hS'.size, hS'.cnt, hS'.below⟩

/-- the first four bytes of a written block are its compressed size -/
theorem csize_of_encodeBlock (codec : Codec) (crc : Checksum) (b : List Entry) (rest : Bytes) (hg : GoodBlock b) :
    unle ((encodeBlock codec crc b ++ rest).take 4) = (codec.enc (encodeEntries b)).length ∧
    (encodeBlock codec crc b).length = 16 + (codec.enc (encodeEntries b)).length := by
  have hu : (encodeEntries b).length < 2 ^ 31 + 2 ^ 17 := by rw [encodeEntries_length]; exact hg.size
  have hc : (codec.enc (encodeEntries b)).length < 2 ^ 32 := enc_length_lt codec _ hu
  constructor
  · have : (encodeBlock codec crc b ++ rest).take 4 = le 4 (codec.enc (encodeEntries b)).length := by
      simp only [encodeBlock, encodeBlockHeader, List.append_assoc]
      exact take_append_len _ _ 4 (by simp)
    rw [this]
    exact unle_le_of_lt (by simpa using hc)
  · simp [encodeBlock, encodeBlockHeader_length]

/-- on a block area the writer produced, the torn-tail walk reaches the end: nothing is cut -/
theorem walkEnd_renderBlocks (codec : Codec) (crc : Checksum) (blocks : List (List Entry))
    (hg : ∀ b ∈ blocks, GoodBlock b) :
    ∀ (z : Bool) fuel, blocks.length < fuel →
      walkEnd z fuel (renderBlocks codec crc blocks) = (renderBlocks codec crc blocks).length := by
  induction blocks with
  | nil => intro z fuel hf; cases fuel with
    | zero => omega
    | succ f => simp [renderBlocks, walkEnd, shorterThan]
  | cons b bs ih =>
    intro z fuel hf
    cases fuel with
    | zero => omega
    | succ f =>
      have hb := hg b (by simp)
      have hbs : ∀ x ∈ bs, GoodBlock x := fun x hx => hg x (by simp [hx])
      have hr : renderBlocks codec crc (b :: bs) = encodeBlock codec crc b ++ renderBlocks codec crc bs := by
        simp [renderBlocks]
      obtain ⟨hcs, hlen⟩ := csize_of_encodeBlock codec crc b (renderBlocks codec crc bs) hb
      rw [hr]
      simp only [walkEnd, shorterThan_eq, decide_eq_true_eq, hcs]
      rw [if_neg (by simp [hlen]; omega)]
      rw [if_neg (by simp [List.length_drop, hlen]; omega)]
      have hne0 : (codec.enc (encodeEntries b)).length ≠ 0 := by
        have := csize_encodeBlock_ne_zero codec crc b [] hb.size hb.ne
        rwa [csize_encodeBlock codec crc b [] hb.size] at this
      rw [if_neg (by simp [hne0])]
      rw [← hlen, drop_append_len _ _ _ rfl, ih hbs z f (by simp at hf; omega)]
      simp

theorem renderBlocks_length_ge (codec : Codec) (crc : Checksum) (blocks : List (List Entry)) :
    16 * blocks.length ≤ (renderBlocks codec crc blocks).length := by
  induction blocks with
  | nil => simp [renderBlocks]
  | cons b bs ih =>
    have : renderBlocks codec crc (b :: bs) = encodeBlock codec crc b ++ renderBlocks codec crc bs := by simp [renderBlocks]
    rw [this]
    simp only [List.length_append, List.length_cons, encodeBlock, encodeBlockHeader_length]
    omega

/-- `openExistingFile` on a file the writer left behind: the session starts from the header, and
    the torn-tail cut (if the code has it) leaves the file exactly as it is -/
theorem openExisting_ok (cfg : Cfg) (codec : Codec) (crc : Checksum) (bs : Nat) (name file : Bytes)
    (blocks : List (List Entry)) (hF : FileOK codec crc name file blocks) :
    ∃ s, openExisting cfg file = some (file, s) ∧ SessOK cfg bs name s ∧ s.bufRev = [] := by
  obtain ⟨⟨hdr, hfile, hv, hn⟩, hgood⟩ := hF
  have hl := encodeFileHeader_length hdr
  refine ⟨⟨hdr, [], 0, 0, hdr.blockCount, hdr.entryCount⟩, ?_, ?_, rfl⟩
  · have hdrop : file.drop hdr.dataStart = renderBlocks codec crc blocks := by
      rw [hfile]; exact drop_dataStart hdr name _ hn
    have hds : hdr.dataStart + (renderBlocks codec crc blocks).length = file.length := by
      have := congrArg List.length hdrop
      simp only [List.length_drop] at this
      have hle : hdr.dataStart ≤ file.length := by
        rw [hfile]
        rcases hn with ⟨h3, hnl⟩ | ⟨h2, hnl⟩
        · simp [FileHeader.dataStart, h3, hnl, render, hl]
        · subst hnl; simp [FileHeader.dataStart, h2, render, hl]
      omega
    unfold openExisting
    rw [if_neg (by rw [hfile]; simp [render, hl])]
    have hd : decodeFileHeader (file.take 64) = .ok hdr := by
      rw [hfile]; unfold render; rw [take_append_len _ _ 64 hl, decodeFileHeader_encode hdr hv]
    rw [hd]
    simp only
    rw [if_neg (by omega)]
    have hw := walkEnd_renderBlocks codec crc blocks hgood cfg.openStopsAtZeroSize (file.length / 16 + 1) (by
      have := renderBlocks_length_ge codec crc blocks
      have : 16 * blocks.length ≤ file.length := by omega
      omega)
    rw [hdrop, hw, hds, List.take_of_length_le (Nat.le_refl _)]
    simp
  · exact ⟨hv, hn, hv.blockCount, hv.entryCount, by simp, by simp [sizeSum], by simp, bufBound_nil cfg bs⟩

/-- The invariant that ties the disk, the buffer and the acknowledged writes together. -/
structure Inv (cfg : Cfg) (codec : Codec) (crc : Checksum) (bs : Nat) (name : Bytes)
    (st : St) (acc : List Entry) (isOpen : Bool) : Prop where
  disk : ∃ blocks, FileOK codec crc name st.file blocks ∧ blocks.flatten ++ st.pending = acc
  sess : ∀ s, st.sess = some s → SessOK cfg bs name s
  opened : st.sess.isSome = isOpen

theorem step_inv (cfg : Cfg) (codec : Codec) (crc : Checksum) (bs : Nat) (hP : Params cfg bs)
    (name : Bytes) (st : St) (acc : List Entry) (isOpen : Bool) (op : Op)
    (hI : Inv cfg codec crc bs name st acc isOpen)
    (hop : ∀ e, op = .write e → accepts cfg e = true → EntryOK e) :
    Inv cfg codec crc bs name (step cfg codec crc bs st op).1 (acc ++ acceptedBy cfg isOpen op)
      (openAfter isOpen op) := by
  obtain ⟨⟨blocks, hF, hacc⟩, hsess, hopen⟩ := hI
  obtain ⟨file, sess⟩ := st
  cases sess with
  | none =>
    -- no writer is open: only `reopen` changes anything
    simp only [Option.isSome_none] at hopen
    subst hopen
    simp only [St.pending, List.append_nil] at hacc
    cases op with
    | write e => exact ⟨⟨blocks, hF, by simp [step, St.pending, acceptedBy, hacc]⟩, by simp [step], by simp [step, openAfter]⟩
    | flush => exact ⟨⟨blocks, hF, by simp [step, St.pending, acceptedBy, hacc]⟩, by simp [step], by simp [step, openAfter]⟩
    | sync => exact ⟨⟨blocks, hF, by simp [step, St.pending, acceptedBy, hacc]⟩, by simp [step], by simp [step, openAfter]⟩
    | close => exact ⟨⟨blocks, hF, by simp [step, St.pending, acceptedBy, hacc]⟩, by simp [step], by simp [step, openAfter]⟩
    | reopen =>
      obtain ⟨s, hs, hSok, hb⟩ := openExisting_ok cfg codec crc bs name file blocks hF
      simp only [step, hs]
      refine ⟨⟨blocks, hF, by simp [St.pending, hb, acceptedBy, hacc]⟩, ?_, by simp [openAfter]⟩
      intro s' h'; simp at h'; subst h'; exact hSok
  | some s =>
    simp only [Option.isSome_some] at hopen
    subst hopen
    have hS := hsess s rfl
    simp only [St.pending] at hacc
    cases op with
    | write e =>
      simp only [step, acceptedBy, accepts]
      by_cases h1 : (cfg.rejectsEmptyKey && e.key.isEmpty) = true
      · simp only [h1, if_true, Bool.not_true, Bool.false_and, Bool.false_eq_true, if_false, List.append_nil]
        exact ⟨⟨blocks, hF, hacc⟩, hsess, rfl⟩
      · by_cases h2 : (cfg.rejectsLongKey && decide (65535 < e.key.length)) = true
        · simp only [h1, h2, if_true, if_false, Bool.not_true, Bool.and_false, Bool.false_eq_true, List.append_nil]
          exact ⟨⟨blocks, hF, hacc⟩, hsess, rfl⟩
        · have hacc' : accepts cfg e = true := by
            simp only [accepts]
            simp only [Bool.not_eq_true] at h1 h2
            simp [h1, h2]
          have hok := hop e rfl hacc'
          simp only [Bool.not_eq_true] at h1 h2
          simp only [h1, h2, Bool.false_eq_true, if_false, Bool.not_false, Bool.and_self, if_true]
          -- the session after `buffer.Add`
          have hS1pre : ∀ x ∈ e :: s.bufRev, EntryOK x := by
            intro x hm
            rcases List.mem_cons.mp hm with h | h
            · subst h; exact hok
            · exact hS.enc x h
          have hsz : s.bufSize + e.size = sizeSum (e :: s.bufRev) := by
            rw [hS.size]; simp [sizeSum]; omega
          have hcnt : s.bufCount + 1 = (e :: s.bufRev).length := by simp [hS.cnt]
          by_cases hfl : shouldFlush cfg bs (s.bufSize + e.size) (s.bufCount + 1) = true
          · simp only [hfl, if_true]
            -- flush of the extended buffer: one new block
            have hgb : GoodBlock (e :: s.bufRev).reverse :=
              goodBlock_reverse _ (goodBlock_cons cfg bs hP s.bufRev e hS.below hS.enc hok)
            obtain ⟨⟨hdr, hfile, _, _⟩, hgood⟩ := hF
            simp only at hfile
            have hbc : (s.blockCount + 1) % 2 ^ 64 < 2 ^ 64 := Nat.mod_lt _ (by decide)
            have hec : (s.entryCount + (e :: s.bufRev).length % 2 ^ 16) % 2 ^ 64 < 2 ^ 64 := Nat.mod_lt _ (by decide)
            have hne : (e :: s.bufRev).isEmpty = false := by simp
            simp only [flushSess, hne, Bool.false_eq_true, if_false]
            refine ⟨⟨blocks ++ [(e :: s.bufRev).reverse], ⟨⟨_, ?_, valid_setCounts s.hdr hS.hv _ _ hbc hec, hS.nm⟩, ?_⟩, ?_⟩, ?_, rfl⟩
            · show rewriteHeader (file ++ _) _ = _
              rw [hfile, render_append_block, rewriteHeader_render]
            · intro b hb
              rcases List.mem_append.mp hb with h | h
              · exact hgood b h
              · simp only [List.mem_singleton] at h; subst h; exact hgb
            · simp only [St.pending, List.flatten_append, List.flatten_cons, List.flatten_nil, List.append_nil,
                List.reverse_nil]
              rw [← hacc]; simp
            · intro s' h'
              simp at h'
              subst h'
              exact ⟨valid_setCounts s.hdr hS.hv _ _ (Nat.mod_lt _ (by decide)) (Nat.mod_lt _ (by decide)), hS.nm,
                Nat.mod_lt _ (by decide), Nat.mod_lt _ (by decide), by simp, by simp [sizeSum], by simp, bufBound_nil cfg bs⟩
          · simp only [Bool.not_eq_true] at hfl
            simp only [hfl, Bool.false_eq_true, if_false]
            refine ⟨⟨blocks, hF, ?_⟩, ?_, rfl⟩
            · simp only [St.pending]; rw [← hacc]; simp
            · intro s' h'
              simp at h'
              subst h'
              refine ⟨hS.hv, hS.nm, hS.bc, hS.ec, hS1pre, hsz, hcnt, ?_⟩
              apply bufBound_of_noFlush
              rw [← hsz, ← hcnt]; exact hfl
    | flush =>
      obtain ⟨blocks', hF', hS', hb', hfl⟩ := flushSess_ok cfg codec crc bs hP name file blocks s hF hS
      simp only [step, acceptedBy, List.append_nil, openAfter]
      refine ⟨⟨blocks', hF', ?_⟩, ?_, rfl⟩
      · simp only [St.pending, hb', List.reverse_nil, List.append_nil, hfl]; exact hacc
      · intro s' h'; simp at h'; subst h'; exact hS'
    | sync =>
      obtain ⟨blocks', hF', hS', hb', hfl⟩ := finishSess_ok cfg codec crc bs hP name file blocks s hF hS
      simp only [step, acceptedBy, List.append_nil, openAfter]
      refine ⟨⟨blocks', hF', ?_⟩, ?_, rfl⟩
      · simp only [St.pending, hb', List.reverse_nil, List.append_nil, hfl]; exact hacc
      · intro s' h'; simp at h'; subst h'; exact hS'
    | close =>
      obtain ⟨blocks', hF', _, _, hfl⟩ := finishSess_ok cfg codec crc bs hP name file blocks s hF hS
      simp only [step, acceptedBy, List.append_nil, openAfter]
      refine ⟨⟨blocks', hF', ?_⟩, ?_, rfl⟩
      · simp only [St.pending, List.append_nil, hfl]; exact hacc
      · intro s' h'; simp at h'
    | reopen =>
      simp only [step, acceptedBy, List.append_nil, openAfter]
      exact ⟨⟨blocks, hF, hacc⟩, hsess, rfl⟩

/-- every accepted write of the history is something the format can carry -/
def WritesOK (cfg : Cfg) (ops : List Op) : Prop :=
  ∀ e ∈ writesOf ops, accepts cfg e = true → EntryOK e

theorem writesOK_cons (cfg : Cfg) (op : Op) (ops : List Op) (h : WritesOK cfg (op :: ops)) :
    (∀ e, op = .write e → accepts cfg e = true → EntryOK e) ∧ WritesOK cfg ops := by
  constructor
  · intro e he; subst he; exact h e (by simp [writesOf])
  · intro e he
    apply h e
    cases op <;> simp [writesOf, he]

/-- final open/closed flag of a history -/
def openAfterAll : Bool → List Op → Bool
  | b, [] => b
  | b, op :: t => openAfterAll (openAfter b op) t

/-- `writer_sessions`: the invariant holds after every history. -/
theorem runOps_inv (cfg : Cfg) (codec : Codec) (crc : Checksum) (bs : Nat) (hP : Params cfg bs)
    (name : Bytes) (ops : List Op) (st : St) (acc : List Entry) (isOpen : Bool)
    (hI : Inv cfg codec crc bs name st acc isOpen) (hW : WritesOK cfg ops) :
    Inv cfg codec crc bs name (runOps cfg codec crc bs st ops) (acc ++ accepted cfg isOpen ops)
      (openAfterAll isOpen ops) := by
  induction ops generalizing st acc isOpen with
  | nil => simpa [runOps, accepted, openAfterAll] using hI
  | cons op ops ih =>
    obtain ⟨h1, h2⟩ := writesOK_cons cfg op ops hW
    have hstep := step_inv cfg codec crc bs hP name st acc isOpen op hI h1
    have := ih (step cfg codec crc bs st op).1 (acc ++ acceptedBy cfg isOpen op) (openAfter isOpen op) hstep h2
    simpa [runOps, accepted, openAfterAll, List.append_assoc] using this

/-- the freshly created file satisfies the invariant -/
theorem createFile_inv (cfg : Cfg) (codec : Codec) (crc : Checksum) (bs : Nat) (name : Bytes) (now : Nat)
    (hn : name.length < 2 ^ 16) : Inv cfg codec crc bs name (createFile name now) [] true := by
  have hmod : name.length % 2 ^ 16 = name.length := Nat.mod_eq_of_lt hn
  have hv : (initHdr name now).Valid :=
    ⟨Or.inr rfl, by simp [initHdr], Nat.mod_lt _ (by decide), Nat.mod_lt _ (by decide), by simp [initHdr],
      by simp [initHdr], by simp [initHdr], Nat.mod_lt _ (by decide), by simp [initHdr], by simp [initHdr]⟩
  refine ⟨⟨[], ⟨⟨initHdr name now, ?_, hv, Or.inl ⟨rfl, hmod⟩⟩, by simp⟩, by simp [St.pending, createFile]⟩, ?_, rfl⟩
  · simp [createFile, render, renderBlocks]
  · intro s hs
    simp [createFile] at hs
    subst hs
    exact ⟨hv, Or.inl ⟨rfl, hmod⟩, by simp, by simp, by simp, by simp [sizeSum], by simp, bufBound_nil cfg bs⟩

/-- What is on disk after a history loads to the replay of the acknowledged writes that have
    left the buffer — for every lawful codec, checksum, block size (within `Params`), name,
    creation time and history. -/
theorem loadIndex_runOps (cfg : Cfg) (codec : Codec) (crc : Checksum) (bs : Nat) (hP : Params cfg bs)
    (name : Bytes) (now : Nat) (hn : name.length < 2 ^ 16) (ops : List Op) (hW : WritesOK cfg ops) :
    ∃ flushed, flushed ++ (runOps cfg codec crc bs (createFile name now) ops).pending = accepted cfg true ops ∧
      loadIndex cfg codec.toDecoder crc (runOps cfg codec crc bs (createFile name now) ops).file
        = .ok (replay cfg flushed, if name.isEmpty then metaName flushed else name) := by
  have hI := runOps_inv cfg codec crc bs hP name ops _ [] true (createFile_inv cfg codec crc bs name now hn) hW
  obtain ⟨⟨blocks, ⟨⟨hdr, hfile, hv, hnl⟩, hgood⟩, hacc⟩, _, _⟩ := hI
  refine ⟨blocks.flatten, by simpa using hacc, ?_⟩
  rw [hfile]
  exact loadIndex_render cfg codec crc hdr name blocks hv hnl hgood

/-- The same from *any* state that satisfies the invariant (e.g. a legacy V2 file that is reopened
    and appended to): what loads is the replay of what was on disk plus what was acknowledged and
    has left the buffer. -/
theorem loadIndex_runOps_from (cfg : Cfg) (codec : Codec) (crc : Checksum) (bs : Nat) (hP : Params cfg bs)
    (name : Bytes) (st0 : St) (acc0 : List Entry) (open0 : Bool)
    (hI0 : Inv cfg codec crc bs name st0 acc0 open0) (ops : List Op) (hW : WritesOK cfg ops) :
    ∃ flushed, flushed ++ (runOps cfg codec crc bs st0 ops).pending = acc0 ++ accepted cfg open0 ops ∧
      loadIndex cfg codec.toDecoder crc (runOps cfg codec crc bs st0 ops).file
        = .ok (replay cfg flushed, if name.isEmpty then metaName flushed else name) := by
  have hI := runOps_inv cfg codec crc bs hP name ops st0 acc0 open0 hI0 hW
  obtain ⟨⟨blocks, ⟨⟨hdr, hfile, hv, hnl⟩, hgood⟩, hacc⟩, _, _⟩ := hI
  refine ⟨blocks.flatten, hacc, ?_⟩
  rw [hfile]
  exact loadIndex_render cfg codec crc hdr name blocks hv hnl hgood

/-- a closed legacy (version 2) file: header, then blocks, no name area -/
def legacyState (codec : Codec) (crc : Checksum) (hdr : FileHeader) (blocks : List (List Entry)) : St :=
  ⟨render codec crc hdr [] blocks, none⟩

theorem legacyState_inv (cfg : Cfg) (codec : Codec) (crc : Checksum) (bs : Nat) (hdr : FileHeader)
    (blocks : List (List Entry)) (hv : hdr.Valid) (h2 : hdr.version = 2) (hg : ∀ b ∈ blocks, GoodBlock b) :
    Inv cfg codec crc bs [] (legacyState codec crc hdr blocks) blocks.flatten false :=
  ⟨⟨blocks, ⟨⟨hdr, rfl, hv, Or.inr ⟨h2, rfl⟩⟩, hg⟩, by simp [legacyState, St.pending]⟩,
   by intro s hs; simp [legacyState] at hs, rfl⟩

end Hv.Storage
