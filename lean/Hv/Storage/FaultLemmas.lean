/-
  Lemmas for C25: with no fault in the result stream the fault-aware writer is the plain writer.
-/
import Hv.Storage.Fault
import Hv.Storage.SessionCrash

namespace Hv.BlockStore

theorem applyRes_ok (d : Disk) (op : FsOp) : d.applyRes op .ok = d.apply op := by
  cases op <;> simp [Disk.applyRes, Res.written, Res.isOk]

theorem issue_nofault (s : FSt) (h : s.rs = []) (op : FsOp) :
    s.issue op = ({ s with d := s.d.apply op, ops := s.ops ++ [(op, .ok)], rs := [] }, .ok) := by
  simp [FSt.issue, nextRes, h, applyRes_ok]

theorem flushW_dirty (mk : Mk) (w : WSt) : (flushW mk w).1.dirty = w.dirty := by
  by_cases hb : w.buf = []
  · rw [flushW_nil mk w hb]
  · rw [flushW_cons mk w hb]

theorem addW_dirty (mk : Mk) (w : WSt) (e : Op) (sz : Nat) : (addW mk w e sz).1.dirty = w.dirty := by
  unfold addW
  split
  · rw [flushW_dirty]; rfl
  · rfl

/-- the count trigger keeps a fault-free buffer below the bound -/
theorem addW_cnt (mk : Mk) (w : WSt) (e : Op) (sz : Nat) : (addW mk w e sz).1.buf.length < maxEnts := by
  unfold addW
  split
  · by_cases hb : (w.push e sz).buf = []
    · rw [flushW_nil mk _ hb, hb]; exact maxEnts_pos
    · rw [flushW_cons mk _ hb]; exact maxEnts_pos
  · rename_i h
    simp only [WSt.full, not_or, Nat.not_le] at h; exact h.2

theorem writeBlockF_nofault (fc : FCfg) (mk : Mk) (s : FSt) (h : s.rs = []) (chunk rest : List Op) (restSzs : List Nat) :
    writeBlockF fc mk s chunk rest restSzs =
      ({ s with w := { s.w with buf := rest, bufSize := restSzs.sum, szs := restSzs, pos := s.w.pos + 16 + (mk chunk).plen },
                d := s.d.applyAll [.write s.w.path s.w.pos (hdrCells (mk chunk)),
                                   .write s.w.path (s.w.pos + 16) (payCells (mk chunk)), .write s.w.path 0 (fhCells s.w.nl)],
                ops := s.ops ++ [(.write s.w.path s.w.pos (hdrCells (mk chunk)), .ok),
                                 (.write s.w.path (s.w.pos + 16) (payCells (mk chunk)), .ok),
                                 (.write s.w.path 0 (fhCells s.w.nl), .ok)],
                rs := [] }, true) := by
  unfold writeBlockF
  simp [FSt.issue, nextRes, h, applyRes_ok, Res.isOk, Disk.applyAll]

/-- no fault (and no fragment waiting to be cut off), and a buffer that goes into one block:
    `flushWF` is `flushW` -/
theorem flushWF_nofault (fc : FCfg) (mk : Mk) (s : FSt) (h : s.rs = []) (hd : s.w.dirty = false)
    (hs : fc.splitsOversizedBuffer = false ∨ s.w.buf.length ≤ maxEnts) :
    (flushWF fc mk s).w = (flushW mk s.w).1 ∧ (flushWF fc mk s).d = s.d.applyAll (flushW mk s.w).2 ∧
    (flushWF fc mk s).rs = [] ∧ (flushWF fc mk s).failed = s.failed := by
  have hsplit : (fc.splitsOversizedBuffer && decide (maxEnts < s.w.buf.length)) = false := by
    rcases hs with hs | hs
    · simp [hs]
    · simp [Nat.not_lt.mpr hs]
  by_cases hb : s.w.buf = []
  · have : flushWF fc mk s = s := by unfold flushWF; simp [hd, hb, flushBlocks]
    rw [this, flushW_nil mk s.w hb]
    exact ⟨rfl, rfl, h, rfl⟩
  · rw [flushW_cons mk s.w hb]
    have : flushWF fc mk s = (writeBlockF fc mk s s.w.buf [] []).1 := by
      unfold flushWF
      simp only [hd, Bool.and_false, Bool.false_eq_true, if_false, Bool.not_true]
      rw [flushBlocks]
      split
      · rename_i hb'; exact absurd hb' hb
      · simp only [hsplit, Bool.false_eq_true, if_false]
    rw [this, writeBlockF_nofault fc mk s h]
    simp [Disk.applyAll, Nat.add_assoc]

theorem addWF_nofault (fc : FCfg) (mk : Mk) (s : FSt) (h : s.rs = []) (hd : s.w.dirty = false)
    (hs : fc.splitsOversizedBuffer = false ∨ s.w.buf.length < maxEnts) (e : Op) (sz : Nat) :
    (addWF fc mk s e sz).w = (addW mk s.w e sz).1 ∧ (addWF fc mk s e sz).d = s.d.applyAll (addW mk s.w e sz).2 ∧
    (addWF fc mk s e sz).rs = [] := by
  unfold addWF addW
  simp only
  split
  · have := flushWF_nofault fc mk { s with w := s.w.push e sz } h hd
      (hs.imp id (fun hl => by simp [WSt.push]; omega))
    cases fc.addReportsFlushError <;> exact ⟨this.1, this.2.1, this.2.2.1⟩
  · exact ⟨rfl, rfl, h⟩

theorem addManyWF_nofault (fc : FCfg) (mk : Mk) (items : List (Op × Nat)) : ∀ (s : FSt), s.rs = [] → s.w.dirty = false →
    (fc.splitsOversizedBuffer = false ∨ s.w.buf.length < maxEnts) →
    (addManyWF fc mk s items).w = (addManyW mk s.w items).1 ∧
    (addManyWF fc mk s items).d = s.d.applyAll (addManyW mk s.w items).2 ∧ (addManyWF fc mk s items).rs = [] := by
  induction items with
  | nil => intro s h _ _; exact ⟨rfl, rfl, h⟩
  | cons it rest ih =>
    intro s h hd hs
    obtain ⟨e, sz⟩ := it
    have h1 := addWF_nofault fc mk s h hd hs e sz
    have hd1 : (addWF fc mk s e sz).w.dirty = false := by rw [h1.1, addW_dirty]; exact hd
    have hs1 : fc.splitsOversizedBuffer = false ∨ (addWF fc mk s e sz).w.buf.length < maxEnts :=
      Or.inr (by rw [h1.1]; exact addW_cnt mk s.w e sz)
    have h2 := ih { addWF fc mk s e sz with failed := false } h1.2.2 hd1 hs1
    simp only [addManyWF, addManyW]
    refine ⟨?_, ?_, h2.2.2⟩
    · rw [h2.1]; simp only; rw [h1.1]
    · rw [h2.2.1]; simp only; rw [h1.2.1, h1.1, Disk.applyAll_append]

theorem addManyW_dirty (mk : Mk) (items : List (Op × Nat)) : ∀ w : WSt, (addManyW mk w items).1.dirty = w.dirty := by
  induction items with
  | nil => intro w; rfl
  | cons it rest ih => intro w; obtain ⟨e, sz⟩ := it; simp only [addManyW]; rw [ih, addW_dirty]

/-- no fault and the descriptor at the end of the file: `syncWF` leaves the file `syncW` leaves -/
theorem syncWF_nofault_disk (c : Cfg) (fc : FCfg) (mk : Mk) (s : FSt) (h : s.rs = []) (hd : s.w.dirty = false)
    (hs : fc.splitsOversizedBuffer = false ∨ s.w.buf.length ≤ maxEnts) :
    (syncWF c fc mk s).d = s.d.applyAll (syncW c mk s.w).2 := by
  have hf := flushWF_nofault fc mk { s with failed := false } h hd hs
  unfold syncWF syncW
  simp only [hf.2.2.2, Bool.false_eq_true, if_false, FSt.issue, hf.2.2.1, nextRes, applyRes_ok, Res.isOk,
    Bool.not_true]
  have hpn : (flushWF fc mk { s with failed := false }).w.path = s.w.path ∧
      (flushWF fc mk { s with failed := false }).w.nl = s.w.nl := by
    rw [hf.1]
    by_cases hb : s.w.buf = []
    · rw [flushW_nil mk s.w hb]; exact ⟨rfl, rfl⟩
    · rw [flushW_cons mk s.w hb]; exact ⟨rfl, rfl⟩
  cases c.syncFsyncs
  · simp [hf.2.1, hpn.1, hpn.2, Disk.applyAll_append, Disk.applyAll]
  · simp [hf.2.1, hpn.1, hpn.2, Disk.applyAll_append, Disk.applyAll, Disk.apply, applyRes_ok, nextRes]

end Hv.BlockStore
