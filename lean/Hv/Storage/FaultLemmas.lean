/-
  Lemmas for C25: with no fault in the result stream the fault-aware writer is the plain writer.
-/
import Hv.Storage.Fault
import Hv.Storage.SessionCrash

namespace Hv.BlockStore

theorem applyRes_ok (d : Disk) (op : FsOp) : d.applyRes op .ok = d.apply op := by
  cases op <;> simp [Disk.applyRes, Res.written, Res.isOk]

theorem issue_nofault (s : FSt) (h : s.rs = []) (op : FsOp) :
    s.issue op = ({ s with d := s.d.apply op, ops := s.ops ++ [(op, .ok)], rs := [] }, .ok) := by
  simp [FSt.issue, nextRes, h, applyRes_ok]

theorem flushW_dirty (mk : Mk) (w : WSt) : (flushW mk w).1.dirty = w.dirty := by
  by_cases hb : w.buf = []
  · rw [flushW_nil mk w hb]
  · rw [flushW_cons mk w hb]

theorem addW_dirty (mk : Mk) (w : WSt) (e : Op) (sz : Nat) : (addW mk w e sz).1.dirty = w.dirty := by
  unfold addW
  simp only
  split
  · rw [flushW_dirty]
  · rfl

/-- no fault (and no fragment waiting to be cut off): `flushWF` is `flushW` -/
theorem flushWF_nofault (fc : FCfg) (mk : Mk) (s : FSt) (h : s.rs = []) (hd : s.w.dirty = false) :
    (flushWF fc mk s).w = (flushW mk s.w).1 ∧ (flushWF fc mk s).d = s.d.applyAll (flushW mk s.w).2 ∧
    (flushWF fc mk s).rs = [] ∧ (flushWF fc mk s).failed = s.failed := by
  by_cases hb : s.w.buf = []
  · have : flushWF fc mk s = s := by unfold flushWF; simp [hd, hb]
    rw [this, flushW_nil mk s.w hb]
    exact ⟨rfl, rfl, h, rfl⟩
  · rw [flushW_cons mk s.w hb]
    unfold flushWF
    simp [hd, hb, FSt.issue, nextRes, h, applyRes_ok, Res.isOk, Disk.applyAll, Nat.add_assoc]

theorem addWF_nofault (fc : FCfg) (mk : Mk) (s : FSt) (h : s.rs = []) (hd : s.w.dirty = false) (e : Op) (sz : Nat) :
    (addWF fc mk s e sz).w = (addW mk s.w e sz).1 ∧ (addWF fc mk s e sz).d = s.d.applyAll (addW mk s.w e sz).2 ∧
    (addWF fc mk s e sz).rs = [] := by
  unfold addWF addW
  simp only
  split
  · have := flushWF_nofault fc mk { s with w := { s.w with buf := s.w.buf ++ [e], bufSize := s.w.bufSize + sz } } h hd
    exact ⟨this.1, this.2.1, this.2.2.1⟩
  · exact ⟨rfl, rfl, h⟩

theorem addManyWF_nofault (fc : FCfg) (mk : Mk) (items : List (Op × Nat)) : ∀ (s : FSt), s.rs = [] → s.w.dirty = false →
    (addManyWF fc mk s items).w = (addManyW mk s.w items).1 ∧
    (addManyWF fc mk s items).d = s.d.applyAll (addManyW mk s.w items).2 ∧ (addManyWF fc mk s items).rs = [] := by
  induction items with
  | nil => intro s h _; exact ⟨rfl, rfl, h⟩
  | cons it rest ih =>
    intro s h hd
    obtain ⟨e, sz⟩ := it
    have h1 := addWF_nofault fc mk s h hd e sz
    have hd1 : (addWF fc mk s e sz).w.dirty = false := by rw [h1.1, addW_dirty]; exact hd
    have h2 := ih { addWF fc mk s e sz with failed := false } h1.2.2 hd1
    simp only [addManyWF, addManyW]
    refine ⟨?_, ?_, h2.2.2⟩
    · rw [h2.1]; simp only; rw [h1.1]
    · rw [h2.2.1]; simp only; rw [h1.2.1, h1.1, Disk.applyAll_append]

theorem addManyW_dirty (mk : Mk) (items : List (Op × Nat)) : ∀ w : WSt, (addManyW mk w items).1.dirty = w.dirty := by
  induction items with
  | nil => intro w; rfl
  | cons it rest ih => intro w; obtain ⟨e, sz⟩ := it; simp only [addManyW]; rw [ih, addW_dirty]

/-- no fault and the descriptor at the end of the file: `syncWF` leaves the file `syncW` leaves -/
theorem syncWF_nofault_disk (c : Cfg) (fc : FCfg) (mk : Mk) (s : FSt) (h : s.rs = []) (hd : s.w.dirty = false) :
    (syncWF c fc mk s).d = s.d.applyAll (syncW c mk s.w).2 := by
  have hf := flushWF_nofault fc mk { s with failed := false } h hd
  unfold syncWF syncW
  simp only [hf.2.2.2, Bool.false_eq_true, if_false, FSt.issue, hf.2.2.1, nextRes, applyRes_ok, Res.isOk,
    Bool.not_true]
  have hpn : (flushWF fc mk { s with failed := false }).w.path = s.w.path ∧
      (flushWF fc mk { s with failed := false }).w.nl = s.w.nl := by
    rw [hf.1]
    by_cases hb : s.w.buf = []
    · rw [flushW_nil mk s.w hb]; exact ⟨rfl, rfl⟩
    · rw [flushW_cons mk s.w hb]; exact ⟨rfl, rfl⟩
  cases c.syncFsyncs
  · simp [hf.2.1, hpn.1, hpn.2, Disk.applyAll_append, Disk.applyAll]
  · simp [hf.2.1, hpn.1, hpn.2, Disk.applyAll_append, Disk.applyAll, Disk.apply, applyRes_ok, nextRes]

end Hv.BlockStore
