/-
  Lemmas for C25: with no fault in the result stream the fault-aware writer is the plain writer.
-/
import Hv.Storage.Fault
import Hv.Storage.SessionCrash

namespace Hv.BlockStore

theorem applyRes_ok (d : Disk) (op : FsOp) : d.applyRes op .ok = d.apply op := by
  cases op <;> simp [Disk.applyRes, Res.written, Res.isOk]

theorem issue_nofault (s : FSt) (h : s.rs = []) (op : FsOp) :
    s.issue op = ({ s with d := s.d.apply op, ops := s.ops ++ [(op, .ok)], rs := [] }, .ok) := by
  simp [FSt.issue, nextRes, h, applyRes_ok]

/-- no fault: `flushWF` is `flushW` -/
theorem flushWF_nofault (fc : FCfg) (mk : Mk) (s : FSt) (h : s.rs = []) :
    (flushWF fc mk s).w = (flushW mk s.w).1 ∧ (flushWF fc mk s).d = s.d.applyAll (flushW mk s.w).2 ∧
    (flushWF fc mk s).rs = [] ∧ (flushWF fc mk s).failed = s.failed := by
  by_cases hb : s.w.buf = []
  · have : flushWF fc mk s = s := by unfold flushWF; rw [hb]
    rw [this, flushW_nil mk s.w hb]
    exact ⟨rfl, rfl, h, rfl⟩
  · rw [flushW_cons mk s.w hb]
    unfold flushWF
    split
    · rename_i hnil; exact absurd hnil hb
    · simp [FSt.issue, nextRes, h, applyRes_ok, Res.isOk, Disk.applyAll, Nat.add_assoc]

theorem addWF_nofault (fc : FCfg) (mk : Mk) (s : FSt) (h : s.rs = []) (e : Op) (sz : Nat) :
    (addWF fc mk s e sz).w = (addW mk s.w e sz).1 ∧ (addWF fc mk s e sz).d = s.d.applyAll (addW mk s.w e sz).2 ∧
    (addWF fc mk s e sz).rs = [] := by
  unfold addWF addW
  simp only
  split
  · have := flushWF_nofault fc mk { s with w := { s.w with buf := s.w.buf ++ [e], bufSize := s.w.bufSize + sz } } h
    exact ⟨this.1, this.2.1, this.2.2.1⟩
  · exact ⟨rfl, rfl, h⟩

theorem addManyWF_nofault (fc : FCfg) (mk : Mk) (items : List (Op × Nat)) : ∀ (s : FSt), s.rs = [] →
    (addManyWF fc mk s items).w = (addManyW mk s.w items).1 ∧
    (addManyWF fc mk s items).d = s.d.applyAll (addManyW mk s.w items).2 ∧ (addManyWF fc mk s items).rs = [] := by
  induction items with
  | nil => intro s h; exact ⟨rfl, rfl, h⟩
  | cons it rest ih =>
    intro s h
    obtain ⟨e, sz⟩ := it
    have h1 := addWF_nofault fc mk s h e sz
    have h2 := ih { addWF fc mk s e sz with failed := false } h1.2.2
    simp only [addManyWF, addManyW]
    refine ⟨?_, ?_, h2.2.2⟩
    · rw [h2.1]; simp only; rw [h1.1]
    · rw [h2.2.1]; simp only; rw [h1.2.1, h1.1, Disk.applyAll_append]

/-- no fault and the descriptor at the end of the file: `syncWF` leaves the file `syncW` leaves -/
theorem syncWF_nofault_disk (c : Cfg) (fc : FCfg) (mk : Mk) (s : FSt) (h : s.rs = []) :
    (syncWF c fc mk s).d = s.d.applyAll (syncW c mk s.w).2 := by
  have hf := flushWF_nofault fc mk { s with failed := false } h
  unfold syncWF syncW
  simp only [hf.2.2.2, Bool.false_eq_true, if_false, FSt.issue, hf.2.2.1, nextRes, applyRes_ok, Res.isOk,
    Bool.not_true]
  have hpn : (flushWF fc mk { s with failed := false }).w.path = s.w.path ∧
      (flushWF fc mk { s with failed := false }).w.nl = s.w.nl := by
    rw [hf.1]
    by_cases hb : s.w.buf = []
    · rw [flushW_nil mk s.w hb]; exact ⟨rfl, rfl⟩
    · rw [flushW_cons mk s.w hb]; exact ⟨rfl, rfl⟩
  cases c.syncFsyncs
  · simp [hf.2.1, hpn.1, hpn.2, Disk.applyAll_append, Disk.applyAll]
  · simp [hf.2.1, hpn.1, hpn.2, Disk.applyAll_append, Disk.applyAll, Disk.apply, applyRes_ok, nextRes]

end Hv.BlockStore
