/-
  Model of the reader (app/core/hydra/swamp/chronicler/v2/reader.go, block.go:ParseBlock) and of
  the explorer's name discovery (app/server/explorer/scanner.go:scanFile).

  A file is a byte string; `os.File` reads are `take`/`drop` on it.  Quirks kept:
    * a short block header (1..15 bytes) is a clean EOF;
    * `io.ReadFull` of the compressed data returns `io.EOF` — a *clean* end for
      `ReadAllEntries` — when not a single byte follows the header; when some but not all
      bytes follow it is `io.ErrUnexpectedEOF` (an error) or, with `cfg.shortPayloadIsEOF`,
      the torn tail of an interrupted append, i.e. also a clean end;
    * a block header whose `CompressedSize` is 0 is the end of the data (`cfg.zeroSizeIsEOF`), and so
      is a block that is entirely there, does not parse, ends in a zero byte and has only zero
      bytes behind it (`cfg.zeroTailIsEOF`): the zero-filled tail a power loss leaves when the file
      size of an append reached the disk and its data did not;
    * `ParseBlock` ignores bytes after the last counted entry;
    * `LoadIndex` ignores operations other than 1..4;
    * `LoadIndex` discards everything on an error, `scanFile` keeps what it saw before it.

  `readBlocks` is a total function by well-founded recursion on the remaining length:
  the termination proof is the model-level content of "the reader never hangs".
-/
import Hv.Storage.Format

namespace Hv.Storage

/-! ### The abstract state: a finite map from keys to payloads -/

abbrev Index := List (Bytes × Bytes)

def Index.del (k : Bytes) (m : Index) : Index := m.filter (fun p => p.1 != k)
def Index.put (k v : Bytes) (m : Index) : Index := (k, v) :: Index.del k m
def Index.find (k : Bytes) (m : Index) : Option Bytes := List.lookup k m

/-- one step of `LoadIndex`'s callback (the swamp-name part is `metaName`) -/
def applyEntry (cfg : Cfg) (m : Index) (e : Entry) : Index :=
  if e.op == opDelete then (if cfg.deleteRemoves then m.del e.key else m)
  else if e.op == opInsert || e.op == opUpdate then m.put e.key e.data
  else m

/-- replay of an entry stream -/
def replay (cfg : Cfg) (es : List Entry) : Index := es.foldl (applyEntry cfg) []

/-- `MetadataEntryKey` = "__swamp_meta__" -/
def metadataKey : Bytes := [0x5f, 0x5f, 0x73, 0x77, 0x61, 0x6d, 0x70, 0x5f, 0x6d, 0x65, 0x74, 0x61, 0x5f, 0x5f]

/-- `LoadIndex`'s V2 fallback: first metadata entry with the reserved key and non-empty data -/
def metaName (es : List Entry) : Bytes :=
  match es.find? (fun e => e.op == opMetadata && e.key == metadataKey && !e.data.isEmpty) with
  | some e => e.data
  | none => []

/-! ### Blocks -/

/-- the end of `ParseBlock`: the counted entries must cover the decoded payload -/
def finishParse (cfg : Cfg) (ulen : Nat) (r : Except Err (List Entry)) : Except Err (List Entry) :=
  match r with
  | .error e => .error e
  | .ok es => if cfg.parseConsumesAll && sizeSum es != ulen then .error .crc else .ok es

/-- `ParseBlock` -/
def parseBlock (cfg : Cfg) (d : Decoder) (crc : Checksum) (h : BlockHeader) (c : Bytes) :
    Except Err (List Entry) :=
  if cfg.validatesCrc && (crc c).toNat != h.crc then .error .crc else
  if cfg.boundsDecodedLen && 32 * c.length + 64 < d.declLen c then .error .crc else
  match d.dec c with
  | none => .error .snappy
  | some u =>
    if cfg.validatesULen && u.length % 2 ^ 32 != h.usize then .error .crc
    else finishParse cfg u.length (parseEntries h.count u)

inductive BlockRes where
  | eof
  | err (e : Err)
  | ok (es : List Entry) (rest : Bytes)

/-- `readNextBlock` at a position where `rest` is what remains of the file, before the two
    zero-tail rules -/
def readNextBlockCore (cfg : Cfg) (d : Decoder) (crc : Checksum) (rest : Bytes) : BlockRes :=
  if shorterThan rest 16 then .eof else
  let h := decodeBlockHeader rest
  let after := rest.drop 16
  if 0 < h.csize && after.isEmpty then .eof
  else if shorterThan after h.csize then (if cfg.shortPayloadIsEOF then .eof else .err .ueof)
  else
    match parseBlock cfg d crc h (after.take h.csize) with
    | .error e => .err e
    | .ok es => .ok es (after.drop h.csize)

theorem readNextBlockCore_ok_length {cfg d crc rest es rest'}
    (h : readNextBlockCore cfg d crc rest = .ok es rest') : rest'.length + 16 ≤ rest.length := by
  unfold readNextBlockCore at h
  simp only [shorterThan_eq, decide_eq_true_eq] at h
  split at h
  · cases h
  · try simp only at h
    split at h
    · cases h
    · split at h
      · split at h <;> cases h
      · split at h
        · cases h
        · cases h
          simp only [List.length_drop]
          omega

/-- `zeroFilledTail`: the payload that did not parse is not empty and ends in a zero byte, and
    nothing but zero bytes follows it up to the end of the file -/
def zeroTail (payload behind : Bytes) : Bool :=
  payload.getLast? == some 0 && behind.all (· == 0)

/-- `readNextBlock`: a zero size field is the end of the data (`cfg.zeroSizeIsEOF`); a block that
    is entirely there but does not parse (every error of `ParseBlock`; `ueof` is the `ReadFull`
    error, which comes before) is the end of the data when it runs out in zeros with only zeros
    behind (`cfg.zeroTailIsEOF`) -/
def readNextBlock (cfg : Cfg) (d : Decoder) (crc : Checksum) (rest : Bytes) : BlockRes :=
  if cfg.zeroSizeIsEOF && (decodeBlockHeader rest).csize == 0 then .eof else
  match readNextBlockCore cfg d crc rest with
  | .eof => .eof
  | .ok es rest' => .ok es rest'
  | .err e =>
    if cfg.zeroTailIsEOF && e != .ueof &&
        zeroTail ((rest.drop 16).take (decodeBlockHeader rest).csize) ((rest.drop 16).drop (decodeBlockHeader rest).csize)
    then .eof else .err e

theorem readNextBlock_ok_core {cfg d crc rest es rest'}
    (h : readNextBlock cfg d crc rest = .ok es rest') : readNextBlockCore cfg d crc rest = .ok es rest' := by
  unfold readNextBlock at h
  split at h
  · cases h
  · split at h
    · cases h
    · rename_i heq; cases h; exact heq
    · split at h <;> cases h

theorem readNextBlock_of_core_ok {cfg d crc rest es rest'}
    (hc : readNextBlockCore cfg d crc rest = .ok es rest')
    (hz : cfg.zeroSizeIsEOF = true → (decodeBlockHeader rest).csize ≠ 0) :
    readNextBlock cfg d crc rest = .ok es rest' := by
  unfold readNextBlock
  rw [hc]
  by_cases h : cfg.zeroSizeIsEOF = true
  · have := hz h
    simp [h, this]
  · simp [h]

theorem readNextBlock_of_core_eof {cfg d crc rest}
    (hc : readNextBlockCore cfg d crc rest = .eof) : readNextBlock cfg d crc rest = .eof := by
  unfold readNextBlock
  rw [hc]
  split <;> rfl

theorem readNextBlock_err_core {cfg d crc rest e}
    (h : readNextBlock cfg d crc rest = .err e) : readNextBlockCore cfg d crc rest = .err e := by
  unfold readNextBlock at h
  split at h
  · cases h
  · split at h
    · cases h
    · cases h
    · rename_i heq
      split at h
      · cases h
      · cases h; exact heq

/-- an error of the core reader stays that error or becomes the end of the data -/
theorem readNextBlock_of_core_err {cfg d crc rest e}
    (hc : readNextBlockCore cfg d crc rest = .err e) :
    readNextBlock cfg d crc rest = .err e ∨ readNextBlock cfg d crc rest = .eof := by
  unfold readNextBlock
  rw [hc]
  split
  · exact Or.inr rfl
  · simp only
    split
    · exact Or.inr rfl
    · exact Or.inl rfl

/-- a block the core reader accepts is accepted, or (zero size field) ends the data -/
theorem readNextBlock_cases_of_core_ok {cfg d crc rest es rest'}
    (hc : readNextBlockCore cfg d crc rest = .ok es rest') :
    readNextBlock cfg d crc rest = .ok es rest' ∨ readNextBlock cfg d crc rest = .eof := by
  unfold readNextBlock
  rw [hc]
  split
  · exact Or.inr rfl
  · exact Or.inl rfl

/-- without the zero-tail rule (and away from a zero size field) errors are reported as they are -/
theorem readNextBlock_of_core_err' {cfg d crc rest e}
    (hc : readNextBlockCore cfg d crc rest = .err e)
    (hz : cfg.zeroSizeIsEOF = true → (decodeBlockHeader rest).csize ≠ 0) (ht : cfg.zeroTailIsEOF = false) :
    readNextBlock cfg d crc rest = .err e := by
  unfold readNextBlock
  rw [hc]
  by_cases h : cfg.zeroSizeIsEOF = true
  · have := hz h
    simp [h, this, ht]
  · simp [h, ht]

theorem readNextBlock_ok_length {cfg d crc rest es rest'}
    (h : readNextBlock cfg d crc rest = .ok es rest') : rest'.length + 16 ≤ rest.length :=
  readNextBlockCore_ok_length (readNextBlock_ok_core h)

/-- The loop of `ReadAllEntries`: every entry read before the clean end or the first error. -/
def readBlocksP (cfg : Cfg) (d : Decoder) (crc : Checksum) (rest : Bytes) : List Entry × Option Err :=
  match h : readNextBlock cfg d crc rest with
  | .eof => ([], none)
  | .err e => ([], some e)
  | .ok es rest' =>
    let r := readBlocksP cfg d crc rest'
    (es ++ r.1, r.2)
termination_by rest.length
decreasing_by
  have := readNextBlock_ok_length h
  omega

/-- `ReadAllEntries` as `LoadIndex` uses it: all or nothing -/
def readBlocks (cfg : Cfg) (d : Decoder) (crc : Checksum) (rest : Bytes) : Except Err (List Entry) :=
  match readBlocksP cfg d crc rest with
  | (es, none) => .ok es
  | (_, some e) => .error e

/-- Same loop with explicit fuel (structural; used to evaluate closed witnesses in the kernel). -/
def readBlocksFuel (cfg : Cfg) (d : Decoder) (crc : Checksum) : Nat → Bytes → List Entry × Option Err
  | 0, _ => ([], none)
  | n + 1, rest =>
    match readNextBlock cfg d crc rest with
    | .eof => ([], none)
    | .err e => ([], some e)
    | .ok es rest' =>
      let r := readBlocksFuel cfg d crc n rest'
      (es ++ r.1, r.2)

/-! ### Opening a file -/

structure Reader where
  hdr : FileHeader
  name : Bytes
  deriving Repr

/-- `NewFileReader` -/
def openReader (file : Bytes) : Except Err Reader :=
  if file.length < 64 then .error .short else
  match decodeFileHeader (file.take 64) with
  | .error e => .error e
  | .ok h =>
    if h.version == 3 && 0 < h.nameLength then
      if file.length < 64 + h.nameLength then .error .short
      else .ok ⟨h, (file.drop 64).take h.nameLength⟩
    else .ok ⟨h, []⟩

/-- `LoadIndex`: the index and the swamp name -/
def loadIndex (cfg : Cfg) (d : Decoder) (crc : Checksum) (file : Bytes) : Except Err (Index × Bytes) :=
  match openReader file with
  | .error e => .error e
  | .ok r =>
    match readBlocks cfg d crc (file.drop r.hdr.dataStart) with
    | .error e => .error e
    | .ok es => .ok (replay cfg es, if r.name.isEmpty then metaName es else r.name)

/-- all entries of a file, in order (`ReadAllEntries` with a collecting callback) -/
def readAll (cfg : Cfg) (d : Decoder) (crc : Checksum) (file : Bytes) : Except Err (List Entry) :=
  match openReader file with
  | .error e => .error e
  | .ok r => readBlocks cfg d crc (file.drop r.hdr.dataStart)

/-- `ReadSwampName` -/
def readSwampName (cfg : Cfg) (d : Decoder) (crc : Checksum) (file : Bytes) : Except Err Bytes :=
  match openReader file with
  | .error e => .error e
  | .ok r =>
    if r.hdr.version == 3 || !cfg.v2Fallback then .ok r.name
    else match loadIndex cfg d crc file with
      | .error e => .error e
      | .ok (_, n) => .ok n

/-- `scanFile`'s own fallback: the first metadata entry with the reserved key (data may be empty),
    among the entries read before the first error. -/
def scanMetaName (es : List Entry) : Bytes :=
  match es.find? (fun e => e.op == opMetadata && e.key == metadataKey) with
  | some e => e.data
  | none => []

/-- the name `scanFile` attributes to a file; `none` = the file is skipped / counted as error -/
def scanName (cfg : Cfg) (d : Decoder) (crc : Checksum) (file : Bytes) : Option Bytes :=
  match openReader file with
  | .error _ => none
  | .ok r =>
    let n := if r.name.isEmpty then scanMetaName (readBlocksP cfg d crc (file.drop r.hdr.dataStart)).1 else r.name
    if n.isEmpty then none else some n

/-- `strings.SplitN(name, "/", 3)` has exactly three parts iff the name has at least two '/' -/
def splits3 (n : Bytes) : Bool := 2 ≤ (n.filter (· == 0x2f)).length

/-- the explorer lists the file under this name -/
def scanListed (cfg : Cfg) (d : Decoder) (crc : Checksum) (file : Bytes) : Option Bytes :=
  match scanName cfg d crc file with
  | some n => if splits3 n then some n else none
  | none => none

/-- `ScanBlockHeaders`: block count, sum of the 16-bit entry counts, sum of the declared
    uncompressed sizes — headers only, seeking over the data (a seek past the end is not an error) -/
def scanHeaders : Nat → Bytes → Nat × Nat × Nat → Nat × Nat × Nat
  | 0, _, acc => acc
  | fuel + 1, rest, (bc, ec, us) =>
    if shorterThan rest 16 then (bc, ec, us) else
    let h := decodeBlockHeader rest
    scanHeaders fuel (rest.drop (16 + h.csize)) (bc + 1, ec + h.count, us + h.usize)

def scanBlockHeaders (file : Bytes) : Except Err (Nat × Nat × Nat) :=
  match openReader file with
  | .error e => .error e
  | .ok r => .ok (scanHeaders (file.length / 16 + 1) (file.drop r.hdr.dataStart) (0, 0, 0))

/-! ### Allocation accounting (C04)

  An upper estimate, in bytes, of what the reader requests from the allocator while loading
  `file`: every `make([]byte, n)` (header buffers, name, compressed data), the decoder's up-front
  output buffer (`declLen`), the `make([]Entry, 0, EntryCount)` (48 bytes per slot) and the
  per-entry copies (bounded by the decoded length, twice: `Deserialize` and `LoadIndex`). -/

def entrySlot : Nat := 48

/-- allocation of `ParseBlock` on compressed bytes `c` -/
def parseAlloc (cfg : Cfg) (d : Decoder) (crc : Checksum) (h : BlockHeader) (c : Bytes) : Nat :=
  if cfg.validatesCrc && (crc c).toNat != h.crc then 0 else
  if cfg.boundsDecodedLen && 32 * c.length + 64 < d.declLen c then 0 else
  d.declLen c +
    (match d.dec c with
     | none => 0
     | some u => if cfg.validatesULen && u.length % 2 ^ 32 != h.usize then 0 else entrySlot * h.count + 2 * u.length)

/-- allocation of one `readNextBlock` (+ `ParseBlock`) -/
def blockAlloc (cfg : Cfg) (d : Decoder) (crc : Checksum) (rest : Bytes) : Nat :=
  if shorterThan rest 16 then 16 else
  let h := decodeBlockHeader rest
  let after := rest.drop 16
  if shorterThan after h.csize then
    -- the bytes are not there: with the bounds check nothing is allocated for them
    16 + (if cfg.boundsCompressedSize then 0 else h.csize)
  else 16 + h.csize + parseAlloc cfg d crc h (after.take h.csize)

/-- `zeroFilledTail` reads what is left of the file through one 64 KiB buffer; it runs at most
    once per load, at the block that ends it -/
def zeroScanAlloc (cfg : Cfg) : Nat := if cfg.zeroTailIsEOF then 65536 else 0

def loadAllocLoop (cfg : Cfg) (d : Decoder) (crc : Checksum) (rest : Bytes) : Nat :=
  match h : readNextBlock cfg d crc rest with
  | .eof => blockAlloc cfg d crc rest + zeroScanAlloc cfg
  | .err _ => blockAlloc cfg d crc rest + zeroScanAlloc cfg
  | .ok _ rest' => blockAlloc cfg d crc rest + loadAllocLoop cfg d crc rest'
termination_by rest.length
decreasing_by
  have := readNextBlock_ok_length h
  omega

/-- allocation of `NewFileReader` + `LoadIndex` -/
def loadAlloc (cfg : Cfg) (d : Decoder) (crc : Checksum) (file : Bytes) : Nat :=
  match openReader file with
  | .error _ => 64 + 65535
  | .ok r => 64 + r.hdr.nameLength + loadAllocLoop cfg d crc (file.drop r.hdr.dataStart)

end Hv.Storage
