/-
  Crash images of a writer session.  A session's operation log, at block granularity, is a
  list of events: a block appended (three writes), a header rewrite, an fsync.  Every crash
  image of such a log holds a byte-prefix of the final file that extends the file as it was at
  the last completed fsync.
-/
import Hv.Storage.Crash

namespace Hv.BlockStore

inductive Ev where
  | blk (b : Block)
  | hdr
  | sync
  deriving Repr

/-- operations of a run of events on a main file of current length `L` -/
def evOps (nl : Nat) : Nat → List Ev → List FsOp
  | _, [] => []
  | L, .blk b :: r =>
    .write .main L (hdrCells b) :: .write .main (L + 16) (payCells b) :: .write .main 0 (fhCells nl) ::
      evOps nl (L + 16 + b.plen) r
  | L, .hdr :: r => .write .main 0 (fhCells nl) :: evOps nl L r
  | L, .sync :: r => .sync .main :: evOps nl L r

def evBlocks : List Ev → List Block
  | [] => []
  | .blk b :: r => b :: evBlocks r
  | _ :: r => evBlocks r

def evSize : List Ev → Nat
  | [] => 0
  | .blk b :: r => 16 + b.plen + evSize r
  | _ :: r => evSize r

theorem evOps_append (nl : Nat) (a b : List Ev) : ∀ L, evOps nl L (a ++ b) = evOps nl L a ++ evOps nl (L + evSize a) b := by
  induction a with
  | nil => intro L; simp [evOps, evSize]
  | cons e r ih =>
    intro L
    cases e with
    | blk x => simp only [List.cons_append, evOps, evSize, ih]; simp [Nat.add_assoc]
    | hdr => simp only [List.cons_append, evOps, evSize, ih]
    | sync => simp only [List.cons_append, evOps, evSize, ih]

theorem evBlocks_append (a b : List Ev) : evBlocks (a ++ b) = evBlocks a ++ evBlocks b := by
  induction a with
  | nil => rfl
  | cons e r ih => cases e <;> simp [evBlocks, ih]

theorem evSize_eq (evs : List Ev) : evSize evs = (render (evBlocks evs)).length := by
  induction evs with
  | nil => simp [evSize, evBlocks, render]
  | cons e r ih => cases e <;> simp [evSize, evBlocks, render, ih] <;> simp [render] at ih <;> omega

/-- the file content that is durable when operation `i` of `evOps … evs` is in flight: the
    file as it was at the last completed fsync (`D` if there was none) -/
def durAt : List Ev → (f D : List Cell) → Nat → List Cell
  | [], _, D, _ => D
  | .blk b :: r, f, D, i => if i < 3 then D else durAt r (f ++ blockCells b) D (i - 3)
  | .hdr :: r, f, D, i => if i < 1 then D else durAt r f D (i - 1)
  | .sync :: r, f, D, i => if i < 1 then D else durAt r f f (i - 1)

/-! ### Peeling operations off an image -/

theorem imageAt_zero (d : Disk) (o : FsOp) (ops : List FsOp) (k : Nat) :
    imageAt d (o :: ops) 0 k = d.applyTorn o k := by
  simp [imageAt, Disk.applyAll]

theorem imageAt_succ (d : Disk) (o : FsOp) (ops : List FsOp) (i k : Nat) :
    imageAt d (o :: ops) (i + 1) k = imageAt (d.apply o) ops i k := by
  simp only [imageAt, List.getElem?_cons_succ, List.take_succ_cons]
  cases ops[i]? <;> rfl

theorem imageAt_nil (d : Disk) (i k : Nat) : imageAt d [] i k = d := by
  simp [imageAt, Disk.applyAll]

theorem lastSyncIdx_cons (o : FsOp) (ops : List FsOp) (i : Nat) :
    lastSyncIdx (o :: ops) (i + 1) =
      if lastSyncIdx ops i = 0 then (if o.isSync then 1 else 0) else lastSyncIdx ops i + 1 := by
  induction i with
  | zero => simp [lastSyncIdx]
  | succ n ih =>
    rw [lastSyncIdx]
    simp only [List.getElem?_cons_succ]
    by_cases h : ((ops[n]?).map FsOp.isSync).getD false = true
    · have : lastSyncIdx ops (n + 1) = n + 1 := by rw [lastSyncIdx]; simp [h]
      simp [h, this]
    · have : lastSyncIdx ops (n + 1) = lastSyncIdx ops n := by rw [lastSyncIdx]; simp [h]
      simp only [h, if_false, this, Bool.false_eq_true]
      exact ih

theorem lastSyncIdx_le (ops : List FsOp) (i : Nat) : lastSyncIdx ops i ≤ i := by
  induction i with
  | zero => simp [lastSyncIdx]
  | succ n ih => rw [lastSyncIdx]; split <;> omega

/-! ### Torn header rewrite -/

theorem splice_hdr_torn {f : List Cell} {nl : Nat} (h : HdrOk f nl) (k : Nat) :
    splice f 0 ((fhCells nl).take k) = f := by
  have hl := h.length
  unfold HdrOk at h
  have hk : (fhCells nl).take k = f.take (min k 64) := by
    rw [← h, List.take_take]
  have hlen : ((fhCells nl).take k).length = min k 64 := by simp
  simp only [splice, Nat.zero_le, if_true, List.take_zero, List.nil_append, hlen, Nat.zero_add]
  rw [hk]
  exact List.take_append_drop _ f

theorem write_main_get (d : Disk) (f : List Cell) (hd : d.main = some f) (off : Nat) (cs : List Cell) :
    (d.apply (.write .main off cs)).main = some (splice f off cs) := by
  simp [Disk.apply, Disk.get, hd, Disk.set]

theorem lastSyncIdx_cons_nosync (o : FsOp) (ho : o.isSync = false) (ops : List FsOp) (i : Nat) :
    lastSyncIdx (o :: ops) (i + 1) = if lastSyncIdx ops i = 0 then 0 else lastSyncIdx ops i + 1 := by
  rw [lastSyncIdx_cons]; simp [ho]

/-- three non-sync operations in front -/
theorem lastSyncIdx_cons3 (a b c : FsOp) (ha : a.isSync = false) (hb : b.isSync = false) (hc : c.isSync = false)
    (ops : List FsOp) (i : Nat) :
    lastSyncIdx (a :: b :: c :: ops) (i + 3) = if lastSyncIdx ops i = 0 then 0 else lastSyncIdx ops i + 3 := by
  rw [show i + 3 = (i + 2) + 1 from rfl, lastSyncIdx_cons_nosync _ ha,
      show i + 2 = (i + 1) + 1 from rfl, lastSyncIdx_cons_nosync _ hb, lastSyncIdx_cons_nosync _ hc]
  by_cases h : lastSyncIdx ops i = 0 <;> simp [h]

theorem durAt_nosync (nl : Nat) (evs : List Ev) : ∀ (L : Nat) (f D : List Cell) (i : Nat),
    lastSyncIdx (evOps nl L evs) i = 0 → durAt evs f D i = D := by
  induction evs with
  | nil => intro L f D i _; rfl
  | cons e r ih =>
    intro L f D i h
    cases e with
    | sync =>
      simp only [durAt]
      cases i with
      | zero => simp
      | succ i' =>
        simp only [evOps] at h
        rw [lastSyncIdx_cons] at h
        simp only [FsOp.isSync, if_true] at h
        split at h <;> omega
    | hdr =>
      simp only [durAt]
      cases i with
      | zero => simp
      | succ i' =>
        simp only [evOps] at h
        rw [lastSyncIdx_cons_nosync _ rfl] at h
        have h0 : lastSyncIdx (evOps nl L r) i' = 0 := by split at h <;> omega
        have : ¬ (i' + 1 < 1) := by omega
        simp only [this, if_false, Nat.add_sub_cancel]
        exact ih L f D i' h0
    | blk b =>
      simp only [durAt]
      by_cases hi : i < 3
      · simp [hi]
      · simp only [hi, if_false]
        obtain ⟨i', rfl⟩ : ∃ i', i = i' + 3 := ⟨i - 3, by omega⟩
        simp only [evOps] at h
        rw [lastSyncIdx_cons3 _ _ _ rfl rfl rfl] at h
        have h0 : lastSyncIdx (evOps nl (L + 16 + b.plen) r) i' = 0 := by
          split at h <;> omega
        simp only [Nat.add_sub_cancel]
        exact ih _ _ D i' h0

theorem lastSyncIdx_small_nosync (a b c : FsOp) (ha : a.isSync = false) (hb : b.isSync = false) (hc : c.isSync = false)
    (ops : List FsOp) (i : Nat) (h : lastSyncIdx (a :: b :: c :: ops) i ≤ 2) :
    lastSyncIdx (a :: b :: c :: ops) i = 0 := by
  by_cases hi : i < 3
  · have e : ∀ n, n < 3 → lastSyncIdx (a :: b :: c :: ops) n = 0 := by
      intro n hn
      match n, hn with
      | 0, _ => simp [lastSyncIdx]
      | 1, _ => simp [lastSyncIdx, ha]
      | 2, _ => simp [lastSyncIdx, ha, hb]
    exact e i hi
  · obtain ⟨i', rfl⟩ : ∃ i', i = i' + 3 := ⟨i - 3, by omega⟩
    rw [lastSyncIdx_cons3 a b c ha hb hc] at h ⊢
    split at h <;> simp_all <;> omega

/-- **Images of a session are prefixes.**  From a main file `f` (header intact, descriptor at
    the end) with durable part `D`, every crash point `(i, j, k)` — `i` in flight, writes since
    `j ≥ last fsync` lost, write `j` torn after `k` bytes — leaves a main file `g` with
    `durable ≤ g ≤ final file`. -/
theorem ev_images (nl : Nat) (evs : List Ev) : ∀ (f D : List Cell) (d : Disk), d.main = some f → HdrOk f nl → D <+: f →
    ∀ i j k, lastSyncIdx (evOps nl f.length evs) i ≤ j → j ≤ i →
      ∃ g, (imageAt d (evOps nl f.length evs) j k).main = some g ∧
        durAt evs f D i <+: g ∧ g <+: f ++ render (evBlocks evs) := by
  induction evs with
  | nil =>
    intro f D d hd _ hD i j k _ _
    exact ⟨f, by simp [evOps, imageAt_nil, hd], by simpa [durAt] using hD, by simp [evBlocks, render]⟩
  | cons e r ih =>
    intro f D d hd hh hD i j k hls hji
    cases e with
    | sync =>
      simp only [evOps, evBlocks] at hls ⊢
      cases j with
      | zero =>
        -- nothing after the fsync in flight can have been lost unless i = 0
        cases i with
        | zero =>
          refine ⟨f, ?_, by simpa [durAt] using hD, List.prefix_append _ _⟩
          rw [imageAt_zero]; simp only [Disk.applyTorn]; split <;> simp [Disk.apply, hd]
        | succ i' =>
          rw [lastSyncIdx_cons] at hls
          simp only [FsOp.isSync, if_true] at hls
          split at hls <;> omega
      | succ j' =>
        cases i with
        | zero => omega
        | succ i' =>
          rw [imageAt_succ]
          have hd' : (d.apply (.sync .main)).main = some f := by simp [Disk.apply, hd]
          rw [lastSyncIdx_cons] at hls
          have hls' : lastSyncIdx (evOps nl f.length r) i' ≤ j' := by split at hls <;> omega
          obtain ⟨g, hg, h1, h2⟩ := ih f f _ hd' hh (List.prefix_refl _) i' j' k hls' (by omega)
          exact ⟨g, hg, by simpa [durAt] using h1, h2⟩
    | hdr =>
      simp only [evOps, evBlocks] at hls ⊢
      have hno : d.apply (.write .main 0 (fhCells nl)) = d := by
        have := header_rewrite_noop d { path := .main, pos := f.length, nl := nl, buf := [], bufSize := 0, bs := 0 } f
          ⟨by simpa [Disk.get] using hd, rfl, hh⟩
        simpa using this
      cases j with
      | zero =>
        refine ⟨f, ?_, ?_, List.prefix_append _ _⟩
        · rw [imageAt_zero]
          simp only [Disk.applyTorn]
          rw [write_main_get d f hd, splice_hdr_torn hh]
        · have h0 : lastSyncIdx (FsOp.write .main 0 (fhCells nl) :: evOps nl f.length r) i = 0 := by omega
          have := durAt_nosync nl (.hdr :: r) f.length f D i (by simpa [evOps] using h0)
          rw [this]; exact hD
      | succ j' =>
        cases i with
        | zero => omega
        | succ i' =>
          rw [imageAt_succ]
          have hd' : (d.apply (.write .main 0 (fhCells nl))).main = some f := by rw [hno]; exact hd
          rw [lastSyncIdx_cons] at hls
          have hls' : lastSyncIdx (evOps nl f.length r) i' ≤ j' := by
            simp only [FsOp.isSync, Bool.false_eq_true, if_false] at hls; split at hls <;> omega
          obtain ⟨g, hg, h1, h2⟩ := ih f D _ hd' hh hD i' j' k hls' (by omega)
          exact ⟨g, hg, by simpa [durAt] using h1, h2⟩
    | blk b =>
      simp only [evOps, evBlocks] at hls ⊢
      have hL : f.length + 16 + b.plen = (f ++ blockCells b).length := by simp; omega
      have hfin : f ++ render (b :: evBlocks r) = (f ++ blockCells b) ++ render (evBlocks r) := by
        simp [render, List.append_assoc]
      -- the disk after the three writes of this block
      have hd1 : (d.apply (.write .main f.length (hdrCells b))).main = some (f ++ hdrCells b) := by
        rw [write_main_get d f hd, splice_end]
      have hd2 : ((d.apply (.write .main f.length (hdrCells b))).apply (.write .main (f.length + 16) (payCells b))).main =
          some (f ++ blockCells b) := by
        rw [write_main_get _ _ hd1]
        have : f.length + 16 = (f ++ hdrCells b).length := by simp
        rw [this, splice_end]; simp [blockCells, List.append_assoc]
      have hh2 : HdrOk (f ++ blockCells b) nl := hh.append _
      have hd3 : (((d.apply (.write .main f.length (hdrCells b))).apply (.write .main (f.length + 16) (payCells b))).apply
          (.write .main 0 (fhCells nl))).main = some (f ++ blockCells b) := by
        rw [write_main_get _ _ hd2, splice_hdr hh2]
      have hdur : j ≤ 2 → durAt (.blk b :: r) f D i = D := by
        intro hj
        have h0 := lastSyncIdx_small_nosync _ _ _ rfl rfl rfl _ i (Nat.le_trans hls hj)
        exact durAt_nosync nl (.blk b :: r) f.length f D i (by simpa [evOps] using h0)
      match j, hji with
      | 0, _ =>
        refine ⟨f ++ (hdrCells b).take k, ?_, ?_, ?_⟩
        · rw [imageAt_zero]; simp only [Disk.applyTorn]; rw [write_main_get d f hd, splice_end]
        · rw [hdur (by omega)]; exact hD.trans (List.prefix_append _ _)
        · rw [hfin, List.append_assoc]
          apply (List.prefix_append_right_inj f).mpr
          exact (List.take_prefix _ _).trans (by simp [blockCells, List.append_assoc])
      | 1, _ =>
        refine ⟨f ++ hdrCells b ++ (payCells b).take k, ?_, ?_, ?_⟩
        · rw [imageAt_succ, imageAt_zero]; simp only [Disk.applyTorn]
          rw [write_main_get _ _ hd1]
          have : f.length + 16 = (f ++ hdrCells b).length := by simp
          rw [this, splice_end]
        · rw [hdur (by omega), List.append_assoc]; exact hD.trans (List.prefix_append _ _)
        · rw [hfin, List.append_assoc, List.append_assoc]
          apply (List.prefix_append_right_inj f).mpr
          simp only [blockCells, List.append_assoc]
          apply (List.prefix_append_right_inj _).mpr
          exact (List.take_prefix _ _).trans (List.prefix_append _ _)
      | 2, _ =>
        refine ⟨f ++ blockCells b, ?_, ?_, ?_⟩
        · rw [imageAt_succ, imageAt_succ, imageAt_zero]; simp only [Disk.applyTorn]
          rw [write_main_get _ _ hd2, splice_hdr_torn hh2]
        · rw [hdur (by omega)]; exact hD.trans (List.prefix_append _ _)
        · rw [hfin]; exact List.prefix_append _ _
      | j' + 3, hji' =>
        obtain ⟨i', rfl⟩ : ∃ i', i = i' + 3 := ⟨i - 3, by omega⟩
        rw [imageAt_succ, imageAt_succ, imageAt_succ, hL]
        rw [lastSyncIdx_cons3 _ _ _ rfl rfl rfl] at hls
        have hls' : lastSyncIdx (evOps nl (f ++ blockCells b).length r) i' ≤ j' := by
          rw [← hL]; split at hls <;> omega
        obtain ⟨g, hg, h1, h2⟩ := ih (f ++ blockCells b) D _ hd3 hh2 (hD.trans (List.prefix_append _ _)) i' j' k hls' (by omega)
        refine ⟨g, hg, ?_, by rw [hfin]; exact h2⟩
        simp only [durAt]
        have : ¬ (i' + 3 < 3) := by omega
        simpa [this] using h1

end Hv.BlockStore
